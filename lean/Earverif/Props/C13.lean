/-
C13 — Zone exclusion silences excluded loudspeakers; channel lock selects one.

Property theorems.  Models: `Earverif/Model/Zone.lean`, `Earverif/Model/ChannelLock.lean`,
`Earverif/Model/CartLock.lean` (`renderCartLock`, `renderPolarLock`: the two paths of
`GainCalc.render` for a point object with zone exclusion and channel lock, in the order the
real code uses); helper lemmas: `Earverif/Proofs/C13*.lean`;
per-layout tables regenerated from /repo on every run: `Earverif/Gen/C13_Tables.lean` (+ C05's region tables and
C01's `LayoutTable`s for sections 12 / 13, where the polar `pan` is the concrete C05 panner / the concrete
`PolarExtentHandler.handle(·, 0, 0, 0)` of C01 around it).

Wording: "zones full" means *full on the polar path; Cartesian: exactly characterised plus the
recorded counter-example* (`cart_reset_characterised`, `cart_zone_not_silent_witness`).
"Within maxDistance" is, in the code and in every statement here, the strict comparison
`distance < maxDistance + 1e-5` on the unweighted distance.
-/
import Earverif.Proofs.C13Zone
import Earverif.Proofs.C13Lock
import Earverif.Gen.C13_Tables
import Earverif.Proofs.C13Real
import Earverif.Proofs.C13CartLock
import Earverif.Proofs.C13Polar
import Earverif.Proofs.C13LockReal
import Earverif.Proofs.C13PolarLock
import Earverif.Proofs.C13Extent
import Earverif.Gen.C01_Tables
import Earverif.Proofs.C13ZoneSpec
import Earverif.Proofs.C13AngleRange

namespace Earverif.C13
open Earverif.Zone Earverif.Zone.Scalar Earverif.Zone.ScalarSqrt Earverif.Lock Earverif.CartLock

/-! ## 1. Priority-group structures and the downmix matrix -/

/-- The structural facts about `ZoneExclusionDownmix.channel_groups` that the theorems need:
one group list per channel; members are channel indices; no group repeats a member; and the
groups of a channel together cover every channel (they partition the layout in the real
code, so whenever some loudspeaker is left there is a usable group). -/
def groupsOK (n : Nat) (gs : List (List (List Nat))) : Bool :=
  gs.length == n &&
  gs.all fun g =>
    g.all (fun grp => grp.all (· < n) && nodupB grp) &&
    (List.range n).all fun j => g.any fun grp => grp.contains j

/-- "some but not all loudspeakers are excluded" -/
def someNotAll (mask : List Bool) : Prop := mask.all id = false ∧ mask.all (fun b => !b) = false

instance (mask : List Bool) : Decidable (someNotAll mask) := by unfold someNotAll; infer_instance

theorem groupsOK_row {n : Nat} {gs : List (List (List Nat))} (h : groupsOK n gs = true) :
    gs.length = n ∧ ∀ g ∈ gs,
      (∀ grp ∈ g, (∀ x ∈ grp, x < n) ∧ nodupB grp = true) ∧
      ∀ j, j < n → ∃ grp ∈ g, j ∈ grp := by
  simp only [groupsOK, Bool.and_eq_true, beq_iff_eq, List.all_eq_true, decide_eq_true_eq,
    List.any_eq_true, List.contains_eq_mem, List.mem_range] at h
  refine ⟨h.1, fun g hg => ⟨fun grp hgrp => ?_, fun j hj => ?_⟩⟩
  · exact (h.2 g hg).1 grp hgrp
  · exact (h.2 g hg).2 j hj

/-- A mask that does not exclude everything leaves a non-excluded channel below its length. -/
theorem exists_not_excluded (mask : List Bool) (h : mask.all id = false) :
    ∃ j, j < mask.length ∧ isExcl mask j = false := by
  induction mask with
  | nil => simp at h
  | cons b m ih =>
    cases b with
    | false => exact ⟨0, by simp, by simp [isExcl]⟩
    | true =>
      simp only [List.all_cons, id_eq, Bool.true_and] at h
      obtain ⟨j, hj, hje⟩ := ih h
      exact ⟨j + 1, by simp [hj], by simpa [isExcl] using hje⟩

/-- With covering groups the `for … else: assert False` is never reached. -/
theorem downmixRow_defined {α : Type} [Scalar α] (n : Nat) (mask : List Bool) (j : Nat)
    (hje : isExcl mask j = false) :
    ∀ (g : List (List Nat)), (∃ grp ∈ g, j ∈ grp) → (downmixRow (α := α) n mask g).isSome := by
  intro g
  induction g with
  | nil => intro h; obtain ⟨grp, hgrp, _⟩ := h; simp at hgrp
  | cons grp rest ih =>
    intro h
    simp only [downmixRow]
    by_cases hall : grp.all (isExcl mask) = true
    · simp only [hall, ↓reduceIte]
      obtain ⟨grp', hgrp', hj⟩ := h
      simp only [List.mem_cons] at hgrp'
      rcases hgrp' with rfl | hin
      · rw [List.all_eq_true] at hall
        have := hall j hj
        rw [hje] at this; exact Bool.noConfusion this
      · exact ih ⟨grp', hin, hj⟩
    · simp [hall]

/-- **`downmix_for_excluded` is defined** for every mask of the right length when the groups
are well-formed (the real method then returns a matrix and no assertion fires). -/
theorem downmix_defined (n : Nat) (gs : List (List (List Nat))) (mask : List Bool)
    (hg : groupsOK n gs = true) (hlen : mask.length = n) :
    ∃ D : List (List Rat), downmixForExcluded n gs mask = some D ∧ D.length = n := by
  obtain ⟨hgl, hrows⟩ := groupsOK_row hg
  unfold downmixForExcluded
  simp only [hlen, bne_self_eq_false, Bool.false_eq_true, ↓reduceIte]
  by_cases htriv : (mask.all id || mask.all fun b => !b) = true
  · simp only [htriv, ↓reduceIte]
    exact ⟨eye n, rfl, by simp [eye]⟩
  · simp only [htriv, Bool.false_eq_true, ↓reduceIte]
    have hnall : mask.all id = false := by
      cases h : mask.all id <;> simp_all
    obtain ⟨j, hj, hje⟩ := exists_not_excluded mask hnall
    have := mapOpt_some_of_forall (downmixRow (α := Rat) n mask) gs (fun g hgm =>
      downmixRow_defined n mask j hje g ((hrows g hgm).2 j (by omega)))
    obtain ⟨D, hD, hl⟩ := this
    exact ⟨D, hD, by omega⟩

/-- The rows of the identity matrix sum to one. -/
theorem eye_row_sum (n i : Nat) (hi : i < n) :
    sumList ((List.range n).map fun j => if i == j then (1 : Rat) else 0) = 1 := by
  have := sum_indicator i n
  simp only [hi, ↓reduceIte] at this
  have e : (fun j => if i == j then (1 : Rat) else 0) = fun j => if i = j then (1 : Rat) else 0 := by
    funext j
    by_cases h : i = j <;> simp [h]
  rw [e]; exact this

/-- **Rows sum to one.** For well-formed groups, every row of every matrix the method returns
sums to exactly 1 (over the rationals: the entries are `1/k` on `k` distinct channels). -/
theorem downmix_rows_sum_one (n : Nat) (gs : List (List (List Nat))) (mask : List Bool)
    (hg : groupsOK n gs = true) (D : List (List Rat)) (hD : downmixForExcluded n gs mask = some D) :
    ∀ row ∈ D, sumList row = 1 := by
  obtain ⟨hgl, hrows⟩ := groupsOK_row hg
  unfold downmixForExcluded at hD
  by_cases hlen : (mask.length != n) = true
  · simp [hlen] at hD
  · simp only [hlen, Bool.false_eq_true, ↓reduceIte] at hD
    by_cases htriv : (mask.all id || mask.all fun b => !b) = true
    · simp only [htriv, ↓reduceIte, Option.some.injEq] at hD
      subst hD
      intro row hrow
      simp only [eye, List.mem_map, List.mem_range] at hrow
      obtain ⟨i, hi, rfl⟩ := hrow
      simpa using eye_row_sum n i hi
    · simp only [htriv, Bool.false_eq_true, ↓reduceIte] at hD
      intro row hrow
      obtain ⟨g, hgm, hrowdef⟩ := mapOpt_mem _ gs D hD row hrow
      obtain ⟨grp, hgrp, hnotall, rfl⟩ := downmixRow_some n mask g row hrowdef
      obtain ⟨hlt, hnd⟩ := (hrows g hgm).1 grp hgrp
      have hnd' : nodupB (notExcluded mask grp) = true := nodupB_filter grp _ hnd
      have hlt' : ∀ x ∈ notExcluded mask grp, x < n := fun x hx =>
        hlt x (List.mem_filter.mp hx).1
      have hpos := notExcluded_pos mask grp hnotall
      generalize notExcluded mask grp = ne at *
      simp only [rat_div, rat_one, rat_ofNat, rat_zero]
      have e : (fun j => if ne.contains j then (1 : Rat) / (ne.length : Rat) else 0) =
          fun j => (1 : Rat) / (ne.length : Rat) * ((ne.count j : Nat) : Rat) := by
        funext j; exact indicator_eq_count ne hnd' _ j
      rw [e, sum_map_mul, sum_count n ne hlt']
      have hk : ((ne.length : Nat) : Rat) ≠ 0 := by
        intro h0
        have : ((ne.length : Nat) : Rat) = ((0 : Nat) : Rat) := h0
        have := Rat.natCast_inj.mp this
        omega
      grind

/-- **Entries are non-negative.** -/
theorem downmix_nonneg (n : Nat) (gs : List (List (List Nat))) (mask : List Bool)
    (D : List (List Rat)) (hD : downmixForExcluded n gs mask = some D) :
    ∀ row ∈ D, ∀ x ∈ row, (0 : Rat) ≤ x := by
  unfold downmixForExcluded at hD
  by_cases hlen : (mask.length != n) = true
  · simp [hlen] at hD
  · simp only [hlen, Bool.false_eq_true, ↓reduceIte] at hD
    by_cases htriv : (mask.all id || mask.all fun b => !b) = true
    · simp only [htriv, ↓reduceIte, Option.some.injEq] at hD
      subst hD
      intro row hrow x hx
      simp only [eye, List.mem_map, List.mem_range] at hrow
      obtain ⟨i, _, rfl⟩ := hrow
      simp only [List.mem_map, List.mem_range] at hx
      obtain ⟨j, _, rfl⟩ := hx
      by_cases h : (i == j) = true <;> simp [h]
    · simp only [htriv, Bool.false_eq_true, ↓reduceIte] at hD
      intro row hrow x hx
      obtain ⟨g, _, hrowdef⟩ := mapOpt_mem _ gs D hD row hrow
      obtain ⟨grp, _, _, rfl⟩ := downmixRow_some n mask g row hrowdef
      simp only [List.mem_map, List.mem_range] at hx
      obtain ⟨j, _, rfl⟩ := hx
      by_cases h : (notExcluded mask grp).contains j = true
      · simp only [h, ↓reduceIte, rat_div, rat_one, rat_ofNat]
        have : (0 : Rat) ≤ ((notExcluded mask grp).length : Rat) := by
          have : ((0 : Nat) : Rat) ≤ ((notExcluded mask grp).length : Rat) := Rat.natCast_le_natCast.mpr (Nat.zero_le _)
          simp at this ⊢
        rw [Rat.div_def, Rat.one_mul]
        exact Rat.inv_nonneg this
      · simp only [h, Bool.false_eq_true, ↓reduceIte, rat_zero]; decide

/-- **Excluded columns are zero** (any scalar type): when some but not all loudspeakers are
excluded, no row routes anything to an excluded loudspeaker `j`. -/
theorem downmix_excluded_col_zero {α : Type} [Scalar α] (n : Nat) (gs : List (List (List Nat)))
    (mask : List Bool) (hsna : someNotAll mask)
    (D : List (List α)) (hD : downmixForExcluded n gs mask = some D)
    (j : Nat) (hj : isExcl mask j = true) :
    ∀ row ∈ D, row.getD j zero = zero := by
  unfold downmixForExcluded at hD
  by_cases hlen : (mask.length != n) = true
  · simp [hlen] at hD
  · simp only [hlen, Bool.false_eq_true, ↓reduceIte] at hD
    have htriv : (mask.all id || mask.all fun b => !b) = false := by
      simp [hsna.1, hsna.2]
    simp only [htriv, Bool.false_eq_true, ↓reduceIte] at hD
    intro row hrow
    obtain ⟨g, _, hrowdef⟩ := mapOpt_mem _ gs D hD row hrow
    obtain ⟨grp, _, _, rfl⟩ := downmixRow_some n mask g row hrowdef
    rw [getD_map_range]
    have : (notExcluded mask grp).contains j = false := by
      simpa using not_mem_notExcluded mask grp j hj
    simp only [this, Bool.false_eq_true, ↓reduceIte, ite_self]

/-! ## 2. Excluded loudspeakers get exactly zero gain -/

/-- **Polar path.** When the zone list excludes some but not all loudspeakers, the direct and
the diffuse gain of every excluded loudspeaker `j` are exactly zero — for every output of the
extent/point-source panner (`pans`), every divergence weighting `dg`, gain and diffuseness,
in any scalar type satisfying `ZeroLaws`.  (`renderPolar` is run, over `Float`, against the real
`render` on per-position gains and divergence weights captured inside the real call: driver op
`rp`; with channel lock it is the tail of `renderPolarLock`, section 10.) -/
theorem polar_excluded_gain_zero {α : Type} [ScalarSqrt α] (hz : ZeroLaws α)
    (n : Nat) (gs : List (List (List Nat))) (mask : List Bool) (hsna : someNotAll mask)
    (pans : List (List α)) (dg : List α) (gain diffuse : α)
    (j : Nat) (hj : j < n) (hex : isExcl mask j = true)
    (out : List α × List α) (hr : renderPolar n gs mask pans dg gain diffuse = some out) :
    out.1[j]? = some zero ∧ out.2[j]? = some zero := by
  unfold renderPolar zoneHandle at hr
  cases hD : downmixForExcluded (α := α) n gs mask with
  | none => simp [hD] at hr
  | some D =>
    simp only [hD, Option.bind_some, Option.some.injEq] at hr
    subst hr
    apply finishGains_zero hz
    exact applyDownmix_zero hz n _ D j hj (downmix_excluded_col_zero n gs mask hsna D hD j hex)

/-- … and with well-formed groups the polar render is defined (no assertion fires), so the
statement above is not vacuous. -/
theorem polar_render_defined (n : Nat) (gs : List (List (List Nat))) (mask : List Bool)
    (hg : groupsOK n gs = true) (hlen : mask.length = n) :
    ∃ D : List (List Rat), downmixForExcluded n gs mask = some D := by
  obtain ⟨D, hD, _⟩ := downmix_defined n gs mask hg hlen
  exact ⟨D, hD⟩

/-- **Cartesian path, final mask.** Every loudspeaker in the mask that `render` actually uses
(`allocentric.get_excluded(…)`) has exactly zero direct and diffuse gain. -/
theorem cart_excluded_gain_zero_on_final_mask {α : Type} [ScalarSqrt α] (hz : ZeroLaws α)
    (final : List Bool) (pans : List (List α)) (dg : List α) (gain diffuse : α)
    (j : Nat) (hex : final[j]? = some true) :
    (renderCart final pans dg gain diffuse).1[j]? = some zero ∧
    (renderCart final pans dg gain diffuse).2[j]? = some zero := by
  unfold renderCart
  apply finishGains_zero hz
  have hj : j < final.length := by
    by_cases h : j < final.length
    · exact h
    · rw [List.getElem?_eq_none (Nat.le_of_not_lt h)] at hex; simp at hex
  apply powerSum_zero hz _ _ _ j hj
  intro row hrow
  simp only [List.mem_map] at hrow
  obtain ⟨g, _, rfl⟩ := hrow
  exact scatter_getD final g j hex

/-- **Cartesian path, characterisation of the reset.** A loudspeaker `j` excluded by the zone
list is missing from the final mask *exactly when* the row extension of the zone mask covers
every loudspeaker; in that case the final mask is empty (nothing at all is excluded).
Otherwise the final mask contains the zone mask. -/
theorem cart_reset_characterised {α : Type} [Scalar α] (pos : List (P3 α)) (mask : List Bool)
    (hlen : pos.length = mask.length) (j : Nat) (hj : isExcl mask j = true) :
    (isExcl (alloExcluded pos mask) j = false ↔ (alloExtend pos mask).all id = true) ∧
    ((alloExtend pos mask).all id = true → alloExcluded pos mask = (alloExtend pos mask).map fun _ => false) ∧
    ((alloExtend pos mask).all id = false → alloExcluded pos mask = alloExtend pos mask) ∧
    isExcl (alloExtend pos mask) j = true := by
  have hmono : isExcl (alloExtend pos mask) j = true := alloExtendFrom_mono pos pos 0 mask hlen j hj
  refine ⟨⟨fun h => ?_, fun h => ?_⟩, fun h => ?_, fun h => ?_, hmono⟩
  · by_cases hall : (alloExtend pos mask).all id = true
    · exact hall
    · unfold alloExcluded at h
      simp only [hall, Bool.false_eq_true, ↓reduceIte] at h
      rw [hmono] at h; exact Bool.noConfusion h
  · unfold alloExcluded
    simp only [h, ↓reduceIte]
    exact isExcl_map_false _ j
  · unfold alloExcluded; simp only [h, ↓reduceIte]
  · unfold alloExcluded; simp only [h, Bool.false_eq_true, ↓reduceIte]

/-! ## 3. The regenerated layout tables -/

def ratOfPair (p : Int × Nat) : Rat := mkRat p.1 p.2

def spkOf (r : List (Int × Nat)) : Spk Rat :=
  match r with
  | [x, y, z, a, e] => ⟨ratOfPair x, ratOfPair y, ratOfPair z, ratOfPair a, ratOfPair e⟩
  | _ => ⟨0, 0, 0, 0, 0⟩

def p3Of (r : List (Int × Nat)) : P3 Rat :=
  match r with
  | [x, y, z] => ⟨ratOfPair x, ratOfPair y, ratOfPair z⟩
  | _ => ⟨0, 0, 0⟩

def azelOf (r : List (Int × Nat)) : Rat × Rat :=
  match r with
  | [a, e] => (ratOfPair a, ratOfPair e)
  | _ => (0, 0)

/-- **Table obligation.** The priority groups that the real `ZoneExclusionDownmix` computes
for each of the ten BS.2051 layouts (regenerated on every run) are well-formed, and all
per-layout tables have one row per channel. -/
theorem tables_groups_ok :
    Gen.C13.layouts.all (fun L =>
      groupsOK L.n L.groups && L.spk.length == L.n && L.allo.length == L.n &&
      L.azel.length == L.n && L.prio.length == L.n &&
      -- every channel's first group is the channel itself (`assert channel_groups_for_i[0] == [i]`)
      (List.range L.n).all (fun i => (L.groups.getD i []).head? == some [i])) = true := by
  decide +kernel

/-- **Table obligation.** The model's priority order (`np.lexsort` key: |elevation|, elevation,
|azimuth|, azimuth) reproduces `channel_priority` of the real handlers on every layout. -/
theorem tables_priorities_ok :
    Gen.C13.layouts.all (fun L => priorities (L.azel.map azelOf) == L.prio) = true := by
  decide +kernel

/-- **Counter-example (known finding `cartesian-zone-extend-reset`).** Layout 0+7+0,
Cartesian zone `x ≤ 0.9` (everything except M-090): the zone list excludes six of the seven
loudspeakers; M+090 sits on the side wall, so its row — which contains M-090 — is added, the
extension covers every loudspeaker and the mask is reset: nothing is excluded and the panner's
gains reach the zone-excluded loudspeakers unchanged. The property as stated is false here. -/
theorem cart_zone_not_silent_witness :
    let L := Gen.C13.L_0_7_0
    let zones : List (Zone Rat) := [.cart (-1) (mkRat 9 10) (-1) 1 (-1) 1]
    let mask := [true, true, true, true, false, true, true]
    getExcluded 4 (L.spk.map spkOf) zones = some mask ∧
    someNotAll mask ∧
    alloExtend (L.allo.map p3Of) mask = [true, true, true, true, true, true, true] ∧
    alloExcluded (L.allo.map p3Of) mask = [false, false, false, false, false, false, false] ∧
    scatter (alloExcluded (L.allo.map p3Of) mask) [1, 2, 3, 4, 5, 6, (7 : Rat)] = [1, 2, 3, 4, 5, 6, 7] := by
  decide +kernel

/-! ## 4. Channel lock -/

/-- **No `maxDistance`.** With at least one candidate loudspeaker the handler returns the
position of a loudspeaker `c` (never the input position, never an error) such that, with `m` a
loudspeaker of minimal weighted distance, `c` is within `tol` of that minimum and has the best
(lowest) priority among all loudspeakers within `tol` of the minimum. Exact arithmetic. -/
theorem lock_returns_speaker_position (tol : Rat) (htol : 0 < tol) (cands : List (Cand Rat))
    (hne : cands ≠ []) :
    ∃ c ∈ cands, lockSelect tol none cands = .locked c.idx ∧
      ∃ m ∈ cands, (∀ c' ∈ cands, m.dw ≤ c'.dw) ∧ c.dw < m.dw + tol ∧
        ∀ c' ∈ cands, c'.dw < m.dw + tol → c.prio ≤ c'.prio :=
  lockSelect_none_spec tol htol cands hne

/-- **With `maxDistance`.** Either no loudspeaker is within `maxDistance + tol` (unweighted
distance) and the position is returned unchanged, or the result is a loudspeaker within that
limit, nearest (weighted distance, within `tol`) among those within the limit, best priority. -/
theorem lock_limit (tol : Rat) (htol : 0 < tol) (md : Rat) (cands : List (Cand Rat)) :
    let poss := cands.filter fun (c : Cand Rat) => decide (c.d < md + tol)
    (poss = [] ∧ lockSelect tol (some md) cands = .unchanged) ∨
    (∃ c ∈ cands, c.d < md + tol ∧ lockSelect tol (some md) cands = .locked c.idx ∧
      ∃ m ∈ poss, (∀ c' ∈ poss, m.dw ≤ c'.dw) ∧ c.dw < m.dw + tol ∧
        ∀ c' ∈ poss, c'.dw < m.dw + tol → c.prio ≤ c'.prio) := by
  intro poss
  have e : lockSelect tol (some md) cands = lockSelect tol none poss := lockSelect_some_eq tol md cands
  by_cases hp : poss = []
  · left
    refine ⟨hp, ?_⟩
    rw [e, hp]; rfl
  · right
    obtain ⟨c, hc, hsel, m, hm, h1, h2, h3⟩ := lockSelect_none_spec tol htol poss hp
    have hc' := List.mem_filter.mp hc
    exact ⟨c, hc'.1, by simpa using hc'.2, by rw [e]; exact hsel, m, hm, h1, h2, h3⟩

/-- The index the whole handler returns belongs to a loudspeaker of the layout that is not
excluded (any scalar type, in particular the `Float` instance that is run against numpy). -/
theorem lock_index_valid {α : Type} [ScalarSqrt α] (allo : Bool) (pos : List (P3 α)) (prio : List Nat)
    (excluded : List Bool) (p : P3 α) (lock : Option (Option α)) (i : Nat)
    (h : lockHandle allo pos prio excluded p lock = .locked i) :
    i < pos.length ∧ isExcl excluded i = false := by
  unfold lockHandle at h
  cases lock with
  | none => simp at h
  | some maxD =>
    simp only at h
    obtain ⟨c, hc, hi⟩ := lockSelect_locked_mem _ _ _ i h
    simp only [List.mem_filterMap, List.mem_filter, List.mem_range] at hc
    obtain ⟨k, ⟨hk, hke⟩, hck⟩ := hc
    rw [List.getElem?_eq_getElem hk] at hck
    simp only [Option.some.injEq] at hck
    subst hck
    simp only at hi
    subst hi
    exact ⟨hk, by simpa using hke⟩

/-- **Nearest, ties by priority — on what renders (over ℝ).** Whenever the handler that
`renderCartLock` / `renderPolarLock` execute (`lockHandle`, allocentric or egocentric) locks to
loudspeaker `i`, that loudspeaker is the one the documented rule selects (`NearestByRule`): it
is a candidate (in the layout, not excluded, at unweighted distance `< maxDistance + 1e-5` when
a limit is given), its weighted distance is within `1e-5` of the minimum over all candidates,
and no candidate within `1e-5` of that minimum has a lower priority value. -/
theorem lockHandle_nearest (allo : Bool) (pos : List (P3 ℝ)) (prio : List Nat) (excluded : List Bool) (p : P3 ℝ)
    (maxD : Option ℝ) (i : Nat) (h : lockHandle allo pos prio excluded p (some maxD) = .locked i) :
    NearestByRule allo pos prio excluded p maxD i := by
  rcases lockHandle_spec allo pos prio excluded p maxD with ⟨_, hu⟩ | ⟨i', hc, hsel, rest⟩
  · rw [hu] at h; exact LockOut.noConfusion h
  · rw [hsel] at h
    injection h with h
    subst h
    exact ⟨hc, rest⟩

/-- **"… or rendered exactly as if unlocked", first half**: the handler returns the position
unchanged exactly when no loudspeaker is a candidate (none left after exclusion, or none at
distance `< maxDistance + 1e-5`). -/
theorem lockHandle_unchanged_iff (allo : Bool) (pos : List (P3 ℝ)) (prio : List Nat) (excluded : List Bool) (p : P3 ℝ)
    (maxD : Option ℝ) :
    lockHandle allo pos prio excluded p (some maxD) = .unchanged ↔ ∀ j, ¬ LockCandidate pos excluded p maxD j := by
  rcases lockHandle_spec allo pos prio excluded p maxD with ⟨hno, hu⟩ | ⟨i', hc, hsel, _⟩
  · exact ⟨fun _ => hno, fun _ => hu⟩
  · constructor
    · intro h; rw [hsel] at h; exact LockOut.noConfusion h
    · intro h; exact absurd hc (h i')

/-- Over ℝ the `ValueError` of the empty `argmin` cannot happen (the tolerance is positive). -/
theorem lockHandle_never_error (allo : Bool) (pos : List (P3 ℝ)) (prio : List Nat) (excluded : List Bool) (p : P3 ℝ)
    (lock : Option (Option ℝ)) : lockHandle allo pos prio excluded p lock ≠ .error := by
  cases lock with
  | none => intro h; exact LockOut.noConfusion h
  | some maxD =>
    rcases lockHandle_spec allo pos prio excluded p maxD with ⟨_, hu⟩ | ⟨i', _, hsel, _⟩
    · rw [hu]; intro h; exact LockOut.noConfusion h
    · rw [hsel]; intro h; exact LockOut.noConfusion h

/-- **No distance limit ⇒ always locked** when at least one loudspeaker is left. -/
theorem lockHandle_no_limit_locks (allo : Bool) (pos : List (P3 ℝ)) (prio : List Nat) (excluded : List Bool) (p : P3 ℝ)
    (j : Nat) (hj : j < pos.length) (hex : isExcl excluded j = false) :
    ∃ i, lockHandle allo pos prio excluded p (some none) = .locked i := by
  rcases lockHandle_spec allo pos prio excluded p none with ⟨hno, _⟩ | ⟨i', _, hsel, _⟩
  · exact absurd ⟨hj, hex, fun md h => by simp at h⟩ (hno j)
  · exact ⟨i', hsel⟩

/-- The unit gain vector `e_i`. -/
def unitVec {α : Type} [Scalar α] (n i : Nat) : List α :=
  (List.range n).map fun j => if j == i then one else zero

/-- **`_partial`: "reproduced by exactly one loudspeaker".** *Hypothesis* `hexact`: the point
source panner `pan` is exact at loudspeaker positions (`pan(position of i) = e_i`) — that is
property C05 (`*_exact_at_vertex`) for the polar panner and the allocentric panner's behaviour
at its grid points; it is not proved here, and it holds for the real polar panner only up to
~1e-17 residues. Under it, a locked object without extent or divergence is panned to the unit
vector of a non-excluded loudspeaker of the layout, so exactly that one loudspeaker is non-zero.
What is missing for the full claim: `hexact` itself, and that index is the nearest one
(`lock_returns_speaker_position`, which is stated on the candidate list). -/
theorem lock_one_speaker_partial {α : Type} [ScalarSqrt α] (pan : P3 α → List α)
    (allo : Bool) (pos : List (P3 α)) (prio : List Nat) (excluded : List Bool) (p : P3 α)
    (maxD : Option α) (i : Nat)
    (hexact : ∀ k (c : P3 α), pos[k]? = some c → pan c = unitVec pos.length k)
    (h : lockHandle allo pos prio excluded p (some maxD) = .locked i) :
    ∃ c, pos[i]? = some c ∧ isExcl excluded i = false ∧ pan c = unitVec pos.length i ∧
      (pan c)[i]? = some one ∧ ∀ j, j < pos.length → j ≠ i → (pan c)[j]? = some zero := by
  obtain ⟨hi, hex⟩ := lock_index_valid allo pos prio excluded p (some maxD) i h
  refine ⟨pos[i], List.getElem?_eq_getElem hi, hex, hexact i _ (List.getElem?_eq_getElem hi), ?_, ?_⟩
  · rw [hexact i _ (List.getElem?_eq_getElem hi)]
    unfold unitVec
    rw [getElem?_map_range _ _ _ hi]; simp
  · intro j hj hne
    rw [hexact i _ (List.getElem?_eq_getElem hi)]
    unfold unitVec
    rw [getElem?_map_range _ _ _ hj]; simp [hne]

/-! ## 5. Screen scaling -/

/-- **Identity.** If the reference screen edges equal the reproduction screen edges (and are
sorted, as `interp_sorted` asserts), `scale_az_el` is the identity on `[−180,180] × [−90,90]`.
Exact arithmetic; in binary64 `(x − a) + a` may differ from `x` in the last bit. -/
theorem screen_identity (e : Edges Rat)
    (h1 : -180 ≤ e.right) (h2 : e.right ≤ e.left) (h3 : e.left ≤ 180)
    (h4 : -90 ≤ e.bottom) (h5 : e.bottom ≤ e.top) (h6 : e.top ≤ 90)
    (az el : Rat) (ha1 : -180 ≤ az) (ha2 : az ≤ 180) (he1 : -90 ≤ el) (he2 : el ≤ 90) :
    scaleAzEl e e az el = some (az, el) := by
  have key : ∀ (a b c d x : Rat), a ≤ b → b ≤ c → c ≤ d → a ≤ x → x ≤ d →
      interp4 a b c d a b c d x = x := by
    intro a b c d x hab hbc hcd hax hxd
    unfold interp4 interp4.seg
    simp only [rat_lt, rat_le, rat_eq, rat_add, rat_sub, rat_mul, rat_div]
    grind
  unfold scaleAzEl
  simp only [rat_le, rat_sub, rat_zero, rat_ofNat]
  have c1 : ((180 : Nat) : Rat) = 180 := rfl
  have c2 : ((90 : Nat) : Rat) = 90 := rfl
  have c3 : (0 : Rat) - 180 = -180 := by grind
  have c4 : (0 : Rat) - 90 = -90 := by grind
  simp only [c1, c2, c3, c4]
  rw [key (-180) e.right e.left 180 az h1 h2 h3 ha1 ha2,
      key (-90) e.bottom e.top 90 el h4 h5 h6 he1 he2]
  simp [h1, h2, h3, h4, h5, h6]

/-- **Identity for the whole polar `screenRef` step.** `ScreenScaleHandler.handle` on a polar block
is `scale_position`: `cart(*scale_az_el(azimuth(p), elevation(p)), |p|)`.  With reference screen =
reproduction screen it returns `p` itself, *given* that the conversions round-trip at `p`
(`cart(azimuth(p), elevation(p), |p|) = p` — property C19's subject; the conversions are
parameters of the model) and that `azimuth`/`elevation` land in `[−180,180] × [−90,90]` (the ranges
of `arctan2`).  In floats the round trip holds to ~1e-16, hence the `1e-7` of the search. -/
theorem screen_position_identity (azimuth elevation norm : P3 Rat → Rat) (cart : Rat → Rat → Rat → P3 Rat)
    (e : Edges Rat)
    (h1 : -180 ≤ e.right) (h2 : e.right ≤ e.left) (h3 : e.left ≤ 180)
    (h4 : -90 ≤ e.bottom) (h5 : e.bottom ≤ e.top) (h6 : e.top ≤ 90) (p : P3 Rat)
    (ha1 : -180 ≤ azimuth p) (ha2 : azimuth p ≤ 180) (he1 : -90 ≤ elevation p) (he2 : elevation p ≤ 90)
    (hround : cart (azimuth p) (elevation p) (norm p) = p) :
    scalePosition azimuth elevation norm cart e e p = some p ∧
    screenHandlePolar azimuth elevation norm cart true e (some e) p = some p ∧
    screenHandlePolar azimuth elevation norm cart false e (some e) p = some p := by
  have h : scalePosition azimuth elevation norm cart e e p = some p := by
    unfold scalePosition
    rw [screen_identity e h1 h2 h3 h4 h5 h6 _ _ ha1 ha2 he1 he2]
    simp [hround]
  exact ⟨h, h, rfl⟩

-- non-vacuity: conversions that round-trip at the point (any would do; here constants), default screen edges
example : scalePosition (fun _ => (10 : Rat)) (fun _ => -80) (fun _ => 1) (fun _ _ _ => ⟨1, 2, 3⟩)
    (⟨29, -29, -35 / 2, 35 / 2⟩ : Edges Rat) ⟨29, -29, -35 / 2, 35 / 2⟩ ⟨1, 2, 3⟩ = some ⟨1, 2, 3⟩ :=
  (screen_position_identity _ _ _ _ _ (by decide +kernel) (by decide +kernel) (by decide +kernel) (by decide +kernel)
    (by decide +kernel) (by decide +kernel) _ (by decide +kernel) (by decide +kernel) (by decide +kernel)
    (by decide +kernel) rfl).1

/-! ## 6. The zero laws hold in the reals; non-vacuity -/

/-- The laws used by the zero-gain theorems hold over ℝ with `Real.sqrt`. -/
theorem zero_laws_real : ZeroLaws ℝ where
  mul_zero x := by show x * 0 = (0 : ℝ); simp
  zero_mul x := by show 0 * x = (0 : ℝ); simp
  add_zero_zero := by show (0 : ℝ) + 0 = 0; simp
  sqrt_zero := Real.sqrt_zero
  nan_zero := rfl

/-! Non-vacuity: concrete inputs satisfying the hypotheses. -/

-- groups of the real 0+5+0 layout are well-formed; a some-but-not-all mask; the matrix exists
example : groupsOK Gen.C13.L_0_5_0.n Gen.C13.L_0_5_0.groups = true := by decide +kernel
example : someNotAll [true, false, false, true, false] := by decide
example : ∃ D : List (List Rat), downmixForExcluded 5 Gen.C13.L_0_5_0.groups [true, false, false, true, false] = some D :=
  polar_render_defined 5 _ _ (by decide +kernel) rfl
-- M+030 and M+110 excluded on 0+5+0: their energy goes to M+000 and M-110 / M-030 … concretely:
example : downmixForExcluded (α := Rat) 5 Gen.C13.L_0_5_0.groups [true, false, false, true, false] =
    some [[0, 0, 1, 0, 0], [0, 1, 0, 0, 0], [0, 0, 1, 0, 0], [0, 0, 0, 0, 1], [0, 0, 0, 0, 1]] := by decide +kernel
-- the polar theorem applies to a defined render over ℝ
example : ∃ out, renderPolar (α := ℝ) 2 [[[0], [1]], [[1], [0]]] [true, false] [[1, 0]] [1] 1 0 = some out :=
  ⟨_, rfl⟩
-- channel lock: two loudspeakers at equal distance, the lower priority value wins
example : lockSelect (1 / 100000 : Rat) none [⟨0, 1, 1, 3⟩, ⟨1, 1, 1, 2⟩, ⟨2, 2, 2, 0⟩] = .locked 1 := by decide +kernel
-- … and a distance limit that nobody meets leaves the position unchanged
example : lockSelect (1 / 100000 : Rat) (some (1 / 2)) [⟨0, 1, 1, 3⟩, ⟨1, 1, 1, 2⟩] = .unchanged := by decide +kernel
-- default screen edges (about ±29°, ±17.5°) satisfy the hypotheses of `screen_identity`
example : scaleAzEl (⟨29, -29, -35 / 2, 35 / 2⟩ : Edges Rat) ⟨29, -29, -35 / 2, 35 / 2⟩ 10 (-80) = some (10, -80) := by
  decide +kernel
-- … and scaling is not the identity for different screens
example : scaleAzEl (⟨29, -29, -35 / 2, 35 / 2⟩ : Edges Rat) ⟨58, -58, -35, 35⟩ 10 5 = some (20, 10) := by
  decide +kernel
-- the row extension that does not cover everything keeps the zone mask (0+7+0, M+000 only is left)
example : alloExcluded (Gen.C13.L_0_7_0.allo.map p3Of) [true, true, false, true, true, true, true] =
    [true, true, false, true, true, true, true] := by decide +kernel

/-! ## 7. The Cartesian path composed: zone mask → row extension → lock → allocentric panner -/

/-- **The locked loudspeaker is never in the final exclusion mask.** In the composed Cartesian
path the lock handler receives the *final* mask (`allocentric.get_excluded` of the zone mask),
so whenever it locks, the chosen loudspeaker `i` is a loudspeaker of the layout that the panner
keeps (`positions[~excluded]` contains it) — it actually receives the gain.  Any scalar type. -/
theorem cart_lock_target_not_excluded {α : Type} [GainCalc.Scalar α] [ScalarSqrt α] (fuel : Nat)
    (spks : List (Spk α)) (allo : List (P3 α)) (prio : List Nat) (zones : List (Zone α)) (p : P3 α)
    (lock : Option (Option α)) (gain diffuse : α) (final : List Bool) (i : Nat) (out : List α × List α)
    (h : renderCartLock fuel spks allo prio zones p lock gain diffuse = some (final, .locked i, out)) :
    ∃ zmask, getExcluded fuel spks zones = some zmask ∧ final = alloExcluded allo zmask ∧
      lockHandle true allo prio final p lock = .locked i ∧ i < allo.length ∧ isExcl final i = false := by
  unfold renderCartLock at h
  cases h1 : getExcluded fuel spks zones with
  | none => simp [h1] at h
  | some zmask =>
    simp only [h1, Option.bind_some] at h
    cases h2 : lockedPosition allo p (lockHandle true allo prio (alloExcluded allo zmask) p lock) with
    | none => simp [h2] at h
    | some q =>
      simp only [h2, Option.bind_some] at h
      cases h3 : speakerTree (keep (alloExcluded allo zmask) allo) with
      | none => simp [h3] at h
      | some st =>
        simp only [h3, Option.bind_some] at h
        cases h4 : GainCalc.alloHandle (keep (alloExcluded allo zmask) allo).length st q.x q.y q.z with
        | none => simp [h4] at h
        | some g =>
          simp only [h4, Option.bind_some, Option.some.injEq, Prod.mk.injEq] at h
          obtain ⟨hf, hl, _⟩ := h
          subst hf
          have hv := lock_index_valid true allo prio (alloExcluded allo zmask) p lock i hl
          exact ⟨zmask, rfl, rfl, hl, hv.1, hv.2⟩

/-- **The allocentric panner is exact at every loudspeaker, for every set of pairwise distinct
positions**: `_speaker_tree` never asserts on them and `AllocentricPanner(positions).handle` at
`positions[k]` returns `e_k` (each balance pan sees an exact key match and returns (1, 1) on the
single plane / row / column).  This covers the grids of the ten layouts and of every subset
`positions[~excluded]` of them. -/
theorem allo_exact_at_speaker (ps : List (P3 ℝ)) (hd : Distinct ps) (k : Nat) (c : P3 ℝ) (hk : ps[k]? = some c) :
    ∃ st, speakerTree ps = some st ∧
      GainCalc.alloHandle ps.length st c.x c.y c.z = some ((List.replicate ps.length (0 : ℝ)).set k 1) := by
  obtain ⟨st, hst, hts, hm⟩ := speakerTree_spec ps hd
  refine ⟨st, hst, ?_⟩
  have hl : (⟨k, c.x, c.y, c.z⟩ : GainCalc.Leaf ℝ) ∈ leaves st := (hm _).mpr ⟨k, c, hk, rfl⟩
  exact alloHandle_at ps.length st hts ⟨k, c.x, c.y, c.z⟩ hl

/-- **Cartesian channel lock: exactly one loudspeaker, no panner hypothesis.** Whenever the
composed Cartesian path locks (with or without `maxDistance`, with any zone list), the rendered
gains are those of the unit vector of the locked loudspeaker `i`: direct `gain·√(1−diffuse)`
and diffuse `gain·√diffuse` at `i`, exactly 0 everywhere else — `i` is not excluded, and `i` is
the loudspeaker the documented rule selects among the loudspeakers left by the final mask
(`NearestByRule`: nearest in the weighted allocentric distance up to `1e-5`, best priority among
those within `1e-5` of the minimum, at unweighted distance `< maxDistance + 1e-5` if limited).
Hypotheses: the allocentric positions are pairwise distinct (table obligation
`tables_allo_ok`) and there is one nominal position per allocentric position. -/
theorem cart_lock_one_speaker (fuel : Nat) (spks : List (Spk ℝ)) (allo : List (P3 ℝ)) (prio : List Nat)
    (zones : List (Zone ℝ)) (p : P3 ℝ) (lock : Option (Option ℝ)) (gain diffuse : ℝ)
    (final : List Bool) (i : Nat) (d f : List ℝ)
    (hdist : Distinct allo) (hlen : spks.length = allo.length)
    (h : renderCartLock fuel spks allo prio zones p lock gain diffuse = some (final, .locked i, (d, f))) :
    isExcl final i = false ∧ i < allo.length ∧
    d = ((List.replicate allo.length (0 : ℝ)).set i 1).map (fun v => v * gain * Real.sqrt (1 - diffuse)) ∧
    f = ((List.replicate allo.length (0 : ℝ)).set i 1).map (fun v => v * gain * Real.sqrt diffuse) ∧
    ∃ maxD, lock = some maxD ∧ NearestByRule true allo prio final p maxD i := by
  obtain ⟨zmask, hz, hfin, hl, hi, hex⟩ :=
    cart_lock_target_not_excluded fuel spks allo prio zones p lock gain diffuse final i (d, f) h
  have hzl : zmask.length = allo.length := by rw [getExcluded_length fuel spks zones zmask hz, hlen]
  have hfl : final.length = allo.length := by rw [hfin, alloExcluded_length allo zmask hzl.symm, hzl]
  have hfi : final[i]? = some false := isExcl_false_getElem? final i (by omega) hex
  have hq : allo[i]? = some allo[i] := List.getElem?_eq_getElem hi
  -- the panner's grid: positions[~final]
  have hsubd : Distinct (keep final allo) := distinct_keep final allo hdist
  have hsubk : (keep final allo)[rank final i]? = some allo[i] := keep_getElem final allo i _ hfi hq
  have hsubl : (keep final allo).length = countF final := keep_length final allo hfl
  obtain ⟨st, hst, hpan⟩ := allo_exact_at_speaker (keep final allo) hsubd (rank final i) allo[i] hsubk
  unfold renderCartLock at h
  simp only [hz, Option.bind_some, ← hfin, hl, lockedPosition, hq, hst, hpan, Option.some.injEq, Prod.mk.injEq,
    true_and] at h
  rw [hsubl] at h
  obtain ⟨h1, h2⟩ := renderCart_unit final i hfi gain diffuse
  rw [hfl] at h1 h2
  refine ⟨hex, hi, ?_, ?_, ?_⟩
  · rw [← h1, h]
  · rw [← h2, h]
  · cases lock with
    | none => exact LockOut.noConfusion hl
    | some maxD => exact ⟨maxD, rfl, lockHandle_nearest true allo prio final p maxD i hl⟩

/-- What `renderCartLock` computed on the way: the zone mask, the final mask and the lock outcome. -/
theorem renderCartLock_parts {α : Type} [GainCalc.Scalar α] [ScalarSqrt α] (fuel : Nat)
    (spks : List (Spk α)) (allo : List (P3 α)) (prio : List Nat) (zones : List (Zone α)) (p : P3 α)
    (lock : Option (Option α)) (gain diffuse : α) (final : List Bool) (lk : LockOut) (out : List α × List α)
    (h : renderCartLock fuel spks allo prio zones p lock gain diffuse = some (final, lk, out)) :
    ∃ zmask, getExcluded fuel spks zones = some zmask ∧ final = alloExcluded allo zmask ∧
      lk = lockHandle true allo prio final p lock ∧
      ∃ g, out = renderCart final [g] [Scalar.one] gain diffuse := by
  unfold renderCartLock at h
  simp only [Option.bind_eq_some_iff, Option.some.injEq, Prod.mk.injEq] at h
  obtain ⟨zmask, hz, q, _, st, _, g, _, e1, e2, e3⟩ := h
  subst e1
  exact ⟨zmask, hz, rfl, e2.symm, g, e3.symm⟩

/-- **"… or rendered exactly as if unlocked" (Cartesian).** When the lock handler leaves the
position unchanged (no loudspeaker left within `maxDistance + 1e-5`), the whole Cartesian
render — masks and both gain vectors — is the render of the same block without `channelLock`.
Any scalar type (in particular the `Float` instance that runs against numpy). -/
theorem cart_lock_unchanged_renders_as_unlocked {α : Type} [GainCalc.Scalar α] [ScalarSqrt α] (fuel : Nat)
    (spks : List (Spk α)) (allo : List (P3 α)) (prio : List Nat) (zones : List (Zone α)) (p : P3 α)
    (lock : Option (Option α)) (gain diffuse : α) (final : List Bool) (out : List α × List α)
    (h : renderCartLock fuel spks allo prio zones p lock gain diffuse = some (final, .unchanged, out)) :
    renderCartLock fuel spks allo prio zones p none gain diffuse = some (final, .unchanged, out) := by
  unfold renderCartLock at h ⊢
  simp only [Option.bind_eq_some_iff, Option.some.injEq, Prod.mk.injEq] at h ⊢
  obtain ⟨zmask, hz, q, hq, st, hst, g, hg, e1, e2, e3⟩ := h
  rw [e2] at hq
  exact ⟨zmask, hz, q, hq, st, hst, g, hg, e1, rfl, e3⟩

/-- **Cartesian channel lock with a distance limit, composed.** With `maxDistance = md` the
Cartesian render is either the unlocked render (exactly when no loudspeaker left by the final
mask is at unweighted distance `< md + 1e-5`), or the unit vector of the loudspeaker the
documented rule selects among those within that limit. -/
theorem cart_lock_limit (fuel : Nat) (spks : List (Spk ℝ)) (allo : List (P3 ℝ)) (prio : List Nat)
    (zones : List (Zone ℝ)) (p : P3 ℝ) (md gain diffuse : ℝ) (final : List Bool) (lk : LockOut) (d f : List ℝ)
    (hdist : Distinct allo) (hlen : spks.length = allo.length)
    (h : renderCartLock fuel spks allo prio zones p (some (some md)) gain diffuse = some (final, lk, (d, f))) :
    (lk = .unchanged ∧ (∀ j, ¬ LockCandidate allo final p (some md) j) ∧
      renderCartLock fuel spks allo prio zones p none gain diffuse = some (final, .unchanged, (d, f))) ∨
    (∃ i, lk = .locked i ∧ NearestByRule true allo prio final p (some md) i ∧ spkDist allo p i < md + 1e-5 ∧
      d = ((List.replicate allo.length (0 : ℝ)).set i 1).map (fun v => v * gain * Real.sqrt (1 - diffuse)) ∧
      f = ((List.replicate allo.length (0 : ℝ)).set i 1).map (fun v => v * gain * Real.sqrt diffuse)) := by
  obtain ⟨zmask, _, _, hlk, _⟩ := renderCartLock_parts fuel spks allo prio zones p _ gain diffuse final lk (d, f) h
  cases lk with
  | error => exact absurd hlk.symm (lockHandle_never_error true allo prio final p _)
  | unchanged =>
    left
    exact ⟨rfl, (lockHandle_unchanged_iff true allo prio final p (some md)).mp hlk.symm,
      cart_lock_unchanged_renders_as_unlocked fuel spks allo prio zones p _ gain diffuse final (d, f) h⟩
  | locked i =>
    right
    obtain ⟨_, _, hd, hf, maxD, hm, hn⟩ :=
      cart_lock_one_speaker fuel spks allo prio zones p _ gain diffuse final i d f hdist hlen h
    simp only [Option.some.injEq] at hm
    subst hm
    exact ⟨i, rfl, hn, hn.1.2.2 md rfl, hd, hf⟩

theorem isExcl_true_getElem? (m : List Bool) (j : Nat) (h : isExcl m j = true) : m[j]? = some true := by
  unfold isExcl at h
  simp only [List.getD] at h
  cases hj : m[j]? with
  | none => simp [hj] at h
  | some b => simp [hj] at h; simp [h]

/-- **Cartesian silence, composed.** In the composed Cartesian path (`renderCartLock`, with or
without channel lock), a loudspeaker `j` excluded by the zone list has exactly zero direct and
diffuse gain whenever the row extension of the zone mask does not cover every loudspeaker — the
exact complement of the recorded counter-example (`cart_reset_characterised`). -/
theorem cart_lock_excluded_gain_zero {α : Type} [GainCalc.Scalar α] [ScalarSqrt α] (hz : ZeroLaws α) (fuel : Nat)
    (spks : List (Spk α)) (allo : List (P3 α)) (prio : List Nat) (zones : List (Zone α)) (p : P3 α)
    (lock : Option (Option α)) (gain diffuse : α) (final : List Bool) (lk : LockOut) (d f : List α)
    (zmask : List Bool) (hlen : spks.length = allo.length)
    (h : renderCartLock fuel spks allo prio zones p lock gain diffuse = some (final, lk, (d, f)))
    (hzm : getExcluded fuel spks zones = some zmask)
    (j : Nat) (hj : isExcl zmask j = true) (hnot : (alloExtend allo zmask).all id = false) :
    d[j]? = some zero ∧ f[j]? = some zero := by
  obtain ⟨zmask', hz', hfin, _, g, hout⟩ := renderCartLock_parts fuel spks allo prio zones p lock gain diffuse final lk (d, f) h
  rw [hzm] at hz'
  simp only [Option.some.injEq] at hz'
  subst hz'
  have hzl : allo.length = zmask.length := by rw [getExcluded_length fuel spks zones zmask hzm, hlen]
  obtain ⟨_, _, hkeep, hmono⟩ := cart_reset_characterised allo zmask hzl j hj
  have hfj : final[j]? = some true := by
    rw [hfin, hkeep hnot]; exact isExcl_true_getElem? _ j hmono
  have := cart_excluded_gain_zero_on_final_mask hz final [g] [Scalar.one] gain diffuse j hfj
  rw [← hout] at this
  exact this

/-- **The composed Cartesian path with a lock and no distance limit is defined and locks**
(non-vacuity of `cart_lock_one_speaker` / `cart_lock_target_not_excluded` for every layout with
pairwise distinct allocentric positions, every zone list whose mask is computed, every position):
`allocentric.get_excluded` never excludes everything, so a candidate is always left. -/
theorem cart_lock_defined (fuel : Nat) (spks : List (Spk ℝ)) (allo : List (P3 ℝ)) (prio : List Nat)
    (zones : List (Zone ℝ)) (p : P3 ℝ) (gain diffuse : ℝ) (zmask : List Bool)
    (hz : getExcluded fuel spks zones = some zmask) (hdist : Distinct allo) (hlen : spks.length = allo.length)
    (hn : 0 < allo.length) :
    ∃ i d f, renderCartLock fuel spks allo prio zones p (some none) gain diffuse =
      some (alloExcluded allo zmask, .locked i, (d, f)) := by
  have hzl : zmask.length = allo.length := by rw [getExcluded_length fuel spks zones zmask hz, hlen]
  have hfl : (alloExcluded allo zmask).length = allo.length := by rw [alloExcluded_length allo zmask hzl.symm, hzl]
  -- the final mask never excludes everything
  have hcand : ∃ j, j < allo.length ∧ isExcl (alloExcluded allo zmask) j = false := by
    by_cases hall : (alloExtend allo zmask).all id = true
    · refine ⟨0, hn, ?_⟩
      unfold alloExcluded
      simp only [hall, ↓reduceIte]
      exact isExcl_map_false _ 0
    · have hall' : (alloExtend allo zmask).all id = false := by simpa using hall
      have e : alloExcluded allo zmask = alloExtend allo zmask := by
        unfold alloExcluded; simp only [hall', Bool.false_eq_true, ↓reduceIte]
      obtain ⟨j, hj, hje⟩ := exists_not_excluded _ hall'
      rw [e]
      refine ⟨j, ?_, hje⟩
      rw [← hfl, e]; exact hj
  obtain ⟨j, hj, hje⟩ := hcand
  obtain ⟨i, hl⟩ := lockHandle_no_limit_locks true allo prio (alloExcluded allo zmask) p j hj hje
  obtain ⟨hi, hex⟩ := lock_index_valid true allo prio _ p _ i hl
  have hfi : (alloExcluded allo zmask)[i]? = some false := isExcl_false_getElem? _ i (by omega) hex
  have hq : allo[i]? = some allo[i] := List.getElem?_eq_getElem hi
  obtain ⟨st, hst, hpan⟩ := allo_exact_at_speaker (keep (alloExcluded allo zmask) allo)
    (distinct_keep _ allo hdist) (rank (alloExcluded allo zmask) i) allo[i] (keep_getElem _ allo i _ hfi hq)
  unfold renderCartLock
  simp only [hz, Option.bind_some, hl, lockedPosition, hq, hst, hpan]
  exact ⟨i, _, _, rfl⟩

/-- **Table obligation.** For each of the ten layouts the allocentric positions are pairwise
distinct, and the model's `_speaker_tree` on them (exact rational arithmetic) reproduces the
grid the real `AllocentricPanner` built (regenerated on every run). -/
theorem tables_allo_ok :
    Gen.C13.layouts.all (fun L =>
      distinctB (L.allo.map p3Of) &&
      ((speakerTree (L.allo.map p3Of)).map fun t => t.map fun pl => pl.map fun row => row.map (·.idx)) == some L.tree)
      = true := by
  decide +kernel

/-- `allo_exact_at_speaker` instantiated with the regenerated tables: on every layout the panner
at loudspeaker `k`'s allocentric position answers `e_k`. -/
theorem allo_exact_at_speaker_layouts (L : Gen.C13.Layout) (hL : L ∈ Gen.C13.layouts) (k : Nat) (c : P3 ℝ)
    (hk : ((L.allo.map p3Of).map castP3)[k]? = some c) :
    ∃ st, speakerTree ((L.allo.map p3Of).map castP3) = some st ∧
      GainCalc.alloHandle ((L.allo.map p3Of).map castP3).length st c.x c.y c.z =
        some ((List.replicate ((L.allo.map p3Of).map castP3).length (0 : ℝ)).set k 1) := by
  have h := tables_allo_ok
  rw [List.all_eq_true] at h
  have hLk := h L hL
  simp only [Bool.and_eq_true] at hLk
  exact allo_exact_at_speaker _ (distinct_cast _ hLk.1) k c hk

/-! ## 8. Cartesian screen scaling: `compensate_position` -/

/-- `np.interp` on a table whose `yp` equals its `xp` is the identity inside the table. -/
theorem interp4_identity (a b c d x : Rat) (_hab : a ≤ b) (_hbc : b ≤ c) (_hcd : c ≤ d) (hax : a ≤ x) (hxd : x ≤ d) :
    interp4 a b c d a b c d x = x := by
  unfold interp4 interp4.seg
  simp only [rat_lt, rat_le, rat_eq, rat_add, rat_sub, rat_mul, rat_div]
  grind

/-- Layouts without U+045: `compensate_position` does nothing, so the Cartesian `screenRef` path is
`point_polar_to_cart ∘ scale_az_el ∘ point_cart_to_polar` (the conversions are C19's subject). -/
theorem compensate_identity_without_U045 {α : Type} [Scalar α] (az el : α) :
    compensatePosition false az el = (az, el) := rfl

/-- Layouts with U+045: at elevation 0 (and 90) the compensation table is the identity table, so
azimuths in [−180, 180] are unchanged; the elevation is never changed. -/
theorem compensate_identity_at_el0 (az : Rat) (h1 : -180 ≤ az) (h2 : az ≤ 180) :
    compensatePosition true az 0 = (az, 0) ∧ compensatePosition true az 90 = (az, 90) := by
  have e0 : interp3 (0 : Rat) 30 90 30 (30 * (30 / 45)) 30 0 = 30 := by decide +kernel
  have e90 : interp3 (0 : Rat) 30 90 30 (30 * (30 / 45)) 30 90 = 30 := by decide +kernel
  have k := interp4_identity (-180) (-30) 30 180 az (by decide +kernel) (by decide +kernel) (by decide +kernel) h1 h2
  have c0 : ((0 : Nat) : Rat) = 0 := rfl
  have c30 : ((30 : Nat) : Rat) = 30 := rfl
  have c45 : ((45 : Nat) : Rat) = 45 := rfl
  have c90 : ((90 : Nat) : Rat) = 90 := rfl
  have c180 : ((180 : Nat) : Rat) = 180 := rfl
  have n180 : (0 : Rat) - 180 = -180 := by grind
  have n30 : (0 : Rat) - 30 = -30 := by grind
  constructor
  · simp only [compensatePosition, ↓reduceIte, rat_ofNat, rat_sub, rat_zero, rat_mul, rat_div, c0, c30, c45, c90,
      c180, e0, n180, n30, k]
  · simp only [compensatePosition, ↓reduceIte, rat_ofNat, rat_sub, rat_zero, rat_mul, rat_div, c0, c30, c45, c90,
      c180, e90, n180, n30, k]

/-- … and it is not the identity in between: at elevation 30 the ±30° table points move to ±20°. -/
example : compensatePosition true (30 : Rat) 30 = (20, 30) := by decide +kernel

-- Non-vacuity of `cart_lock_one_speaker` / `cart_lock_target_not_excluded` / `cart_lock_limit`: `cart_lock_defined`
-- (the composed path with a lock and no limit is always defined and locks) and the `example`s of section 11 on the
-- regenerated 0+5+0 table; the same definition runs over `Float` in the driver, where the correspondence observes
-- hundreds of locking inputs per run (evidence keys "render cart+lock … -> locked").  `Distinct` / equal lengths
-- are discharged for the ten layouts by `tables_allo_ok` and `tables_groups_ok`.

/-! ## 9. Polar channel lock composed with the C05 point-source panner -/

/-- a position as the C05 model's vector -/
def vec3 (p : P3 ℝ) : PointSource.Vec3 ℝ := (p.x, p.y, p.z)

/-- **Table obligation, reused from C05 by import** (`PointSource.tables_wellFormed`): in every
regenerated layout each loudspeaker of the inner panner is a vertex of at least one region. -/
theorem polar_tables_every_speaker_is_vertex :
    Earverif.Gen.C05.layouts.all PointSource.RawLayout.covered = true := by
  have h := PointSource.tables_wellFormed
  rw [List.all_eq_true] at h ⊢
  intro l hl
  have := h l hl
  simp only [PointSource.RawLayout.wellFormed, Bool.and_eq_true] at this
  exact this.1.1.2

/-! ## 10. The polar path composed in the real order: lock (all loudspeakers) → pan → zone downmix -/

/-- **Table obligation (channel lock).** On each of the ten regenerated layouts any two different
loudspeakers are at least `1e-5` apart, both in the egocentric handler's distance (on
`layout.norm_positions`) and in the allocentric handler's weighted distance (so an object
exactly at a loudspeaker locks to that loudspeaker: `lock_at_speaker_table`), and the priorities
are pairwise different (so `NearestByRule` determines the loudspeaker: `nearestByRule_unique`). -/
theorem tables_lock_ok :
    Gen.C13.layouts.all (fun L =>
      separatedB false (L.norm.map p3Of) && separatedB true (L.allo.map p3Of) &&
      L.norm.length == L.n && nodupB L.prio) = true := by
  decide +kernel

/-- **Polar channel lock with zone exclusion, characterised (lock → pan → zone downmix).**
Whenever the composed polar path (`renderPolarLock`, the order of `GainCalc.render`) locks to
loudspeaker `k` — *Hypothesis* `hexact`: the panner returns `e_k` at the position of that
loudspeaker (C05's exactness at a vertex; see `polar_lock_one_speaker_partial`) — then

* `k` is the loudspeaker the documented rule selects among ALL loudspeakers of the layout (the
  polar lock is called without the exclusion mask): `NearestByRule … (replicate n false) …`;
* the rendered gains are `√row · gain · √(1−diffuse)` / `√row · gain · √diffuse`, where `row` is
  row `k` of `downmix_for_excluded(zone mask)`; the row is non-negative and sums to 1 (the power
  is preserved: `polar_lock_power`);
* when some but not all loudspeakers are excluded, the row and both gains are exactly 0 at every
  excluded loudspeaker;
* if `k` itself is not excluded (its first group is `[k]`: `tables_groups_ok`), or the mask is
  empty/full, the row is `e_k`: exactly one loudspeaker, the nearest.

So the property's "exactly one loudspeaker" fails on the polar path exactly when the locked
loudspeaker is excluded and its replacement group has more than one non-excluded member (known
finding `polar-lock-zone-downmix`, witness `polar_lock_zone_two_speakers_witness`). -/
theorem polar_lock_with_zones_characterised (fuel : Nat) (spks : List (Spk ℝ)) (norm : List (P3 ℝ)) (prio : List Nat)
    (groups : List (List (List Nat))) (zones : List (Zone ℝ)) (pan : P3 ℝ → Option (List ℝ)) (p : P3 ℝ)
    (lock : Option (Option ℝ)) (gain diffuse : ℝ) (zmask : List Bool) (k : Nat) (d f : List ℝ)
    (hg : groupsOK norm.length groups = true)
    (hexact : ∀ c, norm[k]? = some c → pan c = some (unitR norm.length k))
    (h : renderPolarLock fuel spks norm prio groups zones pan p lock gain diffuse = some (zmask, .locked k, (d, f))) :
    (∃ maxD, lock = some maxD ∧ NearestByRule false norm prio (List.replicate norm.length false) p maxD k) ∧
    ∃ D row, downmixForExcluded norm.length groups zmask = some D ∧ D[k]? = some row ∧ row.length = norm.length ∧
      d = row.map (fun v => Real.sqrt v * gain * Real.sqrt (1 - diffuse)) ∧
      f = row.map (fun v => Real.sqrt v * gain * Real.sqrt diffuse) ∧
      (∀ v ∈ row, 0 ≤ v) ∧ row.sum = 1 ∧
      (someNotAll zmask → ∀ j, isExcl zmask j = true → row.getD j 0 = 0 ∧ d.getD j 0 = 0 ∧ f.getD j 0 = 0) ∧
      ((isExcl zmask k = false ∧ (groups.getD k []).head? = some [k]) ∨ ¬ someNotAll zmask →
        row = unitR norm.length k) := by
  obtain ⟨hlk, q, g, hq, hpan, hzm, hr⟩ :=
    renderPolarLock_some fuel spks norm prio groups zones pan p lock gain diffuse zmask _ (d, f) h
  have hl := hlk.symm
  obtain ⟨hk, _⟩ := lock_index_valid false norm prio _ p lock k hl
  have hqk : norm[k]? = some q := by simpa [lockedPosition] using hq
  rw [hexact q hqk] at hpan
  simp only [Option.some.injEq] at hpan
  subst hpan
  obtain ⟨hgl, hrows⟩ := groupsOK_row hg
  refine ⟨?_, ?_⟩
  · cases lock with
    | none => exact LockOut.noConfusion hl
    | some maxD => exact ⟨maxD, rfl, lockHandle_nearest false norm prio _ p maxD k hl⟩
  cases hD : downmixForExcluded (α := ℝ) norm.length groups zmask with
  | none => unfold renderPolar zoneHandle at hr; simp [hD] at hr
  | some D =>
    obtain ⟨row, hrow, hrl, hcase⟩ := downmix_row_real norm.length groups zmask D hD hgl k hk
    have hout := renderPolar_unit norm.length k groups zmask D row hD hrow hrl hk gain diffuse
    rw [hr] at hout
    simp only [Option.some.injEq, Prod.mk.injEq] at hout
    obtain ⟨hd, hf⟩ := hout
    have hz0 : ∀ j, row.getD j 0 = 0 → row.getD j 0 = 0 ∧ d.getD j 0 = 0 ∧ f.getD j 0 = 0 := by
      intro j hj
      refine ⟨hj, ?_, ?_⟩
      · rw [hd, getD_map_zero row _ (by simp), hj]; simp
      · rw [hf, getD_map_zero row _ (by simp), hj]; simp
    refine ⟨D, row, rfl, hrow, hrl, hd, hf, ?_⟩
    rcases hcase with ⟨htriv, rfl⟩ | ⟨hnt, grp, hgrp, hnotall, hdr, rfl⟩
    · refine ⟨unitR_nonneg _ _, unitR_sum _ _ hk, ?_, fun _ => rfl⟩
      intro hsna
      simp [hsna.1, hsna.2] at htriv
    · have hmem : groups.getD k [] ∈ groups := by
        have hkg : k < groups.length := by omega
        simp only [List.getD, List.getElem?_eq_getElem hkg, Option.getD_some]
        exact List.getElem_mem hkg
      obtain ⟨hlt, hnd⟩ := (hrows _ hmem).1 grp hgrp
      refine ⟨groupRow_nonneg _ _, ?_, ?_, ?_⟩
      · exact groupRow_sum _ _ (nodupB_filter grp _ hnd) (fun x hx => hlt x (List.mem_filter.mp hx).1)
          (notExcluded_pos zmask grp hnotall)
      · intro _ j hj
        exact hz0 j (groupRow_excluded_zero _ zmask grp j hj)
      · rintro (⟨hne, hhead⟩ | hns)
        · cases hgk : groups.getD k [] with
          | nil => rw [hgk] at hhead; simp at hhead
          | cons g0 rest =>
            rw [hgk] at hhead hdr
            simp only [List.head?_cons, Option.some.injEq] at hhead
            subst hhead
            rw [downmixRow_self norm.length zmask k rest hne] at hdr
            simp only [Option.some.injEq] at hdr
            exact hdr.symm
        · exfalso
          apply hns
          simp only [Bool.or_eq_false_iff] at hnt
          exact ⟨hnt.1, hnt.2⟩

/-- **Power is preserved through lock, pan and zone downmix**: `Σ direct² + Σ diffuse² = gain²`
(for `0 ≤ diffuse ≤ 1`), whatever the zone list does to the locked loudspeaker. -/
theorem polar_lock_power (fuel : Nat) (spks : List (Spk ℝ)) (norm : List (P3 ℝ)) (prio : List Nat)
    (groups : List (List (List Nat))) (zones : List (Zone ℝ)) (pan : P3 ℝ → Option (List ℝ)) (p : P3 ℝ)
    (lock : Option (Option ℝ)) (gain diffuse : ℝ) (zmask : List Bool) (k : Nat) (d f : List ℝ)
    (hg : groupsOK norm.length groups = true)
    (hexact : ∀ c, norm[k]? = some c → pan c = some (unitR norm.length k))
    (h : renderPolarLock fuel spks norm prio groups zones pan p lock gain diffuse = some (zmask, .locked k, (d, f)))
    (hd0 : 0 ≤ diffuse) (hd1 : diffuse ≤ 1) :
    (d.map fun x => x * x).sum + (f.map fun x => x * x).sum = gain * gain := by
  obtain ⟨_, D, row, _, _, _, hd, hf, h0, hs, _, _⟩ :=
    polar_lock_with_zones_characterised fuel spks norm prio groups zones pan p lock gain diffuse zmask k d f hg hexact h
  rw [hd, hf]
  exact power_of_row row gain diffuse h0 hs hd0 hd1

theorem unitR_map_sqrt (n k : Nat) (c : ℝ) :
    (unitR n k).map (fun v => Real.sqrt v * c) = (unitR n k).map (fun v => v * c) := by
  apply List.map_congr_left
  intro v hv
  rcases unitR_mem n k v hv with h | h <;> simp [h]

/-- **Polar channel lock: exactly one loudspeaker, the nearest** — whenever the locked loudspeaker
is not itself excluded by the zone list (in particular with no `zoneExclusion`, where the mask is
all-false).  *Hypothesis* `hexact` as in `polar_lock_with_zones_characterised`. -/
theorem polar_lock_one_speaker (fuel : Nat) (spks : List (Spk ℝ)) (norm : List (P3 ℝ)) (prio : List Nat)
    (groups : List (List (List Nat))) (zones : List (Zone ℝ)) (pan : P3 ℝ → Option (List ℝ)) (p : P3 ℝ)
    (lock : Option (Option ℝ)) (gain diffuse : ℝ) (zmask : List Bool) (k : Nat) (d f : List ℝ)
    (hg : groupsOK norm.length groups = true)
    (hexact : ∀ c, norm[k]? = some c → pan c = some (unitR norm.length k))
    (h : renderPolarLock fuel spks norm prio groups zones pan p lock gain diffuse = some (zmask, .locked k, (d, f)))
    (hne : isExcl zmask k = false) (hhead : (groups.getD k []).head? = some [k]) :
    k < norm.length ∧
    d = (unitR norm.length k).map (fun v => v * gain * Real.sqrt (1 - diffuse)) ∧
    f = (unitR norm.length k).map (fun v => v * gain * Real.sqrt diffuse) ∧
    ∃ maxD, lock = some maxD ∧ NearestByRule false norm prio (List.replicate norm.length false) p maxD k := by
  obtain ⟨hn, D, row, _, _, _, hd, hf, _, _, _, hunit⟩ :=
    polar_lock_with_zones_characterised fuel spks norm prio groups zones pan p lock gain diffuse zmask k d f hg hexact h
  have hrow := hunit (Or.inl ⟨hne, hhead⟩)
  subst hrow
  obtain ⟨maxD, hm, hnr⟩ := hn
  refine ⟨hnr.1.1, ?_, ?_, maxD, hm, hnr⟩
  · rw [hd]
    have := unitR_map_sqrt norm.length k (gain * Real.sqrt (1 - diffuse))
    simpa [mul_assoc] using this
  · rw [hf]
    have := unitR_map_sqrt norm.length k (gain * Real.sqrt diffuse)
    simpa [mul_assoc] using this

/-- **"… or rendered exactly as if unlocked" (polar).** When the lock handler leaves the position
unchanged, the whole polar render is the render of the same block without `channelLock`.
Any scalar type. -/
theorem polar_lock_unchanged_renders_as_unlocked {α : Type} [ScalarSqrt α] (fuel : Nat)
    (spks : List (Spk α)) (norm : List (P3 α)) (prio : List Nat) (groups : List (List (List Nat)))
    (zones : List (Zone α)) (pan : P3 α → Option (List α)) (p : P3 α) (lock : Option (Option α)) (gain diffuse : α)
    (zmask : List Bool) (out : List α × List α)
    (h : renderPolarLock fuel spks norm prio groups zones pan p lock gain diffuse = some (zmask, .unchanged, out)) :
    renderPolarLock fuel spks norm prio groups zones pan p none gain diffuse = some (zmask, .unchanged, out) := by
  unfold renderPolarLock at h ⊢
  simp only [Option.bind_eq_some_iff, Option.some.injEq, Prod.mk.injEq] at h ⊢
  obtain ⟨q, hq, g, hg, zm, hz, o, ho, e1, e2, e3⟩ := h
  rw [e2] at hq
  exact ⟨q, hq, g, hg, zm, hz, o, ho, e1, rfl, e3⟩

/-- **Polar channel lock with a distance limit, composed** (no panner hypothesis): with
`maxDistance = md` the polar render is either the unlocked render — exactly when no loudspeaker of
the layout is at distance `< md + 1e-5` — or it is locked to the loudspeaker the documented rule
selects among those within that limit (then `polar_lock_with_zones_characterised` applies). -/
theorem polar_lock_limit (fuel : Nat) (spks : List (Spk ℝ)) (norm : List (P3 ℝ)) (prio : List Nat)
    (groups : List (List (List Nat))) (zones : List (Zone ℝ)) (pan : P3 ℝ → Option (List ℝ)) (p : P3 ℝ)
    (md gain diffuse : ℝ) (zmask : List Bool) (lk : LockOut) (out : List ℝ × List ℝ)
    (h : renderPolarLock fuel spks norm prio groups zones pan p (some (some md)) gain diffuse = some (zmask, lk, out)) :
    (lk = .unchanged ∧ (∀ j, ¬ LockCandidate norm (List.replicate norm.length false) p (some md) j) ∧
      renderPolarLock fuel spks norm prio groups zones pan p none gain diffuse = some (zmask, .unchanged, out)) ∨
    (∃ i, lk = .locked i ∧ NearestByRule false norm prio (List.replicate norm.length false) p (some md) i ∧
      spkDist norm p i < md + 1e-5) := by
  obtain ⟨hlk, _⟩ := renderPolarLock_some fuel spks norm prio groups zones pan p _ gain diffuse zmask lk out h
  cases lk with
  | error => exact absurd hlk.symm (lockHandle_never_error false norm prio _ p _)
  | unchanged =>
    left
    exact ⟨rfl, (lockHandle_unchanged_iff false norm prio _ p (some md)).mp hlk.symm,
      polar_lock_unchanged_renders_as_unlocked fuel spks norm prio groups zones pan p _ gain diffuse zmask out h⟩
  | locked i =>
    right
    have hn := lockHandle_nearest false norm prio _ p (some md) i hlk.symm
    exact ⟨i, rfl, hn, hn.1.2.2 md rfl⟩

/-- **`_partial`: polar lock composed with the C05 panner, first accepting region a triplet.**
`renderPolarLock` with `PointSourcePanner.handle` as the panner locks to loudspeaker `i`, which
the zone list does not exclude.  *Remaining hypothesis* (`hpre`, `hvert`): the first region of
the panner that accepts the direction of loudspeaker `i` is a triplet (invertible, distinct
channels) that has `i` as a vertex at exactly that position — then the panner returns `e_i`
(C05 `triplet_exact_at_vertex`) and the render is the unit vector of the nearest loudspeaker.
Not proved here: that hypothesis for the real region lists (every loudspeaker *is* a vertex of
some region — `polar_tables_every_speaker_is_vertex` — but that the *first accepting* one is such
a region depends on the facet geometry: C05 totality), the downmix wrappers (0+2+0, virtual
loudspeakers), the polar extent panner around the point-source panner, float rounding (~1e-17). -/
theorem polar_lock_one_speaker_partial
    (regions : List (PointSource.Region ℝ)) (roots : Nat → Option ℝ × Option ℝ)
    (fuel : Nat) (spks : List (Spk ℝ)) (norm : List (P3 ℝ)) (prio : List Nat)
    (groups : List (List (List Nat))) (zones : List (Zone ℝ)) (p : P3 ℝ)
    (lock : Option (Option ℝ)) (gain diffuse : ℝ) (zmask : List Bool) (i : Nat) (d f : List ℝ)
    (hg : groupsOK norm.length groups = true)
    (h : renderPolarLock fuel spks norm prio groups zones
      (fun q => PointSource.PointSourcePanner.handle regions norm.length roots (vec3 q)) p lock gain diffuse =
        some (zmask, .locked i, (d, f)))
    (hne : isExcl zmask i = false) (hhead : (groups.getD i []).head? = some [i])
    (k : Nat) (hk : k < regions.length) (c0 c1 c2 : Nat) (P : PointSource.Mat3 ℝ)
    (hreg : regions[k] = .triplet [c0, c1, c2] P) (hdet : PointSource.det3 P ≠ 0)
    (d01 : c0 ≠ c1) (d02 : c0 ≠ c2) (d12 : c1 ≠ c2)
    (hpre : ∀ c, norm[i]? = some c → ∀ j, ∀ hj : j < k, regions[j].handle (roots j) (vec3 c) = none)
    (hvert : ∀ c, norm[i]? = some c →
      (c0 = i ∧ P.1 = vec3 c) ∨ (c1 = i ∧ P.2.1 = vec3 c) ∨ (c2 = i ∧ P.2.2 = vec3 c)) :
    i < norm.length ∧
    d = (unitR norm.length i).map (fun v => v * gain * Real.sqrt (1 - diffuse)) ∧
    f = (unitR norm.length i).map (fun v => v * gain * Real.sqrt diffuse) ∧
    ∃ maxD, lock = some maxD ∧ NearestByRule false norm prio (List.replicate norm.length false) p maxD i := by
  apply polar_lock_one_speaker fuel spks norm prio groups zones _ p lock gain diffuse zmask i d f hg ?_ h hne hhead
  intro c hc
  obtain ⟨e1, e2, e3⟩ := PointSource.triplet_exact_at_vertex P hdet
  obtain ⟨s1, s2, s3⟩ := scatter_triplet_unit norm.length c0 c1 c2 d01 d02 d12
  show PointSource.PointSourcePanner.handle regions norm.length roots (vec3 c) = some (unitR norm.length i)
  apply panner_first_accept regions norm.length roots (vec3 c) k hk _ (hpre c hc)
  rw [hreg]
  simp only [PointSource.Region.channels, PointSource.Region.handle, PointSource.remap, unitR]
  rcases hvert c hc with ⟨rfl, hv⟩ | ⟨rfl, hv⟩ | ⟨rfl, hv⟩
  · rw [← hv, e1]; simp [PointSource.vecList, s1]
  · rw [← hv, e2]; simp [PointSource.vecList, s2]
  · rw [← hv, e3]; simp [PointSource.vecList, s3]

/-- **`_partial`: polar lock composed with the C05 panner, first accepting region a quad.** Same
statement when the first region accepting the direction of the locked loudspeaker `i` is a
quadrilateral whose selected roots put that direction at pan-square corner `m` (`quad_corner` of
C05; the roots come from `np.roots`, a parameter of the C05 model) and channel number `order[m]`
of the region is `i`. -/
theorem polar_lock_one_speaker_quad_partial
    (regions : List (PointSource.Region ℝ)) (roots : Nat → Option ℝ × Option ℝ)
    (fuel : Nat) (spks : List (Spk ℝ)) (norm : List (P3 ℝ)) (prio : List Nat)
    (groups : List (List (List Nat))) (zones : List (Zone ℝ)) (p : P3 ℝ)
    (lock : Option (Option ℝ)) (gain diffuse : ℝ) (zmask : List Bool) (i : Nat) (d f : List ℝ)
    (hg : groupsOK norm.length groups = true)
    (h : renderPolarLock fuel spks norm prio groups zones
      (fun q => PointSource.PointSourcePanner.handle regions norm.length roots (vec3 q)) p lock gain diffuse =
        some (zmask, .locked i, (d, f)))
    (hne : isExcl zmask i = false) (hhead : (groups.getD i []).head? = some [i])
    (k : Nat) (hk : k < regions.length) (a b c d' : Nat) (Q : PointSource.QuadRegion ℝ)
    (hreg : regions[k] = .quad [a, b, c, d'] Q)
    (dab : a ≠ b) (dac : a ≠ c) (dad : a ≠ d') (dbc : b ≠ c) (dbd : b ≠ d') (dcd : c ≠ d')
    (ho : PointSource.isPermOfRange Q.order 4 = true)
    (x y : ℝ) (m : Nat) (hroots : roots k = (some x, some y))
    (hm : (x, y, m) ∈ [((0 : ℝ), (0 : ℝ), 0), (1, 0, 1), (1, 1, 2), (0, 1, 3)])
    (hchan : [a, b, c, d'].getD (Q.order.getD m 0) 0 = i)
    (hacc : ∀ q, norm[i]? = some q → ∃ out, Q.handle (some x) (some y) (vec3 q) = some out)
    (hpre : ∀ q, norm[i]? = some q → ∀ j, ∀ hj : j < k, regions[j].handle (roots j) (vec3 q) = none) :
    i < norm.length ∧
    d = (unitR norm.length i).map (fun v => v * gain * Real.sqrt (1 - diffuse)) ∧
    f = (unitR norm.length i).map (fun v => v * gain * Real.sqrt diffuse) ∧
    ∃ maxD, lock = some maxD ∧ NearestByRule false norm prio (List.replicate norm.length false) p maxD i := by
  apply polar_lock_one_speaker fuel spks norm prio groups zones _ p lock gain diffuse zmask i d f hg ?_ h hne hhead
  intro q hq
  obtain ⟨out, hacc⟩ := hacc q hq
  have hout := PointSource.quad_corner Q (vec3 q) x y m out ho hm hacc
  have hlt : Q.order.getD m 0 < 4 := by
    have hm4 : m < 4 := by
      simp only [List.mem_cons, Prod.mk.injEq, List.mem_nil_iff, or_false] at hm
      rcases hm with ⟨_, _, rfl⟩ | ⟨_, _, rfl⟩ | ⟨_, _, rfl⟩ | ⟨_, _, rfl⟩ <;> omega
    simp only [PointSource.isPermOfRange, Bool.and_eq_true, beq_iff_eq, List.all_eq_true, decide_eq_true_eq] at ho
    have hl : m < Q.order.length := by omega
    rw [List.getD_eq_getElem?_getD, List.getElem?_eq_getElem hl, Option.getD_some]
    exact ho.1.2 _ (List.getElem_mem hl)
  show PointSource.PointSourcePanner.handle regions norm.length roots (vec3 q) = some (unitR norm.length i)
  apply panner_first_accept regions norm.length roots (vec3 q) k hk _ (hpre q hq)
  rw [hreg]
  simp only [PointSource.Region.channels, PointSource.Region.handle, PointSource.remap, hroots, hacc, hout,
    Option.map_some]
  rw [scatter_quad_unit norm.length a b c d' dab dac dad dbc dbd dcd _ hlt, hchan]
  rfl

/-- **`_partial`: polar lock on the regenerated C05 tables, the panner's exactness as a hypothesis.** With the concrete
point-source panner of C01/C05 (`GainCalc.pspHandle l`: regenerated region table, first accepting
region, downmix / stereo wrappers, quad pan values by the closed form `quadRoot`) plugged into
`renderPolarLock`, "exactly one loudspeaker, the nearest" follows from the hypothesis `hvertex`: at the
position of the locked loudspeaker `k` that panner answers exactly `e_k`.  `hvertex` is no longer open:
C05 proves it for every loudspeaker of the ten regenerated tables (`PointSource.pspHandle_exact_at_speaker_layouts`:
every region tried before the first region containing `k` rejects that position, that region answers `e_k`,
the downmix of the virtual loudspeakers keeps `e_k`), and section 12 plugs it in
(`pspHandle_exact_at_norm`, `polar_lock_one_speaker_layouts`, `polar_lock_one_speaker_layouts_tables`).  This
theorem is kept for a table `l` outside the ten nominal ones.  What it does NOT model: the real `pan` is
`extent_pan(position, 0, 0, 0)` = `PolarExtentHandler.handle` AROUND the point-source panner
(`GainCalc.polarPointPan`), here replaced by the bare point-source panner (section 13,
`polar_lock_one_speaker_layouts_extent`, has the real `pan`); and the real float code leaves
~1e-17 residues on other loudspeakers at these positions (search tolerance 1e-9). -/
theorem polar_lock_one_speaker_layouts_partial (l : PointSource.RawLayout)
    (fuel : Nat) (spks : List (Spk ℝ)) (norm : List (P3 ℝ)) (prio : List Nat)
    (groups : List (List (List Nat))) (zones : List (Zone ℝ)) (p : P3 ℝ)
    (lock : Option (Option ℝ)) (gain diffuse : ℝ) (zmask : List Bool) (k : Nat) (d f : List ℝ)
    (hg : groupsOK norm.length groups = true)
    (h : renderPolarLock fuel spks norm prio groups zones (fun q => GainCalc.pspHandle l (vec3 q)) p lock gain diffuse =
      some (zmask, .locked k, (d, f)))
    (hne : isExcl zmask k = false) (hhead : (groups.getD k []).head? = some [k])
    (hvertex : ∀ c, norm[k]? = some c → GainCalc.pspHandle l (vec3 c) = some (unitR norm.length k)) :
    k < norm.length ∧
    d = (unitR norm.length k).map (fun v => v * gain * Real.sqrt (1 - diffuse)) ∧
    f = (unitR norm.length k).map (fun v => v * gain * Real.sqrt diffuse) ∧
    ∃ maxD, lock = some maxD ∧ NearestByRule false norm prio (List.replicate norm.length false) p maxD k :=
  polar_lock_one_speaker fuel spks norm prio groups zones _ p lock gain diffuse zmask k d f hg hvertex h hne hhead
-- (an instance of `polar_lock_one_speaker`, whose hypotheses are shown satisfiable in section 11)

/-! ## 11. Witnesses on the regenerated tables; non-vacuity of the composed theorems -/

/-- **Counter-example (known finding `polar-lock-zone-downmix`).** Layout 0+5+0, polar object at
azimuth 0, elevation 0, distance 1 (`cart(0, 0, 1) = (0, 1, 0)`, the position of M+000), channel
lock without `maxDistance`, `zoneExclusion = [PolarZone(-10, 10, -10, 10)]`.
Exact arithmetic on the regenerated table: the zone list excludes exactly M+000 (index 2), whose
`norm_position` is `(0, 1, 0)`, and row 2 of the downmix matrix is `[1/2, 1/2, 0, 0, 0]`.
Over ℝ, for every zone list with that mask and every panner that is exact at M+000: the lock
selects M+000 (distance 0; all other loudspeakers are ≥ `1e-5` away) and the render is
`√½·gain` on M+030 **and** M-030 and 0 on the locked loudspeaker — two loudspeakers, not one.
The real renderer gives direct gains `[0.7071…, 0.7071…, 0, 0, 0]` on this input (evaluated on
every run by `harness/c13_search.py: _probe_witness_polar`). -/
theorem polar_lock_zone_two_speakers_witness :
    let L := Gen.C13.L_0_5_0
    let mask := [false, false, true, false, false]
    (getExcluded 4 (L.spk.map spkOf) [Zone.polar (-10 : Rat) 10 (-10) 10] = some mask ∧ someNotAll mask ∧
      (L.norm.map p3Of)[2]? = some ⟨0, 1, 0⟩ ∧
      (downmixForExcluded (α := Rat) 5 L.groups mask).map (fun D => D[2]?) = some (some [1 / 2, 1 / 2, 0, 0, 0])) ∧
    ∀ (fuel : Nat) (spks : List (Spk ℝ)) (zones : List (Zone ℝ)) (pan : P3 ℝ → Option (List ℝ)) (gain diffuse : ℝ),
      getExcluded fuel spks zones = some mask →
      pan ⟨0, 1, 0⟩ = some (unitR 5 2) →
      renderPolarLock fuel spks ((L.norm.map p3Of).map castP3) L.prio L.groups zones pan ⟨0, 1, 0⟩ (some none)
          gain diffuse =
        some (mask, .locked 2,
          ([Real.sqrt (1 / 2) * gain * Real.sqrt (1 - diffuse), Real.sqrt (1 / 2) * gain * Real.sqrt (1 - diffuse),
            0, 0, 0],
           [Real.sqrt (1 / 2) * gain * Real.sqrt diffuse, Real.sqrt (1 / 2) * gain * Real.sqrt diffuse,
            0, 0, 0])) := by
  intro L mask
  refine ⟨by decide +kernel, ?_⟩
  intro fuel spks zones pan gain diffuse hz hpan
  have hsep : separatedB false (L.norm.map p3Of) = true := by decide +kernel
  have hlen : ((L.norm.map p3Of).map castP3).length = 5 := by simp [L, Gen.C13.L_0_5_0]
  have h2 : (L.norm.map p3Of)[2]'(by decide) = ⟨0, 1, 0⟩ := by decide +kernel
  have hl := lock_at_speaker_table false (L.norm.map p3Of) hsep L.prio (List.replicate 5 false) 2 (by decide)
    (isExcl_replicate_false 5 2)
  have hc : castP3 ⟨0, 1, 0⟩ = (⟨0, 1, 0⟩ : P3 ℝ) := by simp [castP3]
  rw [h2, hc] at hl
  have hq : ((L.norm.map p3Of).map castP3)[2]? = some (⟨0, 1, 0⟩ : P3 ℝ) := by
    rw [List.getElem?_map, List.getElem?_eq_getElem (by decide), h2]; simp [castP3]
  have hDq : downmixForExcluded (α := Rat) 5 L.groups mask =
      some [[1, 0, 0, 0, 0], [0, 1, 0, 0, 0], [1 / 2, 1 / 2, 0, 0, 0], [0, 0, 0, 1, 0], [0, 0, 0, 0, 1]] := by
    decide +kernel
  have hD := downmixForExcluded_cast 5 L.groups mask
  rw [hDq] at hD
  have hr := renderPolar_unit 5 2 L.groups mask _ (castRow [1 / 2, 1 / 2, 0, 0, 0]) hD (by rfl) (by simp [castRow]) (by decide) gain diffuse
  unfold renderPolarLock
  simp only [hlen, hl, lockedPosition, hq, Option.bind_some, hpan, hz, hr]
  simp [castRow]

/-- the witness satisfies the hypotheses of `polar_lock_with_zones_characterised` (non-vacuity) and
its conclusion shows the non-unit downmix row -/
example (pan : P3 ℝ → Option (List ℝ)) (hpan : pan ⟨0, 1, 0⟩ = some (unitR 5 2)) (spks : List (Spk ℝ))
    (zones : List (Zone ℝ)) (h : getExcluded 4 spks zones = some [false, false, true, false, false]) :
    ∃ d f, renderPolarLock 4 spks ((Gen.C13.L_0_5_0.norm.map p3Of).map castP3) Gen.C13.L_0_5_0.prio
      Gen.C13.L_0_5_0.groups zones pan ⟨0, 1, 0⟩ (some none) 1 0 =
        some ([false, false, true, false, false], .locked 2, (d, f)) ∧
      (d.map fun x => x * x).sum + (f.map fun x => x * x).sum = 1 * 1 := by
  have hw := (polar_lock_zone_two_speakers_witness).2 4 spks zones pan 1 0 h hpan
  have hlen : ((Gen.C13.L_0_5_0.norm.map p3Of).map castP3).length = 5 := by simp [Gen.C13.L_0_5_0]
  refine ⟨_, _, hw, ?_⟩
  apply polar_lock_power 4 spks _ Gen.C13.L_0_5_0.prio Gen.C13.L_0_5_0.groups zones pan ⟨0, 1, 0⟩ (some none) 1 0
    [false, false, true, false, false] 2 _ _ (by rw [hlen]; decide +kernel) ?_ hw (by norm_num) (by norm_num)
  intro c hc
  rw [hlen]
  have hq : ((Gen.C13.L_0_5_0.norm.map p3Of).map castP3)[2]? = some (⟨0, 1, 0⟩ : P3 ℝ) := by
    rw [List.getElem?_map, List.getElem?_eq_getElem (by decide)]
    have h2 : (Gen.C13.L_0_5_0.norm.map p3Of)[2]'(by decide) = ⟨0, 1, 0⟩ := by decide +kernel
    rw [h2]; simp [castP3]
  rw [hq] at hc
  simp only [Option.some.injEq] at hc
  rw [← hc]; exact hpan

/-- **Counter-example (known finding `cartesian-zone-extend-reset`), with the gain.** Layout 0+7+0
and the zone mask of `cart_zone_not_silent_witness` (six of seven excluded, among them M+030 =
index 0): for every zone list with that mask, a Cartesian object *at the allocentric position of
M+030* without channel lock is rendered with final mask "nothing excluded" and the whole gain on
M+030 — direct `gain·√(1−diffuse)`, diffuse `gain·√diffuse` on a zone-excluded loudspeaker. -/
theorem cart_zone_not_silent_gain_witness :
    let L := Gen.C13.L_0_7_0
    let mask := [true, true, true, true, false, true, true]
    ∀ (fuel : Nat) (spks : List (Spk ℝ)) (zones : List (Zone ℝ)) (gain diffuse : ℝ), spks.length = 7 →
      getExcluded fuel spks zones = some mask →
      ∃ c, ((L.allo.map p3Of).map castP3)[0]? = some c ∧ isExcl mask 0 = true ∧
        renderCartLock fuel spks ((L.allo.map p3Of).map castP3) L.prio zones c none gain diffuse =
          some ([false, false, false, false, false, false, false], .unchanged,
            (((List.replicate 7 (0 : ℝ)).set 0 1).map (fun v => v * gain * Real.sqrt (1 - diffuse)),
             ((List.replicate 7 (0 : ℝ)).set 0 1).map (fun v => v * gain * Real.sqrt diffuse))) := by
  intro L mask fuel spks zones gain diffuse hs hz
  have hlen : ((L.allo.map p3Of).map castP3).length = 7 := by simp [L, Gen.C13.L_0_7_0]
  have hfin : alloExcluded ((L.allo.map p3Of).map castP3) mask = [false, false, false, false, false, false, false] := by
    rw [alloExcluded_cast]; decide +kernel
  have hL : L ∈ Gen.C13.layouts := by simp [L, Gen.C13.layouts]
  have h0 : (0 : Nat) < ((L.allo.map p3Of).map castP3).length := by rw [hlen]; decide
  refine ⟨((L.allo.map p3Of).map castP3)[0], List.getElem?_eq_getElem h0, rfl, ?_⟩
  obtain ⟨st, hst, hpan⟩ := allo_exact_at_speaker_layouts L hL 0 _ (List.getElem?_eq_getElem h0)
  have hu := renderCart_unit [false, false, false, false, false, false, false] 0 rfl gain diffuse
  unfold renderCartLock
  simp only [hz, Option.bind_some, hfin, lockHandle, lockedPosition]
  have hk : keep [false, false, false, false, false, false, false] ((L.allo.map p3Of).map castP3) =
      ((L.allo.map p3Of).map castP3) := by
    simp [L, Gen.C13.L_0_7_0, keep]
  rw [hlen] at hpan
  rw [hk, hst]
  simp only [Option.bind_some, hlen, hpan]
  simp only [countF, rank, Nat.zero_add, Nat.reduceAdd, List.length_cons, List.length_nil] at hu
  have hpair : renderCart [false, false, false, false, false, false, false] [(List.replicate 7 (0 : ℝ)).set 0 1]
      [Scalar.one] gain diffuse =
      (((List.replicate 7 (0 : ℝ)).set 0 1).map (fun v => v * gain * Real.sqrt (1 - diffuse)),
       ((List.replicate 7 (0 : ℝ)).set 0 1).map (fun v => v * gain * Real.sqrt diffuse)) := Prod.ext hu.1 hu.2
  rw [hpair]

/-- non-vacuity of `cart_lock_one_speaker`, `cart_lock_target_not_excluded`, `cart_lock_limit`: on the
regenerated 0+5+0 table (cast to ℝ), no zones, any position: the composed Cartesian path with a lock
is defined and locks to some loudspeaker `i`, to which `cart_lock_one_speaker` then applies -/
example (p : P3 ℝ) (gain diffuse : ℝ) :
    ∃ i d f final, renderCartLock 4 (List.replicate 5 (⟨0, 0, 0, 0, 0⟩ : Spk ℝ))
        ((Gen.C13.L_0_5_0.allo.map p3Of).map castP3) Gen.C13.L_0_5_0.prio [] p (some none) gain diffuse =
        some (final, .locked i, (d, f)) ∧
      d = ((List.replicate 5 (0 : ℝ)).set i 1).map (fun v => v * gain * Real.sqrt (1 - diffuse)) ∧
      NearestByRule true ((Gen.C13.L_0_5_0.allo.map p3Of).map castP3) Gen.C13.L_0_5_0.prio final p none i := by
  have hlen : ((Gen.C13.L_0_5_0.allo.map p3Of).map castP3).length = 5 := by simp [Gen.C13.L_0_5_0]
  have hd : Distinct ((Gen.C13.L_0_5_0.allo.map p3Of).map castP3) := distinct_cast _ (by decide +kernel)
  obtain ⟨i, d, f, h⟩ := cart_lock_defined 4 (List.replicate 5 (⟨0, 0, 0, 0, 0⟩ : Spk ℝ)) _ Gen.C13.L_0_5_0.prio []
    p gain diffuse _ rfl hd (by rw [hlen, List.length_replicate]) (by rw [hlen]; decide)
  obtain ⟨_, _, hdd, _, maxD, hm, hn⟩ := cart_lock_one_speaker 4 _ _ _ [] p _ gain diffuse _ i d f hd
    (by rw [hlen, List.length_replicate]) h
  simp only [Option.some.injEq] at hm
  subst hm
  rw [hlen] at hdd
  exact ⟨i, d, f, _, h, hdd, hn⟩

/-- … and with a distance limit that no loudspeaker meets the same block is rendered as if unlocked
(`cart_lock_limit`, first alternative): a negative limit admits nobody -/
example (allo : List (P3 ℝ)) (final : List Bool) (p : P3 ℝ) (j : Nat) :
    ¬ LockCandidate allo final p (some (-1)) j := by
  rintro ⟨hj, _, hd⟩
  have := hd (-1) rfl
  have h0 : 0 ≤ spkDist allo p j := by
    unfold spkDist
    split
    · exact Real.sqrt_nonneg _
    · exact le_refl 0
  norm_num at this
  linarith


/-- **The composed polar path is defined whenever it locks and the panner answers `e_k`** (non-vacuity
of `polar_lock_with_zones_characterised`, `polar_lock_one_speaker` and the `_partial` theorems): with
well-formed groups the zone downmix never asserts. -/
theorem polar_lock_defined (fuel : Nat) (spks : List (Spk ℝ)) (norm : List (P3 ℝ)) (prio : List Nat)
    (groups : List (List (List Nat))) (zones : List (Zone ℝ)) (pan : P3 ℝ → Option (List ℝ)) (p : P3 ℝ)
    (lock : Option (Option ℝ)) (gain diffuse : ℝ) (zmask : List Bool) (k : Nat)
    (hg : groupsOK norm.length groups = true)
    (hl : lockHandle false norm prio (List.replicate norm.length false) p lock = .locked k)
    (hexact : ∀ c, norm[k]? = some c → pan c = some (unitR norm.length k))
    (hz : getExcluded fuel spks zones = some zmask) (hlen : spks.length = norm.length) :
    ∃ d f, renderPolarLock fuel spks norm prio groups zones pan p lock gain diffuse =
      some (zmask, .locked k, (d, f)) := by
  obtain ⟨hk, _⟩ := lock_index_valid false norm prio _ p lock k hl
  have hzl : zmask.length = norm.length := by rw [getExcluded_length fuel spks zones zmask hz, hlen]
  obtain ⟨hgl, _⟩ := groupsOK_row hg
  obtain ⟨Dq, hDq, _⟩ := downmix_defined norm.length groups zmask hg hzl
  have hD := downmixForExcluded_cast norm.length groups zmask
  rw [hDq] at hD
  obtain ⟨row, hrow, hrl, _⟩ := downmix_row_real norm.length groups zmask _ hD hgl k hk
  have hr := renderPolar_unit norm.length k groups zmask _ row hD hrow hrl hk gain diffuse
  have hq : norm[k]? = some norm[k] := List.getElem?_eq_getElem hk
  unfold renderPolarLock
  simp only [hl, lockedPosition, hq, Option.bind_some, hexact _ hq, hz, hr]
  exact ⟨_, _, rfl⟩

/-- non-vacuity of `polar_lock_one_speaker`: 0+5+0 (regenerated table, cast to ℝ), no zones, object at
M+000, a panner that is exact there: the composed polar path locks to M+000 and renders `e_2`·gain -/
example (pan : P3 ℝ → Option (List ℝ)) (hpan : pan ⟨0, 1, 0⟩ = some (unitR 5 2)) (gain diffuse : ℝ) :
    ∃ d f, renderPolarLock 4 (List.replicate 5 (⟨0, 0, 0, 0, 0⟩ : Spk ℝ))
        ((Gen.C13.L_0_5_0.norm.map p3Of).map castP3) Gen.C13.L_0_5_0.prio Gen.C13.L_0_5_0.groups [] pan ⟨0, 1, 0⟩
        (some none) gain diffuse = some (List.replicate 5 false, .locked 2, (d, f)) ∧
      d = (unitR 5 2).map (fun v => v * gain * Real.sqrt (1 - diffuse)) := by
  have hlen : ((Gen.C13.L_0_5_0.norm.map p3Of).map castP3).length = 5 := by simp [Gen.C13.L_0_5_0]
  have h2 : (Gen.C13.L_0_5_0.norm.map p3Of)[2]'(by decide) = ⟨0, 1, 0⟩ := by decide +kernel
  have hl := lock_at_speaker_table false (Gen.C13.L_0_5_0.norm.map p3Of) (by decide +kernel) Gen.C13.L_0_5_0.prio
    (List.replicate 5 false) 2 (by decide) (isExcl_replicate_false 5 2)
  have hc : castP3 ⟨0, 1, 0⟩ = (⟨0, 1, 0⟩ : P3 ℝ) := by simp [castP3]
  rw [h2, hc] at hl
  have hq : ((Gen.C13.L_0_5_0.norm.map p3Of).map castP3)[2]? = some (⟨0, 1, 0⟩ : P3 ℝ) := by
    rw [List.getElem?_map, List.getElem?_eq_getElem (by decide), h2]; simp [castP3]
  have hex : ∀ c, ((Gen.C13.L_0_5_0.norm.map p3Of).map castP3)[2]? = some c →
      pan c = some (unitR ((Gen.C13.L_0_5_0.norm.map p3Of).map castP3).length 2) := by
    intro c hc'
    rw [hq] at hc'
    simp only [Option.some.injEq] at hc'
    rw [← hc', hlen]; exact hpan
  have hg : groupsOK ((Gen.C13.L_0_5_0.norm.map p3Of).map castP3).length Gen.C13.L_0_5_0.groups = true := by
    rw [hlen]; decide +kernel
  obtain ⟨d, f, h⟩ := polar_lock_defined 4 (List.replicate 5 (⟨0, 0, 0, 0, 0⟩ : Spk ℝ)) _ Gen.C13.L_0_5_0.prio
    Gen.C13.L_0_5_0.groups [] pan ⟨0, 1, 0⟩ (some none) gain diffuse (List.replicate 5 false) 2 hg
    (by rw [hlen]; exact hl) hex rfl (by rw [hlen, List.length_replicate])
  obtain ⟨_, hd, _, _⟩ := polar_lock_one_speaker 4 _ _ _ _ [] pan _ _ gain diffuse _ 2 d f hg hex h
    (isExcl_replicate_false 5 2) (by decide +kernel)
  rw [hlen] at hd
  exact ⟨d, f, h, hd⟩

/-- non-vacuity of `polar_lock_one_speaker_partial`: three loudspeakers on the coordinate axes, one triplet
region with the identity position matrix, object on the first axis: the lock selects loudspeaker 0, the C05
panner's first (only) region is a triplet with loudspeaker 0 as its first vertex, and the render is `e_0`·gain -/
example (gain diffuse : ℝ) (roots : Nat → Option ℝ × Option ℝ) :
    let ps : List (P3 Rat) := [⟨1, 0, 0⟩, ⟨0, 1, 0⟩, ⟨0, 0, 1⟩]
    let P : PointSource.Mat3 ℝ := ((1, 0, 0), (0, 1, 0), (0, 0, 1))
    ∃ d f, renderPolarLock 4 (List.replicate 3 (⟨0, 0, 0, 0, 0⟩ : Spk ℝ)) (ps.map castP3) [0, 1, 2]
        [[[0], [1, 2]], [[1], [0, 2]], [[2], [0, 1]]] []
        (fun q => PointSource.PointSourcePanner.handle [.triplet [0, 1, 2] P] 3 roots (vec3 q)) (castP3 ⟨1, 0, 0⟩)
        (some none) gain diffuse = some (List.replicate 3 false, .locked 0, (d, f)) ∧
      d = (unitR 3 0).map (fun v => v * gain * Real.sqrt (1 - diffuse)) := by
  intro ps P
  have hlen : (ps.map castP3).length = 3 := by simp [ps]
  have hl := lock_at_speaker_table false ps (by decide +kernel) [0, 1, 2] (List.replicate 3 false) 0 (by decide)
    (isExcl_replicate_false 3 0)
  have hdet : PointSource.det3 P ≠ 0 := by simp [PointSource.det3, P]
  have hq : ∀ c, (ps.map castP3)[0]? = some c → vec3 c = P.1 := by
    intro c hc
    simp only [ps, List.map_cons, List.getElem?_cons_zero, Option.some.injEq] at hc
    rw [← hc]; simp [vec3, castP3, P]
  have hg : groupsOK (ps.map castP3).length [[[0], [1, 2]], [[1], [0, 2]], [[2], [0, 1]]] = true := by
    rw [hlen]; decide
  have hex : ∀ c, (ps.map castP3)[0]? = some c →
      PointSource.PointSourcePanner.handle [.triplet [0, 1, 2] P] (ps.map castP3).length roots (vec3 c) =
        some (unitR (ps.map castP3).length 0) := by
    intro c hc
    obtain ⟨e1, _, _⟩ := PointSource.triplet_exact_at_vertex P hdet
    obtain ⟨s1, _, _⟩ := scatter_triplet_unit (ps.map castP3).length 0 1 2 (by decide) (by decide) (by decide)
    apply panner_first_accept _ _ roots (vec3 c) 0 (by decide) _ (fun j hj => absurd hj (Nat.not_lt_zero j))
    simp only [List.getElem_cons_zero, PointSource.Region.channels, PointSource.Region.handle, PointSource.remap,
      hq c hc, e1, Option.map_some, PointSource.vecList, unitR]
    rw [← s1]
  obtain ⟨d, f, h⟩ := polar_lock_defined 4 (List.replicate 3 (⟨0, 0, 0, 0, 0⟩ : Spk ℝ)) (ps.map castP3) [0, 1, 2]
    _ [] _ (castP3 ⟨1, 0, 0⟩) (some none) gain diffuse (List.replicate 3 false) 0 hg
    (by rw [hlen]; exact hl) hex rfl (by rw [hlen, List.length_replicate])
  obtain ⟨_, hd, _, _⟩ := polar_lock_one_speaker_partial [.triplet [0, 1, 2] P] roots 4 _ (ps.map castP3) [0, 1, 2] _ []
    (castP3 ⟨1, 0, 0⟩) (some none) gain diffuse _ 0 d f hg h (isExcl_replicate_false 3 0) (by decide)
    0 (by decide) 0 1 2 P rfl hdet (by decide) (by decide) (by decide)
    (fun c _ j hj => absurd hj (Nat.not_lt_zero j)) (fun c hc => Or.inl ⟨rfl, (hq c hc).symm⟩)
  rw [hlen] at hd
  exact ⟨d, f, h, hd⟩


/-- non-vacuity of `lock_one_speaker_partial`: a one-loudspeaker layout, object at the loudspeaker -/
example (c : P3 ℝ) :
    ∃ c', [c][0]? = some c' ∧ isExcl [] 0 = false ∧ (fun _ => unitVec 1 0) c' = (unitVec 1 0 : List ℝ) ∧
      ((fun _ => unitVec 1 0) c' : List ℝ)[0]? = some one ∧
      ∀ j, j < [c].length → j ≠ 0 → ((fun _ => unitVec 1 0) c' : List ℝ)[j]? = some zero := by
  have hl : lockHandle false [c] [0] [] c (some none) = .locked 0 :=
    lock_at_speaker false [c] [0] [] 0 c rfl rfl (fun j hj hlt => by simp at hlt; omega)
  exact lock_one_speaker_partial (fun _ => unitVec 1 0) false [c] [0] [] c none 0
    (fun k c' hk => by
      have : k = 0 := by
        by_cases h : k = 0
        · exact h
        · simp [h] at hk
      subst this; rfl) hl
-- `polar_lock_one_speaker_quad_partial` has no concrete instance here: a quad region needs a `QuadRegion`
-- (polynomial coefficients, vertex order, `np.roots` outputs) from the C05 tables; its hypotheses are the
-- conclusions of C05's `quad_corner`, whose own non-vacuity example lives in Props/C05.

/-! ## 12. Polar lock on the regenerated tables without a panner hypothesis (C05 exactness plugged in) -/

/-- the C13 table of a layout and the C05 region table of the same layout describe the same loudspeakers: same
number, and `layout.norm_positions[k]` (C13, exact fraction) is the position of channel `k` in the C05 table (exact
binary64 value), with output index `k` -/
def normMatches (L : Gen.C13.Layout) (l : PointSource.RawLayout) : Bool :=
  L.name == l.name && L.norm.length == PointSource.Cover.nSpeakers l &&
  (List.range L.norm.length).all fun k =>
    PointSource.Cover.speakerOut l k == k &&
    match PointSource.Cover.speakerPos l k with
    | some v =>
      let q := p3Of (L.norm.getD k [])
      q.x == PointSource.f2Rat v.1 && q.y == PointSource.f2Rat v.2.1 && q.z == PointSource.f2Rat v.2.2
    | none => false

/-- Table obligation: the ten C13 tables and the ten C05 tables agree (same order, same names, same positions). -/
theorem norm_tables_match :
    (Gen.C13.layouts.length == Gen.C05.layouts.length &&
      (Gen.C13.layouts.zip Gen.C05.layouts).all fun Ll => normMatches Ll.1 Ll.2) = true := by
  decide +kernel

/-- **C05 exactness in C13's terms**: on matching tables the concrete point-source panner answers `e_k` at
`layout.norm_positions[k]` -/
theorem pspHandle_exact_at_norm (L : Gen.C13.Layout) (l : PointSource.RawLayout) (hl : l ∈ Gen.C05.layouts)
    (hm : normMatches L l = true) (k : Nat) (c : P3 ℝ) (hc : ((L.norm.map p3Of).map castP3)[k]? = some c) :
    GainCalc.pspHandle l (vec3 c) = some (unitR ((L.norm.map p3Of).map castP3).length k) := by
  simp only [normMatches, Bool.and_eq_true, beq_iff_eq, List.all_eq_true, List.mem_range] at hm
  obtain ⟨⟨_, hlen⟩, hall⟩ := hm
  have hk : k < L.norm.length := by
    by_contra hge
    rw [List.getElem?_eq_none (by simp; omega)] at hc
    exact absurd hc (by simp)
  obtain ⟨hout, hpos⟩ := hall k hk
  obtain ⟨v, hv, hex⟩ := PointSource.pspHandle_exact_at_speaker_layouts l hl k (by rw [← hlen]; exact hk)
  rw [hv] at hpos
  simp only [Bool.and_eq_true, beq_iff_eq] at hpos
  obtain ⟨⟨hx, hy⟩, hz⟩ := hpos
  have hce : c = castP3 (p3Of (L.norm.getD k [])) := by
    rw [List.getElem?_map, List.getElem?_map, List.getElem?_eq_getElem hk] at hc
    simp only [Option.map_some, Option.some.injEq] at hc
    rw [← hc, List.getD_eq_getElem?_getD, List.getElem?_eq_getElem hk]
    rfl
  have hvec : vec3 c = (PointSource.p3 v : PointSource.Vec3 ℝ) := by
    rw [hce]
    simp only [vec3, castP3, hx, hy, hz]
    rfl
  rw [hvec, hex, hout, ← hlen]
  simp only [List.length_map]
  rfl

/-- **Polar channel lock renders exactly one loudspeaker, the nearest by the rule — on the ten regenerated layouts,
with the concrete C05 panner and NO panner hypothesis** (`polar_lock_one_speaker_layouts_partial` + C05's
`pspHandle_exact_at_speaker_layouts`).  `L`, `l`: the C13 and C05 tables of the same layout (number `i` of both
lists; that they describe the same loudspeakers is the table obligation `norm_tables_match`). -/
theorem polar_lock_one_speaker_layouts (i : Nat) (L : Gen.C13.Layout) (l : PointSource.RawLayout)
    (hL : Gen.C13.layouts[i]? = some L) (hl : Gen.C05.layouts[i]? = some l)
    (fuel : Nat) (spks : List (Spk ℝ)) (prio : List Nat)
    (groups : List (List (List Nat))) (zones : List (Zone ℝ)) (p : P3 ℝ)
    (lock : Option (Option ℝ)) (gain diffuse : ℝ) (zmask : List Bool) (k : Nat) (d f : List ℝ)
    (hg : groupsOK ((L.norm.map p3Of).map castP3).length groups = true)
    (h : renderPolarLock fuel spks ((L.norm.map p3Of).map castP3) prio groups zones
      (fun q => GainCalc.pspHandle l (vec3 q)) p lock gain diffuse = some (zmask, .locked k, (d, f)))
    (hne : isExcl zmask k = false) (hhead : (groups.getD k []).head? = some [k]) :
    k < ((L.norm.map p3Of).map castP3).length ∧
    d = (unitR ((L.norm.map p3Of).map castP3).length k).map (fun v => v * gain * Real.sqrt (1 - diffuse)) ∧
    f = (unitR ((L.norm.map p3Of).map castP3).length k).map (fun v => v * gain * Real.sqrt diffuse) ∧
    ∃ maxD, lock = some maxD ∧
      NearestByRule false ((L.norm.map p3Of).map castP3) prio
        (List.replicate ((L.norm.map p3Of).map castP3).length false) p maxD k := by
  have hmatch : normMatches L l = true := by
    have := norm_tables_match
    simp only [Bool.and_eq_true, beq_iff_eq, List.all_eq_true] at this
    apply this.2 (L, l)
    rw [List.mem_iff_getElem?]
    refine ⟨i, ?_⟩
    rw [List.getElem?_zip_eq_some]
    exact ⟨hL, hl⟩
  exact polar_lock_one_speaker_layouts_partial l fuel spks _ prio groups zones p lock gain diffuse zmask k d f hg h hne
    hhead (fun c hc => pspHandle_exact_at_norm L l (List.mem_of_getElem? hl) hmatch k c hc)

/-- non-vacuity of `polar_lock_one_speaker_layouts`: 0+5+0 (tables number 1), no zones, object at M+000, lock without
maxDistance: the composed polar path with the CONCRETE panner is defined, locks to M+000 and renders `e_2`·gain -/
example (gain diffuse : ℝ) :
    ∃ d f, renderPolarLock 4 (List.replicate 5 (⟨0, 0, 0, 0, 0⟩ : Spk ℝ))
        ((Gen.C13.L_0_5_0.norm.map p3Of).map castP3) Gen.C13.L_0_5_0.prio Gen.C13.L_0_5_0.groups []
        (fun q => GainCalc.pspHandle Gen.C05.L1 (vec3 q)) ⟨0, 1, 0⟩ (some none) gain diffuse =
          some (List.replicate 5 false, .locked 2, (d, f)) ∧
      d = (unitR 5 2).map (fun v => v * gain * Real.sqrt (1 - diffuse)) := by
  have hlen : ((Gen.C13.L_0_5_0.norm.map p3Of).map castP3).length = 5 := by simp [Gen.C13.L_0_5_0]
  have h2 : (Gen.C13.L_0_5_0.norm.map p3Of)[2]'(by decide) = ⟨0, 1, 0⟩ := by decide +kernel
  have hl := lock_at_speaker_table false (Gen.C13.L_0_5_0.norm.map p3Of) (by decide +kernel) Gen.C13.L_0_5_0.prio
    (List.replicate 5 false) 2 (by decide) (isExcl_replicate_false 5 2)
  have hc : castP3 ⟨0, 1, 0⟩ = (⟨0, 1, 0⟩ : P3 ℝ) := by simp [castP3]
  rw [h2, hc] at hl
  have hmatch : normMatches Gen.C13.L_0_5_0 Gen.C05.L1 = true := by decide +kernel
  have hex : ∀ c, ((Gen.C13.L_0_5_0.norm.map p3Of).map castP3)[2]? = some c →
      (fun q => GainCalc.pspHandle Gen.C05.L1 (vec3 q)) c =
        some (unitR ((Gen.C13.L_0_5_0.norm.map p3Of).map castP3).length 2) :=
    fun c hc' => pspHandle_exact_at_norm _ _ (by simp [Gen.C05.layouts]) hmatch 2 c hc'
  have hg : groupsOK ((Gen.C13.L_0_5_0.norm.map p3Of).map castP3).length Gen.C13.L_0_5_0.groups = true := by
    rw [hlen]; decide +kernel
  obtain ⟨d, f, h⟩ := polar_lock_defined 4 (List.replicate 5 (⟨0, 0, 0, 0, 0⟩ : Spk ℝ)) _ Gen.C13.L_0_5_0.prio
    Gen.C13.L_0_5_0.groups [] _ ⟨0, 1, 0⟩ (some none) gain diffuse (List.replicate 5 false) 2 hg
    (by rw [hlen]; exact hl) hex rfl (by rw [hlen, List.length_replicate])
  obtain ⟨_, hd, _, _⟩ := polar_lock_one_speaker_layouts 1 Gen.C13.L_0_5_0 Gen.C05.L1 rfl rfl
    4 _ _ _ [] ⟨0, 1, 0⟩ (some none) gain diffuse _ 2 d f hg h (isExcl_replicate_false 5 2) (by decide +kernel)
  rw [hlen] at hd
  exact ⟨d, f, h, hd⟩

/-- **The same with the layout's OWN regenerated priority list and priority groups** (`L.prio`, `L.groups`: what the
real handlers are built with), so that no hypothesis about `prio` / `groups` is left: `groupsOK` and "the first group
of channel `k` is `[k]`" come from the table obligation `tables_groups_ok`, `L.prio` has one entry per loudspeaker
(`prio.getD` in `NearestByRule` never reads the default).  `0 ≤ diffuse ≤ 1` is the range of the ADM parameter; outside
it `Real.sqrt` of a negative number is 0 whereas numpy gives NaN.  Still substituted: `pan` is the bare point-source
panner `GainCalc.pspHandle l`, not `PolarExtentHandler.handle` around it (`GainCalc.polarPointPan`); section 13
(`polar_lock_one_speaker_layouts_extent`) removes the substitution. -/
theorem polar_lock_one_speaker_layouts_tables (i : Nat) (L : Gen.C13.Layout) (l : PointSource.RawLayout)
    (hL : Gen.C13.layouts[i]? = some L) (hl : Gen.C05.layouts[i]? = some l)
    (fuel : Nat) (spks : List (Spk ℝ)) (zones : List (Zone ℝ)) (p : P3 ℝ)
    (lock : Option (Option ℝ)) (gain diffuse : ℝ) (_hd0 : 0 ≤ diffuse) (_hd1 : diffuse ≤ 1)
    (zmask : List Bool) (k : Nat) (d f : List ℝ)
    (h : renderPolarLock fuel spks ((L.norm.map p3Of).map castP3) L.prio L.groups zones
      (fun q => GainCalc.pspHandle l (vec3 q)) p lock gain diffuse = some (zmask, .locked k, (d, f)))
    (hne : isExcl zmask k = false) :
    L.prio.length = ((L.norm.map p3Of).map castP3).length ∧
    k < ((L.norm.map p3Of).map castP3).length ∧
    d = (unitR ((L.norm.map p3Of).map castP3).length k).map (fun v => v * gain * Real.sqrt (1 - diffuse)) ∧
    f = (unitR ((L.norm.map p3Of).map castP3).length k).map (fun v => v * gain * Real.sqrt diffuse) ∧
    ∃ maxD, lock = some maxD ∧
      NearestByRule false ((L.norm.map p3Of).map castP3) L.prio
        (List.replicate ((L.norm.map p3Of).map castP3).length false) p maxD k := by
  have hmem : L ∈ Gen.C13.layouts := List.mem_of_getElem? hL
  have ht := tables_groups_ok
  rw [List.all_eq_true] at ht
  have h1 := ht L hmem
  have ht2 := tables_lock_ok
  rw [List.all_eq_true] at ht2
  have h2 := ht2 L hmem
  simp only [Bool.and_eq_true, beq_iff_eq, List.all_eq_true, List.mem_range] at h1 h2
  obtain ⟨⟨⟨⟨⟨hg, _⟩, _⟩, _⟩, hprio⟩, hhead⟩ := h1
  have hn : ((L.norm.map p3Of).map castP3).length = L.n := by simp [h2.1.2]
  obtain ⟨hlk, _⟩ := renderPolarLock_some fuel spks _ L.prio L.groups zones _ p lock gain diffuse zmask _ (d, f) h
  obtain ⟨hk, _⟩ := lock_index_valid false _ L.prio _ p lock k hlk.symm
  refine ⟨by rw [hprio, hn], ?_⟩
  exact polar_lock_one_speaker_layouts i L l hL hl fuel spks L.prio L.groups zones p lock gain diffuse zmask k d f
    (by rw [hn]; exact hg) h hne (hhead k (by rw [← hn]; exact hk))

/-- non-vacuity: the hypotheses of `polar_lock_one_speaker_layouts_tables` are those of the `example` above (0+5+0, which
uses `L.prio`, `L.groups` already) plus `0 ≤ diffuse ≤ 1`, e.g. `diffuse = 1/2` -/
example : (0 : ℝ) ≤ 1 / 2 ∧ (1 / 2 : ℝ) ≤ 1 := by norm_num

/-! ## 13. Polar lock on the regenerated tables with the REAL `pan`: `PolarExtentHandler.handle(position, 0, 0, 0)`

`GainCalc.render` calls `extent_pan(position, 0, 0, 0)`, i.e. `PolarExtentHandler.handle` with zero extent
(`GainCalc.polarPointPan`), not the bare point-source panner of section 12.  The position it receives after a lock is
`layout.norm_positions[k]`, binary64 coordinates whose exact squared length is `1 ± 1e-16` — for 27 of the 96
loudspeakers of the ten layouts it is BELOW 1 (e.g. U+045: `1 − 5.2e-17`).  Over ℝ on those exact values
`extent_mod(0, d) > 0` for `d < 1`, `ammount_spread` is tiny but non-zero, and `calc_pv_spread` returns
`sqrt(1 − ammount_spread) · e_k`: exactly one loudspeaker (exact zeros elsewhere) with the gain scaled by
`s = sqrt(1 − ammount_spread) ∈ [sqrt(1 − 1e-10), 1]`.  (In binary64 `np.linalg.norm` of every one of the 96 positions
is exactly `1.0`, `extent_mod` is exactly `0.0` and the real code returns `s = 1`: evaluated on every run, op `rple`.) -/

/-- every `layout.norm_positions[k]` has squared length ≥ 1 − 1e-12 (exact rationals) -/
def normNearUnit (L : Gen.C13.Layout) : Bool :=
  L.norm.all fun r =>
    let q := p3Of r
    decide ((1 : Rat) - 1 / 1000000000000 ≤ q.x * q.x + q.y * q.y + q.z * q.z)

/-- Table obligation: the binary64 unit vectors of the ten layouts are within 1e-12 of unit length. -/
theorem tables_norm_near_unit : Gen.C13.layouts.all normNearUnit = true := by decide +kernel

/-- Table obligation: the C13 tables and the C01 tables (`LayoutTable`, from which `GainCalc.LayoutEnv` is built) list
the same layouts in the same order with the same number of (non-LFE) channels. -/
theorem c01_tables_match :
    (Gen.C13.layouts.length == Gen.C01.layouts.length &&
      (Gen.C13.layouts.zip Gen.C01.layouts).all fun LT => LT.1.name == LT.2.name && LT.1.n == LT.2.n) = true := by
  decide +kernel

/-- on the ten tables every `norm_positions[k]` is in the point-only class of `PolarExtentHandler.handle` -/
theorem inPointClass_at_norm (L : Gen.C13.Layout) (hL : L ∈ Gen.C13.layouts) (k : Nat) (c : P3 ℝ)
    (hc : ((L.norm.map p3Of).map castP3)[k]? = some c) : GainCalc.InPointClass (vec3 c) := by
  have ht := tables_norm_near_unit
  rw [List.all_eq_true] at ht
  have h1 := ht L hL
  simp only [normNearUnit, List.all_eq_true, decide_eq_true_eq] at h1
  have hk : k < L.norm.length := by
    by_contra hge
    rw [List.getElem?_eq_none (by simp; omega)] at hc
    exact absurd hc (by simp)
  have h2 := h1 _ (List.getElem_mem hk)
  rw [List.getElem?_map, List.getElem?_map, List.getElem?_eq_getElem hk] at hc
  simp only [Option.map_some, Option.some.injEq] at hc
  subst hc
  apply GainCalc.inPointClass_of_near
  set q := p3Of L.norm[k] with hq
  have h3 : ((1 : ℝ) - 1 / 1000000000000) ≤ (q.x : ℝ) * q.x + (q.y : ℝ) * q.y + (q.z : ℝ) * q.z := by
    have : (((1 : Rat) - 1 / 1000000000000 : Rat) : ℝ) ≤ ((q.x * q.x + q.y * q.y + q.z * q.z : Rat) : ℝ) :=
      Rat.cast_le.mpr h2
    push_cast at this
    exact this
  show (1 : ℝ) - 1 / 1000000000000 ≤ Real.sqrt ((q.x : ℝ) * q.x + (q.y : ℝ) * q.y + (q.z : ℝ) * q.z)
  rw [Real.le_sqrt (by norm_num) (by linarith)]
  nlinarith

/-- **Polar channel lock renders exactly one loudspeaker, the nearest by the rule — with the real `pan`
(`PolarExtentHandler.handle(·, 0, 0, 0)` around the C05 panner), on the ten regenerated layouts, no panner
hypothesis.**  `L`, `l`, `T`: the C13, C05 and C01 tables of the same layout (number `i` of the three lists;
`norm_tables_match`, `c01_tables_match`); the environment of `polarPointPan` is `T.env fuel'`.  Conclusion: the direct
and diffuse gains are EXACTLY `e_k` times `s · gain` times the direct/diffuse split — exact zeros on every other
loudspeaker — where `s = sqrt(1 − ammount_spread)` of the locked `norm_positions[k]`, `1 − 1e-10 ≤ s² ≤ 1`, and `s = 1`
whenever the exact length of `norm_positions[k]` is ≥ 1 (69 of the 96 loudspeakers; for the others `s` is not 1 over ℝ
because the binary64 unit vector is shorter than 1; see the section header). -/
theorem polar_lock_one_speaker_layouts_extent (i : Nat) (L : Gen.C13.Layout) (l : PointSource.RawLayout)
    (T : GainCalc.LayoutTable)
    (hL : Gen.C13.layouts[i]? = some L) (hl : Gen.C05.layouts[i]? = some l) (hT : Gen.C01.layouts[i]? = some T)
    (fuel fuel' : Nat) (spks : List (Spk ℝ)) (zones : List (Zone ℝ)) (p : P3 ℝ)
    (lock : Option (Option ℝ)) (gain diffuse : ℝ) (hd0 : 0 ≤ diffuse) (hd1 : diffuse ≤ 1)
    (zmask : List Bool) (k : Nat) (d f : List ℝ)
    (h : renderPolarLock fuel spks ((L.norm.map p3Of).map castP3) L.prio L.groups zones
      (fun q => GainCalc.polarPointPan (T.env fuel' : GainCalc.LayoutEnv ℝ) l (vec3 q)) p lock gain diffuse =
        some (zmask, .locked k, (d, f)))
    (hne : isExcl zmask k = false) :
    ∃ s : ℝ, 0 ≤ s ∧ s ≤ 1 ∧ 1 - 1 / 10000000000 ≤ s * s ∧
    (∀ c, ((L.norm.map p3Of).map castP3)[k]? = some c → 1 ≤ c.x * c.x + c.y * c.y + c.z * c.z → s = 1) ∧
    L.prio.length = ((L.norm.map p3Of).map castP3).length ∧
    k < ((L.norm.map p3Of).map castP3).length ∧
    d = (unitR ((L.norm.map p3Of).map castP3).length k).map (fun v => v * (s * gain) * Real.sqrt (1 - diffuse)) ∧
    f = (unitR ((L.norm.map p3Of).map castP3).length k).map (fun v => v * (s * gain) * Real.sqrt diffuse) ∧
    ∃ maxD, lock = some maxD ∧
      NearestByRule false ((L.norm.map p3Of).map castP3) L.prio
        (List.replicate ((L.norm.map p3Of).map castP3).length false) p maxD k := by
  have hmem : L ∈ Gen.C13.layouts := List.mem_of_getElem? hL
  have hmatch : normMatches L l = true := by
    have := norm_tables_match
    simp only [Bool.and_eq_true, beq_iff_eq, List.all_eq_true] at this
    apply this.2 (L, l)
    rw [List.mem_iff_getElem?]
    exact ⟨i, by rw [List.getElem?_zip_eq_some]; exact ⟨hL, hl⟩⟩
  have hTn : T.n = L.n := by
    have := c01_tables_match
    simp only [Bool.and_eq_true, beq_iff_eq, List.all_eq_true] at this
    have h2 := this.2 (L, T) (by
      rw [List.mem_iff_getElem?]
      exact ⟨i, by rw [List.getElem?_zip_eq_some]; exact ⟨hL, hT⟩⟩)
    exact h2.2.symm
  have ht2 := tables_lock_ok
  rw [List.all_eq_true] at ht2
  have h2 := ht2 L hmem
  simp only [Bool.and_eq_true, beq_iff_eq] at h2
  have hn : ((L.norm.map p3Of).map castP3).length = L.n := by simp [h2.1.2]
  -- take the render apart
  obtain ⟨hlk, q, g, hq, hg, hz, ho⟩ := renderPolarLock_some fuel spks _ L.prio L.groups zones _ p lock gain diffuse
    zmask _ (d, f) h
  have hqk : ((L.norm.map p3Of).map castP3)[k]? = some q := hq
  have hpsp := pspHandle_exact_at_norm L l (List.mem_of_getElem? hl) hmatch k q hqk
  obtain ⟨s, hs0, hs1, hs2, hs3, hpan⟩ := GainCalc.polarPointPan_at_unit (T.env fuel' : GainCalc.LayoutEnv ℝ) l (vec3 q)
    ((L.norm.map p3Of).map castP3).length k (by rw [hn]; exact hTn) (inPointClass_at_norm L hmem k q hqk) hpsp
  have hg' : g = (unitR ((L.norm.map p3Of).map castP3).length k).map (· * s) := by
    have : GainCalc.polarPointPan (T.env fuel' : GainCalc.LayoutEnv ℝ) l (vec3 q) = some g := hg
    rw [hpan] at this
    exact (Option.some.inj this).symm
  rw [hg', renderPolar_scale _ _ _ _ s gain diffuse hs0 (unitR_length _ k)
    (fun v hv => by rcases unitR_mem _ k v hv with h | h <;> rw [h] <;> norm_num)] at ho
  -- the same block through the bare panner with the gain `s · gain`
  have h0 : renderPolarLock fuel spks ((L.norm.map p3Of).map castP3) L.prio L.groups zones
      (fun q => GainCalc.pspHandle l (vec3 q)) p lock (s * gain) diffuse = some (zmask, .locked k, (d, f)) := by
    unfold renderPolarLock
    simp only [Option.bind_eq_some_iff, Option.some.injEq, Prod.mk.injEq]
    exact ⟨q, by rw [← hlk]; exact hq, _, hpsp, zmask, hz, (d, f), ho, rfl, hlk.symm, rfl⟩
  obtain ⟨r1, r2, r3, r4, r5⟩ := polar_lock_one_speaker_layouts_tables i L l hL hl fuel spks zones p lock (s * gain)
    diffuse hd0 hd1 zmask k d f h0 hne
  refine ⟨s, hs0, hs1, hs2, ?_, r1, r2, r3, r4, r5⟩
  intro c hc hc1
  rw [hqk] at hc
  obtain rfl := Option.some.inj hc
  apply hs3
  show (1 : ℝ) ≤ Real.sqrt (q.x * q.x + q.y * q.y + q.z * q.z)
  rw [Real.le_sqrt (by norm_num) (by linarith)]
  linarith

/-- non-vacuity of `polar_lock_one_speaker_layouts_extent`: 0+5+0 (tables number 1), no zones, object at M+000 = (0, 1, 0)
(of unit length exactly, so `s = 1` there), lock without maxDistance: the composed polar path with `polarPointPan` is
defined and locks to M+000 -/
example (gain diffuse : ℝ) :
    ∃ d f, renderPolarLock 4 (List.replicate 5 (⟨0, 0, 0, 0, 0⟩ : Spk ℝ))
        ((Gen.C13.L_0_5_0.norm.map p3Of).map castP3) Gen.C13.L_0_5_0.prio Gen.C13.L_0_5_0.groups []
        (fun q => GainCalc.polarPointPan (Gen.C01.l_0_5_0.env 4 : GainCalc.LayoutEnv ℝ) Gen.C05.L1 (vec3 q)) ⟨0, 1, 0⟩
        (some none) gain diffuse = some (List.replicate 5 false, .locked 2, (d, f)) := by
  have hlen : ((Gen.C13.L_0_5_0.norm.map p3Of).map castP3).length = 5 := by simp [Gen.C13.L_0_5_0]
  have h2 : (Gen.C13.L_0_5_0.norm.map p3Of)[2]'(by decide) = ⟨0, 1, 0⟩ := by decide +kernel
  have hl := lock_at_speaker_table false (Gen.C13.L_0_5_0.norm.map p3Of) (by decide +kernel) Gen.C13.L_0_5_0.prio
    (List.replicate 5 false) 2 (by decide) (isExcl_replicate_false 5 2)
  have hc : castP3 ⟨0, 1, 0⟩ = (⟨0, 1, 0⟩ : P3 ℝ) := by simp [castP3]
  rw [h2, hc] at hl
  have hmatch : normMatches Gen.C13.L_0_5_0 Gen.C05.L1 = true := by decide +kernel
  have hq : ((Gen.C13.L_0_5_0.norm.map p3Of).map castP3)[2]? = some (⟨0, 1, 0⟩ : P3 ℝ) := by
    rw [List.getElem?_map, List.getElem?_eq_getElem (by decide), h2]; simp [castP3]
  have hpsp := pspHandle_exact_at_norm _ _ (by simp [Gen.C05.layouts]) hmatch 2 _ hq
  have hcls : GainCalc.InPointClass (vec3 (⟨0, 1, 0⟩ : P3 ℝ)) :=
    GainCalc.inPointClass_of_far _ (by simp [vec3, GainCalc.norm3])
  obtain ⟨s, hs0, _, _, _, hpan⟩ := GainCalc.polarPointPan_at_unit (Gen.C01.l_0_5_0.env 4 : GainCalc.LayoutEnv ℝ)
    Gen.C05.L1 (vec3 ⟨0, 1, 0⟩) ((Gen.C13.L_0_5_0.norm.map p3Of).map castP3).length 2 (by rw [hlen]; rfl) hcls hpsp
  have hg : groupsOK ((Gen.C13.L_0_5_0.norm.map p3Of).map castP3).length Gen.C13.L_0_5_0.groups = true := by
    rw [hlen]; decide +kernel
  -- through the bare panner with gain `s · gain` the path is defined (`polar_lock_defined`); rescale
  obtain ⟨d, f, h⟩ := polar_lock_defined 4 (List.replicate 5 (⟨0, 0, 0, 0, 0⟩ : Spk ℝ)) _ Gen.C13.L_0_5_0.prio
    Gen.C13.L_0_5_0.groups [] (fun q => GainCalc.pspHandle Gen.C05.L1 (vec3 q)) ⟨0, 1, 0⟩ (some none) (s * gain) diffuse
    (List.replicate 5 false) 2 hg (by rw [hlen]; exact hl)
    (fun c hc' => pspHandle_exact_at_norm _ _ (by simp [Gen.C05.layouts]) hmatch 2 c hc') rfl
    (by rw [hlen, List.length_replicate])
  refine ⟨d, f, ?_⟩
  obtain ⟨hlk, q, g, hq', hg', hz, ho⟩ := renderPolarLock_some _ _ _ _ _ _ _ _ _ _ _ _ _ _ h
  have hqe : q = ⟨0, 1, 0⟩ := by
    have : ((Gen.C13.L_0_5_0.norm.map p3Of).map castP3)[2]? = some q := hq'
    rw [hq] at this
    exact (Option.some.inj this).symm
  subst hqe
  have hge : g = unitR ((Gen.C13.L_0_5_0.norm.map p3Of).map castP3).length 2 := by
    have : GainCalc.pspHandle Gen.C05.L1 (vec3 ⟨0, 1, 0⟩) = some g := hg'
    rw [hpsp] at this
    exact (Option.some.inj this).symm
  rw [hge, ← renderPolar_scale _ _ _ _ s gain diffuse hs0 (unitR_length _ 2)
    (fun v hv => by rcases unitR_mem _ 2 v hv with h | h <;> rw [h] <;> norm_num)] at ho
  unfold renderPolarLock
  simp only [Option.bind_eq_some_iff, Option.some.injEq, Prod.mk.injEq]
  exact ⟨⟨0, 1, 0⟩, by rw [← hlk]; exact hq', _, hpan, _, hz, (d, f), ho, rfl, hlk.symm, rfl⟩

end Earverif.C13
