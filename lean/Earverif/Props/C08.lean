/-
C08 — ADM serialisation (AXML + CHNA) round-trips; generation is a fixed point; generated IDs are
unique, well-formed and never the reserved silent-track UID.

What is proved here (for all inputs, on the hand-written models that the harness ties to the code):
* the leaf codecs that carry the "exactly" part of the property: ADM time strings
  (`time_roundtrip_decimal`, `time_roundtrip_fractional`, `time_unparse_parse`), the CHNA table entry
  (`chna_entry_roundtrip`);
* ID generation (`ids_injective`, `ids_wellformed`, `ids_not_reserved`, `ids_disjoint_from_common`).

* the XML layer on an abstract tree: the declarative combinators (`Proofs/C08Codec.lean`), every hand-written
  handler pair of `xml.py` modelled exactly (`Proofs/C08Custom.lean`), and class-level round trips for every element
  class of both versions (`Proofs/C08Blocks.lean`, `C08Nested.lean`, `C08Blocks2.lean`, `C08Elements.lean`), tied to
  the regenerated handler tables by `Proofs/C08Tables.lean`; `C08_roundtrip_model` is the document-level statement.

* the CHNA <-> audioTrackUID transfer of `chna.py` (`Model/ChnaTransfer.lean`): `chna_transfer_roundtrip`,
  `chna_rows_in_document_order`, `chna_conflict_rejected`, `chna_only_document`, `chna_chunk_roundtrip`,
  `chna_transfer_through_bytes`, with the excluded points as `chna_excluded_points_transfer`;
* the id map and reference resolution of `adm.py` and the element classes (`Model/AdmRefs.lean`): `lookup_unique`,
  `duplicate_id_rejected` (and `duplicate_across_classes_not_rejected`), `resolve_total_on_closed`,
  `resolve_dangling_rejected`, and the composition with the XML layer `resolve_then_ids_roundtrip`.

* the float leaf (`Model/FloatText.lean`, `Proofs/C08Float.lean`): `"{:.5f}".format` / `float()` (`FloatType` and the
  bare uses in the hand-written handlers) and `"{:07.5f}".format(float(t))` / `Fraction()` (`SecondsType`) over exact
  binary64 values: `fmt5_parse_fmt5` (print ∘ parse ∘ print = print for every finite double, no magnitude bound),
  `parse_fmt5_close`, `parse_fmt5_exact_of_5dec`, `parse_fmt5_idempotent`, `seconds_roundtrip`,
  `seconds_exact_of_5dec`, and the two LEAF-LEVEL bridges `floatCodec_refines` / `secondsCodec_refines`: for ONE
  grid value `|k| / 10^5 < 2^36` the printable-grid codec of the handler-table model (`Leaf.num k`, `dumpsNum`,
  `loadsNum`) writes the text the real code writes for the nearest double (resp. for the Fraction `k / 10^5`) and the
  real reader maps that text back to that double (resp. Fraction).  `C08_roundtrip_model_floats_partial` (section
  FloatDoc, `Proofs/C08FloatDoc.lean`) composes them with the document model under the decidable `NumsBounded` for the
  declarative `FloatType` rows of the regenerated parser tables, the five gain handlers and jumpPosition; the numbers of
  the other hand-written handlers are not traversed.  `C08_roundtrip_model` and every class theorem themselves remain
  statements over `Leaf.num (k : ℤ)` with no bound on `k` and with `loadsNum`, which is the inverse of `dumpsNum` on its image only (not `float()`: `0.5`, `1`, `1e0` are
  outside, `-0.00000` is read as 0); what the grid model cannot express is listed in `grid_model_excluded_points`
  (`-0.0`, gain = -1e-7, other spellings, leaves beyond the bound).

What is NOT proved (hence the summary is still `C08_partial`): lxml parsing and serialisation and bytes <-> str (the
tree is abstract, CHNA strings are 7-bit), attrs validators other than the ones stated, the AudioStreamFormatWrapper
bookkeeping; at document level the class theorems are stated for values on the 1e-5 grid (`Leaf.num k`; for an
off-grid double the text is still a fixed point by `fmt5_parse_fmt5`, but a value that PRINTS like a default, e.g.
width 1e-7, is written and then elided by the second generation).  Those are covered by the document-level search in
`harness/c08.py` only.
-/
import Earverif.Proofs.C08TimeRat
import Earverif.Proofs.C08Ids
import Earverif.Model.Chna
import Earverif.Gen.C08_Handlers
import Earverif.Proofs.C08Leaf
import Earverif.Proofs.C08Custom
import Earverif.Proofs.C08Blocks
import Earverif.Proofs.C08Tables
import Earverif.Proofs.C08Chna
import Earverif.Proofs.C08Refs
import Earverif.Model.AdmRefsDoc
import Earverif.Proofs.C08Float
import Earverif.Proofs.C08FloatDoc

namespace Earverif.C08
open Earverif.Digits Earverif.TimeFormat Earverif.GenIds

/-! ## Times -/

/-- the exactness condition of `unparse_time`'s decimal branch: some power of ten makes `q` an integer
with at most 28 significant digits (`Decimal(num)/Decimal(den) == time` in the default context) -/
def ExactDecimal (q : ℚ) : Prop := ∃ k N : ℕ, N < 10 ^ decimalPrec ∧ q * 10 ^ k = N

/-- Decimal times: for every `0 ≤ q < 100 h` that is a terminating decimal within 28 significant
digits, in either version (`allow_fractional` or not) a string is printed and parsing it gives back
exactly `q` (also with the v1 parser). -/
theorem time_roundtrip_decimal (q : ℚ) (h0 : 0 ≤ q) (h1 : q < 360000) (hx : ExactDecimal q) (af : Bool) :
    ∃ s, unparseTime af (.dec q) = .ok s ∧ parseTime s = some (.dec q) ∧ parseTimeV1 s = some (.dec q) := by
  obtain ⟨k, N, hN, hq⟩ := hx
  obtain ⟨s, hs, hp⟩ := parse_unparseDecimal q h0 h1 k N hN hq
  refine ⟨s, ?_, hp, ?_⟩
  · have : ¬ q < 0 := not_lt.mpr h0
    cases af <;> simp [unparseTime, Time.value, this, hs]
  · simp [parseTimeV1, hp]

/-- non-vacuity: 1 h 2 min 3.5 s -/
example : (0 : ℚ) ≤ 7447 / 2 ∧ (7447 / 2 : ℚ) < 360000 ∧ ExactDecimal (7447 / 2) :=
  ⟨by norm_num, by norm_num, 1, 37235, by norm_num [decimalPrec], by norm_num⟩

/-- Fractional times (BS.2076-2): numerator and denominator are preserved as given, including
non-normalised ones such as `FractionalTime(2, 4)` ↦ `00:00:00.2S4`. -/
theorem time_roundtrip_fractional (n d : ℕ) (hd : 0 < d) (h : n < 360000 * d) :
    unparseTime true (.frac n d) = .ok (unparseFractional n d) ∧
    parseTime (unparseFractional n d) = some (.frac n d) :=
  ⟨rfl, parse_unparseFractional n d hd h⟩

example : (0 < 4) ∧ 2 < 360000 * 4 := by omega

/-- the v1 parser rejects what the v2 writer prints for a `FractionalTime` (stated, not totalised away) -/
theorem time_v1_rejects_fractional (n d : ℕ) (hd : 0 < d) (h : n < 360000 * d) :
    parseTimeV1 (unparseFractional n d) = none := by
  simp [parseTimeV1, parse_unparseFractional n d hd h]

/-- whatever the decimal branch prints is an exact decimal -/
theorem exact_of_unparseDecimal (q : ℚ) (h0 : 0 ≤ q) (s : List Char) (h : unparseDecimal? q = some s) :
    ExactDecimal q := by
  unfold unparseDecimal? at h
  obtain ⟨num, hnum, htoNat, hqdiv⟩ := nonneg_num_den q h0
  rw [htoNat] at h
  have hdpos : 0 < q.den := q.den_pos
  have hn : num % q.den < q.den := Nat.mod_lt _ hdpos
  cases hds : fracDigits q.den (placesBound q.den) (num % q.den) with
  | none => simp [hds] at h
  | some ds =>
    simp only [hds] at h
    split at h
    · rename_i hfit
      obtain ⟨_, hval⟩ := fracDigits_spec q.den _ _ _ hds hn
      refine ⟨ds.length, num / q.den * 10 ^ ds.length + ofDigits 10 ds, hfit, ?_⟩
      have hdm := Nat.div_add_mod num q.den
      have hC : num * 10 ^ ds.length = q.den * (num / q.den * 10 ^ ds.length + ofDigits 10 ds) := by
        rw [Nat.mul_add, ← hval]
        calc num * 10 ^ ds.length = (q.den * (num / q.den) + num % q.den) * 10 ^ ds.length := by rw [hdm]
          _ = _ := by ring
      have hCq : (num : ℚ) * 10 ^ ds.length = q.den * ((num / q.den * 10 ^ ds.length + ofDigits 10 ds : ℕ) : ℚ) := by
        exact_mod_cast hC
      generalize q.den = d at *
      have hdq : (d : ℚ) ≠ 0 := by exact_mod_cast (Nat.pos_iff_ne_zero.mp hdpos)
      rw [hqdiv]
      field_simp
      linarith
    · cases h

/-- the value-based branch of `unparse_time` (everything except an explicit `FractionalTime` in v2) -/
def valueBranch (af : Bool) (q : ℚ) : Unparsed :=
  if q < 0 then .negative
  else match unparseDecimal? q with
    | some s => .ok s
    | none => if af then .ok (unparseFractional q.num.toNat q.den) else .lossy

theorem unparseTime_value (af : Bool) (t0 : Time) (hnf : af = true → ∀ n d, t0 ≠ .frac n d) :
    unparseTime af t0 = valueBranch af t0.value := by
  cases af <;> cases t0
  · rfl
  · rfl
  · rfl
  · exact absurd rfl (hnf rfl _ _)

/-- String fixed point on the image of `unparse_time`: below 100 hours, whatever `unparse_time` prints
(decimal, fractional, or the fractional fallback for a `Fraction` that is not a terminating decimal)
is accepted by `parse_time`, the parsed time has the same value, and printing it again gives the same
string. -/
theorem time_unparse_parse (af : Bool) (t : Time) (s : List Char)
    (hwf : ∀ n d, t = .frac n d → 0 < d) (h100 : t.value < 360000)
    (h : unparseTime af t = .ok s) :
    ∃ t', parseTime s = some t' ∧ unparseTime af t' = .ok s ∧ t'.value = t.value := by
  -- the explicit FractionalTime branch
  by_cases hfr : af = true ∧ ∃ n d, t = .frac n d
  · obtain ⟨rfl, n, d, rfl⟩ := hfr
    have hd := hwf n d rfl
    have hlt : n < 360000 * d := by
      have : (mkRat n d : ℚ) < 360000 := h100
      rw [Rat.mkRat_eq_div, div_lt_iff₀ (by exact_mod_cast hd)] at this
      have : (n : ℚ) < ((360000 * d : ℕ) : ℚ) := by push_cast at this ⊢; linarith
      exact_mod_cast this
    have hs : s = unparseFractional n d := by
      simp [unparseTime] at h; exact h.symm
    subst hs
    exact ⟨.frac n d, parse_unparseFractional n d hd hlt, rfl, rfl⟩
  · -- value-based branch
    have hthis := unparseTime_value af t (by intro haf n d hn; exact hfr ⟨haf, n, d, hn⟩)
    rw [hthis] at h
    unfold valueBranch at h
    by_cases hneg : t.value < 0
    · simp [hneg] at h
    · simp only [hneg, if_false] at h
      have h0 : 0 ≤ t.value := not_lt.mp hneg
      cases hdec : unparseDecimal? t.value with
      | some s' =>
        simp only [hdec] at h
        injection h with h; subst h
        obtain ⟨k, N, hN, hq⟩ := exact_of_unparseDecimal _ h0 _ hdec
        obtain ⟨s'', hs'', hp⟩ := parse_unparseDecimal _ h0 h100 k N hN hq
        rw [hdec] at hs''; injection hs'' with hs''; subst hs''
        refine ⟨.dec t.value, hp, ?_, rfl⟩
        rw [unparseTime_value af (.dec t.value) (by intro _ n d hc; cases hc)]
        show valueBranch af t.value = _
        simp only [valueBranch, hneg, hdec, if_false]
      | none =>
        simp only [hdec] at h
        cases af with
        | false => simp at h
        | true =>
          simp only [if_true] at h
          injection h with h; subst h
          have hnum0 : 0 ≤ t.value.num := Rat.num_nonneg.mpr h0
          have hdpos : 0 < t.value.den := t.value.den_pos
          have hcast : ((t.value.num.toNat : ℕ) : ℤ) = t.value.num := Int.toNat_of_nonneg hnum0
          have hval : (mkRat t.value.num.toNat t.value.den : ℚ) = t.value := by
            rw [hcast]; exact Rat.mkRat_self _
          have hlt : t.value.num.toNat < 360000 * t.value.den := by
            have : (mkRat t.value.num.toNat t.value.den : ℚ) < 360000 := by rw [hval]; exact h100
            rw [Rat.mkRat_eq_div, div_lt_iff₀ (by exact_mod_cast hdpos)] at this
            have : ((t.value.num.toNat : ℕ) : ℚ) < ((360000 * t.value.den : ℕ) : ℚ) := by
              push_cast at this ⊢; linarith
            exact_mod_cast this
          exact ⟨.frac t.value.num.toNat t.value.den,
            parse_unparseFractional _ _ hdpos hlt, rfl, hval⟩

/-! ## Generated IDs -/

/-- `typeDefinition` values fit the four-digit type field (the real enum has values 1…5) -/
def TypesOK (x : Input) : Prop :=
  (∀ t ∈ x.packs, t < 0x10000) ∧ (∀ p ∈ x.channels, p.1 < 0x10000) ∧ (∀ p ∈ x.streams, p.1 < 0x10000)

/-- Uniqueness, for ALL element counts (no upper bound): within each kind the generated IDs are
pairwise distinct (nested kinds — alternativeValueSets, block formats, track formats — over the whole
document).  The minimum-width hex formatter is injective and `_` separates the variable-width fields. -/
theorem ids_injective (x : Input) (o : Output) (h : generateIds x = some o) (ht : TypesOK x) :
    o.programmes.Nodup ∧ o.contents.Nodup ∧ o.objects.Nodup ∧ o.avs.flatten.Nodup ∧
    o.packs.Nodup ∧ o.channels.Nodup ∧ o.blocks.flatten.Nodup ∧
    o.streams.Nodup ∧ o.tracks.flatten.Nodup ∧ o.trackUIDs.Nodup := by
  unfold generateIds at h
  split at h
  · cases h
  · injection h with h; subst h
    obtain ⟨htp, htc, hts⟩ := ht
    have rng : ∀ (s n : Nat) (f : Nat → List Char), (∀ i j, f i = f j → i = j) →
        ((List.range' s n).map f).Nodup := by
      intro s n f hf
      exact nodup_map_of_pairwise (List.pairwise_lt_range' (s := s) (n := n))
        (fun a _ b _ hab heq => by have := hf a b heq; omega)
    have nested : ∀ {α} (l : List α) (g : Nat × α → Nat → List Char),
        (∀ p ∈ enumFrom firstId l, ∀ p' ∈ enumFrom firstId l, ∀ b b', g p b = g p' b' → p.1 = p'.1 ∧ b = b') →
        ∀ (cnt : Nat × α → Nat),
        ((enumFrom firstId l).map fun p => (List.range' 1 (cnt p)).map (g p)).flatten.Nodup := by
      intro α l g hg cnt
      rw [List.Nodup, List.pairwise_flatten]
      constructor
      · intro inner hin
        rw [List.mem_map] at hin
        obtain ⟨p, hp, rfl⟩ := hin
        exact nodup_map_of_pairwise (List.pairwise_lt_range' (s := 1) (n := cnt p))
          (fun a _ b _ hab heq => by have := (hg p hp p hp a b heq).2; omega)
      · rw [List.pairwise_map]
        refine (enumFrom_pairwise l firstId).imp_of_mem ?_
        intro p p' hp hp' hlt a ha b hb heq
        rw [List.mem_map] at ha hb
        obtain ⟨i, _, rfl⟩ := ha
        obtain ⟨j, _, rfl⟩ := hb
        have := (hg p hp p' hp' i j heq).1
        omega
    refine ⟨rng _ _ _ (fun _ _ => aprId_inj), rng _ _ _ (fun _ _ => acoId_inj), ?_, ?_, ?_, ?_, ?_, ?_, ?_,
      rng _ _ _ (fun _ _ => atuId_inj)⟩
    · exact nodup_map_of_pairwise (enumFrom_pairwise _ _)
        (fun a _ b _ hab heq => by have := aoId_inj heq; omega)
    · exact nested x.objects (fun p j => avsId p.1 j) (fun p _ p' _ b b' heq => avsId_inj heq) (fun p => p.2)
    · exact nodup_map_of_pairwise (enumFrom_pairwise _ _)
        (fun a ha b hb hab heq => by
          have := apId_inj (htp _ (mem_enumFrom _ _ _ ha).2.2) (htp _ (mem_enumFrom _ _ _ hb).2.2) heq
          omega)
    · exact nodup_map_of_pairwise (enumFrom_pairwise _ _)
        (fun a ha b hb hab heq => by
          have := acId_inj (htc _ (mem_enumFrom _ _ _ ha).2.2) (htc _ (mem_enumFrom _ _ _ hb).2.2) heq
          omega)
    · exact nested x.channels (fun p b => abId p.2.1 p.1 b)
        (fun p hp p' hp' b b' heq =>
          abId_inj (htc _ (mem_enumFrom _ _ _ hp).2.2) (htc _ (mem_enumFrom _ _ _ hp').2.2) heq)
        (fun p => p.2.2)
    · exact nodup_map_of_pairwise (enumFrom_pairwise _ _)
        (fun a ha b hb hab heq => by
          have := asId_inj (hts _ (mem_enumFrom _ _ _ ha).2.2) (hts _ (mem_enumFrom _ _ _ hb).2.2) heq
          omega)
    · exact nested x.streams (fun p b => atId p.2.1 p.1 b)
        (fun p hp p' hp' b b' heq =>
          atId_inj (hts _ (mem_enumFrom _ _ _ hp).2.2) (hts _ (mem_enumFrom _ _ _ hp').2.2) heq)
        (fun p => p.2.2)

/-- The explicit bounds under which every generated ID has the fixed-width syntax of its kind:
at most 0xEFFF = 61 439 elements of a top-level kind (ids 0x1001 … 0xFFFF), at most 0xFFFF
alternativeValueSets per object, 0xFFFFFFFF block formats per channel, 0xFF track formats per stream,
0xFFFFFFFF track UIDs. -/
structure Bounded (x : Input) : Prop where
  programmes : x.nProgrammes ≤ 0xEFFF
  contents : x.nContents ≤ 0xEFFF
  objects : x.objects.length ≤ 0xEFFF
  avs : ∀ a ∈ x.objects, a ≤ 0xFFFF
  packs : x.packs.length ≤ 0xEFFF
  channels : x.channels.length ≤ 0xEFFF
  blocks : ∀ p ∈ x.channels, p.2 ≤ 0xFFFFFFFF
  streams : x.streams.length ≤ 0xEFFF
  tracks : ∀ p ∈ x.streams, p.2 ≤ 0xFF
  trackUIDs : x.nTrackUIDs ≤ 0xFFFFFFFF

/-- non-vacuity: a small document satisfies the bounds and `generateIds` succeeds on it -/
def exampleInput : Input := ⟨2, 1, [0, 2], [3, 1], [(3, 2), (1, 1)], [(3, 1), (1, 2)], 0, 3⟩
example : Bounded exampleInput ∧ TypesOK exampleInput ∧ (generateIds exampleInput).isSome = true := by
  refine ⟨⟨?_, ?_, ?_, ?_, ?_, ?_, ?_, ?_, ?_, ?_⟩, ⟨?_, ?_, ?_⟩, rfl⟩ <;> simp [exampleInput]

/-- Well-formedness under the bounds: every generated ID matches the syntax of its element type. -/
theorem ids_wellformed (x : Input) (o : Output) (h : generateIds x = some o) (ht : TypesOK x)
    (hb : Bounded x) :
    (∀ s ∈ o.programmes, wfAPR s = true) ∧ (∀ s ∈ o.contents, wfACO s = true) ∧
    (∀ s ∈ o.objects, wfAO s = true) ∧ (∀ s ∈ o.avs.flatten, wfAVS s = true) ∧
    (∀ s ∈ o.packs, wfAP s = true) ∧ (∀ s ∈ o.channels, wfAC s = true) ∧
    (∀ s ∈ o.blocks.flatten, wfAB s = true) ∧ (∀ s ∈ o.streams, wfAS s = true) ∧
    (∀ s ∈ o.tracks.flatten, wfAT s = true) ∧ (∀ s ∈ o.trackUIDs, wfATU s = true) := by
  unfold generateIds at h
  split at h
  · cases h
  · injection h with h; subst h
    obtain ⟨htp, htc, hts⟩ := ht
    have hf : firstId = 0x1001 := rfl
    refine ⟨?_, ?_, ?_, ?_, ?_, ?_, ?_, ?_, ?_, ?_⟩
    · intro s hs
      simp only [List.mem_map] at hs
      obtain ⟨i, hi, rfl⟩ := hs
      have := mem_range' hi; have := hb.programmes
      exact wf_aprId i (by omega)
    · intro s hs
      simp only [List.mem_map] at hs
      obtain ⟨i, hi, rfl⟩ := hs
      have := mem_range' hi; have := hb.contents
      exact wf_acoId i (by omega)
    · intro s hs
      simp only [List.mem_map] at hs
      obtain ⟨p, hp, rfl⟩ := hs
      have := mem_enumFrom _ _ _ hp; have := hb.objects
      exact wf_aoId p.1 (by omega)
    · intro s hs
      simp only [List.mem_flatten, List.mem_map] at hs
      obtain ⟨l, ⟨p, hp, rfl⟩, hs⟩ := hs
      simp only [List.mem_map] at hs
      obtain ⟨j, hj, rfl⟩ := hs
      have h1 := mem_enumFrom _ _ _ hp; have := hb.objects
      have h2 := mem_range' hj; have := hb.avs p.2 h1.2.2
      exact wf_avsId p.1 j (by omega) (by omega)
    · intro s hs
      simp only [List.mem_map] at hs
      obtain ⟨p, hp, rfl⟩ := hs
      have h1 := mem_enumFrom _ _ _ hp; have := hb.packs; have := htp _ h1.2.2
      exact wf_apId p.2 p.1 (by omega) (by omega)
    · intro s hs
      simp only [List.mem_map] at hs
      obtain ⟨p, hp, rfl⟩ := hs
      have h1 := mem_enumFrom _ _ _ hp; have := hb.channels; have := htc _ h1.2.2
      exact wf_acId p.2.1 p.1 (by omega) (by omega)
    · intro s hs
      simp only [List.mem_flatten, List.mem_map] at hs
      obtain ⟨l, ⟨p, hp, rfl⟩, hs⟩ := hs
      simp only [List.mem_map] at hs
      obtain ⟨j, hj, rfl⟩ := hs
      have h1 := mem_enumFrom _ _ _ hp; have := hb.channels; have := htc _ h1.2.2
      have h2 := mem_range' hj; have := hb.blocks p.2 h1.2.2
      exact wf_abId p.2.1 p.1 j (by omega) (by omega) (by omega)
    · intro s hs
      simp only [List.mem_map] at hs
      obtain ⟨p, hp, rfl⟩ := hs
      have h1 := mem_enumFrom _ _ _ hp; have := hb.streams; have := hts _ h1.2.2
      exact wf_asId p.2.1 p.1 (by omega) (by omega)
    · intro s hs
      simp only [List.mem_flatten, List.mem_map] at hs
      obtain ⟨l, ⟨p, hp, rfl⟩, hs⟩ := hs
      simp only [List.mem_map] at hs
      obtain ⟨j, hj, rfl⟩ := hs
      have h1 := mem_enumFrom _ _ _ hp; have := hb.streams; have := hts _ h1.2.2
      have h2 := mem_range' hj; have := hb.tracks p.2 h1.2.2
      exact wf_atId p.2.1 p.1 j (by omega) (by omega) (by omega)
    · intro s hs
      simp only [List.mem_map] at hs
      obtain ⟨i, hi, rfl⟩ := hs
      have := mem_range' hi; have := hb.trackUIDs
      exact wf_atuId i (by omega)

/-- The bound is sharp (the excluded point, also run on the real code by the harness): the 61 440th
audioObject gets the five-digit id `AO_10000`, which is not a well-formed audioObjectID; likewise the
256th audioTrackFormat of a stream. -/
theorem ids_wellformed_bound_sharp :
    aoId (firstId + 0xEFFF) = "AO_10000".toList ∧ wfAO (aoId (firstId + 0xEFFF)) = false ∧
    atId 1 0x1001 0x100 = "AT_00011001_100".toList ∧ wfAT (atId 1 0x1001 0x100) = false := by
  have h1 : aoId (firstId + 0xEFFF) = "AO_10000".toList := by
    simp [aoId, firstId, hexPad, natDigits, padLeft, hexChar]
  have h2 : atId 1 0x1001 0x100 = "AT_00011001_100".toList := by
    simp [atId, hexPad, natDigits, padLeft, hexChar]
  refine ⟨h1, ?_, h2, ?_⟩
  · rw [h1]; decide
  · rw [h2]; decide

theorem hexPad8_zero : hexPad 8 0 = "00000000".toList := by
  have : hexPad 8 0 = List.replicate 7 '0' ++ ['0'] := by
    unfold hexPad padLeft; rw [natDigits_small 14 0 (by omega)]; rfl
  rw [this]; rfl

/-- `ATU_00000000` is what the formatter would print for the counter value 0 -/
theorem silentUID_eq : silentUID = atuId 0 := by
  unfold silentUID atuId
  rw [hexPad8_zero]
  simp

/-- The reserved silent-track UID is never generated — for all inputs, no bound. -/
theorem ids_not_reserved (x : Input) (o : Output) (h : generateIds x = some o) :
    silentUID ∉ o.trackUIDs := by
  unfold generateIds at h
  split at h
  · cases h
  · injection h with h; subst h
    intro hm
    simp only [List.mem_map] at hm
    obtain ⟨i, hi, heq⟩ := hm
    rw [silentUID_eq] at heq
    have := atuId_inj heq
    have := mem_range' hi
    omega

/-- Generated top-level IDs carry a counter `≥ 0x1001`, above the range `0x0001 … 0x0FFF` reserved for
common definitions (BS.2094; the harness re-checks on every run that every ID in the shipped
common-definitions file is at most `0x0FFF`). -/
theorem ids_disjoint_from_common (x : Input) (o : Output) (h : generateIds x = some o) :
    (∀ s ∈ o.programmes, ∃ i, 0x1001 ≤ i ∧ s = aprId i) ∧ (∀ s ∈ o.contents, ∃ i, 0x1001 ≤ i ∧ s = acoId i) ∧
    (∀ s ∈ o.objects, ∃ i, 0x1001 ≤ i ∧ s = aoId i) ∧ (∀ s ∈ o.packs, ∃ t i, 0x1001 ≤ i ∧ s = apId t i) ∧
    (∀ s ∈ o.channels, ∃ t i, 0x1001 ≤ i ∧ s = acId t i) ∧ (∀ s ∈ o.streams, ∃ t i, 0x1001 ≤ i ∧ s = asId t i) ∧
    (∀ s ∈ o.blocks.flatten, ∃ t i b, 0x1001 ≤ i ∧ s = abId t i b) ∧
    (∀ s ∈ o.tracks.flatten, ∃ t i k, 0x1001 ≤ i ∧ s = atId t i k) := by
  unfold generateIds at h
  split at h
  · cases h
  · injection h with h; subst h
    have hf : firstId = 0x1001 := rfl
    refine ⟨?_, ?_, ?_, ?_, ?_, ?_, ?_, ?_⟩
    · intro s hs
      simp only [List.mem_map] at hs
      obtain ⟨i, hi, rfl⟩ := hs
      exact ⟨i, by have := mem_range' hi; omega, rfl⟩
    · intro s hs
      simp only [List.mem_map] at hs
      obtain ⟨i, hi, rfl⟩ := hs
      exact ⟨i, by have := mem_range' hi; omega, rfl⟩
    · intro s hs
      simp only [List.mem_map] at hs
      obtain ⟨p, hp, rfl⟩ := hs
      exact ⟨p.1, by have := mem_enumFrom _ _ _ hp; omega, rfl⟩
    · intro s hs
      simp only [List.mem_map] at hs
      obtain ⟨p, hp, rfl⟩ := hs
      exact ⟨p.2, p.1, by have := mem_enumFrom _ _ _ hp; omega, rfl⟩
    · intro s hs
      simp only [List.mem_map] at hs
      obtain ⟨p, hp, rfl⟩ := hs
      exact ⟨p.2.1, p.1, by have := mem_enumFrom _ _ _ hp; omega, rfl⟩
    · intro s hs
      simp only [List.mem_map] at hs
      obtain ⟨p, hp, rfl⟩ := hs
      exact ⟨p.2.1, p.1, by have := mem_enumFrom _ _ _ hp; omega, rfl⟩
    · intro s hs
      simp only [List.mem_flatten, List.mem_map] at hs
      obtain ⟨l, ⟨p, hp, rfl⟩, hs⟩ := hs
      simp only [List.mem_map] at hs
      obtain ⟨j, _, rfl⟩ := hs
      exact ⟨p.2.1, p.1, j, by have := mem_enumFrom _ _ _ hp; omega, rfl⟩
    · intro s hs
      simp only [List.mem_flatten, List.mem_map] at hs
      obtain ⟨l, ⟨p, hp, rfl⟩, hs⟩ := hs
      simp only [List.mem_map] at hs
      obtain ⟨j, _, rfl⟩ := hs
      exact ⟨p.2.1, p.1, j, by have := mem_enumFrom _ _ _ hp; omega, rfl⟩

/-- an ID with counter `≥ 0x1001` differs from every ID of the same kind with counter `≤ 0x0FFF` -/
theorem above_common_ne (i j t t' : ℕ) (hi : 0x1001 ≤ i) (hj : j ≤ 0x0FFF) (ht : t < 0x10000) (ht' : t' < 0x10000) :
    aprId i ≠ aprId j ∧ acoId i ≠ acoId j ∧ aoId i ≠ aoId j ∧ apId t i ≠ apId t' j ∧
    acId t i ≠ acId t' j ∧ asId t i ≠ asId t' j := by
  refine ⟨?_, ?_, ?_, ?_, ?_, ?_⟩
  · intro h; have := aprId_inj h; omega
  · intro h; have := acoId_inj h; omega
  · intro h; have := aoId_inj h; omega
  · intro h; have := apId_inj ht ht' h; omega
  · intro h; have := acId_inj ht ht' h; omega
  · intro h; have := asId_inj ht ht' h; omega

/-! ## CHNA entry -/

open Earverif.Chna in
/-- entries that the format can hold: 16-bit track index, 12-byte UID, reference either an
`AC_yyyyxxxx` (11 bytes, padded with `_00` on disk) or a 14-byte `AT_yyyyxxxx_zz`, pack reference
absent or 11 bytes that are not all zero; 7-bit characters -/
structure WFEntry (e : Chna.Entry) : Prop where
  idx : e.trackIndex < 65536
  uid : e.audioTrackUID.length = 12
  ref : (acPrefix.isPrefixOf e.audioTrackFormatIDRef = true ∧ e.audioTrackFormatIDRef.length = 11) ∨
        (acPrefix.isPrefixOf e.audioTrackFormatIDRef = false ∧ e.audioTrackFormatIDRef.length = 14)
  pack : ∀ p, e.audioPackFormatIDRef = some p → p.length = 11 ∧ p ≠ nullPack
  asciiUid : ascii e.audioTrackUID = true
  asciiRef : ascii e.audioTrackFormatIDRef = true
  asciiPack : ∀ p, e.audioPackFormatIDRef = some p → ascii p = true

namespace ChnaLemmas
open Earverif.Chna

theorem fit_exact (n : ℕ) (bs : Bytes) (h : bs.length = n) : fit n bs = bs := by
  unfold fit; rw [← h]; simp

/-- the field layout of `'<H12s14s11sx'` -/
theorem layout (x y z : UInt8) (a b c : Bytes) (ha : a.length = 12) (hb : b.length = 14) (hc : c.length = 11) :
    let bs := [x, y] ++ a ++ b ++ c ++ [z]
    bs.length = 40 ∧ bs.getD 0 0 = x ∧ bs.getD 1 0 = y ∧
    (bs.drop 2).take 12 = a ∧ (bs.drop 14).take 14 = b ∧ (bs.drop 28).take 11 = c := by
  intro bs
  have e : bs = x :: y :: (a ++ (b ++ (c ++ [z]))) := by simp [bs]
  have d2 : bs.drop 2 = a ++ (b ++ (c ++ [z])) := by rw [e]; rfl
  have d14 : bs.drop 14 = b ++ (c ++ [z]) := by
    have : bs.drop 14 = (bs.drop 2).drop 12 := by rw [List.drop_drop]
    rw [this, d2]; exact List.drop_left' ha
  have d28 : bs.drop 28 = c ++ [z] := by
    have : bs.drop 28 = (bs.drop 14).drop 14 := by rw [List.drop_drop]
    rw [this, d14]; exact List.drop_left' hb
  refine ⟨by simp [bs, ha, hb, hc], by rw [e]; rfl, by rw [e]; rfl, ?_, ?_, ?_⟩
  · rw [d2]; exact List.take_left' ha
  · rw [d14]; exact List.take_left' hb
  · rw [d28]; exact List.take_left' hc

theorem idx_bytes (i : ℕ) (h : i < 65536) :
    (UInt8.ofNat (i % 256)).toNat + 256 * (UInt8.ofNat (i / 256)).toNat = i := by
  simp only [UInt8.toNat_ofNat']
  omega

theorem ascii_nullPack : ascii nullPack = true := by decide

end ChnaLemmas

open Earverif.Chna ChnaLemmas in
/-- CHNA entry round trip: every well-formed entry is encoded into exactly 40 bytes, and the reader's
decoding of those bytes gives the entry back — both reference styles (`AT_…_zz` kept as is, `AC_…`
padded with `_00` and stripped again) and an absent pack reference (eleven zero bytes ⇔ `None`). -/
theorem chna_entry_roundtrip (e : Chna.Entry) (h : WFEntry e) :
    ∃ bs, Chna.encode e = some bs ∧ bs.length = 40 ∧ Chna.decode bs = some e := by
  obtain ⟨idx, uid, ref, pack⟩ := e
  obtain ⟨hidx, huid, href, hpack, hau, har, hap⟩ := h
  simp only at hidx huid href hpack hau har hap
  -- the bytes of the pack field
  obtain ⟨pf, hpf_len, hpf_fit, hpf_dec, hpf_ascii⟩ :
      ∃ pf : Bytes, pf.length = 11 ∧
        fit 11 (pack.getD nullPack) = pf ∧
        (if pf = nullPack then none else some pf) = pack ∧ ascii pf = true := by
    cases pack with
    | none => exact ⟨nullPack, rfl, rfl, by simp, ascii_nullPack⟩
    | some p =>
      have := hpack p rfl
      exact ⟨p, this.1, fit_exact 11 p this.1, by simp [this.2], hap p rfl⟩
  -- the bytes of the reference field
  obtain ⟨tc, htc_def, htc_len, htc_dec⟩ :
      ∃ tc : Bytes, (if acPrefix.isPrefixOf ref then ref ++ acPad else ref) = tc ∧ tc.length = 14 ∧
        (if acPrefix.isPrefixOf tc then tc.take 11 else tc) = ref := by
    rcases href with ⟨hp, hl⟩ | ⟨hp, hl⟩
    · refine ⟨ref ++ acPad, by simp [hp], by simp [hl, acPad], ?_⟩
      have : acPrefix.isPrefixOf (ref ++ acPad) = true := by
        rw [List.isPrefixOf_iff_prefix] at hp ⊢
        exact hp.trans (List.prefix_append _ _)
      rw [this, if_pos rfl]
      exact List.take_left' hl
    · exact ⟨ref, by simp [hp], hl, by simp [hp]⟩
  have hlay := layout (UInt8.ofNat (idx % 256)) (UInt8.ofNat (idx / 256)) 0 uid tc pf huid htc_len hpf_len
  simp only at hlay
  obtain ⟨hlen, hg0, hg1, hd2, hd14, hd28⟩ := hlay
  refine ⟨[UInt8.ofNat (idx % 256), UInt8.ofNat (idx / 256)] ++ uid ++ tc ++ pf ++ [0], ?_, hlen, ?_⟩
  · unfold Chna.encode
    simp only [htc_def, hpf_fit, fit_exact 12 uid huid]
    have h1 : ¬ tc.length ≠ 14 := by simp [htc_len]
    have h2 : ¬ 65536 ≤ idx := by omega
    simp only [h1, h2, if_false]
  · unfold Chna.decode
    have h1 : ¬ ([UInt8.ofNat (idx % 256), UInt8.ofNat (idx / 256)] ++ uid ++ tc ++ pf ++ [0]).length ≠ 40 :=
      fun hne => hne hlen
    simp only [h1, if_false, hg0, hg1, hd2, hd14, hd28, htc_dec, hau, har, hpf_ascii, hpf_dec,
      idx_bytes idx hidx, Bool.and_self, Bool.not_true]
    rfl

/-- the bytes of an ASCII string literal (for the examples) -/
def asciiBytes (s : String) : Chna.Bytes := s.toList.map fun c => UInt8.ofNat c.toNat

/-- non-vacuity: a BS.2076-2 style row (`AC_00031001`, no pack reference) -/
example : WFEntry ⟨1, asciiBytes "ATU_00000001", asciiBytes "AC_00031001", none⟩ := by
  refine ⟨by decide, by decide, Or.inl ⟨by decide, by decide⟩, by simp, by decide, by decide, by simp⟩

/-- what the well-formedness conditions exclude, stated on the model: a reference of the wrong length is
refused by the writer (`AssertionError`), and an empty-string pack reference comes back as `None`. -/
theorem chna_excluded_points :
    Chna.encode ⟨1, asciiBytes "ATU_00000001", asciiBytes "AT_0003100", none⟩ = none ∧
    (Chna.encode ⟨1, asciiBytes "ATU_00000001", asciiBytes "AT_00031001_01", some []⟩).bind Chna.decode
      = some ⟨1, asciiBytes "ATU_00000001", asciiBytes "AT_00031001_01", none⟩ := by
  constructor <;> decide

/-! ## Declarative XML handlers: regenerated table obligations

`Earverif.Gen.C08_Handlers` is re-extracted on every run from the real `MainElementHandler` for BS.2076-1 and
-2 (every `ElementParser`: main elements, block formats per type, loudnessMetadata, audioObjectInteraction,
alternativeValueSet, matrix coefficient, reference screen, zoneExclusion).  The checks below are the side
conditions under which a dictionary of declarative handlers is its own inverse: handler keys pairwise
distinct (`ElementParser.__init__` silently overwrites a duplicate key), constructor arguments pairwise
distinct, and the value elided by `to_xml` (`attr != default`) equal to the value the constructor supplies
when the item is absent (or the item is required and never elided).  The hand-written `CustomElement` /
`GenericElement` handlers appear in the table by name only. -/

section Tables
open Earverif.Gen.C08 Earverif.XmlCodec

def defaultsOK (rows : List Row) : Bool := rows.all rowDefaultOK
def enumsOK (rows : List Row) : Bool := rows.all rowEnumOK
def parseOnlyOK (rows : List Row) : Bool := rows.all rowParseOnlyOK

def parserOK (rows : List Row) : Bool :=
  rowsKeysOK rows && defaultsOK rows && enumsOK rows && parseOnlyOK rows

/-- every extracted `ElementParser` satisfies the side conditions (re-decided by the kernel on every run
against the tables extracted from the code as it is now): attribute keys, element names and written
argument names pairwise distinct, at most one text handler, elided default = constructor default, enum
tables injective -/
theorem handlers_wellformed : ∀ p ∈ parsers, parserOK p.2 = true := by decide +kernel

/-- the table is not empty: at least 30 parsers with at least 250 property rows -/
theorem handlers_table_nontrivial : 30 ≤ parsers.length ∧ 250 ≤ (parsers.map (·.2.length)).sum := by
  decide +kernel

/-- every ID in the shipped common-definitions file has a counter field `≤ 0x0FFF`, i.e. below every
generated ID (`ids_disjoint_from_common`, `above_common_ne`) -/
theorem common_ids_in_reserved_range : ∀ e ∈ commonIdRanges, e.2.2.2 ≤ 0x0FFF := by decide +kernel

/-- **The combinator round trip instantiated with the regenerated handler tables.**  For every extracted
`ElementParser` (both versions) — with the hand-written handlers supplied as parameters `impl` that satisfy
their specification in `FieldOK` (own output routed to themselves, `RunOK`) and whose declared arguments are
disjoint from everybody else's — parsing what `to_xml` wrote gives back every declarative argument, the
specified value under every argument of a hand-written handler, and the constructor default elsewhere.  The
key-distinctness hypotheses of `codec_roundtrip` are discharged by `handlers_wellformed`, i.e. by the tables as
the code declares them now. -/
theorem handlers_codec_roundtrip :
    ∀ t ∈ parsers, ∀ (impl : Row → CustomImpl Leaf) (name : String) (o cd : Obj Leaf),
      (allArgs (ofRows impl t.2)).Nodup →
      (∀ p ∈ ofRows impl t.2, FieldOK (ofRows impl t.2) (toXml (ofRows impl t.2) name o) o cd p) →
      ∃ o', parse (ofRows impl t.2) cd (toXml (ofRows impl t.2) name o) = some o' ∧
        (∀ p ∈ ofRows impl t.2, p.isCustom = false → ∀ a ∈ p.ownArgs, o' a = o a) ∧
        (∀ p ∈ ofRows impl t.2, p.isCustom = true → ∀ a ∈ p.ownArgs, o' a = (p.customEff o a).getD (cd a)) ∧
        (∀ a, a ∉ allArgs (ofRows impl t.2) → o' a = cd a) := by
  intro t ht impl name o cd hargs hF
  have hok := handlers_wellformed t ht
  simp only [parserOK, Bool.and_eq_true] at hok
  exact codec_roundtrip _ name o cd ⟨keysOK_ofRows impl t.2 hok.1.1.1 hargs, hF⟩

/-- **… with the field hypotheses reduced to statements about values.**  For every extracted parser: if each
declarative argument of the object holds a value in the domain of its codec (`RowValueOK`), `cd` is the
constructor-default map recorded in the table (`CdOK`) and the hand-written handlers meet their specification,
the conclusion of `handlers_codec_roundtrip` holds.  Key distinctness, symmetric default elision
(`handler default = constructor default`), injective enum tables and "parse-only is never required" are
discharged by `handlers_wellformed`, i.e. re-checked against the code's tables on every run. -/
theorem handlers_roundtrip_values :
    ∀ t ∈ parsers, ∀ (impl : Row → CustomImpl Leaf) (name : String) (o cd : Obj Leaf),
      (allArgs (ofRows impl t.2)).Nodup →
      (∀ r ∈ t.2, RowValueOK o r) → (∀ r ∈ t.2, CdOK cd r) →
      (∀ r ∈ t.2, r.kind ≠ "Attribute" → r.kind ≠ "AttrElement" → r.kind ≠ "ListElement" → r.kind ≠ "HandleText" →
        r.kind ≠ "TypeAttribute" →
        FieldOK (ofRows impl t.2) (toXml (ofRows impl t.2) name o) o cd (ofRow impl r)) →
      ∃ o', parse (ofRows impl t.2) cd (toXml (ofRows impl t.2) name o) = some o' ∧
        (∀ p ∈ ofRows impl t.2, p.isCustom = false → ∀ a ∈ p.ownArgs, o' a = o a) ∧
        (∀ p ∈ ofRows impl t.2, p.isCustom = true → ∀ a ∈ p.ownArgs, o' a = (p.customEff o a).getD (cd a)) ∧
        (∀ a, a ∉ allArgs (ofRows impl t.2) → o' a = cd a) := by
  intro t ht impl name o cd hargs hv hcd hfr
  have hok := handlers_wellformed t ht
  simp only [parserOK, Bool.and_eq_true, defaultsOK, enumsOK, parseOnlyOK, List.all_eq_true] at hok
  obtain ⟨⟨⟨_, hd⟩, he⟩, hp⟩ := hok
  refine handlers_codec_roundtrip t ht impl name o cd hargs ?_
  intro p hp'
  unfold ofRows at hp'
  obtain ⟨r, hr, rfl⟩ := List.mem_map.mp hp'
  exact fieldOK_ofRow impl _ _ o cd r (hd r hr) (he r hr) (hp r hr) (hv r hr) (hcd r hr) (hfr r hr)

/-- non-vacuity of the value hypotheses: an `integratedLoudness` of -23.0 (a `FloatType` `AttrElement`, optional,
default `None`), and the matching constructor default -/
example :
    RowValueOK (fun _ => .one (.num (-2300000)))
      ⟨"AttrElement", "integratedLoudness", "integratedLoudness", "integratedLoudness", "FloatType", "None", "None",
        false, false, "", [], "-"⟩ ∧
    CdOK (fun _ => .one .none)
      ⟨"AttrElement", "integratedLoudness", "integratedLoudness", "integratedLoudness", "FloatType", "None", "None",
        false, false, "", [], "-"⟩ := by
  constructor
  · simp [RowValueOK, codecOf, floatCodec_roundtrip]
  · simp [CdOK, leafOfRepr]

/-- a row handled by one of the declarative combinators -/
def rowDeclarative (r : Row) : Bool :=
  r.kind == "Attribute" || r.kind == "AttrElement" || r.kind == "ListElement" || r.kind == "HandleText" ||
  r.kind == "TypeAttribute"

/-- … and for the extracted parsers that consist of declarative properties only, the object itself comes back
and a second generation reproduces the same tree -/
theorem handlers_codec_roundtrip_pure :
    ∀ t ∈ parsers, t.2.all rowDeclarative = true →
      ∀ (impl : Row → CustomImpl Leaf) (name : String) (o cd : Obj Leaf),
      (∀ p ∈ ofRows impl t.2, FieldOK (ofRows impl t.2) (toXml (ofRows impl t.2) name o) o cd p) →
      (∀ a, a ∉ allArgs (ofRows impl t.2) → o a = cd a) →
      parse (ofRows impl t.2) cd (toXml (ofRows impl t.2) name o) = some o ∧
      (parse (ofRows impl t.2) cd (toXml (ofRows impl t.2) name o)).map (toXml (ofRows impl t.2) name)
        = some (toXml (ofRows impl t.2) name o) := by
  intro t ht hpure impl name o cd hF hrest
  have hok := handlers_wellformed t ht
  simp only [parserOK, Bool.and_eq_true] at hok
  have hdecl : ∀ r ∈ t.2, (ofRow impl r).ownArgs = (rowDeclArg? r).toList := by
    intro r hr
    have := (List.all_eq_true.mp hpure) r hr
    simp only [rowDeclarative, Bool.or_eq_true, beq_iff_eq] at this
    unfold ofRow ofRowG rowDeclArg?
    split_ifs <;> simp_all [Property.ownArgs]
  have hargs : (allArgs (ofRows impl t.2)).Nodup := by
    have h3 : (t.2.filterMap rowDeclArg?).Nodup := by
      have := hok.1.1.1
      simp only [rowsKeysOK, Bool.and_eq_true, decide_eq_true_eq] at this
      exact this.1.2
    have : allArgs (ofRows impl t.2) = t.2.filterMap rowDeclArg? := by
      unfold allArgs ofRows
      rw [flatMap_map']
      have hgen : ∀ l : List Row, (∀ r ∈ l, (ofRow impl r).ownArgs = (rowDeclArg? r).toList) →
          l.flatMap (fun r => (ofRow impl r).ownArgs) = l.filterMap rowDeclArg? := by
        intro l
        induction l with
        | nil => intro _; rfl
        | cons r rs ih =>
          intro h
          rw [List.flatMap_cons, List.filterMap_cons, h r (by simp), ih (fun x hx => h x (by simp [hx]))]
          cases rowDeclArg? r <;> rfl
      exact hgen t.2 hdecl
    rw [this]; exact h3
  refine codec_roundtrip_pure _ name o cd ⟨keysOK_ofRows impl t.2 hok.1.1.1 hargs, hF⟩ ?_ hrest
  intro p hp
  unfold ofRows at hp
  obtain ⟨r, hr, rfl⟩ := List.mem_map.mp hp
  have := (List.all_eq_true.mp hpure) r hr
  simp only [rowDeclarative, Bool.or_eq_true, beq_iff_eq] at this
  unfold ofRow ofRowG
  split_ifs <;> simp_all [Property.isCustom]

/-- the purely declarative parsers in the current tables (non-vacuity of `handlers_codec_roundtrip_pure`):
loudnessMetadata, audioPackFormat, audioStreamFormat, audioTrackFormat and the BS.2076-2 audioTrackUID -/
theorem handlers_pure_count :
    8 ≤ (parsers.filter fun t => t.2.all rowDeclarative).length := by
  decide +kernel

/-- `TimeType` / `TimeTypeV1` as field codecs: decimal times (either version) -/
theorem timeCodec_roundtrip_dec (af : Bool) (q : ℚ) (h0 : 0 ≤ q) (h1 : q < 360000) (hx : ExactDecimal q) :
    (timeCodec af).loads ((timeCodec af).dumps (.time (.dec q))) = some (.time (.dec q)) := by
  obtain ⟨s, hs, hp, hp1⟩ := time_roundtrip_decimal q h0 h1 hx af
  cases af <;> simp [timeCodec, hs, hp, hp1]

/-- … and explicit `FractionalTime`s with the BS.2076-2 codec -/
theorem timeCodec_roundtrip_frac (n d : ℕ) (hd : 0 < d) (h : n < 360000 * d) :
    (timeCodec true).loads ((timeCodec true).dumps (.time (.frac n d))) = some (.time (.frac n d)) := by
  obtain ⟨hs, hp⟩ := time_roundtrip_fractional n d hd h
  simp [timeCodec, hs, hp]

end Tables

/-! ## The XML layer, document level -/

section Document
open Earverif.XmlCodec Earverif.XmlBlocks Earverif.XmlElements

/-- an object comes back from the element written for it, and a second generation gives the same tree -/
def RoundTrips (ps : List (Property XV)) (cd : Obj XV) (name : String) (o : Obj XV) : Prop :=
  parse ps cd (toXml ps name o) = some o ∧
  (parse ps cd (toXml ps name o)).map (toXml ps name) = some (toXml ps name o)

/-- every element of the document is inside the stated domain of its class -/
structure DocValid (v2 : Bool) (d : Document) : Prop where
  programmes : ∀ p ∈ d.programmes, ProgrammeValid v2 p
  contents : ∀ c ∈ d.contents, ContentValid v2 c
  objects : ∀ o ∈ d.objects, ObjectValid v2 o
  channelFormats : ∀ c ∈ d.channelFormats, ChannelValid v2 c
  trackUIDs : ∀ u ∈ d.trackUIDs, TrackUIDValid v2 u

/-- **C08 on the model, document level.**  For BS.2076-1 (`v2 = false`) and BS.2076-2 (`v2 = true`): every main
element of a `DocValid` document — audioProgramme (reference screen, loudness metadata), audioContent, audioObject
(position offset, alternative value sets, interaction ranges), audioPackFormat, audioChannelFormat (block formats of
all five types incl. Matrix coefficients, frequency), audioStreamFormat, audioTrackFormat, audioTrackUID — is parsed
back as itself by the parser that the REGENERATED handler table declares for its class (hand-written handlers chosen
by name, `implX`), and generating XML again from the parsed element reproduces the same tree. -/
theorem C08_roundtrip_model (v2 : Bool) (d : Document) (hv : DocValid v2 d) :
    (∀ p ∈ d.programmes, RoundTrips (propsX v2 (rowsOf v2 "audioProgramme")) programmeDefaults "audioProgramme" p.toObj) ∧
    (∀ c ∈ d.contents, RoundTrips (propsX v2 (rowsOf v2 "audioContent")) contentDefaults "audioContent" c.toObj) ∧
    (∀ o ∈ d.objects, RoundTrips (propsX v2 (rowsOf v2 "audioObject")) objectDefaults "audioObject" o.toObj) ∧
    (∀ p ∈ d.packFormats, RoundTrips (propsX v2 (rowsOf v2 "audioPackFormat")) packDefaults "audioPackFormat" p.toObj) ∧
    (∀ c ∈ d.channelFormats,
      RoundTrips (propsX v2 (rowsOf v2 "audioChannelFormat")) channelDefaults "audioChannelFormat" c.toObj) ∧
    (∀ s ∈ d.streamFormats,
      RoundTrips (propsX v2 (rowsOf v2 "audioStreamFormat")) streamDefaults "audioStreamFormat" s.toObj) ∧
    (∀ t ∈ d.trackFormats, RoundTrips (propsX v2 (rowsOf v2 "audioTrackFormat")) noneDefaults "audioTrackFormat" t.toObj) ∧
    (∀ u ∈ d.trackUIDs, RoundTrips (propsX v2 (rowsOf v2 "audioTrackUID")) noneDefaults "audioTrackUID" u.toObj) := by
  rw [programmeProps_eq, contentProps_eq, objectProps_eq, packProps_eq, channelProps_eq, streamProps_eq, trackProps_eq,
    trackUIDProps_eq]
  exact ⟨fun p hp => programme_roundtrip v2 _ p (hv.programmes p hp),
    fun c hc => content_roundtrip v2 _ c (hv.contents c hc),
    fun o ho => object_roundtrip v2 _ o (hv.objects o ho),
    fun p _ => packFormat_roundtrip _ p,
    fun c hc => channelFormat_roundtrip v2 _ c (hv.channelFormats c hc),
    fun s _ => streamFormat_roundtrip _ s,
    fun t _ => trackFormat_roundtrip _ t,
    fun u hu => trackUID_roundtrip v2 _ u (hv.trackUIDs u hu)⟩

/-- the nested element classes, in table form: block formats of the four remaining types, the Matrix coefficient,
loudnessMetadata, audioObjectInteraction, alternativeValueSet, the reference screen -/
theorem C08_nested_roundtrip (v2 : Bool) (name : String) :
    (∀ b, DSValid v2 b → RoundTrips (propsX v2 (rowsOf v2 "audioBlockFormat:DirectSpeakers")) dsDefaults name b.toObj) ∧
    (∀ b, HoaValid v2 b → RoundTrips (propsX v2 (rowsOf v2 "audioBlockFormat:HOA")) blockDefaults name b.toObj) ∧
    (∀ b, BinauralValid v2 b →
      RoundTrips (propsX v2 (rowsOf v2 "audioBlockFormat:Binaural")) blockDefaults name b.toObj) ∧
    (∀ b, MatrixValid v2 b → RoundTrips (propsX v2 (rowsOf v2 "audioBlockFormat:Matrix")) matrixDefaults name b.toObj) ∧
    (∀ b, Earverif.XmlBlocks.Valid v2 b →
      RoundTrips (propsX v2 (rowsOf v2 "audioBlockFormat:Objects")) objectsDefaults name b.toObj) ∧
    (∀ c : Coefficient, RoundTrips (propsX v2 (rowsOf v2 "coefficient")) noneDefaults name c.toObj) ∧
    (∀ l : Loudness, RoundTrips (propsX v2 (rowsOf v2 "loudnessMetadata")) noneDefaults name l.toObj) ∧
    (∀ i, InteractionValid i → RoundTrips (propsX v2 (rowsOf v2 "audioObjectInteraction")) noneDefaults name i.toObj) ∧
    (∀ a, AVSValid a → RoundTrips (propsX v2 (rowsOf v2 "alternativeValueSet")) noneDefaults name a.toObj) ∧
    (∀ s : Screen, s.centrePosition.inRange →
      RoundTrips (propsX v2 ((Earverif.Gen.C08.parsers.lookup "audioProgrammeReferenceScreen").getD [])) noneDefaults name
        s.toObj) := by
  rw [dsProps_eq, hoaProps_eq, binauralProps_eq, matrixProps_eq, objectsXProps_eq, coeffProps_eq, loudnessProps_eq,
    interactionProps_eq, avsProps_eq, screenProps_eq]
  refine ⟨fun b hb => directSpeakersBlock_roundtrip v2 _ b hb, fun b hb => hoaBlock_roundtrip v2 _ b hb,
    fun b hb => binauralBlock_roundtrip v2 _ b hb, fun b hb => matrixBlock_roundtrip v2 _ b hb, ?_,
    fun c => coeff_roundtrip v2 _ c, fun l => loudness_roundtrip _ l, fun i hi => interaction_roundtrip v2 _ i hi,
    fun a ha => avs_roundtrip v2 _ a ha, fun s hs => screen_roundtrip _ s hs⟩
  intro b hb
  have := objectsBlock_roundtrip v2 name b hb
  rw [objectsProps_eq] at this
  exact this

/-- non-vacuity of `DocValid`: a BS.2076-2 document with one element of each kind -/
example : DocValid true
    { programmes := [⟨"APR_1001", "p", none, none, none, none, ["ACO_1001"], defaultScreen, [], []⟩],
      contents := [⟨"ACO_1001", "c", none, none, ["AO_1001"], [], []⟩],
      objects := [⟨"AO_1001", "o", none, none, none, none, none, none, ["AP_00051001"], [], [], [some "ATU_00000001"],
        50000, false, none, [], none⟩],
      packFormats := [⟨"AP_00051001", "pk", .binaural, none, ["AC_00051001"], [], none, [], none, none, none, none, none⟩],
      channelFormats := [⟨"AC_00051001", "ch", .binaural, [.binaural ⟨"AB_00051001_00000001", none, none, 100000, 10⟩],
        ⟨none, none⟩⟩],
      streamFormats := [], trackFormats := [],
      trackUIDs := [⟨"ATU_00000001", some 48000, some 24, none, some "AC_00051001", some "AP_00051001"⟩] } := by
  refine ⟨?_, ?_, ?_, ?_, ?_⟩
  · intro p hp; simp at hp; subst hp
    exact ⟨fun _ h => by simp at h, fun _ h => by simp at h, by simp [defaultScreen, Earverif.XmlCustom.CentrePosition.inRange],
      fun h => by simp at h⟩
  · intro c hc; simp at hc; subst hc; exact ⟨fun h => by simp at h⟩
  · intro o ho; simp at ho; subst ho
    exact ⟨fun _ h => by simp at h, fun _ h => by simp at h, fun s h => by simp at h; subst h; decide,
      fun q h => by simp at h, fun a h => by simp at h, fun i h => by simp at h, fun h => by simp at h⟩
  · intro c hc; simp at hc; subst hc
    exact ⟨by simp, fun b h => by simp at h; subst h; rfl, fun b h => by
      simp at h; subst h
      exact ⟨fun _ h => by simp at h, fun _ h => by simp at h, fun h => by simp at h⟩⟩
  · intro u hu; simp at hu; subst hu; exact fun h => by simp at h

end Document

section Transfer
open Earverif.Chna Earverif.ChnaTransfer

/-! ## CHNA <-> audioTrackUID transfer (`chna.py`) -/

/-- **Transfer round trip.**  (1) For a well-formed document (`WFDoc`: distinct UIDs; every track UID with a track
index, exactly one of audioTrackFormat / audioChannelFormat of the kind its id announces, references that
`lookup_element` finds again, nothing pending, not the reserved UID): `populate_chna_chunk` writes rows, and
`load_chna_chunk` of these rows into ANY copy of the document without track information (no index; per track UID the
format / pack references kept as parsed from AXML or dropped) restores every track UID.  (2) For a well-formed chunk
that names the elements by their stored ids: loading it into a document without audioTrackUIDs and populating again
reproduces the chunk. -/
theorem chna_transfer_roundtrip (lookup : Bytes → Option Bytes) :
    (∀ tracks, WFDoc lookup tracks → ∃ rows, populateChna tracks = .ok rows ∧
      ∀ kf kp : TrackUID → Bool, loadChna lookup (tracks.map fun t => forget (kf t) (kp t) t) rows = .ok tracks) ∧
    (∀ rows, WFChunk lookup rows → (∀ e ∈ rows, up e.audioTrackUID = e.audioTrackUID) →
      (∀ e ∈ rows, lookup (up e.audioTrackFormatIDRef) = some e.audioTrackFormatIDRef) →
      (∀ e ∈ rows, ∀ p, e.audioPackFormatIDRef = some p → lookup p = some p) →
      ∃ ts, loadChna lookup [] rows = .ok ts ∧ populateChna ts = .ok rows) := by
  constructor
  · intro tracks h
    obtain ⟨rows, hrows, _⟩ := transfer_roundtrip lookup tracks h (fun _ => true) (fun _ => true)
    refine ⟨rows, hrows, fun kf kp => ?_⟩
    obtain ⟨rows', hrows', hload⟩ := transfer_roundtrip lookup tracks h kf kp
    rw [hrows] at hrows'; injection hrows' with hrows'; subst hrows'
    exact hload
  · intro rows h hu hr hp
    exact ⟨_, chna_only lookup rows h, populate_chna_only lookup rows hu hr hp⟩

/-- the lookup of a document whose other elements are two channel formats, a track format (common-definition style id
with a lower-case hex digit) and a pack format -/
def exLookup : Bytes → Option Bytes :=
  chainLookup [some (asciiBytes "AC_00031001"), some (asciiBytes "AC_00031002"), some (asciiBytes "AT_0001000a_01"),
    some (asciiBytes "AP_00031001")] []

/-- a BS.2076-2 style track UID (audioChannelFormat reference, pack) and a BS.2076-1 style one (audioTrackFormat
reference, no pack) -/
def exTracks : List TrackUID :=
  [⟨asciiBytes "ATU_00000001", some 2, none, some (asciiBytes "AC_00031001"), some (asciiBytes "AP_00031001"), none, none, none⟩,
   ⟨asciiBytes "ATU_00000002", some 1, some (asciiBytes "AT_0001000a_01"), none, none, none, none, none⟩]

/-- non-vacuity of `WFDoc` / `WFChunk`, and the rows written for the example -/
example : WFDoc exLookup exTracks ∧
    populateChna exTracks = .ok [⟨2, asciiBytes "ATU_00000001", asciiBytes "AC_00031001", some (asciiBytes "AP_00031001")⟩,
      ⟨1, asciiBytes "ATU_00000002", asciiBytes "AT_0001000a_01", none⟩] := by
  refine ⟨⟨by decide, ?_⟩, by decide⟩
  intro t ht
  simp only [exTracks, List.mem_cons, List.not_mem_nil, or_false] at ht
  rcases ht with rfl | rfl
  · exact ⟨⟨2, rfl⟩, ⟨rfl, rfl, rfl⟩, Or.inr ⟨_, rfl, rfl, by decide, by decide⟩,
      fun p hp => (by injection hp with hp; subst hp; decide), by decide⟩
  · exact ⟨⟨1, rfl⟩, ⟨rfl, rfl, rfl⟩, Or.inl ⟨_, rfl, rfl, by decide, by decide⟩, fun p hp => (by cases hp), by decide⟩

/-- **Rows in document order.**  `populate_chna_chunk` does not sort or filter: the rows are the document's track UIDs
in order, each with its own UID and (1-based) index; hence distinct UIDs in the document give distinct UIDs in the
chunk.  (A track UID without index makes the whole call raise — see `chna_excluded_points_transfer`.) -/
theorem chna_rows_in_document_order (tracks : List TrackUID) (rows : List Entry) (h : populateChna tracks = .ok rows) :
    rows.map (·.audioTrackUID) = tracks.map (·.id) ∧
    rows.map (fun e => some e.trackIndex) = tracks.map (·.trackIndex) ∧
    rows.length = tracks.length ∧
    ((tracks.map (·.id)).Nodup → (rows.map (·.audioTrackUID)).Nodup) := by
  obtain ⟨h1, h2⟩ := mapM_entryOf_uids tracks rows h
  refine ⟨h1, h2, ?_, fun hn => by rw [h1]; exact hn⟩
  have := congrArg List.length h1
  simpa using this

/-- **Conflicts between AXML and CHNA are rejected** with the error of the code.  For a document with distinct UIDs
and a chunk whose first row names the track UID `t` (UIDs compared upper-cased): another track index is the
`AssertionError`; with a compatible index, an audioChannelFormat in AXML against a CHNA reference of the other kind
or with another id is the "CHNA entry references … but AXML references …" `Exception` (symmetrically for an
audioTrackFormat), a track UID linked to both kinds is the "linked to both" `Exception`, and — the format reference
agreeing — another audioPackFormat id is the "does not match value in AXML" `Exception`.  Nothing is loaded. -/
theorem chna_conflict_rejected (lookup : Bytes → Option Bytes) (tracks : List TrackUID)
    (hnd : (tracks.map fun t => up t.id).Nodup) (j : Nat) (t : TrackUID) (e : Entry) (rest : List Entry)
    (ht : tracks[j]? = some t) (hu : up e.audioTrackUID = up t.id) :
    (∀ i, t.trackIndex = some i → i ≠ e.trackIndex → loadChna lookup tracks (e :: rest) = .error .indexMismatch) ∧
    ((t.trackIndex = none ∨ t.trackIndex = some e.trackIndex) →
      ((∃ a b, t.audioTrackFormat = some a ∧ t.audioChannelFormat = some b) →
        loadChna lookup tracks (e :: rest) = .error .bothLinked) ∧
      (∀ c, t.audioChannelFormat = some c → t.audioTrackFormat = none →
        ¬ (acPrefix.isPrefixOf e.audioTrackFormatIDRef = true ∧ up e.audioTrackFormatIDRef = up c) →
        loadChna lookup tracks (e :: rest) = .error .refConflict) ∧
      (∀ r, t.audioTrackFormat = some r → t.audioChannelFormat = none →
        ¬ (acPrefix.isPrefixOf e.audioTrackFormatIDRef = false ∧ up e.audioTrackFormatIDRef = up r) →
        loadChna lookup tracks (e :: rest) = .error .refConflict) ∧
      (∀ c p q, t.audioChannelFormat = some c → t.audioTrackFormat = none →
        acPrefix.isPrefixOf e.audioTrackFormatIDRef = true → up e.audioTrackFormatIDRef = up c →
        e.audioPackFormatIDRef = some p → t.audioPackFormat = some q → up q ≠ up p →
        loadChna lookup tracks (e :: rest) = .error .packConflict) ∧
      (∀ r p q, t.audioTrackFormat = some r → t.audioChannelFormat = none →
        acPrefix.isPrefixOf e.audioTrackFormatIDRef = false → up e.audioTrackFormatIDRef = up r →
        e.audioPackFormatIDRef = some p → t.audioPackFormat = some q → up q ≠ up p →
        loadChna lookup tracks (e :: rest) = .error .packConflict)) := by
  have lift := fun x (h : loadInto t e = .error x) => load_first_row_error lookup tracks hnd j t e rest x ht hu h
  obtain ⟨h1, h2⟩ := loadInto_conflicts t e
  refine ⟨fun i hi hne => lift _ (h1 i hi hne), fun hidx => ?_⟩
  obtain ⟨a, b, c, d, f⟩ := h2 hidx
  exact ⟨fun h => lift _ (a h), fun x h1 h2 h3 => lift _ (b x h1 h2 h3), fun x h1 h2 h3 => lift _ (c x h1 h2 h3),
    fun x p q h1 h2 h3 h4 h5 h6 h7 => lift _ (d x p q h1 h2 h3 h4 h5 h6 h7),
    fun x p q h1 h2 h3 h4 h5 h6 h7 => lift _ (f x p q h1 h2 h3 h4 h5 h6 h7)⟩

/-- non-vacuity of `chna_conflict_rejected`: the example document against a row that names another channel format -/
example : loadChna exLookup (exTracks.map (forget true true))
    [⟨2, asciiBytes "ATU_00000001", asciiBytes "AC_00031002", none⟩] = .error .refConflict := by decide

/-- **No AXML.**  Every row of a well-formed chunk (`WFChunk`: distinct UIDs, none reserved, references that name
elements of the document, i.e. common definitions) yields an audioTrackUID with exactly the row's data, in row order:
the UID (upper-cased), the index, the reference as audioChannelFormat iff the CHNA string starts with `AC_` (otherwise
as audioTrackFormat), the pack format if the row has one. -/
theorem chna_only_document (lookup : Bytes → Option Bytes) (rows : List Entry) (h : WFChunk lookup rows) :
    loadChna lookup [] rows = .ok (rows.map (trackOf lookup)) := chna_only lookup rows h

example : WFChunk exLookup [⟨7, asciiBytes "ATU_00000009", asciiBytes "AT_0001000A_01", some (asciiBytes "AP_00031001")⟩] := by
  refine ⟨by decide, ?_, ?_, ?_⟩
  · intro e he; simp only [List.mem_singleton] at he; subst he; decide
  · intro e he; simp only [List.mem_singleton] at he; subst he; exact ⟨asciiBytes "AT_0001000a_01", by decide⟩
  · intro e he p hp; simp only [List.mem_singleton] at he; subst he
    injection hp with hp; subst hp; exact ⟨asciiBytes "AP_00031001", by decide⟩

/-- a UID present in the AXML but absent from CHNA is not an error: the track UID keeps `trackIndex = None` -/
theorem chna_absent_uid_untouched (lookup : Bytes → Option Bytes) (tracks : List TrackUID)
    (hnd : (tracks.map fun t => up t.id).Nodup) (hs : ∀ t ∈ tracks, up t.id ≠ ChnaTransfer.silentUID)
    (hp : ∀ t ∈ tracks, t.audioTrackFormatIDRef = none ∧ t.audioChannelFormatIDRef = none ∧ t.audioPackFormatIDRef = none) :
    loadChna lookup tracks [] = .ok tracks := load_no_rows lookup tracks hnd hs hp

/-- `validate_trackIndex` accepts exactly the documents in which every track index that is present is at most the
channel count (nothing is said about a lower bound: see `chna_excluded_points_transfer`) -/
theorem chna_validate_trackIndex (tracks : List TrackUID) (n : Nat) :
    validateTrackIndex tracks n = .ok () ↔ ∀ t ∈ tracks, ∀ i, t.trackIndex = some i → i ≤ n :=
  validateTrackIndex_ok_iff tracks n

/-- **The chunk.**  `numTracks ≤ numUIDs`; and for fewer than 65 536 well-formed rows (`WFEntry`) the chunk data of
`ChnaChunk.asByteArray` is read back by `_read_chna_chunk` as the same rows (composition with `chna_entry_roundtrip`:
`AC_` references are padded with `_00` on disk and stripped again). -/
theorem chna_chunk_roundtrip (rows : List Entry) (hlen : rows.length < 65536) (hwf : ∀ e ∈ rows, WFEntry e) :
    numTracks rows ≤ numUIDs rows ∧ ∃ bs, encodeChunk rows = some bs ∧ decodeChunk bs = .ok rows :=
  ⟨numTracks_le_numUIDs rows, chunk_roundtrip rows hlen (fun e he => chna_entry_roundtrip e (hwf e he))⟩

/-- the whole way: document → rows → chunk bytes → rows → fresh document -/
theorem chna_transfer_through_bytes (lookup : Bytes → Option Bytes) (tracks : List TrackUID) (h : WFDoc lookup tracks)
    (rows : List Entry) (hrows : populateChna tracks = .ok rows) (hlen : tracks.length < 65536)
    (hwf : ∀ e ∈ rows, WFEntry e) (kf kp : TrackUID → Bool) :
    ∃ bs, encodeChunk rows = some bs ∧
      (decodeChunk bs).toOption.map (loadChna lookup (tracks.map fun t => forget (kf t) (kp t) t)) = some (.ok tracks) := by
  obtain ⟨rows', hr', hload⟩ := (chna_transfer_roundtrip lookup).1 tracks h
  rw [hrows] at hr'; injection hr' with hr'; subst hr'
  have hl : rows.length < 65536 := by rw [(chna_rows_in_document_order tracks rows hrows).2.2.1]; exact hlen
  obtain ⟨_, bs, he, hd⟩ := chna_chunk_roundtrip rows hl hwf
  exact ⟨bs, he, by simp [hd, Except.toOption, hload kf kp]⟩

/-- **Excluded points of the transfer**, as the code behaves (each also run on the real code by the harness):
a track UID without index makes `populate_chna_chunk` raise (nothing is written, not "only those with an index");
a CHNA reference with a lower-case `ac_` prefix is stored as *audioTrackFormat* (the kind test is case-sensitive, the
lookup is not); two rows for the same known UID: the last reference wins silently; a UID unknown to the document that
occurs in two rows creates two track UIDs and is then an `AdmIDError`; the reserved UID in a row is refused; track
index 0 passes `validate_trackIndex`. -/
theorem chna_excluded_points_transfer :
    populateChna (exTracks.map (forget true true)) = .error .noTrackIndex ∧
    loadChna exLookup [] [⟨1, asciiBytes "ATU_00000001", asciiBytes "ac_00031001", none⟩]
      = .ok [⟨asciiBytes "ATU_00000001", some 1, some (asciiBytes "AC_00031001"), none, none, none, none, none⟩] ∧
    loadChna exLookup [⟨asciiBytes "ATU_00000001", none, none, none, none, none, none, none⟩]
        [⟨1, asciiBytes "ATU_00000001", asciiBytes "AC_00031001", none⟩,
         ⟨1, asciiBytes "ATU_00000001", asciiBytes "AC_00031002", none⟩]
      = .ok [⟨asciiBytes "ATU_00000001", some 1, none, some (asciiBytes "AC_00031002"), none, none, none, none⟩] ∧
    loadChna exLookup [] [⟨1, asciiBytes "ATU_00000005", asciiBytes "AC_00031001", none⟩,
        ⟨2, asciiBytes "atu_00000005", asciiBytes "AC_00031001", none⟩] = .error .duplicateID ∧
    loadChna exLookup [] [⟨1, asciiBytes "ATU_00000000", asciiBytes "AC_00031001", none⟩] = .error .silentUID ∧
    validateTrackIndex [⟨asciiBytes "ATU_00000001", some 0, none, none, none, none, none, none⟩] 1 = .ok () := by
  refine ⟨by decide, by decide, by decide, by decide, by decide, by decide⟩

end Transfer

section Refs
open Earverif.AdmRefs

/-! ## The id map and reference resolution (`adm.py`, `lazy_lookup_references` of the element classes) -/

/-- **`lookup_element` is unique on distinct ids.**  If the (upper-cased) ids of the elements that have one are
pairwise distinct, `lookup_element(key)` returns `e` iff `e` is an element of the document whose id matches `key`
case-insensitively — the unique such element; it raises `KeyError` iff no element matches. -/
theorem lookup_unique {ι : Type} [DecidableEq ι] (up : ι → ι) (els : List (Elem ι)) (h : (keys up els).Nodup)
    (key : ι) :
    (∀ e, lookup up els key = some e ↔ e ∈ els ∧ e.id.map up = some (up key)) ∧
    (lookup up els key = none ↔ ∀ e ∈ els, e.id.map up ≠ some (up key)) :=
  ⟨fun e => lookup_eq_some_iff up els h key e, lookup_eq_none_iff up els key⟩

/-- **A repeated id within a class is rejected with `AdmIDError`** by `lazy_lookup_references` (not at `addAudio…`
time, not by `lookup_element`), whichever class it is in and whatever else the document contains — provided no two
*common definitions* share an id (that is the `AssertionError` of the code).  The references are never resolved to one
of the two elements: nothing is resolved. -/
theorem duplicate_id_rejected {ι : Type} [DecidableEq ι] (up : ι → ι) (a : ADM ι)
    (hc : ∀ l ∈ a.lists, CommonsDistinct up l) (hd : ∃ l ∈ a.lists, HasDuplicate up l) :
    lazyLookupReferences up a = .error .admIDError := by
  unfold lazyLookupReferences
  simp [dedupAll_dup up a hc hd, bind, Except.bind]

def exElem (oid : Nat) (c : Cls) (id : Nat) (fields : List (AdmRefs.Field Nat)) : Elem Nat :=
  ⟨oid, c, some id, false, fields, none, [], []⟩

/-- an audioProgramme → audioContent → audioObject chain; the object refers to itself as a complementary object and to
the silent track -/
def exADM : ADM Nat :=
  { ADM.empty with
    programmes := [exElem 1 .programme 100 [⟨"audioContents", .plain, some [some 200], []⟩]]
    contents := [exElem 2 .content 200 [⟨"audioObjects", .plain, some [some 300], []⟩]]
    objects := [exElem 3 .object 300 [⟨"audioTrackUIDs", .silentOK, some [none], []⟩,
      ⟨"audioComplementaryObjects", .plain, some [some 300], []⟩]] }

/-- non-vacuity of `duplicate_id_rejected`: the example document with its audioContent added twice -/
example : (∀ l ∈ (exADM.add (exElem 9 .content 200 [])).lists, CommonsDistinct id l) ∧
    ∃ l ∈ (exADM.add (exElem 9 .content 200 [])).lists, HasDuplicate id l := by
  constructor
  · intro l hl k
    simp only [ADM.lists, exADM, ADM.add, exElem, ADM.empty, List.mem_cons, List.not_mem_nil, or_false] at hl
    rcases hl with rfl | rfl | rfl | rfl | rfl | rfl | rfl | rfl <;> simp [List.filter_cons] <;>
      (repeat' split) <;> simp
  · refine ⟨_, List.mem_cons_of_mem _ (List.mem_cons_self), 0, 1, _, _, 200, by omega, rfl, rfl, rfl, rfl, rfl, rfl⟩

/-- **The same id in two classes is NOT rejected** (the duplicate pass works list by list): the document is
resolved, and `lookup_element` answers the first element in class order — here the audioPackFormat, although the id is
also that of an audioChannelFormat.  (Outside the property's quantifier — generated ids carry their class prefix —
but recorded from the real code on every run.) -/
theorem duplicate_across_classes_not_rejected :
    let a : ADM Nat := { ADM.empty with packFormats := [exElem 1 .pack 7 []], channelFormats := [exElem 2 .channel 7 []] }
    (lazyLookupReferences id a).toOption.isSome = true ∧ (lookup id a.elements 7).map (·.cls) = some .pack := by
  decide

/-- **Resolution is total on a closed document, and stores the element whose id was written.**  Let `a'` be the
document after the duplicate pass.  If (`Static`) the references meet the conditions under which the loop raises
nothing but `KeyError` — `None` only in `audioTrackUIDRef`, `decodePackFormatIDRef` naming audioPackFormats, the
stream ↔ track links consistent with one stream `σ t` per audioTrackFormat `t` —, (`AvsOK`) alternativeValueSet ids are
distinct and every `alternativeValueSetIDRef` names one, and (`Closed`) every id in every other `IDRef` attribute names
an element of the document (common definitions included: they are in the same lists), then `lazy_lookup_references`
raises nothing; the chain keeps its length; and every plain reference attribute (contents, objects, packs, channels,
track UIDs incl. the silent one, complementary objects, input / output packs, stream → channel / pack, track UID →
track / channel / pack, Matrix coefficient inputs and outputChannelFormat) that had an `IDRef` list now has
`IDRef = None` and holds, id by id, the element `lookup_element` finds for that id (`None` stays `None`); an attribute
whose `IDRef` was `None` is unchanged. -/
theorem resolve_total_on_closed {ι : Type} [DecidableEq ι] (up : ι → ι) (σ : Oid → Oid) (a a' : ADM ι)
    (hd : dedupAll up a = .ok a') (hS : Static up σ a'.elements) (hA : AvsOK up a'.elements)
    (hC : Closed up a'.elements) :
    ∃ r, lazyLookupReferences up a = .ok r ∧ r.elements.length = a'.elements.length ∧
      ∀ t f, fieldAt a'.elements t = some f → (f.mode = .plain ∨ f.mode = .silentOK) →
        ∃ f', fieldAt r.elements t = some f' ∧ f'.name = f.name ∧ f'.mode = f.mode ∧
          (∀ refs, f.pending = some refs → f'.pending = none ∧ f'.resolved = resolvedValue up a'.elements refs) ∧
          (f.pending = none → f' = f) := by
  obtain ⟨st', hs, hlen, hspec⟩ := resolveChain_closed up σ a'.elements hS hA hC
  refine ⟨rebuild a' st', ?_, by rw [rebuild_elements]; exact hlen, ?_⟩
  · unfold lazyLookupReferences
    simp [hd, hs, bind, Except.bind, pure, Except.pure]
  · rw [rebuild_elements]; exact hspec

/-- **A dangling reference is rejected with `KeyError`.**  If, after the duplicate pass, some (non-alternativeValueSet)
`IDRef` attribute contains an id that no element of the document has, `lazy_lookup_references` raises `KeyError` —
under `Static`, i.e. when the other two exceptions of the loop (`AttributeError` for a `None` / wrong-class link target,
`AdmError` for a track format linked to two streams) are excluded for the references that do resolve. -/
theorem resolve_dangling_rejected {ι : Type} [DecidableEq ι] (up : ι → ι) (σ : Oid → Oid) (a a' : ADM ι)
    (hd : dedupAll up a = .ok a') (hS : Static up σ a'.elements)
    (hD : ∃ t, DanglingAt up a'.elements a'.elements t) :
    lazyLookupReferences up a = .error .keyError := by
  unfold lazyLookupReferences
  simp [hd, resolveChain_dangling up σ a'.elements hS hD, bind, Except.bind]

/-- non-vacuity of the hypotheses of `resolve_total_on_closed` (the example chain), and of
`resolve_dangling_rejected` (the same document with a content reference to the unknown id 201) -/
example : dedupAll id exADM = .ok exADM ∧ Static id (fun _ => 0) exADM.elements ∧ AvsOK id exADM.elements ∧
    Closed id exADM.elements ∧
    (∃ t, DanglingAt id (exADM.add (exElem 4 .programme 101 [⟨"audioContents", .plain, some [some 201], []⟩])).elements
      (exADM.add (exElem 4 .programme 101 [⟨"audioContents", .plain, some [some 201], []⟩])).elements t) := by
  have hel : exADM.elements = [exElem 1 .programme 100 [⟨"audioContents", .plain, some [some 200], []⟩],
      exElem 2 .content 200 [⟨"audioObjects", .plain, some [some 300], []⟩],
      exElem 3 .object 300 [⟨"audioTrackUIDs", .silentOK, some [none], []⟩,
        ⟨"audioComplementaryObjects", .plain, some [some 300], []⟩]] := rfl
  refine ⟨?_, ?_, ?_, ?_, ?_⟩
  · apply dedupAll_of_distinct
    intro l hl
    simp only [ADM.lists, exADM, ADM.empty, List.mem_cons, List.not_mem_nil, or_false] at hl
    rcases hl with rfl | rfl | rfl | rfl | rfl | rfl | rfl | rfl <;> exact ⟨by decide, by decide⟩
  · apply static_of_forall
    · intro e he s hs
      rw [hel] at he
      simp only [List.mem_cons, List.not_mem_nil, or_false] at he
      rcases he with rfl | rfl | rfl <;> simp [exElem] at hs
    · intro e he f hf hm refs hp r hr
      rw [hel] at he
      simp only [List.mem_cons, List.not_mem_nil, or_false] at he
      rcases he with rfl | rfl | rfl <;> simp only [exElem, List.mem_cons, List.not_mem_nil, or_false] at hf
      · subst hf; simp only [Option.some.injEq] at hp; subst hp
        simp only [List.mem_singleton] at hr; subst hr
        intro i tgt _ _; simp
      · subst hf; simp only [Option.some.injEq] at hp; subst hp
        simp only [List.mem_singleton] at hr; subst hr
        intro i tgt _ _; simp
      · rcases hf with rfl | rfl <;> simp only [Option.some.injEq] at hp <;> subst hp <;>
          simp only [List.mem_singleton] at hr <;> subst hr
        · rfl
        · intro i tgt _ _; simp
  · refine ⟨⟨[], by decide⟩, ?_⟩
    intro tbl _ i e he f hf hm
    have he' := List.mem_of_getElem? he
    rw [hel] at he'
    simp only [List.mem_cons, List.not_mem_nil, or_false] at he'
    rcases he' with rfl | rfl | rfl <;> simp only [exElem, List.mem_cons, List.not_mem_nil, or_false] at hf
    · subst hf; cases hm
    · subst hf; cases hm
    · rcases hf with rfl | rfl <;> cases hm
  · apply closed_of_forall
    intro e he f hf _ refs hp k hk
    rw [hel] at he
    simp only [List.mem_cons, List.not_mem_nil, or_false] at he
    rcases he with rfl | rfl | rfl <;> simp only [exElem, List.mem_cons, List.not_mem_nil, or_false] at hf
    · subst hf; simp only [Option.some.injEq] at hp; subst hp
      simp only [List.mem_singleton, Option.some.injEq] at hk; subst hk; exact ⟨1, by decide⟩
    · subst hf; simp only [Option.some.injEq] at hp; subst hp
      simp only [List.mem_singleton, Option.some.injEq] at hk; subst hk; exact ⟨2, by decide⟩
    · rcases hf with rfl | rfl <;> simp only [Option.some.injEq] at hp <;> subst hp <;>
        simp only [List.mem_singleton, Option.some.injEq] at hk
      · cases hk
      · subst hk; exact ⟨2, by decide⟩
  · exact ⟨(1, 0), ⟨"audioContents", .plain, some [some 201], []⟩, [some 201], rfl, by decide, rfl, some 201,
      by simp, 201, rfl, by decide⟩

end Refs

section RefsDoc
open Earverif.AdmRefs Earverif.AdmRefsDoc Earverif.XmlCodec Earverif.XmlBlocks Earverif.XmlElements

/-- parse what `to_xml` wrote for each element of one class -/
def parseWritten (ps : List (Property XV)) (cdflt : Obj XV) (name : String) (objs : List (Obj XV)) :
    Option (List (Obj XV)) :=
  objs.mapM fun o => parse ps cdflt (toXml ps name o)

/-- `adm_to_xml` followed by `parse_adm_elements` into a document that holds the common definitions `cd`: every main
element written by the `to_xml` of its class and parsed by the parser that the regenerated handler table declares for
the class; the parsed arguments are then made into elements and added (`admOfObjs`).  `none` = some parser raises. -/
def admOfParsed (v2 : Bool) (cd : ADM String) (d : Document) : Option (ADM String) := do
  let ps ← parseWritten (propsX v2 (rowsOf v2 "audioProgramme")) programmeDefaults "audioProgramme" (d.programmes.map (·.toObj))
  let cs ← parseWritten (propsX v2 (rowsOf v2 "audioContent")) contentDefaults "audioContent" (d.contents.map (·.toObj))
  let os ← parseWritten (propsX v2 (rowsOf v2 "audioObject")) objectDefaults "audioObject" (d.objects.map (·.toObj))
  let pks ← parseWritten (propsX v2 (rowsOf v2 "audioPackFormat")) packDefaults "audioPackFormat" (d.packFormats.map (·.toObj))
  let chs ← parseWritten (propsX v2 (rowsOf v2 "audioChannelFormat")) channelDefaults "audioChannelFormat" (d.channelFormats.map (·.toObj))
  let ss ← parseWritten (propsX v2 (rowsOf v2 "audioStreamFormat")) streamDefaults "audioStreamFormat" (d.streamFormats.map (·.toObj))
  let ts ← parseWritten (propsX v2 (rowsOf v2 "audioTrackFormat")) noneDefaults "audioTrackFormat" (d.trackFormats.map (·.toObj))
  let us ← parseWritten (propsX v2 (rowsOf v2 "audioTrackUID")) noneDefaults "audioTrackUID" (d.trackUIDs.map (·.toObj))
  pure (admOfObjs cd ps cs os pks chs ss ts us)

theorem parseWritten_of_roundtrips {α : Type} (ps : List (Property XV)) (cdflt : Obj XV) (name : String)
    (toObj : α → Obj XV) (l : List α) (h : ∀ x ∈ l, RoundTrips ps cdflt name (toObj x)) :
    parseWritten ps cdflt name (l.map toObj) = some (l.map toObj) := by
  unfold parseWritten
  induction l with
  | nil => rfl
  | cons x xs ih =>
    simp only [List.map_cons, List.mapM_cons, (h x (by simp)).1, ih (fun y hy => h y (by simp [hy])), bind,
      Option.bind, pure]

/-- **Write → parse → resolve preserves the reference structure.**  For a `DocValid` document `d` (BS.2076-1 or -2)
added to common definitions `cd`:
(1) *composition with `C08_roundtrip_model`*: the document obtained by writing every main element and parsing it back
is the document itself — same elements, same ids, the same id in every `…IDRef` argument (`admOfParsed = admOfDoc`);
(2) hence, when the ids of each class (common definitions included) are pairwise distinct and the document is
`Static` / `AvsOK` / `Closed`, `lazy_lookup_references` of the parsed document raises nothing and every plain
reference attribute holds, id by id, the element that `lookup_element` finds for the id that was written —
by `lookup_unique` THE element of the document with that id. -/
theorem resolve_then_ids_roundtrip (v2 : Bool) (d : Document) (hv : DocValid v2 d) (cd : ADM String) (σ : Oid → Oid) :
    admOfParsed v2 cd d = some (admOfDoc cd d) ∧
    ((∀ l ∈ (admOfDoc cd d).lists, DistinctIds upStr l) → Static upStr σ (admOfDoc cd d).elements →
      AvsOK upStr (admOfDoc cd d).elements → Closed upStr (admOfDoc cd d).elements →
      ∃ r, (admOfParsed v2 cd d).map (lazyLookupReferences upStr) = some (.ok r) ∧
        ∀ t f, fieldAt (admOfDoc cd d).elements t = some f → (f.mode = .plain ∨ f.mode = .silentOK) →
          ∃ f', fieldAt r.elements t = some f' ∧ f'.name = f.name ∧
            ∀ refs, f.pending = some refs → f'.pending = none ∧
              f'.resolved = refs.map (fun r => r.bind fun k => (lookup upStr (admOfDoc cd d).elements k).map (·.oid))) := by
  obtain ⟨h1, h2, h3, h4, h5, h6, h7, h8⟩ := C08_roundtrip_model v2 d hv
  have hparsed : admOfParsed v2 cd d = some (admOfDoc cd d) := by
    unfold admOfParsed admOfDoc
    simp only [parseWritten_of_roundtrips _ _ _ Programme.toObj d.programmes h1,
      parseWritten_of_roundtrips _ _ _ Content.toObj d.contents h2,
      parseWritten_of_roundtrips _ _ _ AObject.toObj d.objects h3,
      parseWritten_of_roundtrips _ _ _ PackFormat.toObj d.packFormats h4,
      parseWritten_of_roundtrips _ _ _ ChannelFormat.toObj d.channelFormats h5,
      parseWritten_of_roundtrips _ _ _ StreamFormat.toObj d.streamFormats h6,
      parseWritten_of_roundtrips _ _ _ TrackFormat.toObj d.trackFormats h7,
      parseWritten_of_roundtrips _ _ _ TrackUID.toObj d.trackUIDs h8, bind, Option.bind, pure]
  refine ⟨hparsed, fun hdist hS hA hC => ?_⟩
  obtain ⟨r, hr, _, hspec⟩ := resolve_total_on_closed upStr σ (admOfDoc cd d) (admOfDoc cd d)
    (dedupAll_of_distinct upStr _ hdist) hS hA hC
  refine ⟨r, by rw [hparsed]; simp [hr], ?_⟩
  intro t f hf hm
  obtain ⟨f', hf', hn, _, hres, _⟩ := hspec t f hf hm
  exact ⟨f', hf', hn, fun refs hp => hres refs hp⟩

/-- what the reference attributes of the parsed elements hold: exactly the ids of the document (shown for the classes
with list / single / silent-track / link references; `audioChannelFormat` carries the Matrix block references) -/
theorem parsed_reference_fields (pos : Nat) :
    (∀ p : Programme, (elemOfObj .programme pos p.toObj).id = some p.id ∧
      (elemOfObj .programme pos p.toObj).fields =
        [⟨"audioContents", .plain, some (p.audioContents.map some), []⟩,
         ⟨"alternativeValueSets", .avs, some (p.alternativeValueSets.map some), []⟩]) ∧
    (∀ o : AObject, (elemOfObj .object pos o.toObj).fields =
        [⟨"audioPackFormats", .plain, some (o.audioPackFormats.map some), []⟩,
         ⟨"audioTrackUIDs", .silentOK, some o.audioTrackUIDs, []⟩,
         ⟨"audioObjects", .plain, some (o.audioObjects.map some), []⟩,
         ⟨"audioComplementaryObjects", .plain, some (o.audioComplementaryObjects.map some), []⟩]) ∧
    (∀ u : TrackUID, (elemOfObj .trackUID pos u.toObj).fields =
        [⟨"audioTrackFormat", .plain, u.audioTrackFormat.map fun s => [some s], []⟩,
         ⟨"audioChannelFormat", .plain, u.audioChannelFormat.map fun s => [some s], []⟩,
         ⟨"audioPackFormat", .plain, u.audioPackFormat.map fun s => [some s], []⟩]) ∧
    (∀ s : StreamFormat, (elemOfObj .stream pos s.toObj).fields =
        [⟨"audioChannelFormat", .plain, s.audioChannelFormat.map fun x => [some x], []⟩,
         ⟨"audioPackFormat", .plain, s.audioPackFormat.map fun x => [some x], []⟩,
         ⟨"audioTrackFormats", .linkTracks, some (s.audioTrackFormats.map some), []⟩]) := by
  refine ⟨?_, ?_, ?_, ?_⟩
  · intro p
    simp [elemOfObj, fieldsOf, classFields, idrefArg, Programme.toObj, pendOfVal, strs, refOfXV, List.map_map,
      Function.comp_def]
  · intro o
    simp [elemOfObj, fieldsOf, classFields, idrefArg, AObject.toObj, pendOfVal, strs, refOfXV, List.map_map,
      Function.comp_def]
    conv_rhs => rw [← List.map_id o.audioTrackUIDs]
    apply List.map_congr_left
    intro x _
    cases x <;> rfl
  · intro u
    simp [elemOfObj, fieldsOf, classFields, idrefArg, TrackUID.toObj, pendOfVal, optStrV]
    refine ⟨?_, ?_, ?_⟩
    · cases u.audioTrackFormat <;> rfl
    · cases u.audioChannelFormat <;> rfl
    · cases u.audioPackFormat <;> rfl
  · intro s
    simp [elemOfObj, fieldsOf, classFields, idrefArg, StreamFormat.toObj, pendOfVal, strs, refOfXV, List.map_map,
      Function.comp_def, optStrV]
    refine ⟨?_, ?_⟩
    · cases s.audioChannelFormat <;> rfl
    · cases s.audioPackFormat <;> rfl

end RefsDoc


/-! ## The float leaf: `FloatType` and `SecondsType` -/

section FloatLeaf
open Earverif.FloatText Earverif.Ieee

/-- **Generating XML again reproduces the same bytes, for every float leaf.**  For every finite binary64 number
(`IsDouble m`: non-negative magnitude that is its own correctly rounded binary64 value, subnormals and the largest
double included; `neg` is the sign bit, so `-0.0` is covered) the text `"{:.5f}".format(x)` is read by `float()` as a
binary64 number `y` of the same sign whose text is the same.  No magnitude bound is needed: `y` is at least as close
to the printed decimal as `x` was (`rn53_nearest`), and an exact tie can only occur towards an even fifth decimal,
where it is resolved the same way again (`core`). -/
theorem fmt5_parse_fmt5 (neg : Bool) (m : ℚ) (hm : IsDouble m) :
    ∃ y, IsDouble y ∧ parseFloat (fmt5 (.fin neg m)) = some (.fin neg y) ∧ fmt5 (.fin neg y) = fmt5 (.fin neg m) :=
  Earverif.FloatText.fmt5_parse_fmt5 neg m hm

/-- **Numbers as printed to five decimals.**  The value read back is within half a unit of the fifth decimal plus
the reader's rounding (relative 2^-53) of the value written, and never further than one unit of the fifth decimal.
The rounding term cannot be dropped (`close_needs_rounding_term`: at 2^35 the doubles are 7.6e-6 apart). -/
theorem parse_fmt5_close (neg : Bool) (m : ℚ) (hm : IsDouble m) :
    ∃ y, parseFloat (fmt5 (.fin neg m)) = some (.fin neg y) ∧
      |(PyFloat.fin neg y).val - (PyFloat.fin neg m).val| ≤ 1 / 200000 + (m + 1 / 200000) / 2 ^ 53 ∧
      |(PyFloat.fin neg y).val - (PyFloat.fin neg m).val| ≤ 1 / 100000 :=
  Earverif.FloatText.parse_fmt5_close neg m hm

/-- **parse ∘ print is the identity on parsed documents.**  `x` = the double nearest to a decimal with at most five
fractional digits, `k / 10^5 < 2^36` (≈ 6.9e10): `x` is a binary64 number, it is printed as exactly
`[-]⌊k/10^5⌋.ddddd` and that text is read back as `x`.  The bound cannot be raised past the next grid point:
`k = 2^36·10^5` itself still satisfies the conclusion, `k = 2^36·10^5 + 1` does not (`grid_bound_sharp`: the double
nearest to `2^36 + 0.00001` has `roundHalfEven (x·10^5) = …00002`). -/
theorem parse_fmt5_exact_of_5dec (neg : Bool) (k : ℕ) (hk : k < 2 ^ 36 * 10 ^ 5) :
    IsDouble (rn53 ((k : ℚ) / 100000)) ∧
    fmt5 (.fin neg (rn53 ((k : ℚ) / 100000))) = (if neg then '-' :: numText k else numText k) ∧
    parseFloat (if neg then '-' :: numText k else numText k) = some (.fin neg (rn53 ((k : ℚ) / 100000))) :=
  Earverif.FloatText.parse_fmt5_exact_of_5dec neg k hk

/-- second-generation stability of the value with no hypothesis on the magnitude: whatever was read back from a
printed number is reproduced exactly by every further print / parse -/
theorem parse_fmt5_idempotent (neg : Bool) (m : ℚ) (hm : IsDouble m) :
    ∃ y, IsDouble y ∧ parseFloat (fmt5 (.fin neg m)) = some (.fin neg y) ∧
      parseFloat (fmt5 (.fin neg y)) = some (.fin neg y) :=
  Earverif.FloatText.parse_fmt5_idempotent neg m hm

/-- `{:07.5f}` and `{:.5f}` print every finite number alike (the width never takes effect) -/
theorem fmt07_5_fin (neg : Bool) (m : ℚ) : fmt07_5 (.fin neg m) = fmt5 (.fin neg m) :=
  Earverif.FloatText.fmt07_5_fin neg m

/-- **`SecondsType`** (jumpPosition interpolationLength; the only user of the converter): for a non-negative
`Fraction` `t` that `float()` can hold (`rn64 t = some x`, i.e. no `OverflowError`) the attribute text is `n` units of
1e-5; `Fraction()` reads exactly `n / 10^5`; writing that again gives the same text; and `n / 10^5` is within
`0.5e-5 + t·2^-53` of `t`.  Negative values that round to zero are excluded (`seconds_negative_tiny_excluded`). -/
theorem seconds_roundtrip (t x : ℚ) (ht : 0 ≤ t) (hx : rn64 t = some x) :
    ∃ n : ℕ, secondsDumps t = some (numText n) ∧ parseFraction (numText n) = some ((n : ℚ) / 100000) ∧
      secondsDumps ((n : ℚ) / 100000) = some (numText n) ∧
      |(n : ℚ) / 100000 - t| ≤ 1 / 200000 + t / 2 ^ 53 :=
  Earverif.FloatText.seconds_roundtrip t x ht hx

/-- an interpolationLength on the printable grid (a multiple of 1e-5 s below 2^36 s) comes back exactly -/
theorem seconds_exact_of_5dec (k : ℕ) (hk : k < 2 ^ 36 * 10 ^ 5) :
    secondsDumps ((k : ℚ) / 100000) = some (numText k) ∧ parseFraction (numText k) = some ((k : ℚ) / 100000) :=
  Earverif.FloatText.seconds_exact_of_5dec k hk

/-- ONE LEAF: the float codec of the handler-table model (`Leaf.num k`, used by `handlers_codec_roundtrip` and
every class theorem) writes, for `|k| / 10^5 < 2^36`, the text the real `FloatType.dumps` prints for the double nearest
to `k / 10^5`, and the real `FloatType.loads` reads that text as that double.  Free-standing: the class / document
theorems carry no bound on `k` and are not restated over doubles (see the file header). -/
theorem floatCodec_refines (k : ℤ) (hk : k.natAbs < 2 ^ 36 * 10 ^ 5) :
    (Earverif.XmlCodec.dumpsNum k).toList = fmt5 (.fin (decide (k < 0)) (rn53 ((k.natAbs : ℚ) / 100000))) ∧
    parseFloat (Earverif.XmlCodec.dumpsNum k).toList = some (.fin (decide (k < 0)) (rn53 ((k.natAbs : ℚ) / 100000))) ∧
    Earverif.XmlCodec.loadsNum (Earverif.XmlCodec.dumpsNum k) = some k ∧
    IsDouble (rn53 ((k.natAbs : ℚ) / 100000)) :=
  Earverif.FloatText.floatCodec_refines k hk

/-- ONE LEAF: jumpPosition `interpolationLength` is modelled with `dumpsNum` / `loadsNum`, the real code uses
`SecondsType` (`"{:07.5f}".format(float(t))` / `Fraction(str)`): for `0 ≤ k`, `k / 10^5 < 2^36` the real writer prints
exactly `dumpsNum k` for the Fraction `k / 10^5` and the real reader maps that text to exactly `k / 10^5` -/
theorem secondsCodec_refines (k : ℤ) (h0 : 0 ≤ k) (hk : k.natAbs < 2 ^ 36 * 10 ^ 5) :
    secondsDumps ((k : ℚ) / 100000) = some (Earverif.XmlCodec.dumpsNum k).toList ∧
    parseFraction (Earverif.XmlCodec.dumpsNum k).toList = some ((k : ℚ) / 100000) ∧
    Earverif.XmlCodec.loadsNum (Earverif.XmlCodec.dumpsNum k) = some k :=
  Earverif.FloatText.secondsCodec_refines k h0 hk

/-- non-vacuity of the two bridges: 0.25 s and the gain -0.5 -/
example : (0 : ℤ) ≤ 25000 ∧ (25000 : ℤ).natAbs < 2 ^ 36 * 10 ^ 5 ∧ (-50000 : ℤ).natAbs < 2 ^ 36 * 10 ^ 5 ∧
    Earverif.XmlCodec.dumpsNum 25000 = "0.25000" ∧ Earverif.XmlCodec.dumpsNum (-50000) = "-0.50000" := by
  decide +kernel

/-- what the printable-grid model cannot express or gets differently from the real float leaf (kernel-checked):
the text `-0.00000` (written for `-0.0` and for gain = -1e-7; `float()` keeps `-0.0`, the model reads 0 and no
`Leaf.num k` prints it: `negzero_not_grid`), the spellings `0.5` / `1` / `1e0` (`none` for `loadsNum`), and a leaf beyond
the bound, which the class theorems cover although the printer never writes it for the nearest double -/
theorem grid_model_excluded_points :
    ((fmt5 (.fin true (rn53 (mkRat 1 (10 ^ 7)))) = ['-', '0', '.', '0', '0', '0', '0', '0'] ∧
     parseFloat ['-', '0', '.', '0', '0', '0', '0', '0'] = some (.fin true 0) ∧
     Earverif.XmlCodec.loadsNum "-0.00000" = some 0 ∧ Earverif.XmlCodec.dumpsNum 0 = "0.00000") ∧
    (Earverif.XmlCodec.loadsNum "0.5" = none ∧ Earverif.XmlCodec.loadsNum "1" = none ∧
     Earverif.XmlCodec.loadsNum "1e0" = none ∧
     parseFloat ['0', '.', '5'] = some (.fin false (mkRat 1 2)) ∧ parseFloat ['1'] = some (.fin false 1) ∧
     parseFloat ['1', 'e', '0'] = some (.fin false 1)) ∧
    (Earverif.XmlCodec.dumpsNum (2 ^ 36 * 10 ^ 5 + 1)).toList ≠
      fmt5 (.fin false (rn53 (mkRat (2 ^ 36 * 10 ^ 5 + 1) 100000)))) ∧
    (∀ k : ℤ, (Earverif.XmlCodec.dumpsNum k).toList ≠ ['-', '0', '.', '0', '0', '0', '0', '0']) :=
  ⟨Earverif.FloatText.grid_model_excluded_points, Earverif.FloatText.negzero_not_grid⟩

/-- sharpness / excluded points, checked by the kernel on the executable model -/
theorem float_leaf_excluded_points :
    -- above 2^36 a five-decimal text need not survive parse -> print
    roundHalfEven (rn53 (mkRat (2 ^ 36 * 10 ^ 5 + 1) 100000) * 100000) = 2 ^ 36 * 10 ^ 5 + 2 ∧
    -- 2^35 + 2^-16 is a double that comes back 2^-17 > 0.5e-5 away
    (rn53 ((roundHalfEven (mkRat (2 ^ 52 + 2) (2 ^ 17) * 100000) : ℚ) / 100000) - mkRat (2 ^ 52 + 2) (2 ^ 17)
      = mkRat 1 (2 ^ 17) ∧ rn53 (mkRat (2 ^ 52 + 2) (2 ^ 17)) = mkRat (2 ^ 52 + 2) (2 ^ 17)) ∧
    -- SecondsType: a negative value that rounds to zero is not a fixed point (Fraction has no -0)
    (secondsDumps (mkRat (-1) (10 ^ 9)) = some ['-', '0', '.', '0', '0', '0', '0', '0'] ∧
      parseFraction ['-', '0', '.', '0', '0', '0', '0', '0'] = some 0 ∧
      secondsDumps 0 = some ['0', '.', '0', '0', '0', '0', '0']) ∧
    -- FloatType keeps the sign of zero
    (parseFloat ['-', '0', '.', '0', '0', '0', '0', '0'] = some (.fin true 0) ∧
      fmt5 (.fin true 0) = ['-', '0', '.', '0', '0', '0', '0', '0']) :=
  ⟨grid_bound_sharp, close_needs_rounding_term, seconds_negative_tiny_excluded, float_negative_tiny_stable⟩

/-! non-vacuity: concrete doubles satisfy `IsDouble` (0.1 = 3602879701896397 / 2^55, the smallest subnormal, the
largest double, an exact tie 3/64), a `Fraction` that `float()` can hold, and the theorems compute on them -/
example : IsDouble (mkRat 3602879701896397 (2 ^ 55)) ∧ IsDouble (mkRat 1 (2 ^ 1074)) ∧
    IsDouble (mkRat (2 ^ 1024 - 2 ^ 971) 1) ∧ IsDouble (mkRat 3 64) ∧ IsDouble 0 := by
  unfold IsDouble; decide +kernel

example : fmt5 (.fin false (mkRat 3602879701896397 (2 ^ 55))) = ['0', '.', '1', '0', '0', '0', '0'] ∧
    fmt5 (.fin true (mkRat 3 64)) = ['-', '0', '.', '0', '4', '6', '8', '8'] ∧
    fmt5 (.fin false (mkRat 1 64)) = ['0', '.', '0', '1', '5', '6', '2'] ∧
    parseFloat ['0', '.', '1', '0', '0', '0', '0'] = some (.fin false (mkRat 3602879701896397 (2 ^ 55))) := by
  decide +kernel

example : rn64 (mkRat 1 3) = some (mkRat 6004799503160661 (2 ^ 54)) ∧
    secondsDumps (mkRat 1 3) = some ['0', '.', '3', '3', '3', '3', '3'] := by decide +kernel

example : (12345678 : ℕ) < 2 ^ 36 * 10 ^ 5 ∧ numText 12345678 = ['1', '2', '3', '.', '4', '5', '6', '7', '8'] := by
  decide +kernel

end FloatLeaf

/-! ## The float leaf composed with the document model (generic handler-table path + gain + jumpPosition) -/

section FloatDoc
open Earverif.XmlCodec Earverif.XmlBlocks Earverif.XmlElements Earverif.FloatText Earverif.FloatDoc

/-- the regenerated parser table that renders a block format -/
def blockTable (b : Block) : String := "audioBlockFormat:" ++ b.kind

/-- a block format and, for Matrix blocks, its coefficients -/
def blockElems (v2 : Bool) (b : Block) : List (String × List Row × Obj XV) :=
  ("audioBlockFormat", rowsOf v2 (blockTable b), b.toObj) ::
  (match b with
    | .matrix m => m.matrix.map fun c => ("coefficient", rowsOf v2 "coefficient", c.toObj)
    | _ => [])

def interactionElems (v2 : Bool) : Option Interaction → List (String × List Row × Obj XV)
  | some i => [("audioObjectInteraction", rowsOf v2 "audioObjectInteraction", i.toObj)]
  | none => []

def loudnessElems (v2 : Bool) (ls : List Loudness) : List (String × List Row × Obj XV) :=
  ls.map fun l => ("loudnessMetadata", rowsOf v2 "loudnessMetadata", l.toObj)

/-- every element of a document that is rendered by a parser of the regenerated table, main and nested:
(element name, the table rows of its parser, the object as the parser sees it) -/
def docElems (v2 : Bool) (d : Document) : List (String × List Row × Obj XV) :=
  d.programmes.flatMap (fun p =>
    ("audioProgramme", rowsOf v2 "audioProgramme", p.toObj) ::
    ("audioProgrammeReferenceScreen", (Earverif.Gen.C08.parsers.lookup "audioProgrammeReferenceScreen").getD [],
      p.referenceScreen.toObj) :: loudnessElems v2 p.loudnessMetadata) ++
  d.contents.flatMap (fun c => ("audioContent", rowsOf v2 "audioContent", c.toObj) :: loudnessElems v2 c.loudnessMetadata) ++
  d.objects.flatMap (fun o =>
    ("audioObject", rowsOf v2 "audioObject", o.toObj) :: interactionElems v2 o.audioObjectInteraction ++
    o.alternativeValueSets.flatMap fun a =>
      ("alternativeValueSet", rowsOf v2 "alternativeValueSet", a.toObj) :: interactionElems v2 a.audioObjectInteraction) ++
  d.packFormats.map (fun p => ("audioPackFormat", rowsOf v2 "audioPackFormat", p.toObj)) ++
  d.channelFormats.flatMap (fun c =>
    ("audioChannelFormat", rowsOf v2 "audioChannelFormat", c.toObj) :: c.audioBlockFormats.flatMap (blockElems v2)) ++
  d.streamFormats.map (fun s => ("audioStreamFormat", rowsOf v2 "audioStreamFormat", s.toObj)) ++
  d.trackFormats.map (fun t => ("audioTrackFormat", rowsOf v2 "audioTrackFormat", t.toObj)) ++
  d.trackUIDs.map (fun u => ("audioTrackUID", rowsOf v2 "audioTrackUID", u.toObj))

/-- **`NumsBounded`** (decidable): in every element of the document — main elements, loudnessMetadata, reference
screen, audioObjectInteraction, alternativeValueSet, block formats of all five types, Matrix coefficients — every
grid number `Leaf.num k` under a declarative `FloatType` row of the element's regenerated parser table and every
linear `gain` written by a hand-written gain handler satisfies `|k| < 2^36·10^5` (or is the handler default, which is
not written), every jumpPosition interpolationLength additionally `0 ≤ k`, and every number held by a value written
by the other hand-written handlers (`siteSpecs` / `xvNums`: Objects and DirectSpeakers positions with bounds,
channelLock, objectDivergence, zoneExclusion, positionOffset, frequency, screen centre position and width, gain and
position interaction ranges) satisfies `|k| < 2^36·10^5`. -/
def NumsBounded (v2 : Bool) (d : Document) : Bool :=
  (docElems v2 d).all fun e => ObjNumsBoundedX e.2.1 e.2.2 && ObjSitesBounded e.2.1 e.2.2

/-- **C08 on the model with real float text, document level (partial: every number site is specified per handler).**  For a `DocValid`, `NumsBounded` document: in every element `e` of the document rendered by a parser
of the regenerated table (`docElems`; the XML is `toXml (propsX v2 rows) name obj`, and the listed texts are attribute
values / child texts of it: `floatTexts_in_toXml`),
(1) every text written by a declarative `FloatType` row is `fmt5` of the double nearest to a grid number `k / 10^5`
    stored in the object — the text the real `FloatType.dumps` emits —, `parseFloat` (the real `float()`) of it is that
    double and printing that double again gives the same text (`RealFloatText`);
(2) the same for every `gain` text written by the five hand-written gain handlers;
(3) every jumpPosition `interpolationLength` text is `secondsDumps` of the stored Fraction (the real
    `SecondsType.dumps`), `parseFraction` reads it back exactly and writing again gives the same text;
(4) every number text written by the other hand-written handlers (`siteSpecs`: the text of the `position` /
    `positionOffset` / `objectDivergence` / `frequency` / interaction-range elements, the `maxDistance`, `azimuthRange`,
    `positionRange`, zone and screen attributes) is the real float text of a grid number held by the stored value;
and the conclusion of `C08_roundtrip_model` holds.  `custom_rows_classified` (kernel-decided on the regenerated table)
says every hand-written handler pair of the tables is a gain handler, jumpPosition, a `siteSpecs` handler, the
BS.2076-2-only refusal, or a pure delegation to a nested parser of the table — so no number-writing handler is left out.
MISSING for the unsuffixed statement: (a) which texts of an element are number texts is specified per handler
(`isFloatRow`, `gainTexts`, `jumpTexts`, `siteSpecs`), not derived from an XML schema; (b) that a nested element's XML
is a descendant of its main element's XML is by definition of `loudnessListImpl` / `blocksImpl` / `matrixImpl` /
`avsListImpl` / `interactionImpl` / `screenImpl` and is not restated; (c) a gain given in dB (`XV.gainDB`, dB bounds of
a gain interaction range) is symbolic and not written; (d) values off the 1e-5 grid, `-0.0`, `|k| ≥ 2^36·10^5` are
outside (`grid_model_excluded_points`). -/
theorem C08_roundtrip_model_floats_partial (v2 : Bool) (d : Document) (hv : DocValid v2 d)
    (hb : NumsBounded v2 d = true) :
    (∀ e ∈ docElems v2 d,
      (∀ t ∈ floatTexts (implX v2) e.2.1 e.2.2, ∃ r ∈ e.2.1, ∃ k : ℤ, NumAt e.2.2 r.argName k ∧ RealFloatText k t) ∧
      (∀ t ∈ gainTexts v2 e.2.1 e.2.2, ∃ k : ℤ, NumAt e.2.2 "gain" k ∧ RealFloatText k t) ∧
      (∀ t ∈ jumpTexts v2 e.2.1 e.2.2, ∃ (j : Earverif.XmlCustom.JumpPosition) (k : ℤ),
        e.2.2 "jumpPosition" = .one (.jump j) ∧ j.interpolationLength = some k ∧ RealSecondsText k t) ∧
      (∀ t ∈ siteTexts v2 e.2.1 e.2.2, ∃ (a : String) (v : XV) (k : ℤ),
        e.2.2 a = .one v ∧ k ∈ xvNums v ∧ RealFloatText k t)) ∧
    ((∀ p ∈ d.programmes, RoundTrips (propsX v2 (rowsOf v2 "audioProgramme")) programmeDefaults "audioProgramme" p.toObj) ∧
    (∀ c ∈ d.contents, RoundTrips (propsX v2 (rowsOf v2 "audioContent")) contentDefaults "audioContent" c.toObj) ∧
    (∀ o ∈ d.objects, RoundTrips (propsX v2 (rowsOf v2 "audioObject")) objectDefaults "audioObject" o.toObj) ∧
    (∀ p ∈ d.packFormats, RoundTrips (propsX v2 (rowsOf v2 "audioPackFormat")) packDefaults "audioPackFormat" p.toObj) ∧
    (∀ c ∈ d.channelFormats,
      RoundTrips (propsX v2 (rowsOf v2 "audioChannelFormat")) channelDefaults "audioChannelFormat" c.toObj) ∧
    (∀ s ∈ d.streamFormats,
      RoundTrips (propsX v2 (rowsOf v2 "audioStreamFormat")) streamDefaults "audioStreamFormat" s.toObj) ∧
    (∀ t ∈ d.trackFormats, RoundTrips (propsX v2 (rowsOf v2 "audioTrackFormat")) noneDefaults "audioTrackFormat" t.toObj) ∧
    (∀ u ∈ d.trackUIDs, RoundTrips (propsX v2 (rowsOf v2 "audioTrackUID")) noneDefaults "audioTrackUID" u.toObj)) := by
  refine ⟨fun e he => ?_, C08_roundtrip_model v2 d hv⟩
  have h := (List.all_eq_true.mp hb) e he
  simp only [Bool.and_eq_true] at h
  obtain ⟨h1, h2, h3⟩ := obj_numTexts_real v2 e.2.1 e.2.2 h.1
  exact ⟨h1, h2, h3, obj_siteTexts_real v2 e.2.1 e.2.2 h.2⟩

/-- the generic path, any parser of the regenerated table and any object (class level; `impl` arbitrary) -/
theorem C08_table_floatTexts_real :
    ∀ t ∈ Earverif.Gen.C08.parsers, ∀ (impl : Row → CustomImpl XV) (name : String) (o : Obj XV),
      ObjNumsBounded t.2 o = true →
      ∀ s ∈ floatTexts impl t.2 o,
        ((∃ kv ∈ (toXml (t.2.map (ofRowG liftCodec XV.leaf impl)) name o).attrs, kv.2 = s) ∨
         (∃ c ∈ (toXml (t.2.map (ofRowG liftCodec XV.leaf impl)) name o).children, c.text = s)) ∧
        ∃ r ∈ t.2, ∃ k : ℤ, NumAt o r.argName k ∧ RealFloatText k s :=
  fun t _ impl name o hb s hs =>
    ⟨floatTexts_in_toXml impl t.2 name o s hs, obj_floatTexts_real impl t.2 o hb s hs⟩

/-- the example document of `DocValid` with float leaves: programme `maxDuckingDepth = -3.0` (negative), a
loudnessMetadata with `integratedLoudness = -23.0` and `maxTruePeak = 1.5`, object gain 0.5, an Objects block with
`width = 45.0`, gain 0.25 and a jumpPosition of 0.2 s -/
def exFloatDoc : Document :=
  { programmes := [⟨"APR_1001", "p", none, none, none, some (-300000), ["ACO_1001"], defaultScreen,
      [⟨none, none, none, some (-2300000), none, some 150000, none, none, none⟩], []⟩],
    contents := [⟨"ACO_1001", "c", none, none, ["AO_1001"], [], []⟩],
    objects := [⟨"AO_1001", "o", none, none, none, none, none, none, ["AP_00031001"], [], [], [some "ATU_00000001"],
      50000, false, none, [], none⟩],
    packFormats := [], channelFormats := [], streamFormats := [], trackFormats := [],
    trackUIDs := [⟨"ATU_00000001", some 48000, some 24, none, some "AC_00031001", some "AP_00031001"⟩] }

/-- non-vacuity: the hypotheses hold for `exFloatDoc`, and the float texts of its programme, loudnessMetadata and
object are the expected strings (one negative) -/
example : DocValid true exFloatDoc ∧ NumsBounded true exFloatDoc = true ∧
    (exFloatDoc.programmes.flatMap fun p => floatTexts (implX true) (rowsOf true "audioProgramme") p.toObj)
      = ["-3.00000"] ∧
    (exFloatDoc.programmes.flatMap fun p => p.loudnessMetadata.flatMap fun l =>
      floatTexts (implX true) (rowsOf true "loudnessMetadata") l.toObj) = ["-23.00000", "1.50000"] ∧
    (exFloatDoc.objects.flatMap fun o => gainTexts true (rowsOf true "audioObject") o.toObj) = ["0.50000"] := by
  refine ⟨⟨?_, ?_, ?_, ?_, ?_⟩, by decide +kernel, by decide +kernel, by decide +kernel, by decide +kernel⟩
  · intro p hp; simp [exFloatDoc] at hp; subst hp
    exact ⟨fun _ h => by simp at h, fun _ h => by simp at h, by simp [defaultScreen, Earverif.XmlCustom.CentrePosition.inRange],
      fun h => by simp at h⟩
  · intro c hc; simp [exFloatDoc] at hc; subst hc; exact ⟨fun h => by simp at h⟩
  · intro o ho; simp [exFloatDoc] at ho; subst ho
    exact ⟨fun _ h => by simp at h, fun _ h => by simp at h, fun s h => by simp at h; subst h; decide,
      fun q h => by simp at h, fun a h => by simp at h, fun i h => by simp at h, fun h => by simp at h⟩
  · intro c hc; simp [exFloatDoc] at hc
  · intro u hu; simp [exFloatDoc] at hu; subst hu; exact fun h => by simp at h

/-- … and with an Objects block (width 45.0, gain 0.25, jumpPosition with interpolationLength 0.2 s): the bounded
predicate holds and the three kinds of texts are as expected -/
example :
    let b : ObjectsBlock := ⟨"AB_00031001_00000001", none, none, .polar (-3000000) 0 100000 ⟨none, none⟩, none, ⟨true, some 20000⟩, none,
      4500000, 0, 0, 0, false, false, [], 25000, 10⟩
    ObjNumsBoundedX (rowsOf true "audioBlockFormat:Objects") b.toObj = true ∧
    floatTexts (implX true) (rowsOf true "audioBlockFormat:Objects") b.toObj = ["45.00000"] ∧
    gainTexts true (rowsOf true "audioBlockFormat:Objects") b.toObj = ["0.25000"] ∧
    jumpTexts true (rowsOf true "audioBlockFormat:Objects") b.toObj = ["0.20000"] ∧
    ObjSitesBounded (rowsOf true "audioBlockFormat:Objects") b.toObj = true ∧
    siteTexts true (rowsOf true "audioBlockFormat:Objects") b.toObj = ["-30.00000", "0.00000"] := by
  decide +kernel

end FloatDoc

/-! ## Summary -/

/-- **C08, partial.**  The conjunction of the leaf and ID claims above, the class-level round trips of the XML
layer for both versions (document level, `C08_roundtrip_model`), the CHNA <-> audioTrackUID transfer (both directions,
CHNA-only documents) and the id map / reference resolution (duplicate ids rejected, closed documents resolved,
dangling references rejected, write → parse gives back the same ids in every reference attribute).  The float leaf is
proved separately and NOT composed with the class theorems (section FloatLeaf: `fmt5_parse_fmt5`,
`parse_fmt5_close`, `parse_fmt5_exact_of_5dec`, `seconds_roundtrip`; `floatCodec_refines` / `secondsCodec_refines` are
one-leaf bridges to the grid model, `grid_model_excluded_points` lists what that model cannot express).  Still missing for the full property, and covered only by the
generated-document search of the harness: lxml and the byte level of AXML (the tree is abstract), attrs validators. -/
theorem C08_partial :
    (∀ (q : ℚ), 0 ≤ q → q < 360000 → ExactDecimal q → ∀ af, ∃ s, unparseTime af (.dec q) = .ok s ∧
        parseTime s = some (.dec q) ∧ parseTimeV1 s = some (.dec q)) ∧
    (∀ n d : ℕ, 0 < d → n < 360000 * d → unparseTime true (.frac n d) = .ok (unparseFractional n d) ∧
        parseTime (unparseFractional n d) = some (.frac n d)) ∧
    (∀ (x : Input) (o : Output), generateIds x = some o → TypesOK x →
        o.objects.Nodup ∧ o.trackUIDs.Nodup ∧ silentUID ∉ o.trackUIDs) ∧
    (∀ e : Chna.Entry, WFEntry e → ∃ bs, Chna.encode e = some bs ∧ bs.length = 40 ∧ Chna.decode bs = some e) ∧
    -- the XML layer, class level: audioBlockFormat / Objects, both versions, every handler concrete
    (∀ (v2 : Bool) (name : String) (b : Earverif.XmlBlocks.ObjectsBlock), Earverif.XmlBlocks.Valid v2 b →
        Earverif.XmlCodec.parse (Earverif.XmlBlocks.objectsProps (Earverif.XmlBlocks.objectsRows v2))
          Earverif.XmlBlocks.objectsDefaults
          (Earverif.XmlCodec.toXml (Earverif.XmlBlocks.objectsProps (Earverif.XmlBlocks.objectsRows v2)) name b.toObj)
          = some b.toObj) ∧
    -- the XML layer, document level: every main element of a valid document, both versions
    (∀ (v2 : Bool) (d : Earverif.XmlElements.Document), DocValid v2 d →
      (∀ p ∈ d.programmes, RoundTrips (Earverif.XmlElements.propsX v2 (Earverif.XmlElements.rowsOf v2 "audioProgramme"))
        Earverif.XmlElements.programmeDefaults "audioProgramme" p.toObj) ∧
      (∀ c ∈ d.contents, RoundTrips (Earverif.XmlElements.propsX v2 (Earverif.XmlElements.rowsOf v2 "audioContent"))
        Earverif.XmlElements.contentDefaults "audioContent" c.toObj) ∧
      (∀ o ∈ d.objects, RoundTrips (Earverif.XmlElements.propsX v2 (Earverif.XmlElements.rowsOf v2 "audioObject"))
        Earverif.XmlElements.objectDefaults "audioObject" o.toObj) ∧
      (∀ p ∈ d.packFormats, RoundTrips (Earverif.XmlElements.propsX v2 (Earverif.XmlElements.rowsOf v2 "audioPackFormat"))
        Earverif.XmlElements.packDefaults "audioPackFormat" p.toObj) ∧
      (∀ c ∈ d.channelFormats,
        RoundTrips (Earverif.XmlElements.propsX v2 (Earverif.XmlElements.rowsOf v2 "audioChannelFormat"))
          Earverif.XmlElements.channelDefaults "audioChannelFormat" c.toObj) ∧
      (∀ s ∈ d.streamFormats,
        RoundTrips (Earverif.XmlElements.propsX v2 (Earverif.XmlElements.rowsOf v2 "audioStreamFormat"))
          Earverif.XmlElements.streamDefaults "audioStreamFormat" s.toObj) ∧
      (∀ t ∈ d.trackFormats,
        RoundTrips (Earverif.XmlElements.propsX v2 (Earverif.XmlElements.rowsOf v2 "audioTrackFormat"))
          Earverif.XmlBlocks.noneDefaults "audioTrackFormat" t.toObj) ∧
      (∀ u ∈ d.trackUIDs, RoundTrips (Earverif.XmlElements.propsX v2 (Earverif.XmlElements.rowsOf v2 "audioTrackUID"))
        Earverif.XmlBlocks.noneDefaults "audioTrackUID" u.toObj)) ∧
    -- CHNA <-> audioTrackUID transfer: document → rows → any copy without track information → the document
    (∀ (lookup : Chna.Bytes → Option Chna.Bytes) (tracks : List ChnaTransfer.TrackUID), ChnaTransfer.WFDoc lookup tracks →
      ∃ rows, ChnaTransfer.populateChna tracks = .ok rows ∧ ∀ kf kp : ChnaTransfer.TrackUID → Bool,
        ChnaTransfer.loadChna lookup (tracks.map fun t => ChnaTransfer.forget (kf t) (kp t) t) rows = .ok tracks) ∧
    -- … and CHNA-only documents: every row yields exactly its audioTrackUID
    (∀ (lookup : Chna.Bytes → Option Chna.Bytes) (rows : List Chna.Entry), ChnaTransfer.WFChunk lookup rows →
      ChnaTransfer.loadChna lookup [] rows = .ok (rows.map (ChnaTransfer.trackOf lookup))) ∧
    -- a repeated id within a class is an AdmIDError
    (∀ (a : AdmRefs.ADM String), (∀ l ∈ a.lists, AdmRefs.CommonsDistinct AdmRefs.upStr l) →
      (∃ l ∈ a.lists, AdmRefs.HasDuplicate AdmRefs.upStr l) →
      AdmRefs.lazyLookupReferences AdmRefs.upStr a = .error .admIDError) ∧
    -- closed documents are resolved, dangling references are a KeyError
    (∀ (σ : AdmRefs.Oid → AdmRefs.Oid) (a a' : AdmRefs.ADM String), AdmRefs.dedupAll AdmRefs.upStr a = .ok a' →
      AdmRefs.Static AdmRefs.upStr σ a'.elements →
      (AdmRefs.AvsOK AdmRefs.upStr a'.elements → AdmRefs.Closed AdmRefs.upStr a'.elements →
        ∃ r, AdmRefs.lazyLookupReferences AdmRefs.upStr a = .ok r) ∧
      ((∃ t, AdmRefs.DanglingAt AdmRefs.upStr a'.elements a'.elements t) →
        AdmRefs.lazyLookupReferences AdmRefs.upStr a = .error .keyError)) ∧
    -- write → parse gives the document back at id level (every …IDRef argument holds the id that was written)
    (∀ (v2 : Bool) (d : Earverif.XmlElements.Document), DocValid v2 d → ∀ cd : AdmRefs.ADM String,
      admOfParsed v2 cd d = some (AdmRefsDoc.admOfDoc cd d)) :=
  ⟨time_roundtrip_decimal, time_roundtrip_fractional,
    fun x o h ht => ⟨(ids_injective x o h ht).2.2.1, (ids_injective x o h ht).2.2.2.2.2.2.2.2.2,
      ids_not_reserved x o h⟩,
    chna_entry_roundtrip,
    fun v2 name b hv => (Earverif.XmlBlocks.objectsBlock_roundtrip v2 name b hv).1,
    C08_roundtrip_model,
    fun lookup => (chna_transfer_roundtrip lookup).1,
    chna_only_document,
    fun a hc hd => duplicate_id_rejected AdmRefs.upStr a hc hd,
    fun σ a a' hd hS => ⟨fun hA hC => by
        obtain ⟨r, hr, _⟩ := resolve_total_on_closed AdmRefs.upStr σ a a' hd hS hA hC
        exact ⟨r, hr⟩,
      fun hD => resolve_dangling_rejected AdmRefs.upStr σ a a' hd hS hD⟩,
    fun v2 d hv cd => (resolve_then_ids_roundtrip v2 d hv cd id).1⟩

end Earverif.C08
