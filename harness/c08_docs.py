"""C08 — generator of ADM documents over every element class / optional attribute, and the direct
predicate (written from the property text, independent of the Lean model):

  (a) write as AXML + CHNA (generate_ids, adm_to_xml, populate_chna_chunk, Bw64Writer), read back
      (Bw64Reader, load_common_definitions, load_axml_string, load_chna_chunk): equivalent document;
  (b) adm_to_xml of the parsed document reproduces the same bytes (also after generate_ids on it);
  (c) CHNA rows read back equal the rows written; CHNA-only documents re-create their audioTrackUIDs;
  (d) generated IDs unique, well-formed for their element type, never ATU_00000000.

Everything is a function of (doc_seed, version, size) so that a failing document can be replayed.
"""
import io
import random
import re
import warnings
from fractions import Fraction

import attr

_COMMON = None


def common():
    """the common-definition elements, loaded once per process (shared between generated documents;
    neither generate_ids nor adm_to_xml modifies them)"""
    global _COMMON
    if _COMMON is None:
        from ear.fileio.adm.adm import ADM
        from ear.fileio.adm.common_definitions import load_common_definitions

        a = ADM()
        load_common_definitions(a)
        _COMMON = a
    return _COMMON


# ---------------------------------------------------------------------------------------------
# value generators (the "printable grid")

NAME_ALPHABET = "abcXYZ019 _-.&<>\"'é日/:;()"


class Gen:
    def __init__(self, seed, version, size):
        self.r = random.Random("c08doc/%d/%d/%d" % (seed, version, size))
        self.v = version
        self.size = size
        self.feat = {}

    def f(self, key, n=1):
        self.feat[key] = self.feat.get(key, 0) + n

    def p(self, prob=0.5):
        return self.r.random() < prob

    # floats: multiples of 1e-5 (k / 100000.0 is the double nearest to the decimal, "{:.5f}" prints the
    # decimal, float() maps it back to the same double)
    def fl(self, lo, hi):
        r = self.r
        lo_k, hi_k = int(round(lo * 100000)), int(round(hi * 100000))
        c = r.random()
        if c < 0.15:
            k = r.choice([lo_k, hi_k, 0 if lo_k <= 0 <= hi_k else lo_k, min(hi_k, max(lo_k, 100000))])
        elif c < 0.3:
            k = r.randint(lo_k // 100000, hi_k // 100000) * 100000  # whole numbers
            k = min(hi_k, max(lo_k, k))
        elif c < 0.4:
            k = min(hi_k, max(lo_k, r.choice([1, -1, 99999, -99999, 100001, 5, 50000])))
        else:
            k = r.randint(lo_k, hi_k)
        return k / 100000.0

    def name(self, what):
        r = self.r
        n = r.choice([0, 1, 1, 3, 8, 8, 20]) if r.random() < 0.3 else r.randint(1, 10)
        s = "".join(r.choice(NAME_ALPHABET) for _ in range(n))
        if s == "":
            self.f("string:empty")
        elif s != s.strip():
            self.f("string:outer-blank")
        if any(ord(c) > 127 for c in s):
            self.f("string:non-ascii")
        if any(c in "&<>\"'" for c in s):
            self.f("string:xml-special")
        return s

    def time(self, kind="any", lo=None):
        """a time below 100 h: terminating decimal Fraction, or (v2) FractionalTime / non-terminating Fraction"""
        from ear.fileio.adm.time_format import FractionalTime

        r = self.r
        shapes = ["zero", "int", "dec5", "dec5", "dec-few", "dec-many", "big"]
        if self.v >= 2:
            shapes += ["frac", "frac", "frac-nonnorm", "frac-int", "nonterm"]
        shape = r.choice(shapes)
        H = 360000
        if shape == "zero":
            t = Fraction(0)
        elif shape == "int":
            t = Fraction(r.choice([1, 59, 60, 61, 3599, 3600, 3601, H - 1, r.randint(0, H - 1)]))
        elif shape == "dec5":
            t = Fraction(r.randint(0, H * 100000 - 1), 100000)
        elif shape == "dec-few":
            p = r.randint(1, 4)
            t = Fraction(r.randint(0, 600 * 10 ** p), 10 ** p)
        elif shape == "dec-many":
            p = r.randint(6, 21)
            t = Fraction(r.randint(0, H * 10 ** p - 1), 10 ** p)
        elif shape == "big":
            t = Fraction(H * 100000 - r.randint(1, 100), 100000)
        elif shape == "frac":
            d = r.choice([3, 7, 25, 30, 48000, 44100, 96000, r.randint(2, 10 ** 6)])
            t = FractionalTime(r.randint(0, min(H, 100000) * d - 1), d)
        elif shape == "frac-nonnorm":
            d = r.choice([4, 10, 48000, 96000, 6 * r.randint(1, 1000)])
            g = r.choice([x for x in (2, 3, 4, 5, 6, 10, d) if d % x == 0] or [1])
            n = g * r.randint(0, (3000 * d) // g)
            t = FractionalTime(n, d)
        elif shape == "frac-int":
            t = FractionalTime(r.randint(0, 4000)) if r.random() < 0.5 else FractionalTime(r.randint(0, 4000) * 5, 5)
        else:  # nonterm
            d = r.choice([3, 7, 9, 11, 48000 * 3, 7 * r.randint(1, 10 ** 6)])
            n = r.randint(0, 5000 * d)
            t = Fraction(n, d)
            if _terminating(t):
                shape = "dec-by-chance"
        self.f("time:" + shape)
        return t

    def seconds5(self):
        """SecondsType values (interpolationLength): printed by '{:07.5f}'.format(float(t))"""
        r = self.r
        return Fraction(r.choice([0, 1, 512, 100000, r.randint(0, 10 ** 7)]), 100000)


def _terminating(fr):
    d = fr.denominator
    for q in (2, 5):
        while d % q == 0:
            d //= q
    return d == 1


# ---------------------------------------------------------------------------------------------
# document generator


def make_doc(seed, version, size=2, chna_style=None):
    """Build a random ADM document (ids generated by the real generate_ids). Returns (adm, features)."""
    from ear.fileio.adm.adm import ADM
    from ear.fileio.adm import elements as E
    from ear.fileio.adm.elements import (
        AlternativeValueSet, AudioBlockFormatBinaural, AudioBlockFormatDirectSpeakers, AudioBlockFormatHoa,
        AudioBlockFormatMatrix, AudioBlockFormatObjects, AudioChannelFormat, AudioContent, AudioObject,
        AudioObjectInteraction, AudioPackFormat, AudioProgramme, AudioStreamFormat, AudioTrackFormat,
        AudioTrackUID, BoundCoordinate, CartesianPositionInteractionRange, CartesianPositionOffset,
        CartesianZone, ChannelLock, DirectSpeakerCartesianPosition, DirectSpeakerPolarPosition,
        FormatDefinition, Frequency, InteractionRange, JumpPosition, LoudnessMetadata, MatrixCoefficient,
        ObjectCartesianPosition, ObjectDivergence, ObjectPolarPosition, PolarPositionInteractionRange,
        PolarPositionOffset, PolarZone, ScreenEdgeLock, TypeDefinition,
    )
    from ear.fileio.adm.elements.version import BS2076Version, NoVersion
    from ear.common import CartesianPosition, CartesianScreen, PolarPosition, PolarScreen
    from ear.fileio.adm.generate_ids import generate_ids

    g = Gen(seed, version, size)
    r = g.r
    v2 = version >= 2
    if v2:
        adm = ADM(version=BS2076Version(2))
        g.f("version:BS.2076-2")
    else:
        # (version=None means "no AXML at all" and is covered by the CHNA-only documents)
        ver = r.choice([NoVersion(), BS2076Version(1)])
        adm = ADM(version=ver)
        g.f("version:v1/" + type(ver).__name__)
    cm = common()
    for x in cm.audioChannelFormats: adm.addAudioChannelFormat(x)
    for x in cm.audioPackFormats: adm.addAudioPackFormat(x)
    for x in cm.audioStreamFormats: adm.addAudioStreamFormat(x)
    for x in cm.audioTrackFormats: adm.addAudioTrackFormat(x)

    def opt(fn, prob=0.5):
        return fn() if g.p(prob) else None

    def count(hi):
        return r.randint(0, hi)

    # ---- block formats
    def block_times(n):
        if g.p(0.25):
            g.f("block:no-times", n)
            return [(None, None)] * n
        ts = [(g.time(), g.time()) for _ in range(n)]
        ts.sort(key=lambda t: (t[0], t[1]))
        g.f("block:timed", n)
        return ts

    def v2_common(kw):
        """gain / importance sub-elements that exist for every block type only from BS.2076-2"""
        if v2 and g.p(0.5):
            kw["gain"] = g.fl(0, 4); g.f("block:gain")
        if v2 and g.p(0.4):
            kw["importance"] = r.randint(0, 10); g.f("block:importance")

    def sel():
        s = ScreenEdgeLock()
        return s

    def objects_block(rt, du):
        kw = dict(rtime=rt, duration=du)
        if g.p(0.6):
            s = ScreenEdgeLock(horizontal=opt(lambda: r.choice(["left", "right"]), 0.2),
                               vertical=opt(lambda: r.choice(["top", "bottom"]), 0.2))
            kw["position"] = ObjectPolarPosition(azimuth=g.fl(-180, 180), elevation=g.fl(-90, 90),
                                                 distance=1.0 if g.p(0.4) else g.fl(0, 2), screenEdgeLock=s)
            g.f("position:objects-polar")
        else:
            s = ScreenEdgeLock(horizontal=opt(lambda: r.choice(["left", "right"]), 0.2),
                               vertical=opt(lambda: r.choice(["top", "bottom"]), 0.2))
            kw["position"] = ObjectCartesianPosition(X=g.fl(-1, 1), Y=g.fl(-1, 1), Z=0.0 if g.p(0.4) else g.fl(-1, 1),
                                                     screenEdgeLock=s)
            g.f("position:objects-cartesian")
        if s.horizontal or s.vertical: g.f("position:screenEdgeLock")
        if g.p(0.4): kw["cartesian"] = True; g.f("objects:cartesian-flag")
        for nm in ("width", "height", "depth"):
            if g.p(0.3): kw[nm] = g.fl(0, 360); g.f("objects:extent")
        if g.p(0.3): kw["diffuse"] = g.fl(0, 1); g.f("objects:diffuse")
        if g.p(0.3):
            kw["channelLock"] = ChannelLock(maxDistance=opt(lambda: g.fl(0, 2))); g.f("objects:channelLock")
        if g.p(0.3):
            kw["objectDivergence"] = ObjectDivergence(value=g.fl(0, 1), azimuthRange=opt(lambda: g.fl(0, 180)),
                                                      positionRange=opt(lambda: g.fl(0, 1)))
            g.f("objects:objectDivergence")
        if g.p(0.4):
            kw["jumpPosition"] = JumpPosition(flag=True, interpolationLength=opt(g.seconds5, 0.6))
            g.f("objects:jumpPosition")
        if g.p(0.3): kw["screenRef"] = True; g.f("objects:screenRef")
        if g.p(0.3):
            zs = []
            for _ in range(r.randint(1, 3)):
                if g.p():
                    zs.append(CartesianZone(minX=g.fl(-1, 1), minY=g.fl(-1, 1), minZ=g.fl(-1, 1),
                                            maxX=g.fl(-1, 1), maxY=g.fl(-1, 1), maxZ=g.fl(-1, 1)))
                    g.f("zone:cartesian")
                else:
                    zs.append(PolarZone(minElevation=g.fl(-90, 90), maxElevation=g.fl(-90, 90),
                                        minAzimuth=g.fl(-180, 180), maxAzimuth=g.fl(-180, 180)))
                    g.f("zone:polar")
            kw["zoneExclusion"] = zs
        # gain and importance exist for Objects blocks in both versions
        if g.p(0.5): kw["gain"] = g.fl(0, 4); g.f("block:gain")
        if g.p(0.4): kw["importance"] = r.randint(0, 10); g.f("block:importance")
        return AudioBlockFormatObjects(**kw)

    def bound(lo, hi, p_bounds=0.4):
        b = BoundCoordinate(value=g.fl(lo, hi))
        if g.p(p_bounds): b.min = g.fl(lo, hi); g.f("bound:min")
        if g.p(p_bounds): b.max = g.fl(lo, hi); g.f("bound:max")
        return b

    def ds_block(rt, du):
        kw = dict(rtime=rt, duration=du)
        s = ScreenEdgeLock(horizontal=opt(lambda: r.choice(["left", "right"]), 0.2),
                           vertical=opt(lambda: r.choice(["top", "bottom"]), 0.2))
        if s.horizontal or s.vertical: g.f("position:screenEdgeLock")
        if g.p(0.6):
            pkw = dict(bounded_azimuth=bound(-180, 180), bounded_elevation=bound(-90, 90), screenEdgeLock=s)
            if g.p(0.5): pkw["bounded_distance"] = bound(0, 2)
            kw["position"] = DirectSpeakerPolarPosition(**pkw)
            g.f("position:speaker-polar")
        else:
            kw["position"] = DirectSpeakerCartesianPosition(bounded_X=bound(-1, 1), bounded_Y=bound(-1, 1),
                                                            bounded_Z=bound(-1, 1), screenEdgeLock=s)
            g.f("position:speaker-cartesian")
        kw["speakerLabel"] = [g.name("label") for _ in range(r.choice([0, 1, 1, 2]))]
        g.f("speakerLabel", len(kw["speakerLabel"]))
        v2_common(kw)
        return AudioBlockFormatDirectSpeakers(**kw)

    def hoa_block(rt, du):
        kw = dict(rtime=rt, duration=du)
        if g.p(0.5): kw["equation"] = g.name("eq"); g.f("hoa:equation")
        if g.p(0.7):
            kw["order"] = r.randint(0, 7); kw["degree"] = r.randint(-kw["order"], kw["order"]); g.f("hoa:order-degree")
        if g.p(0.5): kw["normalization"] = r.choice(["SN3D", "N3D", "FuMa"]); g.f("hoa:normalization")
        if g.p(0.4): kw["nfcRefDist"] = g.fl(0, 5); g.f("hoa:nfcRefDist")
        if g.p(0.4): kw["screenRef"] = g.p(); g.f("hoa:screenRef")
        v2_common(kw)
        return AudioBlockFormatHoa(**kw)

    def binaural_block(rt, du):
        kw = dict(rtime=rt, duration=du)
        v2_common(kw)
        return AudioBlockFormatBinaural(**kw)

    channels = []  # own channel formats

    def any_channel():
        if channels and g.p(0.6):
            return r.choice(channels)
        g.f("ref:common-channel")
        return r.choice(cm.audioChannelFormats)

    def matrix_block(rt, du):
        kw = dict(rtime=rt, duration=du)
        if g.p(0.6): kw["outputChannelFormat"] = any_channel(); g.f("matrix:outputChannelFormat")
        cs = []
        for _ in range(r.randint(0, 3)):
            ck = dict(inputChannelFormat=any_channel())
            if g.p(): ck["gain"] = g.fl(-2, 2)
            else:
                if g.p(): ck["gainVar"] = g.name("var")
            if g.p(0.3): ck["phase"] = g.fl(-180, 180)
            elif g.p(0.3): ck["phaseVar"] = g.name("var")
            if g.p(0.3): ck["delay"] = g.fl(0, 100)
            elif g.p(0.3): ck["delayVar"] = g.name("var")
            cs.append(MatrixCoefficient(**ck))
            g.f("matrix:coefficient")
            for k in ck: g.f("coefficient:" + k)
        kw["matrix"] = cs
        v2_common(kw)
        return AudioBlockFormatMatrix(**kw)

    block_makers = {
        TypeDefinition.Objects: objects_block, TypeDefinition.DirectSpeakers: ds_block,
        TypeDefinition.HOA: hoa_block, TypeDefinition.Binaural: binaural_block,
        TypeDefinition.Matrix: matrix_block,
    }
    types = list(block_makers)

    nch = r.randint(1, 2 + 2 * size)
    for i in range(nch):
        t = types[i % 5] if size >= 2 and i < 5 and g.p(0.7) else r.choice(types + [TypeDefinition.Objects])
        nb = r.choice([1, 1, 2, 3, 1 + size])
        bfs = [block_makers[t](rt, du) for rt, du in block_times(nb)]
        fr = Frequency(lowPass=opt(lambda: g.fl(20, 200), 0.2), highPass=opt(lambda: g.fl(20, 200), 0.2))
        if fr.lowPass is not None or fr.highPass is not None: g.f("channel:frequency")
        c = AudioChannelFormat(audioChannelFormatName=g.name("ch"), type=t, audioBlockFormats=bfs, frequency=fr)
        channels.append(c); adm.addAudioChannelFormat(c)
        g.f("element:audioChannelFormat/" + t.name); g.f("element:audioBlockFormat/" + t.name, nb)

    # ---- pack formats
    packs = []
    for i in range(r.randint(1, 1 + 2 * size)):
        t = r.choice(types)
        kw = dict(audioPackFormatName=g.name("pack"), type=t)
        own = [c for c in channels if c.type == t]
        comm = [c for c in cm.audioChannelFormats if c.type == t]
        chs = r.sample(own, r.randint(0, len(own)))
        if comm and g.p(0.3): chs += r.sample(comm, r.randint(1, min(3, len(comm)))); g.f("ref:common-channel")
        kw["audioChannelFormats"] = chs
        same = [p for p in packs if p.type == t]
        if same and g.p(0.4): kw["audioPackFormats"] = r.sample(same, r.randint(1, len(same))); g.f("pack:nested")
        elif g.p(0.1):
            cp = [p for p in cm.audioPackFormats if p.type == t]
            if cp: kw["audioPackFormats"] = [r.choice(cp)]; g.f("ref:common-pack")
        if g.p(0.3): kw["absoluteDistance"] = g.fl(0, 10); g.f("pack:absoluteDistance")
        if g.p(0.3): kw["importance"] = r.randint(0, 10); g.f("pack:importance")
        if t == TypeDefinition.HOA:
            if g.p(0.5): kw["normalization"] = r.choice(["SN3D", "N3D", "FuMa"]); g.f("pack:normalization")
            if g.p(0.4): kw["nfcRefDist"] = g.fl(0, 5); g.f("pack:nfcRefDist")
            if g.p(0.4): kw["screenRef"] = g.p(); g.f("pack:screenRef")
        if t == TypeDefinition.Matrix and packs:
            if g.p(0.5): kw["inputPackFormat"] = r.choice(packs + list(cm.audioPackFormats[:3])); g.f("pack:inputPackFormat")
            if g.p(0.5): kw["outputPackFormat"] = r.choice(packs + list(cm.audioPackFormats[:3])); g.f("pack:outputPackFormat")
            if g.p(0.4):
                kw["encodePackFormats"] = r.sample(packs, r.randint(1, min(2, len(packs)))); g.f("pack:encodePackFormats")
        p = AudioPackFormat(**kw)
        packs.append(p); adm.addAudioPackFormat(p)
        g.f("element:audioPackFormat/" + t.name)

    # ---- stream / track formats
    tracks, streams = [], []
    for c in channels:
        if g.p(0.7):
            if g.p(0.85):
                s = AudioStreamFormat(audioStreamFormatName=g.name("stream"), format=FormatDefinition.PCM,
                                      audioChannelFormat=c)
                g.f("stream:to-channel")
            else:
                cand = [p for p in packs if p.type == c.type] or packs
                s = AudioStreamFormat(audioStreamFormatName=g.name("stream"), format=FormatDefinition.PCM,
                                      audioPackFormat=r.choice(cand))
                g.f("stream:to-pack")
            streams.append(s); adm.addAudioStreamFormat(s)
            g.f("element:audioStreamFormat")
            for _ in range(r.choice([0, 1, 1, 1, 2, 3])):
                t = AudioTrackFormat(audioTrackFormatName=g.name("track"), format=FormatDefinition.PCM,
                                     audioStreamFormat=s)
                tracks.append((t, c)); adm.addAudioTrackFormat(t)
                g.f("element:audioTrackFormat")
    if g.p(0.3):
        r.shuffle(adm._atf)  # track formats need not be grouped by stream
        g.f("trackFormats:interleaved-streams")

    # ---- track UIDs
    uids = []
    style = chna_style or ("v2" if v2 and g.p(0.6) else "v1")
    n_uid = r.randint(1, 2 + 2 * size)
    for i in range(n_uid):
        kw = dict(trackIndex=r.choice([i + 1, r.randint(1, 8), r.randint(1, 65535)]))
        st = style if not (v2 and g.p(0.2)) else ("v1" if style == "v2" else "v2")
        if st == "v2":
            kw["audioChannelFormat"] = any_channel(); g.f("trackUID:channelFormat-ref(v2)")
        else:
            if tracks and g.p(0.7):
                kw["audioTrackFormat"] = r.choice(tracks)[0]
            else:
                kw["audioTrackFormat"] = r.choice(cm.audioTrackFormats); g.f("ref:common-track")
            g.f("trackUID:trackFormat-ref(v1)")
        if g.p(0.7):
            kw["audioPackFormat"] = r.choice(packs) if g.p(0.8) else r.choice(cm.audioPackFormats)
            g.f("trackUID:packFormat-ref")
        if g.p(0.5): kw["sampleRate"] = r.choice([44100, 48000, 96000]); g.f("trackUID:sampleRate")
        if g.p(0.5): kw["bitDepth"] = r.choice([16, 24, 32]); g.f("trackUID:bitDepth")
        u = AudioTrackUID(**kw)
        uids.append(u); adm.addAudioTrackUID(u)
        g.f("element:audioTrackUID")

    # ---- objects
    def int_range():
        lo, hi = opt(lambda: g.fl(-10, 10), 0.7), opt(lambda: g.fl(-10, 10), 0.7)
        if lo is None and hi is None:
            lo = g.fl(-10, 10)
        return InteractionRange(min=lo, max=hi)

    def interaction():
        kw = dict(onOffInteract=g.p())
        if g.p(): kw["gainInteract"] = g.p()
        if g.p(): kw["positionInteract"] = g.p()
        if g.p(0.5): kw["gainInteractionRange"] = int_range(); g.f("interaction:gainRange")
        if g.p(0.5):
            if g.p():
                names, cls = ("azimuth", "elevation", "distance"), PolarPositionInteractionRange
            else:
                names, cls = ("X", "Y", "Z"), CartesianPositionInteractionRange
            chosen = [n for n in names if g.p(0.6)] or [names[0]]
            kw["positionInteractionRange"] = cls(**{n: int_range() for n in chosen})
            g.f("interaction:positionRange/" + cls.__name__[:5])
        g.f("element:audioObjectInteraction")
        return AudioObjectInteraction(**kw)

    def pos_offset():
        if g.p():
            names, cls = ("azimuth", "elevation", "distance"), PolarPositionOffset
        else:
            names, cls = ("X", "Y", "Z"), CartesianPositionOffset
        kw = {n: g.fl(-30, 30) for n in names if g.p(0.6)}
        if not any(kw.values()):
            kw[names[0]] = 1.5
        g.f("positionOffset/" + cls.__name__[:5])
        return cls(**kw)

    objects, all_avs = [], []
    for i in range(r.randint(1, 1 + 2 * size)):
        kw = dict(audioObjectName=g.name("obj"))
        if g.p(0.5):
            kw["start"] = g.time(); g.f("object:start")
        if g.p(0.5):
            kw["duration"] = g.time(); g.f("object:duration")
        if g.p(0.3): kw["importance"] = r.randint(0, 10); g.f("object:importance")
        if g.p(0.3): kw["interact"] = g.p(); g.f("object:interact")
        if g.p(0.3): kw["disableDucking"] = g.p(); g.f("object:disableDucking")
        if g.p(0.3): kw["dialogue"] = r.randint(0, 2); g.f("object:dialogue")
        kw["audioPackFormats"] = r.sample(packs, r.randint(0, min(2, len(packs))))
        if g.p(0.15): kw["audioPackFormats"].append(r.choice(cm.audioPackFormats)); g.f("ref:common-pack")
        tus = r.sample(uids, r.randint(0, min(3, len(uids))))
        if g.p(0.3):
            tus.insert(r.randint(0, len(tus)), None); g.f("object:silent-trackUID-ref")
        kw["audioTrackUIDs"] = tus
        if objects and g.p(0.4): kw["audioObjects"] = r.sample(objects, r.randint(1, min(2, len(objects)))); g.f("object:nested")
        if objects and g.p(0.3):
            kw["audioComplementaryObjects"] = r.sample(objects, r.randint(1, min(2, len(objects)))); g.f("object:complementary")
        if g.p(0.4): kw["audioObjectInteraction"] = interaction()
        if v2:
            if g.p(0.4): kw["gain"] = g.fl(0, 4); g.f("object:gain")
            if g.p(0.3): kw["mute"] = True; g.f("object:mute")
            if g.p(0.3): kw["positionOffset"] = pos_offset()
            if g.p(0.5):
                avss = []
                for _ in range(r.randint(1, 3)):
                    ak = {}
                    if g.p(): ak["gain"] = g.fl(0, 4)
                    if g.p(): ak["mute"] = g.p()
                    if g.p(0.4): ak["positionOffset"] = pos_offset()
                    if g.p(0.4): ak["audioObjectInteraction"] = interaction()
                    avss.append(AlternativeValueSet(**ak))
                    g.f("element:alternativeValueSet")
                    for k in ak: g.f("avs:" + k)
                kw["alternativeValueSets"] = avss
                all_avs += avss
        o = AudioObject(**kw)
        objects.append(o); adm.addAudioObject(o)
        g.f("element:audioObject")

    # ---- contents, programmes
    def loudness_list():
        out = []
        for _ in range(r.choice([0, 0, 1, 1, 2])):
            kw = {}
            for nm in ("loudnessMethod", "loudnessRecType", "loudnessCorrectionType"):
                if g.p(0.5): kw[nm] = g.name("loud")
            for nm in ("integratedLoudness", "loudnessRange", "maxTruePeak", "maxMomentary", "maxShortTerm",
                       "dialogueLoudness"):
                if g.p(0.5): kw[nm] = g.fl(-70, 10)
            out.append(LoudnessMetadata(**kw))
            g.f("element:loudnessMetadata")
            for k in kw: g.f("loudness:" + k)
        return out

    contents = []
    for i in range(r.randint(1, 1 + size)):
        kw = dict(audioContentName=g.name("content"))
        if g.p(0.4): kw["audioContentLanguage"] = r.choice(["en", "de", "fra", "und"]); g.f("content:language")
        if g.p(0.4): kw["dialogue"] = r.randint(0, 2); g.f("content:dialogue")
        kw["loudnessMetadata"] = loudness_list()
        kw["audioObjects"] = r.sample(objects, r.randint(0, min(3, len(objects))))
        if v2 and all_avs and g.p(0.5):
            kw["alternativeValueSets"] = r.sample(all_avs, r.randint(1, min(2, len(all_avs)))); g.f("content:avs-ref")
        c = AudioContent(**kw)
        contents.append(c); adm.addAudioContent(c)
        g.f("element:audioContent")

    for i in range(r.randint(1, 1 + size)):
        kw = dict(audioProgrammeName=g.name("prog"))
        if g.p(0.4): kw["audioProgrammeLanguage"] = r.choice(["en", "de", "fra", "und"]); g.f("programme:language")
        if g.p(0.5): kw["start"] = g.time(); g.f("programme:start")
        if g.p(0.5): kw["end"] = g.time(); g.f("programme:end")
        if g.p(0.3): kw["maxDuckingDepth"] = g.fl(-62, 0); g.f("programme:maxDuckingDepth")
        kw["audioContents"] = r.sample(contents, r.randint(0, len(contents)))
        c = r.random()
        if c < 0.3:
            kw["referenceScreen"] = PolarScreen(aspectRatio=g.fl(1, 3), widthAzimuth=g.fl(1, 180),
                                                centrePosition=PolarPosition(g.fl(-180, 180), g.fl(-90, 90), g.fl(0, 2)))
            g.f("programme:screen-polar")
        elif c < 0.6:
            kw["referenceScreen"] = CartesianScreen(aspectRatio=g.fl(1, 3), widthX=g.fl(0, 2),
                                                    centrePosition=CartesianPosition(g.fl(-1, 1), g.fl(-1, 1), g.fl(-1, 1)))
            g.f("programme:screen-cartesian")
        else:
            g.f("programme:screen-default")
        kw["loudnessMetadata"] = loudness_list()
        if v2 and all_avs and g.p(0.5):
            kw["alternativeValueSets"] = r.sample(all_avs, r.randint(1, min(2, len(all_avs)))); g.f("programme:avs-ref")
        p = AudioProgramme(**kw)
        adm.addAudioProgramme(p)
        g.f("element:audioProgramme")

    generate_ids(adm)
    return adm, g.feat


def make_chna_only_doc(seed):
    """audioTrackUIDs referring to common definitions only (the 'no AXML' mode of the file reader)."""
    from ear.fileio.adm.adm import ADM
    from ear.fileio.adm.elements import AudioTrackUID
    from ear.fileio.adm.generate_ids import generate_ids

    r = random.Random("c08chna/%d" % seed)
    cm = common()
    adm = ADM()
    for x in cm.audioChannelFormats: adm.addAudioChannelFormat(x)
    for x in cm.audioPackFormats: adm.addAudioPackFormat(x)
    for x in cm.audioStreamFormats: adm.addAudioStreamFormat(x)
    for x in cm.audioTrackFormats: adm.addAudioTrackFormat(x)
    feat = {}
    for i in range(r.randint(1, 6)):
        kw = dict(trackIndex=r.choice([i + 1, r.randint(1, 65535)]))
        if r.random() < 0.5:
            kw["audioTrackFormat"] = r.choice(cm.audioTrackFormats); k = "chna-only:track-ref"
        else:
            kw["audioChannelFormat"] = r.choice(cm.audioChannelFormats); k = "chna-only:channel-ref"
        feat[k] = feat.get(k, 0) + 1
        if r.random() < 0.7:
            kw["audioPackFormat"] = r.choice(cm.audioPackFormats)
        else:
            feat["chna-only:no-pack"] = feat.get("chna-only:no-pack", 0) + 1
        adm.addAudioTrackUID(AudioTrackUID(**kw))
    generate_ids(adm)
    return adm, feat


# ---------------------------------------------------------------------------------------------
# canonical form and comparison (property (a))

MAIN_LISTS = ["audioProgrammes", "audioContents", "audioObjects", "audioPackFormats", "audioChannelFormats",
              "audioStreamFormats", "audioTrackFormats", "audioTrackUIDs"]


def canon(v, owner=None, field=None):
    from enum import Enum
    from ear.fileio.adm.elements.main_elements import ADMElement, AlternativeValueSet
    from ear.fileio.adm.time_format import FractionalTime

    if isinstance(v, ADMElement):
        return ["ref", v.id]
    if isinstance(v, AlternativeValueSet) and owner in ("AudioProgramme", "AudioContent"):
        return ["ref", v.id]
    if isinstance(v, FractionalTime):
        return ["FT", v.format_numerator, v.format_denominator]
    if isinstance(v, Fraction):
        return ["T", v.numerator, v.denominator]
    if isinstance(v, Enum):
        return ["enum", v.name]
    if isinstance(v, (list, tuple)):
        return [canon(x, owner, field) for x in v]
    if attr.has(type(v)):
        return canon_fields(v)
    if v is None or isinstance(v, (bool, int, float, str)):
        return v
    return ["?", repr(v)]


def canon_fields(obj):
    d = {"_class": type(obj).__name__}
    for f in attr.fields(type(obj)):
        if f.name.endswith("IDRef"):
            continue  # unresolved-reference scratch attributes
        d[f.name] = canon(getattr(obj, f.name), type(obj).__name__, f.name)
    return d


def canon_doc(adm):
    out = {"version": canon(adm.version) if adm.version is not None else None}
    for nm in MAIN_LISTS:
        out[nm] = [canon_fields(e) for e in getattr(adm, nm) if not e.is_common_definition]
    return out


def same_time(a, b, version):
    """original canonical time a vs parsed b: exact value; FractionalTime numerator/denominator preserved;
    a plain Fraction that is not a terminating decimal comes back (v2) as a FractionalTime of equal value"""
    if a == b:
        return True
    if a[0] == "T" and b[0] == "FT" and version >= 2:
        fa = Fraction(a[1], a[2])
        return Fraction(b[1], b[2]) == fa and not _terminating(fa) and b[2] == a[2]
    return False


def diff(a, b, version, path="", out=None, limit=12):
    out = [] if out is None else out
    if len(out) >= limit:
        return out
    if isinstance(a, list) and a and a[0] in ("T", "FT") and isinstance(b, list) and b and b[0] in ("T", "FT"):
        if not same_time(a, b, version):
            out.append((path, a, b))
    elif isinstance(a, dict) and isinstance(b, dict):
        for k in sorted(set(a) | set(b)):
            if k not in a or k not in b:
                out.append((path + "." + k, a.get(k, "<absent>"), b.get(k, "<absent>")))
            else:
                diff(a[k], b[k], version, path + "." + k, out, limit)
    elif isinstance(a, list) and isinstance(b, list) and not (a and a[0] in ("ref", "enum", "?")):
        if len(a) != len(b):
            out.append((path + ".<len>", _short(a), _short(b)))
        else:
            for i, (x, y) in enumerate(zip(a, b)):
                diff(x, y, version, "%s[%d]" % (path, i), out, limit)
    else:
        if type(a) != type(b) or a != b:
            out.append((path, a, b))
    return out


def _short(x, n=300):
    s = repr(x)
    return s if len(s) <= n else s[:n] + "..."


# ---------------------------------------------------------------------------------------------
# the pipeline of the real code and the predicate

ID_RE = {
    "audioProgrammes": r"APR_[0-9a-fA-F]{4}", "audioContents": r"ACO_[0-9a-fA-F]{4}",
    "audioObjects": r"AO_[0-9a-fA-F]{4}", "audioPackFormats": r"AP_[0-9a-fA-F]{8}",
    "audioChannelFormats": r"AC_[0-9a-fA-F]{8}", "audioStreamFormats": r"AS_[0-9a-fA-F]{8}",
    "audioTrackFormats": r"AT_[0-9a-fA-F]{8}_[0-9a-fA-F]{2}", "audioTrackUIDs": r"ATU_[0-9a-fA-F]{8}",
    "block": r"AB_[0-9a-fA-F]{8}_[0-9a-fA-F]{8}", "avs": r"AVS_[0-9a-fA-F]{4}_[0-9a-fA-F]{4}",
}


def check_ids(adm):
    """(d): returns list of (what, detail)"""
    bad = []
    seen = {}
    type_of = {}

    def one(kind, id_, tval=None, parent=None):
        if not isinstance(id_, str) or re.fullmatch(ID_RE[kind], id_) is None:
            bad.append(("id-malformed", {"kind": kind, "id": id_}))
            return
        if id_.upper() == "ATU_00000000":
            bad.append(("id-reserved", {"kind": kind, "id": id_}))
        if id_.upper() in seen:
            bad.append(("id-duplicate", {"kind": kind, "id": id_, "other": seen[id_.upper()]}))
        seen[id_.upper()] = kind
        if tval is not None and int(id_[3:7], 16) != tval:
            bad.append(("id-type-field", {"kind": kind, "id": id_, "type": tval}))
        if parent is not None and not id_.upper().startswith(parent.upper()):
            bad.append(("id-parent-field", {"kind": kind, "id": id_, "parent": parent}))

    for nm in MAIN_LISTS:
        for e in getattr(adm, nm):
            if e.is_common_definition:
                seen.setdefault(e.id.upper(), nm + "(common)")
                continue
            tval = None
            if nm in ("audioPackFormats", "audioChannelFormats"):
                tval = e.type.value
            one(nm, e.id, tval)
            if not e.is_common_definition and nm != "audioTrackUIDs" and isinstance(e.id, str) and \
                    re.fullmatch(ID_RE[nm], e.id) and int(e.id.split("_")[1][-4:], 16) <= 0x1000:
                bad.append(("id-in-common-range", {"kind": nm, "id": e.id}))
            if nm == "audioChannelFormats":
                for b in e.audioBlockFormats:
                    one("block", b.id, e.type.value, "AB_" + e.id[3:] if isinstance(e.id, str) else None)
            if nm == "audioObjects":
                for a in e.alternativeValueSets:
                    one("avs", a.id, None, "AVS_" + e.id[3:] if isinstance(e.id, str) else None)
            if nm == "audioTrackFormats" and e.audioStreamFormat is not None and isinstance(e.id, str):
                sid = e.audioStreamFormat.id
                if isinstance(sid, str) and e.id[3:11].upper() != sid[3:11].upper():
                    bad.append(("id-parent-field", {"kind": nm, "id": e.id, "stream": sid}))
    return bad


def write_file(adm):
    """AXML + CHNA as the library writes them (cf. ear.cmdline.generate_test_file): returns
    (file bytes, axml bytes, list of CHNA rows written)"""
    import lxml.etree
    from ear.fileio.adm.xml import adm_to_xml
    from ear.fileio.adm.chna import populate_chna_chunk
    from ear.fileio.bw64 import Bw64Writer
    from ear.fileio.bw64.chunks import ChnaChunk, FormatInfoChunk

    axml = lxml.etree.tostring(adm_to_xml(adm), pretty_print=True)
    chna = ChnaChunk()
    populate_chna_chunk(chna, adm)
    f = io.BytesIO()
    fmt = FormatInfoChunk(formatTag=1, channelCount=1, sampleRate=48000, bitsPerSample=16)
    w = Bw64Writer(f, fmt, chna=chna, axml=axml)
    w.close()
    rows = [(a.trackIndex, a.audioTrackUID, a.audioTrackFormatIDRef, a.audioPackFormatIDRef) for a in chna.audioIDs]
    return f.getvalue(), axml, rows


def read_file(data):
    """what Bw64AdmReader._parse_adm does, on bytes"""
    from ear.fileio.bw64 import Bw64Reader
    from ear.fileio.adm.adm import ADM
    from ear.fileio.adm.common_definitions import load_common_definitions
    from ear.fileio.adm.xml import load_axml_string
    from ear.fileio.adm.chna import load_chna_chunk

    rd = Bw64Reader(io.BytesIO(data))
    axml, chna = rd.axml, rd.chna
    adm = ADM()
    load_common_definitions(adm)
    if axml is not None:
        load_axml_string(adm, axml)
    load_chna_chunk(adm, chna)
    rows = [(a.trackIndex, a.audioTrackUID, a.audioTrackFormatIDRef, a.audioPackFormatIDRef) for a in chna.audioIDs]
    return adm, axml, rows


def predicate(adm, version, chna_only=False):
    """Evaluate (a)-(d) on one generated document. Returns list of (tag, detail) failures."""
    import lxml.etree
    from ear.fileio.adm.xml import adm_to_xml
    from ear.fileio.adm.generate_ids import generate_ids

    fails = []
    for what, det in check_ids(adm):
        fails.append((what, det))
    with warnings.catch_warnings(record=True) as wlist:
        warnings.simplefilter("always")
        try:
            if chna_only:
                from ear.fileio.adm.chna import populate_chna_chunk
                from ear.fileio.bw64.chunks import ChnaChunk
                ch = ChnaChunk(); populate_chna_chunk(ch, adm)
                rows_w = [(a.trackIndex, a.audioTrackUID, a.audioTrackFormatIDRef, a.audioPackFormatIDRef) for a in ch.audioIDs]
                axml = b""
            else:
                data, axml, rows_w = write_file(adm)
        except Exception as e:
            return fails + [("write-raises", {"exc": "%s: %s" % (type(e).__name__, e)})]
        try:
            if chna_only:
                # strip the axml chunk: re-write with CHNA only
                data = _chna_only_file(adm)
            parsed, axml_r, rows_r = read_file(data)
        except Exception as e:
            return fails + [("read-raises", {"exc": "%s: %s" % (type(e).__name__, e), "axml": axml.decode()[:3000]})]
    for w in wlist:
        msg = str(w.message)
        # the library warning about a file it has just written itself: lossy time, re-sorted / patched block
        # formats, CHNA rows that are not in the AC_xxxxxxxx_00 form
        if "loss of accuracy" in msg or "out of order" in msg or "added missing rtime" in msg \
                or "CHNA trackRef is expected" in msg:
            fails.append(("unexpected-warning", {"warning": msg}))
    if rows_w != rows_r:
        fails.append(("chna-rows-differ", {"written": rows_w[:6], "read": rows_r[:6]}))
    if chna_only:
        a = [canon_fields(e) for e in adm.audioTrackUIDs]
        b = [canon_fields(e) for e in parsed.audioTrackUIDs]
        d = diff(a, b, 2)
        if d:
            fails.append(("chna-only-trackuids-differ", {"diffs": [(p, _short(x), _short(y)) for p, x, y in d]}))
        return fails
    if axml_r != axml:
        fails.append(("axml-chunk-bytes-differ", {}))
    ca, cb = canon_doc(adm), canon_doc(parsed)
    d = diff(ca, cb, version)
    if d:
        fails.append(("not-equivalent", {"diffs": [(p, _short(x), _short(y)) for p, x, y in d],
                                         "axml": axml.decode()[:4000]}))
    try:
        axml2 = lxml.etree.tostring(adm_to_xml(parsed), pretty_print=True)
        if axml2 != axml:
            fails.append(("regenerated-bytes-differ", _first_diff(axml, axml2)))
        else:
            generate_ids(parsed)
            axml3 = lxml.etree.tostring(adm_to_xml(parsed), pretty_print=True)
            if axml3 != axml:
                fails.append(("regenerated-after-generate_ids-differ", _first_diff(axml, axml3)))
    except Exception as e:
        fails.append(("regenerate-raises", {"exc": "%s: %s" % (type(e).__name__, e)}))
    return fails


def _chna_only_file(adm):
    from ear.fileio.adm.chna import populate_chna_chunk
    from ear.fileio.bw64 import Bw64Writer
    from ear.fileio.bw64.chunks import ChnaChunk, FormatInfoChunk

    chna = ChnaChunk()
    populate_chna_chunk(chna, adm)
    f = io.BytesIO()
    w = Bw64Writer(f, FormatInfoChunk(formatTag=1, channelCount=1, sampleRate=48000, bitsPerSample=16), chna=chna)
    w.close()
    return f.getvalue()


def _first_diff(a, b):
    la, lb = a.decode().split("\n"), b.decode().split("\n")
    for i, (x, y) in enumerate(zip(la, lb)):
        if x != y:
            return {"line": i + 1, "first": x[:300], "second": y[:300]}
    return {"line": min(len(la), len(lb)) + 1, "first_len": len(la), "second_len": len(lb)}


def run_docs(jobs):
    """jobs: list of (kind, seed, version, size). Returns (features, failures[(job, tag, detail)], n)."""
    feats, fails = {}, []
    for job in jobs:
        kind, seed, version, size = job
        try:
            if kind == "chna-only":
                adm, feat = make_chna_only_doc(seed)
            elif kind == "directed":
                from . import c08_directed
                adm, feat = c08_directed.make_directed_doc(seed, version)
            else:
                adm, feat = make_doc(seed, version, size)
        except Exception as e:
            fails.append((job, "generator-or-generate_ids-raises", {"exc": "%s: %s" % (type(e).__name__, e)}))
            continue
        for k, n in feat.items():
            feats[k] = feats.get(k, 0) + n
        feats["docs:" + kind + "/v%d" % version] = feats.get("docs:" + kind + "/v%d" % version, 0) + 1
        try:
            res = predicate(adm, version, chna_only=(kind == "chna-only"))
        except Exception as e:
            res = [("predicate-raises", {"exc": "%s: %s" % (type(e).__name__, str(e)[:400])})]
        for tag, det in res:
            fails.append((job, tag, det))
    return feats, fails, len(jobs)
