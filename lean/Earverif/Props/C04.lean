/-
C04 — File-to-file rendering contract of ear-render (glue around the renderer).

PARTIAL: the renderer's blocks are a parameter (C02/C03 are about them), float
rounding of `x * gain`, `x * M` is C16's subject, argparse / YAML / filesystem are
not modelled. What is proved here, for all inputs: frame count, channel count,
routing and scaling by the speakers file, the overload flag ⇔ some output sample
exceeds full scale, failure ⇔ flag ∧ fail_on_overload, and that the written code
is within one quantisation step of the exact sample (clipped outside [-1, 1]).
-/
import Earverif.Model.FileRender
import Mathlib.Tactic.Linarith
import Mathlib.Tactic.Ring
import Mathlib.Tactic.Tauto
import Mathlib.Algebra.Order.Ring.Rat

namespace Earverif.FileRender

/-- Frames out = frames the renderer returned (which C02 shows equals frames in). -/
theorem run_frame_count (chans speakers gain f M) (rendered : List (List (List Rat))) :
    (run chans speakers gain f M rendered).frames.length = (rendered.map List.length).sum := by
  simp only [run, List.length_map, List.length_flatten, List.map_map]
  congr 1
  apply List.map_congr_left
  intro b _
  simp [outBlock]

theorem upmix_length (sp : List Speaker) (chans : List String) : (upmix sp chans).length = outChannels sp := by
  simp [upmix]

/-- Every written frame has exactly `nChannels` samples: one per loudspeaker of the
layout, or one per output channel of the speakers file (`max channel + 1`). -/
theorem run_channel_count (chans speakers gain f M) (rendered : List (List (List Rat)))
    (hlen : ∀ b ∈ rendered, ∀ fr ∈ b, fr.length = chans.length) :
    ∀ fr ∈ (run chans speakers gain f M rendered).frames,
      fr.length = (run chans speakers gain f M rendered).nChannels := by
  intro fr hfr
  simp only [run, List.mem_map, List.mem_flatten] at hfr
  obtain ⟨ofr, ⟨ob, ⟨b, hb, rfl⟩, hofr⟩, rfl⟩ := hfr
  simp only [outBlock, List.mem_map] at hofr
  obtain ⟨fr0, hfr0, rfl⟩ := hofr
  cases speakers with
  | none => simp [run, nChannels, hlen b hb fr0 hfr0]
  | some sp => simp [run, nChannels, applyUpmix, upmix_length]

/-- Column `name` of the upmix matrix: the matched speaker's gain in the row of
that speaker's output channel, zero in every other row; all zero if no speaker
lists the name (the channel is silent in the output). -/
theorem upmix_column (sp : List Speaker) (name : String) :
    (∀ s, findSpeaker sp name = some s →
        upmixEntry sp s.channel name = s.gain ∧ ∀ o, o ≠ s.channel → upmixEntry sp o name = 0) ∧
    (findSpeaker sp name = none → ∀ o, upmixEntry sp o name = 0) := by
  constructor
  · intro s hs
    constructor
    · simp [upmixEntry, hs]
    · intro o ho
      simp only [upmixEntry, hs]
      rw [if_neg (Ne.symm ho)]
  · intro hn o
    simp [upmixEntry, hn]

/-- A row with a single non-zero entry `g` at index `i` routes input `i` scaled by `g`. -/
theorem dot_single (g : Rat) : ∀ (frame : List Rat) (i : Nat) (n : Nat), frame.length = n → i < n →
    dot frame ((List.replicate n (0 : Rat)).set i g) = frame.getD i 0 * g := by
  intro frame
  induction frame with
  | nil => intro i n h hi; simp at h; omega
  | cons x xs ih =>
    intro i n h hi
    cases n with
    | zero => omega
    | succ n =>
      have hl : xs.length = n := by simpa using h
      cases i with
      | zero =>
        simp only [List.replicate_succ, List.set_cons_zero, dot, List.getD_cons_zero]
        have hz : ∀ (ys : List Rat) m, dot ys (List.replicate m (0 : Rat)) = 0 := by
          intro ys
          induction ys with
          | nil => intro m; cases m <;> simp [dot]
          | cons y ys ihy =>
            intro m; cases m with
            | zero => simp [dot]
            | succ m => simp [List.replicate_succ, dot, ihy m]
        rw [hz]; ring
      | succ i =>
        simp only [List.replicate_succ, List.set_cons_succ, dot, List.getD_cons_succ]
        rw [ih i n hl (by omega)]; ring

/-! ### Peak monitor -/

theorem rmax_ge_left (a b : Rat) : a ≤ rmax a b := by unfold rmax; split <;> linarith
theorem rmax_ge_right (a b : Rat) : b ≤ rmax a b := by unfold rmax; split <;> linarith
theorem rmax_cases (a b : Rat) : rmax a b = a ∨ rmax a b = b := by unfold rmax; split <;> simp

/-- Some entry of the list exceeds 1. -/
def Over (xs : List Rat) : Prop := ∃ x ∈ xs, 1 < x

theorem hasOverloaded_iff (p : List Rat) : hasOverloaded p = true ↔ Over p := by
  simp [hasOverloaded, Over]

theorem peakFrame_length : ∀ (p fr : List Rat), fr.length = p.length → (peakFrame p fr).length = p.length := by
  intro p
  induction p with
  | nil => intro fr h; cases fr <;> simp [peakFrame]
  | cons a p ih =>
    intro fr h
    cases fr with
    | nil => simp at h
    | cons x xs => simp only [peakFrame, List.length_cons]; rw [ih xs (by simpa using h)]

theorem peakFrame_over : ∀ (p fr : List Rat), fr.length = p.length →
    (Over (peakFrame p fr) ↔ Over p ∨ ∃ x ∈ fr, 1 < rabs x) := by
  intro p
  induction p with
  | nil =>
    intro fr h
    have : fr = [] := by cases fr with | nil => rfl | cons _ _ => simp at h
    subst this; simp [peakFrame, Over]
  | cons a p ih =>
    intro fr h
    cases fr with
    | nil => simp at h
    | cons x xs =>
      have hl : xs.length = p.length := by simpa using h
      have ih' := ih xs hl
      simp only [peakFrame, Over, List.mem_cons, exists_eq_or_imp] at ih' ⊢
      rw [show (∃ a ∈ peakFrame p xs, 1 < a) = Over (peakFrame p xs) from rfl] at *
      constructor
      · rintro (h1 | h1)
        · rcases rmax_cases a (rabs x) with e | e
          · rw [e] at h1; exact Or.inl (Or.inl h1)
          · rw [e] at h1; exact Or.inr (Or.inl h1)
        · rcases (ih'.mp h1) with h2 | h2
          · exact Or.inl (Or.inr h2)
          · exact Or.inr (Or.inr h2)
      · rintro ((h1 | h1) | (h1 | h1))
        · exact Or.inl (lt_of_lt_of_le h1 (rmax_ge_left _ _))
        · exact Or.inr (ih'.mpr (Or.inl h1))
        · exact Or.inl (lt_of_lt_of_le h1 (rmax_ge_right _ _))
        · exact Or.inr (ih'.mpr (Or.inr h1))

theorem peakBlock_over : ∀ (b : List (List Rat)) (p : List Rat), (∀ fr ∈ b, fr.length = p.length) →
    ((peakBlock p b).length = p.length ∧
     (Over (peakBlock p b) ↔ Over p ∨ ∃ fr ∈ b, ∃ x ∈ fr, 1 < rabs x)) := by
  intro b
  induction b with
  | nil => intro p _; simp [peakBlock]
  | cons fr b ih =>
    intro p h
    have hfr : fr.length = p.length := h fr (by simp)
    have hl := peakFrame_length p fr hfr
    have ih' := ih (peakFrame p fr) (fun f hf => by rw [hl]; exact h f (by simp [hf]))
    simp only [peakBlock, List.foldl_cons] at ih' ⊢
    refine ⟨by rw [ih'.1, hl], ?_⟩
    rw [ih'.2, peakFrame_over p fr hfr]
    simp only [List.mem_cons, exists_eq_or_imp, or_assoc]

theorem peakBlocks_over : ∀ (bs : List (List (List Rat))) (p : List Rat),
    (∀ b ∈ bs, ∀ fr ∈ b, fr.length = p.length) →
    (Over (bs.foldl peakBlock p) ↔ Over p ∨ ∃ b ∈ bs, ∃ fr ∈ b, ∃ x ∈ fr, 1 < rabs x) := by
  intro bs
  induction bs with
  | nil => intro p _; simp
  | cons b bs ih =>
    intro p h
    have hb := peakBlock_over b p (h b (by simp))
    have ih' := ih (peakBlock p b) (fun b' hb' fr hfr => by rw [hb.1]; exact h b' (by simp [hb']) fr hfr)
    simp only [List.foldl_cons]
    rw [ih', hb.2]
    simp only [List.mem_cons, exists_eq_or_imp, or_assoc]

/-- **Overload flag.** After all blocks the monitor reports an overload exactly
when some output sample (after gain and upmix, before quantisation) has
magnitude greater than 1 — for any number and sizes of blocks, incl. empty ones. -/
theorem overload_iff (n : Nat) (outs : List (List (List Rat)))
    (hlen : ∀ b ∈ outs, ∀ fr ∈ b, fr.length = n) :
    hasOverloaded (outs.foldl peakBlock (List.replicate n 0)) = true ↔
      ∃ b ∈ outs, ∃ fr ∈ b, ∃ x ∈ fr, 1 < rabs x := by
  rw [hasOverloaded_iff, peakBlocks_over outs _ (by simpa using hlen)]
  constructor
  · rintro (h | h)
    · obtain ⟨x, hx, h1⟩ := h
      rw [List.mem_replicate] at hx
      rw [hx.2] at h1; norm_num at h1
    · exact h
  · exact Or.inr

/-- With fail-on-overload the run fails exactly when the flag is set. -/
theorem run_failed_iff (chans speakers gain f M rendered) :
    (run chans speakers gain f M rendered).failed = true ↔
      f = true ∧ hasOverloaded (run chans speakers gain f M rendered).peak = true := by
  simp [run]

/-! ### Quantisation -/

theorem trunc_bounds (x : Rat) : ((trunc x : Int) : Rat) - x < 1 ∧ x - ((trunc x : Int) : Rat) < 1 ∧
    (0 ≤ x → 0 ≤ trunc x ∧ ((trunc x : Int) : Rat) ≤ x) ∧ (x ≤ 0 → trunc x ≤ 0 ∧ x ≤ ((trunc x : Int) : Rat)) := by
  unfold trunc
  have f1 := Rat.floor_le x
  have f2 := Rat.lt_floor_add_one x
  have g1 := Rat.floor_le (-x)
  have g2 := Rat.lt_floor_add_one (-x)
  push_cast at f2 g2
  split
  · rename_i hneg
    push_cast
    refine ⟨by linarith, by linarith, fun h => by linarith, fun _ => ⟨?_, by linarith⟩⟩
    have : (0 : Int) ≤ (-x).floor := Rat.le_floor_iff.mpr (by push_cast; linarith)
    omega
  · rename_i hnn
    have hnn' : 0 ≤ x := not_lt.mp hnn
    refine ⟨by linarith, by linarith, fun _ => ⟨Rat.le_floor_iff.mpr (by push_cast; linarith), f1⟩, fun h => ?_⟩
    have hx0 : x = 0 := le_antisymm h hnn'
    subst hx0
    have : Rat.floor 0 = 0 := by simpa using Rat.floor_intCast 0
    simp [this]

/-- **Within one step.** For a sample inside full scale the written code differs
from the exact scaled value by less than one code (truncation toward zero), and
never exceeds `M` in magnitude. -/
theorem quantise_within_step (M : Int) (hM : 0 < M) (x : Rat) (h1 : -1 ≤ x) (h2 : x ≤ 1) :
    ((quantise M x : Int) : Rat) - x * M < 1 ∧ x * M - ((quantise M x : Int) : Rat) < 1 ∧
    -M ≤ quantise M x ∧ quantise M x ≤ M := by
  have hMq : (0 : Rat) < (M : Rat) := by exact_mod_cast hM
  unfold quantise
  have c1 : ¬ (1 < x) := not_lt.mpr h2
  have c2 : ¬ (x < -1) := not_lt.mpr h1
  simp only [c1, c2, if_false]
  obtain ⟨t1, t2, t3, t4⟩ := trunc_bounds (x * M)
  refine ⟨t1, t2, ?_, ?_⟩
  · by_cases hx : 0 ≤ x
    · have := (t3 (mul_nonneg hx hMq.le)).1; omega
    · have hx' : x * M ≤ 0 := by nlinarith
      have := (t4 hx').2
      have : (-(M : Rat)) ≤ ((trunc (x * M) : Int) : Rat) := by nlinarith
      exact_mod_cast this
  · by_cases hx : 0 ≤ x
    · have := (t3 (mul_nonneg hx hMq.le)).2
      have : ((trunc (x * M) : Int) : Rat) ≤ (M : Rat) := by nlinarith
      exact_mod_cast this
    · have hx' : x * M ≤ 0 := by nlinarith
      have := (t4 hx').1; omega

/-- Values outside [-1, 1] are clipped to full scale. -/
theorem quantise_clips (M : Int) (x : Rat) :
    (1 < x → quantise M x = M) ∧ (x < -1 → quantise M x = -M) := by
  constructor
  · intro h
    simp only [quantise, h, if_true, one_mul, trunc]
    split
    · rw [show -((M : Int) : Rat) = ((-M : Int) : Rat) by push_cast; ring, Rat.floor_intCast]; omega
    · exact Rat.floor_intCast M
  · intro h
    have c1 : ¬ (1 < x) := by linarith
    simp only [quantise, c1, h, if_true, if_false, trunc]
    have e : (-1 : Rat) * (M : Rat) = ((-M : Int) : Rat) := by push_cast; ring
    rw [e]
    split
    · rw [show -(((-M : Int)) : Rat) = ((M : Int) : Rat) by push_cast; ring, Rat.floor_intCast]
    · exact Rat.floor_intCast (-M)

/-! Non-vacuity: a 0+2+0 layout routed through a speakers file that swaps the two
channels onto outputs 2 and 0 with gains 1/2 and 1; one loud sample overloads. -/
def exSpeakers : List Speaker := [⟨2, ["M+030"], 1/2⟩, ⟨0, ["M-030"], 1⟩]
example : upmix exSpeakers ["M+030", "M-030"] = [[0, 1], [0, 0], [1/2, 0]] := by decide +kernel
example : (run ["M+030", "M-030"] (some exSpeakers) 1 true 32767 [[[1, 3/2]], [], [[-1/4, 0]]]).frames
    = [[32767, 0, 16383], [0, 0, -4095]] := by decide +kernel
example : (run ["M+030", "M-030"] (some exSpeakers) 1 true 32767 [[[1, 3/2]], [], [[-1/4, 0]]]).failed = true := by
  decide +kernel

end Earverif.FileRender
