/- C12 — soundness of the "regions meet only in shared faces" certificate checker `Faces.facesCertOk`
   (Model/PointSourceFaces.lean), and the quantitative sliver bound for two triplets in ANY arrangement.

   * geometry: a plane through the shared rows of two invertible triplets that has the other rows of the first strictly on
     one side and the rows of the second on the other side forces every common direction of the two exact cones onto the
     shared vertex / edge (`sep_core`, `sep_core0`);
   * `pair_gain_bound`: two invertible triplets `P`, `Q`, row `j` of `Q` matched with row `σ j` of `P` (a permutation),
     shared rows matched with themselves, a separating plane, the constants `κ` (plane) and `α` (coordinates of the far
     rows of `Q` in the basis `P`): where both accept with slack `e` the gains of matched rows differ by at most
     `15/2·(3α+1)·κ·e`, and the gains of the non-shared rows are at most that — rows in any order, one shared row (slivers
     around a shared vertex), two (a shared edge) or none;
   * soundness of the checker on a table (`faces_*`). -/
import Earverif.Proofs.C12Ngon
import Earverif.Model.PointSourceFaces
import Mathlib.Algebra.BigOperators.Fin
import Mathlib.Algebra.Order.BigOperators.Group.Finset
import Mathlib.Data.Fintype.Card

namespace Earverif.PointSource

open Set

/-! ### geometry of a separating plane -/

theorem dot3_comb3 (n : Vec3 ℝ) (s t u : ℝ) (P : Mat3 ℝ) :
    dot3 n (comb3 s t u P) = s * dot3 n P.1 + t * dot3 n P.2.1 + u * dot3 n P.2.2 := by
  obtain ⟨⟨a0, a1, a2⟩, ⟨b0, b1, b2⟩, ⟨c0, c1, c2⟩⟩ := P
  obtain ⟨n0, n1, n2⟩ := n
  simp only [dot3, comb3, add3, smul3]; ring

/-- a direction in both exact cones, a plane with the rows of `P` on the non-negative and the rows of `Q` on the
    non-positive side: the coefficient of every row of `P` strictly inside the positive side vanishes -/
theorem coef_zero_of_sep (P Q : Mat3 ℝ) (hP : det3 P ≠ 0) (hQ : det3 Q ≠ 0) (n p : Vec3 ℝ)
    (ha : ∀ k, 0 ≤ dot3 n (row P k)) (hb : ∀ k, dot3 n (row Q k) ≤ 0)
    (hp : Triplet.acceptsE 0 P p) (hq : Triplet.acceptsE 0 Q p) :
    ∀ k, 0 < dot3 n (row P k) → coord (Triplet.pv P p) k = 0 := by
  have e1 := comb3_pv P hP p
  have e2 := comb3_pv Q hQ p
  obtain ⟨s0, s1, s2⟩ := hp
  obtain ⟨t0, t1, t2⟩ := hq
  have h1 := dot3_comb3 n (Triplet.pv P p).1 (Triplet.pv P p).2.1 (Triplet.pv P p).2.2 P
  have h2 := dot3_comb3 n (Triplet.pv Q p).1 (Triplet.pv Q p).2.1 (Triplet.pv Q p).2.2 Q
  rw [e1] at h1
  rw [e2] at h2
  have a0 := ha 0; have a1 := ha 1; have a2 := ha 2
  have b0 := hb 0; have b1 := hb 1; have b2 := hb 2
  simp only [row] at a0 a1 a2 b0 b1 b2
  generalize Triplet.pv P p = v at *
  generalize Triplet.pv Q p = w at *
  obtain ⟨x0, x1, x2⟩ := v
  obtain ⟨y0, y1, y2⟩ := w
  simp only at s0 s1 s2 t0 t1 t2 h1 h2
  have m0 := mul_nonneg s0 a0; have m1 := mul_nonneg s1 a1; have m2 := mul_nonneg s2 a2
  have k0 := mul_nonpos_of_nonneg_of_nonpos t0 b0
  have k1 := mul_nonpos_of_nonneg_of_nonpos t1 b1
  have k2 := mul_nonpos_of_nonneg_of_nonpos t2 b2
  intro k hk
  fin_cases k <;> simp only [row, coord] at hk ⊢
  · have : x0 * dot3 n P.1 = 0 := by linarith
    exact (mul_eq_zero.mp this).resolve_right hk.ne'
  · have : x1 * dot3 n P.2.1 = 0 := by linarith
    exact (mul_eq_zero.mp this).resolve_right hk.ne'
  · have : x2 * dot3 n P.2.2 = 0 := by linarith
    exact (mul_eq_zero.mp this).resolve_right hk.ne'

/-- a combination supported on the rows `i`, `j` is a point of the arc between them -/
theorem edge_of_support (P : Mat3 ℝ) (v : Vec3 ℝ) (i j : Fin 3) (hij : i ≠ j)
    (h0 : ∀ k, k ≠ i → k ≠ j → coord v k = 0) :
    comb3 v.1 v.2.1 v.2.2 P = edgePoint (coord v i) (coord v j) (row P i) (row P j) := by
  obtain ⟨v0, v1, v2⟩ := v
  fin_cases i <;> fin_cases j <;>
    simp only [ne_eq, not_true_eq_false, Fin.zero_eta, Fin.mk_one, Fin.reduceFinMk, coord] at hij h0 ⊢
  · have := h0 2 (by decide) (by decide); simp only at this; rw [this]; exact ((comb3_edge P _ _).1).symm
  · have := h0 1 (by decide) (by decide); simp only at this; rw [this]; exact ((comb3_edge P _ _).2.2.1).symm
  · have := h0 2 (by decide) (by decide); simp only at this; rw [this]; exact ((comb3_edge P _ _).2.1).symm
  · have := h0 0 (by decide) (by decide); simp only at this; rw [this]; exact ((comb3_edge P _ _).2.2.2.2.1).symm
  · have := h0 1 (by decide) (by decide); simp only at this; rw [this]; exact ((comb3_edge P _ _).2.2.2.1).symm
  · have := h0 0 (by decide) (by decide); simp only at this; rw [this]; exact ((comb3_edge P _ _).2.2.2.2.2).symm

/-- ONE OR TWO SHARED ROWS.  The plane `n` contains row `i` of `P`, has row `j` on the non-negative side and the third row
    strictly on the positive side, and all rows of `Q` on the non-positive side: every common direction of the two exact
    cones is `s·P_i + t·P_j` with `s, t ≥ 0`, and `t = 0` if row `j` is strictly on the positive side. -/
theorem sep_core (P Q : Mat3 ℝ) (hP : det3 P ≠ 0) (hQ : det3 Q ≠ 0) (n : Vec3 ℝ) (i j : Fin 3) (hij : i ≠ j)
    (hi : dot3 n (row P i) = 0) (hj : 0 ≤ dot3 n (row P j))
    (hk : ∀ k, k ≠ i → k ≠ j → 0 < dot3 n (row P k)) (hb : ∀ k, dot3 n (row Q k) ≤ 0)
    (p : Vec3 ℝ) (hp : Triplet.acceptsE 0 P p) (hq : Triplet.acceptsE 0 Q p) :
    ∃ s t : ℝ, 0 ≤ s ∧ 0 ≤ t ∧ p = edgePoint s t (row P i) (row P j) ∧ (0 < dot3 n (row P j) → t = 0) := by
  have ha : ∀ k, 0 ≤ dot3 n (row P k) := by
    intro k
    by_cases e1 : k = i
    · rw [e1, hi]
    · by_cases e2 : k = j
      · rw [e2]; exact hj
      · exact (hk k e1 e2).le
  have hz := coef_zero_of_sep P Q hP hQ n p ha hb hp hq
  have hs : ∀ k, 0 ≤ coord (Triplet.pv P p) k := by
    intro k; obtain ⟨s0, s1, s2⟩ := hp
    fin_cases k <;> simp only [coord] <;> assumption
  refine ⟨coord (Triplet.pv P p) i, coord (Triplet.pv P p) j, hs i, hs j, ?_, fun h => hz j h⟩
  rw [← edge_of_support P (Triplet.pv P p) i j hij (fun k e1 e2 => hz k (hk k e1 e2))]
  exact (comb3_pv P hP p).symm

/-- NO SHARED ROW.  All rows of `P` strictly on the positive side, all rows of `Q` on the non-positive side: the exact
    cones have only the origin in common. -/
theorem sep_core0 (P Q : Mat3 ℝ) (hP : det3 P ≠ 0) (hQ : det3 Q ≠ 0) (n : Vec3 ℝ)
    (hk : ∀ k, 0 < dot3 n (row P k)) (hb : ∀ k, dot3 n (row Q k) ≤ 0)
    (p : Vec3 ℝ) (hp : Triplet.acceptsE 0 P p) (hq : Triplet.acceptsE 0 Q p) : p = (0, 0, 0) := by
  have hz := coef_zero_of_sep P Q hP hQ n p (fun k => (hk k).le) hb hp hq
  have e := comb3_pv P hP p
  have z0 := hz 0 (hk 0); have z1 := hz 1 (hk 1); have z2 := hz 2 (hk 2)
  simp only [coord] at z0 z1 z2
  rw [z0, z1, z2] at e
  rw [← e]
  simp [comb3, add3, smul3]

/-- `MeetInSharedFace` is symmetric -/
theorem MeetInSharedFace.symm {r r' : TRegion} (h : MeetInSharedFace r r') : MeetInSharedFace r' r := by
  intro p hp ha' ha
  obtain ⟨i, j, i', j', s, t, hij, hij', hs, ht, hpe, hri, hci, hj⟩ := h p hp ha ha'
  refine ⟨i', j', i, j, s, t, hij', hij, hs, ht, ?_, hri.symm, hci.symm, ?_⟩
  · rcases hj with rfl | ⟨hrj, _⟩
    · rw [hpe, hri]; exact edgePoint_zero_right _ _ _ _
    · rw [hpe, hri, hrj]
  · rcases hj with h0 | ⟨hrj, hcj⟩
    · exact Or.inl h0
    · exact Or.inr ⟨hrj.symm, hcj.symm⟩

theorem MeetInOuterFaceG.symm {gX gY : Fin 3 → Option Nat} {X Y : TRegion} (h : MeetInOuterFaceG gX X gY Y) :
    MeetInOuterFaceG gY Y gX X := by
  intro p hp ha' ha
  obtain ⟨i, j, i', j', s, t, ci, cj, cj', hij, hij', hs, ht, hpe, hri, hci, hci', hcj, hcj', hj⟩ := h p hp ha ha'
  refine ⟨i', j', i, j, s, t, ci, cj', cj, hij', hij, hs, ht, ?_, hri.symm, hci', hci, hcj', hcj, ?_⟩
  · rcases hj with rfl | ⟨hrj, _⟩
    · rw [hpe, hri]; exact edgePoint_zero_right _ _ _ _
    · rw [hpe, hri, hrj]
  · rcases hj with h0 | ⟨hrj, hcj⟩
    · exact Or.inl h0
    · exact Or.inr ⟨hrj.symm, hcj.symm⟩

/-! ### the quantitative bound for two triplets in any arrangement -/

theorem pv_linear (P Q : Mat3 ℝ) (t0 t1 t2 : ℝ) :
    Triplet.pv P (comb3 t0 t1 t2 Q) =
      add3 (add3 (smul3 t0 (Triplet.pv P Q.1)) (smul3 t1 (Triplet.pv P Q.2.1))) (smul3 t2 (Triplet.pv P Q.2.2)) := by
  simp only [Triplet.pv]
  generalize inv3 P = B
  obtain ⟨⟨a0, a1, a2⟩, ⟨b0, b1, b2⟩, ⟨c0, c1, c2⟩⟩ := B
  obtain ⟨⟨x0, x1, x2⟩, ⟨y0, y1, y2⟩, ⟨z0, z1, z2⟩⟩ := Q
  simp only [vecMat, comb3, add3, smul3]
  refine Prod.ext ?_ (Prod.ext ?_ ?_) <;> simp only <;> ring

theorem coord_add3 (u v : Vec3 ℝ) (i : Fin 3) : coord (add3 u v) i = coord u i + coord v i := by
  fin_cases i <;> rfl

theorem coord_smul3 (k : ℝ) (v : Vec3 ℝ) (i : Fin 3) : coord (smul3 k v) i = k * coord v i := by
  fin_cases i <;> rfl

/-- the coordinates of a row of `P` in the basis `P` -/
theorem pv_row (P : Mat3 ℝ) (hP : det3 P ≠ 0) (k i : Fin 3) :
    coord (Triplet.pv P (row P k)) i = if i = k then 1 else 0 := by
  have e0 : comb3 1 0 0 P = P.1 := by
    obtain ⟨⟨a0, a1, a2⟩, ⟨b0, b1, b2⟩, ⟨c0, c1, c2⟩⟩ := P
    simp [comb3, add3, smul3]
  have e1 : comb3 0 1 0 P = P.2.1 := by
    obtain ⟨⟨a0, a1, a2⟩, ⟨b0, b1, b2⟩, ⟨c0, c1, c2⟩⟩ := P
    simp [comb3, add3, smul3]
  have e2 : comb3 0 0 1 P = P.2.2 := by
    obtain ⟨⟨a0, a1, a2⟩, ⟨b0, b1, b2⟩, ⟨c0, c1, c2⟩⟩ := P
    simp [comb3, add3, smul3]
  have h0 := pv_comb3 P hP 1 0 0
  have h1 := pv_comb3 P hP 0 1 0
  have h2 := pv_comb3 P hP 0 0 1
  rw [e0] at h0; rw [e1] at h1; rw [e2] at h2
  fin_cases k <;> fin_cases i <;> simp [row, coord, h0, h1, h2]

/-- the coordinates of a common direction in the two bases: `s_i = Σ_j t_j · (y_j in the basis P)_i` -/
theorem pv_change (P Q : Mat3 ℝ) (hQ : det3 Q ≠ 0) (p : Vec3 ℝ) (i : Fin 3) :
    coord (Triplet.pv P p) i = ∑ j : Fin 3, coord (Triplet.pv Q p) j * coord (Triplet.pv P (row Q j)) i := by
  have e := comb3_pv Q hQ p
  conv_lhs => rw [← e, pv_linear]
  simp only [coord_add3, coord_smul3, Fin.sum_univ_three, row]
  rfl

theorem plane_identity (P Q : Mat3 ℝ) (hP : det3 P ≠ 0) (hQ : det3 Q ≠ 0) (n p : Vec3 ℝ) :
    ∑ i : Fin 3, coord (Triplet.pv P p) i * dot3 n (row P i) = ∑ j : Fin 3, coord (Triplet.pv Q p) j * dot3 n (row Q j) := by
  have h1 := dot3_comb3 n (Triplet.pv P p).1 (Triplet.pv P p).2.1 (Triplet.pv P p).2.2 P
  have h2 := dot3_comb3 n (Triplet.pv Q p).1 (Triplet.pv Q p).2.1 (Triplet.pv Q p).2.2 Q
  rw [comb3_pv P hP p] at h1
  rw [comb3_pv Q hQ p] at h2
  simp only [Fin.sum_univ_three, row, coord]
  rw [← h1, ← h2]

/-- the coefficient of a row of `Q` strictly on the negative side of the plane is `O(e)` -/
theorem far_bound (s0 s1 s2 t0 t1 t2 a0 a1 a2 b0 b1 b2 e κ : ℝ)
    (hs0 : -e ≤ s0) (hs1 : -e ≤ s1) (hs2 : -e ≤ s2) (ht1 : -e ≤ t1) (ht2 : -e ≤ t2)
    (ha0 : 0 ≤ a0) (ha1 : 0 ≤ a1) (ha2 : 0 ≤ a2) (hb0 : b0 < 0) (hb1 : b1 ≤ 0) (hb2 : b2 ≤ 0) (he : 0 ≤ e)
    (hplane : s0 * a0 + s1 * a1 + s2 * a2 = t0 * b0 + t1 * b1 + t2 * b2)
    (hκ : (a0 + a1 + a2) + -(b0 + b1 + b2) ≤ κ * -b0) : t0 ≤ κ * e := by
  have p0 : -e * a0 ≤ s0 * a0 := mul_le_mul_of_nonneg_right hs0 ha0
  have p1 : -e * a1 ≤ s1 * a1 := mul_le_mul_of_nonneg_right hs1 ha1
  have p2 : -e * a2 ≤ s2 * a2 := mul_le_mul_of_nonneg_right hs2 ha2
  have q1 : t1 * b1 ≤ -e * b1 := mul_le_mul_of_nonpos_right ht1 hb1
  have q2 : t2 * b2 ≤ -e * b2 := mul_le_mul_of_nonpos_right ht2 hb2
  have hκe : e * ((a0 + a1 + a2) + -(b0 + b1 + b2)) ≤ e * (κ * -b0) := mul_le_mul_of_nonneg_left hκ he
  have heb : 0 ≤ e * -b0 := mul_nonneg he (by linarith)
  by_contra hcon
  rw [not_le] at hcon
  have : 0 < (t0 - κ * e) * -b0 := mul_pos (by linarith) (by linarith)
  nlinarith

/-- **THE SLIVER BOUND FOR TWO TRIPLETS IN ANY ARRANGEMENT** (slack `e`, i.e. threshold `−e`).
    `P`, `Q` invertible; row `j` of `Q` is matched with row `σ j` of `P` (`σ` a permutation); a row of `Q` that is not `far`
    IS the row of `P` it is matched with (a shared loudspeaker); a plane `n` has the rows of `P` on the non-negative side
    and the rows of `Q` on the non-positive side, the `far` rows of `Q` strictly, with
    `Σ_i n·P_i + Σ_j |n·Q_j| ≤ κ·|n·Q_j|` for every far `j`; the coordinates of the far rows of `Q` in the basis `P` are at
    most `α`.  At a direction `p` that BOTH accept with slack `e`, with `‖pv‖ ≥ m > 0` for both: the gains of matched rows
    differ by at most `3·(3α+1)·κ·e/m`, and the gains on both rows of a far pair are at most that.
    (No shared row: the cones are disjoint; one: slivers around a shared vertex; two: around a shared edge.) -/
theorem pair_gain_bound (P Q : Mat3 ℝ) (hP : det3 P ≠ 0) (hQ : det3 Q ≠ 0) (n : Vec3 ℝ)
    (σ : Fin 3 → Fin 3) (hσ : Function.Injective σ) (far : Fin 3 → Prop)
    (hshared : ∀ j, ¬ far j → row Q j = row P (σ j))
    (ha : ∀ i, 0 ≤ dot3 n (row P i)) (hb : ∀ j, dot3 n (row Q j) ≤ 0) (hfar : ∀ j, far j → dot3 n (row Q j) < 0)
    (κ α e m : ℝ) (hκ1 : 1 ≤ κ) (hα : 0 ≤ α) (he : 0 ≤ e) (hm : 0 < m)
    (hκ : ∀ j, far j → (∑ i : Fin 3, dot3 n (row P i)) + -(∑ k : Fin 3, dot3 n (row Q k)) ≤ κ * -dot3 n (row Q j))
    (hαb : ∀ j, far j → ∀ i, |coord (Triplet.pv P (row Q j)) i| ≤ α)
    (p : Vec3 ℝ) (hacc : Triplet.acceptsE (-e) P p) (hacc' : Triplet.acceptsE (-e) Q p)
    (hmP : m * m ≤ nsq (Triplet.pv P p)) (hmQ : m * m ≤ nsq (Triplet.pv Q p)) :
    ∀ j, |coord (Triplet.gains P p) (σ j) - coord (Triplet.gains Q p) j| ≤ 3 * ((3 * α + 1) * κ * e) / m ∧
      (far j → coord (Triplet.gains P p) (σ j) ≤ 3 * ((3 * α + 1) * κ * e) / m ∧
        coord (Triplet.gains Q p) j ≤ 3 * ((3 * α + 1) * κ * e) / m) := by
  set s : Fin 3 → ℝ := fun i => coord (Triplet.pv P p) i with hsdef
  set t : Fin 3 → ℝ := fun j => coord (Triplet.pv Q p) j with htdef
  have hs : ∀ i, -e ≤ s i := by
    intro i; obtain ⟨h0, h1, h2⟩ := hacc
    fin_cases i <;> simp only [hsdef, coord] <;> assumption
  have ht : ∀ j, -e ≤ t j := by
    intro j; obtain ⟨h0, h1, h2⟩ := hacc'
    fin_cases j <;> simp only [htdef, coord] <;> assumption
  have hplane := plane_identity P Q hP hQ n p
  simp only [Fin.sum_univ_three] at hplane
  -- far rows: |t j| ≤ κ e
  have hκe : 0 ≤ κ * e := mul_nonneg (by linarith) he
  have hup : ∀ j, far j → t j ≤ κ * e := by
    have f0 : far 0 → t 0 ≤ κ * e := by
      intro hj
      have hκj := hκ 0 hj
      simp only [Fin.sum_univ_three] at hκj
      exact far_bound (s 0) (s 1) (s 2) (t 0) (t 1) (t 2) _ _ _ _ _ _ e κ (hs 0) (hs 1) (hs 2) (ht 1) (ht 2)
        (ha 0) (ha 1) (ha 2) (hfar 0 hj) (hb 1) (hb 2) he hplane hκj
    have f1 : far 1 → t 1 ≤ κ * e := by
      intro hj
      have hκj := hκ 1 hj
      simp only [Fin.sum_univ_three] at hκj
      exact far_bound (s 0) (s 1) (s 2) (t 1) (t 0) (t 2) _ _ _ _ _ _ e κ (hs 0) (hs 1) (hs 2) (ht 0) (ht 2)
        (ha 0) (ha 1) (ha 2) (hfar 1 hj) (hb 0) (hb 2) he (by rw [hplane]; ring) (by linarith)
    have f2 : far 2 → t 2 ≤ κ * e := by
      intro hj
      have hκj := hκ 2 hj
      simp only [Fin.sum_univ_three] at hκj
      exact far_bound (s 0) (s 1) (s 2) (t 2) (t 0) (t 1) _ _ _ _ _ _ e κ (hs 0) (hs 1) (hs 2) (ht 0) (ht 1)
        (ha 0) (ha 1) (ha 2) (hfar 2 hj) (hb 0) (hb 1) he (by rw [hplane]; ring) (by linarith)
    intro j hj
    fin_cases j
    · exact f0 hj
    · exact f1 hj
    · exact f2 hj
  have htfar : ∀ j, far j → |t j| ≤ κ * e := by
    intro j hj
    rw [abs_le]
    refine ⟨?_, hup j hj⟩
    have := ht j
    have : e ≤ κ * e := le_mul_of_one_le_left he hκ1
    linarith
  -- matched coordinates differ by at most δ
  set δ := (3 * α + 1) * κ * e with hδ
  have hδ0 : 0 ≤ δ := by rw [hδ]; exact mul_nonneg (mul_nonneg (by linarith) (by linarith)) he
  have hdiff : ∀ j0, |s (σ j0) - t j0| ≤ δ := by
    intro j0
    have e1 : s (σ j0) = ∑ j : Fin 3, t j * coord (Triplet.pv P (row Q j)) (σ j0) := pv_change P Q hQ p (σ j0)
    have e2 : t j0 = ∑ j : Fin 3, t j * (if j = j0 then 1 else 0) := by
      simp [Finset.sum_ite_eq']
    have e3 : s (σ j0) - t j0 = ∑ j : Fin 3, t j * (coord (Triplet.pv P (row Q j)) (σ j0) - if j = j0 then 1 else 0) := by
      rw [e1, e2, ← Finset.sum_sub_distrib]
      apply Finset.sum_congr rfl
      intro j _; ring
    rw [e3]
    refine le_trans (Finset.abs_sum_le_sum_abs _ _) ?_
    have hterm : ∀ j : Fin 3, |t j * (coord (Triplet.pv P (row Q j)) (σ j0) - if j = j0 then 1 else 0)| ≤
        κ * e * (α + if j = j0 then 1 else 0) := by
      intro j
      by_cases hj : far j
      · rw [abs_mul]
        have h1 := htfar j hj
        have h2 : |coord (Triplet.pv P (row Q j)) (σ j0) - if j = j0 then 1 else 0| ≤ α + if j = j0 then 1 else 0 := by
          refine le_trans (abs_sub _ _) ?_
          have := hαb j hj (σ j0)
          split_ifs <;> simp <;> linarith
        exact mul_le_mul h1 h2 (abs_nonneg _) hκe
      · rw [hshared j hj, pv_row P hP (σ j) (σ j0)]
        have : (if σ j0 = σ j then (1 : ℝ) else 0) = if j = j0 then 1 else 0 := by
          by_cases h : j = j0
          · simp [h]
          · have : σ j0 ≠ σ j := fun hh => h (hσ hh).symm
            simp [h, this]
        rw [this, sub_self, mul_zero, abs_zero]
        exact mul_nonneg hκe (by split_ifs <;> linarith)
    refine le_trans (Finset.sum_le_sum fun j _ => hterm j) ?_
    rw [← Finset.mul_sum, Finset.sum_add_distrib]
    simp only [Finset.sum_const, Finset.card_univ, Fintype.card_fin, Finset.sum_ite_eq', Finset.mem_univ, if_true,
      nsmul_eq_mul, Nat.cast_ofNat]
    rw [hδ]; ring_nf; rfl
  -- the norms
  have hbij := hσ.bijective_of_finite
  have hnP : nsq (Triplet.pv P p) = ∑ j : Fin 3, s (σ j) * s (σ j) := by
    rw [hbij.sum_comp (fun i => s i * s i)]
    simp only [Fin.sum_univ_three, hsdef, coord, nsq]
  have hnQ : nsq (Triplet.pv Q p) = ∑ j : Fin 3, t j * t j := by
    simp only [Fin.sum_univ_three, htdef, coord, nsq]
  simp only [Fin.sum_univ_three] at hnP hnQ
  have hnP0 : 0 ≤ nsq (Triplet.pv P p) := by rw [hnP]; nlinarith [mul_self_nonneg (s (σ 0)), mul_self_nonneg (s (σ 1)), mul_self_nonneg (s (σ 2))]
  have hnQ0 : 0 ≤ nsq (Triplet.pv Q p) := by rw [hnQ]; nlinarith [mul_self_nonneg (t 0), mul_self_nonneg (t 1), mul_self_nonneg (t 2)]
  set a := Real.sqrt (nsq (Triplet.pv P p)) with hadef
  set b := Real.sqrt (nsq (Triplet.pv Q p)) with hbdef
  have hma : m ≤ a := Real.le_sqrt_of_sq_le (by rw [pow_two]; exact hmP)
  have hmb : m ≤ b := Real.le_sqrt_of_sq_le (by rw [pow_two]; exact hmQ)
  have hapos : 0 < a := lt_of_lt_of_le hm hma
  have hbpos : 0 < b := lt_of_lt_of_le hm hmb
  have haa : a * a = s (σ 0) * s (σ 0) + s (σ 1) * s (σ 1) + s (σ 2) * s (σ 2) := by
    rw [← hnP]; exact Real.mul_self_sqrt hnP0
  have hbb : b * b = t 0 * t 0 + t 1 * t 1 + t 2 * t 2 := by
    rw [← hnQ]; exact Real.mul_self_sqrt hnQ0
  obtain ⟨l0, l1, l2⟩ := normalise_lipschitz (s (σ 0)) (s (σ 1)) (s (σ 2)) (t 0) (t 1) (t 2) a b δ hapos hbpos haa hbb
    (hdiff 0) (hdiff 1) (hdiff 2)
  have hcg : ∀ (R : Mat3 ℝ) (i : Fin 3), coord (Triplet.gains R p) i =
      clip01 (coord (Triplet.pv R p) i / Real.sqrt (nsq (Triplet.pv R p))) := by
    intro R i; rw [gains_eq]; fin_cases i <;> rfl
  have h3 : 3 * δ / a ≤ 3 * δ / m := div_le_div_of_nonneg_left (by linarith) hm hma
  have hl : ∀ j, |s (σ j) / a - t j / b| ≤ 3 * δ / a := by
    intro j; fin_cases j
    · exact l0
    · exact l1
    · exact l2
  intro j
  refine ⟨?_, fun hj => ⟨?_, ?_⟩⟩
  · rw [hcg P (σ j), hcg Q j]
    exact le_trans (clip01_lipschitz _ _) (le_trans (hl j) h3)
  · rw [hcg P (σ j)]
    refine le_trans (clip01_le_abs _) ?_
    show |s (σ j) / a| ≤ 3 * δ / m
    rw [abs_div, abs_of_pos hapos]
    have h1 : |s (σ j)| ≤ 2 * δ := by
      have e1 : s (σ j) = (s (σ j) - t j) + t j := by ring
      rw [e1]
      refine le_trans (abs_add_le _ _) ?_
      have h2 := htfar j hj
      have h4 : κ * e ≤ δ := by
        rw [hδ]
        have : κ * e ≤ (3 * α + 1) * (κ * e) := le_mul_of_one_le_left hκe (by linarith)
        linarith
      have := hdiff j
      linarith
    calc |s (σ j)| / a ≤ 2 * δ / a := div_le_div_of_nonneg_right h1 hapos.le
      _ ≤ 2 * δ / m := div_le_div_of_nonneg_left (by linarith) hm hma
      _ ≤ 3 * δ / m := div_le_div_of_nonneg_right (by linarith) hm.le
  · rw [hcg Q j]
    refine le_trans (clip01_le_abs _) ?_
    show |t j / b| ≤ 3 * δ / m
    rw [abs_div, abs_of_pos hbpos]
    have h2 := htfar j hj
    have h4 : κ * e ≤ δ := by
      rw [hδ]
      have : κ * e ≤ (3 * α + 1) * (κ * e) := le_mul_of_one_le_left hκe (by linarith)
      linarith
    calc |t j| / b ≤ δ / b := div_le_div_of_nonneg_right (by linarith) hbpos.le
      _ ≤ δ / m := div_le_div_of_nonneg_left hδ0 hm hmb
      _ ≤ 3 * δ / m := div_le_div_of_nonneg_right (by linarith) hm.le

/-! ### from gains to output channels -/

/-- the remapped output of a triplet with three distinct channels, channel by channel -/
theorem tripletOut_sum (n : Nat) (r : TRegion) (hch : r.chOk) (p : Vec3 ℝ) (c : Nat) :
    (tripletOut n r p).getD c 0 =
      ∑ i : Fin 3, if c = chanAt r.1 i ∧ c < n then coord (Triplet.gains r.2 p) i else 0 := by
  obtain ⟨c0, c1, c2, hc, h01, h02, h12⟩ := hch
  unfold tripletOut
  rw [hc]
  generalize Triplet.gains r.2 p = g
  obtain ⟨g0, g1, g2⟩ := g
  simp only [vecList, scatter3_getD, Fin.sum_univ_three, chanAt, coord, Fin.val_zero, Fin.val_one, Fin.val_two,
    List.getD_cons_zero, List.getD_cons_succ]
  split_ifs <;> first | (simp; done) | (exfalso; omega)

/-- OUTPUT BOUND.  Two triplets with three distinct channels each, rows matched by a permutation `σ`, shared (not `far`)
    rows on the same channel; matched gains within `η'` of each other, gains of far rows at most `η'`: every output
    channel differs by at most `6·η'`. -/
theorem tripletOut_diff_bound (n : Nat) (X Y : TRegion) (hX : X.chOk) (hY : Y.chOk) (σ : Fin 3 → Fin 3)
    (hσ : Function.Injective σ) (far : Fin 3 → Prop) (hch : ∀ j, ¬ far j → chanAt Y.1 j = chanAt X.1 (σ j))
    (p : Vec3 ℝ) (η' : ℝ)
    (hg : ∀ j, |coord (Triplet.gains X.2 p) (σ j) - coord (Triplet.gains Y.2 p) j| ≤ η' ∧
      (far j → coord (Triplet.gains X.2 p) (σ j) ≤ η' ∧ coord (Triplet.gains Y.2 p) j ≤ η')) (c : Nat) :
    |(tripletOut n X p).getD c 0 - (tripletOut n Y p).getD c 0| ≤ 6 * η' := by
  have hη : 0 ≤ η' := le_trans (abs_nonneg _) (hg 0).1
  have hnn : ∀ (R : Mat3 ℝ) (i : Fin 3), 0 ≤ coord (Triplet.gains R p) i := by
    intro R i; fin_cases i <;> exact clip01_nonneg _
  rw [tripletOut_sum n X hX p c, tripletOut_sum n Y hY p c,
    ← hσ.bijective_of_finite.sum_comp (fun i => if c = chanAt X.1 i ∧ c < n then coord (Triplet.gains X.2 p) i else 0),
    ← Finset.sum_sub_distrib]
  refine le_trans (Finset.abs_sum_le_sum_abs _ _) ?_
  have hterm : ∀ j : Fin 3, |(if c = chanAt X.1 (σ j) ∧ c < n then coord (Triplet.gains X.2 p) (σ j) else 0) -
      (if c = chanAt Y.1 j ∧ c < n then coord (Triplet.gains Y.2 p) j else 0)| ≤ 2 * η' := by
    intro j
    by_cases hj : far j
    · obtain ⟨_, h1, h2⟩ := hg j |>.imp id (fun h => h hj)
      have n1 := hnn X.2 (σ j)
      have n2 := hnn Y.2 j
      split_ifs <;> rw [abs_le] <;> constructor <;> linarith
    · rw [hch j hj]
      have := (hg j).1
      split_ifs
      · linarith
      · simp; linarith
  refine le_trans (Finset.sum_le_sum fun j _ => hterm j) ?_
  simp only [Finset.sum_const, Finset.card_univ, Fintype.card_fin, nsmul_eq_mul, Nat.cast_ofNat]
  linarith

/-- the separating-plane data of a pair of triplets, as used by `pair_gain_bound` -/
structure PairData (X Y : TRegion) (α κ : ℝ) : Prop where
  detX : det3 X.2 ≠ 0
  detY : det3 Y.2 ≠ 0
  ex : ∃ (n : Vec3 ℝ) (σ : Fin 3 → Fin 3) (far : Fin 3 → Prop), Function.Injective σ ∧
    (∀ j, ¬ far j → row Y.2 j = row X.2 (σ j) ∧ chanAt Y.1 j = chanAt X.1 (σ j)) ∧
    (∀ i, 0 ≤ dot3 n (row X.2 i)) ∧ (∀ j, dot3 n (row Y.2 j) ≤ 0) ∧ (∀ j, far j → dot3 n (row Y.2 j) < 0) ∧
    (∀ j, far j → (∑ i : Fin 3, dot3 n (row X.2 i)) + -(∑ k : Fin 3, dot3 n (row Y.2 k)) ≤ κ * -dot3 n (row Y.2 j)) ∧
    (∀ j, far j → ∀ i, |coord (Triplet.pv X.2 (row Y.2 j)) i| ≤ α)

/-- rows of norm about 1 -/
def TRegion.rowsOk (r : TRegion) : Prop := nsq r.2.1 + nsq r.2.2.1 + nsq r.2.2.2 ≤ 4

/-- **THE SLIVER BOUND FOR THE CODE'S THRESHOLD, ANY ARRANGEMENT.**  Two triplets with `PairData` (constants `α`, `κ`), rows
    of norm about 1, a direction of norm about 1 at which `Triplet.handle` of BOTH returns a result: every output channel
    of the two remapped results differs by at most `45·(3α+1)·κ·1e-11`. -/
theorem pair_out_bound (n : Nat) (X Y : TRegion) (hX : X.chOk) (hY : Y.chOk) (hrX : X.rowsOk) (hrY : Y.rowsOk)
    (α κ : ℝ) (hκ1 : 1 ≤ κ) (hα : 0 ≤ α) (hd : PairData X Y α κ) (p : Vec3 ℝ) (hp : 3 / 4 ≤ nsq p)
    (hx : Triplet.handle X.2 p ≠ none) (hy : Triplet.handle Y.2 p ≠ none) (c : Nat) :
    |(tripletOut n X p).getD c 0 - (tripletOut n Y p).getD c 0| ≤ 45 * ((3 * α + 1) * κ) * (1 / 100000000000) := by
  obtain ⟨gx, hgx⟩ := Option.ne_none_iff_exists'.mp hx
  obtain ⟨gy, hgy⟩ := Option.ne_none_iff_exists'.mp hy
  obtain ⟨hacc, _⟩ := handle_some_iff hgx
  obtain ⟨hacc', _⟩ := handle_some_iff hgy
  obtain ⟨n', σ, far, hσ, hsh, ha, hb, hfar, hκ, hαb⟩ := hd.ex
  have lower : ∀ R : Mat3 ℝ, det3 R ≠ 0 → nsq R.1 + nsq R.2.1 + nsq R.2.2 ≤ 4 → (2 / 5 : ℝ) * (2 / 5) ≤ nsq (Triplet.pv R p) := by
    intro R hR h4
    have h1 := pv_norm_lower R hR p
    have hn : 0 ≤ nsq (Triplet.pv R p) := by
      simp only [nsq]
      nlinarith [mul_self_nonneg (Triplet.pv R p).1, mul_self_nonneg (Triplet.pv R p).2.1, mul_self_nonneg (Triplet.pv R p).2.2]
    nlinarith
  have main := pair_gain_bound X.2 Y.2 hd.detX hd.detY n' σ hσ far (fun j hj => (hsh j hj).1) ha hb hfar κ α
    (1 / 100000000000) (2 / 5) hκ1 hα (by norm_num) (by norm_num) hκ hαb p hacc hacc'
    (lower X.2 hd.detX hrX) (lower Y.2 hd.detY hrY)
  have := tripletOut_diff_bound n X Y hX hY σ hσ far (fun j hj => (hsh j hj).2) p _ main c
  refine le_trans this (le_of_eq ?_)
  ring

/-! ### soundness of the checker, part A: one pair of literal cells (no table) -/

namespace Faces
open Cover

/-- the scaled integer vector `w = v·2^K` back as a real vector -/
noncomputable def unscale (K : Nat) (w : IV) : Vec3 ℝ := smul3 (((2 : ℝ) ^ K)⁻¹) (castV w)

/-- the real triplet of a literal cell: local channels and unscaled rows -/
noncomputable def cellReal (K : Nat) (c : RCell) : TRegion :=
  (c.lch, (unscale K (rowAt c 0), unscale K (rowAt c 1), unscale K (rowAt c 2)))

/-- panner output channel of row `i` of a literal cell -/
def gOf (c : RCell) : Fin 3 → Option Nat := fun i => c.gch.getD i.1 none

theorem row_cellReal (K : Nat) (c : RCell) (i : Fin 3) : row (cellReal K c).2 i = unscale K (rowAt c i.1) := by
  fin_cases i <;> rfl

theorem pow2_inv_pos (K : Nat) : 0 < ((2 : ℝ) ^ K)⁻¹ := inv_pos.mpr (by positivity)

theorem dot3_unscale (K : Nat) (n w : IV) :
    dot3 (castV n) (unscale K w) = ((2 : ℝ) ^ K)⁻¹ * ((idot n w : ℤ) : ℝ) := by
  simp only [unscale, dot3, castV, smul3, idot]; push_cast; ring

theorem det3_unscale (K : Nat) (a b c : IV) :
    det3 (unscale K a, unscale K b, unscale K c) = (((2 : ℝ) ^ K)⁻¹) ^ 3 * ((idet a b c : ℤ) : ℝ) := by
  simp only [unscale]
  rw [det3_smul, det3_cast]

theorem castV_inj {a b : IV} (h : castV a = castV b) : a = b := by
  obtain ⟨a0, a1, a2⟩ := a
  obtain ⟨b0, b1, b2⟩ := b
  simp only [castV, Prod.mk.injEq] at h
  obtain ⟨h0, h1, h2⟩ := h
  simp only [Prod.mk.injEq]
  exact ⟨by exact_mod_cast h0, by exact_mod_cast h1, by exact_mod_cast h2⟩

/-- what `cellOk` says -/
structure CellSpec (K : Nat) (c : RCell) : Prop where
  det : det3 (cellReal K c).2 ≠ 0
  chOk : (cellReal K c).chOk
  rowsOk : (cellReal K c).rowsOk
  g0 : ∃ a, gOf c 0 = some a
  g1 : ∃ a, gOf c 1 = some a
  gtri : c.kind = 0 → ∀ i : Fin 3, gOf c i = some (chanAt c.lch i)

theorem allDistinct3 {a b c : Nat} (h : allDistinct [a, b, c] = true) : a ≠ b ∧ a ≠ c ∧ b ≠ c := by
  simp only [allDistinct, List.contains_cons, List.contains_nil, Bool.or_false, Bool.and_true, Bool.and_eq_true,
    Bool.not_eq_true', Bool.or_eq_false_iff, beq_eq_false_iff_ne, ne_eq] at h
  obtain ⟨⟨h1, h2⟩, h3⟩ := h
  exact ⟨h1, h2, h3.1⟩

theorem nsq_unscale (K : Nat) (w : IV) : nsq (unscale K w) = (((2 : ℝ) ^ K)⁻¹) ^ 2 * ((idot w w : ℤ) : ℝ) := by
  simp only [nsq, unscale, smul3, castV, idot]; push_cast; ring

theorem cellOk_sound (K : Nat) (c : RCell) (h : cellOk K c = true) : CellSpec K c := by
  simp only [cellOk, Bool.and_eq_true, beq_iff_eq, bne_iff_ne, ne_eq, decide_eq_true_eq, Bool.or_eq_true,
    Option.isSome_iff_exists] at h
  obtain ⟨⟨⟨⟨⟨⟨⟨⟨hr, hl⟩, hg⟩, hd⟩, g0⟩, g1⟩, gt⟩, hdet⟩, hn⟩ := h
  refine ⟨?_, ?_, ?_, g0, g1, ?_⟩
  · simp only [cellReal]
    rw [det3_unscale]
    have : ((idet (rowAt c 0) (rowAt c 1) (rowAt c 2) : ℤ) : ℝ) ≠ 0 := by exact_mod_cast hdet
    exact mul_ne_zero (pow_ne_zero _ (pow2_inv_pos K).ne') this
  · match hc : c.lch, hl with
    | [c0, c1, c2], _ =>
      rw [hc] at hd
      obtain ⟨h01, h02, h12⟩ := allDistinct3 hd
      exact ⟨c0, c1, c2, by simp [cellReal, hc], h01, h02, h12⟩
  · simp only [TRegion.rowsOk, cellReal, nsq_unscale]
    have h1 : (((idot (rowAt c 0) (rowAt c 0) + idot (rowAt c 1) (rowAt c 1) + idot (rowAt c 2) (rowAt c 2) : ℤ)) : ℝ) ≤
        4 * (2 : ℝ) ^ (2 * K) := by exact_mod_cast hn
    push_cast at h1
    have e : (((2 : ℝ) ^ K)⁻¹) ^ 2 * (2 : ℝ) ^ (2 * K) = 1 := by
      rw [pow_mul', ← mul_pow, inv_mul_cancel₀ (by positivity), one_pow]
    have hpos : 0 ≤ (((2 : ℝ) ^ K)⁻¹) ^ 2 := by positivity
    nlinarith
  · intro hk i
    rcases gt with hk' | hgl
    · exact absurd hk (by simpa using hk')
    · simp only [gOf, hgl, chanAt]
      have : i.1 < c.lch.length := by rw [hl]; exact i.2
      simp [List.getD_eq_getElem?_getD, List.getElem?_eq_getElem this]

/-- two rows are the same loudspeaker: same position, same channel (inside one region: the region's own channel numbers;
    across regions: the panner's output channel, which the virtual centre of an n-gon does not have) -/
def Sh (X Y : RCell) (a a' : Fin 3) : Prop :=
  rowAt X a.1 = rowAt Y a'.1 ∧
    (if X.region = Y.region then chanAt X.lch a = chanAt Y.lch a' else ∃ c, gOf X a = some c ∧ gOf Y a' = some c)

theorem sharedOk_sound (X Y : RCell) (s : Nat × Nat) (h : sharedOk X Y s = true) :
    ∃ (a a' : Fin 3), a.1 = s.1 ∧ a'.1 = s.2 ∧ Sh X Y a a' := by
  simp only [sharedOk, Bool.and_eq_true, decide_eq_true_eq, beq_iff_eq] at h
  obtain ⟨⟨⟨h1, h2⟩, hrow⟩, hch⟩ := h
  refine ⟨⟨s.1, h1⟩, ⟨s.2, h2⟩, rfl, rfl, hrow, ?_⟩
  by_cases hreg : X.region = Y.region
  · rw [if_pos hreg] at hch
    rw [if_pos hreg]
    exact beq_iff_eq.mp hch
  · rw [if_neg hreg] at hch
    simp only [hreg, if_false, gOf]
    split at hch
    · rename_i a b ha hb
      simp only [beq_iff_eq] at hch
      exact ⟨a, ha, by rw [hb, hch]⟩
    · exact absurd hch (by simp)

/-- what `pairOk` says about the two cells it names -/
structure PairSpec (α κ : Nat) (X Y : RCell) (pc : PairCert) : Prop where
  len : pc.shared.length ≤ 2
  dx : allDistinct (pc.shared.map (·.1)) = true
  dy : allDistinct (pc.shared.map (·.2)) = true
  sh : ∀ s ∈ pc.shared, sharedOk X Y s = true
  perm : isPermOfRange pc.perm 3 = true
  permsh : ∀ s ∈ pc.shared, pc.perm.getD s.2 3 = s.1
  sx : ∀ k < 3, if (pc.shared.map (·.1)).contains k then idot (normalOf X pc) (rowAt X k) = 0
    else 0 < idot (normalOf X pc) (rowAt X k)
  sy : ∀ k < 3, if (pc.shared.map (·.2)).contains k then idot (normalOf X pc) (rowAt Y k) = 0
    else idot (normalOf X pc) (rowAt Y k) < 0
  consts : X.kind = 0 → Y.kind = 0 →
    kappaOk κ X Y (normalOf X pc) (pc.shared.map (·.2)) = true ∧ alphaOk α X Y (pc.shared.map (·.2)) = true

theorem pairOk_sound (α κ : Nat) (cells : List RCell) (pc : PairCert) (h : pairOk α κ cells pc = true) :
    ∃ X Y, cells[pc.x]? = some X ∧ cells[pc.y]? = some Y ∧ PairSpec α κ X Y pc := by
  unfold pairOk at h
  split at h
  · rename_i X Y hX hY
    refine ⟨X, Y, hX, hY, ?_⟩
    simp only [Bool.and_eq_true, decide_eq_true_eq, List.all_eq_true, beq_iff_eq, List.mem_range, Bool.or_eq_true,
      Bool.not_eq_true', Bool.and_eq_false_iff] at h
    obtain ⟨⟨⟨⟨⟨⟨⟨⟨h1, h2⟩, h3⟩, h4⟩, h5⟩, h6⟩, h7⟩, h8⟩, h9⟩ := h
    refine ⟨h1, h2, h3, h4, h5, h6, ?_, ?_, ?_⟩
    · intro k hk
      have := h7 k hk
      split at this
      · rename_i hc; rw [if_pos hc]; exact beq_iff_eq.mp this
      · rename_i hc; rw [if_neg hc]; exact of_decide_eq_true this
    · intro k hk
      have := h8 k hk
      split at this
      · rename_i hc; rw [if_pos hc]; exact beq_iff_eq.mp this
      · rename_i hc; rw [if_neg hc]; exact of_decide_eq_true this
    · intro kx ky
      rcases h9 with h | h
      · rcases h with h | h
        · rw [kx] at h; simp at h
        · rw [ky] at h; simp at h
      · exact h
  · exact absurd h (by simp)

theorem unscale_eq_of (K : Nat) {a b : IV} (h : a = b) : unscale K a = unscale K b := by rw [h]

/-- the other real loudspeaker row of a cell: `1` for row `0`, else `0` -/
def otherRow (a : Fin 3) : Fin 3 := if a = 0 then 1 else 0

theorem otherRow_ne (a : Fin 3) : a ≠ otherRow a := by
  fin_cases a <;> simp [otherRow]

theorem otherRow_outer (a : Fin 3) : otherRow a = 0 ∨ otherRow a = 1 := by
  fin_cases a <;> simp [otherRow]

theorem gOf_outer {K : Nat} {c : RCell} (hc : CellSpec K c) (a : Fin 3) : ∃ x, gOf c (otherRow a) = some x := by
  rcases otherRow_outer a with h | h <;> rw [h]
  · exact hc.g0
  · exact hc.g1

/-- **one checked pair: the two cells meet only in a shared face** -/
theorem pair_meet (K : Nat) (α κ : Nat) (X Y : RCell) (pc : PairCert) (hX : CellSpec K X) (hY : CellSpec K Y)
    (h : PairSpec α κ X Y pc) :
    (X.region = Y.region → MeetInSharedFace (cellReal K X) (cellReal K Y)) ∧
    (X.region ≠ Y.region → MeetInOuterFaceG (gOf X) (cellReal K X) (gOf Y) (cellReal K Y)) := by
  set n : Vec3 ℝ := castV (normalOf X pc) with hn
  have hdX : ∀ k : Fin 3, dot3 n (row (cellReal K X).2 k) = ((2 : ℝ) ^ K)⁻¹ * ((idot (normalOf X pc) (rowAt X k.1) : ℤ) : ℝ) :=
    fun k => by rw [row_cellReal, dot3_unscale]
  have hdY : ∀ k : Fin 3, dot3 n (row (cellReal K Y).2 k) = ((2 : ℝ) ^ K)⁻¹ * ((idot (normalOf X pc) (rowAt Y k.1) : ℤ) : ℝ) :=
    fun k => by rw [row_cellReal, dot3_unscale]
  have ip := pow2_inv_pos K
  have pos_of : ∀ z : ℤ, 0 < z → 0 < ((2 : ℝ) ^ K)⁻¹ * (z : ℝ) := fun z hz => mul_pos ip (by exact_mod_cast hz)
  have neg_of : ∀ z : ℤ, z < 0 → ((2 : ℝ) ^ K)⁻¹ * (z : ℝ) < 0 := fun z hz => mul_neg_of_pos_of_neg ip (by exact_mod_cast hz)
  have zero_of : ∀ z : ℤ, z = 0 → ((2 : ℝ) ^ K)⁻¹ * (z : ℝ) = 0 := fun z hz => by rw [hz]; simp
  have rowsh : ∀ a a' : Fin 3, Sh X Y a a' → row (cellReal K X).2 a = row (cellReal K Y).2 a' := by
    intro a a' hs; rw [row_cellReal, row_cellReal, hs.1]
  match hsl : pc.shared, h.len with
  | [], _ =>
    have hsx := h.sx; have hsy := h.sy
    simp only [hsl, List.map_nil, List.contains_nil, Bool.false_eq_true, if_false] at hsx hsy
    have key : ∀ p, Triplet.acceptsE 0 (cellReal K X).2 p → Triplet.acceptsE 0 (cellReal K Y).2 p → p = (0, 0, 0) :=
      fun p hp hq => sep_core0 _ _ hX.det hY.det n (fun k => by rw [hdX]; exact pos_of _ (hsx k.1 k.2))
        (fun k => by rw [hdY]; exact (neg_of _ (hsy k.1 k.2)).le) p hp hq
    exact ⟨fun _ p hp ha ha' => absurd (key p ha ha') hp, fun _ p hp ha ha' => absurd (key p ha ha') hp⟩
  | [s], _ =>
    have hsx := h.sx; have hsy := h.sy
    simp only [hsl, List.map_cons, List.map_nil, List.contains_cons, List.contains_nil, Bool.or_false, beq_iff_eq] at hsx hsy
    obtain ⟨a, a', ha, ha', hsh⟩ := sharedOk_sound X Y s (h.sh s (by simp [hsl]))
    set j := otherRow a with hj
    set j' := otherRow a' with hj'
    have core : ∀ p, Triplet.acceptsE 0 (cellReal K X).2 p → Triplet.acceptsE 0 (cellReal K Y).2 p →
        ∃ s t : ℝ, 0 ≤ s ∧ 0 ≤ t ∧ p = edgePoint s t (row (cellReal K X).2 a) (row (cellReal K X).2 j) ∧ t = 0 := by
      intro p hp hq
      have hne : ∀ k : Fin 3, k ≠ a → ¬ (k.1 = s.1) := fun k hk e => hk (Fin.ext (by rw [e, ha]))
      have hpos : ∀ k : Fin 3, k ≠ a → 0 < dot3 n (row (cellReal K X).2 k) := by
        intro k hk
        have := hsx k.1 k.2
        rw [if_neg (hne k hk)] at this
        rw [hdX]; exact pos_of _ this
      obtain ⟨s', t', hs', ht', hpe, ht0⟩ := sep_core _ _ hX.det hY.det n a j (otherRow_ne a)
        (by
          have := hsx a.1 a.2
          rw [if_pos ha] at this
          rw [hdX]; exact zero_of _ this)
        (hpos j (otherRow_ne a).symm).le (fun k hk _ => hpos k hk)
        (fun k => by
          have := hsy k.1 k.2
          rw [hdY]
          split at this
          · exact (zero_of _ this).le
          · exact (neg_of _ this).le) p hp hq
      exact ⟨s', t', hs', ht', hpe, ht0 (hpos j (otherRow_ne a).symm)⟩
    refine ⟨fun hreg p hp hpa hqa => ?_, fun hreg p hp hpa hqa => ?_⟩
    · obtain ⟨s', t', hs', ht', hpe, ht0⟩ := core p hpa hqa
      have hc := hsh.2
      rw [if_pos hreg] at hc
      exact ⟨a, j, a', j', s', t', otherRow_ne a, otherRow_ne a', hs', ht', hpe, rowsh a a' hsh, hc, Or.inl ht0⟩
    · obtain ⟨s', t', hs', ht', hpe, ht0⟩ := core p hpa hqa
      have hc := hsh.2
      rw [if_neg hreg] at hc
      obtain ⟨ci, hci, hci'⟩ := hc
      obtain ⟨cj, hcj⟩ := gOf_outer hX a
      obtain ⟨cj', hcj'⟩ := gOf_outer hY a'
      exact ⟨a, j, a', j', s', t', ci, cj, cj', otherRow_ne a, otherRow_ne a', hs', ht', hpe, rowsh a a' hsh, hci, hci',
        hcj, hcj', Or.inl ht0⟩
  | [s, s'], _ =>
    have hsx := h.sx; have hsy := h.sy
    simp only [hsl, List.map_cons, List.map_nil, List.contains_cons, List.contains_nil, Bool.or_false, beq_iff_eq,
      Bool.or_eq_true] at hsx hsy
    obtain ⟨a, a', ha, ha', hsh⟩ := sharedOk_sound X Y s (h.sh s (by simp [hsl]))
    obtain ⟨b, b', hb, hb', hsh'⟩ := sharedOk_sound X Y s' (h.sh s' (by simp [hsl]))
    have hdx := h.dx; have hdy := h.dy
    simp only [hsl, List.map_cons, List.map_nil, allDistinct, List.contains_cons, List.contains_nil, Bool.or_false,
      Bool.and_true, beq_eq_false_iff_ne, ne_eq, Bool.not_false, Bool.not_eq_eq_eq_not, Bool.not_true] at hdx hdy
    have hab : a ≠ b := fun e => hdx (by rw [← ha, ← hb, e])
    have hab' : a' ≠ b' := fun e => hdy (by rw [← ha', ← hb', e])
    have core : ∀ p, Triplet.acceptsE 0 (cellReal K X).2 p → Triplet.acceptsE 0 (cellReal K Y).2 p →
        ∃ s t : ℝ, 0 ≤ s ∧ 0 ≤ t ∧ p = edgePoint s t (row (cellReal K X).2 a) (row (cellReal K X).2 b) := by
      intro p hp hq
      obtain ⟨s'', t', hs', ht', hpe, _⟩ := sep_core _ _ hX.det hY.det n a b hab
        (by
          have := hsx a.1 a.2
          rw [if_pos (Or.inl ha)] at this
          rw [hdX]; exact zero_of _ this)
        (by
          have := hsx b.1 b.2
          rw [if_pos (Or.inr hb)] at this
          rw [hdX]; exact (zero_of _ this).ge)
        (fun k hka hkb => by
          have := hsx k.1 k.2
          have hn' : ¬ (k.1 = s.1 ∨ k.1 = s'.1) := by
            rintro (e | e)
            · exact hka (Fin.ext (by rw [e, ha]))
            · exact hkb (Fin.ext (by rw [e, hb]))
          rw [if_neg hn'] at this
          rw [hdX]; exact pos_of _ this)
        (fun k => by
          have := hsy k.1 k.2
          rw [hdY]
          split at this
          · exact (zero_of _ this).le
          · exact (neg_of _ this).le) p hp hq
      exact ⟨s'', t', hs', ht', hpe⟩
    refine ⟨fun hreg p hp hpa hqa => ?_, fun hreg p hp hpa hqa => ?_⟩
    · obtain ⟨s'', t', hs', ht', hpe⟩ := core p hpa hqa
      have hc := hsh.2; have hc' := hsh'.2
      rw [if_pos hreg] at hc hc'
      exact ⟨a, b, a', b', s'', t', hab, hab', hs', ht', hpe, rowsh a a' hsh, hc, Or.inr ⟨rowsh b b' hsh', hc'⟩⟩
    · obtain ⟨s'', t', hs', ht', hpe⟩ := core p hpa hqa
      have hc := hsh.2; have hc' := hsh'.2
      rw [if_neg hreg] at hc hc'
      obtain ⟨ci, hci, hci'⟩ := hc
      obtain ⟨cj, hcj, hcj'⟩ := hc'
      exact ⟨a, b, a', b', s'', t', ci, cj, cj, hab, hab', hs', ht', hpe, rowsh a a' hsh, hci, hci', hcj, hcj',
        Or.inr ⟨rowsh b b' hsh', rfl⟩⟩
  | _ :: _ :: _ :: _, hl =>
    simp at hl

/-! ### part A, continued: the constants of the quantitative bound -/

theorem pv_cramer (P : Mat3 ℝ) (hP : det3 P ≠ 0) (v : Vec3 ℝ) :
    (Triplet.pv P v).1 = det3 (v, P.2.1, P.2.2) / det3 P ∧ (Triplet.pv P v).2.1 = det3 (P.1, v, P.2.2) / det3 P ∧
      (Triplet.pv P v).2.2 = det3 (P.1, P.2.1, v) / det3 P := by
  obtain ⟨⟨a0, a1, a2⟩, ⟨b0, b1, b2⟩, ⟨c0, c1, c2⟩⟩ := P
  obtain ⟨v0, v1, v2⟩ := v
  simp only [det3] at hP
  simp only [Triplet.pv, vecMat, inv3, det3]
  generalize hdef : (a0 * (b1 * c2 - b2 * c1) - a1 * (b0 * c2 - b2 * c0) + a2 * (b0 * c1 - b1 * c0)) = d at hP ⊢
  refine ⟨?_, ?_, ?_⟩ <;> field_simp <;> ring

/-- the row matching of a pair certificate as a function -/
def permFn (perm : List Nat) : Fin 3 → Fin 3 := fun j => ⟨perm.getD j.1 0 % 3, Nat.mod_lt _ (by decide)⟩

theorem permFn_injective {perm : List Nat} (h : isPermOfRange perm 3 = true) : Function.Injective (permFn perm) := by
  have hlen : perm.length = 3 := by
    simp only [isPermOfRange, Bool.and_eq_true, beq_iff_eq] at h
    exact h.1.1
  match perm, hlen with
  | [a, b, c], _ =>
    simp only [isPermOfRange, Bool.and_eq_true, List.all_cons, List.all_nil, decide_eq_true_eq, Bool.and_true] at h
    obtain ⟨⟨_, ha, hb, hc⟩, hd⟩ := h
    obtain ⟨hab, hac, hbc⟩ := allDistinct3 hd
    intro j j' hjj
    simp only [permFn, Fin.mk.injEq] at hjj
    fin_cases j <;> fin_cases j' <;> simp only [Fin.zero_eta, Fin.mk_one, Fin.reduceFinMk, Fin.val_zero, Fin.val_one,
      Fin.val_two, List.getD_cons_zero, List.getD_cons_succ] at hjj <;> first | rfl | (exfalso; omega)

theorem iabs_cast (x : Int) : ((iabs x : ℤ) : ℝ) = |(x : ℝ)| := by
  unfold iabs
  split
  · rename_i h
    rw [abs_of_neg (by exact_mod_cast h)]; push_cast; ring
  · rename_i h
    rw [abs_of_nonneg (by exact_mod_cast (not_lt.mp h))]

/-- **one checked pair of Triplet regions: the data of the quantitative bound** -/
theorem pair_data (K : Nat) (α κ : Nat) (X Y : RCell) (pc : PairCert) (hX : CellSpec K X) (hY : CellSpec K Y)
    (h : PairSpec α κ X Y pc) (kx : X.kind = 0) (ky : Y.kind = 0) :
    PairData (cellReal K X) (cellReal K Y) (α : ℝ) (κ : ℝ) := by
  obtain ⟨hκ, hα⟩ := h.consts kx ky
  set nI := normalOf X pc with hnI
  set n : Vec3 ℝ := castV nI with hn
  set sy := pc.shared.map (·.2) with hsy
  set c : ℝ := ((2 : ℝ) ^ K)⁻¹ with hc
  have ip : 0 < c := pow2_inv_pos K
  have hdX : ∀ k : Fin 3, dot3 n (row (cellReal K X).2 k) = c * ((idot nI (rowAt X k.1) : ℤ) : ℝ) :=
    fun k => by rw [row_cellReal, dot3_unscale]
  have hdY : ∀ k : Fin 3, dot3 n (row (cellReal K Y).2 k) = c * ((idot nI (rowAt Y k.1) : ℤ) : ℝ) :=
    fun k => by rw [row_cellReal, dot3_unscale]
  refine ⟨hX.det, hY.det, n, permFn pc.perm, fun j => sy.contains j.1 = false, permFn_injective h.perm, ?_, ?_, ?_, ?_, ?_, ?_⟩
  · -- shared rows
    intro j hj
    have hj' : sy.contains j.1 = true := by simpa using hj
    rw [List.contains_iff_mem, hsy, List.mem_map] at hj'
    obtain ⟨s, hs, hsj⟩ := hj'
    obtain ⟨a, a', ha, ha', hsh⟩ := sharedOk_sound X Y s (h.sh s hs)
    have ea' : a' = j := Fin.ext (by rw [ha', hsj])
    have ea : permFn pc.perm j = a := by
      apply Fin.ext
      simp only [permFn]
      have hp := h.permsh s hs
      rw [hsj] at hp
      have hlt : j.1 < pc.perm.length := by
        have := h.perm
        simp only [isPermOfRange, Bool.and_eq_true, beq_iff_eq] at this
        rw [this.1.1]; exact j.2
      rw [List.getD_eq_getElem?_getD, List.getElem?_eq_getElem hlt] at hp ⊢
      simp only [Option.getD_some] at hp ⊢
      rw [hp, ← ha]; exact Nat.mod_eq_of_lt a.2
    subst ea'
    rw [ea]
    refine ⟨by rw [row_cellReal, row_cellReal, hsh.1], ?_⟩
    have hc2 := hsh.2
    show chanAt Y.lch a' = chanAt X.lch a
    by_cases hreg : X.region = Y.region
    · rw [if_pos hreg] at hc2; exact hc2.symm
    · rw [if_neg hreg] at hc2
      obtain ⟨ch, h1, h2⟩ := hc2
      rw [hX.gtri kx a] at h1
      rw [hY.gtri ky a'] at h2
      have e1 := Option.some.inj h1
      have e2 := Option.some.inj h2
      rw [e1, e2]
  · intro i
    have := h.sx i.1 i.2
    rw [hdX]
    split at this
    · rw [this]; simp
    · exact (mul_pos ip (by exact_mod_cast this)).le
  · intro j
    have := h.sy j.1 j.2
    rw [hdY]
    split at this
    · rw [this]; simp
    · exact (mul_neg_of_pos_of_neg ip (by exact_mod_cast this)).le
  · intro j hj
    have := h.sy j.1 j.2
    rw [hdY]
    rw [if_neg (by rw [hj]; simp)] at this
    exact mul_neg_of_pos_of_neg ip (by exact_mod_cast this)
  · intro j hj
    simp only [kappaOk, List.all_eq_true, List.mem_range, Bool.or_eq_true, decide_eq_true_eq] at hκ
    have := hκ j.1 j.2
    rcases this with h1 | h1
    · rw [hj] at h1; exact absurd h1 (by simp)
    · simp only [Fin.sum_univ_three, hdX, hdY]
      have h2 : (((idot nI (rowAt X 0) + idot nI (rowAt X 1) + idot nI (rowAt X 2) +
          -(idot nI (rowAt Y 0) + idot nI (rowAt Y 1) + idot nI (rowAt Y 2)) : ℤ)) : ℝ) ≤
          (((κ : ℤ) * -idot nI (rowAt Y j.1) : ℤ) : ℝ) := by exact_mod_cast h1
      push_cast at h2
      have := mul_le_mul_of_nonneg_left h2 ip.le
      simp only [Fin.val_zero, Fin.val_one, Fin.val_two]
      nlinarith
  · intro j hj i
    simp only [alphaOk, List.all_eq_true, List.mem_range, Bool.or_eq_true, decide_eq_true_eq] at hα
    have hα' := hα j.1 j.2
    rcases hα' with h1 | h1
    · rw [hj] at h1; exact absurd h1 (by simp)
    · have h2 := h1 i.1 i.2
      have hD : det3 (cellReal K X).2 = c ^ 3 * ((idet (rowAt X 0) (rowAt X 1) (rowAt X 2) : ℤ) : ℝ) := by
        simp only [cellReal]; rw [det3_unscale]
      have hDne := hX.det
      rw [row_cellReal]
      obtain ⟨q0, q1, q2⟩ := pv_cramer (cellReal K X).2 hDne (unscale K (rowAt Y j.1))
      have h3 : ((iabs (idet (replaceRow X i.1 (rowAt Y j.1)).1 (replaceRow X i.1 (rowAt Y j.1)).2.1
          (replaceRow X i.1 (rowAt Y j.1)).2.2) : ℤ) : ℝ) ≤ (((α : ℤ) * iabs (idet (rowAt X 0) (rowAt X 1) (rowAt X 2)) : ℤ) : ℝ) := by
        exact_mod_cast h2
      rw [iabs_cast] at h3
      push_cast at h3
      rw [iabs_cast] at h3
      have c3 : 0 < c ^ 3 := by positivity
      have hDpos : 0 < |((idet (rowAt X 0) (rowAt X 1) (rowAt X 2) : ℤ) : ℝ)| := by
        apply abs_pos.mpr
        intro h0
        apply hDne; rw [hD, h0, mul_zero]
      have fin : ∀ (R : IV × IV × IV), det3 (unscale K R.1, unscale K R.2.1, unscale K R.2.2) / det3 (cellReal K X).2 =
          ((idet R.1 R.2.1 R.2.2 : ℤ) : ℝ) / ((idet (rowAt X 0) (rowAt X 1) (rowAt X 2) : ℤ) : ℝ) := by
        intro R
        rw [det3_unscale, hD, mul_div_mul_left _ _ c3.ne']
      have bound : ∀ (R : IV × IV × IV), |((idet R.1 R.2.1 R.2.2 : ℤ) : ℝ)| ≤ (α : ℝ) * |((idet (rowAt X 0) (rowAt X 1) (rowAt X 2) : ℤ) : ℝ)| →
          |det3 (unscale K R.1, unscale K R.2.1, unscale K R.2.2) / det3 (cellReal K X).2| ≤ (α : ℝ) := by
        intro R hR
        rw [fin, abs_div, div_le_iff₀ hDpos]; exact hR
      fin_cases i
      · simp only [coord]; rw [q0]; exact bound (replaceRow X 0 (rowAt Y j.1)) h3
      · simp only [coord]; rw [q1]; exact bound (replaceRow X 1 (rowAt Y j.1)) h3
      · simp only [coord]; rw [q2]; exact bound (replaceRow X 2 (rowAt Y j.1)) h3

/-! ### part B: the literal cells are the cells of the table -/

/-- the cell `(k, f)` of a table over ℝ: Triplet region `k` (`f = 0`), or inner triplet `f` of the VirtualNgon region `k`,
    with its channels inside the region -/
noncomputable def tableCell (l : RawLayout) (k f : Nat) : Option TRegion :=
  match l.regions[k]? with
  | none => none
  | some r =>
    if r.kind == 0 then
      match r.pos with
      | [a, b, d] => if f == 0 then some (r.ch, ((p3 a : Vec3 ℝ), p3 b, p3 d)) else none
      | _ => none
    else if r.kind == 1 then
      if f < r.pos.length then
        match r.pos[r.order.getD f 0]?, r.pos[r.order.getD ((f + 1) % r.pos.length) 0]? with
        | some a, some b =>
          some ([r.order.getD f 0, r.order.getD ((f + 1) % r.pos.length) 0, r.pos.length], ((p3 a : Vec3 ℝ), p3 b, p3 r.centre))
        | _, _ => none
      else none
    else none

theorem unscale_scale (K : Nat) (v : P3) (w : IV) (h : scaleP3 K v = some w) : unscale K w = p3 v := by
  have := scaleP3_real K v w h
  unfold unscale
  rw [this]
  obtain ⟨x, y, z⟩ := (p3 v : Vec3 ℝ)
  have hne : ((2 : ℝ) ^ K) ≠ 0 := by positivity
  simp only [smul3]
  refine Prod.ext ?_ (Prod.ext ?_ ?_) <;> simp only <;> field_simp

theorem mapM3 {β γ : Type} (f : β → Option γ) (a b c : β) (out : List γ) (h : [a, b, c].mapM f = some out) :
    ∃ x y z, f a = some x ∧ f b = some y ∧ f c = some z ∧ out = [x, y, z] := by
  obtain ⟨x, xs, hx, hxs, rfl⟩ := mapM_cons_some f a _ out h
  obtain ⟨y, ys, hy, hys, rfl⟩ := mapM_cons_some f b _ xs hxs
  obtain ⟨z, zs, hz, hzs, rfl⟩ := mapM_cons_some f c _ ys hys
  simp only [List.mapM_nil, Option.pure_def, Option.some.injEq] at hzs
  subst hzs
  exact ⟨x, y, z, hx, hy, hz, rfl⟩

/-- what a matching literal cell says about the table -/
theorem derive_table (K : Nat) (l : RawLayout) (k f : Nat) (c : RCell) (h : deriveCell K l k f = some c) :
    tableCell l k f = some (cellReal K c) ∧ c.region = k ∧ c.fan = f ∧
      ∃ r, l.regions[k]? = some r ∧ ((r.kind = 0 ∧ c.kind = 0 ∧ f = 0) ∨ (r.kind = 1 ∧ c.kind = 1 ∧ f < r.pos.length ∧
        c.gch = [r.ch[r.order.getD f 0]?, r.ch[r.order.getD ((f + 1) % r.pos.length) 0]?, none])) := by
  unfold deriveCell at h
  unfold tableCell
  split at h
  · exact absurd h (by simp)
  · rename_i r hr
    simp only [hr]
    by_cases k0 : r.kind = 0
    · have k0' : (r.kind == 0) = true := by simpa using k0
      simp only [k0', if_true] at h ⊢
      split at h
      · rename_i a b d rows hpos hrows
        by_cases f0 : f = 0
        · subst f0
          simp only [beq_self_eq_true, if_true, Option.some.injEq] at h
          subst h
          rw [hpos] at hrows
          obtain ⟨x, y, z, hx, hy, hz, rfl⟩ := mapM3 _ _ _ _ _ hrows
          refine ⟨?_, rfl, rfl, r, rfl, Or.inl ⟨k0, rfl, rfl⟩⟩
          simp only [hpos, beq_self_eq_true, if_true]
          simp only [cellReal, rowAt, List.getD_cons_zero, List.getD_cons_succ, unscale_scale K _ _ hx,
            unscale_scale K _ _ hy, unscale_scale K _ _ hz]
        · have : (f == 0) = false := by simpa using f0
          simp [this] at h
      · exact absurd h (by simp)
    · have k0' : (r.kind == 0) = false := by simpa using k0
      simp only [k0', Bool.false_eq_true, if_false] at h ⊢
      by_cases k1 : r.kind = 1
      · have k1' : (r.kind == 1) = true := by simpa using k1
        simp only [k1', if_true] at h ⊢
        by_cases hf : f < r.pos.length
        · simp only [hf, if_true] at h ⊢
          split at h
          · rename_i a b ha hb
            split at h
            · rename_i rows hrows
              simp only [Option.some.injEq] at h
              subst h
              obtain ⟨x, y, z, hx, hy, hz, rfl⟩ := mapM3 _ _ _ _ _ hrows
              refine ⟨?_, rfl, rfl, r, rfl, Or.inr ⟨k1, rfl, hf, rfl⟩⟩
              simp only [ha, hb]
              simp only [cellReal, rowAt, List.getD_cons_zero, List.getD_cons_succ, unscale_scale K _ _ hx,
                unscale_scale K _ _ hy, unscale_scale K _ _ hz]
            · exact absurd h (by simp)
          · exact absurd h (by simp)
        · simp [hf] at h
      · have k1' : (r.kind == 1) = false := by simpa using k1
        simp [k1'] at h

/-! ### part C: the whole certificate -/

/-- what `facesCertOk` says -/
structure CertSpec (K : Nat) (l : RawLayout) (cert : FacesCert) : Prop where
  kappa1 : 1 ≤ cert.kappa
  matches_ : ∀ c ∈ cert.cells, deriveCell K l c.region c.fan = some c
  cellsOk : ∀ c ∈ cert.cells, CellSpec K c
  pairs : ∀ pc ∈ cert.pairs, pairOk cert.alpha cert.kappa cert.cells pc = true
  cover : cert.pairs.map (fun pc => (pc.x, pc.y)) = allPairs cert.cells.length
  regions : ∀ k r, l.regions[k]? = some r → ngonRegionOk K cert.cells k r = true ∧ tripletRegionOk cert.cells k r = true

theorem facesCertOk_spec (K : Nat) (l : RawLayout) (cert : FacesCert) (h : facesCertOk K l cert = true) :
    CertSpec K l cert := by
  simp only [facesCertOk, Bool.and_eq_true, decide_eq_true_eq, List.all_eq_true, List.mem_range] at h
  obtain ⟨⟨⟨⟨⟨h1, h2⟩, h3⟩, h4⟩, h5⟩, h6⟩ := h
  refine ⟨h1, ?_, fun c hc => cellOk_sound K c (h3 c hc), h4, ?_, ?_⟩
  · intro c hc
    have := h2 c hc
    simpa [cellMatches] using this
  · simpa [pairsCover] using h5
  · intro k r hr
    have hk : k < l.regions.length := by
      by_contra hge
      rw [List.getElem?_eq_none (by omega)] at hr
      exact absurd hr (by simp)
    have := h6 k hk
    rw [hr] at this
    simpa using this

theorem mem_allPairs {n i j : Nat} (hij : i < j) (hj : j < n) : (i, j) ∈ allPairs n := by
  unfold allPairs
  rw [List.mem_flatMap]
  refine ⟨i, List.mem_range.mpr (by omega), ?_⟩
  rw [List.mem_filterMap]
  exact ⟨j, List.mem_range.mpr hj, by simp [hij]⟩

variable {K : Nat} {l : RawLayout} {cert : FacesCert}

theorem pair_of_indices (hs : CertSpec K l cert) {x y : Nat} (hxy : x < y) (hy : y < cert.cells.length) :
    ∃ pc ∈ cert.pairs, pc.x = x ∧ pc.y = y := by
  have := mem_allPairs hxy hy
  rw [← hs.cover, List.mem_map] at this
  obtain ⟨pc, hpc, he⟩ := this
  simp only [Prod.mk.injEq] at he
  exact ⟨pc, hpc, he.1, he.2⟩

/-- a cell of the table is a (checked, matching) literal cell of the certificate -/
theorem cell_of_table (hs : CertSpec K l cert) {k f : Nat} {X : TRegion} (hX : tableCell l k f = some X) :
    ∃ c ∈ cert.cells, c.region = k ∧ c.fan = f ∧ X = cellReal K c := by
  have hX0 := hX
  unfold tableCell at hX
  split at hX
  · exact absurd hX (by simp)
  · rename_i r hr
    obtain ⟨hng, htr⟩ := hs.regions k r hr
    by_cases k0 : r.kind = 0
    · have k0' : (r.kind == 0) = true := by simpa using k0
      simp only [k0', if_true] at hX
      have hf : f = 0 := by
        split at hX
        · by_cases f0 : f = 0
          · exact f0
          · have : (f == 0) = false := by simpa using f0
            simp [this] at hX
        · exact absurd hX (by simp)
      subst hf
      simp only [tripletRegionOk, k0, bne_self_eq_false, Bool.false_or, List.any_eq_true, beq_iff_eq] at htr
      obtain ⟨c, hc, hck⟩ := htr
      have hm := hs.matches_ c hc
      rw [hck] at hm
      obtain ⟨ht, _, _, r', hr', hkind⟩ := derive_table K l k c.fan c hm
      rw [hr] at hr'
      have : r' = r := (Option.some.inj hr').symm
      subst this
      have hfan : c.fan = 0 := by
        rcases hkind with ⟨_, _, h0⟩ | ⟨h1, _, _, _⟩
        · exact h0
        · rw [k0] at h1; exact absurd h1 (by decide)
      rw [hfan] at ht
      rw [hX0] at ht
      exact ⟨c, hc, hck, hfan, Option.some.inj ht⟩
    · have k0' : (r.kind == 0) = false := by simpa using k0
      simp only [k0', Bool.false_eq_true, if_false] at hX
      by_cases k1 : r.kind = 1
      · have k1' : (r.kind == 1) = true := by simpa using k1
        simp only [k1', if_true] at hX
        by_cases hf : f < r.pos.length
        · simp only [ngonRegionOk, k1, bne_self_eq_false, Bool.false_or, Bool.and_eq_true, List.all_eq_true,
            List.mem_range, List.any_eq_true, beq_iff_eq] at hng
          have hh := hng.2 f hf
          obtain ⟨c, hc, hck, hcf⟩ := hh.1.1.1
          have hm := hs.matches_ c hc
          rw [hck, hcf] at hm
          obtain ⟨ht, _, _, _⟩ := derive_table K l k f c hm
          rw [hX0] at ht
          exact ⟨c, hc, hck, hcf, Option.some.inj ht⟩
        · simp [hf] at hX
      · have k1' : (r.kind == 1) = false := by simpa using k1
        simp [k1'] at hX

/-- **THE CERTIFICATE IS SOUND.**  Two different cells of the table: both are invertible with distinct channels and rows of
    norm at most 2; inside one region (two inner triplets of one n-gon) they meet only in a shared face; in different regions
    only in a shared face of real loudspeakers on the same output channels; two Triplet regions come with the data of the
    quantitative bound (in one of the two orders), constants `alpha`, `kappa` of the certificate. -/
theorem faces_sound (hs : CertSpec K l cert) {k f k' f' : Nat} {X Y : TRegion} (hX : tableCell l k f = some X)
    (hY : tableCell l k' f' = some Y) (hne : k ≠ k' ∨ f ≠ f') :
    ∃ c c', c ∈ cert.cells ∧ c' ∈ cert.cells ∧ X = cellReal K c ∧ Y = cellReal K c' ∧ (c.region = k ∧ c.fan = f) ∧
      (c'.region = k' ∧ c'.fan = f') ∧ (k = k' → MeetInSharedFace X Y) ∧ (k ≠ k' → MeetInOuterFaceG (gOf c) X (gOf c') Y) ∧
      (c.kind = 0 → c'.kind = 0 → PairData X Y cert.alpha cert.kappa ∨ PairData Y X cert.alpha cert.kappa) := by
  obtain ⟨c, hc, hck, hcf, rfl⟩ := cell_of_table hs hX
  obtain ⟨c', hc', hck', hcf', rfl⟩ := cell_of_table hs hY
  refine ⟨c, c', hc, hc', rfl, rfl, ⟨hck, hcf⟩, ⟨hck', hcf'⟩, ?_⟩
  obtain ⟨x, hx, hxc⟩ := List.mem_iff_getElem.mp hc
  obtain ⟨y, hy, hyc⟩ := List.mem_iff_getElem.mp hc'
  have hxy : x ≠ y := by
    intro e
    subst e
    rw [hxc] at hyc
    subst hyc
    rcases hne with h | h
    · exact h (by rw [← hck, ← hck'])
    · exact h (by rw [← hcf, ← hcf'])
  have hcs := hs.cellsOk c hc
  have hcs' := hs.cellsOk c' hc'
  rcases Nat.lt_or_gt_of_ne hxy with hlt | hgt
  · obtain ⟨pc, hpc, hpx, hpy⟩ := pair_of_indices hs hlt hy
    obtain ⟨X', Y', hX', hY', hspec⟩ := pairOk_sound _ _ _ _ (hs.pairs pc hpc)
    rw [hpx, List.getElem?_eq_getElem hx, hxc, Option.some.injEq] at hX'
    rw [hpy, List.getElem?_eq_getElem hy, hyc, Option.some.injEq] at hY'
    subst hX' hY'
    obtain ⟨m1, m2⟩ := pair_meet K _ _ c c' pc hcs hcs' hspec
    refine ⟨fun e => m1 (by rw [hck, hck', e]), fun e => m2 (by rw [hck, hck']; exact e), ?_⟩
    intro k0 k0'
    exact Or.inl (pair_data K _ _ c c' pc hcs hcs' hspec k0 k0')
  · obtain ⟨pc, hpc, hpx, hpy⟩ := pair_of_indices hs hgt hx
    obtain ⟨X', Y', hX', hY', hspec⟩ := pairOk_sound _ _ _ _ (hs.pairs pc hpc)
    rw [hpx, List.getElem?_eq_getElem hy, hyc, Option.some.injEq] at hX'
    rw [hpy, List.getElem?_eq_getElem hx, hxc, Option.some.injEq] at hY'
    subst hX' hY'
    obtain ⟨m1, m2⟩ := pair_meet K _ _ c' c pc hcs' hcs hspec
    refine ⟨fun e => (m1 (by rw [hck, hck', e])).symm, fun e => (m2 (by rw [hck, hck']; exact fun h => e h.symm)).symm, ?_⟩
    intro k0 k0'
    exact Or.inr (pair_data K _ _ c' c pc hcs' hcs hspec k0' k0)

/-! ### part D: from the table's cells to the model's regions -/

/-- the model's VirtualNgon of a raw region (`RawRegion.toRegion`) -/
noncomputable def ngonOf (r : RawRegion) : VirtualNgon ℝ :=
  ⟨r.pos.map p3, p3 r.centre, r.cdm.map OfF2.ofF2, r.order⟩

theorem allDistinct_nodup : ∀ {l : List Nat}, allDistinct l = true → l.Nodup
  | [], _ => List.nodup_nil
  | x :: xs, h => by
    simp only [allDistinct, Bool.and_eq_true, Bool.not_eq_true', List.contains_eq_mem, decide_eq_false_iff_not] at h
    exact List.nodup_cons.mpr ⟨h.1, allDistinct_nodup h.2⟩

theorem ofF2_pos (K : Nat) (x : F2) (z : Int) (h : scaleF2 K x = some z) (hz : 0 < z) : (0 : ℝ) < OfF2.ofF2 x := by
  have := scaleF2_real K x z h
  have hz' : (0 : ℝ) < (z : ℝ) := by exact_mod_cast hz
  rw [← this] at hz'
  have h2 : (0 : ℝ) < 2 ^ K := by positivity
  exact (mul_pos_iff_of_pos_right h2).mp hz'

/-- every inner triplet of the model's n-gon of region `k` is a cell of the table, and the n-gon satisfies what
    `ngon_handle_continuousOn` and `Region.tnOk` ask -/
theorem ngon_table (hs : CertSpec K l cert) {k : Nat} {r : RawRegion} (hr : l.regions[k]? = some r) (k1 : r.kind = 1) :
    (∀ X ∈ (ngonOf r).regions, ∃ f, f < r.pos.length ∧ tableCell l k f = some X) ∧
    (∀ X ∈ (ngonOf r).regions, det3 X.2 ≠ 0) ∧
    (∀ X ∈ (ngonOf r).regions, InnerChOk (ngonOf r).centreDownmix.length X) ∧
    (∀ d ∈ (ngonOf r).centreDownmix, 0 < d) ∧
    (∀ X ∈ (ngonOf r).regions, ∀ Y ∈ (ngonOf r).regions, X ≠ Y → MeetInSharedFace X Y) ∧
    r.ch.length = (ngonOf r).centreDownmix.length ∧ r.ch.Nodup := by
  obtain ⟨hng, _⟩ := hs.regions k r hr
  simp only [ngonRegionOk, k1, bne_self_eq_false, Bool.false_or, Bool.and_eq_true, List.all_eq_true,
    List.mem_range, beq_iff_eq, decide_eq_true_eq, bne_iff_ne, ne_eq] at hng
  obtain ⟨⟨⟨⟨hchlen, hcdlen⟩, hchd⟩, hcdpos⟩, hfans⟩ := hng
  have hcdl : (ngonOf r).centreDownmix.length = r.pos.length := by simp [ngonOf, hcdlen]
  have hposl : (ngonOf r).positions.length = r.pos.length := by simp [ngonOf]
  have hcell : ∀ X ∈ (ngonOf r).regions, ∃ f, f < r.pos.length ∧ tableCell l k f = some X ∧
      X.1 = [r.order.getD f 0, r.order.getD ((f + 1) % r.pos.length) 0, r.pos.length] := by
    intro X hX
    simp only [VirtualNgon.regions, List.mem_map, List.mem_range, hposl] at hX
    obtain ⟨f, hf, rfl⟩ := hX
    obtain ⟨⟨⟨_, hne⟩, h1⟩, h2⟩ := hfans f hf
    refine ⟨f, hf, ?_, rfl⟩
    unfold tableCell
    have k0' : (r.kind == 0) = false := by rw [k1]; rfl
    have k1' : (r.kind == 1) = true := by rw [k1]; rfl
    simp only [hr, k0', Bool.false_eq_true, if_false, k1', if_true, hf]
    simp only [ngonOf] at h1 h2 ⊢
    rw [List.getElem?_eq_getElem h1, List.getElem?_eq_getElem h2]
    simp only [Option.some.injEq, Prod.mk.injEq, true_and]
    refine ⟨?_, ?_, trivial⟩
    · rw [getD_map_p3 r.pos _ _ (List.getElem?_eq_getElem h1)]
    · rw [getD_map_p3 r.pos _ _ (List.getElem?_eq_getElem h2)]
  refine ⟨fun X hX => ?_, fun X hX => ?_, fun X hX => ?_, ?_, fun X hX Y hY hne => ?_, ?_, allDistinct_nodup hchd⟩
  · obtain ⟨f, hf, ht, _⟩ := hcell X hX
    exact ⟨f, hf, ht⟩
  · obtain ⟨f, _, ht, _⟩ := hcell X hX
    obtain ⟨c, hc, _, _, rfl⟩ := cell_of_table hs ht
    exact (hs.cellsOk c hc).det
  · obtain ⟨f, hf, _, hX1⟩ := hcell X hX
    obtain ⟨⟨⟨_, hne⟩, h1⟩, h2⟩ := hfans f hf
    rw [hcdl]
    exact ⟨_, _, hX1, hne, h1, h2⟩
  · intro d hd
    simp only [ngonOf, List.mem_map] at hd
    obtain ⟨x, hx, rfl⟩ := hd
    have := hcdpos x hx
    split at this
    · rename_i z hz
      exact ofF2_pos K x z hz (of_decide_eq_true this)
    · exact absurd this (by simp)
  · obtain ⟨f, _, ht, _⟩ := hcell X hX
    obtain ⟨f', _, ht', _⟩ := hcell Y hY
    have hff : f ≠ f' := by
      intro e; subst e
      rw [ht] at ht'
      exact hne (Option.some.inj ht')
    obtain ⟨_, _, _, _, _, _, _, _, m1, _, _⟩ := faces_sound hs ht ht' (Or.inr hff)
    exact m1 rfl
  · rw [hcdl]; exact hchlen

/-- a Triplet region of the table as a cell -/
theorem triplet_table {k : Nat} {r : RawRegion} (hr : l.regions[k]? = some r) (k0 : r.kind = 0) {a b d : P3}
    (hpos : r.pos = [a, b, d]) : tableCell l k 0 = some (r.ch, ((p3 a : Vec3 ℝ), p3 b, p3 d)) := by
  unfold tableCell
  have k0' : (r.kind == 0) = true := by rw [k0]; rfl
  simp [hr, k0', hpos]

/-- the outer-face relation between two Triplet cells is the shared-face relation -/
theorem meet_of_outer {c c' : RCell} (hc : CellSpec K c) (hc' : CellSpec K c') (k0 : c.kind = 0) (k0' : c'.kind = 0)
    (h : MeetInOuterFaceG (gOf c) (cellReal K c) (gOf c') (cellReal K c')) :
    MeetInSharedFace (cellReal K c) (cellReal K c') := by
  intro p hp ha ha'
  obtain ⟨i, j, i', j', s, t, ci, cj, cj', hij, hij', hs', ht', hpe, hri, hci, hci', hcj, hcj', hj⟩ := h p hp ha ha'
  rw [hc.gtri k0 i] at hci
  rw [hc'.gtri k0' i'] at hci'
  rw [hc.gtri k0 j] at hcj
  rw [hc'.gtri k0' j'] at hcj'
  refine ⟨i, j, i', j', s, t, hij, hij', hs', ht', hpe, hri, ?_, ?_⟩
  · show chanAt c.lch i = chanAt c'.lch i'
    rw [Option.some.inj hci, Option.some.inj hci']
  · rcases hj with h0 | ⟨hrj, hcc⟩
    · exact Or.inl h0
    · refine Or.inr ⟨hrj, ?_⟩
      show chanAt c.lch j = chanAt c'.lch j'
      rw [Option.some.inj hcj, Option.some.inj hcj', hcc]

/-! ### part E: the panner of Triplet and VirtualNgon regions of a table -/

/-- the model's Triplet and VirtualNgon regions of a table (`RawRegion.toRegion`), in evaluation order -/
noncomputable def tnRegions (l : RawLayout) : List (Region ℝ) :=
  l.regions.filterMap fun r => if r.kind == 2 then none else RawRegion.toRegion (α := ℝ) r

theorem tnRegions_noQuad (l : RawLayout) : ∀ R ∈ tnRegions l, R.noQuad := by
  intro R hR
  simp only [tnRegions, List.mem_filterMap] at hR
  obtain ⟨r, _, hto⟩ := hR
  by_cases k2 : r.kind = 2
  · simp [k2] at hto
  · have k2' : (r.kind == 2) = false := by simpa using k2
    simp only [k2', Bool.false_eq_true, if_false] at hto
    unfold RawRegion.toRegion at hto
    split at hto
    · rw [← Option.some.inj hto]; trivial
    · rw [← Option.some.inj hto]; trivial
    · rename_i h2; exact absurd h2 k2
    · exact absurd hto (by simp)

/-- a region of `tnRegions` with the raw region it comes from -/
theorem tnRegions_mem {l : RawLayout} {R : Region ℝ} (hR : R ∈ tnRegions l) :
    ∃ (k : Nat) (r : RawRegion), l.regions[k]? = some r ∧
      ((r.kind = 0 ∧ ∃ a b d, r.pos = [a, b, d] ∧ R = Region.triplet r.ch (p3 a, p3 b, p3 d)) ∨
       (r.kind = 1 ∧ R = Region.ngon r.ch (ngonOf r))) := by
  simp only [tnRegions, List.mem_filterMap] at hR
  obtain ⟨r, hr, hto⟩ := hR
  obtain ⟨k, hk⟩ := List.mem_iff_getElem?.mp hr
  refine ⟨k, r, hk, ?_⟩
  by_cases k2 : r.kind = 2
  · simp [k2] at hto
  · have k2' : (r.kind == 2) = false := by simpa using k2
    simp only [k2', Bool.false_eq_true, if_false] at hto
    unfold RawRegion.toRegion at hto
    split at hto
    · rename_i a b d h0 hpos
      exact Or.inl ⟨h0, a, b, d, hpos, (Option.some.inj hto).symm⟩
    · rename_i h1
      exact Or.inr ⟨h1, (Option.some.inj hto).symm⟩
    · rename_i h2; exact absurd h2 k2
    · exact absurd hto (by simp)

/-- the panner output channels of a cell, read off the model's region, are those of the literal cell -/
theorem gchan_cell (hs : CertSpec K l cert) {k f : Nat} {r : RawRegion} {R : Region ℝ} {c : RCell}
    (hr : l.regions[k]? = some r) (hc : c ∈ cert.cells) (hck : c.region = k) (hcf : c.fan = f)
    (hR : (r.kind = 0 ∧ ∃ a b d, r.pos = [a, b, d] ∧ R = Region.triplet r.ch (p3 a, p3 b, p3 d)) ∨
      (r.kind = 1 ∧ R = Region.ngon r.ch (ngonOf r))) :
    R.gchan (cellReal K c).1 = gOf c := by
  have hm := hs.matches_ c hc
  rw [hck, hcf] at hm
  obtain ⟨_, _, _, r', hr', hkind⟩ := derive_table K l k f c hm
  rw [hr] at hr'
  have : r' = r := (Option.some.inj hr').symm
  subst this
  have hcs := hs.cellsOk c hc
  funext a
  rcases hR with ⟨k0, _, _, _, _, rfl⟩ | ⟨k1, rfl⟩
  · have kc : c.kind = 0 := by
      rcases hkind with ⟨_, h, _⟩ | ⟨h, _, _, _⟩
      · exact h
      · rw [k0] at h; exact absurd h (by decide)
    simp only [Region.gchan, cellReal]
    exact (hcs.gtri kc a).symm
  · obtain ⟨hng, _⟩ := hs.regions k r' hr
    simp only [ngonRegionOk, k1, bne_self_eq_false, Bool.false_or, Bool.and_eq_true, List.all_eq_true,
      List.mem_range, beq_iff_eq, decide_eq_true_eq, bne_iff_ne, ne_eq] at hng
    obtain ⟨⟨⟨⟨hchlen, _⟩, _⟩, _⟩, hfans⟩ := hng
    rcases hkind with ⟨h, _, _⟩ | ⟨_, _, hf, hgch⟩
    · rw [k1] at h; exact absurd h (by decide)
    · obtain ⟨⟨⟨_, _⟩, h1⟩, h2⟩ := hfans f hf
      have hlch : c.lch = [r'.order.getD f 0, r'.order.getD ((f + 1) % r'.pos.length) 0, r'.pos.length] := by
        have := congrArg (fun o => o.map (·.lch)) hm
        unfold deriveCell at this
        have k0' : (r'.kind == 0) = false := by rw [k1]; rfl
        have k1' : (r'.kind == 1) = true := by rw [k1]; rfl
        simp only [hr, k0', Bool.false_eq_true, if_false, k1', if_true, hf] at this
        rw [List.getElem?_eq_getElem h1, List.getElem?_eq_getElem h2] at this
        simp only at this
        split at this
        · simpa using this.symm
        · simp at this
      have key : ∀ i, i < r'.ch.length → r'.ch[i]? = some (r'.ch.getD i 0) := by
        intro i hi
        simp [List.getD_eq_getElem?_getD, List.getElem?_eq_getElem hi]
      have e1 := key _ (by rw [hchlen]; exact h1)
      have e2 := key _ (by rw [hchlen]; exact h2)
      simp only [Region.gchan, cellReal, gOf, hgch, hlch, e1, e2]
      fin_cases a
      · rw [if_neg (by decide)]; rfl
      · rw [if_neg (by decide)]; rfl
      · rw [if_pos (by decide)]; rfl

/-- **THE TRIPLET AND N-GON REGIONS OF A CHECKED TABLE satisfy every hypothesis of `panner_continuousOn_tri_ngon`** -/
theorem tnRegions_ok (hs : CertSpec K l cert) :
    (∀ R ∈ tnRegions l, R.tnOk) ∧
    (∀ R ∈ tnRegions l, ∀ R' ∈ tnRegions l, R ≠ R' → ∀ X ∈ R.tcells, ∀ Y ∈ R'.tcells, MeetInOuterFace R X R' Y) := by
  -- the cells of a region are cells of the table
  have hcells : ∀ R ∈ tnRegions l, ∃ (k : Nat) (r : RawRegion), l.regions[k]? = some r ∧
      ((r.kind = 0 ∧ ∃ a b d, r.pos = [a, b, d] ∧ R = Region.triplet r.ch (p3 a, p3 b, p3 d)) ∨
       (r.kind = 1 ∧ R = Region.ngon r.ch (ngonOf r))) ∧ ∀ X ∈ R.tcells, ∃ f, tableCell l k f = some X := by
    intro R hR
    obtain ⟨k, r, hr, hkind⟩ := tnRegions_mem hR
    refine ⟨k, r, hr, hkind, ?_⟩
    rcases hkind with ⟨k0, a, b, d, hpos, rfl⟩ | ⟨k1, rfl⟩
    · intro X hX
      simp only [Region.tcells, List.mem_singleton] at hX
      exact ⟨0, by rw [hX]; exact triplet_table hr k0 hpos⟩
    · intro X hX
      obtain ⟨f, _, ht⟩ := (ngon_table hs hr k1).1 X hX
      exact ⟨f, ht⟩
  refine ⟨?_, ?_⟩
  · intro R hR
    obtain ⟨k, r, hr, hkind, hX⟩ := hcells R hR
    rcases hkind with ⟨k0, a, b, d, hpos, rfl⟩ | ⟨k1, rfl⟩
    · obtain ⟨f, ht⟩ := hX (r.ch, (p3 a, p3 b, p3 d)) (by simp [Region.tcells])
      obtain ⟨c, hc, _, _, he⟩ := cell_of_table hs ht
      have hcs := hs.cellsOk c hc
      show det3 (r.ch, ((p3 a : Vec3 ℝ), p3 b, p3 d)).2 ≠ 0 ∧ TRegion.chOk (r.ch, ((p3 a : Vec3 ℝ), p3 b, p3 d))
      rw [he]
      exact ⟨hcs.det, hcs.chOk⟩
    · obtain ⟨_, h2, h3, h4, h5, h6, h7⟩ := ngon_table hs hr k1
      exact ⟨h2, h3, h4, h5, h6, h7⟩
  · intro R hR R' hR' hne X hX Y hY
    obtain ⟨k, r, hr, hkind, hXc⟩ := hcells R hR
    obtain ⟨k', r', hr', hkind', hYc⟩ := hcells R' hR'
    have hkk : k ≠ k' := by
      intro e; subst e
      rw [hr] at hr'
      have : r' = r := (Option.some.inj hr').symm
      subst this
      apply hne
      rcases hkind with ⟨k0, a, b, d, hpos, rfl⟩ | ⟨k1, rfl⟩
      · rcases hkind' with ⟨_, a', b', d', hpos', rfl⟩ | ⟨k1', _⟩
        · rw [hpos] at hpos'
          simp only [List.cons.injEq, and_true] at hpos'
          obtain ⟨rfl, rfl, rfl⟩ := hpos'
          rfl
        · rw [k0] at k1'; exact absurd k1' (by decide)
      · rcases hkind' with ⟨k0', _⟩ | ⟨_, rfl⟩
        · rw [k1] at k0'; exact absurd k0' (by decide)
        · rfl
    obtain ⟨f, ht⟩ := hXc X hX
    obtain ⟨f', ht'⟩ := hYc Y hY
    obtain ⟨c, c', hc, hc', rfl, rfl, ⟨hck, hcf⟩, ⟨hck', hcf'⟩, _, m2, _⟩ := faces_sound hs ht ht' (Or.inl hkk)
    show MeetInOuterFaceG (R.gchan (cellReal K c).1) (cellReal K c) (R'.gchan (cellReal K c').1) (cellReal K c')
    rw [gchan_cell hs hr hc hck hcf hkind, gchan_cell hs hr' hc' hck' hcf' hkind']
    exact m2 hkk

end Faces

end Earverif.PointSource
