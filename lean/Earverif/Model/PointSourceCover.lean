/- C05 — sphere-coverage certificate of a configured point-source panner and its Bool checker.  Core Lean only.

   `harness/c05_cover.py` builds, from the real `point_source.configure(layout)` object, a closed polyhedral surface
   whose cells are vertex triples / coplanar quadruples of the panner's regions (see `Gen/C05_Cover.lean`).
   `coverCertOk` re-checks, in exact integer arithmetic (every binary64 coordinate `m·2^e` of `Gen/C05_Tables.lean`
   times `2^K`), every side condition from which `Proofs/C05Cover.lean` derives that the vertex cones of the cells
   cover every direction, and that every cell is made of vertices of the region it names:
     * Triplet region  -> the cell is its three positions `[0, 1, 2]`;
     * VirtualNgon     -> the cell is the fan triangle `[order[f], order[(f+1) % n], n]` (`n` = the centre), `f < n`;
     * QuadRegion      -> three or four distinct corner slots. -/
import Earverif.Model.PointSource

namespace Earverif.PointSource.Cover

abbrev IV := Int × Int × Int

def isub (a b : IV) : IV := (a.1 - b.1, a.2.1 - b.2.1, a.2.2 - b.2.2)
def iadd (a b : IV) : IV := (a.1 + b.1, a.2.1 + b.2.1, a.2.2 + b.2.2)
def ineg (a : IV) : IV := (-a.1, -a.2.1, -a.2.2)
def icross (a b : IV) : IV :=
  (a.2.1 * b.2.2 - a.2.2 * b.2.1, a.2.2 * b.1 - a.1 * b.2.2, a.1 * b.2.1 - a.2.1 * b.1)
def idot (a b : IV) : Int := a.1 * b.1 + a.2.1 * b.2.1 + a.2.2 * b.2.2
/-- determinant of the matrix with rows `a b c` (same expansion as `det3`) -/
def idet (a b c : IV) : Int :=
  a.1 * (b.2.1 * c.2.2 - b.2.2 * c.2.1) - a.2.1 * (b.1 * c.2.2 - b.2.2 * c.1) + a.2.2 * (b.1 * c.2.1 - b.2.1 * c.1)

/-- `m·2^e·2^K` as an integer (`none` if it is not one) -/
def scaleF2 (K : Nat) (x : F2) : Option Int :=
  if 0 ≤ x.2 + (K : Int) then some (x.1 * 2 ^ (x.2 + (K : Int)).toNat) else none

def scaleP3 (K : Nat) (v : P3) : Option IV :=
  match scaleF2 K v.1, scaleF2 K v.2.1, scaleF2 K v.2.2 with
  | some x, some y, some z => some (x, y, z)
  | _, _, _ => none

/-- The vertices of a region: its positions, followed by the virtual centre for a `VirtualNgon`. -/
def verts (r : RawRegion) : List P3 := if r.kind == 1 then r.pos ++ [r.centre] else r.pos

/-- One cell of the certificate. -/
structure Cell where
  /-- index into `RawLayout.regions` -/
  region : Nat
  /-- fan triangle number (VirtualNgon only) -/
  fan : Nat
  /-- slots into `verts region`: 3 (triangle) or 4 (coplanar quad, cyclic order) -/
  vs : List Nat
  /-- the outward normal is minus the raw normal -/
  flip : Bool
  /-- neighbour cell across the edges 12, 23, 31 (triangle) / 12, 23, 34, 41 (quad) -/
  nb : List Nat

structure CoverCert where
  cells : List Cell
  /-- three cells with linearly independent normals -/
  span : Nat × Nat × Nat

/-- A cell with its vertices looked up and scaled, its outward normal and plane offset. -/
structure RCell where
  vs : List IV
  n : IV
  c : Int
  nb : List Nat

/-- the slots a cell may use in its region -/
def slotsOk (r : RawRegion) (c : Cell) : Bool :=
  match r.kind with
  | 0 => c.vs == [0, 1, 2]
  | 1 =>
    let n := r.pos.length
    c.fan < n && r.order.getD c.fan 0 < n && r.order.getD ((c.fan + 1) % n) 0 < n &&
    c.vs == [r.order.getD c.fan 0, r.order.getD ((c.fan + 1) % n) 0, n]
  | 2 => (c.vs.length == 3 || c.vs.length == 4) && c.vs.all (· < 4) && allDistinct c.vs
  | _ => false

def rawNormal : List IV → IV
  | [a, b, c] => icross (isub b a) (isub c a)
  | [a, b, c, d] => icross (isub c a) (isub d b)
  | _ => (0, 0, 0)

def resolve (K : Nat) (l : RawLayout) (c : Cell) : Option RCell :=
  match l.regions[c.region]? with
  | none => none
  | some r =>
    if slotsOk r c then
      match c.vs.mapM (fun i => (verts r)[i]?.bind (scaleP3 K)) with
      | none => none
      | some ps =>
        let n := if c.flip then ineg (rawNormal ps) else rawNormal ps
        some { vs := ps, n := n, c := idot n (ps.headD (0, 0, 0)), nb := c.nb }
    else none

/-- the plane of cell `j` contains `w1`, `w2` and has `w3` strictly inside -/
def edgeOk (rs : List RCell) (j : Nat) (w1 w2 w3 : IV) : Bool :=
  match rs[j]? with
  | some J => idot J.n w1 == J.c && idot J.n w2 == J.c && decide (idot J.n w3 < J.c)
  | none => false

def cellOk (rs : List RCell) (k : RCell) : Bool :=
  decide (0 < k.c) &&
  match k.vs, k.nb with
  | [a, b, c], [j1, j2, j3] =>
    idot k.n a == k.c && idot k.n b == k.c && idot k.n c == k.c && idet a b c != 0 &&
    edgeOk rs j1 a b c && edgeOk rs j2 b c a && edgeOk rs j3 c a b
  | [a, b, c, d], [j1, j2, j3, j4] =>
    idot k.n a == k.c && idot k.n b == k.c && idot k.n c == k.c && idot k.n d == k.c &&
    decide (0 < idet a b c * idet a c d) &&
    edgeOk rs j1 a b c && edgeOk rs j2 b c a && edgeOk rs j3 c d a && edgeOk rs j4 d a c
  | _, _ => false

def sumNormals : List RCell → IV
  | [] => (0, 0, 0)
  | k :: ks => iadd k.n (sumNormals ks)

def spanOk (rs : List RCell) (s : Nat × Nat × Nat) : Bool :=
  match rs[s.1]?, rs[s.2.1]?, rs[s.2.2]? with
  | some a, some b, some c => idet a.n b.n c.n != 0
  | _, _, _ => false

def cellsOk (rs : List RCell) (s : Nat × Nat × Nat) : Bool :=
  rs.all (cellOk rs) && sumNormals rs == (0, 0, 0) && spanOk rs s

/-- **The certificate check** for one layout table. -/
def coverCertOk (K : Nat) (l : RawLayout) (cert : CoverCert) : Bool :=
  match cert.cells.mapM (resolve K l) with
  | none => false
  | some rs => cellsOk rs cert.span

def coverTablesOk (K : Nat) (ls : List RawLayout) (cs : List CoverCert) : Bool :=
  ls.length == cs.length && (ls.zip cs).all fun lc => coverCertOk K lc.1 lc.2

/-! ### sign certificate of the QuadRegions (see Proofs/C05CoverQuad.lean)

    For the ordered corners `a b c d` (`order` applied) of a QuadRegion, in scaled integer coordinates: the four
    corner triples have determinants of one strict sign; `(c−a) × (d−b)` has a strict-sign component along every corner;
    the quadratic of each pan axis, evaluated at `t = −1e-10` and `t = 1 + 1e-10` (times `10^20`), has the sign it has
    at `t = 0` resp. `t = 1` (weakly) at every corner. -/

def ismul (k : Int) (a : IV) : IV := (k * a.1, k * a.2.1, k * a.2.2)
/-- `10^10 = 1 / 1e-10` (the tolerance of `pan_axis`) -/
def bigEI : Int := 10000000000
def iloPt (a b : IV) : IV := isub (ismul bigEI a) (isub b a)
def ihiPt (a b : IV) : IV := iadd (ismul bigEI b) (isub b a)
def sgn (f : Bool) (x : Int) : Int := if f then -x else x

def axisSignsOk (f : Bool) (a b c d : IV) : Bool :=
  decide (sgn f (idet (iloPt a b) (iloPt d c) a) ≤ 0) && decide (sgn f (idet (iloPt a b) (iloPt d c) b) ≤ 0) &&
  decide (sgn f (idet (iloPt a b) (iloPt d c) c) ≤ 0) && decide (sgn f (idet (iloPt a b) (iloPt d c) d) ≤ 0) &&
  decide (0 ≤ sgn f (idet (ihiPt a b) (ihiPt d c) a)) && decide (0 ≤ sgn f (idet (ihiPt a b) (ihiPt d c) b)) &&
  decide (0 ≤ sgn f (idet (ihiPt a b) (ihiPt d c) c)) && decide (0 ≤ sgn f (idet (ihiPt a b) (ihiPt d c) d))

def quadSignsOk (a b c d : IV) : Bool :=
  let f := decide (idet a b c < 0)
  let e := icross (isub c a) (isub d b)
  let f' := decide (idot e a < 0)
  decide (0 < sgn f (idet a b c)) && decide (0 < sgn f (idet a b d)) && decide (0 < sgn f (idet a c d)) &&
  decide (0 < sgn f (idet b c d)) &&
  decide (0 < sgn f' (idot e a)) && decide (0 < sgn f' (idot e b)) && decide (0 < sgn f' (idot e c)) &&
  decide (0 < sgn f' (idot e d)) &&
  axisSignsOk f a b c d && axisSignsOk f b c d a

def quadRegionOk (K : Nat) (r : RawRegion) : Bool :=
  r.kind != 2 ||
  (isPermOfRange r.order 4 &&
   match r.pos.mapM (scaleP3 K) with
   | some [p0, p1, p2, p3] =>
     let c := fun k => [p0, p1, p2, p3].getD (r.order.getD k 0) (0, 0, 0)
     quadSignsOk (c 0) (c 1) (c 2) (c 3)
   | _ => false)

def quadTablesOk (K : Nat) (ls : List RawLayout) : Bool := ls.all fun l => l.regions.all (quadRegionOk K)

end Earverif.PointSource.Cover
