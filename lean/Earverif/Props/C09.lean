/-
C09 — BW64 files written by the library are read back identically.

Property theorems about the byte-level models `Earverif.Bw64.closedFile` (Bw64Writer on a
BytesIO) and `Earverif.Bw64.readFile` (Bw64Reader on a BytesIO).  Lemmas are in
`Earverif/Proofs/C09*.lean`.
-/
import Earverif.Proofs.C09Read

namespace Earverif.Bw64

/-! ### the reader's header part on the two layouts -/

theorem readRiff_ok {f id s4 rest : Bytes} (hf : f = id ++ (s4 ++ (idWAVE ++ rest)))
    (hid : id = idRIFF ∨ id = idBW64) (hs : s4.length = 4) : readRiff f = .ok id := by
  have hidl : id.length = 4 := by rcases hid with rfl | rfl <;> rfl
  have h8 : readAt f 0 8 = id ++ s4 := by
    exact readAt_mid (a := []) (b := id ++ s4) (r := idWAVE ++ rest) (by simp [hf]) rfl (by simp [hidl, hs])
  have h4 : readAt f 8 4 = idWAVE := by
    exact readAt_mid (a := id ++ s4) (b := idWAVE) (r := rest) (by simp [hf]) (by simp [hidl, hs]) rfl
  have ht : (id ++ s4).take 4 = id := by rw [← hidl]; simp
  simp only [readRiff, h8, h4, ht]
  rcases hid with rfl | rfl <;> simp [hs, idRIFF, idRF64, idBW64, idWAVE]

theorem readHead_riff {f s4 rest : Bytes} (hf : f = idRIFF ++ (s4 ++ (idWAVE ++ rest))) (hs : s4.length = 4) :
    readHead f = .ok (idRIFF, none, 12) := by
  simp only [readHead, readRiff_ok hf (Or.inl rfl) hs]
  simp [idRIFF, idRF64, idBW64]

theorem readDs64_ok {f rest : Bytes} {R n : Nat}
    (hf : f = idBW64 ++ (ffff ++ (idWAVE ++ (ds64Chunk R n ++ rest)))) (hR : R < 2 ^ 64) (hn : n < 2 ^ 64) :
    readDs64 f = .ok (⟨R, n, []⟩, 48) := by
  have h8 : readAt f 12 8 = idDs64 ++ le 4 28 := by
    exact readAt_mid (a := idBW64 ++ (ffff ++ idWAVE)) (b := idDs64 ++ le 4 28)
      (r := (le 8 R ++ le 8 n ++ le 8 0 ++ le 4 0) ++ rest) (by simp [hf, ds64Chunk]) rfl rfl
  have h28 : readAt f 20 28 = le 8 R ++ (le 8 n ++ (le 8 0 ++ le 4 0)) := by
    exact readAt_mid (a := idBW64 ++ (ffff ++ (idWAVE ++ (idDs64 ++ le 4 28))))
      (b := le 8 R ++ (le 8 n ++ (le 8 0 ++ le 4 0))) (r := rest)
      (by simp [hf, ds64Chunk]) rfl (by simp [le_length])
  have e1 : fromLE ((le 8 R ++ (le 8 n ++ (le 8 0 ++ le 4 0))).take 8) = R := by
    rw [show (le 8 R ++ (le 8 n ++ (le 8 0 ++ le 4 0))).take 8 = le 8 R by
      rw [← le_length 8 R]; simp [le_length]]
    exact fromLE_le8 R hR
  have e2 : fromLE (((le 8 R ++ (le 8 n ++ (le 8 0 ++ le 4 0))).drop 8).take 8) = n := by
    rw [show ((le 8 R ++ (le 8 n ++ (le 8 0 ++ le 4 0))).drop 8).take 8 = le 8 n by
      rw [show (le 8 R ++ (le 8 n ++ (le 8 0 ++ le 4 0))).drop 8 = le 8 n ++ (le 8 0 ++ le 4 0) by
        rw [← le_length 8 R]; simp [le_length]]
      rw [← le_length 8 n]; simp [le_length]]
    exact fromLE_le8 n hn
  have e3 : fromLE (((le 8 R ++ (le 8 n ++ (le 8 0 ++ le 4 0))).drop 24).take 4) = 0 := by
    rw [show (le 8 R ++ (le 8 n ++ (le 8 0 ++ le 4 0))).drop 24 = le 4 0 by
      have : (le 8 R ++ (le 8 n ++ (le 8 0 ++ le 4 0))) = (le 8 R ++ le 8 n ++ le 8 0) ++ le 4 0 := by simp
      rw [this]
      apply List.drop_left' (by simp [le_length])]
    decide
  have hl : (le 8 R ++ (le 8 n ++ (le 8 0 ++ le 4 0))).length = 28 := by simp [le_length]
  have ht : (le 8 R ++ (le 8 n ++ (le 8 0 ++ le 4 0))).take 28 = le 8 R ++ (le 8 n ++ (le 8 0 ++ le 4 0)) := by
    rw [← hl]; exact List.take_length
  have hd4 : (idDs64 ++ le 4 28).take 4 = idDs64 := by decide
  have hd5 : fromLE ((idDs64 ++ le 4 28).drop 4) = 28 := by decide
  simp only [readDs64, h8, hd4, hd5, h28, ht, e1, e2, e3, hl, readDs64Table]
  simp [idDs64, le_length]

theorem readHead_bw64 {f rest : Bytes} {R n : Nat}
    (hf : f = idBW64 ++ (ffff ++ (idWAVE ++ (ds64Chunk R n ++ rest)))) (hR : R < 2 ^ 64) (hn : n < 2 ^ 64) :
    readHead f = .ok (idBW64, some ⟨R, n, []⟩, 48) := by
  simp only [readHead, readRiff_ok hf (Or.inr rfl) rfl, readDs64_ok hf hR hn]
  simp [idRF64, idBW64]

/-! ### size bounds -/

theorem optChnaB_length_le {c : Option (List ChnaEntry)} (h : ChnaOK c) : (optChnaB c).length ≤ 2 ^ 22 := by
  cases c with
  | none => simp [optChnaB]
  | some es =>
    have := chnaPayload_length es h.2
    have := h.1
    simp [optChnaB, chnaChunk, idChna, le_length]; omega

theorem optMetaB_length_le {id : Bytes} (hid : id.length = 4) {v : Option Bytes} (h : BytesOK v) :
    (optMetaB id v).length ≤ 2 ^ 32 + 9 := by
  rcases v with _ | _ | ⟨x, xs⟩
  · simp [optMetaB]
  · simp [optMetaB]
  · have : (x :: xs).length < 2 ^ 32 := h
    simp only [optMetaB, metaChunk, List.length_append, le_length, pad_length, hid]; omega

theorem preB_length_le {c0 : Option (List ChnaEntry)} {a0 b0 : Option Bytes} (hc : ChnaOK c0) (ha : BytesOK a0)
    (hb : BytesOK b0) : (preB c0 a0 b0).length ≤ 2 ^ 34 := by
  have := optChnaB_length_le hc
  have := optMetaB_length_le (id := idAxml) rfl ha
  have := optMetaB_length_le (id := idBext) rfl hb
  simp only [preB, List.length_append]; omega

theorem lateB_length_le {c : Option (List ChnaEntry)} {a b : Option Bytes} (cw aw bw : Bool) (hc : ChnaOK c)
    (ha : BytesOK a) (hb : BytesOK b) : (lateB cw aw bw c a b).length ≤ 2 ^ 34 := by
  have := optChnaB_length_le hc
  have := optMetaB_length_le (id := idAxml) rfl ha
  have := optMetaB_length_le (id := idBext) rfl hb
  cases cw <;> cases aw <;> cases bw <;> simp only [lateB, List.length_append] <;> simp <;> omega

/-! ### every written chunk is well formed -/

theorem preC_ok (ds : Option Ds64) (hds : ∀ d, ds = some d → d.table = []) {c0 : Option (List ChnaEntry)}
    {a0 b0 : Option Bytes} (hc : ChnaOK c0) (ha : BytesOK a0) (hb : BytesOK b0) :
    ∀ x ∈ preC c0 a0 b0, x.OK ds := by
  intro x hx
  simp only [preC, List.mem_append] at hx
  rcases hx with h | h | h
  · exact optChnaC_ok ds hds hc x h
  · exact optMetaC_ok ds hds (Or.inl rfl) ha x h
  · exact optMetaC_ok ds hds (Or.inr rfl) hb x h

theorem lateC_ok (ds : Option Ds64) (hds : ∀ d, ds = some d → d.table = []) {c : Option (List ChnaEntry)}
    {a b : Option Bytes} (cw aw bw : Bool) (hc : ChnaOK c) (ha : BytesOK a) (hb : BytesOK b) :
    ∀ x ∈ lateC cw aw bw c a b, x.OK ds := by
  intro x hx
  simp only [lateC, List.mem_append] at hx
  rcases hx with h | h | h
  · cases cw
    · exact optChnaC_ok ds hds hc x (by simpa using h)
    · simp at h
  · cases aw
    · exact optMetaC_ok ds hds (Or.inl rfl) ha x (by simpa using h)
    · simp at h
  · cases bw
    · exact optMetaC_ok ds hds (Or.inr rfl) hb x (by simpa using h)
    · simp at h

theorem bodyC_ok (ds : Option Ds64) (hds : ∀ d, ds = some d → d.table = []) {fmt : Fmt}
    {c0 cF : Option (List ChnaEntry)} {a0 b0 aF bF : Option Bytes} {sz : Nat} {data dp : Bytes}
    (hc0 : ChnaOK c0) (hcF : ChnaOK cF) (ha0 : BytesOK a0) (haF : BytesOK aF) (hb0 : BytesOK b0) (hbF : BytesOK bF)
    (hd : (dataC sz data dp).OK ds) :
    ∀ x ∈ bodyC fmt c0 a0 b0 sz data dp cF aF bF, x.OK ds := by
  intro x hx
  simp only [bodyC, List.mem_cons, List.mem_append] at hx
  rcases hx with rfl | h | rfl | h
  · exact fmtC_ok ds hds fmt
  · exact preC_ok ds hds hc0 ha0 hb0 x h
  · exact hd
  · exact lateC_ok ds hds _ _ _ hcF haF hbF x h

theorem length_le_encAll (cs : List Chunk) (h : ∀ c ∈ cs, c.id.length = 4) : cs.length ≤ (encAll cs).length := by
  induction cs with
  | nil => simp
  | cons c cs ih =>
    have : c.enc.length ≥ 8 := by simp [Chunk.enc, le_length, h c (by simp)]; omega
    have := ih (fun x hx => h x (by simp [hx]))
    simp only [encAll_cons, List.length_cons, List.length_append]; omega

theorem fuel_ok {pre f : Bytes} {cs : List Chunk} (hf : f = pre ++ encAll cs) (h : ∀ c ∈ cs, c.id.length = 4) :
    cs.length < f.length + 1 := by
  have := length_le_encAll cs h
  subst hf; simp only [List.length_append]; omega

/-! ### the property -/

/-- **C09 (round trip).**  For every PCM format the writer supports (16/24/32 bit, at least one channel,
positive rate, fields within their `struct` widths), every history of `write` calls (any partition of the
encoded sample bytes into blocks, empty blocks included) and chunk setter calls, metadata chunks given to
the constructor and/or pending at `close` (each absent, empty = treated as absent, or of any length below
2^32; chna entries as `AudioID.asByteArray` lays them out), with or without `forceBw64`, whole frames and
fewer than 2^63 data bytes in total:

the reader accepts the finalised file **without any warning** and returns the same format, a frame count
of `bytes / blockAlignment`, exactly the written sample bytes, and for each metadata chunk exactly the value
that was supplied (`effChna` / `effMeta`: the constructor's value if it was written there, else the value
pending at `close`; `None` if neither is truthy).  The container id is `BW64` whenever `forceBw64` is set
(or the RIFF size does not fit 32 bits), else `RIFF`. -/
theorem C09_roundtrip (fmt : Fmt) (c0 : Option (List ChnaEntry)) (a0 b0 : Option Bytes) (force : Bool)
    (ops : List WOp)
    (hfmt : FmtOK fmt)
    (hc0 : ChnaOK c0) (hcF : ChnaOK (pendChna c0 ops))
    (ha0 : BytesOK a0) (haF : BytesOK (pendAxml a0 ops))
    (hb0 : BytesOK b0) (hbF : BytesOK (pendBext b0 ops))
    (hframes : (dataOf ops).length % fmt.blockAlign = 0)
    (hdata : (dataOf ops).length < 2 ^ 63) :
    ∃ ff, (ff = idRIFF ∨ ff = idBW64) ∧ (force = true → ff = idBW64) ∧
      readFile (closedFile fmt c0 a0 b0 force ops) =
        .ok (⟨ff, ⟨1, fmt.channels, fmt.rate, fmt.bits⟩, (dataOf ops).length / fmt.blockAlign, dataOf ops,
              effChna c0 (pendChna c0 ops), effMeta a0 (pendAxml a0 ops), effMeta b0 (pendBext b0 ops)⟩, []) := by
  obtain ⟨hop, hoc, hoa, hob⟩ := openW_opened fmt c0 a0 b0 force
  obtain ⟨hrun, hrc, hra, hrb⟩ := runW_opened ops hop
  rw [hoc] at hrc; rw [hoa] at hra; rw [hob] at hrb
  simp only [List.nil_append] at hrun
  have hlay := closeW_layout hrun
  rw [hrc, hra, hrb] at hlay
  have hpre := preB_eq hc0 a0 b0
  have hlate := lateB_eq hcF c0.isSome (truthy a0) (truthy b0) (pendAxml a0 ops) (pendBext b0 ops)
  have hpl := preB_length_le hc0 ha0 hb0
  have hll := lateB_length_le c0.isSome (truthy a0) (truthy b0) hcF haF hbF
  simp only [closedFile]
  rw [hlay]
  simp only []
  generalize hR : riffSizeOf (preB c0 a0 b0) (dataOf ops)
    (lateB c0.isSome (truthy a0) (truthy b0) (pendChna c0 ops) (pendAxml a0 ops) (pendBext b0 ops)) = R
  have hRlt : R < 2 ^ 64 := by rw [← hR]; unfold riffSizeOf; omega
  have hnR : (dataOf ops).length ≤ R := by rw [← hR]; unfold riffSizeOf; omega
  split
  · -- BW64
    rename_i hbw
    refine ⟨idBW64, Or.inr rfl, fun _ => rfl, ?_⟩
    generalize hfile : idBW64 ++ (ffff ++ (idWAVE ++ (ds64Chunk R (dataOf ops).length ++ (fmtChunk fmt ++
      (preB c0 a0 b0 ++ (idData ++ (ffff ++ (dataOf ops ++ (pad (dataOf ops).length ++
        lateB c0.isSome (truthy a0) (truthy b0) (pendChna c0 ops) (pendAxml a0 ops) (pendBext b0 ops)))))))))) = f
    have hds : ∀ d, (some (⟨R, (dataOf ops).length, []⟩ : Ds64)) = some d → d.table = [] := by
      intro d hd; cases hd; rfl
    have hf : f = (idBW64 ++ (ffff ++ (idWAVE ++ ds64Chunk R (dataOf ops).length))) ++
        encAll ([] ++ bodyC fmt c0 a0 b0 4294967295 (dataOf ops) (pad (dataOf ops).length) (pendChna c0 ops) (pendAxml a0 ops) (pendBext b0 ops)) := by
      rw [← hfile, hpre, hlate, fmtChunk_eq]
      have hffff : le 4 4294967295 = ffff := by decide
      simp [bodyC, dataC, Chunk.enc, hffff]
    have hhead := readHead_bw64 (f := f) (rest := _) hfile.symm hRlt (by omega)
    have hdOK : (dataC 4294967295 (dataOf ops) (pad (dataOf ops).length)).OK (some ⟨R, (dataOf ops).length, []⟩) :=
      ⟨by simp only [dataC]; decide, by simp only [dataC]; decide, by simp only [dataC]; omega,
        by simp [effSize, hdrSize, dataC], by simp [dataC, pad_length]⟩
    have hok : ∀ c ∈ ([] ++ bodyC fmt c0 a0 b0 4294967295 (dataOf ops) (pad (dataOf ops).length) (pendChna c0 ops) (pendAxml a0 ops)
        (pendBext b0 ops)), c.OK (some ⟨R, (dataOf ops).length, []⟩) := by
      simpa using bodyC_ok _ hds hc0 hcF ha0 haF hb0 hbF hdOK
    have hw := walk_chunks _ _ hok _ f (f.length + 1) [] [] hf (fuel_ok hf (fun c hc => (hok c hc).idLen))
    have hpl48 : (idBW64 ++ (ffff ++ (idWAVE ++ ds64Chunk R (dataOf ops).length))).length = 48 := by
      simp [idBW64, ffff, idWAVE, ds64Chunk, idDs64, le_length]
    rw [hpl48] at hw
    have hf' : f = (idBW64 ++ (ffff ++ (idWAVE ++ ds64Chunk R (dataOf ops).length))) ++
        (encAll ([] ++ bodyC fmt c0 a0 b0 4294967295 (dataOf ops) (pad (dataOf ops).length) (pendChna c0 ops) (pendAxml a0 ops)
          (pendBext b0 ops)) ++ []) := by
      rw [List.append_nil]; exact hf
    have hfin := finishRead_written (w := []) (ff := idBW64) (ds := some ⟨R, (dataOf ops).length, []⟩) hfmt hc0 hcF hf'
      (by simp) (by intro d hd; cases hd; rfl) hframes
    rw [hpl48] at hfin
    simp only [readFile, hhead, hw, hfin]
  · -- RIFF
    rename_i hbw
    have hforce : force = false := by
      cases force
      · rfl
      · simp at hbw
    have hR32 : R < 2 ^ 32 := by
      simp at hbw; omega
    refine ⟨idRIFF, Or.inl rfl, fun h => by simp [hforce] at h, ?_⟩
    generalize hfile : idRIFF ++ (le 4 R ++ (idWAVE ++ (junkChunk ++ (fmtChunk fmt ++
      (preB c0 a0 b0 ++ (idData ++ (le 4 (dataOf ops).length ++ (dataOf ops ++ (pad (dataOf ops).length ++
        lateB c0.isSome (truthy a0) (truthy b0) (pendChna c0 ops) (pendAxml a0 ops) (pendBext b0 ops)))))))))) = f
    have hds : ∀ d, (none : Option Ds64) = some d → d.table = [] := by intro d hd; cases hd
    have hf : f = (idRIFF ++ (le 4 R ++ idWAVE)) ++
        encAll ([junkC] ++ bodyC fmt c0 a0 b0 (dataOf ops).length (dataOf ops) (pad (dataOf ops).length) (pendChna c0 ops) (pendAxml a0 ops)
          (pendBext b0 ops)) := by
      rw [← hfile, hpre, hlate, fmtChunk_eq, junkChunk_eq]
      simp [bodyC, dataC, Chunk.enc]
    have hhead := readHead_riff (f := f) (s4 := le 4 R) (rest := _) hfile.symm (le_length 4 R)
    have hdOK : (dataC (dataOf ops).length (dataOf ops) (pad (dataOf ops).length)).OK none :=
      ⟨by simp only [dataC]; decide, by simp only [dataC]; decide, by simp only [dataC]; omega,
        by simp [effSize, hdrSize, dataC], by simp [dataC, pad_length]⟩
    have hok : ∀ c ∈ ([junkC] ++ bodyC fmt c0 a0 b0 (dataOf ops).length (dataOf ops) (pad (dataOf ops).length) (pendChna c0 ops)
        (pendAxml a0 ops) (pendBext b0 ops)), c.OK none := by
      intro c hc
      rcases List.mem_append.1 hc with h | h
      · rw [List.mem_singleton.1 h]; exact junkC_ok
      · exact bodyC_ok _ hds hc0 hcF ha0 haF hb0 hbF hdOK c h
    have hw := walk_chunks _ _ hok _ f (f.length + 1) [] [] hf (fuel_ok hf (fun c hc => (hok c hc).idLen))
    have hpl12 : (idRIFF ++ (le 4 R ++ idWAVE)).length = 12 := by simp [idRIFF, idWAVE, le_length]
    rw [hpl12] at hw
    have hf' : f = (idRIFF ++ (le 4 R ++ idWAVE)) ++
        (encAll ([junkC] ++ bodyC fmt c0 a0 b0 (dataOf ops).length (dataOf ops) (pad (dataOf ops).length) (pendChna c0 ops)
          (pendAxml a0 ops) (pendBext b0 ops)) ++ []) := by
      rw [List.append_nil]; exact hf
    have hfin := finishRead_written (w := []) (ff := idRIFF) (ds := none) hfmt hc0 hcF hf'
      (by intro x hx; rw [List.mem_singleton.1 hx]; rfl) (by intro d hd; cases hd) hframes
    rw [hpl12] at hfin
    simp only [readFile, hhead, hw, hfin]

/-! ### reading the statement in the property's terms -/

/-- a chunk given to the constructor (and not touched afterwards) comes back as given, empty = absent -/
theorem effMeta_open (v : Option Bytes) : effMeta v v = if truthy v then v else none := by
  unfold effMeta; split <;> rfl

/-- a chunk set only before `close` comes back as set, empty = absent -/
theorem effMeta_late (v : Option Bytes) : effMeta none v = if truthy v then v else none := by
  simp [effMeta, truthy]

theorem effChna_open (c : Option (List ChnaEntry)) : effChna c c = c := by unfold effChna; split <;> rfl
theorem effChna_late (c : Option (List ChnaEntry)) : effChna none c = c := by simp [effChna]

/-! ### non-vacuity: concrete inputs satisfy the hypotheses, and the model computes on them -/

deriving instance DecidableEq for Except
instance (e : ChnaEntry) : Decidable e.OK := by unfold ChnaEntry.OK; infer_instance

/-- 24 bit, 3 channels: one frame is 9 bytes, an odd data chunk -/
def exFmt : Fmt := ⟨3, 48000, 24⟩
def exAxml : Bytes := [60, 97, 62]                 -- odd length
def exBext : Bytes := [1, 2, 3, 4, 5]              -- odd length
def exData : Bytes := [1, 2, 3, 4, 5, 6, 7, 8, 9]
/-- `AudioID(1, "ATU_00000001", "AC_00010001", "AP_00010001")` (a v2 channel-format reference) -/
def exEntry : ChnaEntry :=
  ⟨1, [65,84,85,95,48,48,48,48,48,48,48,49, 65,67,95,48,48,48,49,48,48,48,49,95,48,48,
       65,80,95,48,48,48,49,48,48,48,49, 0]⟩

example : FmtOK exFmt := ⟨by decide, by decide, by decide, by decide, by decide, by decide, by decide⟩
example : ChnaOK (some [exEntry]) := ⟨by decide, by simp; decide⟩
example : BytesOK (some exAxml) ∧ BytesOK (some exBext) :=
  ⟨by show exAxml.length < 2 ^ 32; decide, by show exBext.length < 2 ^ 32; decide⟩
example : exData.length % exFmt.blockAlign = 0 := by decide

set_option maxRecDepth 100000 in
/-- forced BW64, odd axml at open, odd bext set late, odd data -/
example : readFile (closedFile exFmt none (some exAxml) none true [.write exData, .setBext (some exBext)])
    = .ok (⟨idBW64, ⟨1, 3, 48000, 24⟩, 1, exData, none, some exAxml, some exBext⟩, []) := by decide +kernel

set_option maxRecDepth 100000 in
/-- plain RIFF, chna set late, bext at open, axml late, data written in three calls (one empty) -/
example : readFile (closedFile exFmt none none (some exBext) false
      [.write [1, 2, 3], .setChna (some [exEntry]), .write [], .setAxml (some exAxml), .write [4, 5, 6, 7, 8, 9]])
    = .ok (⟨idRIFF, ⟨1, 3, 48000, 24⟩, 1, exData, some [exEntry], some exAxml, some exBext⟩, []) := by decide +kernel

set_option maxRecDepth 100000 in
/-- the file of the previous example is 168 bytes: header 12, JUNK 36, fmt 24, bext 8+5+1, data 8+9+1,
chna 8+44, axml 8+3+1; an empty `b''` value is not written at all -/
example : (closedFile exFmt none none (some exBext) false
      [.write [1, 2, 3], .setChna (some [exEntry]), .write [], .setAxml (some exAxml), .write [4, 5, 6, 7, 8, 9]]).length = 168
    ∧ closedFile exFmt none (some []) none false [] = closedFile exFmt none none none false [] := by decide +kernel

end Earverif.Bw64
