/-
Exact models of the hand-written handler pairs of `ear.fileio.adm.xml` (the ones that are parameters in
`Model/XmlCodec.lean`), over the same abstract XML tree.  Core Lean only.

* `handle_frequency` / `frequency_to_xml`                     (audioChannelFormat `frequency`)
* `handle_jump_position` / `jump_position_to_xml`             (Objects `jumpPosition`)
* `parse_speaker_position` / `speaker_position_to_xml`        (DirectSpeakers `position`, incl. bounds and
                                                               screenEdgeLock)
* `parse_objects_position` / `object_position_to_xml`         (Objects `position`)
* `handle_gain_element_v1/v2`, `gain_to_xml`, `optional_gain_to_xml`, `handle_gain_attribute_v1/v2`,
  `gain_attribute_to_xml`, `handle_channel_lock`, `handle_divergence`, `parse_zone` / zoneExclusion
* `handle_position_offset` / `position_offset_to_xml`         (audioObject / alternativeValueSet `positionOffset`)
* `handle_centre_position`, `handle_screen_width`, `handle_screen_type` and their `to_xml`
                                                              (audioProgrammeReferenceScreen, polar and Cartesian)
* `handle_gainInteractionRange`, `handle_positionInteractionRange` and their `to_xml` (audioObjectInteraction)

Floats are on the printable grid: an `Int` `k` stands for `k / 100000`, printed by `dumpsNum`
(`"{:.5f}".format`) and read by `loadsNum` (`float()` on exactly that spelling; other spellings that
Python's `float()` / `Fraction()` accept are outside the model).  `interpolationLength` is a `Fraction`
printed by `"{:07.5f}".format(float(t))` — for `t ≥ 0` on the grid the same text as `dumpsNum`.

The handlers that use the `xpath` helper visit the children namespace by namespace; the models take the elements
in the order they are visited (`XmlBlocks.xpathChildren`; document order when they share a namespace, as in
everything `to_xml` writes).
-/
import Earverif.Model.XmlLeaf

namespace Earverif.XmlCustom
open Earverif.XmlCodec

def attr? (e : Xml) (k : String) : Option String := (e.attrs.find? (·.1 == k)).map (·.2)

def elem (name : String) (attrs : List (String × String)) (text : String) : Xml :=
  .node (outName name) attrs [] text

/-! ### frequency -/

structure Frequency where
  lowPass : Option Int
  highPass : Option Int
  deriving DecidableEq, Repr

/-- `handle_frequency(kwargs, el)` on `kwargs.setdefault("frequency", Frequency())` -/
def handleFrequency (f : Frequency) (e : Xml) : Option Frequency :=
  match attr? e "typeDefinition" with
  | none => none                                   -- KeyError
  | some ty =>
    match loadsNum e.text with
    | none => none                                 -- float() raises
    | some v =>
      if ty = "lowPass" then (if f.lowPass.isSome then none else some { f with lowPass := some v })
      else if ty = "highPass" then (if f.highPass.isSome then none else some { f with highPass := some v })
      else none

/-- all `frequency` children, starting from `Frequency()` -/
def parseFrequency (es : List Xml) : Option Frequency :=
  es.foldlM handleFrequency ⟨none, none⟩

/-- `frequency_to_xml` -/
def frequencyToXml (f : Frequency) : List Xml :=
  (match f.lowPass with
    | some v => [elem "frequency" [("typeDefinition", "lowPass")] (dumpsNum v)]
    | none => []) ++
  (match f.highPass with
    | some v => [elem "frequency" [("typeDefinition", "highPass")] (dumpsNum v)]
    | none => [])

/-! ### jumpPosition -/

structure JumpPosition where
  flag : Bool
  /-- `interpolationLength` in units of 1e-5 s -/
  interpolationLength : Option Int
  deriving DecidableEq, Repr

/-- `handle_jump_position`: the value stored in `kwargs["jumpPosition"]` (a later element replaces an
earlier one) -/
def handleJumpPosition (e : Xml) : Option JumpPosition :=
  match boolCodec.loads e.text with
  | some (.bool b) =>
    match attr? e "interpolationLength" with
    | none => some ⟨b, none⟩
    | some s => (loadsNum s).map fun k => ⟨b, some k⟩
  | _ => none

/-- all `jumpPosition` children; absent: the constructor default `JumpPosition()` -/
def parseJumpPosition (es : List Xml) : Option JumpPosition :=
  es.foldlM (fun _ e => handleJumpPosition e) ⟨false, none⟩

/-- `jump_position_to_xml`: nothing at all unless the flag is set -/
def jumpPositionToXml (j : JumpPosition) : List Xml :=
  if j.flag then
    [elem "jumpPosition"
      (match j.interpolationLength with | some k => [("interpolationLength", dumpsNum k)] | none => []) "1"]
  else []

/-! ### DirectSpeakers position -/

structure Bound where
  value : Int
  min : Option Int
  max : Option Int
  deriving DecidableEq, Repr

structure ScreenEdgeLock where
  horizontal : Option String
  vertical : Option String
  deriving DecidableEq, Repr

inductive SpeakerPosition where
  | polar (azimuth elevation distance : Bound) (sel : ScreenEdgeLock)
  | cartesian (x y z : Bound) (sel : ScreenEdgeLock)
  deriving DecidableEq, Repr

/-- a small insertion-ordered dictionary -/
abbrev Dict (α : Type) := List (String × α)

def Dict.get? {α} (d : Dict α) (k : String) : Option α := (d.find? (·.1 == k)).map (·.2)

def Dict.set {α} (d : Dict α) (k : String) (v : α) : Dict α :=
  if d.any (·.1 == k) then d.map fun e => if e.1 == k then (k, v) else e else d ++ [(k, v)]

structure PosState where
  /-- `position[coordinate][bound]` -/
  position : Dict (Dict Int)
  sel : ScreenEdgeLock

/-- one iteration of the loop in `parse_speaker_position` -/
def speakerStep (st : PosState) (e : Xml) : Option PosState :=
  match attr? e "coordinate" with
  | none => none                                                -- KeyError
  | some coordinate =>
    let bound := (attr? e "bound").getD "value"
    match loadsNum e.text with
    | none => none
    | some v =>
      let inner := (st.position.get? coordinate).getD []
      let position := st.position.set coordinate (inner.set bound v)
      match attr? e "screenEdgeLock" with
      | none => some ⟨position, st.sel⟩
      | some s =>
        if bound ≠ "value" then none
        else if (coordinate = "azimuth" ∨ coordinate = "X") ∧ (s = "left" ∨ s = "right") then
          some ⟨position, { st.sel with horizontal := some s }⟩
        else if (coordinate = "elevation" ∨ coordinate = "Z") ∧ (s = "top" ∨ s = "bottom") then
          some ⟨position, { st.sel with vertical := some s }⟩
        else none

/-- `BoundCoordinate(**d)`: `value` is required, `min` / `max` optional, any other key is a `TypeError` -/
def boundOf (d : Dict Int) : Option Bound :=
  if d.all (fun e => e.1 == "value" || e.1 == "min" || e.1 == "max") then
    (d.get? "value").map fun v => ⟨v, d.get? "min", d.get? "max"⟩
  else none

def sameKeys {α} (d : Dict α) (ks : List String) : Bool :=
  d.all (fun e => ks.contains e.1) && ks.all (fun k => d.any (·.1 == k))

/-- the end of `parse_speaker_position` -/
def speakerFinish (st : PosState) : Option SpeakerPosition :=
  let p := st.position
  if sameKeys p ["azimuth", "elevation"] || sameKeys p ["azimuth", "elevation", "distance"] then do
    let az ← boundOf ((p.get? "azimuth").getD [])
    let el ← boundOf ((p.get? "elevation").getD [])
    let di ← match p.get? "distance" with
      | some d => boundOf d
      | none => some ⟨100000, none, none⟩
    some (.polar az el di st.sel)
  else if sameKeys p ["X", "Y"] || sameKeys p ["X", "Y", "Z"] then do
    let x ← boundOf ((p.get? "X").getD [])
    let y ← boundOf ((p.get? "Y").getD [])
    let z ← match p.get? "Z" with
      | some d => boundOf d
      | none => some ⟨0, none, none⟩
    some (.cartesian x y z st.sel)
  else none

/-- `parse_speaker_position` on the `position` elements in visiting order -/
def parseSpeakerPosition (es : List Xml) : Option SpeakerPosition :=
  (es.foldlM speakerStep ⟨[], ⟨none, none⟩⟩).bind speakerFinish

def lockAttrs : Option String → List (String × String)
  | some s => [("screenEdgeLock", s)]
  | none => []

/-- `dump_bound` in `speaker_position_to_xml` -/
def dumpBound (coordinate : String) (b : Bound) (sel : Option String) : List Xml :=
  [elem "position" (("coordinate", coordinate) :: lockAttrs sel) (dumpsNum b.value)] ++
  (match b.max with
    | some v => [elem "position" [("coordinate", coordinate), ("bound", "max")] (dumpsNum v)]
    | none => []) ++
  (match b.min with
    | some v => [elem "position" [("coordinate", coordinate), ("bound", "min")] (dumpsNum v)]
    | none => [])

/-- `speaker_position_to_xml` -/
def speakerPositionToXml : SpeakerPosition → List Xml
  | .polar az el di sel =>
    dumpBound "azimuth" az sel.horizontal ++ dumpBound "elevation" el sel.vertical ++
    (if di ≠ ⟨100000, none, none⟩ then dumpBound "distance" di none else [])
  | .cartesian x y z sel =>
    dumpBound "X" x sel.horizontal ++ dumpBound "Y" y none ++ dumpBound "Z" z sel.vertical

/-! ### Objects position (`parse_objects_position` / `object_position_to_xml`) -/

inductive ObjectPosition where
  | polar (azimuth elevation distance : Int) (sel : ScreenEdgeLock)
  | cartesian (x y z : Int) (sel : ScreenEdgeLock)
  deriving DecidableEq, Repr

structure ObjPosState where
  /-- `position[coordinate]` -/
  position : Dict Int
  sel : ScreenEdgeLock

/-- one iteration of the loop in `parse_objects_position` (a `bound` attribute is ignored here) -/
def objectStep (st : ObjPosState) (e : Xml) : Option ObjPosState :=
  match attr? e "coordinate" with
  | none => none                                                -- "missing coordinate attr"
  | some coordinate =>
    if st.position.any (·.1 == coordinate) then none             -- "duplicate … coordinates specified"
    else match loadsNum e.text with
    | none => none
    | some v =>
      let position := st.position ++ [(coordinate, v)]
      match attr? e "screenEdgeLock" with
      | none => some ⟨position, st.sel⟩
      | some s =>
        if (coordinate = "azimuth" ∨ coordinate = "X") ∧ (s = "left" ∨ s = "right") then
          some ⟨position, { st.sel with horizontal := some s }⟩
        else if (coordinate = "elevation" ∨ coordinate = "Z") ∧ (s = "top" ∨ s = "bottom") then
          some ⟨position, { st.sel with vertical := some s }⟩
        else none

/-- the end of `parse_objects_position`, including the range validators of `ObjectPolarPosition`
(azimuth in [-180, 180], elevation in [-90, 90], distance ≥ 0) -/
def objectFinish (st : ObjPosState) : Option ObjectPosition :=
  let p := st.position
  if sameKeys p ["azimuth", "elevation"] || sameKeys p ["azimuth", "elevation", "distance"] then do
    let az ← p.get? "azimuth"
    let el ← p.get? "elevation"
    let di := (p.get? "distance").getD 100000
    if -18000000 ≤ az ∧ az ≤ 18000000 ∧ -9000000 ≤ el ∧ el ≤ 9000000 ∧ 0 ≤ di then
      some (.polar az el di st.sel) else none
  else if sameKeys p ["X", "Y"] || sameKeys p ["X", "Y", "Z"] then do
    let x ← p.get? "X"
    let y ← p.get? "Y"
    some (.cartesian x y ((p.get? "Z").getD 0) st.sel)
  else none

/-- `parse_objects_position` on the `position` elements in visiting order -/
def parseObjectPosition (es : List Xml) : Option ObjectPosition :=
  (es.foldlM objectStep ⟨[], ⟨none, none⟩⟩).bind objectFinish

/-- `dump_coordinate` -/
def dumpCoordinate (coordinate : String) (v : Int) (sel : Option String) : Xml :=
  elem "position" (("coordinate", coordinate) :: lockAttrs sel) (dumpsNum v)

/-- `object_position_to_xml` -/
def objectPositionToXml : ObjectPosition → List Xml
  | .polar az el di sel =>
    [dumpCoordinate "azimuth" az sel.horizontal, dumpCoordinate "elevation" el sel.vertical] ++
    (if di ≠ 100000 then [dumpCoordinate "distance" di none] else [])
  | .cartesian x y z sel =>
    [dumpCoordinate "X" x sel.horizontal, dumpCoordinate "Y" y none] ++
    (if z ≠ 0 ∨ sel.vertical ≠ none then [dumpCoordinate "Z" z sel.vertical] else [])

/-! ### gain (`handle_gain_element_v1/v2`, `gain_to_xml`, `optional_gain_to_xml`, `handle_gain_attribute_v1/v2`,
`gain_attribute_to_xml`) -/

/-- result of `parse_gain`: a linear gain on the grid, or a gain given in dB (`10 ** (g / 20)`, a float that
is not on the grid and is kept symbolic) -/
inductive Gain where
  | linear (k : Int)
  | dB (k : Int)
  deriving DecidableEq, Repr

/-- `parse_gain(gain_str, gainUnit)` -/
def parseGain (s : String) (unit : String) : Option Gain :=
  match loadsNum s with
  | none => none
  | some k => if unit = "linear" then some (.linear k) else if unit = "dB" then some (.dB k) else none

/-- the `gain` sub-element handlers; `present` = `"gain" in kwargs` -/
def handleGainElement (v2 : Bool) (present : Bool) (e : Xml) : Option Gain :=
  if present then none                                        -- "multiple gain elements found"
  else if v2 then parseGain e.text ((attr? e "gainUnit").getD "linear")
  else if (attr? e "gainUnit").isSome then none               -- "gainUnit is a BS.2076-2 feature"
  else (loadsNum e.text).map .linear

/-- all `gain` children of an element whose constructor default is 1.0 -/
def parseGainElements (v2 : Bool) (es : List Xml) : Option (Option Gain) :=
  es.foldlM (fun acc e => (handleGainElement v2 acc.isSome e).map some) none

/-- `gain_to_xml`: elided when it is 1.0 -/
def gainToXml (k : Int) : List Xml := if k ≠ 100000 then [elem "gain" [] (dumpsNum k)] else []

/-- `optional_gain_to_xml` (alternativeValueSet): elided when `None` -/
def optionalGainToXml : Option Int → List Xml
  | some k => [elem "gain" [] (dumpsNum k)]
  | none => []

/-- `handle_gain_attribute_v1/v2` on the element's attributes: `none` = raises, `some none` = no gain -/
def handleGainAttribute (v2 : Bool) (e : Xml) : Option (Option Gain) :=
  if v2 then
    match attr? e "gain" with
    | some g => (parseGain g ((attr? e "gainUnit").getD "linear")).map some
    | none => if (attr? e "gainUnit").isSome then none else some none
  else
    if (attr? e "gainUnit").isSome then none
    else match attr? e "gain" with
      | some g => (loadsNum g).map fun k => some (.linear k)
      | none => some none

/-- `gain_attribute_to_xml` -/
def gainAttributeToXml : Option Int → List (String × String)
  | some k => [("gain", dumpsNum k)]
  | none => []

/-! ### channelLock -/

structure ChannelLock where
  maxDistance : Option Int
  deriving DecidableEq, Repr

/-- `handle_channel_lock`: `none` = raises, `some none` = text `0` (nothing stored),
`some (some c)` = stored in `kwargs["channelLock"]` -/
def handleChannelLock (e : Xml) : Option (Option ChannelLock) :=
  if e.text = "0" then some none
  else if e.text = "1" then
    match attr? e "maxDistance" with
    | some s => (loadsNum s).map fun k => some ⟨some k⟩
    | none => some (some ⟨none⟩)
  else none

/-- all `channelLock` children (a later `1` replaces an earlier one, a `0` changes nothing) -/
def parseChannelLock (es : List Xml) : Option (Option ChannelLock) :=
  es.foldlM (fun acc e => (handleChannelLock e).map fun r => match r with | some c => some c | none => acc) none

/-- `channel_lock_to_xml` -/
def channelLockToXml : Option ChannelLock → List Xml
  | some c => [elem "channelLock"
      (match c.maxDistance with | some k => [("maxDistance", dumpsNum k)] | none => []) "1"]
  | none => []

/-! ### objectDivergence -/

structure ObjectDivergence where
  value : Int
  azimuthRange : Option Int
  positionRange : Option Int
  deriving DecidableEq, Repr

def optNum (e : Xml) (k : String) : Option (Option Int) :=
  match attr? e k with
  | some s => (loadsNum s).map some
  | none => some none

/-- `handle_divergence` -/
def handleDivergence (e : Xml) : Option ObjectDivergence := do
  let v ← loadsNum e.text
  let a ← optNum e "azimuthRange"
  let p ← optNum e "positionRange"
  some ⟨v, a, p⟩

def parseDivergence (es : List Xml) : Option (Option ObjectDivergence) :=
  es.foldlM (fun _ e => (handleDivergence e).map some) none

/-- `divergence_to_xml` -/
def divergenceToXml : Option ObjectDivergence → List Xml
  | some d => [elem "objectDivergence"
      ((match d.azimuthRange with | some k => [("azimuthRange", dumpsNum k)] | none => []) ++
       (match d.positionRange with | some k => [("positionRange", dumpsNum k)] | none => [])) (dumpsNum d.value)]
  | none => []

/-! ### zoneExclusion -/

inductive Zone where
  | cartesian (minX minY minZ maxX maxY maxZ : Int)
  | polar (minElevation maxElevation minAzimuth maxAzimuth : Int)
  deriving DecidableEq, Repr

def cartKeys : List String := ["minX", "minY", "minZ", "maxX", "maxY", "maxZ"]
def polarKeys : List String := ["minAzimuth", "maxAzimuth", "minElevation", "maxElevation"]

def hasKey (e : Xml) (k : String) : Bool := e.attrs.any (·.1 == k)

/-- `parse_zone` (other attributes are ignored) -/
def parseZone (e : Xml) : Option Zone :=
  let num (k : String) : Option Int := (attr? e k).bind loadsNum
  if cartKeys.all (hasKey e) && !polarKeys.any (hasKey e) then do
    some (.cartesian (← num "minX") (← num "minY") (← num "minZ") (← num "maxX") (← num "maxY") (← num "maxZ"))
  else if polarKeys.all (hasKey e) && !cartKeys.any (hasKey e) then do
    some (.polar (← num "minElevation") (← num "maxElevation") (← num "minAzimuth") (← num "maxAzimuth"))
  else none

/-- `zone_to_xml` -/
def zoneToXml : Zone → Xml
  | .cartesian a b c d e f =>
    elem "zone" [("minX", dumpsNum a), ("minY", dumpsNum b), ("minZ", dumpsNum c), ("maxX", dumpsNum d),
      ("maxY", dumpsNum e), ("maxZ", dumpsNum f)] ""
  | .polar minEl maxEl minAz maxAz =>
    elem "zone" [("minAzimuth", dumpsNum minAz), ("maxAzimuth", dumpsNum maxAz), ("minElevation", dumpsNum minEl),
      ("maxElevation", dumpsNum maxEl)] ""

/-- the inner `ElementParser` of `zoneExclusion`: every child named `zone` (any listed namespace) is parsed
and appended; other children are ignored -/
def parseZoneExclusionElement (e : Xml) : Option (List Zone) :=
  (e.children.filter fun c => matchesName c.tag "zone").mapM parseZone

/-- all `zoneExclusion` children of a block format (a later one replaces an earlier one); `none` inside =
absent (constructor default `[]`) -/
def parseZoneExclusion (es : List Xml) : Option (Option (List Zone)) :=
  es.foldlM (fun _ e => (parseZoneExclusionElement e).map some) none

/-- `zone_exclusion_handler.as_handler("zoneExclusion", default=[]).to_xml` -/
def zoneExclusionToXml (zs : List Zone) : List Xml :=
  if zs ≠ [] then [.node (outName "zoneExclusion") [] (zs.map zoneToXml) ""] else []

/-! ### positionOffset (`handle_position_offset` / `position_offset_to_xml`, audioObject and alternativeValueSet) -/

inductive PositionOffset where
  | polar (azimuth elevation distance : Int)
  | cartesian (x y z : Int)
  deriving DecidableEq, Repr

/-- one iteration of the loop in `handle_position_offset` -/
def offsetStep (d : Dict Int) (e : Xml) : Option (Dict Int) :=
  match attr? e "coordinate" with
  | none => none                                                -- "missing coordinate attr"
  | some c =>
    if d.any (·.1 == c) then none                                -- "duplicate … coordinates specified"
    else (loadsNum e.text).map fun v => d ++ [(c, v)]

def subsetKeys {α} (d : Dict α) (ks : List String) : Bool := d.all (fun e => ks.contains e.1)

/-- the end of `handle_position_offset`: `some none` = nothing stored (no `positionOffset` elements) -/
def offsetFinish (d : Dict Int) : Option (Option PositionOffset) :=
  if d.isEmpty then some none
  else if subsetKeys d ["azimuth", "elevation", "distance"] then
    some (some (.polar ((d.get? "azimuth").getD 0) ((d.get? "elevation").getD 0) ((d.get? "distance").getD 0)))
  else if subsetKeys d ["X", "Y", "Z"] then
    some (some (.cartesian ((d.get? "X").getD 0) ((d.get? "Y").getD 0) ((d.get? "Z").getD 0)))
  else none

/-- `handle_position_offset` on the `positionOffset` elements in visiting order -/
def parsePositionOffset (es : List Xml) : Option (Option PositionOffset) :=
  (es.foldlM offsetStep []).bind offsetFinish

/-- `dump_coordinate` in `position_offset_to_xml`: zero components are not written -/
def dumpOffset (coordinate : String) (v : Int) : List Xml :=
  if v ≠ 0 then [elem "positionOffset" [("coordinate", coordinate)] (dumpsNum v)] else []

/-- `position_offset_to_xml` -/
def positionOffsetToXml : Option PositionOffset → List Xml
  | none => []
  | some (.polar az el di) => dumpOffset "azimuth" az ++ dumpOffset "elevation" el ++ dumpOffset "distance" di
  | some (.cartesian x y z) => dumpOffset "X" x ++ dumpOffset "Y" y ++ dumpOffset "Z" z

/-! ### audioProgrammeReferenceScreen (`handle_centre_position`, `handle_screen_width`, their `to_xml`) -/

inductive CentrePosition where
  | polar (azimuth elevation distance : Int)
  | cartesian (x y z : Int)
  deriving DecidableEq, Repr

/-- the value of `screen_type` that goes with a centre position -/
def CentrePosition.kind : CentrePosition → String
  | .polar _ _ _ => "polar"
  | .cartesian _ _ _ => "cartesian"

/-- `handle_screen_type(kwargs, screen_type)`: the new value of `kwargs["screen_type"]`, `none` = raises -/
def handleScreenType (cur : Option String) (t : String) : Option String :=
  match cur with
  | some c => if c = t then some c else none
  | none => some t

def attrNum? (e : Xml) (k : String) : Option Int := (attr? e k).bind loadsNum

/-- `handle_centre_position`: the stored position and the new `screen_type`.  `PolarPosition(...)` validates
azimuth ∈ [-180, 180], elevation ∈ [-90, 90], distance ≥ 0; a missing `distance` attribute is `1.0`. -/
def handleCentrePosition (cur : Option String) (e : Xml) : Option (CentrePosition × String) :=
  if hasKey e "X" && hasKey e "Y" && hasKey e "Z" then do
    let x ← attrNum? e "X"
    let y ← attrNum? e "Y"
    let z ← attrNum? e "Z"
    let t ← handleScreenType cur "cartesian"
    some (.cartesian x y z, t)
  else if hasKey e "azimuth" && hasKey e "elevation" then do
    let az ← attrNum? e "azimuth"
    let el ← attrNum? e "elevation"
    let di ← if hasKey e "distance" then attrNum? e "distance" else some 100000
    if -18000000 ≤ az ∧ az ≤ 18000000 ∧ -9000000 ≤ el ∧ el ≤ 9000000 ∧ 0 ≤ di then do
      let t ← handleScreenType cur "polar"
      some (.polar az el di, t)
    else none
  else none

/-- `centre_position_to_xml` -/
def centrePositionToXml : CentrePosition → Xml
  | .cartesian x y z => elem "screenCentrePosition" [("X", dumpsNum x), ("Y", dumpsNum y), ("Z", dumpsNum z)] ""
  | .polar az el di =>
    elem "screenCentrePosition" [("azimuth", dumpsNum az), ("elevation", dumpsNum el), ("distance", dumpsNum di)] ""

/-- `handle_screen_width`: the stored width and the new `screen_type` -/
def handleScreenWidth (cur : Option String) (e : Xml) : Option (Int × String) :=
  if hasKey e "X" then do
    let w ← attrNum? e "X"
    let t ← handleScreenType cur "cartesian"
    some (w, t)
  else if hasKey e "azimuth" then do
    let w ← attrNum? e "azimuth"
    let t ← handleScreenType cur "polar"
    some (w, t)
  else none

/-- `screen_width_to_xml` (`cartesian` = `isinstance(obj, CartesianScreen)`) -/
def screenWidthToXml (cartesian : Bool) (w : Int) : Xml :=
  elem "screenWidth" [(if cartesian then "X" else "azimuth", dumpsNum w)] ""

/-! ### audioObjectInteraction ranges (`handle_gainInteractionRange`, `handle_positionInteractionRange`) -/

/-- `InteractionRange` for gains as `parse_gain` returns them -/
structure GainRange where
  min : Option Gain
  max : Option Gain
  deriving DecidableEq, Repr

/-- `parse_gain_el_v1` / `parse_gain_el_v2` -/
def parseGainEl (v2 : Bool) (e : Xml) : Option Gain :=
  if v2 then parseGain e.text ((attr? e "gainUnit").getD "linear")
  else if (attr? e "gainUnit").isSome then none               -- "gainUnit is a BS.2076-2 feature"
  else (loadsNum e.text).map .linear

/-- one iteration of the loop in `handle_gainInteractionRange` -/
def gainRangeStep (v2 : Bool) (d : Dict Gain) (e : Xml) : Option (Dict Gain) :=
  match attr? e "bound" with
  | none => none                                                -- "missing bound attr"
  | some b =>
    if b ≠ "min" ∧ b ≠ "max" then none
    else if d.any (·.1 == b) then none                           -- "specified multiple times"
    else (parseGainEl v2 e).map fun g => d ++ [(b, g)]

/-- `handle_gainInteractionRange` on the `gainInteractionRange` elements in visiting order;
`some none` = nothing stored -/
def parseGainRange (v2 : Bool) (es : List Xml) : Option (Option GainRange) :=
  (es.foldlM (gainRangeStep v2) []).map fun d =>
    if d.isEmpty then none else some ⟨d.get? "min", d.get? "max"⟩

def linear? : Option Gain → Option Int
  | some (.linear k) => some k
  | _ => none

/-- `gainInteractionRange_to_xml` (values on the printable grid; a gain read in dB is not on it) -/
def gainRangeToXml : Option GainRange → List Xml
  | none => []
  | some r =>
    (match linear? r.min with
      | some k => [elem "gainInteractionRange" [("bound", "min")] (dumpsNum k)] | none => []) ++
    (match linear? r.max with
      | some k => [elem "gainInteractionRange" [("bound", "max")] (dumpsNum k)] | none => [])

structure IRange where
  min : Option Int
  max : Option Int
  deriving DecidableEq, Repr

inductive PosRange where
  | polar (azimuth elevation distance : IRange)
  | cartesian (x y z : IRange)
  deriving DecidableEq, Repr

/-- one iteration of the loop in `handle_positionInteractionRange` -/
def posRangeStep (st : Dict (Dict Int)) (e : Xml) : Option (Dict (Dict Int)) :=
  match attr? e "bound" with
  | none => none
  | some b =>
    if b ≠ "min" ∧ b ≠ "max" then none
    else match attr? e "coordinate" with
    | none => none
    | some c =>
      let inner := (st.get? c).getD []
      if inner.any (·.1 == b) then none                          -- "duplicate coordinate … and bound"
      else (loadsNum e.text).map fun v => st.set c (inner ++ [(b, v)])

def irangeOf (st : Dict (Dict Int)) (c : String) : IRange :=
  match st.get? c with
  | some d => ⟨d.get? "min", d.get? "max"⟩
  | none => ⟨none, none⟩

/-- the end of `handle_positionInteractionRange` -/
def posRangeFinish (st : Dict (Dict Int)) : Option (Option PosRange) :=
  if subsetKeys st ["azimuth", "elevation", "distance"] then
    some (if st.isEmpty then none
      else some (.polar (irangeOf st "azimuth") (irangeOf st "elevation") (irangeOf st "distance")))
  else if subsetKeys st ["X", "Y", "Z"] then
    some (some (.cartesian (irangeOf st "X") (irangeOf st "Y") (irangeOf st "Z")))
  else none

def parsePosRange (es : List Xml) : Option (Option PosRange) :=
  (es.foldlM posRangeStep []).bind posRangeFinish

/-- the elements written for one coordinate -/
def dumpIRange (coordinate : String) (r : IRange) : List Xml :=
  (match r.min with
    | some k => [elem "positionInteractionRange" [("bound", "min"), ("coordinate", coordinate)] (dumpsNum k)]
    | none => []) ++
  (match r.max with
    | some k => [elem "positionInteractionRange" [("bound", "max"), ("coordinate", coordinate)] (dumpsNum k)]
    | none => [])

/-- `positionInteractionRange_to_xml` -/
def posRangeToXml : Option PosRange → List Xml
  | none => []
  | some (.polar az el di) => dumpIRange "azimuth" az ++ dumpIRange "elevation" el ++ dumpIRange "distance" di
  | some (.cartesian x y z) => dumpIRange "X" x ++ dumpIRange "Y" y ++ dumpIRange "Z" z

end Earverif.XmlCustom
