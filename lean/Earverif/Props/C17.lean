/-
C17 — Unfinished or truncated BW64 files are never misread.

Property theorems about the byte-level models (`unclosedFile`, `closedFile`, `readFile`).
-/
import Earverif.Proofs.C17

namespace Earverif.Bw64

/-- **C17 (unfinished files).**  The buffer left behind by a writer that was never closed — after any
history of `write` and setter calls, whatever chunks were given to the constructor or are still pending,
with fewer than 2^32 - 1 data bytes — is rejected by the reader: the `data` header still carries the
placeholder size `0xFFFFFFFF`, which ends after the end of the file. -/
theorem C17_unclosed (fmt : Fmt) (c0 : Option (List ChnaEntry)) (a0 b0 : Option Bytes) (force : Bool)
    (ops : List WOp) (hc0 : ChnaOK c0) (ha0 : BytesOK a0) (hb0 : BytesOK b0)
    (hdata : (dataOf ops).length < 2 ^ 32 - 1) :
    readFile (unclosedFile fmt c0 a0 b0 force ops) = .error .chunkEnd := by
  rw [unclosedFile_layout]
  generalize hfile : head0 fmt ++ (preB c0 a0 b0 ++ (idData ++ (ffff ++ dataOf ops))) = f
  have hds : ∀ d, (none : Option Ds64) = some d → d.table = [] := by intro d hd; cases hd
  have hf : f = (idRIFF ++ (ffff ++ idWAVE)) ++
      (encAll (junkC :: fmtC fmt :: preC c0 a0 b0) ++ (idData ++ (ffff ++ dataOf ops))) := by
    rw [← hfile, preB_eq hc0, head0, fmtChunk_eq, junkChunk_eq]; simp
  have hhead : readHead f = .ok (idRIFF, none, 12) :=
    readHead_riff (s4 := ffff)
      (rest := encAll (junkC :: fmtC fmt :: preC c0 a0 b0) ++ (idData ++ (ffff ++ dataOf ops))) (by rw [hf]; simp) rfl
  have hok : ∀ c ∈ junkC :: fmtC fmt :: preC c0 a0 b0, c.OK none := by
    intro c hc
    rcases List.mem_cons.1 hc with rfl | hc
    · exact junkC_ok
    · rcases List.mem_cons.1 hc with rfl | hc
      · exact fmtC_ok none hds fmt
      · exact preC_ok none hds hc0 ha0 hb0 c hc
  have hle := length_le_encAll _ (fun c hc => (hok c hc).idLen)
  have hfl : f.length = 12 + (encAll (junkC :: fmtC fmt :: preC c0 a0 b0)).length + 8 + (dataOf ops).length := by
    rw [hf]; simp [idRIFF, ffff, idWAVE, idData]; omega
  obtain ⟨fuel, hfuel⟩ : ∃ k, f.length + 1 = (junkC :: fmtC fmt :: preC c0 a0 b0).length + (k + 1) :=
    ⟨f.length - (junkC :: fmtC fmt :: preC c0 a0 b0).length, by omega⟩
  have hw := walk_chunks_then none _ hok _ f _ (fuel + 1) [] [] hf
  have h12 : (idRIFF ++ (ffff ++ idWAVE)).length = 12 := rfl
  rw [h12] at hw
  have hh := readChunkHeader_hdr (f := f) (pre := idRIFF ++ (ffff ++ idWAVE) ++ encAll (junkC :: fmtC fmt :: preC c0 a0 b0))
    (id := idData) (s4 := ffff) (rest := dataOf ops) none (by rw [hf]; simp) rfl rfl (by decide)
  rw [List.length_append, h12] at hh
  have hffff : fromLE ffff = 4294967295 := by decide
  have hh' : readChunkHeader f none (12 + (encAll (junkC :: fmtC fmt :: preC c0 a0 b0)).length) =
      .hdr idData 4294967295 := hh.trans (congrArg _ hffff)
  simp only [readFile, hhead, hfuel, hw]
  rw [readChunks_chunkEnd hh' (by omega) (by omega)]

/-! ### the excluded point of `C17_unclosed`: 2^32 - 1 or more data bytes

`C17_unclosed` needs `(dataOf ops).length < 2^32 - 1`.  Everything from `2^32 - 1` upwards is outside it, and
the two theorems below say what the reader model does there (for *any* history with that much data; a
4 GiB list cannot be built in the kernel, so there is no evaluated instance, but the hypotheses are
satisfiable; the data stays a variable throughout). -/

/-- **Excluded point (walk).**  The unclosed buffer is the 12-byte RIFF header, the well-formed chunks
`cs` = JUNK, fmt, constructor chunks, then `data`, the placeholder `0xFFFFFFFF` and the sample bytes; the
`data` header lies at `dpos = 72 + (constructor chunks)`.
* With exactly `2^32 - 1` data bytes the placeholder *is* the true (odd) size and only the pad byte is
  missing: the chunk walk records the data chunk, warns "data chunk is missing padding byte", hits EOF and
  succeeds — the verdict is whatever `finishRead` says (see `unclosed_at_limit_accepted`).
* With `2^32` or more data bytes the placeholder chunk ends *inside* the file: no "chunk ends after the end
  of the file"; the walk records a data chunk of `2^32 - 1` bytes and carries on at offset
  `dpos + 8 + 2^32`, i.e. it parses **sample bytes as chunk headers** (with fuel left for all of them). -/
theorem unclosed_walk_without_bound (fmt : Fmt) (c0 : Option (List ChnaEntry)) (a0 b0 : Option Bytes) (force : Bool)
    (ops : List WOp) (hc0 : ChnaOK c0) (ha0 : BytesOK a0) (hb0 : BytesOK b0) :
    let f := unclosedFile fmt c0 a0 b0 force ops
    let cs := junkC :: fmtC fmt :: preC c0 a0 b0
    let dpos := 12 + (encAll cs).length
    let t : Table := (idData, 4294967295, dpos) :: walkTable 12 cs []
    dpos = 72 + (preB c0 a0 b0).length ∧ f.length = dpos + 8 + (dataOf ops).length ∧
    ((dataOf ops).length = 2 ^ 32 - 1 → readFile f = finishRead f idRIFF none t [.dataPad]) ∧
    (2 ^ 32 ≤ (dataOf ops).length → ∃ fuel, (dataOf ops).length - 2 ^ 32 < fuel ∧
      readFile f = match readChunks f none fuel (dpos + 8 + 2 ^ 32) t [] with
        | .error e => .error e
        | .ok (t', w) => finishRead f idRIFF none t' w) := by
  intro f0 cs dpos t
  have hlay : f0 = head0 fmt ++ (preB c0 a0 b0 ++ (idData ++ (ffff ++ dataOf ops))) := unclosedFile_layout ..
  have hcsdef : cs = junkC :: fmtC fmt :: preC c0 a0 b0 := rfl
  have hdposdef : dpos = 12 + (encAll cs).length := rfl
  have htdef : t = (idData, 4294967295, dpos) :: walkTable 12 cs [] := rfl
  clear_value t dpos cs f0
  generalize f0 = f at *
  have hds : ∀ d, (none : Option Ds64) = some d → d.table = [] := by intro d hd; cases hd
  have hf : f = (idRIFF ++ (ffff ++ idWAVE)) ++ (encAll cs ++ (idData ++ (ffff ++ dataOf ops))) := by
    rw [hlay, preB_eq hc0, head0, fmtChunk_eq, junkChunk_eq, hcsdef]; simp
  have hhead : readHead f = .ok (idRIFF, none, 12) :=
    readHead_riff (s4 := ffff) (rest := encAll cs ++ (idData ++ (ffff ++ dataOf ops))) (by rw [hf]; simp) rfl
  have hok : ∀ c ∈ cs, c.OK none := by
    intro c hc
    rw [hcsdef] at hc
    rcases List.mem_cons.1 hc with rfl | hc
    · exact junkC_ok
    · rcases List.mem_cons.1 hc with rfl | hc
      · exact fmtC_ok none hds fmt
      · exact preC_ok none hds hc0 ha0 hb0 c hc
  have hle := length_le_encAll cs (fun c hc => (hok c hc).idLen)
  have hfl : f.length = dpos + 8 + (dataOf ops).length := by
    rw [hf, hdposdef]; simp [idRIFF, ffff, idWAVE, idData]; omega
  have hdpos : dpos = 72 + (preB c0 a0 b0).length := by
    rw [hdposdef, hcsdef]
    simp only [encAll_cons, preB_eq hc0, List.length_append]
    have h1 : junkC.enc.length = 36 := by decide
    have h2 : (fmtC fmt).enc.length = 24 := by simp [fmtC, Chunk.enc, fmtPayload, idFmt, le_length]
    omega
  obtain ⟨fuel, hfuel⟩ : ∃ k, f.length + 1 = cs.length + (k + 2) := ⟨f.length - cs.length - 1, by omega⟩
  have hw := walk_chunks_then none cs hok (idRIFF ++ (ffff ++ idWAVE)) f _ (fuel + 2) [] [] hf
  have h12 : (idRIFF ++ (ffff ++ idWAVE)).length = 12 := rfl
  rw [h12, ← hdposdef] at hw
  have hh := readChunkHeader_hdr (f := f) (pre := idRIFF ++ (ffff ++ idWAVE) ++ encAll cs)
    (id := idData) (s4 := ffff) (rest := dataOf ops) none (by rw [hf]; simp) rfl rfl (by decide)
  rw [List.length_append, h12, ← hdposdef] at hh
  have hffff : fromLE ffff = 4294967295 := by decide
  have hh' : readChunkHeader f none dpos = .hdr idData 4294967295 := hh.trans (congrArg _ hffff)
  have hsz : dpos + 8 + (4294967295 + 4294967295 % 2) = dpos + 8 + 2 ^ 32 := by omega
  refine ⟨hdpos, hfl, ?_, ?_⟩
  · intro hlen
    simp only [readFile, hhead, hfuel, hw]
    rw [show fuel + 2 = (fuel + 1) + 1 from rfl,
      readChunks_dataPad hh' (by omega) ⟨by decide, rfl, by omega⟩, readChunks_eof (by omega), htdef]
    simp only [List.nil_append]
  · intro hlen
    refine ⟨fuel + 1, by omega, ?_⟩
    simp only [readFile, hhead, hfuel, hw]
    rw [show fuel + 2 = (fuel + 1) + 1 from rfl, readChunks_continue hh' (by omega), hsz, htdef]
    rfl

/-- **Excluded point (verdict at exactly 2^32 - 1 bytes).**  If the format's block alignment divides
`2^32 - 1` (= 3·5·17·257·65537; e.g. 24-bit mono, block alignment 3) an unclosed file with exactly `2^32 - 1`
data bytes is **accepted**: the reader returns the format, `(2^32 - 1) / blockAlignment` frames, all the sample
bytes and the chunks the constructor wrote, with the single warning "data chunk is missing padding byte" —
indistinguishable from a finalised RIFF file that lost its last byte.  So the first clause of C17 is false here;
`C17_unclosed` states the bound `< 2^32 - 1` for that reason. -/
theorem unclosed_at_limit_accepted (fmt : Fmt) (c0 : Option (List ChnaEntry)) (a0 b0 : Option Bytes) (force : Bool)
    (ops : List WOp) (hfmt : FmtOK fmt) (hc0 : ChnaOK c0) (ha0 : BytesOK a0) (hb0 : BytesOK b0)
    (hdata : (dataOf ops).length = 2 ^ 32 - 1) (hframes : (2 ^ 32 - 1) % fmt.blockAlign = 0) :
    readFile (unclosedFile fmt c0 a0 b0 force ops) =
      .ok (⟨idRIFF, ⟨1, fmt.channels, fmt.rate, fmt.bits⟩, (2 ^ 32 - 1) / fmt.blockAlign, dataOf ops,
            effChna c0 none, effMeta a0 none, effMeta b0 none⟩, [.dataPad]) := by
  obtain ⟨-, -, h3, -⟩ := unclosed_walk_without_bound fmt c0 a0 b0 force ops hc0 ha0 hb0
  rw [h3 hdata]
  have hlay : unclosedFile fmt c0 a0 b0 force ops =
      head0 fmt ++ (preB c0 a0 b0 ++ (idData ++ (ffff ++ dataOf ops))) := unclosedFile_layout ..
  generalize unclosedFile fmt c0 a0 b0 force ops = f at *
  have hlate : lateC c0.isSome (truthy a0) (truthy b0) none none none = [] := by
    cases c0.isSome <;> cases truthy a0 <;> cases truthy b0 <;> simp [lateC, optChnaC, optMetaC]
  have hffff : le 4 4294967295 = ffff := by decide
  have hf : f = (idRIFF ++ (ffff ++ idWAVE)) ++
      (encAll ([junkC] ++ bodyC fmt c0 a0 b0 4294967295 (dataOf ops) [] none none none) ++ []) := by
    rw [hlay, preB_eq hc0, head0, fmtChunk_eq, junkChunk_eq]
    simp [bodyC, hlate, dataC, Chunk.enc, hffff]
  have ht : ((idData, 4294967295, 12 + (encAll (junkC :: fmtC fmt :: preC c0 a0 b0)).length) ::
        walkTable 12 (junkC :: fmtC fmt :: preC c0 a0 b0) [] : Table) =
      walkTable (idRIFF ++ (ffff ++ idWAVE)).length
        ([junkC] ++ bodyC fmt c0 a0 b0 4294967295 (dataOf ops) [] none none none) [] := by
    have : [junkC] ++ bodyC fmt c0 a0 b0 4294967295 (dataOf ops) [] none none none =
        (junkC :: fmtC fmt :: preC c0 a0 b0) ++ [dataC 4294967295 (dataOf ops) []] := by
      simp [bodyC, hlate]
    rw [this, walkTable_snoc]
    simp only [dataC, hdata]
    rfl
  rw [ht, finishRead_written (w := [Warn.dataPad]) hfmt hc0 (by trivial) hf
    (by intro x hx; rw [List.mem_singleton.1 hx]; rfl) (by intro d hd; cases hd) (by rw [hdata]; exact hframes), hdata]

/-- the arithmetic side condition of `unclosed_at_limit_accepted` holds for 24-bit mono (block alignment 3) and
24-bit 5-channel (15) audio.  (The length hypotheses are plainly satisfiable — a history with one `write` of that
many bytes — but no such list is ever constructed or evaluated here: the data stays a variable.) -/
example : (2 ^ 32 - 1) % (⟨1, 48000, 24⟩ : Fmt).blockAlign = 0 ∧ (2 ^ 32 - 1) % (⟨5, 48000, 24⟩ : Fmt).blockAlign = 0 := by
  decide

/-! ### truncated finalised files -/

/-- The finalised file as the reader sees it: a header part `pre` (12 bytes for RIFF, 48 for BW64 including
the ds64 chunk) that `_read_riff_chunk`/`_read_ds64_chunk` accept exactly when it is complete, followed by
well-formed chunks: (JUNK,) fmt, constructor chunks, data, late chunks. -/
theorem closedFile_written (fmt : Fmt) (c0 : Option (List ChnaEntry)) (a0 b0 : Option Bytes) (force : Bool)
    (ops : List WOp)
    (hc0 : ChnaOK c0) (hcF : ChnaOK (pendChna c0 ops))
    (ha0 : BytesOK a0) (haF : BytesOK (pendAxml a0 ops))
    (hb0 : BytesOK b0) (hbF : BytesOK (pendBext b0 ops))
    (hdata : (dataOf ops).length < 2 ^ 63) :
    ∃ (pre : Bytes) (F : List Chunk) (ds : Option Ds64) (ff : Bytes) (sz : Nat),
      closedFile fmt c0 a0 b0 force ops = pre ++ encAll (F ++ bodyC fmt c0 a0 b0 sz (dataOf ops)
        (pad (dataOf ops).length) (pendChna c0 ops) (pendAxml a0 ops) (pendBext b0 ops)) ∧
      (∀ x ∈ F, x.id = idJUNK) ∧
      (∀ x ∈ F ++ bodyC fmt c0 a0 b0 sz (dataOf ops) (pad (dataOf ops).length) (pendChna c0 ops)
        (pendAxml a0 ops) (pendBext b0 ops), x.OK ds) ∧
      (∀ d, ds = some d → d.dataSize = (dataOf ops).length) ∧
      12 ≤ pre.length ∧
      (∀ k, pre.length ≤ k → readHead ((closedFile fmt c0 a0 b0 force ops).take k) = .ok (ff, ds, pre.length)) ∧
      (∀ k, k < pre.length → readHead ((closedFile fmt c0 a0 b0 force ops).take k) = .error .struct) := by
  obtain ⟨hop, hoc, hoa, hob⟩ := openW_opened fmt c0 a0 b0 force
  obtain ⟨hrun, hrc, hra, hrb⟩ := runW_opened ops hop
  rw [hoc] at hrc; rw [hoa] at hra; rw [hob] at hrb
  simp only [List.nil_append] at hrun
  have hlay := closeW_layout hrun
  rw [hrc, hra, hrb] at hlay
  have hpre := preB_eq hc0 a0 b0
  have hlate := lateB_eq hcF c0.isSome (truthy a0) (truthy b0) (pendAxml a0 ops) (pendBext b0 ops)
  have hpl := preB_length_le hc0 ha0 hb0
  have hll := lateB_length_le c0.isSome (truthy a0) (truthy b0) hcF haF hbF
  simp only [closedFile]
  rw [hlay]
  simp only []
  generalize hR : riffSizeOf (preB c0 a0 b0) (dataOf ops)
    (lateB c0.isSome (truthy a0) (truthy b0) (pendChna c0 ops) (pendAxml a0 ops) (pendBext b0 ops)) = R
  have hRlt : R < 2 ^ 64 := by rw [← hR]; unfold riffSizeOf; omega
  have hnR : (dataOf ops).length ≤ R := by rw [← hR]; unfold riffSizeOf; omega
  split
  · -- BW64
    generalize hfile : idBW64 ++ (ffff ++ (idWAVE ++ (ds64Chunk R (dataOf ops).length ++ (fmtChunk fmt ++
      (preB c0 a0 b0 ++ (idData ++ (ffff ++ (dataOf ops ++ (pad (dataOf ops).length ++
        lateB c0.isSome (truthy a0) (truthy b0) (pendChna c0 ops) (pendAxml a0 ops) (pendBext b0 ops)))))))))) = f
    have hds : ∀ d, (some (⟨R, (dataOf ops).length, []⟩ : Ds64)) = some d → d.table = [] := by
      intro d hd; cases hd; rfl
    have hf : f = (idBW64 ++ (ffff ++ (idWAVE ++ ds64Chunk R (dataOf ops).length))) ++
        encAll ([] ++ bodyC fmt c0 a0 b0 4294967295 (dataOf ops) (pad (dataOf ops).length) (pendChna c0 ops)
          (pendAxml a0 ops) (pendBext b0 ops)) := by
      rw [← hfile, hpre, hlate, fmtChunk_eq]
      have hffff : le 4 4294967295 = ffff := by decide
      simp [bodyC, dataC, Chunk.enc, hffff]
    have hdOK : (dataC 4294967295 (dataOf ops) (pad (dataOf ops).length)).OK (some ⟨R, (dataOf ops).length, []⟩) :=
      ⟨by simp only [dataC]; decide, by simp only [dataC]; decide, by simp only [dataC]; omega,
        by simp [effSize, hdrSize, dataC], by simp [dataC, pad_length]⟩
    have hpl48 : (idBW64 ++ (ffff ++ (idWAVE ++ ds64Chunk R (dataOf ops).length))).length = 48 := by
      simp [idBW64, ffff, idWAVE, ds64Chunk, idDs64, le_length]
    refine ⟨_, [], some ⟨R, (dataOf ops).length, []⟩, idBW64, 4294967295, hf, by simp, ?_,
      by intro d hd; cases hd; rfl, by rw [hpl48]; omega, ?_, ?_⟩
    · simpa using bodyC_ok _ hds hc0 hcF ha0 haF hb0 hbF hdOK
    · intro k hk
      rw [hpl48] at hk ⊢
      have hfk : f.take k = idBW64 ++ (ffff ++ (idWAVE ++ (ds64Chunk R (dataOf ops).length ++
          (encAll ([] ++ bodyC fmt c0 a0 b0 4294967295 (dataOf ops) (pad (dataOf ops).length) (pendChna c0 ops)
            (pendAxml a0 ops) (pendBext b0 ops))).take (k - 48)))) := by
        rw [hf, List.take_append, List.take_of_length_le (by rw [hpl48]; exact hk), hpl48]; simp
      exact readHead_bw64 hfk hRlt (by omega)
    · intro k hk
      rw [hpl48] at hk
      exact readHead_bw64_short hfile.symm hk
  · -- RIFF
    rename_i hbw
    have hR32 : R < 2 ^ 32 := by
      simp at hbw; omega
    generalize hfile : idRIFF ++ (le 4 R ++ (idWAVE ++ (junkChunk ++ (fmtChunk fmt ++
      (preB c0 a0 b0 ++ (idData ++ (le 4 (dataOf ops).length ++ (dataOf ops ++ (pad (dataOf ops).length ++
        lateB c0.isSome (truthy a0) (truthy b0) (pendChna c0 ops) (pendAxml a0 ops) (pendBext b0 ops)))))))))) = f
    have hds : ∀ d, (none : Option Ds64) = some d → d.table = [] := by intro d hd; cases hd
    have hf : f = (idRIFF ++ (le 4 R ++ idWAVE)) ++
        encAll ([junkC] ++ bodyC fmt c0 a0 b0 (dataOf ops).length (dataOf ops) (pad (dataOf ops).length)
          (pendChna c0 ops) (pendAxml a0 ops) (pendBext b0 ops)) := by
      rw [← hfile, hpre, hlate, fmtChunk_eq, junkChunk_eq]
      simp [bodyC, dataC, Chunk.enc]
    have hdOK : (dataC (dataOf ops).length (dataOf ops) (pad (dataOf ops).length)).OK none :=
      ⟨by simp only [dataC]; decide, by simp only [dataC]; decide, by simp only [dataC]; omega,
        by simp [effSize, hdrSize, dataC], by simp [dataC, pad_length]⟩
    have hpl12 : (idRIFF ++ (le 4 R ++ idWAVE)).length = 12 := by simp [idRIFF, idWAVE, le_length]
    refine ⟨_, [junkC], none, idRIFF, (dataOf ops).length, hf,
      by intro x hx; rw [List.mem_singleton.1 hx]; rfl, ?_, (by intro d hd; cases hd), by have := hpl12; omega, ?_, ?_⟩
    · intro c hc
      rcases List.mem_append.1 hc with h | h
      · rw [List.mem_singleton.1 h]; exact junkC_ok
      · exact bodyC_ok _ hds hc0 hcF ha0 haF hb0 hbF hdOK c h
    · intro k hk
      rw [hpl12] at hk ⊢
      have hfk : f.take k = idRIFF ++ (le 4 R ++ (idWAVE ++
          (encAll ([junkC] ++ bodyC fmt c0 a0 b0 (dataOf ops).length (dataOf ops) (pad (dataOf ops).length)
            (pendChna c0 ops) (pendAxml a0 ops) (pendBext b0 ops))).take (k - 12))) := by
        rw [hf, List.take_append, List.take_of_length_le (by rw [hpl12]; exact hk), hpl12]; simp
      exact readHead_riff hfk (le_length 4 R)
    · intro k hk
      rw [hpl12] at hk
      exact readHead_riff_short hfile.symm (le_length 4 R) hk

/-- **C17 (truncated files).**  For every finalised file the writer model produces (same quantifier as
`C09_roundtrip`) and every cut position `k` before its end, the reader either rejects the first `k` bytes
or accepts them with the original format, the original frame count, exactly the original sample bytes, and
each of chna / axml / bext either absent or identical to what the complete file holds — never another frame
count, never a partial chunk. -/
theorem C17_truncation (fmt : Fmt) (c0 : Option (List ChnaEntry)) (a0 b0 : Option Bytes) (force : Bool)
    (ops : List WOp)
    (hfmt : FmtOK fmt)
    (hc0 : ChnaOK c0) (hcF : ChnaOK (pendChna c0 ops))
    (ha0 : BytesOK a0) (haF : BytesOK (pendAxml a0 ops))
    (hb0 : BytesOK b0) (hbF : BytesOK (pendBext b0 ops))
    (hframes : (dataOf ops).length % fmt.blockAlign = 0)
    (hdata : (dataOf ops).length < 2 ^ 63)
    (k : Nat) (hk : k < (closedFile fmt c0 a0 b0 force ops).length) :
    TruncOK ⟨1, fmt.channels, fmt.rate, fmt.bits⟩ ((dataOf ops).length / fmt.blockAlign) (dataOf ops)
      (effChna c0 (pendChna c0 ops)) (effMeta a0 (pendAxml a0 ops)) (effMeta b0 (pendBext b0 ops))
      (readFile ((closedFile fmt c0 a0 b0 force ops).take k)) := by
  obtain ⟨pre, F, ds, ff, sz, hf, hF, hok, hds, hpre, hhead, hshort⟩ :=
    closedFile_written fmt c0 a0 b0 force ops hc0 hcF ha0 haF hb0 hbF hdata
  by_cases hkp : k < pre.length
  · simp only [readFile, hshort k hkp]
    trivial
  · simp only [readFile, hhead k (by omega)]
    exact trunc_body (ff := ff) hfmt hc0 hcF hf hF hok hds hframes (by omega) k (by omega) hk

/-! ### non-vacuity and concrete behaviour of the model on unfinished / truncated files -/

example : (dataOf [.write exData, .setBext (some exBext)]).length < 2 ^ 32 - 1 := by decide

set_option maxRecDepth 100000 in
/-- an unfinished file (odd axml at open, one write, bext pending) is rejected -/
example : readFile (unclosedFile exFmt none (some exAxml) none true [.write exData, .setBext (some exBext)])
    = .error .chunkEnd := by decide +kernel

/-- a finalised RIFF file: 12 + 36 + 24, axml 8+3+1 at open, data 8+9+1, bext 8+5+1 late: 116 bytes -/
def exFile : Bytes := closedFile exFmt none (some exAxml) none false [.write exData, .setBext (some exBext)]

set_option maxRecDepth 100000 in
example : exFile.length = 116 := by decide +kernel

set_option maxRecDepth 100000 in
/-- cut inside the late bext chunk: rejected; cut right after the data chunk's pad byte: accepted with the
original frames and without bext; cut before the data chunk's pad byte: accepted with a warning;
cut inside the data: rejected; cut inside the bext header: accepted without bext; cut inside the data header: rejected (no data chunk);
cut inside the RIFF header: rejected -/
example :
    readFile (exFile.take 110) = .error .chunkEnd ∧
    readFile (exFile.take 102) = .ok (⟨idRIFF, ⟨1, 3, 48000, 24⟩, 1, exData, none, some exAxml, none⟩, []) ∧
    readFile (exFile.take 101) = .ok (⟨idRIFF, ⟨1, 3, 48000, 24⟩, 1, exData, none, some exAxml, none⟩, [.dataPad]) ∧
    readFile (exFile.take 100) = .error .chunkEnd ∧
    readFile (exFile.take 106) = .ok (⟨idRIFF, ⟨1, 3, 48000, 24⟩, 1, exData, none, some exAxml, none⟩, []) ∧
    readFile (exFile.take 90) = .error .missingChunk ∧
    readFile (exFile.take 10) = .error .struct := by decide +kernel

end Earverif.Bw64
