/-
C15 — when the repair raises: the last block of an all-timed channel starts at or after the end of
an audioObject that references the channel and has a positive duration.  This is what happens to a
rounded timeline whose last exact duration is not longer than the rounding unit (the block's rounded
rtime can land on the rounded object end): `Props/C15.lean: excluded_rounded_short_block`.
No monotonicity hypothesis is needed: every earlier block / earlier object either raises the same
`ValueError` or leaves the last block's rtime unchanged and its duration positive.
-/
import Earverif.Proofs.C15

set_option linter.unusedVariables false
set_option linter.unusedSimpArgs false

namespace Earverif.TimingFix

/-- the last block starts at or after `D` and has a positive duration -/
def LastOutside (D : Rat) : List Block → Prop
  | [] => False
  | [b] => D ≤ b.r ∧ 0 < b.d
  | _ :: b :: rest => LastOutside D (b :: rest)

/-- what a successful clamp of one block keeps: the keys (`Same`) and positivity of the duration -/
def KeepPos (a b : Block) : Prop := Same a b ∧ (0 < a.d → 0 < b.d)

/-- `_clamp_blockFormat_times` on a timed block either raises `ValueError` or keeps the keys and a
positive duration positive (the end is advanced by less than the duration) -/
theorem clampBlock_timed_cases (i : Nat) (D : Rat) (b : Block) (ht : Timed b) :
    clampBlockFormatTimes i D b = .error .valueError ∨
    ∃ b' ws, clampBlockFormatTimes i D b = .ok (b', ws) ∧ KeepPos b b' := by
  rcases b with ⟨_|r, _|d, o, j, _|il⟩ <;> simp [Timed] at ht <;>
    simp only [clampBlockFormatTimes, clampEnd]
  · by_cases h1 : r + d > D
    · by_cases h2 : r + d - D ≥ d
      · left; simp [h1, h2]
      · right
        simp only [h1, h2, ↓reduceIte]
        refine ⟨_, _, rfl, ?_, ?_⟩ <;> simp [Same, Block.d] <;> grind
    · right
      simp only [h1, ↓reduceIte]
      exact ⟨_, _, rfl, Same.rfl' _, fun h => h⟩
  · by_cases h1 : r + d > D
    · by_cases h2 : r + d - D ≥ d
      · left; simp [h1, h2]
      · right
        simp only [h1, h2, ↓reduceIte]
        split
        · refine ⟨_, _, rfl, ?_, ?_⟩ <;> simp [Same, Block.d] <;> grind
        · refine ⟨_, _, rfl, ?_, ?_⟩ <;> simp [Same, Block.d] <;> grind
    · right
      simp only [h1, ↓reduceIte]
      exact ⟨_, _, rfl, Same.rfl' _, fun h => h⟩

/-- a timed block with positive duration starting at or after the object's end: `ValueError`
("tried to advance end of … before the block start") -/
theorem clampBlock_outside (i : Nat) (D : Rat) (b : Block) (ht : Timed b) (h : D ≤ b.r ∧ 0 < b.d) :
    clampBlockFormatTimes i D b = .error .valueError := by
  rcases b with ⟨_|r, _|d, o, j, il⟩ <;> simp [Timed] at ht
  simp only [Block.r, Block.d, Option.getD_some] at h
  simp only [clampBlockFormatTimes, clampEnd]
  have h1 : r + d > D := by grind
  have h2 : r + d - D ≥ d := by grind
  simp [h1, h2]

theorem clampBlocks_cases (D : Rat) : ∀ (bs : List Block) (i : Nat), AllTimed bs →
    clampBlocks i D bs = .error .valueError ∨
    ∃ out ws, clampBlocks i D bs = .ok (out, ws) ∧ RelP KeepPos bs out
  | [], _, _ => Or.inr ⟨[], [], rfl, trivial⟩
  | b :: rest, i, ht => by
    rcases clampBlock_timed_cases i D b (ht b (by simp)) with hb | ⟨b', ws, hb, hk⟩
    · left; simp only [clampBlocks, hb]
    · rcases clampBlocks_cases D rest (i + 1) (fun x hx => ht x (by simp [hx])) with hr | ⟨out, ws', hr, hk'⟩
      · left; simp only [clampBlocks, hb, hr]
      · right; exact ⟨b' :: out, ws ++ ws', by simp only [clampBlocks, hb, hr], hk, hk'⟩

theorem clampBlocks_outside (D : Rat) : ∀ (bs : List Block) (i : Nat), AllTimed bs → LastOutside D bs →
    clampBlocks i D bs = .error .valueError
  | [], _, _, h => h.elim
  | [b], i, ht, h => by
    simp only [clampBlocks, clampBlock_outside i D b (ht b (by simp)) h]
  | a :: b :: rest, i, ht, h => by
    have ih := clampBlocks_outside D (b :: rest) (i + 1) (fun x hx => ht x (by simp [hx])) h
    rcases clampBlock_timed_cases i D a (ht a (by simp)) with ha | ⟨a', ws, ha, _⟩
    · simp only [clampBlocks, ha]
    · rw [clampBlocks]; simp only [ha, ih]

theorem keepPos_lastOutside (D : Rat) : ∀ {as bs : List Block}, RelP KeepPos as bs → LastOutside D as →
    LastOutside D bs
  | [], [], _, h => h
  | _ :: _, [], h, _ => h.elim
  | [], _ :: _, h, _ => h.elim
  | [a], [b], h, hl => by
    simp only [LastOutside] at *
    rw [h.1.1.r_eq]; exact ⟨hl.1, h.1.2 hl.2⟩
  | [_], _ :: _ :: _, h, _ => h.2.elim
  | _ :: _ :: _, [_], h, _ => h.2.elim
  | _ :: a' :: as, _ :: b' :: bs, h, hl => keepPos_lastOutside D (as := a' :: as) (bs := b' :: bs) h.2 hl

theorem relD_lastOutside (D : Rat) : ∀ {as bs : List Block}, RelP SameD as bs → LastOutside D as →
    LastOutside D bs
  | [], [], _, h => h
  | _ :: _, [], h, _ => h.elim
  | [], _ :: _, h, _ => h.elim
  | [a], [b], h, hl => by
    simp only [LastOutside] at *
    have e : b.d = a.d := by simp [Block.d, h.1.2]
    rw [h.1.1.r_eq, e]; exact hl
  | [_], _ :: _ :: _, h, _ => h.2.elim
  | _ :: _ :: _, [_], h, _ => h.2.elim
  | _ :: a' :: as, _ :: b' :: bs, h, hl => relD_lastOutside D (as := a' :: as) (bs := b' :: bs) h.2 hl

/-- the duration pass does not touch the last block -/
theorem checkDurations_lastOutside (D : Rat) : ∀ (bs : List Block) (i : Nat), AllTimed bs →
    LastOutside D bs → LastOutside D (checkDurations i bs).1
  | [], _, _, h => h.elim
  | [b], _, _, h => h
  | a :: b :: rest, i, ht, h => by
    have ht' : AllTimed (b :: rest) := fun x hx => ht x (by simp [hx])
    have ih := checkDurations_lastOutside D (b :: rest) (i + 1) ht' h
    have hs := (checkDurations_spec (b :: rest) (i + 1) ht').1
    rw [checkDurations_cons]
    simp only
    cases hrec : (checkDurations (i + 1) (b :: rest)).1 with
    | nil => rw [hrec] at hs; exact hs.elim
    | cons b' rest' => rw [hrec] at ih; exact ih

theorem checkTimesForObjects_outside : ∀ (objs : List Obj) (bs : List Block), AllTimed bs →
    (∃ o ∈ objs, ∃ D, o.duration = some D ∧ LastOutside D bs) →
    checkTimesForObjects objs bs = .error .valueError
  | [], _, _, ⟨_, ho, _⟩ => by simp at ho
  | o :: os, bs, ht, ⟨o', ho', D, hD, hl⟩ => by
    cases hd : o.duration with
    | none =>
      have hmem : o' ∈ os := by
        simp only [List.mem_cons] at ho'
        rcases ho' with rfl | h
        · rw [hd] at hD; cases hD
        · exact h
      simp only [checkTimesForObjects, hd]
      exact checkTimesForObjects_outside os bs ht ⟨o', hmem, D, hD, hl⟩
    | some D0 =>
      simp only [List.mem_cons] at ho'
      rcases ho' with rfl | hmem
      · rw [hd] at hD; cases hD
        simp only [checkTimesForObjects, hd, clampBlocks_outside D bs 0 ht hl]
      · rcases clampBlocks_cases D0 bs 0 ht with hc | ⟨out, ws, hc, hk⟩
        · simp only [checkTimesForObjects, hd, hc]
        · have rs : RelP Same bs out := RelP.mono (fun _ _ h => h.1) hk
          have ih := checkTimesForObjects_outside os out (rel_allTimed rs ht)
            ⟨o', hmem, D, hD, keepPos_lastOutside D hk hl⟩
          simp only [checkTimesForObjects, hd, hc, ih]

/-- **fix_raises_when_last_block_outside_object.**  All blocks timed, some audioObject referencing
the channel has a duration `D`, and the last block starts at or after `D` with a positive duration:
`fix_blockFormat_timings` raises `ValueError` (whatever the other blocks and objects are). -/
theorem fix_raises_when_last_block_outside_object (objs : List Obj) (bs : List Block)
    (ht : AllTimed bs) (o : Obj) (ho : o ∈ objs) (D : Rat) (hD : o.duration = some D)
    (hl : LastOutside D bs) : fixTimings objs bs = .error .valueError := by
  obtain ⟨r1, _, _⟩ := checkDurations_spec bs 0 ht
  have t1 := rel_allTimed r1 ht
  obtain ⟨r2, _⟩ := checkILs_spec (checkDurations 0 bs).1 0
  have t2 := rel_allTimed (RelP.mono (fun _ _ h => h.1) r2) t1
  have l2 := relD_lastOutside D r2 (checkDurations_lastOutside D bs 0 ht hl)
  have := checkTimesForObjects_outside objs _ t2 ⟨o, ho, D, hD, l2⟩
  simp only [fixTimings, this]

end Earverif.TimingFix
