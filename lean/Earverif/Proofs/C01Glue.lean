/- C01: cheap facts (identities, ranges) about the pipeline functions of `renderConcrete*` that are executed by the
   correspondence but carried no theorem: `applyOffset`, `coordTrans`, `cart`/`norm3`, `polarExtents`, `polarCombine`,
   `lockToScreenEdge`, `edgeLockHandle`, `screenScaleHandle`, the polar branch of `divergePositions`.
   Not covered by any theorem (only by the correspondence): the VALUES of `polarEdges`, `screenScaleHandle` and
   `edgeLockHandle` when a screen is active (they go through `atan2`/`tan` and the C13/C19 models), and that the polar
   `divergePositions` moves the azimuth by ±azimuthRange (that it keeps the distance is `diverge_polar_norm`). -/
import Earverif.Proofs.C01Concrete
import Earverif.Proofs.C01Pipe

namespace Earverif.GainCalc

/-! ### `PositionOffset.apply` -/

theorem applyOffset_none (cartesian : Bool) (c : V3 ℝ) : applyOffset cartesian c none = some c := rfl

/-- Cartesian offsets are added without a range check (the clipping happens in `coord_trans`) -/
theorem applyOffset_cart (c o : V3 ℝ) :
    applyOffset true c (some o) = some (c.1 + o.1, c.2.1 + o.2.1, c.2.2 + o.2.2) := by
  simp [applyOffset]

/-- an accepted polar offset leaves azimuth, elevation and distance inside the validated ranges -/
theorem applyOffset_polar_range (c o r : V3 ℝ) (h : applyOffset false c (some o) = some r) :
    r = (c.1 + o.1, c.2.1 + o.2.1, c.2.2 + o.2.2) ∧ -180 ≤ r.1 ∧ r.1 ≤ 180 ∧ -90 ≤ r.2.1 ∧ r.2.1 ≤ 90 ∧ 0 ≤ r.2.2 := by
  simp only [applyOffset, Bool.false_eq_true, if_false] at h
  split at h
  · rename_i hr
    simp only [Option.some.injEq] at h
    subst h
    simp only [k_real, zero_real] at hr
    refine ⟨rfl, ?_⟩
    norm_num at hr
    exact hr
  · exact absurd h (by simp)

/-! ### `coord_trans`, `cart`, `norm3` -/

/-- Cartesian positions are clipped to the cube -/
theorem coordTrans_cart_in_cube (c : V3 ℝ) :
    (-1 ≤ (coordTrans true c).1 ∧ (coordTrans true c).1 ≤ 1) ∧ (-1 ≤ (coordTrans true c).2.1 ∧ (coordTrans true c).2.1 ≤ 1) ∧
    (-1 ≤ (coordTrans true c).2.2 ∧ (coordTrans true c).2.2 ≤ 1) := by
  simp only [coordTrans, if_true]
  exact ⟨clip_range _, clip_range _, clip_range _⟩

/-- `‖cart(az, el, d)‖ = |d|` -/
theorem norm3_cart (az el d : ℝ) : norm3 (cart az el d) = |d| := by
  simp only [norm3, cart, sqrt_real, sin_real, cos_real]
  have : Real.sin (radians (-az)) * Real.cos (radians el) * d * (Real.sin (radians (-az)) * Real.cos (radians el) * d) +
      Real.cos (radians (-az)) * Real.cos (radians el) * d * (Real.cos (radians (-az)) * Real.cos (radians el) * d) +
      Real.sin (radians el) * d * (Real.sin (radians el) * d) = d ^ 2 := by
    have h1 := Real.sin_sq_add_cos_sq (radians (-az))
    have h2 := Real.sin_sq_add_cos_sq (radians el)
    have e : Real.sin (radians (-az)) * Real.cos (radians el) * d * (Real.sin (radians (-az)) * Real.cos (radians el) * d) +
        Real.cos (radians (-az)) * Real.cos (radians el) * d * (Real.cos (radians (-az)) * Real.cos (radians el) * d) +
        Real.sin (radians el) * d * (Real.sin (radians el) * d) =
        d ^ 2 * ((Real.sin (radians (-az)) ^ 2 + Real.cos (radians (-az)) ^ 2) * Real.cos (radians el) ^ 2 +
          Real.sin (radians el) ^ 2) := by ring
    rw [e, h1, one_mul, add_comm, h2, mul_one]
  rw [this, Real.sqrt_sq_eq_abs]

/-- polar positions keep their distance through `coord_trans` -/
theorem coordTrans_polar_norm (c : V3 ℝ) (h : 0 ≤ c.2.2) : norm3 (coordTrans false c) = c.2.2 := by
  simp only [coordTrans, Bool.false_eq_true, if_false]
  rw [norm3_cart, abs_of_nonneg h]

/-- straight ahead: `cart(0, 0, d) = (0, d, 0)` -/
theorem cart_front (d : ℝ) : cart (0 : ℝ) 0 d = (0, d, 0) := by
  simp [cart, radians]

/-! ### `PolarExtentHandler.handle`: the list of `calc_pv_spread` arguments -/

theorem polarExtents_length (distance width height depth : ℝ) :
    (polarExtents distance width height depth).length = 1 ∨ (polarExtents distance width height depth).length = 2 := by
  simp only [polarExtents, List.length_map]
  rcases polarDistances_cases distance depth with h | ⟨d1, d2, h, _, _⟩ <;> rw [h] <;> simp

/-- every modified width / height stays inside [0, 360] -/
theorem polarExtents_range (distance width height depth : ℝ) (hw : 0 ≤ width ∧ width ≤ 360)
    (hh : 0 ≤ height ∧ height ≤ 360) :
    ∀ e ∈ polarExtents distance width height depth, (0 ≤ e.1 ∧ e.1 ≤ 360) ∧ (0 ≤ e.2 ∧ e.2 ≤ 360) := by
  intro e he
  simp only [polarExtents, List.mem_map] at he
  obtain ⟨d, _, rfl⟩ := he
  exact ⟨extentMod_range width d hw.1 hw.2, extentMod_range height d hh.1 hh.2⟩

theorem polarCombine_single (p : List ℝ) : polarCombine [p] = p := rfl

theorem polarCombine_pair (p1 p2 : List ℝ) : polarCombine [p1, p2] = depthCombine p1 p2 := rfl

/-! ### screen edge lock, screen scaling: the inactive cases are the identity -/

theorem lockToScreenEdge_none (e : Lock.Edges ℝ) (az el : ℝ) : lockToScreenEdge e az el ⟨none, none⟩ = (az, el) := rfl

/-- the locked azimuth is the left edge, the right edge or the input; the locked elevation the top, the bottom or the input -/
theorem lockToScreenEdge_cases (e : Lock.Edges ℝ) (az el : ℝ) (sel : EdgeSel) :
    ((lockToScreenEdge e az el sel).1 = e.left ∨ (lockToScreenEdge e az el sel).1 = e.right ∨
      (lockToScreenEdge e az el sel).1 = az) ∧
    ((lockToScreenEdge e az el sel).2 = e.top ∨ (lockToScreenEdge e az el sel).2 = e.bottom ∨
      (lockToScreenEdge e az el sel).2 = el) := by
  obtain ⟨h, v⟩ := sel
  rcases h with _ | _ | _ <;> rcases v with _ | _ | _ <;> simp [lockToScreenEdge]

section handlers
variable [Zone.ScalarSqrt ℝ] [Conv.Scalar ℝ]

/-- no screen in the layout: `ScreenEdgeLockHandler.handle_vector` is the identity -/
theorem edgeLockHandle_noScreen (E : LayoutEnv ℝ) (P : Conv.Params ℝ) (cartesian : Bool) (b : CBlock ℝ) (p : V3 ℝ)
    (h : E.screen = none) : edgeLockHandle E P cartesian b p = some p := by
  simp [edgeLockHandle, h]

/-- no screenEdgeLock in the block: the identity (provided the layout's screen has edges at all) -/
theorem edgeLockHandle_noEdge (E : LayoutEnv ℝ) (P : Conv.Params ℝ) (cartesian : Bool) (b : CBlock ℝ) (p : V3 ℝ)
    (rep : ScreenSpec ℝ) (e : Lock.Edges ℝ) (hs : E.screen = some rep) (he : polarEdges rep = some e)
    (hb : b.edge = ⟨none, none⟩) : edgeLockHandle E P cartesian b p = some p := by
  simp [edgeLockHandle, hs, he, hb]

/-- `screenRef = False`: `ScreenScaleHandler.handle` is the identity -/
theorem screenScaleHandle_noRef (E : LayoutEnv ℝ) (P : Conv.Params ℝ) (cartesian : Bool) (b : CBlock ℝ) (p : V3 ℝ)
    (h : b.screenRef = false) : screenScaleHandle E P cartesian b p = some p := by
  simp [screenScaleHandle, h]

/-- no screen in the layout: `ScreenScaleHandler.handle` is the identity -/
theorem screenScaleHandle_noScreen (E : LayoutEnv ℝ) (P : Conv.Params ℝ) (cartesian : Bool) (b : CBlock ℝ) (p : V3 ℝ)
    (h : E.screen = none) : screenScaleHandle E P cartesian b p = some p := by
  simp only [screenScaleHandle, h]
  cases b.screenRef <;> rfl

end handlers

/-! ### `diverge`, polar branch -/

theorem divergePositions_polar (position : V3 ℝ) (v : ℝ) (hv : v ≠ 0) (ar pr : Option ℝ) (v2 : Bool) :
    ∃ l r, divergePositions false position (some v) ar pr v2 = [l, position, r] := by
  have hne : eqS v zero = false := by rw [eqS_eq_decide]; simp [hv]
  simp only [divergePositions, hne, Bool.false_eq_true, if_false]
  exact ⟨_, _, rfl⟩

/-- without divergence (or with value 0) the only position panned is the block's own -/
theorem divergePositions_none (cartesian : Bool) (position : V3 ℝ) (ar pr : Option ℝ) (v2 : Bool) :
    divergePositions cartesian position none ar pr v2 = [position] := rfl

/-- the rows of `local_coordinate_system(az, el)` are orthonormal: the rotation used by the polar `diverge` keeps lengths -/
theorem lcs_rot_norm (az el x y z : ℝ) :
    let r0 := cart (az - k 90) (zero : ℝ) one
    let r1 := cart az el (one : ℝ)
    let r2 := cart az (el + k 90) (one : ℝ)
    (r0.1 * x + r1.1 * y + r2.1 * z) * (r0.1 * x + r1.1 * y + r2.1 * z) +
    (r0.2.1 * x + r1.2.1 * y + r2.2.1 * z) * (r0.2.1 * x + r1.2.1 * y + r2.2.1 * z) +
    (r0.2.2 * x + r1.2.2 * y + r2.2.2 * z) * (r0.2.2 * x + r1.2.2 * y + r2.2.2 * z) = x * x + y * y + z * z := by
  have h90 : ((90 : ℚ) : ℝ) = 90 := by norm_num
  have h180 : ((180 : ℚ) : ℝ) = 180 := by norm_num
  have eA : radians (-(az - 90)) = radians (-az) + Real.pi / 2 := by
    simp only [radians, k_real, pi_real, h180]; ring
  have eE : radians (el + 90) = radians el + Real.pi / 2 := by
    simp only [radians, k_real, pi_real, h180]; ring
  have e0 : radians (0 : ℝ) = 0 := by simp [radians]
  simp only [cart, k_real, h90, zero_real, one_real, sin_real, cos_real, eA, eE, e0, Real.sin_add_pi_div_two,
    Real.cos_add_pi_div_two, Real.sin_zero, Real.cos_zero, mul_one]
  have hA := Real.sin_sq_add_cos_sq (radians (-az))
  have hE := Real.sin_sq_add_cos_sq (radians el)
  linear_combination (x ^ 2 + (Real.cos (radians el) * y - Real.sin (radians el) * z) ^ 2) * hA + (y ^ 2 + z ^ 2) * hE

/-- **polar divergence keeps the distance**: every position `diverge` returns for a polar block has the norm of the
    undiverged position (so whether a polar point block is in the point-only class is decided by the one locked position) -/
theorem diverge_polar_norm (position : V3 ℝ) (value ar pr : Option ℝ) (v2 : Bool) :
    ∀ q ∈ divergePositions false position value ar pr v2, norm3 q = norm3 position := by
  have hn0 : 0 ≤ norm3 position := by simp only [norm3, sqrt_real]; exact Real.sqrt_nonneg _
  have key : ∀ a : ℝ,
      let c := cart a (zero : ℝ) (norm3 position)
      let r0 := cart (azimuthOf position - k 90) (zero : ℝ) one
      let r1 := cart (azimuthOf position) (elevationOf position) (one : ℝ)
      let r2 := cart (azimuthOf position) (elevationOf position + k 90) (one : ℝ)
      norm3 ((r0.1 * c.1 + r1.1 * c.2.1 + r2.1 * c.2.2, r0.2.1 * c.1 + r1.2.1 * c.2.1 + r2.2.1 * c.2.2,
        r0.2.2 * c.1 + r1.2.2 * c.2.1 + r2.2.2 * c.2.2) : V3 ℝ) = norm3 position := by
    intro a
    have h := lcs_rot_norm (azimuthOf position) (elevationOf position) (cart a (zero : ℝ) (norm3 position)).1
      (cart a (zero : ℝ) (norm3 position)).2.1 (cart a (zero : ℝ) (norm3 position)).2.2
    have hc := norm3_cart a (zero : ℝ) (norm3 position)
    rw [abs_of_nonneg hn0] at hc
    simp only at h ⊢
    rw [norm3] at hc ⊢
    simp only [sqrt_real] at hc ⊢
    rw [h, hc]
  intro q hq
  cases value with
  | none => simp only [divergePositions, List.mem_singleton] at hq; rw [hq]
  | some v =>
    simp only [divergePositions] at hq
    split at hq
    · simp only [List.mem_singleton] at hq; rw [hq]
    · simp only [Bool.false_eq_true, if_false, List.mem_cons, List.not_mem_nil, or_false] at hq
      rcases hq with rfl | rfl | rfl
      · exact key _
      · rfl
      · exact key _

end Earverif.GainCalc
