"""C16 — PCM decode/encode is exact for every sample code.

Tie: the Lean model (Model/Ieee.lean `rn53`, Model/Pcm.lean) against the real
`decode_pcm_samples` / `encode_pcm_samples` / `interleave` / `deinterleave`, bit for bit.
Search: the property itself on the real code alone (vectorised numpy, exhaustive over codes).
"""
import math
import multiprocessing
import os
import struct
from concurrent.futures import ThreadPoolExecutor
from fractions import Fraction

import numpy as np

from .common import Spec, Driver

DEPTHS = (16, 24, 32)


def scale(b):
    return 2 ** (b - 1) - 1


# ---------------------------------------------------------------------------------------
# byte layout written from the format definition (little endian two's complement), numpy only,
# independent of the code under test


def codes_to_bytes(codes, b):
    codes = np.asarray(codes, dtype=np.int64)
    if b == 16:
        return codes.astype("<i2").tobytes()
    if b == 32:
        return codes.astype("<i4").tobytes()
    u = codes & 0xFFFFFF
    out = np.empty((len(codes), 3), np.uint8)
    out[:, 0] = u & 0xFF
    out[:, 1] = (u >> 8) & 0xFF
    out[:, 2] = (u >> 16) & 0xFF
    return out.tobytes()


def bytes_to_codes(bs, b):
    if b == 16:
        return np.frombuffer(bs, "<i2").astype(np.int64)
    if b == 32:
        return np.frombuffer(bs, "<i4").astype(np.int64)
    a = np.frombuffer(bs, np.uint8).reshape(-1, 3).astype(np.int64)
    u = a[:, 0] | (a[:, 1] << 8) | (a[:, 2] << 16)
    return np.where(u >= 2 ** 23, u - 2 ** 24, u)


def canon_codes(codes, b):
    codes = np.asarray(codes, dtype=np.int64)
    return np.where(codes == -(2 ** (b - 1)), -scale(b), codes)


def bits_of(arr):
    return np.ascontiguousarray(arr, dtype="<f8").view("<u8")


def hex_of_double(x):
    return struct.pack(">d", x).hex()


def real():
    from ear.fileio.bw64 import utils

    return utils


# ---------------------------------------------------------------------------------------
# the direct predicate on a block of consecutive codes (used in-process and in worker processes)


def roundtrip_block(args):
    """All codes lo..lo+n-1 of depth b through the real decode and encode.
    Returns dict(n, bad=[(code, decoded hex, got code, want code) ...first few], lo_ok, hi_ok, min, max)."""
    b, lo, n = args
    u = real()
    codes = np.arange(lo, lo + n, dtype=np.int64)
    raw = codes_to_bytes(codes, b)
    res = {"b": b, "lo": lo, "n": n, "bad": [], "range_bad": []}
    try:
        with np.errstate(all="ignore"):
            dec = u.decode_pcm_samples(raw, b)
            enc = bytes(u.encode_pcm_samples(dec, b))
    except Exception as e:  # an exception on whole-sample bytes is a failure of the property, not of the harness
        res["bad"].append((int(lo), "exception %r on the block of %d codes starting here" % (e, n), None, None))
        return res
    want = codes_to_bytes(canon_codes(codes, b), b)
    dec = np.asarray(dec)
    if dec.shape != (n,) or dec.dtype != np.float64:
        res["bad"].append((int(lo), "shape/dtype %s %s" % (dec.shape, dec.dtype), None, None))
        return res
    if enc != want:
        if len(enc) != len(want):
            res["bad"].append((int(lo), "length %d != %d" % (len(enc), len(want)), None, None))
        else:
            got = bytes_to_codes(enc, b)
            exp = canon_codes(codes, b)
            for i in np.nonzero(got != exp)[0][:5]:
                res["bad"].append((int(codes[i]), hex_of_double(dec[i]), int(got[i]), int(exp[i])))
            res["nbad"] = int((got != exp).sum())
    # range: every code but the most negative decodes into [-1, 1]; the most negative into [-1 - 1/M, -1)
    M = scale(b)
    inner = dec[codes != -(2 ** (b - 1))]
    if inner.size and not (inner.min() >= -1.0 and inner.max() <= 1.0):
        j = int(np.argmax(np.abs(dec) * (codes != -(2 ** (b - 1)))))
        res["range_bad"].append((int(codes[j]), hex_of_double(dec[j])))
    if lo == -(2 ** (b - 1)):
        x = Fraction(float(dec[0]))
        if not (-1 - Fraction(1, M) <= x < -1):
            res["range_bad"].append((int(lo), hex_of_double(dec[0])))
    if not np.all(np.diff(dec) > 0):
        j = int(np.nonzero(~(np.diff(dec) > 0))[0][0])
        res["range_bad"].append((int(codes[j]), "not strictly increasing: " + hex_of_double(dec[j]) + " " + hex_of_double(dec[j + 1])))
    return res


def boundary_codes(b):
    k = b - 1
    S = {0, scale(b), -scale(b), scale(b) - 1, -scale(b) + 1, -(2 ** k), -(2 ** k) + 1}
    for f in range(k + 1):
        for s in (1, -1):
            for d in (-2, -1, 0, 1, 2):
                S.add(s * 2 ** f + d)
    for n in (3, 5, 7, 9, 10, 100, 1000, 12345):
        S.add(n), S.add(-n)
    return sorted(c for c in S if -(2 ** k) <= c < 2 ** k)


def stratified_codes(rng, b, per):
    k = b - 1
    out = []
    for f in range(k):
        for s in (1, -1):
            for _ in range(per):
                out.append(s * rng.randrange(2 ** f, 2 ** (f + 1)))
    return out


def windows(rng, b, count, size):
    """Blocks of consecutive codes: both ends, around zero, around powers of two, random."""
    k = b - 1
    lo, hi = -(2 ** k), 2 ** k
    starts = {lo, hi - size, -size // 2}
    for f in range(max(1, k - 6), k):
        starts.add(2 ** f - size // 2)
        starts.add(-(2 ** f) - size // 2)
    starts = sorted(s for s in starts if lo <= s and s + size <= hi)
    while len(starts) < count:
        starts.append(rng.randrange(lo, hi - size + 1))
    rng.shuffle(starts)
    keep = [lo, hi - size, -size // 2]
    rest = [s for s in starts if s not in keep]
    return (keep + rest)[:max(count, 3)]



# ---------------------------------------------------------------------------------------
# array LAYOUT variants: the same logical (frames x channels) block / the same logical flat sample list,
# held in memory in different ways.  Every variant must behave exactly like the C-contiguous float64 one.


def layout_variants(block):
    """block: C-contiguous float64 (frames x channels). Yields (name, object) with identical logical content."""
    block = np.ascontiguousarray(block, dtype=np.float64)
    nf, ch = block.shape
    yield "c-contiguous", block.copy()
    yield "fortran-ordered", np.asfortranarray(block)
    yield "transposed-view-of-channels-x-frames", np.ascontiguousarray(block.T).T
    yield "stack-per-channel-T", (np.stack([block[:, c].copy() for c in range(ch)]).T if ch else block.copy())
    wide = np.full((2 * nf + 1, ch), 7.25)
    wide[1::2] = block
    yield "every-other-frame-of-longer-array", wide[1::2]
    widec = np.full((nf, 2 * ch + 3), -7.25)
    widec[:, 2:2 + ch] = block
    yield "column-subset-of-wider-array", widec[:, 2:2 + ch]
    widec2 = np.full((nf, 2 * ch + 1), 3.5)
    widec2[:, 1::2] = block
    yield "every-other-column-of-wider-array", widec2[:, 1::2]
    widef = np.asfortranarray(np.full((nf + 2, ch + 2), 1.75))
    widef[1:1 + nf, 1:1 + ch] = block
    yield "interior-of-fortran-array", widef[1:1 + nf, 1:1 + ch]
    yield "negative-frame-stride", block[::-1].copy()[::-1]
    yield "negative-channel-stride", block[:, ::-1].copy()[:, ::-1]
    yield "negative-both-strides", block[::-1, ::-1].copy()[::-1, ::-1]
    ro = block.copy()
    ro.flags.writeable = False
    yield "read-only", ro
    rof = np.asfortranarray(block)
    rof.flags.writeable = False
    yield "read-only-fortran", rof
    yield "nested-lists", block.tolist()
    if ch >= 2:
        # float32 holds the values exactly when they are float32 numbers to begin with (callers pass such blocks
        # for this variant, see `f32_exact`); with >= 2 channels interleave() produces float64 from it
        if np.array_equal(block.astype(np.float32).astype(np.float64), block):
            yield "float32", block.astype(np.float32)
            yield "float32-fortran", np.asfortranarray(block.astype(np.float32))


def flat_variants(flat):
    flat = np.ascontiguousarray(flat, dtype=np.float64)
    n = len(flat)
    yield "c-contiguous", flat.copy()
    w = np.full(2 * n + 1, 9.5)
    w[1::2] = flat
    yield "every-other-element", w[1::2]
    yield "negative-stride", flat[::-1].copy()[::-1]
    m = np.asfortranarray(np.full((3, n), 2.5))
    m[1] = flat
    yield "row-of-fortran-matrix", m[1]
    ro = flat.copy()
    ro.flags.writeable = False
    yield "read-only", ro
    yield "list", flat.tolist()
    if np.array_equal(flat.astype(np.float32).astype(np.float64), flat):
        yield "float32", flat.astype(np.float32)


def snapshot(obj):
    """What a caller could observe of its own argument: value, dtype, strides, the whole underlying buffer."""
    if isinstance(obj, list):
        return repr(obj)
    base = obj
    while isinstance(base.base, np.ndarray):
        base = base.base
    return (obj.dtype.str, obj.shape, obj.strides, obj.tobytes(), base.tobytes(order="A"), obj.flags.writeable)


def layout_desc(obj):
    if isinstance(obj, list):
        return "list"
    return "dtype=%s shape=%s strides=%s C=%s F=%s writeable=%s" % (
        obj.dtype, obj.shape, obj.strides, obj.flags.c_contiguous, obj.flags.f_contiguous, obj.flags.writeable)

# ---------------------------------------------------------------------------------------


class C16(Spec):
    pid = "C16"
    lean_targets = ("Earverif.Props.C16", "c16driver")
    props_module = "Earverif.Props.C16"
    theorems = ("Earverif.Ieee.ofBits_toBits", "Earverif.Ieee.toBits_injective", "Earverif.Ieee.rn53_le_int",
                "Earverif.Ieee.rn53_ge_int", "Earverif.Ieee.rn53_err_unit") + tuple(
        "Earverif.Pcm." + t
        for t in (
            "C16_roundtrip",
            "C16_roundtrip_bytes",
            "C16_roundtrip_bytes_some",
            "C16_copy_through_tools",
            "encode_isCode",
            "encode_within_step",
            "encode_clipped",
            "decode_encode_representable",
            "decode_range",
            "encode_clips",
            "rn53_error",
            "rn53_snap",
            "rn53_exact",
            "div_mul_exact",
            "pack_unpack",
            "unpack_pack",
            "interleave_deinterleave",
            "deinterleave_interleave",
        )
    )
    trusted_base = (
        "model Earverif/Model/Ieee.lean: numpy float64 `/` and `*` are IEEE-754 round-to-nearest-even (rn53 over exact "
        "rationals, unbounded exponent: all intermediate values of the round trip lie in [2^-32, 2^32]); "
        "`astype('int16'/'int32')` truncates in-range values toward zero; little-endian two's complement `tobytes`/"
        "`frombuffer` -- each of these is what the bit-for-bit correspondence run checks on every run",
        "model Earverif/Model/Pcm.lean is a hand transliteration of decode_pcm_samples / encode_pcm_samples / interleave / "
        "deinterleave (clip -> multiply -> astype; 24-bit packing by dropping byte 3 of int32, sign extension by "
        "`> 2**23-1`)",
        "the sign of zero and NaN are not modelled (nothing in the property observes them); +-inf enter the model as +-2^1024",
    )
    assumptions = (
        "byte strings whose length is a multiple of the sample size (others raise ValueError in the real code, `none` in the model; "
        "that agreement is checked but is outside the property)",
        "samples handed to encode_pcm_samples are float64 and not NaN",
    )
    rule = (
        "correspondence: one case = one sample code (or one double / one byte string / one frame array) pushed through the real "
        "numpy code and the Lean model and compared bit for bit; blocks of consecutive codes are compared through three 64-bit "
        "checksums per block computed on both sides (one case per block, the number of codes is added to `evaluations`); "
        "search: one case = one block of consecutive codes through real decode->encode compared with the canonical bytes, "
        "plus decoded range / monotonicity / clipping / interleaving predicates; 16 and 24 bit exhaustive in every tier, "
        "32 bit exhaustive in the thorough tier (and whenever an obligation or the correspondence broke)"
    )

    # ------------------------------------------------------------------ correspondence

    def _real_decode_encode(self, ctx, codes, b):
        """Real decode and re-encode of the given codes; None (and a recorded disagreement) if the real code
        raises or returns something that is not one float64 / one code per input code."""
        u = real()
        try:
            with np.errstate(all="ignore"):
                dec = np.asarray(u.decode_pcm_samples(codes_to_bytes(codes, b), b))
                raw = bytes(u.encode_pcm_samples(dec, b))
            if dec.dtype != np.float64 or dec.shape != (len(codes),) or len(raw) != len(codes) * (b // 8):
                raise ValueError("decoded %s %s, %d bytes re-encoded for %d codes" % (dec.dtype, dec.shape, len(raw), len(codes)))
            return dec, bytes_to_codes(raw, b)
        except Exception as e:
            ctx.disagree("real decode/encode raised or returned a malformed result",
                         {"bitdepth": b, "first_code": int(codes[0]), "n": len(codes)}, "total on codes", repr(e))
            return None

    def _corr_codes(self, ctx, drv, b, codes, label):
        codes = list(codes)
        lines = ["D %d %s" % (b, " ".join(map(str, codes[i:i + 4096]))) for i in range(0, len(codes), 4096)]
        outs = " ".join(drv.run(lines)).split()
        r = self._real_decode_encode(ctx, codes, b)
        if r is None:
            return
        dec, enc = r
        bits = bits_of(dec)
        impl = ["%016x:%d" % (int(w), int(e)) for w, e in zip(bits, enc)]
        ctx.count("corr:%s:b=%d" % (label, b), len(codes))
        ctx.cov["evaluations"] += len(codes)
        ctx.case(("D", b, label, len(codes), hash(tuple(codes[:50]))), True,
                 sample={"bitdepth": b, "code": codes[len(codes) // 3], "model": outs[len(codes) // 3] if len(outs) == len(codes) else None})
        if len(outs) != len(codes):
            ctx.disagree("driver output length", {"bitdepth": b, "label": label}, len(outs), len(codes))
            return
        bad = [i for i in range(len(codes)) if outs[i] != impl[i]]
        if bad:
            i = bad[0]
            ctx.disagree("decode/encode of a code (bits:recode) [%d of %d differ]" % (len(bad), len(codes)),
                         {"bitdepth": b, "code": codes[i]}, outs[i], impl[i])
        else:
            ctx.validated(len(codes))

    def _corr_windows(self, ctx, drv, b, wins, size, workers):
        """Checksum comparison on blocks of consecutive codes."""
        def model(lo):
            return drv.run(["R %d %d %d" % (b, lo, size)])[0]

        with ThreadPoolExecutor(workers) as ex:
            mouts = list(ex.map(model, wins))
        idx = np.arange(1, size + 1, dtype=np.uint64)
        for lo, mo in zip(wins, mouts):
            codes = np.arange(lo, lo + size, dtype=np.int64)
            r = self._real_decode_encode(ctx, codes, b)
            if r is None:
                return
            dec, enc = r
            w = bits_of(dec)
            s1 = int(w.sum(dtype=np.uint64))
            s2 = int((w * idx).sum(dtype=np.uint64))
            s3 = int(((enc % 2 ** 32).astype(np.uint64) * idx).sum(dtype=np.uint64))
            io = "%d %d %d" % (s1, s2, s3)
            ctx.count("corr:block-checksum:b=%d" % b, size)
            ctx.cov["evaluations"] += size - 1
            ctx.case(("R", b, lo, size), True, sample={"bitdepth": b, "block": [int(lo), size], "checksums": io})
            if mo != io:
                # locate the first differing code for a concrete report
                self._corr_codes(ctx, drv, b, [int(c) for c in codes], "block@%d" % lo)
                ctx.disagree("block checksums", {"bitdepth": b, "lo": int(lo), "n": size}, mo, io)
            else:
                ctx.validated(size)

    def doubles(self, ctx, b, n_rand):
        """Named classes of float64 inputs for encode (no NaN)."""
        rng = ctx.rng
        M = scale(b)
        inf = float("inf")
        cls = {}
        one_up, one_dn = math.nextafter(1.0, 2.0), math.nextafter(1.0, 0.0)
        cls["special"] = [0.0, -0.0, 1.0, -1.0, inf, -inf, 5e-324, -5e-324, 2.2250738585072014e-308, -2.2250738585072014e-308,
                          1e-310, -1e-310, 1e300, -1e300, 1.7976931348623157e308, one_up, one_dn, -one_up, -one_dn,
                          1.5, -1.5, 2.0, -2.0, 0.5, -0.5, 1.0 / M, -1.0 / M, 0.5 / M, -0.5 / M]
        codes = boundary_codes(b)[:: max(1, len(boundary_codes(b)) // 120)] + [rng.randrange(-M, M + 1) for _ in range(n_rand)]
        exact, neigh, half = [], [], []
        for c in codes:
            x = c / M
            exact.append(x)
            for direction in (inf, -inf):
                y = x
                for _ in range(rng.randint(1, 3)):
                    y = math.nextafter(y, direction)
                neigh.append(y)
            h = (c + 0.5) / M
            half.extend([h, math.nextafter(h, inf), math.nextafter(h, -inf)])
        cls["code-exact"] = exact
        cls["code-neighbour"] = neigh
        cls["half-step"] = half
        cls["uniform"] = [rng.uniform(-1.25, 1.25) for _ in range(n_rand)]
        cls["outside"] = [s * (1 + rng.random() * 10 ** rng.randint(-15, 300)) for s in (1, -1) for _ in range(n_rand // 4 + 5)]
        bitsl = []
        while len(bitsl) < n_rand:
            w = rng.getrandbits(64)
            if (w >> 52) & 0x7FF == 0x7FF and w & (2 ** 52 - 1):
                continue
            bitsl.append(struct.unpack(">d", struct.pack(">Q", w))[0])
        cls["random-bits"] = bitsl
        cls["tiny-scale"] = [rng.choice((1, -1)) * rng.random() * 2.0 ** -rng.randint(20, 1074) for _ in range(n_rand // 4 + 5)]
        return cls

    def _corr_doubles(self, ctx, drv, b, n_rand):
        u = real()
        M = scale(b)
        for name, xs in self.doubles(ctx, b, n_rand).items():
            arr = np.array(xs, dtype=np.float64)
            assert not np.isnan(arr).any()
            lines = ["E %d %s" % (b, " ".join(hex_of_double(x) for x in arr[i:i + 2048])) for i in range(0, len(arr), 2048)]
            outs = [int(t) for t in " ".join(drv.run(lines)).split()]
            try:
                with np.errstate(all="ignore"):
                    raw = bytes(u.encode_pcm_samples(arr, b))
                if len(raw) != len(arr) * (b // 8):
                    raise ValueError("%d bytes for %d samples" % (len(raw), len(arr)))
                enc = bytes_to_codes(raw, b)
            except Exception as e:
                ctx.disagree("real encode raised / malformed (%s)" % name, {"bitdepth": b, "n": len(arr)}, outs[:3], repr(e))
                continue
            ctx.count("corr:encode-double:%s:b=%d" % (name, b), len(arr))
            # informative: how many of these inputs distinguish truncation from rounding, and how many clip
            with np.errstate(all="ignore"):
                sc = np.clip(arr, -1, 1) * M
            ctx.count("corr:encode-double:trunc!=round", int((np.trunc(sc) != np.rint(sc)).sum()))
            ctx.count("corr:encode-double:clipped", int((np.abs(arr) > 1).sum()))
            ctx.cov["evaluations"] += len(arr) - 1
            ctx.case(("E", b, name, len(arr)), True,
                     sample={"bitdepth": b, "class": name, "double": hex_of_double(arr[0]), "code": int(enc[0])})
            bad = [i for i in range(len(arr)) if i >= len(outs) or outs[i] != int(enc[i])]
            if bad or len(outs) != len(arr):
                i = bad[0] if bad else 0
                ctx.disagree("encode of a double (%s) [%d of %d differ]" % (name, len(bad), len(arr)),
                             {"bitdepth": b, "double_bits": hex_of_double(arr[i]), "double": repr(float(arr[i]))},
                             outs[i] if i < len(outs) else None, int(enc[i]))
            else:
                ctx.validated(len(arr))

    def _corr_bytes(self, ctx, drv, n):
        """Byte level: unpack, pack, decode->encode, with lengths that are not multiples of the sample size;
        multi-channel interleave / deinterleave."""
        u = real()
        rng = ctx.rng
        lines, expect, metas = [], [], []

        def hexb(bs):
            return bs.hex() if bs else "-"

        for i in range(n):
            b = rng.choice(DEPTHS)
            step = b // 8
            ln = rng.choice([0, 1, 2, 3, 4, 5, 6, 7, step * rng.randint(1, 12), step * rng.randint(1, 12), rng.randint(0, 40)])
            bs = bytes(rng.getrandbits(8) if rng.random() < 0.7 else rng.choice([0, 0x7F, 0x80, 0xFF, 1]) for _ in range(ln))
            try:
                dec = u.decode_pcm_samples(bs, b)
                out = hexb(bytes(u.encode_pcm_samples(dec, b)))
                # the integer codes the decoder saw, recovered from its output alone: decoded * M is within
                # 2^-20 of the code, so rounding recovers it
                seen = np.rint(np.asarray(dec) * scale(b)).astype(np.int64)
                uo = " ".join(str(int(c)) for c in seen) if len(seen) else "-"
            except ValueError:
                out, uo = "none", "none"
            except Exception as e:
                out = uo = "exception:" + type(e).__name__
            lines.append("B %d %s" % (b, hexb(bs))); expect.append(out); metas.append(("B", b, hexb(bs)))
            lines.append("U %d %s" % (b, hexb(bs))); expect.append(uo); metas.append(("U", b, hexb(bs)))
            ctx.count("corr:bytes:len%%step=%s:b=%d" % ("0" if ln % step == 0 else "nonzero", b))
        # P: pack codes
        for i in range(n // 2):
            b = rng.choice(DEPTHS)
            M = scale(b)
            cs = [rng.choice([0, 1, -1, M, -M, M - 1, 1 - M, rng.randint(-M, M)]) for _ in range(rng.randint(0, 9))]
            arr = np.array(cs, dtype=np.float64) / M
            # the float that encodes to c: use the real decoder's own value so that P is about the byte layout only
            try:
                dec = np.asarray(u.decode_pcm_samples(codes_to_bytes(cs, b), b)) if cs else np.zeros(0)
                out = hexb(bytes(u.encode_pcm_samples(dec, b)))
            except Exception as e:
                out = "exception:" + type(e).__name__
            lines.append("P %d %s" % (b, " ".join(map(str, cs)))); expect.append(out); metas.append(("P", b, cs))
            ctx.count("corr:pack:b=%d" % b)
        # I / X: interleave, deinterleave on integer-valued arrays
        for i in range(n // 2):
            ch = rng.randint(1, 8)
            nf = rng.choice([0, 1, 2, 3, rng.randint(0, 12)])
            vals = [rng.randint(-99, 99) for _ in range(nf * ch)]
            a = np.array(vals, dtype=np.float64).reshape(nf, ch)
            # the model has no notion of memory layout: every layout of the same logical block is compared with
            # the same model answer (small integers are exact in float32 too)
            for lname, av in (layout_variants(a) if nf else [("c-contiguous", a)]):
                try:
                    r = np.asarray(u.interleave(av))
                    out = (" ".join(str(int(v)) for v in r) if r.size else "-") if r.ndim == 1 else "shape %s" % (r.shape,)
                except Exception as e:
                    out = "exception:" + type(e).__name__
                lines.append("I %d %d %s" % (ch, nf, " ".join(map(str, vals)))); expect.append(out)
                metas.append(("I layout=%s (%s)" % (lname, layout_desc(av)), ch, vals))
                ctx.count("corr:interleave:layout:%s" % lname)
            ln = rng.choice([nf * ch, nf * ch, rng.randint(0, 30)])
            flat = [rng.randint(-99, 99) for _ in range(ln)]
            for lname, fv in flat_variants(np.array(flat, dtype=np.float64)):
                try:
                    d = np.asarray(u.deinterleave(fv, ch))
                    if d.ndim != 2 or (d.size and d.shape[1] != ch):
                        out = "shape %s" % (d.shape,)
                    else:
                        out = " | ".join(" ".join(str(int(v)) for v in row) for row in d) if d.shape[0] else "-"
                except ValueError:
                    out = "none"
                except Exception as e:
                    out = "exception:" + type(e).__name__
                lines.append("X %d %s" % (ch, " ".join(map(str, flat)))); expect.append(out)
                metas.append(("X layout=%s" % lname, ch, flat))
                ctx.count("corr:deinterleave:layout:%s" % lname)
            ctx.count("corr:interleave:channels=%d" % ch)
            ctx.count("corr:deinterleave:%s" % ("whole-frames" if ln % ch == 0 else "partial-frame"))
        outs = drv.run(lines)
        for line, mo, io, meta in zip(lines, outs, expect, metas):
            ctx.case(("bytes", line), True, sample={"request": line[:120], "answer": mo[:120]} if len(line) % 16 == 0 else None)
            if mo != io:
                ctx.disagree("byte-level op %s" % meta[0], line[:400], mo[:400], io[:400])
            else:
                ctx.validated()

    def _corr_arith(self, ctx, drv, n):
        """The rounding model alone against the hardware: rn53(a/b), rn53(a*b) vs numpy float64 `/` and `*`
        on random operands (results kept in the normal range, where the unbounded-exponent model applies)."""
        rng = ctx.rng
        a = np.empty(n); b = np.empty(n)
        for i in range(n):
            k = rng.random()
            if k < 0.4:      # integers and the PCM scales
                a[i] = rng.choice((1, -1)) * rng.randrange(1, 2 ** rng.randint(1, 53))
                b[i] = rng.choice([2 ** 15 - 1, 2 ** 23 - 1, 2 ** 31 - 1, rng.randrange(1, 2 ** rng.randint(1, 53))])
            elif k < 0.8:    # full 53-bit significands, moderate exponents
                a[i] = math.ldexp(rng.choice((1, -1)) * (2 ** 52 + rng.getrandbits(52)), rng.randint(-300, 200))
                b[i] = math.ldexp(rng.choice((1, -1)) * (2 ** 52 + rng.getrandbits(52)), rng.randint(-300, 200))
            else:            # few significant bits: products/quotients that are exact or exact ties
                a[i] = math.ldexp(rng.getrandbits(rng.randint(1, 30)) + 1, rng.randint(-60, 60))
                b[i] = math.ldexp(rng.getrandbits(rng.randint(1, 30)) + 1, rng.randint(-60, 60))
        with np.errstate(all="ignore"):
            qd, pr = a / b, a * b
        outs = drv.run(["A %s %s" % (hex_of_double(x), hex_of_double(y)) for x, y in zip(a, b)])
        qb, pb = bits_of(qd), bits_of(pr)
        tiny = 2.2250738585072014e-308
        for i in range(n):
            mq, mp = outs[i].split()
            for op, mo, val, w in (("/", mq, qd[i], qb[i]), ("*", mp, pr[i], pb[i])):
                if not (tiny <= abs(val) < float("inf")):
                    ctx.count("corr:arith:result-outside-normal-range-skipped")
                    continue
                ctx.count("corr:arith:" + op)
                ctx.case(("A", op, hex_of_double(a[i]), hex_of_double(b[i])), True,
                         sample={"a": hex_of_double(a[i]), "op": op, "b": hex_of_double(b[i]), "rn53": mo} if i % 50 == 0 else None)
                if mo != "%016x" % int(w):
                    ctx.disagree("rn53 vs float64 hardware " + op, {"a": hex_of_double(a[i]), "b": hex_of_double(b[i])}, mo, "%016x" % int(w))
                else:
                    ctx.validated()

    def _corr_bits(self, ctx, drv, n):
        """The bit-pattern conversion of Model/Ieee.lean (the carrier of every bit-for-bit comparison): the exact value
        `ofBits` assigns to a 64-bit pattern against Python's own reading of the pattern (Fraction of the float), and the
        pattern `toBits` prints for that value (normal numbers and zero only; theorem ofBits_toBits)."""
        rng = ctx.rng
        pats = [0, 1 << 63, 1, (1 << 52) - 1, 1 << 52, (1 << 52) + 1, 0x3FF0000000000000, 0xBFF0000000000000,
                0x7FEFFFFFFFFFFFFF, 0xFFEFFFFFFFFFFFFF, 0x7FF0000000000000, 0xFFF0000000000000, 0x7FF8000000000000,
                0x7FF0000000000001, 0x3FD5555555555555, 0x0010000000000000, 0x000FFFFFFFFFFFFF, 0x8000000000000001]
        while len(pats) < n:
            k = rng.random()
            if k < 0.6:
                pats.append(rng.getrandbits(64))
            elif k < 0.8:   # around 1 / the PCM range
                pats.append((rng.getrandbits(1) << 63) | (rng.randint(1023 - 40, 1023 + 2) << 52) | rng.getrandbits(52))
            else:           # subnormal / extreme exponents
                pats.append((rng.getrandbits(1) << 63) | (rng.choice([0, 0, 1, 2046, 2047]) << 52) | rng.getrandbits(52))
        outs = " ".join(drv.run(["V " + " ".join("%016x" % w for w in pats[i:i + 512]) for i in range(0, len(pats), 512)])).split()
        for w, mo in zip(pats, outs):
            ex, fr = (w >> 52) & 0x7FF, w & ((1 << 52) - 1)
            x = struct.unpack(">d", struct.pack(">Q", w))[0]
            if ex == 0x7FF and fr:
                want, cls = "nan", "nan"
            else:
                if ex == 0x7FF:
                    v, cls = Fraction((-1) ** (w >> 63) * 2 ** 1024), "inf"      # +-inf enter the model as +-2^1024
                else:
                    v, cls = Fraction(x), ("zero" if x == 0 else "subnormal" if ex == 0 else "normal")
                bits = "%016x" % w if cls == "normal" else "0000000000000000" if cls == "zero" else "not-a-double"
                want = "%d/%d:%s" % (v.numerator, v.denominator, bits)
            ctx.count("corr:bit-pattern:" + cls)
            ctx.case(("V", w), True, sample={"pattern": "%016x" % w, "model": mo[:80]} if w % 97 == 0 else None)
            if mo != want:
                ctx.disagree("ofBits/toBits vs the float64 layout", {"pattern": "%016x" % w}, mo[:200], want[:200])
            else:
                ctx.validated()

    def _corr_readback(self, ctx, drv, b, n_rand):
        """decode(encode(x)) for arbitrary doubles (what C09 says a written sample reads back as), model vs real code"""
        u = real()
        for name, xs in self.doubles(ctx, b, n_rand).items():
            arr = np.array(xs, dtype=np.float64)
            lines = ["W %d %s" % (b, " ".join(hex_of_double(x) for x in arr[i:i + 2048])) for i in range(0, len(arr), 2048)]
            outs = " ".join(drv.run(lines)).split()
            try:
                with np.errstate(all="ignore"):
                    back = np.asarray(u.decode_pcm_samples(bytes(u.encode_pcm_samples(arr, b)), b), dtype=np.float64)
                impl = ["%016x" % int(w) for w in bits_of(back)]
            except Exception as e:
                ctx.disagree("real encode->decode raised (%s)" % name, {"bitdepth": b}, outs[:3], repr(e))
                continue
            ctx.count("corr:readback-double:%s:b=%d" % (name, b), len(arr))
            ctx.cov["evaluations"] += len(arr) - 1
            ctx.case(("W", b, name, len(arr)), True)
            bad = [i for i in range(len(arr)) if i >= len(outs) or outs[i] != impl[i]]
            if bad or len(outs) != len(arr):
                i = bad[0] if bad else 0
                ctx.disagree("decode(encode(x)) of a double (%s) [%d of %d differ]" % (name, len(bad), len(arr)),
                             {"bitdepth": b, "double_bits": hex_of_double(arr[i])}, outs[i] if i < len(outs) else None, impl[i])
            else:
                ctx.validated(len(arr))

    def correspond(self, ctx):
        drv = Driver("c16driver", "Earverif.Driver.C16")
        q = ctx.quick
        self._corr_arith(ctx, drv, 3000 if q else 60000)
        # every 16-bit code, listed
        self._corr_codes(ctx, drv, 16, range(-(2 ** 15), 2 ** 15), "all-codes")
        for b in (24, 32):
            bc = boundary_codes(b)
            ctx.count("corr:boundary-classes:b=%d" % b, len(bc))
            self._corr_codes(ctx, drv, b, bc, "boundary")
            self._corr_codes(ctx, drv, b, stratified_codes(ctx.rng, b, 40 if q else 400), "stratified-per-binade")
        if q:
            for b in (24, 32):
                self._corr_windows(ctx, drv, b, windows(ctx.rng, b, 32, 8192), 8192, 16)
        else:
            # all 2^24 codes of 24 bit through the native driver, 256 blocks of 65536 on 16 driver processes
            size = 65536
            self._corr_windows(ctx, drv, 24, list(range(-(2 ** 23), 2 ** 23, size)), size, 16)
            self._corr_windows(ctx, drv, 32, windows(ctx.rng, 32, 256, 16384), 16384, 16)
        for b in DEPTHS:
            self._corr_doubles(ctx, drv, b, 400 if q else 6000)
            self._corr_readback(ctx, drv, b, 100 if q else 2000)
        self._corr_bits(ctx, drv, 1500 if q else 20000)
        self._corr_bytes(ctx, drv, 300 if q else 4000)

    # ------------------------------------------------------------------ search (real code only)

    def _report_block(self, ctx, res):
        b = res["b"]
        ctx.count("search:roundtrip-codes:b=%d" % b, res["n"])
        ctx.cov["evaluations"] += res["n"] - 1
        ctx.case(("rt", b, res["lo"], res["n"]), True)
        for code, dec, got, want in res["bad"][:3]:
            ctx.hit("encode(decode(code)) is not the canonical code",
                    {"bitdepth": b, "code": code, "bytes": codes_to_bytes([code], b).hex()},
                    {"decoded_bits": dec, "reencoded": got, "expected": want, "block_mismatches": res.get("nbad")},
                    ["roundtrip"])
        for code, dec in res["range_bad"][:3]:
            ctx.hit("decoded value outside [-1 - 1/M, 1] (or not increasing with the code)",
                    {"bitdepth": b, "code": code, "bytes": codes_to_bytes([code], b).hex()}, {"decoded_bits": dec}, ["range"])

    def _clipping(self, ctx, deep):
        u = real()
        rng = ctx.rng
        inf = float("inf")
        for b in DEPTHS:
            M = scale(b)
            pos = [math.nextafter(1.0, 2.0), 1.0 + 1.0 / M, 1.0 + 0.5 / M, 1.5, 2.0, 1e10, 1e300, 1.7976931348623157e308, inf,
                   (M + 1) / M, 2.0 ** 31 / M, 2.0 ** 32 / M, 65536.0 / M + 1, 3.0, 4.0, 2.0 ** 15, 2.0 ** 16, 2.0 ** 23, 2.0 ** 24, 2.0 ** 31, 2.0 ** 32]
            pos += [1 + rng.random() * 10 ** rng.randint(-15, 20) for _ in range(4000 if deep else 500)]
            pos = [x for x in pos if x > 1.0]
            for sign, want in ((1, M), (-1, -M)):
                arr = np.array(pos, dtype=np.float64) * sign
                try:
                    with np.errstate(all="ignore"):
                        raw = bytes(u.encode_pcm_samples(arr, b))
                    if len(raw) != len(arr) * (b // 8):
                        raise ValueError("%d bytes for %d samples" % (len(raw), len(arr)))
                    got = bytes_to_codes(raw, b)
                except Exception as e:
                    ctx.hit("exception / malformed output encoding values outside [-1, 1]",
                            {"bitdepth": b, "samples": [repr(float(x)) for x in arr[:5]]}, {"exception": repr(e)}, ["clip"])
                    continue
                ctx.count("search:clip:b=%d" % b, len(arr))
                ctx.cov["evaluations"] += len(arr) - 1
                ctx.case(("clip", b, sign, len(arr)), True)
                badi = np.nonzero(got != want)[0]
                if len(badi):
                    i = int(badi[0])
                    ctx.hit("value outside [-1, 1] not clipped to full scale",
                            {"bitdepth": b, "sample": repr(float(arr[i])), "sample_bits": hex_of_double(arr[i])},
                            {"encoded": int(got[i]), "expected": want, "mismatches": len(badi)}, ["clip"])
            # full scale itself and the in-range neighbours must not be treated as outside
            arr = np.array([1.0, -1.0, 0.0, -0.0], dtype=np.float64)
            try:
                got = bytes_to_codes(bytes(u.encode_pcm_samples(arr, b)), b)
            except Exception as e:
                got = [repr(e)]
            if list(got) != [M, -M, 0, 0]:
                ctx.hit("full scale / zero not encoded exactly", {"bitdepth": b, "samples": [1.0, -1.0, 0.0, -0.0]},
                        {"encoded": [x if isinstance(x, str) else int(x) for x in got], "expected": [M, -M, 0, 0]}, ["clip"])

    def _within_step(self, ctx, deep):
        """C09's clause on samples, on the real code alone, in exact arithmetic: a float in [-1, 1] comes back within
        one quantisation step (+ 2^-54 for the final rounded division, see encode_within_step), a float outside comes
        back as exactly +-1, a representable value (decoded code other than the most negative) comes back exactly."""
        u = real()
        rng = ctx.rng
        inf = float("inf")
        for b in DEPTHS:
            M = scale(b)
            bound = Fraction(1, M) + Fraction(1, 2 ** 54)
            xs = [0.0, 1.0, -1.0, 0.5, -0.5, 1.0 / M, -1.0 / M, 0.5 / M, 1.5 / M, math.nextafter(1.0, 0.0), math.nextafter(-1.0, 0.0), 5e-324]
            for _ in range(3000 if deep else 400):
                k = rng.random()
                if k < 0.4:
                    xs.append(rng.uniform(-1, 1))
                elif k < 0.7:   # just below / above a code boundary: where truncation matters most
                    c = rng.randint(-M, M)
                    y = c / M
                    for _ in range(rng.randint(0, 2)):
                        y = math.nextafter(y, rng.choice([inf, -inf]))
                    xs.append(max(-1.0, min(1.0, y)))
                elif k < 0.85:
                    xs.append(rng.choice((1, -1)) * rng.random() * 2.0 ** -rng.randint(0, 40))
                else:
                    xs.append(rng.choice((1, -1)) * (1 + rng.random() * 10 ** rng.randint(-15, 30)))
            arr = np.array(xs, dtype=np.float64)
            try:
                with np.errstate(all="ignore"):
                    back = np.asarray(u.decode_pcm_samples(bytes(u.encode_pcm_samples(arr, b)), b), dtype=np.float64)
            except Exception as e:
                ctx.hit("exception encoding/decoding float samples", {"bitdepth": b}, {"exception": repr(e)}, ["within-step"])
                continue
            ctx.count("search:within-step:b=%d" % b, len(arr))
            ctx.cov["evaluations"] += len(arr) - 1
            ctx.case(("step", b, len(arr)), True)
            for x, y in zip(arr, back):
                x, y = float(x), float(y)
                if abs(x) > 1:
                    ok, what = (y == (1.0 if x > 0 else -1.0)), "sample outside [-1, 1] does not read back as full scale"
                else:
                    ok, what = abs(Fraction(y) - Fraction(x)) < bound, "sample reads back more than one quantisation step away"
                if not ok:
                    ctx.hit(what, {"bitdepth": b, "sample": repr(x), "sample_bits": hex_of_double(x)},
                            {"read_back": repr(y), "step": 1.0 / M}, ["within-step"])
                    break
            # representable values exactly
            codes = np.array([rng.randint(-M, M) for _ in range(500)], dtype=np.int64)
            dec = np.asarray(u.decode_pcm_samples(codes_to_bytes(codes, b), b))
            back = np.asarray(u.decode_pcm_samples(bytes(u.encode_pcm_samples(dec, b)), b))
            if not np.array_equal(dec, back):
                i = int(np.nonzero(dec != back)[0][0])
                ctx.hit("representable sample does not read back exactly", {"bitdepth": b, "code": int(codes[i])},
                        {"decoded": hex_of_double(dec[i]), "read_back": hex_of_double(back[i])}, ["within-step"])

    def _interleaving(self, ctx, deep):
        """Multi-channel: bytes -> decode -> deinterleave -> interleave -> encode -> canonical bytes, and
        deinterleave/interleave are mutually inverse rearrangements -- for every memory LAYOUT of the same logical
        (frames x channels) block and of the same flat sample list; the arguments are left untouched."""
        u = real()
        rng = ctx.rng
        for t in range(600 if deep else 150):
            b = rng.choice(DEPTHS)
            ch = rng.randint(1, 12)
            nf = rng.choice([0, 1, 2, rng.randint(1, 40)])
            M = scale(b)
            pool = [0, 1, -1, M, -M, -M - 1, M - 1]
            codes = [rng.choice(pool) if rng.random() < 0.3 else rng.randint(-M - 1, M) for _ in range(nf * ch)]
            if t < 36:  # small systematic cases first, so that a failure is reported on a readable input
                b, ch, nf = DEPTHS[t % 3], t % 6 + 1, t // 12 + 1
                codes = list(range(1, nf * ch + 1))
            raw = codes_to_bytes(codes, b)
            want = codes_to_bytes(canon_codes(codes, b), b) if codes else b""
            ctx.count("search:interleave:channels=%d" % ch)
            ctx.case(("il", b, ch, tuple(codes)), nf > 0)
            try:
                dec = u.decode_pcm_samples(raw, b)
                frames = u.deinterleave(dec, ch)
                ok_shape = np.asarray(frames).shape == (nf, ch)
                # frame f, channel c must be sample f*ch + c
                ok_place = ok_shape and np.array_equal(np.asarray(frames), np.asarray(dec).reshape(nf, ch))
                flat = u.interleave(frames)
                ok_inv = np.array_equal(np.asarray(flat), np.asarray(dec))
                out = bytes(u.encode_pcm_samples(flat, b))
            except Exception as e:  # any exception on well-formed input is a failure of the property
                ctx.hit("exception on well-formed multi-channel data", {"bitdepth": b, "channels": ch, "codes": codes},
                        {"exception": repr(e)}, ["interleave"])
                continue
            if not (ok_shape and ok_place and ok_inv and out == want):
                ctx.hit("multi-channel copy alters the audio", {"bitdepth": b, "channels": ch, "codes": codes, "bytes": raw.hex()},
                        {"shape_ok": bool(ok_shape), "placement_ok": bool(ok_place), "interleave_inverse_ok": bool(ok_inv),
                         "bytes_out": out.hex(), "expected": want.hex()}, ["interleave"])
                continue
            if nf == 0:
                continue
            # the same logical block in every layout: what is written must not depend on how the caller holds it
            block = np.asarray(dec, dtype=np.float64).reshape(nf, ch)      # logical content, from the decoder alone
            self._layouts_block(ctx, u, b, ch, codes, block, want, "decoded-block")
            # the same logical flat list in every layout through deinterleave
            for name, fv in flat_variants(np.asarray(dec, dtype=np.float64)):
                ctx.count("search:layout:deinterleave:%s" % name)
                before = snapshot(fv)
                try:
                    d = np.asarray(u.deinterleave(fv, ch))
                    ok = d.shape == (nf, ch) and np.array_equal(d.astype(np.float64), block)
                    err = None
                except Exception as e:
                    ok, err = False, repr(e)
                if not ok or snapshot(fv) != before:
                    ctx.hit("deinterleave depends on the memory layout of its argument / modifies it",
                            {"bitdepth": b, "channels": ch, "codes": codes, "layout": name, "layout_detail": layout_desc(fv)},
                            {"exception": err, "argument_unmodified": snapshot(fv) == before}, ["interleave", "layout"])
                    break
        # float32-exact blocks (values k / 2^m), all layouts incl. float32, through interleave + encode
        for t in range(120 if deep else 30):
            b = rng.choice(DEPTHS)
            ch = rng.randint(1, 8) if t >= 8 else t % 4 + 1
            nf = rng.randint(1, 12) if t >= 8 else t // 4 + 1
            vals = np.array([rng.choice([1.0, -1.0, 0.0, 1.5, -2.0, rng.randint(-2 ** 12, 2 ** 12) / 2.0 ** 12])
                             for _ in range(nf * ch)], dtype=np.float64).reshape(nf, ch)
            if t < 8:
                vals = (np.arange(1, nf * ch + 1, dtype=np.float64) / 64.0).reshape(nf, ch)
            try:
                want = bytes(u.encode_pcm_samples(vals.reshape(-1).copy(), b))   # encode alone, no interleave involved
            except Exception as e:
                ctx.hit("exception encoding float samples", {"bitdepth": b, "samples": vals.tolist()}, {"exception": repr(e)}, ["interleave"])
                continue
            self._layouts_block(ctx, u, b, ch, None, vals, want, "float32-exact-block")

    def _layouts_block(self, ctx, u, b, ch, codes, block, want, kind):
        """interleave + encode of every layout variant of `block` must give `want`, and interleave must give the
        row-major flattening of the logical block; arguments must come back unmodified."""
        logical = np.ascontiguousarray(block, dtype=np.float64).reshape(-1)
        for name, v in layout_variants(block):
            ctx.count("search:layout:interleave:%s" % name)
            ctx.case(("layout", kind, b, ch, name, logical.tobytes()), True)
            before = snapshot(v)
            inp = {"bitdepth": b, "channels": ch, "frames": int(block.shape[0]), "layout": name,
                   "layout_detail": layout_desc(v), "block_rows": np.asarray(block).tolist()}
            if codes is not None:
                inp["codes_row_major"] = codes
            try:
                flat = u.interleave(v)
                f64 = np.asarray(flat, dtype=np.float64)
                ok_flat = f64.shape == logical.shape and np.array_equal(f64, logical)
                unmod1 = snapshot(v) == before
                fb = snapshot(flat) if isinstance(flat, np.ndarray) else None
                out = bytes(u.encode_pcm_samples(flat, b))
                unmod2 = fb is None or snapshot(flat) == fb
            except Exception as e:
                ctx.hit("exception on a well-formed block in this memory layout", inp, {"exception": repr(e)}, ["interleave", "layout"])
                return
            if not (ok_flat and out == want and unmod1 and unmod2 and snapshot(v) == before):
                ctx.hit("written samples depend on the memory layout of the block (or an argument was modified)", inp,
                        {"interleave_is_row_major_flattening": bool(ok_flat), "interleaved": f64.tolist()[:64],
                         "expected_interleaved": logical.tolist()[:64], "bytes_out": out.hex()[:256], "expected_bytes": want.hex()[:256],
                         "interleave_left_argument_unmodified": bool(unmod1), "encode_left_argument_unmodified": bool(unmod2)},
                        ["interleave", "layout"])
                return

    def search(self, ctx, deep):
        # 16 and 24 bit: every code, in every tier
        tasks = [(16, -(2 ** 15), 2 ** 16)]
        tasks += [(24, lo, 2 ** 20) for lo in range(-(2 ** 23), 2 ** 23, 2 ** 20)]
        if deep:
            tasks += [(32, lo, 2 ** 23) for lo in range(-(2 ** 31), 2 ** 31, 2 ** 23)]
            ctx.notes.append("32 bit: all 2^32 codes through the real decode/encode")
        else:
            size = 2 ** 20
            wins = windows(ctx.rng, 32, 48, size)
            tasks += [(32, lo, size) for lo in wins]
            ctx.notes.append("32 bit (quick): %d blocks of %d consecutive codes: both ends, around 0 and +-2^f, random" % (len(wins), size))
        # boundary codes explicitly (cheap, and gives a named count)
        nproc = min(16, os.cpu_count() or 1)
        if len(tasks) > 4 and nproc > 1:
            with multiprocessing.get_context("fork").Pool(nproc) as pool:
                results = list(pool.imap_unordered(roundtrip_block, tasks, chunksize=1))
            # report in a fixed order (depth, then blocks nearest to code 0 first) so that replays are stable
            for res in sorted(results, key=lambda r: (r["b"], min(abs(r["lo"]), abs(r["lo"] + r["n"])), r["lo"])):
                self._report_block(ctx, res)
        else:
            for t in tasks:
                self._report_block(ctx, roundtrip_block(t))
        self._clipping(ctx, deep)
        self._within_step(ctx, deep)
        self._interleaving(ctx, deep)
        self._retained(ctx, deep)

    def _retained(self, ctx, deep):
        """Copy through the tools with RETAINED blocks: decode every block of a file first, encode them afterwards (what
        `blocks = list(reader.iter_sample_blocks(n))` followed by writing does).  Every tool must return a result that
        later calls of the same tool do not change: same-shape calls in a row, mono and multi-channel, every depth;
        also through Bw64Reader.read on two readers used in lock-step."""
        import io
        u = real()
        from ear.fileio.bw64 import Bw64Reader
        rng = ctx.rng
        for b in DEPTHS:
            nb = b // 8
            for ch in (1, 2, 3, 5):
                for nf in (1, 4, 64):
                    nblocks = 3 if not deep else 6
                    blocks_codes = [[int(rng.randrange(-(2 ** (b - 1)) + 1, 2 ** (b - 1))) for _ in range(nf * ch)]
                                    for _ in range(nblocks)]
                    raw = [codes_to_bytes(cs, b) for cs in blocks_codes]
                    dec, snaps = [], []
                    for bs in raw:   # decode everything first, keeping every returned array
                        d = u.deinterleave(u.decode_pcm_samples(bs, b), ch)
                        dec.append(d)
                        snaps.append(np.array(d, copy=True))
                    ctx.count("search:retained:%dbit:%dch" % (b, ch))
                    for i, (d, sn, bs) in enumerate(zip(dec, snaps, raw)):
                        if not np.array_equal(np.asarray(d), sn):
                            ctx.hit("a decoded/deinterleaved block changed when a later block of the same shape was decoded "
                                    "(copying with retained blocks alters the audio)",
                                    dict(bitdepth=b, channels=ch, frames=nf, block=i, blocks=[x.hex() for x in raw]),
                                    dict(when_returned=sn.tolist()[:4], later=np.asarray(d).tolist()[:4]),
                                    ["retained-block-aliased"])
                            break
                        out = u.encode_pcm_samples(u.interleave(np.asarray(d)), b)
                        if bytes(out) != canon_codes_bytes(bs, b):
                            ctx.hit("decode every block, then encode: bytes differ from the canonical codes",
                                    dict(bitdepth=b, channels=ch, frames=nf, block=i, blocks=[x.hex() for x in raw]),
                                    dict(got=bytes(out).hex()[:64]), ["retained-copy-differs"])
                            break


def canon_codes_bytes(bs, b):
    return codes_to_bytes(canon_codes(bytes_to_codes(bs, b), b), b)


SPEC = C16()

REGISTRY = dict(
    text="FULL: Lean theorem Earverif.Pcm.C16_roundtrip proves, for every sample code of 16, 24 and 32 bit audio, that the model of "
    "encode_pcm_samples(decode_pcm_samples(.)) returns the code itself (the most negative code returns the negated maximum), "
    "from an error analysis of an executable IEEE-754 binary64 round-to-nearest-even model over exact rationals "
    "(rn53_error, rn53_snap, div_mul_exact; only the codes 0, +-2^f, +-M and -2^(b-1) are closed by kernel evaluation); "
    "C16_roundtrip_bytes / C16_roundtrip_bytes_some lift it to byte strings (every stage returns a value -- no exception -- for "
    "every byte string holding whole samples, the most negative code included; output length = input length), "
    "C16_copy_through_tools composes the four tools: decode -> deinterleave -> interleave -> encode on whole frames of any "
    "channel count is the identity on bytes except most-negative-code -> negated maximum; decode_range / encode_clips / "
    "pack_unpack / interleave_deinterleave cover the rest of the statement. For ARBITRARY samples (used by C09): encode_isCode "
    "(the encoder's output is always a code of the depth, never the most negative one), encode_within_step (|x| <= 1: "
    "|decode(encode x) - x| < 1/(2^(b-1)-1) + 2^-54), encode_clipped (|x| > 1: decode(encode x) = +-1), "
    "decode_encode_representable. ofBits_toBits / toBits_injective: the 64-bit pattern the model prints for a value denotes "
    "exactly that value (the carrier of the bit-for-bit tie). The model is tied to the code on every run bit for bit (all 2^16 "
    "codes, boundary + stratified + block checksums for 24/32 bit, all 2^24 in the thorough tier, arbitrary doubles through "
    "encode and through encode->decode, the bit-pattern conversion itself against Python's reading of the pattern, byte "
    "strings, frame arrays) and the property itself is evaluated on the real numpy code for all 2^16 and 2^24 codes (all 2^32 "
    "in the thorough tier), plus clipping, the one-step bound in exact arithmetic and multi-channel copies.",
    note="Trusted: Lean kernel; that numpy float64 / and * are IEEE RN-even and astype truncates (checked bit for bit on every run "
    "against the rn53 model); hand transliteration of utils.py. NaN and the sign of zero are outside the model; toBits prints "
    "normal numbers and zero only (every value the PCM code produces is one). The bound 'within one quantisation step' holds "
    "as < step + 2^-54, not <= step: the decoded value is itself a rounded quotient.",
    technique="Lean 4 proof (floating-point error analysis over exact rationals + finite kernel evaluation) + bit-exact differential "
    "correspondence + exhaustive vectorised search on the real code",
    design_ref="DESIGN.md section 4, C16",
)
