"""C03 — rendered audio equals the metadata-defined time-varying gains, zero latency.

Correspondence: the real Renderer versus the Lean specification `Earverif.RenderSpec.out` (the right-hand side of
the C03 theorems) and, on a smaller batch, versus the transliterated model. Search: the real Renderer versus an
independent sample-by-sample numpy reference written from the property text (this file, `reference`).
"""
import json
import math
from fractions import Fraction as F

import numpy as np

from . import c02
from .common import Spec, Driver


def _ceil(q):
    """smallest integer >= q (q a Fraction)"""
    return -((-q.numerator) // q.denominator)


def _block_times(b):
    """absolute start/end (Fraction or None=unbounded) of a metadata block: object start + rtime, + duration; a
    block without timing spans the whole object."""
    os_ = F(b["os"]) if b["os"] is not None else F(0)
    if b["rt"] is not None and b["du"] is not None:
        start = os_ + F(b["rt"])
        return start, start + F(b["du"])
    end = os_ + F(b["od"]) if b["od"] is not None else None
    return os_, end


def spec_audio(t, sr, x):
    """The audio a track specification stands for, from the property text (C20 / C03 round 4): a direct spec is the
    named input channel, a silent spec is silence, a mix is the sum of its inputs, a gain scales its input, a matrix
    coefficient scales its input by the coefficient gain (if any) and delays it by the coefficient delay (ms) rounded
    to the nearest whole sample (an exact half goes to the smaller count) - zeros shifted in, length kept.
    x: (n, nin) array -> (n,) array."""
    n = x.shape[0]
    k = t[0]
    if k == "D":
        return x[:, t[1]].astype(float).copy()
    if k == "S":
        return np.zeros(n)
    if k == "M":
        acc = np.zeros(n)
        for c in t[1]:
            acc = acc + spec_audio(c, sr, x)
        return acc
    if k == "G":
        return float(F(t[1])) * spec_audio(t[2], sr, x)
    if k == "X":
        y = spec_audio(t[3], sr, x)
        if t[1] is not None:
            y = float(F(t[1])) * y
        if t[2] is not None:
            q = F(sr) * F(t[2]) / 1000
            lo = q.numerator // q.denominator
            d = lo if q - lo <= F(1, 2) else lo + 1
            y = np.concatenate([np.zeros(d), y])[:n]
        return y
    raise AssertionError(t)


def reference(sc, sess):
    """Independent reference, written from the C03 statement:
    at every output sample each item gets the gains of the block containing the sample (block i covers the integer
    samples s with start_i*fs <= s < end_i*fs, i.e. ceil(start_i*fs) <= s < ceil(end_i*fs)); constant within a block;
    linearly interpolated from the previous block's gains over the interpolation period (interpolationLength with
    jumpPosition, 0 if absent; the whole block without jumpPosition) when the block starts exactly where the previous
    one ended; silence outside any block. Direct path: zero latency. Diffuse path: decorrelation filter applied with
    its group delay (N-1)//2 compensated. Output = sum over items.
    Round 4: the audio of an item is what its track spec stands for (`spec_audio`); the input continues as silence
    after its last frame, so an input delayed by a matrix coefficient is still heard by the decorrelator's
    look-ahead of (N-1)//2 samples."""
    T, sr, nout = sc["T"], sc["sr"], sess.nout
    f = sess.taps
    N = f.shape[0]
    d = (N - 1) // 2
    x = np.array(sc["x"], dtype=float).reshape(T, sc["nin"])
    xe = np.concatenate([x, np.zeros((d, sc["nin"]))])  # the input followed by silence (look-ahead region)
    out = np.zeros((T, nout))
    diffuse_in = np.zeros((T + d, nout))
    for it, gs in zip(sc["items"], sess.item_gains):
        times = [_block_times(b) for b in it["blocks"]]
        ys = [spec_audio(t, sr, xe) for t in c02.item_specs(it)]  # (T+d,) per track spec of the item
        for s in range(T + d):
            for i, (b, (start, end)) in enumerate(zip(it["blocks"], times)):
                lo = _ceil(start * sr)
                hi = None if end is None else _ceil(end * sr)
                if not (lo <= s and (hi is None or s < hi)):
                    continue
                g = np.array(gs[i], dtype=float)
                if it["kind"] == "O":
                    contiguous = i > 0 and times[i - 1][1] is not None and times[i - 1][1] == start
                    if contiguous:
                        if b["jump"]:
                            interp = F(b["il"]) if b["il"] is not None else F(0)
                        else:
                            interp = end - start
                        target = start + interp
                        if s < _ceil(target * sr):
                            p = float((s - start * sr) / ((target - start) * sr))
                            g = (1.0 - p) * np.array(gs[i - 1], dtype=float) + p * g
                    xs = ys[0][s]
                    if s < T:
                        out[s] += g[:nout] * xs
                    diffuse_in[s] += g[nout:] * xs
                elif s < T:
                    if it["kind"] == "D":
                        out[s] += g * ys[0][s]
                    else:
                        out[s, sess.hoa_mask] += g @ np.array([y[s] for y in ys])
                break
    for s in range(T):
        for k in range(N):
            j = s + d - k
            if 0 <= j < T + d:
                out[s] += f[k] * diffuse_in[j]
    return out


def predicate_c03(ctx, sc, parts, sess, real, err):
    if err is not None:
        ctx.hit("an accepted timeline raised", c02.slim(sc, parts), {"error": err}, ["raises"])
        return
    cat = np.concatenate(real) if real else np.zeros((0, sess.nout))
    if cat.shape[0] != sc["T"]:
        ctx.hit("output length differs from input length", c02.slim(sc, parts),
                {"frames_out": int(cat.shape[0]), "frames_in": sc["T"]}, ["length"])
        return
    ref = reference(sc, sess)
    tol = c02.tol_of(sc)
    if cat.size and np.max(np.abs(cat - ref)) > tol:
        j = np.unravel_index(np.argmax(np.abs(cat - ref)), cat.shape)
        # which part of the statement? rerun the reference pieces to classify
        ctx.hit("rendered sample differs from the gain timeline reference", c02.slim(sc, parts),
                {"frame": int(j[0]), "channel": int(j[1]), "rendered": float(cat[j]), "reference": float(ref[j]),
                 "tolerance": tol}, ["gain-timeline"])


class C03(Spec):
    pid = "C03"
    lean_targets = ("Earverif.Props.C03", "c02driver")
    props_module = "Earverif.Props.C03"
    theorems = tuple("Earverif.Timeline." + t for t in (
        "bpc_eq_gainAt", "interp_ramp_closed_form", "ceil_eq_ceilQ", "obj_all_spec", "fixed_all_spec", "bpc_run_spec",
        "C03_gain_timeline", "C03_silence_outside_blocks", "gainAt_silent_iff", "C03_sum_of_items_linear",
        "C03_render_formula", "C03_direct_zero_latency", "C03_diffuse_group_delay", "exBlocks_accepted",
        "exSession_ok", "C03_render_formula_os", "out_add", "out_smul", "C03_linear_in_input", "exSession_wf")) + (
        # round 8: linearity with track specs (Proofs/C03LinearTS.lean), numpy exceptions inside the model
        "Earverif.TrackSpec.meaning_add", "Earverif.TrackSpec.meaning_smul",
        "Earverif.RendererTS.sAt_add", "Earverif.RendererTS.sAt_smul",
        "Earverif.RendererTS.outAtTS_add", "Earverif.RendererTS.outAtTS_smul",
        "Earverif.RendererTS.outTS_add", "Earverif.RendererTS.outTS_smul",
        "Earverif.RendererTS.C03_linear_in_input_ts",
        "Earverif.Renderer.renderAllOS_rel", "Earverif.Renderer.render_refines_spec_os_ok",
        "Earverif.RendererTS.renderAllTSOS_rel", "Earverif.RendererTS.render_eq_outTS_os_ok",
        "Earverif.RenderSpec.outAt_add", "Earverif.RenderSpec.outAt_smul",
        "Earverif.Renderer.renderTrace_eq", "Earverif.Renderer.renderTraceOS_eq",
        "Earverif.RendererTS.renderTraceTS_eq", "Earverif.RendererTS.renderTraceTSOS_eq",
        "Earverif.Renderer.render_refines_spec", "Earverif.Stream.vbs_fir_eq", "Earverif.Stream.aligner_run_eq",
        # round 7: the overlap-save convolver inside the model (Proofs/C02OverlapSave.lean)
        "Earverif.Stream.overlapSave_eq_fir", "Earverif.Stream.vbs_overlapSave_eq",
        "Earverif.Renderer.renderAllOS_eq", "Earverif.Renderer.render_refines_spec_os",
        "Earverif.RendererTS.renderAllTSOS_eq", "Earverif.RendererTS.render_eq_outTS_os") + tuple(
        "Earverif.RendererTS." + t for t in (
        "render_refines_spec_ts", "render_eq_outTS", "out_itemStreams", "C03_render_formula_ts", "C03_item_audio_ts",
        "C03_coefficient_delay_ts", "C03_direct_spec_ts", "exSessionTS_ok", "C03_render_formula_ts_os",
        "exSessionTS_wf"))
    HYPOTHESES_NOTE = (
        "theorems still stated with component facts as hypotheses: none - C03_render_formula (out[s] = direct(s) + "
        "sum_k f[k] diffuse(s+(N-1)//2-k) + ds(s) + hoa(s) for every blocking) rests on render_refines_spec, proved "
        "outright under SessionOK (block_size >= 1, accepted timelines); round 4: C03_render_formula_ts (the same "
        "formula with every item's audio = meaning(track spec), incl. C03_coefficient_delay_ts: a coefficient delay of "
        "d samples delays the item's audio by exactly d samples) rests on render_refines_spec_ts, proved outright under "
        "SessionOKTS (SessionOK + C20 Spec.wf + HOA items with >= 1 spec). Round 7: C03_render_formula_os / "
        "C03_render_formula_ts_os state the same formula for the renderer model with the partitioned overlap-save "
        "convolver inside (extra hypothesis: the decorrelation filter has >= 1 tap), from overlapSave_eq_fir / "
        "vbs_overlapSave_eq / renderAllOS_rel. Round 8: the *_os models raise the numpy exceptions themselves (track "
        "outside the input, np.stack of no tracks, np.dot with a mis-shaped decode matrix), so IndexOK (in SessionWF) is a "
        "USED hypothesis of the *_os formula theorems = 'no such exception'; InputOK is gone; C03_linear_in_input_ts "
        "extends linearity to items with track specs. Not under the kernel: the transform pair rfft/irfft (convolution theorem + "
        "linearity = the stated abstraction of Model/OverlapSave.lean, validated numerically by the C02 check), gain "
        "calculators (captured).")
    trusted_base = c02.C02.trusted_base + (
        "specification Earverif/Model/RenderSpec.lean (gainAt/out) written from the property text; compared with "
        "the real Renderer on every run; the search reference (harness/c03.py: reference) is a second, "
        "independent numpy transcription of the same text (round 4: with `spec_audio`, an independent "
        "transcription of what a track spec stands for)",
    )
    assumptions = c02.C02.assumptions + (
        "durations and interpolation lengths are non-negative (the interpreters do not reject negative ones)",
    )
    rule = (
        "scenario as in C02; the concatenated real output (all render() calls + get_tail) is compared sample by "
        "sample with RenderSpec.out evaluated by the Lean driver (exact rationals) and with the numpy reference; "
        "non-trivial = at least one item and T >= 1; scenarios whose items carry generated track specs (mix, gain, "
        "matrix coefficient with gain and delay, silent, nested) are compared with RendererTS.outTS (driver op spects), "
        "with the extended transliterated model (runts) and with the numpy reference extended by spec_audio"
    )

    def budgets(self, ctx):
        if ctx.quick:
            return dict(small=60, long=25, run=25, search=120, ts_small=30, ts_long=10, ts_run=12)
        return dict(small=400, long=250, run=150, search=1500, ts_small=250, ts_long=120, ts_run=80)

    def correspond(self, ctx):
        ctx.notes.append(self.HYPOTHESES_NOTE)
        driver = Driver("c02driver", "Earverif.Driver.C02")
        bud = self.budgets(ctx)
        rng = ctx.rng
        c2 = c02.SPEC
        scs = []
        for i in range(bud["small"]):
            sc = c02.gen_scenario(rng, small=True)
            scs.append((sc, c02.partitions_for(rng, sc["T"], False, 3)))
        for i in range(bud["long"]):
            sc = c02.gen_scenario(rng, small=False)
            scs.append((sc, c02.partitions_for(rng, sc["T"], False, 2)))
        # round 4: items with non-trivial track specs against RendererTS.outTS and the extended reference
        for i in range(bud["ts_small"]):
            sc = c02.add_specs(rng, c02.gen_scenario(rng, small=True))
            scs.append((sc, c02.partitions_for(rng, sc["T"], False, 3)))
        for i in range(bud["ts_long"]):
            sc = c02.add_specs(rng, c02.gen_scenario(rng, small=False))
            scs.append((sc, c02.partitions_for(rng, sc["T"], False, 2)))
        c2.correspond_render(ctx, driver, scs, mode="spec", extra=predicate_c03, c02_pred=False)
        # the transliterated model on a smaller batch (the C03 theorems are about it)
        runs = []
        for i in range(bud["run"]):
            sc = c02.gen_scenario(rng, small=rng.random() < 0.6)
            runs.append((sc, c02.partitions_for(rng, sc["T"], False, 2)))
        for i in range(bud["ts_run"]):
            sc = c02.add_specs(rng, c02.gen_scenario(rng, small=rng.random() < 0.6))
            runs.append((sc, c02.partitions_for(rng, sc["T"], False, 2)))
        c2.correspond_render(ctx, driver, runs, mode="run", c02_pred=False)

    def search(self, ctx, deep):
        rng = ctx.rng
        n = self.budgets(ctx)["search"] * (2 if deep and ctx.quick else 1)
        for i in range(n):
            default_sizes = (not ctx.quick) and i % 25 == 0
            if default_sizes:
                sc = c02.gen_scenario(rng, T=rng.randint(600, 1500), default_sizes=True)
            else:
                sc = c02.gen_scenario(rng, small=rng.random() < 0.4)
            if i % 3 == 1:
                sc = c02.add_specs(rng, sc)
            parts = c02.random_partition(rng, sc["T"]) if sc["T"] else (0,)
            sess = c02.Session(sc)
            real, err = sess.run(parts)
            ctx.case(("search", json.dumps(sc, sort_keys=True), parts), bool(sc["items"]) and sc["T"] >= 1)
            ctx.count("search:" + ("default-sizes" if default_sizes else "small-sizes") +
                      ("+track-specs" if c02.uses_ts(sc) else ""))
            for it in sc["items"]:
                ctx.count("search-item:" + it["kind"])
            for f in sc["features"]:
                ctx.count("search-feature:" + f)
            predicate_c03(ctx, sc, parts, sess, real, err)


SPEC = C03()

REGISTRY = dict(
    text="FULL: Lean theorems Earverif.Timeline.C03_render_formula_os and Earverif.RendererTS.C03_render_formula_ts_os "
    "(from render_refines_spec_os / render_eq_outTS_os) prove that for every session inside SessionWF (block_size >= 1, "
    "accepted timelines, decorrelation filter with >= 1 tap, and IndexOK: track indices inside the input, every HOA item "
    "has a track, HOA matrices as wide as the item has tracks - a USED hypothesis now: the model raises numpy's "
    "IndexError / ValueError itself where the real code does, see C02), every input and every blocking the model of "
    "Renderer.render/get_tail returns, at every output sample s, direct(s) + sum_k f[k]*diffuse(s+(N-1)//2-k) + ds(s) + "
    "hoa(s), each term the exact sum over items of input sample x gainAt(s); gainAt is the sample-by-sample "
    "specification (constant within a block, linear ramp p=(s-start*fs)/((target-start)*fs) over the interpolation "
    "period of a contiguous block, silence outside blocks). WHAT THE DIFFUSE FILTER IS IN THE THEOREM: the model "
    "contains the partitioned overlap-save convolver of ear/core/convolver.py behind the VariableBlockSizeAdapter "
    "(Model/OverlapSave.lean: filter partitions, input_block halves, rotating queue of accumulators, first half of "
    "slot 0 returned); its structure is PROVED equal to the linear FIR convolution with the decorrelation filter "
    "(overlapSave_eq_fir, vbs_overlapSave_eq: delayed by block_size, which the direct path's Delay and the "
    "BlockAligner offset compensate together with the group delay (N-1)//2); the transform pair is not modelled: the "
    "convolution theorem for numpy's rfft/irfft of length 2*block_size and linearity of irfft are ASSUMED (a spectrum is "
    "represented by its inverse transform, spectral multiply-accumulate by adding a circular convolution) and validated "
    "numerically on every C02 run against exact integer circular convolutions (1e-9). C03_render_formula / "
    "C03_render_formula_ts are the same formulas for the model with the direct-form FIR stand-in and totalised indexing "
    "(renderAllOS_rel / renderAllTSOS_rel: same audio or same exception, or a numpy exception and then the index "
    "conditions fail). Linearity: outAt_add / outAt_smul (the specified sample is additive and homogeneous in the input "
    "frames, any LawfulRMod frame type), out_add / out_smul, and C03_linear_in_input (rendering x+y in any blocking = "
    "frame-wise sum of the renderings of x and y in any blockings; rendering a*x = a times the rendering of x); the same "
    "for items WITH TRACK SPECS: TrackSpec.meaning_add / meaning_smul (C20's literal meaning of any spec - direct, "
    "silent, mix, gain, matrix coefficient with gain and delay, nested - is additive on inputs of the same shape and "
    "homogeneous), sAt_add / sAt_smul, outAtTS_add / outAtTS_smul, outTS_add / outTS_smul and C03_linear_in_input_ts "
    "(renderAllTSOS, any blockings). Component theorems: bpc_eq_gainAt (BlockProcessingChannel + "
    "InterpretObjectMetadata for all partitions and accepted timelines, no underrun), fixed_all_spec, "
    "interp_ramp_closed_form, ceil_eq_ceilQ, obj_all_spec; corollaries C03_gain_timeline, C03_silence_outside_blocks, "
    "C03_direct_zero_latency, C03_diffuse_group_delay, C03_sum_of_items_linear (component level). With track processors "
    "(Model/RendererTS.lean + the overlap-save variant): y = sAt = the literal meaning of the item's track spec on the "
    "input followed by the tail's silence; C03_item_audio_ts (zero extra latency), C03_coefficient_delay_ts (a matrix "
    "coefficient delay of d samples delays the item's contribution to every term by exactly d samples, also in the "
    "decorrelator look-ahead), C03_direct_spec_ts. renderTrace_eq / renderTraceOS_eq / renderTraceTS_eq / "
    "renderTraceTSOS_eq link the functions the driver runs to renderAll*. Kernel-evaluated examples exSession_ok / "
    "exSession_wf / exSessionTS_ok / exSessionTS_wf with instances of the theorems. The real Renderer is compared on "
    "every run with the Lean specification RenderSpec.out / outTS (exact rationals), with both transliterated models "
    "(FIR and overlap-save; run/runts, runos/runtsos), and the search compares it with an independent numpy reference "
    "written from the property text (with spec_audio for track specs).",
    note="Trusted: Lean kernel; hand transliteration + correspondence harness; captured gains (gain calculators are other "
    "properties); numpy rfft/irfft convolution theorem + linearity (assumed, numerically validated by the C02 check). "
    "Quantifier limits: durations and interpolationLength >= 0, start >= 0 (negative start raises 'metadata underrun' in "
    "the real code); track indices < n_in, >= 1 track per HOA item, HOA matrices of the right width (outside: the *_os "
    "models raise IndexError/ValueError as the code does - tied by the C02 correspondence cases; kernel-evaluated "
    "examples in Props/C03.lean incl. one where WHICH exception comes first depends on the blocking); the input width "
    "is c.n_in as in the C20 model (a model block stands for an (n, n_in) array when its frames have n_in samples; not "
    "needed as a hypothesis); track specs satisfying C20's Spec.wf (generated delays stay off rounding ties), HOA items "
    "with >= 1 spec, one sample rate per session, filter with >= 1 tap.",
    technique="Lean 4 refinement proof of the composed renderer (incl. the partitioned overlap-save convolver structure) "
    "against a sample-by-sample specification + linearity of the specification + differential correspondence of model "
    "and specification with the real Renderer + independent numpy reference",
    design_ref="DESIGN.md section 4, C02/C03",
)
