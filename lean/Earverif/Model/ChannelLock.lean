/-
C13 — channel lock and polar screen scaling (model).  Core Lean only.

Transliterates, from /repo/ear/core:
  * `objectbased.gain_calc.ChannelLockHandlerBase.__init__` (priority from `np.lexsort`) -> `priorities`
  * `ChannelLockHandlerBase.handle`                                                      -> `lockSelect`, `lockHandle`
  * `EgoChannelLockHandler` / `AlloChannelLockHandler.get_weighted_distances`            -> `dist`, `distW`
  * `np.interp` on a four-point table (numpy `arr_interp` + `binary_search_with_guess`,
    linear-search branch for tables of length <= 4)                                       -> `interp4`
  * `screen_scale.PolarScreenScaler.scale_az_el` (+ the `interp_sorted` assertion)       -> `scaleAzEl`
  * `PolarScreenScaler.scale_position`, `ScreenScaleHandler.handle` (polar branch), with the
    polar/Cartesian conversions as parameters                                             -> `scalePosition`, `screenHandlePolar`
-/
import Earverif.Model.Zone

namespace Earverif.Lock
open Earverif.Zone Earverif.Zone.Scalar Earverif.Zone.ScalarSqrt

/-! ### priority order -/

/-- Sort key of `np.lexsort((azimuths, |azimuths|, elevations, |elevations|))`: the *last*
key is the primary one. -/
def keyLt {α : Type} [Scalar α] (a b : α × α) : Bool :=
  -- a, b = (azimuth, elevation)
  let k (p : α × α) : List α := [abs p.2, p.2, abs p.1, p.1]
  let rec go : List α → List α → Bool
    | x :: xs, y :: ys => if lt x y then true else if lt y x then false else go xs ys
    | _, _ => false
  go (k a) (k b)

/-- `channel_priority[priority_order] = arange(n)`: the rank of channel `i` in the stable
sort, i.e. the number of channels that sort strictly before it, or equal and earlier. -/
def priorities {α : Type} [Scalar α] (azel : List (α × α)) : List Nat :=
  (List.range azel.length).map fun i =>
    match azel[i]? with
    | none => 0
    | some ki =>
      ((List.range azel.length).filter fun j =>
        match azel[j]? with
        | none => false
        | some kj => keyLt kj ki || (!keyLt ki kj && j < i)).length

/-! ### `handle` -/

/-- One non-excluded channel as `handle` sees it: index in the layout, `distances[k]`,
`distances_w[k]`, `channel_priority[k]`. -/
structure Cand (α : Type) where
  idx : Nat
  d : α
  dw : α
  prio : Nat

inductive LockOut where
  /-- `return position` (no lock requested, or no channel within `maxDistance`) -/
  | unchanged
  /-- `return channel_positions[closest]`: layout index of the chosen loudspeaker -/
  | locked (idx : Nat)
  /-- `np.argmin` of an empty sequence raises `ValueError` (only when `min_dist + tol`
  rounds to `min_dist`, i.e. distances above about 1e11) -/
  | error
  deriving DecidableEq, Repr

/-- `np.min`. -/
def minList {α : Type} [Scalar α] : α → List α → α
  | m, [] => m
  | m, x :: xs => minList (if lt x m then x else m) xs

/-- `all_closest[np.argmin(all_closest_priorities)]`: first candidate of minimal priority. -/
def argminPrio {α : Type} : Cand α → List (Cand α) → Cand α
  | best, [] => best
  | best, c :: cs => argminPrio (if c.prio < best.prio then c else best) cs

/-- The selection part of `handle`, on the non-excluded channels. `maxD = none` is
`channelLock.maxDistance is None`. -/
def lockSelect {α : Type} [Scalar α] (tol : α) (maxD : Option α) (cands : List (Cand α)) : LockOut :=
  -- possible = distances < maxDistance + tol  |  all ones
  let possible : List (Cand α) := match maxD with
    | some m => cands.filter fun (c : Cand α) => lt c.d (add m tol)
    | none => cands
  match possible with
  | [] => .unchanged                       -- if not np.any(possible): return position
  | c0 :: cs =>
    let minDist := minList c0.dw (cs.map Cand.dw)
    -- all_closest = where(distances_w < min_dist + tol)
    match possible.filter fun (c : Cand α) => lt c.dw (add minDist tol) with
    | [] => .error
    | a :: as => .locked (argminPrio a as).idx

/-- `np.linalg.norm(position - channel_positions, axis=1)` for one row. -/
def dist {α : Type} [ScalarSqrt α] (p c : P3 α) : α :=
  let dx := sub p.x c.x; let dy := sub p.y c.y; let dz := sub p.z c.z
  sqrt (add (add (mul dx dx) (mul dy dy)) (mul dz dz))

/-- `np.sqrt(np.sum(w * (position - channel_positions) ** 2, axis=1))`, `w = [1/16, 4, 32]`. -/
def distW {α : Type} [ScalarSqrt α] (p c : P3 α) : α :=
  let dx := sub p.x c.x; let dy := sub p.y c.y; let dz := sub p.z c.z
  let w0 : α := div one (ofNat 16)
  sqrt (add (add (mul w0 (mul dx dx)) (mul (ofNat 4) (mul dy dy))) (mul (ofNat 32) (mul dz dz)))

/-- `handle(position, channelLock, excluded)`. `allo` selects the allocentric handler
(weighted distances); `lock = none` is `channelLock is None`, `some none` a lock without
`maxDistance`. -/
def lockHandle {α : Type} [ScalarSqrt α] (allo : Bool) (pos : List (P3 α)) (prio : List Nat)
    (excluded : List Bool) (p : P3 α) (lock : Option (Option α)) : LockOut :=
  match lock with
  | none => .unchanged
  | some maxD =>
    let cands : List (Cand α) :=
      ((List.range pos.length).filter fun i => !isExcl excluded i).filterMap fun i =>
        match pos[i]? with
        | none => none
        | some c => some ⟨i, dist p c, if allo then distW p c else dist p c, prio.getD i 0⟩
    lockSelect eps5 maxD cands

/-! ### `np.interp` on four points, `scale_az_el` -/

/-- `np.interp(x, [x0,x1,x2,x3], [y0,y1,y2,y3])` for finite inputs. -/
def interp4 {α : Type} [Scalar α] (x0 x1 x2 x3 y0 y1 y2 y3 x : α) : α :=
  -- binary_search_with_guess: key > arr[len-1] -> len ; key < arr[0] -> -1
  if lt x3 x then y3
  else if lt x x0 then y0
  -- len <= 4: `for (i = 1; i < len && key >= arr[i]; ++i); return i - 1`
  else if !(le x1 x) then seg x0 x1 y0 y1
  else if !(le x2 x) then seg x1 x2 y1 y2
  else if !(le x3 x) then seg x2 x3 y2 y3
  else y3                                   -- j == len - 1
where
  /-- `dx[j] == x ? dy[j] : slope*(x - dx[j]) + dy[j]`, `slope = (dy[j+1]-dy[j])/(dx[j+1]-dx[j])` -/
  seg (xa xb ya yb : α) : α :=
    if eq xa x then ya else add (mul (div (sub yb ya) (sub xb xa)) (sub x xa)) ya

/-- `PolarEdges`. -/
structure Edges (α : Type) where
  left : α
  right : α
  bottom : α
  top : α

/-- `scale_az_el(az, el)`; `none` is the `interp_sorted` assertion (unsorted `xp`). -/
def scaleAzEl {α : Type} [Scalar α] (ref rep : Edges α) (az el : α) : Option (α × α) :=
  let n180 : α := sub zero (ofNat 180)
  let p180 : α := ofNat 180
  let n90 : α := sub zero (ofNat 90)
  let p90 : α := ofNat 90
  if !(le n180 ref.right && le ref.right ref.left && le ref.left p180) then none
  else if !(le n90 ref.bottom && le ref.bottom ref.top && le ref.top p90) then none
  else some (interp4 n180 ref.right ref.left p180 n180 rep.right rep.left p180 az,
             interp4 n90 ref.bottom ref.top p90 n90 rep.bottom rep.top p90 el)

/-- `PolarScreenScaler.scale_position(position)`:
`az, el, distance = azimuth(position), elevation(position), np.linalg.norm(position)`;
`cart(*scale_az_el(az, el), distance)`.  The conversions `geom.azimuth`, `geom.elevation`,
`np.linalg.norm` and `geom.cart` (trigonometry; property C19's subject) are parameters. -/
def scalePosition {α : Type} [Scalar α] (azimuth elevation norm : P3 α → α) (cart : α → α → α → P3 α)
    (ref rep : Edges α) (p : P3 α) : Option (P3 α) :=
  (scaleAzEl ref rep (azimuth p) (elevation p)).map fun ae => cart ae.1 ae.2 (norm p)

/-- `ScreenScaleHandler.handle(position, screenRef, reference_screen, cartesian=False)`: `rep = none`
is `self.reproduction_screen is None`. -/
def screenHandlePolar {α : Type} [Scalar α] (azimuth elevation norm : P3 α → α) (cart : α → α → α → P3 α)
    (screenRef : Bool) (ref : Edges α) (rep : Option (Edges α)) (p : P3 α) : Option (P3 α) :=
  match screenRef, rep with
  | true, some r => scalePosition azimuth elevation norm cart ref r p
  | _, _ => some p

end Earverif.Lock
