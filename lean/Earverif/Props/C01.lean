/-
C01 — Object gains are finite, non-negative, LFE-free and power-preserving.

What is proved (over ℝ, for the model `Earverif/Model/GainCalc.lean` of `GainCalc.render` from the point
where the sub-panners have answered): `render_nonneg`, `render_lfe_zero` (`render_lfe_slot` for any scalar),
`render_power`, `render_power_stereo`, `render_muted_zero`, and the lemmas that discharge the hypotheses for
the modelled sub-panners (`diverge_gains_sum_one`, `diverge_gains_nonneg`, `split_power`,
`downmix_rows_sum_one`, `downmix_nonneg`, `depthCombine_unit`, `pvSpread_power`, `normalise_unit`,
`safeNorm_unit`, `balancePan_unit`, `allo_unit_power`), and two compositions: `render_power_allocentric`
(Cartesian point objects: no hypothesis on the panner left) and `render_power_polar_extent` (polar extent/depth
skeleton on top of unit-power point-source and spread answers).

Round 2: `tables_ok`/`tables_nonempty` (`decide +kernel` over `Gen/C01_Tables.lean`, regenerated from the real
objects on every run) discharge the table hypotheses for the ten BS.2051 layouts inside Lean: `downmix_layouts`
(H2 for every exclusion mask, incl. totality), `allo_unit_power_layouts`, `allo_total_layouts`,
`render_power_allocentric_layouts`, `render_power_polar_layouts`, `renderFull_allocentric_layouts`.  The position
pipeline is inside the model (`renderFull`: positionOffset → coord_trans → screen scale → edge lock → channel lock
→ diverge positions → extent pan → render; the three handlers and the extent panner are function parameters):
`renderFull_power`, `renderFull_polar`; `divergePositions_length`, `diverge_cart_in_cube`; the polar handler's
distance/depth logic `polarHandle_isPolarRow`, `amountSpread_range`, `extentMod_range`; the `allo_extent.get_gains`
skeleton `alloExtent_nonneg`, `alloExtent_unit`, `alloExtent_unit_of_size`; `alloHandle_total` (any scalar).

Round 5: `renderConcreteCart` / `renderConcretePolarPoint` (Model/GainCalcConcrete.lean) instantiate the handlers and the
point-source panners with the models of C13 (zone masks, channel lock, `scaleAzEl`, `compensate_position`,
`_speaker_tree`), C19 (conversion) and C05 (panner over its regenerated table), imported unchanged:
`renderConcrete_cart_power(_layouts)` — Cartesian point objects end to end with no handler or panner hypothesis;
`renderConcrete_polar_point_partial(_layouts)` — polar point objects (zero extent, distance ≥ 1) on the nine non-stereo
layouts, remaining hypotheses: the C05 panner returns a result, and that result is not the all-zero vector.
Supporting: `treeWF_of_TreeS`, `allo_unit_power_distinct`, `pspHandle_contract`, `polarPointPan_contract`,
`quadRoot_range`, `tables_env_ok`, `tables_polar_ok`.  Still parameters: the extent weight functions of the polar extent
panner, `_calc_f/_calc_w/_calc_g_point_separated` of `allo_extent`, `np.roots` (closed form assumed, see the model header).

What is NOT proved — the full property
  C01_full: ∀ ObjectTypeMetadata within the ADM value ranges, ∀ supported layouts (nominal or admissible real
            positions), `GainCalc(layout).render(meta)` is finite, non-negative, zero on LFE, and has power
            (gain × object gain)² (0 if muted; within [½,1]× on 0+2+0)
needs, beyond `C01_partial`: (a) the point-source panner never returns "no result" and returns a non-negative
unit-power vector (C05's subject; for 0+2+0 power in [½,1]); (b) the spread weights handed to
`SpreadingPanner.panning_values_for_weight` are not all zero, so that the vector before normalisation is
non-zero; (c) `allo_extent.get_gains`' vector before the last `safe_norm` is longer than 1e-16;
(d) the zone downmix groups are duplicate-free and cover all channels (true of the tables the code builds;
checked harness-side on every run, as is `TreeWF` of the allocentric grids the code builds);
(e) finiteness / absence of NaN and rounding under float
arithmetic.  (a)-(c), (e) are only searched on the real code (harness/c01.py).
-/
import Earverif.Proofs.C01Real
import Earverif.Proofs.C01Sub
import Earverif.Proofs.C01Allo
import Earverif.Proofs.C01Tables
import Earverif.Proofs.C01Ext
import Earverif.Proofs.C01Pipe
import Earverif.Proofs.C01Concrete
import Earverif.Proofs.C01Psp
import Earverif.Gen.C01_Tables
import Earverif.Gen.C05_Tables

namespace Earverif.GainCalc

/-! ## contracts of the sub-panners (hypotheses of the render theorems) -/

/-- H1 (with bounds): every per-position gain vector is non-negative with power in `[lo, hi]` -/
def RowsBetween (lo hi : ℝ) (g : List (List ℝ)) : Prop := ∀ r ∈ g, Nonneg r ∧ lo ≤ sumSq r ∧ sumSq r ≤ hi

/-- H1: non-negative, Σ² = 1 -/
def UnitRows (g : List (List ℝ)) : Prop := RowsBetween 1 1 g

/-- H2 for the polar path (nothing is needed of the Cartesian mask beyond its shape) -/
noncomputable def PathOk : ZonePath ℝ → Prop
  | .polar D => Stochastic D
  | .cartesian _ => True

/-- Σ direct² + Σ diffuse² -/
noncomputable def power (r : List ℝ × List ℝ) : ℝ := sumSq r.1 + sumSq r.2

/-! ## the split -/

/-- `a² (1−x) + a² x = a²`, vector form: `direct_diffuse_split` preserves power for `0 ≤ diffuse ≤ 1`. -/
theorem split_power (v : List ℝ) {x : ℝ} (h0 : 0 ≤ x) (h1 : x ≤ 1) : power (directDiffuseSplit v x) = sumSq v := by
  simp only [power, directDiffuseSplit, sumSq_map_mul, sqrt_real, one_real]
  rw [Real.mul_self_sqrt (by linarith), Real.mul_self_sqrt h0]; ring

theorem split_nonneg {v : List ℝ} (hv : Nonneg v) (x : ℝ) :
    Nonneg (directDiffuseSplit v x).1 ∧ Nonneg (directDiffuseSplit v x).2 :=
  ⟨map_mul_nonneg (Real.sqrt_nonneg _) hv, map_mul_nonneg (Real.sqrt_nonneg _) hv⟩

/-! ## render -/

/-- gains after the power-domain sum over diverged positions, the zone downmix and `nan_to_num` -/
noncomputable def panned (n : Nat) (path : ZonePath ℝ) (d : List ℝ) (g : List (List ℝ)) : List ℝ :=
  let gains := vsqrt (vecMat n d ((gainsForEachPos path g).map sq))
  match path with
  | .polar D => zoneHandle n gains D
  | .cartesian _ => gains

theorem render_eq (n : Nat) (path : ZonePath ℝ) (d : List ℝ) (g : List (List ℝ)) (bg og : ℝ) (mute : Bool)
    (isLfe : List Bool) (x : ℝ) :
    render n path d g bg og mute isLfe x =
      directDiffuseSplit (scatter isLfe ((panned n path d g).map fun y => y * (bg * getObjectGain mute og))) x := by
  cases path <;> simp [render, panned, Function.comp_def]

theorem panned_nonneg (n : Nat) (path : ZonePath ℝ) (d : List ℝ) (g : List (List ℝ)) : Nonneg (panned n path d g) := by
  cases path <;> simp only [panned, zoneHandle] <;> exact vsqrt_nonneg _

theorem mix_power (n : Nat) (d : List ℝ) (rows : List (List ℝ)) (hr : ∀ r ∈ rows, r.length = n) (hd : Nonneg d) :
    sumSq (vsqrt (vecMat n d (rows.map sq))) = dot d (rows.map sumSq) := by
  have hn : Nonneg (vecMat n d (rows.map sq)) := by
    refine vecMat_nonneg n d _ hd ?_
    intro r hr'
    simp only [List.mem_map] at hr'
    obtain ⟨r0, _, rfl⟩ := hr'
    exact sq_nonneg' r0
  rw [sumSq_vsqrt hn, sum_vecMat n d _ ?_]
  · rw [List.map_map]; rfl
  · intro r hr'
    simp only [List.mem_map] at hr'
    obtain ⟨r0, h0, rfl⟩ := hr'
    simpa using hr r0 h0

theorem zone_power (n : Nat) (gains : List ℝ) (D : List (List ℝ)) (hD : Stochastic D) (hl : D.length = gains.length)
    (hr : ∀ r ∈ D, r.length = n) : sumSq (zoneHandle n gains D) = sumSq gains := by
  have hn : Nonneg (vecMat n (sq gains) D) := vecMat_nonneg n _ D (sq_nonneg' gains) (fun r h => (hD r h).1)
  simp only [zoneHandle]
  rw [sumSq_vsqrt hn, sum_vecMat n _ D hr]
  have hb := dot_bounds (lo := 1) (hi := 1) (w := sq gains) (l := D.map sum) (by simp [hl]) (sq_nonneg' gains)
    (by
      intro x hx
      simp only [List.mem_map] at hx
      obtain ⟨r, h, rfl⟩ := hx
      rw [(hD r h).2]; exact ⟨le_rfl, le_rfl⟩)
  rw [sumSq_eq_sum_sq]
  linarith [hb.1, hb.2]

/-- The power identity before any contract on the per-position vectors is used:
    total power = (block gain · object gain)² · Σ_k d_k · power(g_k). -/
theorem render_power_eq (n : Nat) (path : ZonePath ℝ) (d : List ℝ) (g : List (List ℝ)) (bg og : ℝ) (mute : Bool)
    (isLfe : List Bool) (x : ℝ) (hs : shapesOk n path d g isLfe = true) (hd : Nonneg d) (hp : PathOk path)
    (h0 : 0 ≤ x) (h1 : x ≤ 1) :
    power (render n path d g bg og mute isLfe x) = (bg * getObjectGain mute og) ^ 2 * dot d (g.map sumSq) := by
  rw [render_eq, split_power _ h0 h1]
  have hpl : (panned n path d g).length = n ∧ sumSq (panned n path d g) = dot d (g.map sumSq) := by
    cases path with
    | polar D =>
      simp only [shapesOk, Bool.and_eq_true, beq_iff_eq, List.all_eq_true] at hs
      obtain ⟨⟨_, _⟩, ⟨hg, hDl⟩, hDr⟩ := hs
      have hg' : ∀ r ∈ g, r.length = n := hg
      have hDr' : ∀ r ∈ D, r.length = n := hDr
      have hlen : (vsqrt (vecMat n d (g.map sq))).length = n := by
        rw [length_vsqrt, length_vecMat]
        intro r hr
        simp only [List.mem_map] at hr
        obtain ⟨r0, h0', rfl⟩ := hr
        simpa using hg' r0 h0'
      constructor
      · simp only [panned, gainsForEachPos, zoneHandle, length_vsqrt]
        exact length_vecMat n _ D hDr'
      · simp only [panned, gainsForEachPos]
        rw [zone_power n _ D hp (by rw [hlen, hDl]) hDr', mix_power n d g hg' hd]
    | cartesian ex =>
      simp only [shapesOk, Bool.and_eq_true, beq_iff_eq, List.all_eq_true] at hs
      obtain ⟨⟨_, _⟩, hel, hg⟩ := hs
      have hg' : ∀ r ∈ g, r.length = countFalse ex := hg
      have hrows : ∀ r ∈ g.map (scatter ex), r.length = n := by
        intro r hr
        simp only [List.mem_map] at hr
        obtain ⟨r0, _, rfl⟩ := hr
        rw [length_scatter, hel]
      constructor
      · simp only [panned, gainsForEachPos, length_vsqrt]
        refine length_vecMat n _ _ ?_
        intro r hr
        simp only [List.mem_map] at hr
        obtain ⟨r1, ⟨r0, _, rfl⟩, rfl⟩ := hr
        rw [length_sq, length_scatter, hel]
      · simp only [panned, gainsForEachPos]
        rw [mix_power n d _ hrows hd, List.map_map]
        congr 1
        refine List.map_congr_left ?_
        intro r hr
        exact sumSq_scatter ex r (hg' r hr)
  have hcnt : countFalse isLfe = n := by
    cases path <;> simp only [shapesOk, Bool.and_eq_true, beq_iff_eq] at hs <;> exact hs.1.2
  rw [sumSq_scatter isLfe _ (by simp [hpl.1, hcnt]), sumSq_map_mul, hpl.2]; ring

/-- **Non-negativity.**  Every direct and diffuse gain is ≥ 0 (block and object gain ≥ 0; no other hypothesis:
    over ℝ the panned gains come out of a square root). -/
theorem render_nonneg (n : Nat) (path : ZonePath ℝ) (d : List ℝ) (g : List (List ℝ)) (bg og : ℝ) (mute : Bool)
    (isLfe : List Bool) (x : ℝ) (hbg : 0 ≤ bg) (hog : 0 ≤ og) :
    Nonneg (render n path d g bg og mute isLfe x).1 ∧ Nonneg (render n path d g bg og mute isLfe x).2 := by
  rw [render_eq]
  refine split_nonneg (scatter_nonneg isLfe (map_mul_nonneg ?_ (panned_nonneg n path d g))) x
  refine mul_nonneg hbg ?_
  cases mute <;> simp [getObjectGain, hog]

/-- **LFE slots, any scalar** (in particular `Float`): slot `i` of an LFE channel holds the literal `0.0`
    times the split factor — whatever the sub-panners returned.  (Over `Float` that product is `0.0` unless the
    factor is NaN, i.e. unless `diffuse` lies outside [0,1].) -/
theorem render_lfe_slot {α : Type} [Scalar α] (n : Nat) (path : ZonePath α) (d : List α) (g : List (List α))
    (bg og : α) (mute : Bool) (isLfe : List Bool) (x : α) (i : Nat) (hi : isLfe[i]? = some true) :
    (render n path d g bg og mute isLfe x).1[i]? = some (zero * Scalar.sqrt (one - x)) ∧
    (render n path d g bg og mute isLfe x).2[i]? = some (zero * Scalar.sqrt x) := by
  have key : ∀ (m : List Bool) (v : List α) (i : Nat), m[i]? = some true → (scatter m v)[i]? = some zero := by
    intro m
    induction m with
    | nil => intro v i h; simp at h
    | cons b m ih =>
      intro v i h
      cases i with
      | zero =>
        simp only [List.getElem?_cons_zero, Option.some.injEq] at h
        subst h
        simp [scatter]
      | succ i =>
        simp only [List.getElem?_cons_succ] at h
        cases b with
        | true => simp [scatter, ih v i h]
        | false =>
          cases v with
          | nil => simp [scatter, ih [] i h]
          | cons y v => simp [scatter, ih v i h]
  simp only [render, directDiffuseSplit, List.getElem?_map, key _ _ i hi, Option.map_some]
  exact ⟨trivial, trivial⟩

/-- **LFE outputs are exactly zero** (over ℝ). -/
theorem render_lfe_zero (n : Nat) (path : ZonePath ℝ) (d : List ℝ) (g : List (List ℝ)) (bg og : ℝ) (mute : Bool)
    (isLfe : List Bool) (x : ℝ) (i : Nat) (hi : isLfe[i]? = some true) :
    (render n path d g bg og mute isLfe x).1[i]? = some 0 ∧ (render n path d g bg og mute isLfe x).2[i]? = some 0 := by
  have h := render_lfe_slot n path d g bg og mute isLfe x i hi
  simpa using h

/-- H1 with bounds ⇒ power between `lo` and `hi` times (block gain · object gain)². -/
theorem render_power_bounds (lo hi : ℝ) (n : Nat) (path : ZonePath ℝ) (v : Option ℝ) (g : List (List ℝ))
    (bg og : ℝ) (mute : Bool) (isLfe : List Bool) (x : ℝ)
    (hs : shapesOk n path (divergeGains v) g isLfe = true)
    (hv : ∀ y, v = some y → 0 ≤ y ∧ y ≤ 1) (H1 : RowsBetween lo hi g) (H2 : PathOk path) (h0 : 0 ≤ x) (h1 : x ≤ 1) :
    lo * (bg * getObjectGain mute og) ^ 2 ≤ power (render n path (divergeGains v) g bg og mute isLfe x) ∧
    power (render n path (divergeGains v) g bg og mute isLfe x) ≤ hi * (bg * getObjectGain mute og) ^ 2 := by
  have hd := diverge_gains_nonneg v hv
  have hsum := diverge_gains_sum_one v (fun y hy => (hv y hy).1)
  rw [render_power_eq n path _ g bg og mute isLfe x hs hd H2 h0 h1]
  have hlen : (divergeGains v).length = (g.map sumSq).length := by
    cases path <;> simp only [shapesOk, Bool.and_eq_true, beq_iff_eq] at hs <;> simpa using hs.1.1
  have hb := dot_bounds (lo := lo) (hi := hi) hlen hd (by
    intro y hy
    simp only [List.mem_map] at hy
    obtain ⟨r, hr, rfl⟩ := hy
    exact (H1 r hr).2)
  rw [hsum] at hb
  have ha : 0 ≤ (bg * getObjectGain mute og) ^ 2 := by positivity
  constructor
  · nlinarith [mul_le_mul_of_nonneg_left hb.1 ha]
  · nlinarith [mul_le_mul_of_nonneg_left hb.2 ha]

/-- **Power preservation.**  H1 every `g_k` non-negative with Σ² = 1, H2 zone downmix non-negative with rows
    summing to 1, H3 `0 ≤ diffuse ≤ 1`, `d = divergeGains v` with `0 ≤ v ≤ 1`, gains ≥ 0:
    direct, diffuse ≥ 0 and Σ direct² + Σ diffuse² = (bg · (if mute then 0 else og))². -/
theorem render_power (n : Nat) (path : ZonePath ℝ) (v : Option ℝ) (g : List (List ℝ)) (bg og : ℝ) (mute : Bool)
    (isLfe : List Bool) (x : ℝ)
    (hs : shapesOk n path (divergeGains v) g isLfe = true)
    (hv : ∀ y, v = some y → 0 ≤ y ∧ y ≤ 1) (H1 : UnitRows g) (H2 : PathOk path) (H3 : 0 ≤ x ∧ x ≤ 1)
    (hbg : 0 ≤ bg) (hog : 0 ≤ og) :
    Nonneg (render n path (divergeGains v) g bg og mute isLfe x).1 ∧
    Nonneg (render n path (divergeGains v) g bg og mute isLfe x).2 ∧
    power (render n path (divergeGains v) g bg og mute isLfe x) = (bg * (if mute then 0 else og)) ^ 2 := by
  have hnn := render_nonneg n path (divergeGains v) g bg og mute isLfe x hbg hog
  have hb := render_power_bounds 1 1 n path v g bg og mute isLfe x hs hv H1 H2 H3.1 H3.2
  refine ⟨hnn.1, hnn.2, ?_⟩
  have : getObjectGain mute og = if mute then 0 else og := by cases mute <;> simp [getObjectGain]
  rw [← this]
  linarith [hb.1, hb.2]

/-- **0+2+0.**  With H1 weakened to ½ ≤ Σ² ≤ 1 the total lies in [½, 1] · (bg · og)². -/
theorem render_power_stereo (n : Nat) (path : ZonePath ℝ) (v : Option ℝ) (g : List (List ℝ)) (bg og : ℝ) (mute : Bool)
    (isLfe : List Bool) (x : ℝ)
    (hs : shapesOk n path (divergeGains v) g isLfe = true)
    (hv : ∀ y, v = some y → 0 ≤ y ∧ y ≤ 1) (H1 : RowsBetween (1 / 2) 1 g) (H2 : PathOk path) (H3 : 0 ≤ x ∧ x ≤ 1) :
    1 / 2 * (bg * (if mute then 0 else og)) ^ 2 ≤ power (render n path (divergeGains v) g bg og mute isLfe x) ∧
    power (render n path (divergeGains v) g bg og mute isLfe x) ≤ (bg * (if mute then 0 else og)) ^ 2 := by
  have hb := render_power_bounds (1 / 2) 1 n path v g bg og mute isLfe x hs hv H1 H2 H3.1 H3.2
  have : getObjectGain mute og = if mute then 0 else og := by cases mute <;> simp [getObjectGain]
  rw [← this]
  constructor <;> linarith [hb.1, hb.2]

/-- **Mute.**  A muted object has every gain exactly 0 (no hypothesis on the sub-panners at all). -/
theorem render_muted_zero (n : Nat) (path : ZonePath ℝ) (d : List ℝ) (g : List (List ℝ)) (bg og : ℝ)
    (isLfe : List Bool) (x : ℝ) :
    (∀ y ∈ (render n path d g bg og true isLfe x).1, y = 0) ∧ (∀ y ∈ (render n path d g bg og true isLfe x).2, y = 0) := by
  have hz : ∀ y ∈ scatter isLfe ((panned n path d g).map fun y => y * (bg * getObjectGain true og)), y = 0 := by
    have hall : ∀ (m : List Bool) (v : List ℝ), (∀ y ∈ v, y = 0) → ∀ y ∈ scatter m v, y = 0 := by
      intro m
      induction m with
      | nil => intro v _ y hy; simp [scatter] at hy
      | cons b m ih =>
        intro v hv y hy
        cases b with
        | true =>
          simp only [scatter, List.mem_cons, zero_real] at hy
          rcases hy with rfl | hy
          · rfl
          · exact ih v hv y hy
        | false =>
          cases v with
          | nil =>
            simp only [scatter, List.mem_cons, zero_real] at hy
            rcases hy with rfl | hy
            · rfl
            · exact ih [] (by simp) y hy
          | cons z v =>
            simp only [scatter, List.mem_cons] at hy
            rcases hy with rfl | hy
            · exact hv _ (by simp)
            · exact ih v (fun w hw => hv w (by simp [hw])) y hy
    refine hall isLfe _ ?_
    intro y hy
    simp only [List.mem_map] at hy
    obtain ⟨w, _, rfl⟩ := hy
    simp [getObjectGain]
  rw [render_eq]
  constructor <;>
  · intro y hy
    simp only [directDiffuseSplit, List.mem_map] at hy
    obtain ⟨w, hw, rfl⟩ := hy
    rw [hz w hw, zero_mul]

/-! ## polar path: render composed with the extent skeleton -/

/-- what `PolarExtentHandler.handle` returns, in terms of the point-source answers `p` and the normalised
    spread answers `s` (each non-negative with unit power): one `calc_pv_spread` (depth = 0) or the RMS of two. -/
inductive PolarRow (n : Nat) : List ℝ → Prop
  | single (a : ℝ) (p s : List ℝ) (h0 : 0 ≤ a) (h1 : a ≤ 1) (hp : p.length = n) (hs : s.length = n)
      (hpu : sumSq p = 1) (hsu : sumSq s = 1) : PolarRow n (calcPvSpread n a p s)
  | depth (a a' : ℝ) (p s p' s' : List ℝ) (h0 : 0 ≤ a) (h1 : a ≤ 1) (h0' : 0 ≤ a') (h1' : a' ≤ 1)
      (hp : p.length = n) (hs : s.length = n) (hp' : p'.length = n) (hs' : s'.length = n)
      (hpu : sumSq p = 1) (hsu : sumSq s = 1) (hpu' : sumSq p' = 1) (hsu' : sumSq s' = 1) :
      PolarRow n (depthCombine (calcPvSpread n a p s) (calcPvSpread n a' p' s'))

theorem length_calcPvSpread (n : Nat) (a : ℝ) (p s : List ℝ) (hp : p.length = n) (hs : s.length = n) :
    (calcPvSpread n a p s).length = n := by
  simp only [calcPvSpread]
  split <;> split <;> simp [length_vadd, hp, hs]

theorem polar_rows_between (n : Nat) (g : List (List ℝ)) (hg : ∀ r ∈ g, PolarRow n r) :
    RowsBetween (1 - 1 / 10000000000) 1 g := by
  intro r hr
  cases hg r hr with
  | single a p s h0 h1 hp hs hpu hsu => exact pvSpread_power n a p s h0 h1 hp hs hpu hsu
  | depth a a' p s p' s' h0 h1 h0' h1' hp hs hp' hs' hpu hsu hpu' hsu' =>
    obtain ⟨_, l1, u1⟩ := pvSpread_power n a p s h0 h1 hp hs hpu hsu
    obtain ⟨_, l2, u2⟩ := pvSpread_power n a' p' s' h0' h1' hp' hs' hpu' hsu'
    refine ⟨depthCombine_nonneg _ _, ?_, ?_⟩ <;>
      rw [depthCombine_power _ _ (by rw [length_calcPvSpread n a p s hp hs, length_calcPvSpread n a' p' s' hp' hs'])] <;>
      linarith

/-- **Polar path with extent/depth**: if the point-source panner and the (normalised) spreading panner answer
    with non-negative unit-power vectors, the total power is (bg · og)² up to the 1e-10 relative loss that
    `calc_pv_spread`'s drop thresholds allow. -/
theorem render_power_polar_extent (n : Nat) (D : List (List ℝ)) (v : Option ℝ) (g : List (List ℝ)) (bg og : ℝ)
    (mute : Bool) (isLfe : List Bool) (x : ℝ) (hg : ∀ r ∈ g, PolarRow n r)
    (hs : shapesOk n (.polar D) (divergeGains v) g isLfe = true)
    (hv : ∀ y, v = some y → 0 ≤ y ∧ y ≤ 1) (H2 : Stochastic D) (H3 : 0 ≤ x ∧ x ≤ 1) :
    (1 - 1 / 10000000000) * (bg * (if mute then 0 else og)) ^ 2 ≤
      power (render n (.polar D) (divergeGains v) g bg og mute isLfe x) ∧
    power (render n (.polar D) (divergeGains v) g bg og mute isLfe x) ≤ (bg * (if mute then 0 else og)) ^ 2 := by
  have hb := render_power_bounds _ 1 n (.polar D) v g bg og mute isLfe x hs hv (polar_rows_between n g hg) H2 H3.1 H3.2
  have : getObjectGain mute og = if mute then 0 else og := by cases mute <;> simp [getObjectGain]
  rw [this] at hb
  exact ⟨hb.1, by linarith [hb.2]⟩

/-! ## Cartesian point objects: render composed with the allocentric panner -/

/-- rows produced by the allocentric point-source panner on a well-formed grid satisfy H1 -/
theorem allo_rows_unit (m : Nat) (st : Tree ℝ) (hw : TreeWF m st) (g : List (List ℝ))
    (hg : ∀ r ∈ g, ∃ px py pz, alloHandle m st px py pz = some r) : UnitRows g := by
  intro r hr
  obtain ⟨px, py, pz, h⟩ := hg r hr
  obtain ⟨hn, hs⟩ := allo_unit_power m st hw px py pz r h
  exact ⟨hn, hs.ge, hs.le⟩

/-- **Cartesian path, zero extent** (what `allocentric_extent_pan` does for `width = height = depth = 0`):
    whatever positions the earlier transforms (offset, screen scaling/edge lock, channel lock, divergence)
    produced and whatever the exclusion mask is, if the grid of non-excluded loudspeakers is well-formed then the
    full invariant holds — no hypothesis on the panner is left. -/
theorem render_power_allocentric (n m : Nat) (st : Tree ℝ) (hw : TreeWF m st) (excluded : List Bool) (v : Option ℝ)
    (g : List (List ℝ)) (bg og : ℝ) (mute : Bool) (isLfe : List Bool) (x : ℝ)
    (hg : ∀ r ∈ g, ∃ px py pz, alloHandle m st px py pz = some r)
    (hs : shapesOk n (.cartesian excluded) (divergeGains v) g isLfe = true)
    (hv : ∀ y, v = some y → 0 ≤ y ∧ y ≤ 1) (H3 : 0 ≤ x ∧ x ≤ 1) (hbg : 0 ≤ bg) (hog : 0 ≤ og) :
    let r : List ℝ × List ℝ := render n (.cartesian excluded) (divergeGains v) g bg og mute isLfe x
    Nonneg r.1 ∧ Nonneg r.2 ∧ (∀ i : Nat, isLfe[i]? = some true → r.1[i]? = some 0 ∧ r.2[i]? = some 0) ∧
    power r = (bg * (if mute then 0 else og)) ^ 2 := by
  have h := render_power n (.cartesian excluded) v g bg og mute isLfe x hs hv (allo_rows_unit m st hw g hg) trivial H3 hbg hog
  exact ⟨h.1, h.2.1, fun i hi => render_lfe_zero n _ _ g bg og mute isLfe x i hi, h.2.2⟩

/-! ## the partial statement -/

/-- **C01_partial.**  (1) `render` satisfies the invariant whenever the sub-panners satisfy their contracts
    (per-position vectors non-negative with power in `[lo, hi]` — `lo = hi = 1` in general, `lo = ½` on 0+2+0,
    `lo = 1 − 1e-10` when `calc_pv_spread` dropped a term; stochastic zone downmix; value ranges);
    (2) the modelled sub-panners satisfy theirs whenever their pre-normalisation vector is non-zero:
    divergence gains, zone downmix, depth RMS, `calc_pv_spread` skeleton, the two normalisations, the
    allocentric balance pan and the whole allocentric point-source panner.  The full statement (see the header) is not proved. -/
theorem C01_partial :
    -- (1) render
    (∀ (lo hi : ℝ) (n : Nat) (path : ZonePath ℝ) (v : Option ℝ) (g : List (List ℝ)) (bg og : ℝ) (mute : Bool)
        (isLfe : List Bool) (x : ℝ),
        shapesOk n path (divergeGains v) g isLfe = true → (∀ y, v = some y → 0 ≤ y ∧ y ≤ 1) →
        RowsBetween lo hi g → PathOk path → 0 ≤ x → x ≤ 1 → 0 ≤ bg → 0 ≤ og →
        let r : List ℝ × List ℝ := render n path (divergeGains v) g bg og mute isLfe x
        let target : ℝ := (bg * (if mute then 0 else og)) ^ 2
        Nonneg r.1 ∧ Nonneg r.2 ∧
        (∀ i : Nat, isLfe[i]? = some true → r.1[i]? = some 0 ∧ r.2[i]? = some 0) ∧
        lo * target ≤ power r ∧ power r ≤ hi * target) ∧
    -- (2) sub-panner contracts
    (∀ v : Option ℝ, (∀ y, v = some y → 0 ≤ y ∧ y ≤ 1) → Nonneg (divergeGains v) ∧ sum (divergeGains v) = 1) ∧
    (∀ (groups : List (List (List Nat))) (excluded : List Bool) (D : List (List ℝ)),
        (∀ grps ∈ groups, ∀ grp ∈ grps, grp.Nodup) → downmixForExcluded groups excluded = some D → Stochastic D) ∧
    (∀ p1 p2 : List ℝ, p1.length = p2.length → sumSq p1 = 1 → sumSq p2 = 1 →
        Nonneg (depthCombine p1 p2) ∧ sumSq (depthCombine p1 p2) = 1) ∧
    (∀ (n : Nat) (a : ℝ) (p s : List ℝ), 0 ≤ a → a ≤ 1 → p.length = n → s.length = n → sumSq p = 1 → sumSq s = 1 →
        Nonneg (calcPvSpread n a p s) ∧ 1 - 1 / 10000000000 ≤ sumSq (calcPvSpread n a p s) ∧
        sumSq (calcPvSpread n a p s) ≤ 1) ∧
    (∀ v : List ℝ, sumSq v ≠ 0 → sumSq (normalise v) = 1) ∧
    (∀ v : List ℝ, 1 / 10000000000000000 < norm v → sumSq (safeNorm v) = 1) ∧
    (∀ lo hi val : ℝ, let r := singleBalancePan lo hi val
        0 ≤ r.1 ∧ 0 ≤ r.2 ∧ (lo ≠ hi → r.1 ^ 2 + r.2 ^ 2 = 1) ∧ (lo = hi → r = (1, 1))) ∧
    (∀ (n : Nat) (st : Tree ℝ) (px py pz : ℝ) (r : List ℝ), TreeWF n st → alloHandle n st px py pz = some r →
        Nonneg r ∧ sumSq r = 1) := by
  refine ⟨?_, ?_, ?_, ?_, ?_, ?_, ?_, ?_, ?_⟩
  · intro lo hi n path v g bg og mute isLfe x hs hv H1 H2 h0 h1 hbg hog
    have hnn := render_nonneg n path (divergeGains v) g bg og mute isLfe x hbg hog
    have hb := render_power_bounds lo hi n path v g bg og mute isLfe x hs hv H1 H2 h0 h1
    have : getObjectGain mute og = if mute then 0 else og := by cases mute <;> simp [getObjectGain]
    rw [this] at hb
    exact ⟨hnn.1, hnn.2, fun i hi => render_lfe_zero n path _ g bg og mute isLfe x i hi, hb.1, hb.2⟩
  · exact fun v hv => ⟨diverge_gains_nonneg v hv, diverge_gains_sum_one v (fun y hy => (hv y hy).1)⟩
  · exact fun groups excluded D hn h => downmix_stochastic groups excluded D hn h
  · exact fun p1 p2 hl h1 h2 => ⟨depthCombine_nonneg p1 p2, depthCombine_unit p1 p2 hl h1 h2⟩
  · exact fun n a p s h0 h1 hp hs hpu hsu => pvSpread_power n a p s h0 h1 hp hs hpu hsu
  · exact normalise_unit
  · exact safeNorm_unit
  · exact balancePan_unit
  · exact fun n st px py pz r hw h => allo_unit_power n st hw px py pz r h

/-! ## the position pipeline inside the model: `renderFull`, `polarHandle` -/

/-- **`PolarExtentHandler.handle` as modelled** (end distances, `extent_mod`, `ammount_spread`, one
    `calc_pv_spread` or the RMS of two) produces a `PolarRow` whenever the point-source answer `p` and every
    normalised spread answer `s w h` are unit-power vectors of length `n` — for every position, width, height, depth. -/
theorem polarHandle_isPolarRow (n : Nat) (p : List ℝ) (s : ℝ → ℝ → List ℝ) (position : V3 ℝ) (width height depth : ℝ)
    (hp : p.length = n ∧ sumSq p = 1) (hs : ∀ w h, (s w h).length = n ∧ sumSq (s w h) = 1) :
    PolarRow n (polarHandle n p s position width height depth) := by
  simp only [polarHandle, polarExtents]
  rcases polarDistances_cases (norm3 position) depth with h | ⟨d1, d2, h, _, _⟩
  · rw [h]
    simp only [List.map_cons, List.map_nil, polarCombine]
    exact PolarRow.single _ p _ (amountSpread_range _ _).1 (amountSpread_range _ _).2 hp.1 (hs _ _).1 hp.2 (hs _ _).2
  · rw [h]
    simp only [List.map_cons, List.map_nil, polarCombine]
    exact PolarRow.depth _ _ p _ p _ (amountSpread_range _ _).1 (amountSpread_range _ _).2 (amountSpread_range _ _).1
      (amountSpread_range _ _).2 hp.1 (hs _ _).1 hp.1 (hs _ _).1 hp.2 (hs _ _).2 hp.2 (hs _ _).2

/-- the shapes of the zone data and of the extent panner's answers (length `m`) that fit `n` non-LFE channels -/
def PathShape (n m : Nat) : ZonePath ℝ → Prop
  | .polar D => m = n ∧ D.length = n ∧ ∀ r ∈ D, r.length = n
  | .cartesian ex => ex.length = n ∧ m = countFalse ex

/-- **The whole of `render`, position pipeline included.**  Whatever the screen-scale, edge-lock and channel-lock
    handlers do to the position (arbitrary functions), if the extent panner of the path answers *every* position
    with a non-negative vector of the right length and power in `[lo, hi]`, the zone data are well-shaped and
    stochastic, and the block's values are in range, then every block the code does not reject satisfies the
    invariant.  The shape condition "one gain vector per diverged position" is proved, not assumed. -/
theorem renderFull_power (lo hi : ℝ) (n m : Nat) (o : Oracles ℝ) (path : ZonePath ℝ) (isLfe : List Bool) (b : Block ℝ)
    (r : List ℝ × List ℝ) (h : renderFull n o path isLfe b = some r)
    (hpan : ∀ pos, (o.extentPan pos).length = m ∧ Nonneg (o.extentPan pos) ∧ lo ≤ sumSq (o.extentPan pos) ∧
      sumSq (o.extentPan pos) ≤ hi)
    (hlfe : countFalse isLfe = n) (hshape : PathShape n m path) (H2 : PathOk path)
    (hv : ∀ y, b.divValue = some y → 0 ≤ y ∧ y ≤ 1) (hx0 : 0 ≤ b.diffuse) (hx1 : b.diffuse ≤ 1) (hbg : 0 ≤ b.gain)
    (hog : 0 ≤ b.objectGain) :
    let target : ℝ := (b.gain * (if b.mute then 0 else b.objectGain)) ^ 2
    Nonneg r.1 ∧ Nonneg r.2 ∧ (∀ i : Nat, isLfe[i]? = some true → r.1[i]? = some 0 ∧ r.2[i]? = some 0) ∧
    lo * target ≤ power r ∧ power r ≤ hi * target := by
  simp only [renderFull] at h
  split at h
  · exact absurd h (by simp)
  · rename_i c _
    simp only [Option.some.injEq] at h
    subst h
    refine C01_partial.1 lo hi n path b.divValue _ b.gain b.objectGain b.mute isLfe b.diffuse ?_ hv ?_ H2 hx0 hx1 hbg hog
    · have hlen := divergePositions_length b.cartesian
        (o.channelLock (o.edgeLock (o.screenScale (coordTrans b.cartesian c)))) b.divValue b.azimuthRange b.positionRange b.v2
      cases path with
      | polar D =>
        obtain ⟨hm, hD, hDr⟩ := hshape
        simp only [shapesOk, Bool.and_eq_true, beq_iff_eq, List.all_eq_true, List.length_map]
        refine ⟨⟨hlen.symm, hlfe⟩, ⟨?_, hD⟩, hDr⟩
        intro r' hr'
        simp only [List.mem_map] at hr'
        obtain ⟨q, _, rfl⟩ := hr'
        rw [(hpan q).1, hm]
      | cartesian ex =>
        obtain ⟨hex, hm⟩ := hshape
        simp only [shapesOk, Bool.and_eq_true, beq_iff_eq, List.all_eq_true, List.length_map]
        refine ⟨⟨hlen.symm, hlfe⟩, hex, ?_⟩
        intro r' hr'
        simp only [List.mem_map] at hr'
        obtain ⟨q, _, rfl⟩ := hr'
        rw [(hpan q).1, hm]
    · intro r' hr'
      simp only [List.mem_map] at hr'
      obtain ⟨q, _, rfl⟩ := hr'
      exact (hpan q).2

theorem PolarRow.length_eq {n : Nat} {r : List ℝ} (h : PolarRow n r) : r.length = n := by
  cases h with
  | single a p s h0 h1 hp hs _ _ => exact length_calcPvSpread n a p s hp hs
  | depth a a' p s p' s' _ _ _ _ hp hs hp' hs' _ _ _ _ =>
    simp [depthCombine, length_calcPvSpread n a p s hp hs, length_calcPvSpread n a' p' s' hp' hs']

/-- the polar extent handler as the oracle of `renderFull`: H1 (with the 1e-10 slack) follows from the two panners' contracts -/
theorem polarHandle_contract (n : Nat) (p : V3 ℝ → List ℝ) (s : V3 ℝ → ℝ → ℝ → List ℝ) (width height depth : ℝ)
    (hp : ∀ pos, (p pos).length = n ∧ sumSq (p pos) = 1) (hs : ∀ pos w h, (s pos w h).length = n ∧ sumSq (s pos w h) = 1)
    (pos : V3 ℝ) :
    (polarHandle n (p pos) (s pos) pos width height depth).length = n ∧
    Nonneg (polarHandle n (p pos) (s pos) pos width height depth) ∧
    1 - 1 / 10000000000 ≤ sumSq (polarHandle n (p pos) (s pos) pos width height depth) ∧
    sumSq (polarHandle n (p pos) (s pos) pos width height depth) ≤ 1 := by
  have hrow := polarHandle_isPolarRow n (p pos) (s pos) pos width height depth (hp pos) (hs pos)
  have hb := polar_rows_between n [polarHandle n (p pos) (s pos) pos width height depth] (by
    intro r hr; rw [List.mem_singleton.mp hr]; exact hrow) (polarHandle n (p pos) (s pos) pos width height depth)
    (List.mem_singleton.mpr rfl)
  exact ⟨hrow.length_eq, hb.1, hb.2.1, hb.2.2⟩

/-- **Polar path end to end over the model**: `renderFull` with `PolarExtentHandler.handle` as its extent panner
    (point-source and spreading panners answering with unit-power vectors of length `n`), any position handlers,
    a stochastic `n × n` zone downmix: power in `[(1 − 1e-10), 1] · (gain · object gain)²`, non-negative, LFE zero. -/
theorem renderFull_polar (n : Nat) (ss el cl : V3 ℝ → V3 ℝ) (p : V3 ℝ → List ℝ) (s : V3 ℝ → ℝ → ℝ → List ℝ)
    (width height depth : ℝ) (D : List (List ℝ)) (isLfe : List Bool) (b : Block ℝ) (r : List ℝ × List ℝ)
    (h : renderFull n ⟨ss, el, cl, fun pos => polarHandle n (p pos) (s pos) pos width height depth⟩ (.polar D) isLfe b = some r)
    (hp : ∀ pos, (p pos).length = n ∧ sumSq (p pos) = 1) (hs : ∀ pos w h, (s pos w h).length = n ∧ sumSq (s pos w h) = 1)
    (hlfe : countFalse isLfe = n) (hD : D.length = n ∧ ∀ r ∈ D, r.length = n) (H2 : Stochastic D)
    (hv : ∀ y, b.divValue = some y → 0 ≤ y ∧ y ≤ 1) (hx0 : 0 ≤ b.diffuse) (hx1 : b.diffuse ≤ 1) (hbg : 0 ≤ b.gain)
    (hog : 0 ≤ b.objectGain) :
    let target : ℝ := (b.gain * (if b.mute then 0 else b.objectGain)) ^ 2
    Nonneg r.1 ∧ Nonneg r.2 ∧ (∀ i : Nat, isLfe[i]? = some true → r.1[i]? = some 0 ∧ r.2[i]? = some 0) ∧
    (1 - 1 / 10000000000) * target ≤ power r ∧ power r ≤ 1 * target :=
  renderFull_power _ 1 n n _ (.polar D) isLfe b r h (fun pos => polarHandle_contract n p s width height depth hp hs pos)
    hlfe ⟨rfl, hD.1, hD.2⟩ H2 hv hx0 hx1 hbg hog

/-! ## `renderConcrete`: handlers and panners plugged in (models of C13, C19, C05 by import) -/

/-- **Cartesian point objects, end to end, no handler or panner hypothesis.**  `renderConcreteCart` computes the whole
    of `GainCalc.render` for a Cartesian block with zero extent — positionOffset, `coord_trans`, Cartesian screen
    scaling and screen edge lock (C19 conversion, C13 `scaleAzEl` / `compensatePosition`), the zone mask
    (`get_excluded` ∘ `allocentric.get_excluded`, C13), the allocentric channel lock (C13), `diverge`, `_speaker_tree`
    on the non-excluded loudspeakers (C13) and `AllocentricPanner.handle` — and whenever it returns (the Python does
    not raise), the gains are non-negative, exactly zero on LFE and of power (gain · object gain)², for EVERY zone
    list, lock, screen setting and divergence.  `EnvOk`: shapes + pairwise distinct allocentric positions. -/
theorem renderConcrete_cart_power (E : LayoutEnv ℝ) (P : Conv.Params ℝ) (b : CBlock ℝ) (r : List ℝ × List ℝ)
    (hE : EnvOk E) (h : renderConcreteCart E P b = some r)
    (hv : ∀ y, b.base.divValue = some y → 0 ≤ y ∧ y ≤ 1) (hx : 0 ≤ b.base.diffuse ∧ b.base.diffuse ≤ 1)
    (hbg : 0 ≤ b.base.gain) (hog : 0 ≤ b.base.objectGain) :
    Nonneg r.1 ∧ Nonneg r.2 ∧ (∀ i : Nat, E.isLfe[i]? = some true → r.1[i]? = some 0 ∧ r.2[i]? = some 0) ∧
    power r = (b.base.gain * (if b.base.mute then 0 else b.base.objectGain)) ^ 2 := by
  simp only [renderConcreteCart] at h
  obtain ⟨p, _, h⟩ := Option.bind_eq_some_iff.mp h
  obtain ⟨zmask, hz, h⟩ := Option.bind_eq_some_iff.mp h
  obtain ⟨q, _, h⟩ := Option.bind_eq_some_iff.mp h
  obtain ⟨st, hst, h⟩ := Option.bind_eq_some_iff.mp h
  obtain ⟨g, hg, h⟩ := Option.bind_eq_some_iff.mp h
  simp only [Option.some.injEq] at h
  subst h
  have hzl : zmask.length = E.allo.length := by
    rw [C13.getExcluded_length E.fuel E.spks b.zones zmask hz, hE.spks, hE.allo]
  have hfl : (Zone.alloExcluded E.allo zmask).length = E.allo.length := by
    rw [C13.alloExcluded_length E.allo zmask hzl.symm, hzl]
  have hsubd : C13.Distinct (CartLock.keep (Zone.alloExcluded E.allo zmask) E.allo) :=
    C13.distinct_keep _ _ hE.distinct
  have hsubl : (CartLock.keep (Zone.alloExcluded E.allo zmask) E.allo).length =
      countFalse (Zone.alloExcluded E.allo zmask) := by
    rw [C13.keep_length _ _ hfl, countF_eq_countFalse]
  have hrows : ∀ row ∈ g, Nonneg row ∧ sumSq row = 1 ∧
      row.length = countFalse (Zone.alloExcluded E.allo zmask) := by
    intro row hrow
    obtain ⟨pos, _, hpos⟩ := mapM_some_mem _ _ g hg row hrow
    have := allo_unit_power_distinct _ hsubd st hst pos.1 pos.2.1 pos.2.2 row hpos
    exact ⟨this.1, this.2.1, by rw [this.2.2, hsubl]⟩
  have hs : shapesOk E.n (.cartesian (Zone.alloExcluded E.allo zmask)) (divergeGains b.base.divValue) g E.isLfe = true := by
    simp only [shapesOk, Bool.and_eq_true, beq_iff_eq, List.all_eq_true]
    refine ⟨⟨?_, hE.lfe⟩, by rw [hfl, hE.allo], fun row hrow => (hrows row hrow).2.2⟩
    rw [mapM_length _ _ g hg, divergePositions_length]
  have H1 : UnitRows g := fun row hrow => ⟨(hrows row hrow).1, (hrows row hrow).2.1.ge, (hrows row hrow).2.1.le⟩
  have hp := render_power E.n _ b.base.divValue g b.base.gain b.base.objectGain b.base.mute E.isLfe b.base.diffuse hs hv H1
    trivial hx hbg hog
  exact ⟨hp.1, hp.2.1, fun i hi => render_lfe_zero E.n _ _ g _ _ _ E.isLfe _ i hi, hp.2.2⟩

/-- what `renderConcrete_polar_point_partial` needs of the environment and of the C05 table (table obligations) -/
structure PolarEnvOk (E : LayoutEnv ℝ) (L : PointSource.RawLayout) : Prop where
  lfe : countFalse E.isLfe = E.n
  spks : E.spks.length = E.n
  groups : groupsOk E.n E.groups = true
  wf : L.wellFormed = true
  noStereo : L.stereo = none
  nReal : L.nReal = E.n

/-- `PolarExtentHandler.handle(pos, 0, 0, 0)` in the point-only regime, with the C05 panner: H1 up to the 1e-10 slack -/
theorem polarPointPan_contract (E : LayoutEnv ℝ) (L : PointSource.RawLayout) (hE : PolarEnvOk E L)
    (hnz : ∀ (pos : V3 ℝ) (p : List ℝ), pspHandle L pos = some p → ∃ x ∈ p, x ≠ 0) (pos : V3 ℝ) (row : List ℝ)
    (h : polarPointPan E L pos = some row) :
    row.length = E.n ∧ Nonneg row ∧ 1 - 1 / 10000000000 ≤ sumSq row ∧ sumSq row ≤ 1 := by
  simp only [polarPointPan] at h
  split at h
  · rename_i w hh hext
    split at h
    · exact absurd h (by simp)
    · rename_i hsmall
      simp only [Option.map_eq_some_iff] at h
      obtain ⟨p, hp, rfl⟩ := h
      obtain ⟨hl, hn, hu⟩ := pspHandle_contract L hE.wf hE.noStereo pos p hp (hnz pos p hp)
      rw [hE.nReal] at hl
      have hrw : polarHandle E.n p (fun _ _ => []) pos zero zero zero =
          calcPvSpread E.n (amountSpread w hh) p p := by
        simp only [polarHandle, hext, List.map_cons, List.map_nil, polarCombine]
        exact calcPvSpread_point_only E.n _ p _ p hsmall
      rw [hrw]
      have := pvSpread_power E.n (amountSpread w hh) p p (amountSpread_range w hh).1 (amountSpread_range w hh).2 hl hl hu hu
      exact ⟨length_calcPvSpread E.n _ p p hl hl, this.1, this.2.1, this.2.2⟩
  · exact absurd h (by simp)

/-- **Polar point objects (zero extent, distance ≥ 1 after the transforms), PARTIAL.**  `renderConcretePolarPoint`
    computes the whole of `render`: position pipeline (polar screen scaling `scaleAzEl`, polar edge lock), the
    egocentric channel lock (C13), `diverge`, the C05 point-source panner walked over its regenerated table (quad roots
    by the closed form), `extent_mod` / `calc_pv_spread` in the point-only regime, the zone mask (C13) and the zone
    downmix.  Whenever it returns — which includes that the C05 panner returned a result for every (locked, scaled,
    diverged) direction: C05 totality is NOT proved — and that result is not the all-zero vector (numpy's 0/0), the
    gains are non-negative, zero on LFE and of power (gain · object gain)² up to `calc_pv_spread`'s 1e-10 threshold
    slack.  Discharged here: non-negativity and unit norm of the panner's answer (`panner_inherits`, the per-region
    theorems, `downmix_nonneg_unit`), H2 for every zone list, all shapes.  Not covered: 0+2+0 (stereo wrapper). -/
theorem renderConcrete_polar_point_partial (E : LayoutEnv ℝ) (P : Conv.Params ℝ) (L : PointSource.RawLayout)
    (b : CBlock ℝ) (r : List ℝ × List ℝ) (hE : PolarEnvOk E L) (h : renderConcretePolarPoint E P L b = some r)
    (hnz : ∀ (pos : V3 ℝ) (p : List ℝ), pspHandle L pos = some p → ∃ x ∈ p, x ≠ 0)
    (hv : ∀ y, b.base.divValue = some y → 0 ≤ y ∧ y ≤ 1) (hx : 0 ≤ b.base.diffuse ∧ b.base.diffuse ≤ 1)
    (hbg : 0 ≤ b.base.gain) (hog : 0 ≤ b.base.objectGain) :
    let target : ℝ := (b.base.gain * (if b.base.mute then 0 else b.base.objectGain)) ^ 2
    Nonneg r.1 ∧ Nonneg r.2 ∧ (∀ i : Nat, E.isLfe[i]? = some true → r.1[i]? = some 0 ∧ r.2[i]? = some 0) ∧
    (1 - 1 / 10000000000) * target ≤ power r ∧ power r ≤ 1 * target := by
  simp only [renderConcretePolarPoint] at h
  obtain ⟨p, _, h⟩ := Option.bind_eq_some_iff.mp h
  obtain ⟨q, _, h⟩ := Option.bind_eq_some_iff.mp h
  obtain ⟨g, hg, h⟩ := Option.bind_eq_some_iff.mp h
  obtain ⟨zmask, hz, h⟩ := Option.bind_eq_some_iff.mp h
  obtain ⟨D, hD, h⟩ := Option.bind_eq_some_iff.mp h
  simp only [Option.some.injEq] at h
  subst h
  have hrows : ∀ row ∈ g, row.length = E.n ∧ Nonneg row ∧ 1 - 1 / 10000000000 ≤ sumSq row ∧ sumSq row ≤ 1 := by
    intro row hrow
    obtain ⟨pos, _, hpos⟩ := mapM_some_mem _ _ g hg row hrow
    exact polarPointPan_contract E L hE hnz pos row hpos
  have hgl : E.groups.length = E.n := by
    have := hE.groups
    simp only [groupsOk, Bool.and_eq_true, beq_iff_eq] at this
    exact this.1
  have hsh := downmix_shape E.groups zmask D hD
  rw [hgl] at hsh
  have hst := downmix_stochastic E.groups zmask D (groups_nodup_of_ok E.n E.groups hE.groups) hD
  have hs : shapesOk E.n (.polar D) (divergeGains b.base.divValue) g E.isLfe = true := by
    simp only [shapesOk, Bool.and_eq_true, beq_iff_eq, List.all_eq_true]
    refine ⟨⟨?_, hE.lfe⟩, ⟨fun row hrow => (hrows row hrow).1, hsh.1⟩, hsh.2⟩
    rw [mapM_length _ _ g hg, divergePositions_length]
  exact C01_partial.1 _ 1 E.n (.polar D) b.base.divValue g b.base.gain b.base.objectGain b.base.mute E.isLfe
    b.base.diffuse hs hv (fun row hrow => (hrows row hrow).2) hst hx.1 hx.2 hbg hog

/-! ## the ten BS.2051 layouts: hypotheses discharged on the regenerated tables

`Gen/C01_Tables.lean` is rewritten by `harness/c01.py` from the real objects on every run (zone priority groups,
allocentric speaker tree with exact rational coordinates, `is_lfe`), so the `decide +kernel` below re-checks what
the code says now. -/

open Earverif.Gen.C01 in
set_option maxRecDepth 100000 in
/-- every regenerated table passes the decidable checks: zone groups duplicate-free and covering every channel
    exactly once, allocentric grid well-formed, `n` = number of non-LFE channels -/
theorem tables_ok :
    layouts.all (fun L => groupsOk L.n L.groups && treeOk L.n (ratTree L.tree) && (countFalse L.isLfe == L.n)) = true := by
  decide +kernel

open Earverif.Gen.C01 in
theorem layouts_nonempty : layouts.length = 10 := by decide +kernel

open Earverif.Gen.C01 in
set_option maxRecDepth 100000 in
theorem tables_nonempty : layouts.all (fun L => treeNonempty (ratTree L.tree)) = true := by decide +kernel

open Earverif.Gen.C01 in
/-- **H2 for the ten layouts, every exclusion mask**: `downmix_for_excluded` always returns an `n × n` matrix
    (never its `assert False`) that is non-negative with rows summing to one. -/
theorem downmix_layouts (L : LayoutTable) (hL : L ∈ layouts) (excluded : List Bool) (hl : excluded.length = L.n) :
    ∃ D : List (List ℝ), downmixForExcluded L.groups excluded = some D ∧ Stochastic D ∧ D.length = L.n ∧
      ∀ r ∈ D, r.length = L.n := by
  have h := List.all_eq_true.mp tables_ok L hL
  simp only [Bool.and_eq_true] at h
  obtain ⟨⟨hg, _⟩, _⟩ := h
  obtain ⟨D, hD⟩ := downmix_total L.n L.groups hg excluded hl
  have hs := downmix_shape L.groups excluded D hD
  have hlen : L.groups.length = L.n := by
    simp only [groupsOk, Bool.and_eq_true, beq_iff_eq] at hg
    exact hg.1
  rw [hlen] at hs
  exact ⟨D, hD, downmix_stochastic L.groups excluded D (groups_nodup_of_ok L.n L.groups hg) hD, hs.1, hs.2⟩

open Earverif.Gen.C01 in
/-- **H1 for the allocentric point-source panner on the ten layouts' grids**, every position -/
theorem allo_unit_power_layouts (L : LayoutTable) (hL : L ∈ layouts) (px py pz : ℝ) (r : List ℝ)
    (h : alloHandle L.n (realTree (ratTree L.tree)) px py pz = some r) : Nonneg r ∧ sumSq r = 1 ∧ r.length = L.n := by
  have hk := List.all_eq_true.mp tables_ok L hL
  simp only [Bool.and_eq_true] at hk
  have hw := treeWF_of_ok L.n _ hk.1.2
  refine ⟨(allo_unit_power L.n _ hw px py pz r h).1, (allo_unit_power L.n _ hw px py pz r h).2, ?_⟩
  simp only [alloHandle, Option.map_eq_some_iff] at h
  obtain ⟨ws, _, rfl⟩ := h
  simp [applyWrites, length_foldl_set]

open Earverif.Gen.C01 in
/-- **The allocentric point-source panner on the ten layouts' grids is total with unit power**: for every
    position it returns (no IndexError) a non-negative vector of length `n` with Σ² = 1. -/
theorem allo_total_layouts (L : LayoutTable) (hL : L ∈ layouts) (px py pz : ℝ) :
    ∃ r, alloHandle L.n (realTree (ratTree L.tree)) px py pz = some r ∧ Nonneg r ∧ sumSq r = 1 ∧ r.length = L.n := by
  have hne := treeNonempty_real _ (List.all_eq_true.mp tables_nonempty L hL)
  obtain ⟨r, hr⟩ := alloHandle_total L.n (realTree (ratTree L.tree)) px py pz hne
  exact ⟨r, hr, allo_unit_power_layouts L hL px py pz r hr⟩

theorem countFalse_replicate (n : Nat) : countFalse (List.replicate n false) = n := by
  induction n with
  | zero => rfl
  | succ n ih => simp [List.replicate_succ, countFalse, ih]

open Earverif.Gen.C01 in
/-- **Cartesian point objects on the ten layouts (no zone exclusion)**: with the regenerated grid, LFE mask and
    channel count, whatever positions the earlier transforms produced, the full invariant holds; the only
    remaining hypotheses are the ADM value ranges and that one gain vector was produced per diverged position. -/
theorem render_power_allocentric_layouts (L : LayoutTable) (hL : L ∈ layouts) (v : Option ℝ) (g : List (List ℝ))
    (bg og : ℝ) (mute : Bool) (x : ℝ)
    (hg : ∀ r ∈ g, ∃ px py pz, alloHandle L.n (realTree (ratTree L.tree)) px py pz = some r)
    (hlen : (divergeGains v).length = g.length)
    (hv : ∀ y, v = some y → 0 ≤ y ∧ y ≤ 1) (H3 : 0 ≤ x ∧ x ≤ 1) (hbg : 0 ≤ bg) (hog : 0 ≤ og) :
    let r : List ℝ × List ℝ := render L.n (.cartesian (List.replicate L.n false)) (divergeGains v) g bg og mute L.isLfe x
    Nonneg r.1 ∧ Nonneg r.2 ∧ (∀ i : Nat, L.isLfe[i]? = some true → r.1[i]? = some 0 ∧ r.2[i]? = some 0) ∧
    power r = (bg * (if mute then 0 else og)) ^ 2 := by
  have hk := List.all_eq_true.mp tables_ok L hL
  simp only [Bool.and_eq_true, beq_iff_eq] at hk
  have hw := treeWF_of_ok L.n _ hk.1.2
  refine render_power_allocentric L.n L.n _ hw _ v g bg og mute L.isLfe x hg ?_ hv H3 hbg hog
  simp only [shapesOk, Bool.and_eq_true, beq_iff_eq, List.all_eq_true, List.length_replicate, countFalse_replicate]
  refine ⟨⟨hlen, hk.2⟩, trivial, ?_⟩
  intro r hr
  obtain ⟨px, py, pz, h⟩ := hg r hr
  exact (allo_unit_power_layouts L hL px py pz r h).2.2

open Earverif.Gen.C01 in
/-- **Cartesian point objects end to end on the ten layouts (no zone exclusion)**: `renderFull` with the
    allocentric point-source panner on the regenerated grid as extent panner and arbitrary position handlers.
    No hypothesis about any panner is left: every block that is not rejected satisfies the full invariant. -/
theorem renderFull_allocentric_layouts (L : LayoutTable) (hL : L ∈ layouts) (ss el cl : V3 ℝ → V3 ℝ) (b : Block ℝ)
    (r : List ℝ × List ℝ)
    (h : renderFull L.n ⟨ss, el, cl, fun pos => (alloHandle L.n (realTree (ratTree L.tree)) pos.1 pos.2.1 pos.2.2).getD []⟩
      (.cartesian (List.replicate L.n false)) L.isLfe b = some r)
    (hv : ∀ y, b.divValue = some y → 0 ≤ y ∧ y ≤ 1) (hx0 : 0 ≤ b.diffuse) (hx1 : b.diffuse ≤ 1) (hbg : 0 ≤ b.gain)
    (hog : 0 ≤ b.objectGain) :
    Nonneg r.1 ∧ Nonneg r.2 ∧ (∀ i : Nat, L.isLfe[i]? = some true → r.1[i]? = some 0 ∧ r.2[i]? = some 0) ∧
    power r = (b.gain * (if b.mute then 0 else b.objectGain)) ^ 2 := by
  have hk := List.all_eq_true.mp tables_ok L hL
  simp only [Bool.and_eq_true, beq_iff_eq] at hk
  have hpan : ∀ pos : V3 ℝ,
      ((alloHandle L.n (realTree (ratTree L.tree)) pos.1 pos.2.1 pos.2.2).getD []).length = L.n ∧
      Nonneg ((alloHandle L.n (realTree (ratTree L.tree)) pos.1 pos.2.1 pos.2.2).getD []) ∧
      1 ≤ sumSq ((alloHandle L.n (realTree (ratTree L.tree)) pos.1 pos.2.1 pos.2.2).getD []) ∧
      sumSq ((alloHandle L.n (realTree (ratTree L.tree)) pos.1 pos.2.1 pos.2.2).getD []) ≤ 1 := by
    intro pos
    obtain ⟨g, hg, hn, hu, hl⟩ := allo_total_layouts L hL pos.1 pos.2.1 pos.2.2
    rw [hg]
    exact ⟨hl, hn, hu.ge, hu.le⟩
  have := renderFull_power 1 1 L.n L.n _ (.cartesian (List.replicate L.n false)) L.isLfe b r h hpan hk.2
    ⟨List.length_replicate, (countFalse_replicate L.n).symm⟩ trivial hv hx0 hx1 hbg hog
  simp only [one_mul] at this
  exact ⟨this.1, this.2.1, this.2.2.1, le_antisymm this.2.2.2.2 this.2.2.2.1⟩

open Earverif.Gen.C01 in
set_option maxRecDepth 100000 in
/-- table obligations of `renderConcrete_cart_power` on the regenerated tables: pairwise distinct allocentric
    positions, one nominal and one allocentric position per channel, LFE count -/
theorem tables_env_ok : layouts.all envOkB = true := by decide +kernel

open Earverif.Gen.C01 in
/-- **`renderConcrete_cart_power` on the ten BS.2051 layouts**: with the environment read off the regenerated table,
    every Cartesian point block that `render` does not reject satisfies the full invariant — for every zone list,
    channel lock, screenRef / reference screen, screen edge lock, positionOffset and divergence. -/
theorem renderConcrete_cart_power_layouts (L : LayoutTable) (hL : L ∈ layouts) (fuel : Nat) (P : Conv.Params ℝ)
    (b : CBlock ℝ) (r : List ℝ × List ℝ) (h : renderConcreteCart (L.env fuel) P b = some r)
    (hv : ∀ y, b.base.divValue = some y → 0 ≤ y ∧ y ≤ 1) (hx : 0 ≤ b.base.diffuse ∧ b.base.diffuse ≤ 1)
    (hbg : 0 ≤ b.base.gain) (hog : 0 ≤ b.base.objectGain) :
    Nonneg r.1 ∧ Nonneg r.2 ∧ (∀ i : Nat, L.isLfe[i]? = some true → r.1[i]? = some 0 ∧ r.2[i]? = some 0) ∧
    power r = (b.base.gain * (if b.base.mute then 0 else b.base.objectGain)) ^ 2 :=
  renderConcrete_cart_power (L.env fuel) P b r (envOk_of_table L fuel (List.all_eq_true.mp tables_env_ok L hL)) h hv hx hbg hog

/-- decidable form of `PolarEnvOk` on a pair of regenerated tables (C01 layout table, C05 panner table) -/
def polarOkB (T : LayoutTable) (L : PointSource.RawLayout) : Bool :=
  groupsOk T.n T.groups && T.spk.length == T.n && countFalse T.isLfe == T.n && L.wellFormed && L.stereo.isNone &&
    L.nReal == T.n

theorem polarEnvOk_of_tables (T : LayoutTable) (L : PointSource.RawLayout) (fuel : Nat) (h : polarOkB T L = true) :
    PolarEnvOk (T.env fuel : LayoutEnv ℝ) L := by
  simp only [polarOkB, Bool.and_eq_true, beq_iff_eq, Option.isNone_iff_eq_none] at h
  obtain ⟨⟨⟨⟨⟨hg, hs⟩, hl⟩, hw⟩, hst⟩, hn⟩ := h
  exact ⟨by simpa [LayoutTable.env] using hl, by simpa [LayoutTable.env] using hs, by simpa [LayoutTable.env] using hg,
    hw, hst, by simpa [LayoutTable.env] using hn⟩

set_option maxRecDepth 100000 in
/-- table obligation: every layout except 0+2+0 has a C05 panner table of the same name passing `polarOkB` -/
theorem tables_polar_ok :
    Earverif.Gen.C01.layouts.all (fun T =>
      T.name == "0+2+0" || ((Earverif.Gen.C05.layouts.find? (·.name == T.name)).any (polarOkB T))) = true := by
  decide +kernel

/-- **`renderConcrete_polar_point_partial` on the nine non-stereo BS.2051 layouts** with both regenerated tables -/
theorem renderConcrete_polar_point_partial_layouts (T : LayoutTable) (hT : T ∈ Earverif.Gen.C01.layouts)
    (hname : T.name ≠ "0+2+0") (fuel : Nat) (P : Conv.Params ℝ) (b : CBlock ℝ) (r : List ℝ × List ℝ) :
    ∃ L ∈ Earverif.Gen.C05.layouts, L.name = T.name ∧
      (renderConcretePolarPoint (T.env fuel) P L b = some r →
       (∀ (pos : V3 ℝ) (p : List ℝ), pspHandle L pos = some p → ∃ x ∈ p, x ≠ 0) →
       (∀ y, b.base.divValue = some y → 0 ≤ y ∧ y ≤ 1) → 0 ≤ b.base.diffuse ∧ b.base.diffuse ≤ 1 →
       0 ≤ b.base.gain → 0 ≤ b.base.objectGain →
       let target : ℝ := (b.base.gain * (if b.base.mute then 0 else b.base.objectGain)) ^ 2
       Nonneg r.1 ∧ Nonneg r.2 ∧ (∀ i : Nat, T.isLfe[i]? = some true → r.1[i]? = some 0 ∧ r.2[i]? = some 0) ∧
       (1 - 1 / 10000000000) * target ≤ power r ∧ power r ≤ 1 * target) := by
  have h := List.all_eq_true.mp tables_polar_ok T hT
  simp only [Bool.or_eq_true, beq_iff_eq] at h
  rcases h with h | h
  · exact absurd h hname
  · cases hf : Earverif.Gen.C05.layouts.find? (fun L => L.name == T.name) with
    | none => simp [hf] at h
    | some L =>
      simp only [hf, Option.any_some] at h
      have hmem := List.mem_of_find?_eq_some hf
      have hn := List.find?_some hf
      refine ⟨L, hmem, by simpa using hn, ?_⟩
      intro hr hnz hv hx hbg hog
      exact renderConcrete_polar_point_partial (T.env fuel) P L b r (polarEnvOk_of_tables T L fuel h) hr hnz hv hx hbg hog

open Earverif.Gen.C01 in
/-- **Polar path on the ten layouts, every zone-exclusion mask**: H2 is discharged by the regenerated groups; what
    remains is H1 (per-position vectors of length `n`, non-negative, power in `[lo, hi]`) and the value ranges. -/
theorem render_power_polar_layouts (L : LayoutTable) (hL : L ∈ layouts) (excluded : List Bool)
    (hl : excluded.length = L.n) (lo hi : ℝ) (v : Option ℝ) (g : List (List ℝ)) (bg og : ℝ) (mute : Bool) (x : ℝ)
    (hlen : (divergeGains v).length = g.length) (hgl : ∀ r ∈ g, r.length = L.n) (H1 : RowsBetween lo hi g)
    (hv : ∀ y, v = some y → 0 ≤ y ∧ y ≤ 1) (H3 : 0 ≤ x ∧ x ≤ 1) (hbg : 0 ≤ bg) (hog : 0 ≤ og) :
    ∃ D : List (List ℝ), downmixForExcluded L.groups excluded = some D ∧
      let r : List ℝ × List ℝ := render L.n (.polar D) (divergeGains v) g bg og mute L.isLfe x
      let target : ℝ := (bg * (if mute then 0 else og)) ^ 2
      Nonneg r.1 ∧ Nonneg r.2 ∧ (∀ i : Nat, L.isLfe[i]? = some true → r.1[i]? = some 0 ∧ r.2[i]? = some 0) ∧
      lo * target ≤ power r ∧ power r ≤ hi * target := by
  obtain ⟨D, hD, hst, hDl, hDr⟩ := downmix_layouts L hL excluded hl
  have hk := List.all_eq_true.mp tables_ok L hL
  simp only [Bool.and_eq_true, beq_iff_eq] at hk
  refine ⟨D, hD, ?_⟩
  have hs : shapesOk L.n (.polar D) (divergeGains v) g L.isLfe = true := by
    simp only [shapesOk, Bool.and_eq_true, beq_iff_eq, List.all_eq_true]
    exact ⟨⟨hlen, hk.2⟩, ⟨hgl, hDl⟩, hDr⟩
  exact C01_partial.1 lo hi L.n (.polar D) v g bg og mute L.isLfe x hs hv H1 hst H3.1 H3.2 hbg hog

/-! ## non-vacuity: concrete inputs that satisfy the hypotheses -/

/-- 0+5+0-like: 5 non-LFE channels + 1 LFE, polar path with the identity downmix, divergence 1/2 with three
    unit vectors, diffuse 1/4: all hypotheses of `render_power` hold. -/
example :
    let g : List (List ℝ) := [[1, 0, 0, 0, 0], [0, 0, 1, 0, 0], [0, 1, 0, 0, 0]]
    shapesOk 5 (.polar (eye 5)) (divergeGains (some (1 / 2 : ℝ))) g [false, false, false, true, false, false] = true ∧
    UnitRows g ∧ PathOk (.polar (eye 5 : List (List ℝ))) := by
  refine ⟨?_, ?_, ?_⟩
  · rw [divergeGains_some (1 / 2) (by norm_num)]
    simp [shapesOk, countFalse, eye, List.range, List.range.loop]
  · intro r hr
    simp only [List.mem_cons, List.not_mem_nil, or_false] at hr
    rcases hr with rfl | rfl | rfl <;> refine ⟨?_, ?_, ?_⟩ <;> simp [Nonneg]
  · intro r hr
    simp only [eye, List.range, List.range.loop, List.map_cons, List.map_nil, List.mem_cons, List.not_mem_nil,
      or_false] at hr
    rcases hr with rfl | rfl | rfl | rfl | rfl <;> constructor <;> simp [Nonneg]

/-- Cartesian path with one of three channels excluded: shapes and H1 hold for a proper (non-vertex) pan. -/
example :
    let g : List (List ℝ) := [[3 / 5, 4 / 5]]
    shapesOk 3 (.cartesian [false, true, false]) (divergeGains (none : Option ℝ)) g [false, false, false] = true ∧
    UnitRows g := by
  refine ⟨by simp [shapesOk, divergeGains, countFalse], ?_⟩
  intro r hr
  simp only [List.mem_cons, List.not_mem_nil, or_false] at hr
  subst hr
  refine ⟨?_, ?_, ?_⟩ <;> norm_num [Nonneg]

/-- a well-formed grid: one plane, one row, two loudspeakers (stereo pair at the front) -/
example : TreeWF 2 ([[[⟨0, -1, 1, 0⟩, ⟨1, 1, 1, 0⟩]]] : Tree ℝ) := by
  have hrow : RowWF 2 ([⟨0, -1, 1, 0⟩, ⟨1, 1, 1, 0⟩] : List (Leaf ℝ)) := by
    refine ⟨?_, ?_, ?_⟩
    · simp only [List.map_cons, List.map_nil, List.nodup_cons, List.mem_singleton, List.not_mem_nil,
        not_false_eq_true, List.nodup_nil, and_true]
      norm_num
    · simp [rowIdx]
    · intro l hl
      simp only [List.mem_cons, List.not_mem_nil, or_false] at hl
      rcases hl with rfl | rfl <;> simp
  have hlen1 : ∀ {β : Type} (a : β) (i j : Nat) (x y : β), i ≠ j → [a][i]? = some x → [a][j]? = some y → False := by
    intro β a i j x y hij hi hj
    have hi0 : i = 0 := by
      cases i with
      | zero => rfl
      | succ i => simp at hi
    have hj0 : j = 0 := by
      cases j with
      | zero => rfl
      | succ j => simp at hj
    exact hij (hi0.trans hj0.symm)
  have hplane : PlaneWF 2 ([[⟨0, -1, 1, 0⟩, ⟨1, 1, 1, 0⟩]] : List (List (Leaf ℝ))) := by
    refine ⟨?_, ?_, ?_⟩
    · intro row hr
      simp only [List.mem_singleton] at hr
      subst hr; exact hrow
    · intro yc h
      simp [rowY] at h
      subst h; simp
    · intro i j r0 r1 hij h0 h1
      exact (hlen1 _ i j r0 r1 hij h0 h1).elim
  refine ⟨?_, ?_, ?_⟩
  · intro pl hp
    simp only [List.mem_singleton] at hp
    subst hp; exact hplane
  · intro zc h
    simp [planeZ] at h
    subst h; simp
  · intro i j p0 p1 hij h0 h1
    exact (hlen1 _ i j p0 p1 hij h0 h1).elim

/-- the zone downmix on a two-channel layout with channel 0 excluded routes everything to channel 1;
    the groups are duplicate-free (hypothesis of `downmix_rows_sum_one`) -/
example :
    downmixForExcluded [[[0], [1]], [[1], [0]]] [true, false] = some ([[0, 1], [0, 1]] : List (List ℝ)) ∧
    (∀ grps ∈ ([[[0], [1]], [[1], [0]]] : List (List (List Nat))), ∀ grp ∈ grps, grp.Nodup) := by
  constructor
  · simp [downmixForExcluded, firstUsable, allExcluded, notExcluded, downmixRow, List.range, List.range.loop,
      Rat.mkRat_one]
  · decide

/-- inputs satisfying the hypotheses of `pvSpread_power` (both branches active) -/
example : sumSq ([1, 0] : List ℝ) = 1 ∧ sumSq ([3 / 5, 4 / 5] : List ℝ) = 1 ∧ (0 : ℝ) ≤ 1 / 2 ∧ (1 / 2 : ℝ) ≤ 1 := by
  refine ⟨by norm_num, by norm_num, by norm_num, by norm_num⟩

/-- `renderFull` accepts every block without a positionOffset (so the hypothesis `renderFull … = some r` of
    `renderFull_power` is satisfiable), here with identity handlers and a constant unit-power panner -/
example : ∃ r, renderFull 2 ⟨id, id, id, fun _ => [1, 0]⟩ (.cartesian [false, false]) [false, false]
    (⟨true, (0, 0, 0), none, none, none, none, false, 1, 0, 1, false⟩ : Block ℝ) = some r := by
  simp [renderFull, applyOffset]

end Earverif.GainCalc
