/-
C04 composed with C02/C03: the output file of `OfflineRenderDriver.run` has exactly as many frames as the
input file, and its sample codes are the quantised, gain-scaled, upmixed sample-by-sample specification of the
rendering, for every accepted session and every way the reader splits the input into blocks.

`FileRender.run` (glue model, C04) takes the blocks the renderer returned; `Renderer.renderAllOS`
(renderer model with the partitioned overlap-save convolver and the numpy exceptions, C02/C03) is what the renderer
returns (all `render` calls plus `get_tail`, concatenated).  The headline theorems (`file_frames_eq_input`,
`file_render_blocks_frames`, `file_samples_eq_spec`) are about that model; the `_fir` versions are the older statements
about the renderer model with the direct-form FIR stand-in and totalised indexing (`renderAll`).
-/
import Earverif.Props.C04
import Earverif.Props.C02
import Earverif.Props.C18

namespace Earverif.FileRender
open Earverif.Renderer

/-- A renderer output row as the list of samples the glue model works on. -/
def rowList {n : Nat} (r : Earverif.Stream.Frame n) : List Rat := r.v.toList

/-- **Frames out = frames in** (FIR stand-in model), end to end on the two models: whatever the blocking of the input
(`parts`, as produced by `iter_sample_blocks(8192)`), if the session is accepted (`SessionOK`), the
renderer succeeds and the file written from its output has exactly `parts.flatten.length` frames, each
with `nChannels` samples when the layout has `n` channels. -/
theorem file_frames_eq_input_fir {n : Nat} (c : Cfg (Earverif.Stream.Frame n))
    (objs : List (ObjItem (Earverif.Stream.Frame n))) (dss : List (DsItem (Earverif.Stream.Frame n)))
    (hoas : List (HoaItem (Earverif.Stream.Frame n)))
    (hok : SessionOK c objs dss hoas) (parts : List (List (List Rat)))
    (chans : List String) (hn : chans.length = n) (speakers gain f M) :
    ∃ out, renderAll c objs dss hoas parts = .ok out ∧
      (run chans speakers gain f M [out.map rowList]).frames.length = parts.flatten.length ∧
      ∀ fr ∈ (run chans speakers gain f M [out.map rowList]).frames,
        fr.length = (run chans speakers gain f M [out.map rowList]).nChannels := by
  obtain ⟨out, hout, hlen, -⟩ := C02_length_and_origin c objs dss hoas hok parts
  refine ⟨out, hout, ?_, ?_⟩
  · rw [run_frame_count]; simp [hlen]
  · apply run_channel_count
    intro b hb fr hfr
    simp only [List.mem_singleton] at hb
    subst hb
    simp only [List.mem_map] at hfr
    obtain ⟨r, -, rfl⟩ := hfr
    simp [rowList, hn]

/-! ### The block loop: `iter_sample_blocks(blocksize)` (C18) → `render` per block → `get_tail` (C02) → glue (C04) -/

end Earverif.FileRender

namespace Earverif.FileRenderLayout
open Earverif.FileRender Earverif.Cursor

theorem chain_le : ∀ (rs : List (Int × Int)) (c e : Int), Chain c rs e → c ≤ e := by
  intro rs
  induction rs with
  | nil => intro c e h; simp [Chain] at h; omega
  | cons r rs ih =>
    intro c e h
    obtain ⟨_, h2, h3⟩ := h
    have := ih _ _ h3
    omega

theorem chain_mem : ∀ (rs : List (Int × Int)) (c e : Int), Chain c rs e →
    ∀ r ∈ rs, c ≤ r.1 ∧ 0 < r.2 ∧ r.1 + r.2 ≤ e := by
  intro rs
  induction rs with
  | nil => intro c e _ r hr; simp at hr
  | cons r0 rs ih =>
    intro c e h r hr
    obtain ⟨h1, h2, h3⟩ := h
    rcases List.mem_cons.mp hr with rfl | hr
    · have := chain_le _ _ _ h3
      exact ⟨by omega, h2, by omega⟩
    · have := ih _ _ h3 r hr
      exact ⟨by omega, this.2.1, this.2.2⟩

theorem chain_flatten {α : Type} (input : List α) : ∀ (rs : List (Int × Int)) (c e : Int), 0 ≤ c → Chain c rs e →
    (rs.map fun r => (input.drop r.1.toNat).take r.2.toNat).flatten = (input.drop c.toNat).take (e - c).toNat := by
  intro rs
  induction rs with
  | nil => intro c e _ h; simp [Chain] at h; subst h; simp
  | cons r rs ih =>
    intro c e hc h
    obtain ⟨h1, h2, h3⟩ := h
    have hle := chain_le _ _ _ h3
    rw [List.map_cons, List.flatten_cons, ih (c + r.2) e (by omega) h3, h1]
    have e1 : (c + r.2).toNat = c.toNat + r.2.toNat := by omega
    have e2 : (e - c).toNat = r.2.toNat + (e - (c + r.2)).toNat := by omega
    rw [e1, e2, List.take_add, List.drop_drop]

/-- **The blocks of `iter_sample_blocks(blocksize)` tile the file** (from C18's `specIter_tiles`): for
`blocksize ≥ 1` their concatenation is the input, none is empty, none is longer than `blocksize`. -/
theorem fileParts_spec {α : Type} (bs : Nat) (hbs : 1 ≤ bs) (input : List α) :
    (fileParts bs input).flatten = input ∧ ∀ p ∈ fileParts bs input, p ≠ [] ∧ p.length ≤ bs := by
  have ht := specIter_tiles (input.length : Int) (bs : Int) (by omega) (input.length + 1) 0 (by omega) (by omega)
    (by omega)
  obtain ⟨_, hchain, hsz⟩ := ht
  constructor
  · unfold fileParts
    rw [chain_flatten input _ 0 _ (by omega) hchain]
    simp
  · intro p hp
    unfold fileParts at hp
    rw [List.mem_map] at hp
    obtain ⟨r, hr, rfl⟩ := hp
    have hm := chain_mem _ _ _ hchain r hr
    have hs := hsz r hr
    constructor
    · intro hnil
      have : ((input.drop r.1.toNat).take r.2.toNat).length = 0 := by rw [hnil]; rfl
      rw [List.length_take, List.length_drop] at this
      omega
    · rw [List.length_take]
      omega

/-- One `render` call per block, then exactly one `get_tail` call. -/
theorem renderCalls_length {S E : Type} (render : S → List (List Rat) → Except E (S × List (List Rat)))
    (getTail : S → Except E (List (List Rat))) : ∀ (parts : List (List (List Rat))) (st : S) (outs : List (List (List Rat))),
    renderCalls render getTail st parts = .ok outs → outs.length = parts.length + 1 := by
  intro parts
  induction parts with
  | nil =>
    intro st outs h
    simp only [renderCalls] at h
    split at h
    · cases h
    · cases h; rfl
  | cons b bs ih =>
    intro st outs h
    simp only [renderCalls] at h
    split at h
    · cases h
    · split at h
      · cases h
      · rename_i os hos
        cases h
        simp [ih _ _ hos]

/-! Non-vacuity of `fileParts_spec`: a length that is not a multiple of the block size, an exact multiple (no
empty trailing block), the empty file (no block at all: only `get_tail` is called). -/
example : fileParts 4 [0, 1, 2, 3, 4, 5, 6, 7, 8, 9] = [[0, 1, 2, 3], [4, 5, 6, 7], [8, 9]] := by decide +kernel
example : fileParts 2 [0, 1, 2, 3] = [[0, 1], [2, 3]] := by decide +kernel
example : fileParts 8192 ([] : List Nat) = [] := by decide +kernel

end Earverif.FileRenderLayout

namespace Earverif.FileRender
open Earverif.Renderer Earverif.FileRenderLayout

/-- `renderer.render(...)` of the C02/C03 renderer model as an entry point of `renderCalls`. -/
def mRender {n : Nat} (c : Cfg (Earverif.Stream.Frame n)) (st : RState (Earverif.Stream.Frame n))
    (b : List (List Rat)) : Except Earverif.Timeline.Err (RState (Earverif.Stream.Frame n) × List (List Rat)) :=
  match st.render c b with
  | .error e => .error e
  | .ok (st', o) => .ok (st', o.map rowList)

/-- `renderer.get_tail(...)`. -/
def mTail {n : Nat} (c : Cfg (Earverif.Stream.Frame n)) (st : RState (Earverif.Stream.Frame n)) :
    Except Earverif.Timeline.Err (List (List Rat)) :=
  match st.get_tail c with
  | .error e => .error e
  | .ok (_, t) => .ok (t.map rowList)

theorem renderCalls_run {n : Nat} (c : Cfg (Earverif.Stream.Frame n)) :
    ∀ (parts : List (List (List Rat))) (st st' st'' : RState (Earverif.Stream.Frame n))
      (os : List (List (Earverif.Stream.Frame n))) (tail : List (Earverif.Stream.Frame n)),
    RState.run c st parts = .ok (st', os) → st'.get_tail c = .ok (st'', tail) →
    renderCalls (mRender c) (mTail c) st parts = .ok (os.map (·.map rowList) ++ [tail.map rowList]) := by
  intro parts
  induction parts with
  | nil =>
    intro st st' st'' os tail h1 h2
    simp only [RState.run, pure, Except.pure] at h1
    cases h1
    simp [renderCalls, mTail, h2]
  | cons b bs ih =>
    intro st st' st'' os tail h1 h2
    simp only [RState.run, bind, Except.bind] at h1
    cases hr : st.render c b with
    | error e => rw [hr] at h1; cases h1
    | ok r =>
      obtain ⟨st1, o⟩ := r
      rw [hr] at h1
      simp only at h1
      cases hrun : RState.run c st1 bs with
      | error e => rw [hrun] at h1; cases h1
      | ok r2 =>
        obtain ⟨st2, os2⟩ := r2
        rw [hrun] at h1
        simp only [pure, Except.pure] at h1
        cases h1
        have := ih st1 st' st'' os2 tail hrun h2
        simp [renderCalls, mRender, hr, this]

theorem renderAll_parts {n : Nat} (c : Cfg (Earverif.Stream.Frame n)) (objs dss hoas)
    (parts : List (List (List Rat))) (out : List (Earverif.Stream.Frame n))
    (h : renderAll c objs dss hoas parts = .ok out) :
    ∃ st os st'' tail, RState.run c (RState.init c objs dss hoas) parts = .ok (st, os) ∧
      st.get_tail c = .ok (st'', tail) ∧ out = os.flatten ++ tail := by
  simp only [renderAll, bind, Except.bind] at h
  cases hrun : RState.run c (RState.init c objs dss hoas) parts with
  | error e => rw [hrun] at h; cases h
  | ok r =>
    obtain ⟨st, os⟩ := r
    rw [hrun] at h
    simp only at h
    cases ht : st.get_tail c with
    | error e => rw [ht] at h; cases h
    | ok r2 =>
      obtain ⟨st'', tail⟩ := r2
      rw [ht] at h
      simp only [pure, Except.pure] at h
      cases h
      exact ⟨st, os, st'', tail, rfl, ht, rfl⟩

/-- **File in, file out: frames out = frames in, through the real call sequence** (FIR stand-in model). For every accepted session
(`SessionOK`), every input file content `input` and every block size `≥ 1` (8192 in `OfflineRenderDriver`):
reading the file with `iter_sample_blocks(blocksize)` (C18's specification), calling `render` once per block
and `get_tail` once at the end (C02/C03's renderer model), scaling, upmixing, monitoring and writing each
returned block (`FileRender.run`) succeeds and writes exactly `input.length` frames of `nChannels` samples each. -/
theorem file_render_blocks_frames_fir {n : Nat} (c : Cfg (Earverif.Stream.Frame n))
    (objs : List (ObjItem (Earverif.Stream.Frame n))) (dss : List (DsItem (Earverif.Stream.Frame n)))
    (hoas : List (HoaItem (Earverif.Stream.Frame n)))
    (hok : SessionOK c objs dss hoas) (input : List (List Rat)) (blocksize : Nat) (hbs : 1 ≤ blocksize)
    (chans : List String) (hn : chans.length = n) (speakers gain f M) :
    ∃ res, runFile (mRender c) (mTail c) (RState.init c objs dss hoas) blocksize chans speakers gain f M input
        = .ok res ∧
      res.frames.length = input.length ∧ res.nChannels = nChannels chans speakers ∧
      ∀ fr ∈ res.frames, fr.length = res.nChannels := by
  obtain ⟨out, hout, hlen, -⟩ := C02_length_and_origin c objs dss hoas hok (fileParts blocksize input)
  obtain ⟨st, os, st'', tail, hrun, htail, rfl⟩ := renderAll_parts c objs dss hoas _ out hout
  have hcalls := renderCalls_run c _ _ _ _ _ _ hrun htail
  refine ⟨run chans speakers gain f M (List.map (fun x => List.map rowList x) os ++ [List.map rowList tail]),
    by simp only [runFile, hcalls], ?_, rfl, ?_⟩
  · rw [run_frame_count]
    rw [(fileParts_spec blocksize hbs input).1] at hlen
    rw [← hlen]
    simp only [List.map_append, List.map_map, List.sum_append, List.length_append, List.length_flatten]
    simp [Function.comp_def]
  · apply run_channel_count
    intro b hb fr hfr
    have hrow : ∀ (l : List (Earverif.Stream.Frame n)), ∀ fr ∈ l.map rowList, fr.length = chans.length := by
      intro l fr hfr
      rw [List.mem_map] at hfr
      obtain ⟨r, -, rfl⟩ := hfr
      simp [rowList, hn]
    rw [List.mem_append] at hb
    rcases hb with hb | hb
    · rw [List.mem_map] at hb
      obtain ⟨l, -, rfl⟩ := hb
      exact hrow l fr hfr
    · rw [List.mem_singleton] at hb
      subst hb
      exact hrow tail fr hfr

/-! ### The same against the renderer model with the overlap-save convolver and the numpy exceptions (`renderAllOS`) -/

/-- `renderer.render(...)` of the C02/C03 renderer model (`Model/OverlapSave.lean`) as an entry point of `renderCalls`. -/
def mRenderOS {n : Nat} (c : Cfg (Earverif.Stream.Frame n)) (st : RStateOS (Earverif.Stream.Frame n))
    (b : List (List Rat)) :
    Except (ChkErr Earverif.Timeline.Err) (RStateOS (Earverif.Stream.Frame n) × List (List Rat)) :=
  match st.render c b with
  | .error e => .error e
  | .ok (st', o) => .ok (st', o.map rowList)

/-- `renderer.get_tail(...)`. -/
def mTailOS {n : Nat} (c : Cfg (Earverif.Stream.Frame n)) (st : RStateOS (Earverif.Stream.Frame n)) :
    Except (ChkErr Earverif.Timeline.Err) (List (List Rat)) :=
  match st.get_tail c with
  | .error e => .error e
  | .ok (_, t) => .ok (t.map rowList)

theorem renderCalls_runOS {n : Nat} (c : Cfg (Earverif.Stream.Frame n)) :
    ∀ (parts : List (List (List Rat))) (st st' st'' : RStateOS (Earverif.Stream.Frame n))
      (os : List (List (Earverif.Stream.Frame n))) (tail : List (Earverif.Stream.Frame n)),
    RStateOS.run c st parts = .ok (st', os) → st'.get_tail c = .ok (st'', tail) →
    renderCalls (mRenderOS c) (mTailOS c) st parts = .ok (os.map (·.map rowList) ++ [tail.map rowList]) := by
  intro parts
  induction parts with
  | nil =>
    intro st st' st'' os tail h1 h2
    simp only [RStateOS.run] at h1
    cases h1
    simp [renderCalls, mTailOS, h2]
  | cons b bs ih =>
    intro st st' st'' os tail h1 h2
    simp only [RStateOS.run] at h1
    cases hr : st.render c b with
    | error e => rw [hr] at h1; cases h1
    | ok r =>
      obtain ⟨st1, o⟩ := r
      rw [hr] at h1
      simp only at h1
      cases hrun : RStateOS.run c st1 bs with
      | error e => rw [hrun] at h1; cases h1
      | ok r2 =>
        obtain ⟨st2, os2⟩ := r2
        rw [hrun] at h1
        simp only at h1
        cases h1
        have := ih st1 st' st'' os2 tail hrun h2
        simp [renderCalls, mRenderOS, hr, this]

theorem renderAllOS_parts {n : Nat} (c : Cfg (Earverif.Stream.Frame n)) (objs dss hoas)
    (parts : List (List (List Rat))) (out : List (Earverif.Stream.Frame n))
    (h : renderAllOS c objs dss hoas parts = .ok out) :
    ∃ st os st'' tail, RStateOS.run c (RStateOS.init c objs dss hoas) parts = .ok (st, os) ∧
      st.get_tail c = .ok (st'', tail) ∧ out = os.flatten ++ tail := by
  simp only [renderAllOS] at h
  cases hrun : RStateOS.run c (RStateOS.init c objs dss hoas) parts with
  | error e => rw [hrun] at h; cases h
  | ok r =>
    obtain ⟨st, os⟩ := r
    rw [hrun] at h
    simp only at h
    cases ht : st.get_tail c with
    | error e => rw [ht] at h; cases h
    | ok r2 =>
      obtain ⟨st'', tail⟩ := r2
      rw [ht] at h
      simp only at h
      cases h
      exact ⟨st, os, st'', tail, rfl, ht, rfl⟩

/-- **Frames out = frames in**, end to end on the two models: whatever the blocking of the input (`parts`, as produced
by `iter_sample_blocks(8192)`), if the session is inside the static conditions (`SessionWF`: accepted timelines, tracks
inside the input, decode matrices of the right width, ≥ 1 tap), the renderer succeeds and the file written from its
output has exactly `parts.flatten.length` frames, each with `nChannels` samples when the layout has `n` channels. -/
theorem file_frames_eq_input {n : Nat} (c : Cfg (Earverif.Stream.Frame n))
    (objs : List (ObjItem (Earverif.Stream.Frame n))) (dss : List (DsItem (Earverif.Stream.Frame n)))
    (hoas : List (HoaItem (Earverif.Stream.Frame n)))
    (hok : SessionWF c objs dss hoas) (parts : List (List (List Rat)))
    (chans : List String) (hn : chans.length = n) (speakers gain f M) :
    ∃ out, renderAllOS c objs dss hoas parts = .ok out ∧
      (run chans speakers gain f M [out.map rowList]).frames.length = parts.flatten.length ∧
      ∀ fr ∈ (run chans speakers gain f M [out.map rowList]).frames,
        fr.length = (run chans speakers gain f M [out.map rowList]).nChannels := by
  obtain ⟨out, hout, hlen, -⟩ := C02_length_and_origin_os c objs dss hoas hok parts
  refine ⟨out, hout, ?_, ?_⟩
  · rw [run_frame_count]; simp [hlen]
  · apply run_channel_count
    intro b hb fr hfr
    simp only [List.mem_singleton] at hb
    subst hb
    simp only [List.mem_map] at hfr
    obtain ⟨r, -, rfl⟩ := hfr
    simp [rowList, hn]

/-- The exact (unquantised) output frames: the specified rendering `RenderSpec.out` of the whole input, every sample
scaled by the output gain and routed / scaled by the speakers file's upmix matrix (`outBlock`). -/
def exactOut {n : Nat} (c : Cfg (Earverif.Stream.Frame n)) (objs : List (ObjItem (Earverif.Stream.Frame n)))
    (dss : List (DsItem (Earverif.Stream.Frame n))) (hoas : List (HoaItem (Earverif.Stream.Frame n)))
    (chans : List String) (speakers : Option (List Speaker)) (gain : Rat) (input : List (List Rat)) :
    List (List Rat) :=
  outBlock gain (speakers.map fun sp => upmix sp chans) ((RenderSpec.out c objs dss hoas input).map rowList)

/-- **`file_samples_eq_spec`** — the C04 sentence "samples equal the in-memory rendering of the selected programme
scaled by the output gain and routed and scaled as the speakers file says, to within one quantisation step" as ONE
theorem from input audio + metadata to file codes.  For every session inside the static conditions (`SessionWF`), every
input file content `input` and every block size `≥ 1` (8192 in `OfflineRenderDriver`): reading the file with
`iter_sample_blocks(blocksize)` (C18's specification), calling `render` once per block and `get_tail` once at the end
(the C02/C03 renderer model with the overlap-save convolver), scaling, upmixing, monitoring and writing each returned
block (`FileRender.run`) raises no renderer exception and returns the result record `res` (the output file has then
been written completely; the real `run` afterwards raises "error: output overloaded" iff `res.failed`); it writes exactly
`input.length` frames of `nChannels` samples; frame by frame the
written codes are `quantise M` of the exact frames `exactOut` = `gain · U · RenderSpec.out(input)` — the renderer's
block structure, the convolver's latency compensation and the tail have disappeared —; (`M > 0`; the code uses
`M = 2^(bits−1) − 1` of the INPUT file's bit depth, which this model does not carry: `M` is a free parameter here)
every written code is within one quantisation step of the exact sample times `M` when that sample is inside full scale,
and is `±M` (clipped) otherwise; and **the run fails (`res.failed`, the real `run` raises) exactly when
`fail_on_overload` is set and some sample of `exactOut` exceeds full scale in magnitude** (the property's last
sentence, about the specified output of the whole input rather than about renderer blocks). -/
theorem file_samples_eq_spec {n : Nat} (c : Cfg (Earverif.Stream.Frame n))
    (objs : List (ObjItem (Earverif.Stream.Frame n))) (dss : List (DsItem (Earverif.Stream.Frame n)))
    (hoas : List (HoaItem (Earverif.Stream.Frame n)))
    (hok : SessionWF c objs dss hoas) (input : List (List Rat)) (blocksize : Nat) (hbs : 1 ≤ blocksize)
    (chans : List String) (hn : chans.length = n) (speakers : Option (List Speaker)) (gain : Rat) (f : Bool)
    (M : Int) (hM : 0 < M) :
    ∃ res, runFile (mRenderOS c) (mTailOS c) (RStateOS.init c objs dss hoas) blocksize chans speakers gain f M input
        = .ok res ∧
      res.frames = (exactOut c objs dss hoas chans speakers gain input).map (·.map (quantise M)) ∧
      res.frames.length = input.length ∧ res.nChannels = nChannels chans speakers ∧
      (∀ fr ∈ res.frames, fr.length = res.nChannels) ∧
      (∀ fr ∈ exactOut c objs dss hoas chans speakers gain input, ∀ x ∈ fr,
        (-1 ≤ x → x ≤ 1 → ((quantise M x : Int) : Rat) - x * M < 1 ∧ x * M - ((quantise M x : Int) : Rat) < 1) ∧
        (1 < x → quantise M x = M) ∧ (x < -1 → quantise M x = -M)) ∧
      (res.failed = true ↔
        f = true ∧ ∃ fr ∈ exactOut c objs dss hoas chans speakers gain input, ∃ x ∈ fr, 1 < rabs x) := by
  have hparts := (fileParts_spec blocksize hbs input).1
  have hout := render_refines_spec_os_ok c objs dss hoas hok.ok hok.taps_ne hok.index (fileParts blocksize input)
  rw [hparts] at hout
  obtain ⟨st, os, st'', tail, hrun, htail, hcat⟩ := renderAllOS_parts c objs dss hoas _ _ hout
  have hcalls := renderCalls_runOS c _ _ _ _ _ _ hrun htail
  have hflat : (List.map (fun x => List.map rowList x) os ++ [List.map rowList tail]).flatten =
      (RenderSpec.out c objs dss hoas input).map rowList := by
    rw [hcat]
    simp only [List.flatten_append, List.flatten_cons, List.flatten_nil, List.append_nil, List.map_append,
      List.map_flatten]
  have hrow : ∀ (l : List (Earverif.Stream.Frame n)), ∀ fr ∈ l.map rowList, fr.length = chans.length := by
    intro l fr hfr
    rw [List.mem_map] at hfr
    obtain ⟨r, -, rfl⟩ := hfr
    simp [rowList, hn]
  have hframes : (run chans speakers gain f M (List.map (fun x => List.map rowList x) os ++ [List.map rowList tail])).frames =
      (exactOut c objs dss hoas chans speakers gain input).map (·.map (quantise M)) := by
    simp only [run, exactOut]
    rw [outBlock_flatten, hflat]
  have hlen : ∀ b ∈ List.map (fun x => List.map rowList x) os ++ [List.map rowList tail], ∀ fr ∈ b,
      fr.length = chans.length := by
    intro b hb fr hfr
    rw [List.mem_append] at hb
    rcases hb with hb | hb
    · rw [List.mem_map] at hb
      obtain ⟨l, -, rfl⟩ := hb
      exact hrow l fr hfr
    · rw [List.mem_singleton] at hb
      subst hb
      exact hrow tail fr hfr
  refine ⟨run chans speakers gain f M (List.map (fun x => List.map rowList x) os ++ [List.map rowList tail]),
    by simp only [runFile, hcalls], hframes, ?_, rfl, ?_, ?_, ?_⟩
  · rw [hframes]
    simp [exactOut, outBlock, RenderSpec.out]
  · exact run_channel_count _ _ _ _ _ _ hlen
  · intro fr _ x _
    refine ⟨fun h1 h2 => ?_, (quantise_clips M x).1, (quantise_clips M x).2⟩
    obtain ⟨q1, q2, -, -⟩ := quantise_within_step M hM x h1 h2
    exact ⟨q1, q2⟩
  · rw [run_failed_iff_samples _ _ _ _ _ _ hlen, hflat]
    rfl

/-- **A speakers file without a `speakers` list = no speakers file, end to end** (`eye_identity` composed).
`load_output_layout` returns `n_channels = len(layout.channels)` and `upmix = eye(n_channels)` for such a file
(`load_output_layout_spec`) and `upmix = None` without a file; `runFile`'s `speakers = none` stands for both. For every
session inside `SessionWF`, every input and block size: on the blocks `outs` the renderer returns for the file, the
result record computed with `some (eye n)` (`runU`) IS the one `runFile … none …` returns, and the exact output frames
with `some (eye n)` are `exactOut … none …` of `file_samples_eq_spec`. -/
theorem file_eye_upmix_same {n : Nat} (c : Cfg (Earverif.Stream.Frame n))
    (objs : List (ObjItem (Earverif.Stream.Frame n))) (dss : List (DsItem (Earverif.Stream.Frame n)))
    (hoas : List (HoaItem (Earverif.Stream.Frame n)))
    (hok : SessionWF c objs dss hoas) (input : List (List Rat)) (blocksize : Nat) (hbs : 1 ≤ blocksize)
    (chans : List String) (hn : chans.length = n) (gain : Rat) (f : Bool) (M : Int) :
    ∃ outs, renderCalls (mRenderOS c) (mTailOS c) (RStateOS.init c objs dss hoas) (fileParts blocksize input) = .ok outs ∧
      runFile (mRenderOS c) (mTailOS c) (RStateOS.init c objs dss hoas) blocksize chans none gain f M input =
        .ok (run chans none gain f M outs) ∧
      runU chans.length (some (eye chans.length)) gain f M outs = run chans none gain f M outs ∧
      outBlock gain (some (eye chans.length)) ((RenderSpec.out c objs dss hoas input).map rowList) =
        exactOut c objs dss hoas chans none gain input := by
  have hparts := (fileParts_spec blocksize hbs input).1
  have hout := render_refines_spec_os_ok c objs dss hoas hok.ok hok.taps_ne hok.index (fileParts blocksize input)
  rw [hparts] at hout
  obtain ⟨st, os, st'', tail, hrun, htail, -⟩ := renderAllOS_parts c objs dss hoas _ _ hout
  have hcalls := renderCalls_runOS c _ _ _ _ _ _ hrun htail
  have hrow : ∀ (l : List (Earverif.Stream.Frame n)), ∀ fr ∈ l.map rowList, fr.length = chans.length := by
    intro l fr hfr
    rw [List.mem_map] at hfr
    obtain ⟨r, -, rfl⟩ := hfr
    simp [rowList, hn]
  refine ⟨_, hcalls, by simp only [runFile, hcalls], run_eye_upmix chans gain f M _ ?_, ?_⟩
  · intro b hb fr hfr
    rw [List.mem_append] at hb
    rcases hb with hb | hb
    · rw [List.mem_map] at hb
      obtain ⟨l, -, rfl⟩ := hb
      exact hrow l fr hfr
    · rw [List.mem_singleton] at hb
      subst hb
      exact hrow tail fr hfr
  · rw [outBlock_eye gain chans.length _ (hrow _)]
    rfl

/-- **File in, file out: frames out = frames in, through the real call sequence** (corollary of
`file_samples_eq_spec`). -/
theorem file_render_blocks_frames {n : Nat} (c : Cfg (Earverif.Stream.Frame n))
    (objs : List (ObjItem (Earverif.Stream.Frame n))) (dss : List (DsItem (Earverif.Stream.Frame n)))
    (hoas : List (HoaItem (Earverif.Stream.Frame n)))
    (hok : SessionWF c objs dss hoas) (input : List (List Rat)) (blocksize : Nat) (hbs : 1 ≤ blocksize)
    (chans : List String) (hn : chans.length = n) (speakers gain f M) :
    ∃ res, runFile (mRenderOS c) (mTailOS c) (RStateOS.init c objs dss hoas) blocksize chans speakers gain f M input
        = .ok res ∧
      res.frames.length = input.length ∧ res.nChannels = nChannels chans speakers ∧
      ∀ fr ∈ res.frames, fr.length = res.nChannels := by
  have hparts := (fileParts_spec blocksize hbs input).1
  have hout := render_refines_spec_os_ok c objs dss hoas hok.ok hok.taps_ne hok.index (fileParts blocksize input)
  rw [hparts] at hout
  obtain ⟨st, os, st'', tail, hrun, htail, hcat⟩ := renderAllOS_parts c objs dss hoas _ _ hout
  have hcalls := renderCalls_runOS c _ _ _ _ _ _ hrun htail
  have hlen : (os.flatten ++ tail).length = input.length := by rw [← hcat]; simp [RenderSpec.out]
  refine ⟨run chans speakers gain f M (List.map (fun x => List.map rowList x) os ++ [List.map rowList tail]),
    by simp only [runFile, hcalls], ?_, rfl, ?_⟩
  · rw [run_frame_count, ← hlen]
    simp only [List.map_append, List.map_map, List.sum_append, List.length_append, List.length_flatten]
    simp [Function.comp_def]
  · apply run_channel_count
    intro b hb fr hfr
    have hrow : ∀ (l : List (Earverif.Stream.Frame n)), ∀ fr ∈ l.map rowList, fr.length = chans.length := by
      intro l fr hfr
      rw [List.mem_map] at hfr
      obtain ⟨r, -, rfl⟩ := hfr
      simp [rowList, hn]
    rw [List.mem_append] at hb
    rcases hb with hb | hb
    · rw [List.mem_map] at hb
      obtain ⟨l, -, rfl⟩ := hb
      exact hrow l fr hfr
    · rw [List.mem_singleton] at hb
      subst hb
      exact hrow tail fr hfr

/-- **A renderer exception aborts the file run**: when the session raises (e.g. `IndexError` for a track outside the
input file's channels), `runFile` returns that exception and no result. -/
theorem file_render_raises {n : Nat} (c : Cfg (Earverif.Stream.Frame n))
    (objs : List (ObjItem (Earverif.Stream.Frame n))) (dss : List (DsItem (Earverif.Stream.Frame n)))
    (hoas : List (HoaItem (Earverif.Stream.Frame n))) (parts : List (List (List Rat))) (e)
    (h : renderAllOS c objs dss hoas parts = .error e) :
    renderCalls (mRenderOS c) (mTailOS c) (RStateOS.init c objs dss hoas) parts = .error e := by
  simp only [renderAllOS] at h
  generalize RStateOS.init c objs dss hoas = st0 at h ⊢
  induction parts generalizing st0 with
  | nil =>
    simp only [RStateOS.run] at h
    simp only [renderCalls, mTailOS]
    cases ht : st0.get_tail c with
    | error e' => rw [ht] at h; simp only [Except.error.injEq] at h; rw [h]
    | ok r => rw [ht] at h; cases h
  | cons b bs ih =>
    simp only [RStateOS.run] at h
    simp only [renderCalls, mRenderOS]
    cases hr : st0.render c b with
    | error e' => rw [hr] at h; simp only [Except.error.injEq] at h; rw [h]
    | ok r =>
      obtain ⟨st1, o⟩ := r
      rw [hr] at h
      simp only at h ⊢
      have := ih st1 (by
        cases hrun : RStateOS.run c st1 bs with
        | error e' => rw [hrun] at h; simpa using h
        | ok r2 =>
          obtain ⟨st2, os2⟩ := r2
          rw [hrun] at h
          simp only at h ⊢
          cases ht : st2.get_tail c with
          | error e' => rw [ht] at h; simpa using h
          | ok r3 => rw [ht] at h; cases h)
      rw [this]

/-! ### Non-vacuity of `SessionWF` at the frame type the theorems use, and the composed statement evaluated

A two-loudspeaker layout (`Frame 2`), one input channel, sample rate 10, `block_size = 2`, a one-tap decorrelation
filter; one DirectSpeakers item on track 0 with a single untimed block, gains `(1, 1/2)`. -/
def exCfgF : Cfg (Earverif.Stream.Frame 2) := ⟨10, 2, [⟨#v[1, 1]⟩], 1⟩
def exDssF : List (DsItem (Earverif.Stream.Frame 2)) := [⟨0, [⟨none, none, none, none, false, none, ⟨#v[1, 1/2]⟩⟩]⟩]

theorem exSessionF_wf : SessionWF exCfgF [] exDssF [] where
  ok :=
    { block_size_pos := by decide
      objs_ok := by intro it hit; cases hit
      dss_ok := by
        intro it hit
        simp only [exDssF, List.mem_cons, List.not_mem_nil, or_false] at hit
        subst hit
        refine ⟨⟨_, rfl⟩, ?_, ?_⟩
        · intro m hm
          simp only [List.mem_cons, List.not_mem_nil, or_false] at hm
          subst hm
          refine ⟨?_, ?_, ?_⟩ <;> intro d hd <;> cases hd
        · intro m ms h
          cases h
          decide +kernel
      hoas_ok := by intro it hit; cases hit }
  index :=
    { obj_tracks := by intro it hit; cases hit
      ds_tracks := by decide
      hoa_tracks := by intro it hit; cases hit
      hoa_nonempty := by intro it hit; cases hit
      hoa_gains := by intro it hit; cases hit }
  taps_ne := by decide

/-- The whole chain evaluated by the kernel on a three-frame file read in blocks of two frames (16-bit codes,
output gain 1/2, no speakers file): `input·(1, 1/2)·gain·32767`, truncated. -/
example : (runFile (mRenderOS exCfgF) (mTailOS exCfgF) (RStateOS.init exCfgF [] exDssF []) 2 ["M+030", "M-030"] none
    (1/2) false 32767 [[1], [-1/2], [1/4]]).toOption.map (·.frames) =
    some [[16383, 8191], [-8191, -4095], [4095, 2047]] := by decide +kernel

/-- The failure conjunct of `file_samples_eq_spec` evaluated: a loud frame (`3·(1, 1/2)·1/2 = (3/2, 3/4)`) with
`fail_on_overload` fails, the same file without the option does not, a quiet file with the option does not; the
overloaded sample is written clipped. -/
example : ((runFile (mRenderOS exCfgF) (mTailOS exCfgF) (RStateOS.init exCfgF [] exDssF []) 2 ["M+030", "M-030"] none
      (1/2) true 32767 [[1], [3], [1/4]]).toOption.map fun r => (r.failed, r.frames)) =
    some (true, [[16383, 8191], [32767, 24575], [4095, 2047]]) := by decide +kernel
example : (runFile (mRenderOS exCfgF) (mTailOS exCfgF) (RStateOS.init exCfgF [] exDssF []) 2 ["M+030", "M-030"] none
      (1/2) false 32767 [[1], [3], [1/4]]).toOption.map (·.failed) = some false := by decide +kernel
example : (runFile (mRenderOS exCfgF) (mTailOS exCfgF) (RStateOS.init exCfgF [] exDssF []) 2 ["M+030", "M-030"] none
      (1/2) true 32767 [[1], [-1/2], [1/4]]).toOption.map (·.failed) = some false := by decide +kernel
example : ∃ fr ∈ exactOut exCfgF [] exDssF [] ["M+030", "M-030"] none (1/2) [[1], [3], [1/4]], ∃ x ∈ fr, 1 < rabs x :=
  ⟨[3/2, 3/4], by decide +kernel, 3/2, by decide +kernel, by decide +kernel⟩

end Earverif.FileRender
