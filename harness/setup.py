"""MANIFEST.setup_cmd: regenerate tables from /repo and build every claimed property's Lean targets once."""
import importlib, sys
from . import common
from .registry import CLAIMED

def main():
    targets = []
    for pid in sorted(CLAIMED):
        mod = importlib.import_module("harness." + pid.lower())
        spec = mod.SPEC
        try:
            spec.extract(common.Ctx(pid, "quick", 0))
        except Exception as e:
            print("setup: extraction for %s failed: %r (the check will report it)" % (pid, e))
        for t in spec.lean_targets:
            if t not in targets:
                targets.append(t)
    ok, out = common.lake_build(targets)
    print(out[-3000:])
    print("setup: lake build", "ok" if ok else "FAILED (checks will report which obligations do not build)")
    return 0

if __name__ == "__main__":
    sys.exit(main())
