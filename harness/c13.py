"""C13 — zone exclusion silences excluded loudspeakers; channel lock selects one; screenRef no-op.

extract   : per-layout tables (nominal positions, zone-exclusion priority groups, channel-lock priorities,
            allocentric positions) -> lean/Earverif/Gen/C13_Tables.lean (re-checked by `decide +kernel`)
correspond: get_excluded / downmix_for_excluded / ZoneExclusionHandler.handle / allocentric.get_excluded /
            channel_priority / ChannelLockHandler*.handle / scale_az_el / whole Cartesian renders (renderCartLock) /
            whole polar renders (renderPolar on captured pans and divergence weights; renderPolarLock: lock -> pan ->
            zone downmix)  vs the Lean models (c13driver)
search    : the property evaluated on GainCalc(layout).render(...) alone (see c13_search.py)
"""
import itertools
import math
import struct

import numpy as np

from .common import Spec, Driver, GEN, write_if_changed
from . import c13_search as S

FUEL = 16  # iterations allowed to each `while` of inside_angle_range in the model (generators stay within)


def fb(x):
    """binary64 bit pattern as a decimal string"""
    return str(struct.unpack("<Q", struct.pack("<d", float(x)))[0])


def unfb(s):
    return struct.unpack("<d", struct.pack("<Q", int(s)))[0]


def _frac(x):
    from fractions import Fraction

    return Fraction(float(x))


def mask_str(m):
    return "".join("1" if b else "0" for b in m)


def rat_pair(x):
    n, d = float(x).as_integer_ratio()
    return "(%d, %d)" % (n, d)


def lean_name(layout_name):
    return "L_" + layout_name.replace("+", "_")


def layout_tables(lay):
    """Everything the Lean side needs about one layout (real code objects only)."""
    from ear.core import allocentric
    from ear.core.objectbased.gain_calc import ZoneExclusionHandler, EgoChannelLockHandler

    zeh = ZoneExclusionHandler(lay)
    ego = EgoChannelLockHandler(lay)
    n = len(lay.channels)
    spk = [
        [float(zeh.positions[i, 0]), float(zeh.positions[i, 1]), float(zeh.positions[i, 2]),
         float(zeh.azimuths[i]), float(zeh.elevations[i])]
        for i in range(n)
    ]
    groups = [[[int(j) for j in g] for g in gs] for gs in zeh.zed.channel_groups]
    prio = [int(p) for p in ego.channel_priority]
    azel = [[float(c.polar_position.azimuth), float(c.polar_position.elevation)] for c in lay.channels]
    allo = [[float(v) for v in row] for row in allocentric.positions_for_layout(lay)]
    # what EgoChannelLockHandler measures distances to (layout.norm_positions)
    norm = [[float(v) for v in row] for row in np.asarray(ego.channel_positions, dtype=float)]
    from ear.core.point_source import AllocentricPanner

    tree = [[[int(leaf[0]) for leaf in row] for row in pl]
            for pl in AllocentricPanner(allocentric.positions_for_layout(lay)).st]
    return dict(tree=tree, n=n, names=list(lay.channel_names), spk=spk, groups=groups, prio=prio, azel=azel, allo=allo,
                norm=norm)


def groups_tokens(groups):
    out = []
    for gs in groups:
        out.append(str(len(gs)))
        for g in gs:
            out.append(str(len(g)))
            out.extend(str(j) for j in g)
    return " ".join(out)


class C13(Spec):
    pid = "C13"
    lean_targets = ("Earverif.Props.C13", "c13driver")
    props_module = "Earverif.Props.C13"
    theorems = tuple(
        "Earverif.C13." + t
        for t in (
            "downmix_rows_sum_one", "downmix_nonneg", "downmix_excluded_col_zero", "downmix_defined",
            "tables_groups_ok", "tables_priorities_ok", "polar_excluded_gain_zero",
            "cart_excluded_gain_zero_on_final_mask", "cart_reset_characterised", "cart_zone_not_silent_witness",
            "lock_returns_speaker_position", "lock_limit", "lock_index_valid", "lock_one_speaker_partial",
            "screen_identity", "zero_laws_real", "polar_render_defined",
            # round 2: the Cartesian path composed, allocentric exactness, polar lock with C05, compensate_position
            "cart_lock_target_not_excluded", "allo_exact_at_speaker", "cart_lock_one_speaker", "tables_allo_ok",
            "allo_exact_at_speaker_layouts", "polar_tables_every_speaker_is_vertex", "polar_lock_one_speaker_partial",
            "polar_lock_one_speaker_quad_partial", "interp4_identity", "compensate_identity_without_U045",
            "compensate_identity_at_el0",
            # round 7 (audit): nearest/ties-by-priority attached to what renders (lockHandle over R, by loudspeaker
            # index); the polar path in the real order lock -> pan -> zone downmix (renderPolarLock); "as if unlocked"
            # and Cartesian silence composed; witnesses with gains; get_excluded mask specification
            "lockHandle_spec", "lockHandle_nearest", "lockHandle_unchanged_iff", "lockHandle_never_error",
            "lockHandle_no_limit_locks", "nearestByRule_unique", "lock_at_speaker", "lock_at_speaker_table",
            "tables_lock_ok", "renderCartLock_parts", "cart_lock_unchanged_renders_as_unlocked", "cart_lock_limit",
            "cart_lock_excluded_gain_zero", "cart_lock_defined", "polar_lock_defined", "cart_zone_not_silent_gain_witness",
            "polar_lock_with_zones_characterised", "polar_lock_power", "polar_lock_one_speaker",
            "polar_lock_unchanged_renders_as_unlocked", "polar_lock_limit", "polar_lock_zone_two_speakers_witness",
            "polar_lock_one_speaker_layouts_partial",
            # C05 exactness of the composed panner plugged in: no panner hypothesis left on the ten regenerated layouts
            "norm_tables_match", "pspHandle_exact_at_norm", "polar_lock_one_speaker_layouts",
            "polar_lock_one_speaker_layouts_tables",
            # the REAL pan: PolarExtentHandler.handle(., 0, 0, 0) (GainCalc.polarPointPan) around the C05 panner
            "tables_norm_near_unit", "c01_tables_match", "inPointClass_at_norm", "renderPolar_scale",
            "polar_lock_one_speaker_layouts_extent",
            "downmixForExcluded_cast", "alloExcluded_cast", "getExcluded_spec", "zoneMatch_cart_spec", "whileLoop_spec",
            "insideAngleRange_spec", "zoneMatch_polar_spec",
            "screen_position_identity",
        )
    ) + tuple(
        "Earverif.GainCalc." + t
        for t in ("extentMod_zero_near", "inPointClass_of_near", "polarPointPan_at_unit")
    )
    trusted_base = (
        "models Earverif/Model/Zone.lean and ChannelLock.lean are hand transliterations of "
        "ZoneExclusionHandler.get_excluded/handle, geom.inside_angle_range, ZoneExclusionDownmix.downmix_for_excluded, "
        "allocentric.get_excluded, GainCalc.render's mask use, ChannelLockHandlerBase.__init__/handle, np.interp on 4 "
        "points and PolarScreenScaler.scale_az_el; tied to the code by the correspondence on every run",
        "the panners (point source, polar extent, allo_extent) are parameters of the model: arbitrary gain vectors of "
        "the right length; in renderPolarLock the panner is a function parameter `pan` (theorem hypothesis: exact at "
        "the locked loudspeaker, i.e. C05 exactness at a vertex), closed in the driver with the (position, gains) "
        "pairs captured from inside the real render call (op rpl) or with the concrete C01 model GainCalc.polarPointPan "
        "over the regenerated Gen/C01 + Gen/C05 tables, nothing captured (op rple; theorem "
        "polar_lock_one_speaker_layouts_extent); the polar/Cartesian conversions of scale_position are "
        "parameters of scalePosition (C19)",
        "theorems over R use the tolerance 1e-5 / 1e-6 as real numbers; the Float/Rat instances use the doubles' exact "
        "values (boundary behaviour within 1 ulp of a threshold is covered by the correspondence, not by the R theorems)",
        "IEEE-754 binary64: x*(+-0) = +-0 for finite x, (+-0)+(+-0) = +-0, sqrt(+-0) = +-0 - the zero-gain theorems are "
        "proved for any scalar type with these laws (instance: the reals) and the laws are sampled on doubles in "
        "the correspondence (Lean `Float` is opaque to the kernel)",
        "per-layout tables are regenerated from the real objects on every run; np.lexsort, Layout.without_lfe, "
        "allo_positions.yaml are black boxes behind those tables",
        "AllocentricPanner.handle is the C01 model Earverif.GainCalc.alloHandle (Model/GainCalc.lean), imported "
        "unchanged; the polar theorems import Props/C05 (model PointSource.lean, tables Gen/C05_Tables.lean regenerated "
        "here through C05's extractor); theorems about renderCartLock are over the reals, its Float instance is what "
        "runs against GainCalc.render (1e-12, equal zero pattern)",
    )
    assumptions = (
        "zone azimuth/elevation bounds are finite and of moderate size (|value| <= 1080 in the generators): "
        "inside_angle_range loops |end-start|/360 times and does not terminate once `x - 360.0 == x` (>= ~1e17)",
        "polar object distance <= 1e6: for distances above ~1e11 `min_dist + tol` rounds to `min_dist`, the candidate "
        "set is empty and ChannelLockHandlerBase.handle raises ValueError (reported separately, probed once per run)",
        "'within maxDistance' is, in the code, in the model and in every theorem, the strict comparison "
        "`unweighted distance < maxDistance + 1e-5` (LockCandidate); the search stays 1e-9 away from that threshold",
        "polar objects with channelLock AND zoneExclusion: the code locks among ALL loudspeakers and applies the zone "
        "downmix afterwards (order of the Recommendation); when the locked loudspeaker is excluded the result is its "
        "downmix row - recorded as known finding polar-lock-zone-downmix (classifier recomputed in the harness from "
        "the documented group keys), every other deviation is an unlisted hit",
        "'exactly one loudspeaker' is checked as: the locked loudspeaker carries the whole gain and every other "
        "gain is <= 1e-9 (the polar point-source panner returns ~1e-17 residues at a loudspeaker position; its "
        "exactness is C05's subject)",
        "screenRef no-op is checked with |difference| <= 1e-7 per gain (scale_position converts to polar and back)",
        "objects use only the features the property names: position, extent, divergence, zoneExclusion, channelLock, "
        "screenRef, gain, diffuse; no positionOffset, no screenEdgeLock",
        "in the block-sequence search a 'fresh instance' is a deep copy of a GainCalc that was constructed in the same "
        "process and has never rendered (construction costs ~0.3 s, a copy 1 ms); every third sequence runs on a newly "
        "constructed shared instance",
    )
    rule = (
        "correspondence: all 2^n exclusion masks per layout for n <= 12 (sampled above) for downmix_for_excluded and "
        "allocentric.get_excluded; generated zone lists (random boxes/ranges, boxes and ranges pinned to loudspeaker "
        "coordinates with offsets 0, +-1e-6 +- 1ulp, wrap-around azimuth ranges, poles); lock positions (random, on "
        "loudspeakers, midpoints/exact ties, maxDistance at the boundary +- ulps); screens (polar/Cartesian) x az/el "
        "incl. the table points; whole polar renders: extent / divergence / zones / lock objects with the per-position gains "
        "and divergence weights captured inside the real render (op rp) and point objects with lock and zones through "
        "renderPolarLock (op rpl); a locked polar point object AT every loudspeaker of every layout (lock without "
        "maxDistance) and near it (quick 1, thorough 6 per loudspeaker: perturbed direction/distance, maxDistance, zones) "
        "through renderPolarLock with polarPointPan, nothing captured (op rple, 1e-12), plus the property's predicate on "
        "those real gains (tag polar-lock-extent-wrapper). search: polar lock objects now also carry zone lists (45%; half of them a range "
        "around the nearest loudspeaker so that the locked loudspeaker is excluded), the deterministic witness of "
        "polar_lock_zone_two_speakers_witness is rendered on every run; rendered gains on all ten layouts, single blocks and sequences of 2..6 blocks "
        "on one shared GainCalc instance (equal zone lists recurring across polar/Cartesian blocks, alternating lock, "
        "the known finding's trigger first) each compared exactly with the same block on a fresh instance, see distribution; a case is one "
        "(layout, function, input) tuple; non-trivial = the input exercises the feature (non-empty zone list / lock set / "
        "screenRef set)"
    )

    # ---------------------------------------------------------------- extraction

    def _layouts(self):
        from ear.core import bs2051

        return [(name, bs2051.get_layout(name).without_lfe) for name in bs2051.layout_names]

    def extract(self, ctx):
        out = [
            "/- GENERATED by harness/c13.py from the real layout objects in /repo - do not edit. -/",
            "namespace Earverif.Gen.C13",
            "",
            "/-- A layout as the gain calculator sees it (no LFE). Floats are exact `(numerator, denominator)` pairs.",
            "`spk`: nominal x y z azimuth elevation; `azel`: real azimuth elevation; `allo`: allocentric x y z;",
            "`tree`: channel indices of `AllocentricPanner(positions_for_layout(layout)).st` (planes / rows / leaves);",
            "`norm`: `layout.norm_positions` x y z (the positions of `EgoChannelLockHandler`). -/",
            "structure Layout where",
            "  name : String",
            "  n : Nat",
            "  spk : List (List (Int × Nat))",
            "  groups : List (List (List Nat))",
            "  prio : List Nat",
            "  azel : List (List (Int × Nat))",
            "  allo : List (List (Int × Nat))",
            "  tree : List (List (List Nat))",
            "  norm : List (List (Int × Nat))",
            "",
        ]
        names = []
        self.tables = {}
        for name, lay in self._layouts():
            t = layout_tables(lay)
            self.tables[name] = t
            L = lean_name(name)
            names.append(L)
            for i in range(t["n"]):
                out.append("def %s_spk_%d : List (Int × Nat) := [%s]" % (L, i, ", ".join(rat_pair(v) for v in t["spk"][i])))
                out.append("def %s_groups_%d : List (List Nat) := [%s]"
                           % (L, i, ", ".join("[" + ", ".join(map(str, g)) + "]" for g in t["groups"][i])))
                out.append("def %s_azel_%d : List (Int × Nat) := [%s]" % (L, i, ", ".join(rat_pair(v) for v in t["azel"][i])))
                out.append("def %s_allo_%d : List (Int × Nat) := [%s]" % (L, i, ", ".join(rat_pair(v) for v in t["allo"][i])))
                out.append("def %s_norm_%d : List (Int × Nat) := [%s]" % (L, i, ", ".join(rat_pair(v) for v in t["norm"][i])))
            rng = range(t["n"])
            out.append("/-- %s: %s -/" % (name, " ".join(t["names"])))
            out.append("def %s : Layout where" % L)
            out.append('  name := "%s"' % name)
            out.append("  n := %d" % t["n"])
            out.append("  spk := [%s]" % ", ".join("%s_spk_%d" % (L, i) for i in rng))
            out.append("  groups := [%s]" % ", ".join("%s_groups_%d" % (L, i) for i in rng))
            out.append("  prio := [%s]" % ", ".join(map(str, t["prio"])))
            out.append("  azel := [%s]" % ", ".join("%s_azel_%d" % (L, i) for i in rng))
            out.append("  allo := [%s]" % ", ".join("%s_allo_%d" % (L, i) for i in rng))
            out.append("  tree := [%s]" % ", ".join(
                "[" + ", ".join("[" + ", ".join(map(str, row)) + "]" for row in pl) + "]" for pl in t["tree"]))
            out.append("  norm := [%s]" % ", ".join("%s_norm_%d" % (L, i) for i in rng))
            out.append("")
            ctx.count("extract:%s channels" % name, t["n"])
            ctx.count("extract:%s groups" % name, sum(len(g) for g in t["groups"]))
        out.append("def layouts : List Layout := [%s]" % ", ".join(names))
        out.append("")
        out.append("end Earverif.Gen.C13")
        write_if_changed(GEN + "/C13_Tables.lean", "\n".join(out) + "\n")
        # Props/C13 imports Props/C05 (per-region exactness, `tables_wellFormed`): regenerate C05's tables too so that
        # the reused `decide` obligation is about the code as it is now (also under EAR_REPO)
        # A failed regeneration is a BROKEN OBLIGATION of this check: the headline theorems of section 12
        # (`polar_lock_one_speaker_layouts*`, `norm_tables_match`, `pspHandle_exact_at_norm`) depend on Gen/C05_Tables,
        # Gen/C05_Cover and Gen/C05_Exact, and old-but-consistent generated files would otherwise let them report ok.
        from . import c05

        try:
            c05.SPEC.extract(ctx)
            ctx.obligation("extract:C05-tables", True,
                           "Gen/C05_Tables.lean, Gen/C05_Cover.lean, Gen/C05_Exact.lean regenerated from configure() by C05's extractor")
        except Exception as e:
            ctx.obligation("extract:C05-tables", False,
                           "C05's extractor raised %r: the C05 tables/certificates the section-12 theorems depend on were not "
                           "regenerated from the code as it is now" % (e,))

        # section 13 (`c01_tables_match`, `polar_lock_one_speaker_layouts_extent`) and the driver op `rple` read
        # Gen/C01_Tables.lean (LayoutTable.env): regenerate it with C01's own table writer (imported, not edited)
        try:
            import os
            from . import c01

            write_if_changed(os.path.join(GEN, "C01_Tables.lean"), c01.table_text())
            ctx.obligation("extract:C01-tables", True, "Gen/C01_Tables.lean regenerated by C01's table_text()")
        except Exception as e:
            ctx.obligation("extract:C01-tables", False,
                           "C01's table writer raised %r: Gen/C01_Tables.lean (environment of polarPointPan in section 13 "
                           "and in op rple) was not regenerated from the code as it is now" % (e,))

    # ---------------------------------------------------------------- correspondence

    def correspond(self, ctx):
        from ear.core import allocentric
        from ear.core.objectbased.gain_calc import (ZoneExclusionHandler, EgoChannelLockHandler,
                                                     AlloChannelLockHandler)

        drv = Driver("c13driver", "Earverif.Driver.C13")
        rng = ctx.rng
        self._state_hits = []
        if not getattr(self, "tables", None):
            self.tables = {name: layout_tables(lay) for name, lay in self._layouts()}
        lines, checks = [], []  # checks: callables(answer line)

        def ask(line, check):
            lines.append(line)
            checks.append(check)

        quick = ctx.quick
        for name, lay in self._layouts():
            t = self.tables[name]
            n = t["n"]
            zeh = ZoneExclusionHandler(lay)
            self._corr_get_excluded(ctx, ask, name, lay, t, zeh, 150 if quick else 1500)
            self._corr_downmix(ctx, ask, name, t, zeh, 1500 if quick else (1 << 13 if n <= 13 else 20000))
            self._corr_allo(ctx, ask, name, t, allocentric, 1500 if quick else (1 << 13 if n <= 13 else 20000))
            self._corr_lock(ctx, ask, name, lay, t, EgoChannelLockHandler, AlloChannelLockHandler,
                            120 if quick else 1500)
            self._corr_speaker_tree(ctx, ask, name, t, 600 if quick else (1 << 13 if n <= 13 else 8000))
            self._corr_render_cart(ctx, ask, name, t, allocentric, 60 if quick else 800)
            self._corr_render_polar(ctx, ask, name, t, 24 if quick else 400)
            self._corr_render_polar_extent(ctx, ask, name, t, 1 if quick else 6)
        self._corr_downmix_synthetic(ctx, ask, 300 if quick else 4000)
        self._corr_allo_synthetic(ctx, ask, allocentric, 300 if quick else 4000)
        self._corr_priority(ctx, ask, EgoChannelLockHandler, 40 if quick else 400)
        self._corr_screen(ctx, ask, 400 if quick else 6000)
        self._corr_speaker_tree_synthetic(ctx, ask, 200 if quick else 3000)
        self._corr_compensate(ctx, ask, 200 if quick else 3000)
        self._corr_float_laws(ctx, ask)
        answers = drv.run(lines)
        for a, c in zip(answers, checks):
            c(a)

    # --- get_excluded and handle

    def _corr_get_excluded(self, ctx, ask, name, lay, t, zeh, count):
        rng = ctx.rng
        spk_tok = " ".join(fb(v) for row in t["spk"] for v in row)
        gtok = groups_tokens(t["groups"])
        n = t["n"]
        for k in range(count):
            zones, kinds = S.gen_zone_list(rng, t)
            objs = S.zones_to_objects(zones)
            real = [bool(b) for b in zeh.get_excluded(objs)]
            ztok = []
            for z in zones:
                if z["t"] == "c":
                    ztok.append("c " + " ".join(fb(z[key]) for key in ("minX", "maxX", "minY", "maxY", "minZ", "maxZ")))
                else:
                    ztok.append("p " + " ".join(fb(z[key]) for key in ("minAzimuth", "maxAzimuth", "minElevation", "maxElevation")))
            line = "ge %d %d %s %d %s" % (FUEL, n, spk_tok, len(zones), " ".join(ztok))
            inp = {"layout": name, "zones": zones}

            def check(ans, real=real, inp=inp, kinds=kinds):
                mf, _, mr = ans.partition(" ")
                ctx.case(("ge", inp["layout"], repr(inp["zones"])), True,
                         sample={"fn": "get_excluded", "layout": inp["layout"], "zones": inp["zones"], "mask": mask_str(real)})
                for kd in kinds:
                    ctx.count("get_excluded zone kind:" + kd)
                ctx.count("get_excluded %s #excluded=%s" % (inp["layout"], S.bucket(sum(real), len(real))))
                if mf != mask_str(real):
                    ctx.disagree("get_excluded (Float model)", inp, mf, mask_str(real))
                else:
                    ctx.validated()
                ctx.count("get_excluded Rat model %s Float model" % ("==" if mr == mf else "!= (rounding edge)"))
                # independent zone-membership spec (exact rationals), where it is unambiguous
                S.check_mask_against_spec(ctx, inp["layout"], self.tables[inp["layout"]], inp["zones"], real)

            ask(line, check)
            # ZoneExclusionHandler.handle on the same zone list
            if k % 3 == 0:
                gains = [rng.choice([0.0, 1.0, rng.random(), rng.random() * 1e-3]) for _ in range(n)]
                realg = zeh.handle(np.array(gains), objs)
                line2 = "zh %d %s %s %s" % (n, mask_str(real), gtok, " ".join(fb(g) for g in gains))

                def check2(ans, realg=realg, real=real, inp=dict(inp, gains=gains)):
                    ctx.case(("zh", inp["layout"], repr(inp["zones"]), tuple(inp["gains"])), any(real))
                    if ans == "none":
                        ctx.disagree("ZoneExclusionHandler.handle", inp, ans, list(realg))
                        return
                    model = [unfb(x) for x in ans.split()]
                    ok = len(model) == len(realg) and all(
                        abs(a - b) <= 1e-12 * max(1.0, abs(b)) for a, b in zip(model, realg))
                    some_not_all = any(real) and not all(real)
                    if some_not_all:
                        # the zeros are compared exactly on both sides
                        ok = ok and all((a == 0.0) == (b == 0.0) for a, b in zip(model, realg))
                        ctx.count("handle: excluded entries checked for exact zero", sum(real))
                    if ok:
                        ctx.validated()
                    else:
                        ctx.disagree("ZoneExclusionHandler.handle", inp, model, list(realg))

                ask(line2, check2)

    # --- downmix_for_excluded

    def _masks(self, rng, n, limit):
        if (1 << n) <= limit:
            return [[bool((m >> i) & 1) for i in range(n)] for m in range(1 << n)], True
        ms = [[False] * n, [True] * n]
        ms += [[j != i for j in range(n)] for i in range(n)] + [[j == i for j in range(n)] for i in range(n)]
        while len(ms) < limit:
            p = rng.choice([0.1, 0.3, 0.5, 0.7, 0.9])
            ms.append([rng.random() < p for _ in range(n)])
        return ms, False

    def _dm_check(self, ctx, what, inp, ans, real):
        """real: matrix (ndarray) or 'none' (AssertionError)."""
        if isinstance(real, str) or ans == "none":
            ok = isinstance(real, str) and ans == real
        else:
            rows = ans.split(";")
            ok = len(rows) == real.shape[0]
            if ok:
                for r, rr in zip(rows, real):
                    ent = r.split()
                    if len(ent) != len(rr):
                        ok = False
                        break
                    for e, v in zip(ent, rr):
                        a, b = e.split("/")
                        if int(a) / int(b) != float(v):  # correctly rounded quotient == 1.0/len
                            ok = False
            if ok:
                m = inp["mask"]
                if "1" in m and "0" in m:
                    # the three facts the theorems state, observed on the real matrix
                    col0 = all(float(real[i, j]) == 0.0 for j, c in enumerate(m) if c == "1" for i in range(len(m)))
                    rows1 = bool(np.all(np.abs(real.sum(axis=1) - 1.0) < 1e-12)) and bool(np.all(real >= 0))
                    if not (col0 and rows1):
                        ctx.hit("downmix matrix: excluded column not zero / row sum not 1", inp,
                                {"matrix": real.tolist()}, [])
        if ok:
            ctx.validated()
        else:
            ctx.disagree(what, inp, ans[:300], real if isinstance(real, str) else real.tolist())

    def _corr_downmix(self, ctx, ask, name, t, zeh, limit):
        n = t["n"]
        masks, exhaustive = self._masks(ctx.rng, n, limit)
        ctx.count("downmix_for_excluded %s masks (%s)" % (name, "all 2^%d" % n if exhaustive else "sampled"), len(masks))
        gtok = groups_tokens(t["groups"])
        for m in masks:
            real = zeh.zed.downmix_for_excluded(np.array(m))
            ms = mask_str(m)
            inp = {"layout": name, "mask": ms}

            def check(ans, real=real, inp=inp):
                ctx.case(("dm", inp["layout"], inp["mask"]), "1" in inp["mask"] and "0" in inp["mask"],
                         sample={"fn": "downmix_for_excluded", "layout": inp["layout"], "mask": inp["mask"]})
                self._dm_check(ctx, "downmix_for_excluded", inp, ans, real)

            ask("dm %d %s %s" % (n, ms, gtok), check)

    def _corr_downmix_synthetic(self, ctx, ask, count):
        """Arbitrary group structures (also ones that do not cover every channel, or with repeated members):
        the real method on an object whose channel_groups are set by hand."""
        from ear.core.objectbased.zone import ZoneExclusionDownmix

        rng = ctx.rng
        for _ in range(count):
            n = rng.randint(1, 6)
            groups = []
            for i in range(n):
                gs = []
                for _g in range(rng.randint(0, 3)):
                    gs.append([rng.randrange(n) for _m in range(rng.randint(1, 3))])
                if rng.random() < 0.7:
                    rest = list(range(n))
                    rng.shuffle(rest)
                    gs.append(rest)
                groups.append(gs)
            zed = ZoneExclusionDownmix.__new__(ZoneExclusionDownmix)
            zed.num_channels = n
            zed.channel_groups = [[np.array(g, dtype=int) for g in gs] for gs in groups]
            m = [rng.random() < 0.5 for _ in range(n)]
            try:
                real = zed.downmix_for_excluded(np.array(m))
            except AssertionError:
                real = "none"
            inp = {"layout": "synthetic", "groups": groups, "mask": mask_str(m)}

            def check(ans, real=real, inp=inp):
                ctx.case(("dm-syn", repr(inp["groups"]), inp["mask"]), True)
                ctx.count("downmix_for_excluded synthetic groups: %s" % ("assert False" if isinstance(real, str) else "matrix"))
                # rows may legitimately not sum to one here (repeated members); only the correspondence is checked
                self._dm_check(ctx, "downmix_for_excluded (synthetic groups)", dict(inp, mask="x"), ans, real)

            ask("dm %d %s %s" % (n, mask_str(m), groups_tokens(groups)), check)

    # --- allocentric.get_excluded

    def _ax_line(self, pos, m):
        return "ax %d %s %s" % (len(pos), " ".join(fb(v) for row in pos for v in row), mask_str(m))

    def _ax_check(self, ctx, allocentric, label, pos, m):
        real = [bool(b) for b in allocentric.get_excluded(np.array(pos, dtype=float).reshape(len(pos), 3), np.array(m, dtype=bool))]
        inp = {"positions": label, "mask": mask_str(m)}
        if label == "synthetic":
            inp["pos"] = pos

        def check(ans):
            ext, _, fin = ans.partition(" ")
            ctx.case(("ax", label, repr(pos) if label == "synthetic" else "", inp["mask"]), any(m))
            reset = "1" in ext and "0" not in ext and any(m)
            ctx.count("allocentric.get_excluded %s: %s" % (
                label if label != "synthetic" else "synthetic",
                "reset (extension covers all)" if reset and not all(m) else
                "extended" if ext != inp["mask"] else "unchanged"))
            if fin != mask_str(real):
                ctx.disagree("allocentric.get_excluded", inp, fin, mask_str(real))
                return
            # the harness-side classifier (used to tag the known finding) must agree with the proved model
            mine = mask_str(S.row_extension(pos, m))
            if mine != ext:
                ctx.disagree("harness classifier row_extension vs model alloExtend", inp, ext, mine)
                return
            ctx.validated()

        return check

    def _corr_allo(self, ctx, ask, name, t, allocentric, limit):
        masks, exhaustive = self._masks(ctx.rng, t["n"], limit)
        ctx.count("allocentric.get_excluded %s masks (%s)" % (name, "all 2^%d" % t["n"] if exhaustive else "sampled"), len(masks))
        for m in masks:
            ask(self._ax_line(t["allo"], m), self._ax_check(ctx, allocentric, name, t["allo"], m))

    def _corr_allo_synthetic(self, ctx, ask, allocentric, count):
        rng = ctx.rng
        vals = [-1.0, -0.5, 0.0, 0.414214, 0.5, 1.0]
        for _ in range(count):
            n = rng.randint(1, 7)
            pos = [[rng.choice(vals), rng.choice(vals), rng.choice([-1.0, 0.0, 1.0])] for _i in range(n)]
            m = [rng.random() < 0.5 for _i in range(n)]
            ask(self._ax_line(pos, m), self._ax_check(ctx, allocentric, "synthetic", pos, m))

    # --- channel lock

    def _corr_priority(self, ctx, ask, Ego, count):
        from attr import evolve
        from ear.core.geom import PolarPosition

        rng = ctx.rng
        cases = [(name, lay) for name, lay in self._layouts()]
        for k in range(count):
            name, lay = cases[k % len(cases)]
            # perturbed real positions with many ties in |el|, el, |az|
            chans = []
            for c in lay.channels:
                az = rng.choice([0.0, 30.0, -30.0, 110.0, -110.0, 180.0, -180.0, c.polar_position.azimuth, rng.uniform(-180, 180)])
                el = rng.choice([0.0, 30.0, -30.0, c.polar_position.elevation, rng.uniform(-90, 90)])
                chans.append(evolve(c, polar_position=PolarPosition(az, el, 1.0)))
            cases.append((name + "~", evolve(lay, channels=chans)))
        for name, lay in cases:
            real = [int(p) for p in Ego(lay).channel_priority]
            azel = [(c.polar_position.azimuth, c.polar_position.elevation) for c in lay.channels]
            inp = {"layout": name, "azel": azel}

            def check(ans, real=real, inp=inp):
                ctx.case(("pr", repr(inp["azel"])), True)
                ctx.count("channel_priority: %s" % ("perturbed layout with ties" if inp["layout"].endswith("~") else "BS.2051 layout"))
                if ans.split() != [str(p) for p in real]:
                    ctx.disagree("channel_priority (lexsort)", inp, ans, real)
                else:
                    ctx.validated()

            ask("pr %d %s" % (len(azel), " ".join(fb(a) + " " + fb(e) for a, e in azel)), check)

    def _corr_lock(self, ctx, ask, name, lay, t, Ego, Allo, count):
        from ear.fileio.adm.elements import ChannelLock

        rng = ctx.rng
        n = t["n"]
        for kind, H in (("e", Ego(lay)), ("a", Allo(lay))):
            P = np.array(H.channel_positions, dtype=float)
            prio = [int(p) for p in H.channel_priority]
            for k in range(count):
                excl = [False] * n
                if rng.random() < 0.5:
                    excl = [rng.random() < rng.choice([0.2, 0.5, 0.8]) for _ in range(n)]
                    if all(excl) and rng.random() < 0.8:
                        excl[rng.randrange(n)] = False
                pos, pk = S.gen_lock_position(rng, P, kind)
                lock, lk = S.gen_lock(rng, P, pos, excl, kind)
                posa = np.array(pos, dtype=float)
                try:
                    out = H.handle(posa, None if lock == "off" else ChannelLock(maxDistance=lock), np.array(excl))
                    if out is posa:
                        real = "U"
                    else:
                        idx = [i for i in range(n) if not excl[i] and np.array_equal(P[i], out)]
                        real = "L %d" % idx[0] if len(idx) >= 1 else "?"
                        if len(idx) > 1:  # coincident loudspeakers cannot be told apart by position
                            real = "L " + "|".join(map(str, idx))
                except ValueError:
                    real = "E"
                rows = " ".join("%s %s %s %d %d" % (fb(P[i, 0]), fb(P[i, 1]), fb(P[i, 2]), prio[i], excl[i]) for i in range(n))
                ltok = "off" if lock == "off" else ("none" if lock is None else fb(lock))
                line = "lk %s %d %s %s %s %s %s" % (kind, n, rows, fb(pos[0]), fb(pos[1]), fb(pos[2]), ltok)
                inp = {"layout": name, "handler": "ego" if kind == "e" else "allo", "position": list(pos),
                       "maxDistance": lock, "excluded": mask_str(excl)}

                def check(ans, real=real, inp=inp, pk=pk, lk=lk):
                    ctx.case(("lk", repr(inp)), inp["maxDistance"] != "off",
                             sample={"fn": "ChannelLockHandler.handle", **inp, "result": real})
                    ctx.count("lock %s position:%s" % (inp["handler"], pk))
                    ctx.count("lock %s %s -> %s" % (inp["handler"], lk, {"U": "unchanged", "L": "locked", "E": "ValueError"}.get(real[0], real)))
                    ok = ans == real or (ans.startswith("L ") and real.startswith("L ") and ans[2:] in real[2:].split("|"))
                    if ok:
                        ctx.validated()
                    else:
                        ctx.disagree("ChannelLockHandler.handle", inp, ans, real)

                ask(line, check)

    # --- AllocentricPanner._speaker_tree on positions[~excluded]; whole Cartesian render with lock + zones

    @staticmethod
    def _tree_str(st):
        return "|".join(";".join(" ".join(str(int(leaf[0])) for leaf in row) for row in pl) for pl in st)

    def _st_ask(self, ctx, ask, label, pos, inp):
        from ear.core.point_source import AllocentricPanner

        try:
            real = self._tree_str(AllocentricPanner._speaker_tree(np.array(pos, dtype=float).reshape(len(pos), 3)))
        except AssertionError:
            real = "none"

        def check(ans):
            ctx.case(("st", label, repr(inp)), len(pos) > 1)
            ctx.count("_speaker_tree %s: %s" % (label if label == "synthetic" else "layout subsets",
                                                "assert (two speakers with same location)" if real == "none" else "tree"))
            if ans == real:
                ctx.validated()
            else:
                ctx.disagree("AllocentricPanner._speaker_tree", inp, ans, real)

        ask("st %d %s" % (len(pos), " ".join(fb(v) for row in pos for v in row)), check)

    def _corr_speaker_tree(self, ctx, ask, name, t, limit):
        masks, exhaustive = self._masks(ctx.rng, t["n"], limit)
        ctx.count("_speaker_tree %s subsets (%s)" % (name, "all 2^%d" % t["n"] if exhaustive else "sampled"), len(masks))
        for m in masks:
            pos = [t["allo"][i] for i in range(t["n"]) if not m[i]]
            self._st_ask(ctx, ask, name, pos, {"layout": name, "excluded": mask_str(m)})

    def _corr_speaker_tree_synthetic(self, ctx, ask, count):
        rng = ctx.rng
        vals = [-1.0, -0.5, 0.0, 0.414214, 0.5, 1.0]
        for _ in range(count):
            n = rng.randint(0, 8)
            pos = [[rng.choice(vals), rng.choice(vals), rng.choice([-1.0, 0.0, 1.0])] for _i in range(n)]
            self._st_ask(ctx, ask, "synthetic", pos, {"positions": pos})

    def _corr_render_cart(self, ctx, ask, name, t, allocentric, count):
        """Whole `GainCalc.render` for Cartesian point objects with channel lock and zone exclusion against the
        composed model `renderCartLock` (get_excluded -> row extension/reset -> lock on the final mask ->
        AllocentricPanner on the remaining loudspeakers -> scatter -> gain/diffuse split)."""
        rng = ctx.rng
        gc, lay, _t = S._gain_calc(name)
        n = t["n"]
        P = np.array(t["allo"], dtype=float)
        rows = " ".join(" ".join(fb(v) for v in t["spk"][i]) + " " + " ".join(fb(v) for v in t["allo"][i]) + " %d" % t["prio"][i]
                        for i in range(n))
        for _ in range(count):
            zones = []
            if rng.random() < 0.65:
                zones, _k = S.gen_zone_list(rng, t)
            zmask = [bool(b) for b in gc.zone_exclusion_handler.get_excluded(S.zones_to_objects(zones))]
            final = [bool(b) for b in allocentric.get_excluded(P, np.array(zmask, dtype=bool))]
            pos, pk = S.gen_lock_position(rng, P, "a")
            pos = [min(1.0, max(-1.0, v)) for v in pos]
            lock, lk = S.gen_lock(rng, P, pos, final, "a")
            gain = rng.choice([1.0, rng.uniform(0.1, 2.0)])
            diffuse = rng.choice([0.0, 0.0, rng.random()])
            o = dict(layout=name, cartesian=True, position=dict(X=pos[0], Y=pos[1], Z=pos[2]), zones=zones,
                     gain=gain, diffuse=diffuse, lock=lock)
            try:
                d, f, _ok = S._render(gc, lay, o)
                real = (mask_str(final), [float(x) for x in d], [float(x) for x in f])
            except ValueError as e:
                real = "none"
            if zones:
                # the renderer's own handler, asked again with an equal zone list after the Cartesian render (whose
                # row extension / reset works on a copy of the mask): get_excluded is a function of the zone list
                again = [bool(b) for b in gc.zone_exclusion_handler.get_excluded(S.zones_to_objects(zones))]
                ctx.count("get_excluded re-queried on the renderer's handler after a Cartesian render")
                if again != zmask:
                    # reported after the rendered block sequences of the search (which show the audible consequence)
                    self._state_hits.append((
                        "get_excluded returns a different mask for an equal zone list after a Cartesian render "
                        "(state kept between blocks)", {"layout": name, "sequence": [o, {"get_excluded": zones}]},
                        {"before": mask_str(zmask), "after": mask_str(again)}, []))
            ztok = []
            for z in zones:
                if z["t"] == "c":
                    ztok.append("c " + " ".join(fb(z[key]) for key in ("minX", "maxX", "minY", "maxY", "minZ", "maxZ")))
                else:
                    ztok.append("p " + " ".join(fb(z[key]) for key in ("minAzimuth", "maxAzimuth", "minElevation", "maxElevation")))
            ltok = "off" if lock == "off" else ("none" if lock is None else fb(lock))
            line = "rc %d %d %s %d %s %s %s %s %s %s %s" % (FUEL, n, rows, len(zones), " ".join(ztok), fb(pos[0]), fb(pos[1]),
                                                            fb(pos[2]), ltok, fb(gain), fb(diffuse))

            def check(ans, real=real, o=o, pk=pk, lk=lk, zmask=zmask, final=final):
                ctx.case(("rc", repr(o)), lock != "off",
                         sample={"fn": "GainCalc.render vs renderCartLock", "object": o, "final_mask": mask_str(final)})
                kind = "no zones" if not any(zmask) else ("reset (extension covers all)" if not any(final) else
                                                           ("row-extended" if final != zmask else "zone mask kept"))
                if ans == "none" or real == "none":
                    ok = ans == real
                    res = "error"
                else:
                    w = ans.split()
                    res = {"U": "unchanged", "L": "locked", "E": "error"}[w[1][0]]
                    md, mf = [unfb(x) for x in w[2:2 + n]], [unfb(x) for x in w[2 + n:2 + 2 * n]]
                    ok = w[0] == real[0] and len(md) == n and len(mf) == n and all(
                        abs(a - b) <= 1e-12 and (a == 0.0) == (b == 0.0)
                        for a, b in zip(md + mf, real[1] + real[2]))
                    if ok and w[1][0] == "L":
                        # the composed model's theorem, observed on the real gains: the locked loudspeaker is not in
                        # the final mask and carries the whole gain
                        i = int(w[1][1:])
                        total = math.sqrt(real[1][i] ** 2 + real[2][i] ** 2)
                        if final[i] or abs(total - o["gain"]) > 1e-9:
                            ctx.hit("Cartesian channelLock: locked loudspeaker excluded or not carrying the gain", o,
                                    {"locked": t["names"][i], "final_mask": mask_str(final), "direct": real[1], "diffuse": real[2]}, [])
                ctx.count("render cart+lock zones:%s -> %s" % (kind, res))
                ctx.count("render cart+lock %s" % o["layout"])
                if ok:
                    ctx.validated()
                else:
                    ctx.disagree("GainCalc.render (Cartesian, lock, zones) vs renderCartLock", o, ans[:400], real)

            ask(line, check)

    def _corr_render_polar(self, ctx, ask, name, t, count):
        """Whole `GainCalc.render` for POLAR objects against the model of the polar tail.

        `rp`  (every object kind: extent, divergence, zones, lock): the per-position gains and the divergence weights
              are captured from inside the real `render` call (the extent panner and `diverge` are wrapped while it
              runs), and `renderPolar` on them - power sum, zone downmix, nan_to_num, gain, split - must reproduce the
              rendered direct/diffuse gains; the zone mask comes from the model's own `getExcluded` via `rpl` below or
              from the real `get_excluded` (itself tied by `ge`).
        `rpl` (point objects with channel lock, with and without zones): `renderPolarLock` - lock on ALL loudspeakers
              -> pan -> zone downmix - computes mask, lock outcome and gains itself; its panner parameter is closed
              with the (position, gains) pairs captured from the real call, so a model that locked to another
              loudspeaker than the code finds no entry and answers `none`."""
        import sys

        rng = ctx.rng
        gc, lay, _t = S._gain_calc(name)
        gcmod = sys.modules[type(gc).__module__]
        n = t["n"]
        gtok = groups_tokens(t["groups"])
        rows = " ".join(" ".join(fb(v) for v in t["spk"][i]) + " " + " ".join(fb(v) for v in t["norm"][i]) + " %d" % t["prio"][i]
                        for i in range(n))
        for k in range(count):
            point = k % 2 == 0
            zones = []
            if rng.random() < 0.7:
                zones, _k = S.gen_zone_list(rng, t)
            near = rng.randrange(n) if rng.random() < 0.5 else None
            o = dict(layout=name, cartesian=False, position=S.gen_position(rng, t, False, near), zones=zones,
                     gain=rng.choice([1.0, rng.uniform(0.1, 2.0)]), diffuse=rng.choice([0.0, 0.0, rng.random()]))
            feat = "point"
            if point:
                P = np.array(t["norm"], dtype=float)
                from ear.core.geom import cart as to_cart

                p = to_cart(o["position"]["azimuth"], o["position"]["elevation"], o["position"]["distance"])
                lock, _lk = S.gen_lock(rng, P, list(p), [False] * n, "e")
                o["lock"] = lock
            else:
                feat = S.gen_extent_div(rng, False, o)
                if rng.random() < 0.3:
                    o["lock"] = rng.choice([None, rng.uniform(0, 1.5)])
            # capture what render hands to / gets from the extent panner and diverge
            calls, dgs = [], []
            real_handle = gc.polar_extent_panner.handle
            real_diverge = gcmod.diverge

            def rec_handle(position, width, height, depth, _h=real_handle):
                out = _h(position, width, height, depth)
                calls.append(([float(v) for v in position], [float(v) for v in out]))
                return out

            def rec_diverge(*a, _d=real_diverge, **kw):
                g, ps = _d(*a, **kw)
                dgs.append([float(v) for v in g])
                return g, ps

            gc.polar_extent_panner.handle = rec_handle
            gcmod.diverge = rec_diverge
            try:
                try:
                    d, f, _ok = S._render(gc, lay, o)
                    real = ([float(x) for x in d], [float(x) for x in f])
                except ValueError:
                    real = "none"
            finally:
                del gc.polar_extent_panner.handle
                gcmod.diverge = real_diverge
            zmask = [bool(b) for b in gc.zone_exclusion_handler.get_excluded(S.zones_to_objects(zones))]
            kind = "no zones" if not zones else ("none excluded" if not any(zmask) else
                                                 "all excluded" if all(zmask) else "some excluded")

            def compare(ans_d, ans_f, real=real):
                return len(ans_d) == n and len(ans_f) == n and all(
                    abs(a - b) <= 1e-12 and (a == 0.0) == (b == 0.0) for a, b in zip(ans_d + ans_f, real[0] + real[1]))

            if real != "none" and len(dgs) == 1 and len(calls) == len(dgs[0]):
                # np.apply_along_axis evaluates the first row once more to find the output shape on some numpy
                # versions; only the last len(dg) calls are the rows of gains_for_each_pos
                pans = [c[1] for c in calls[-len(dgs[0]):]]
                line = "rp %d %s %s %d %s %s %s %s" % (
                    n, mask_str(zmask), gtok, len(pans), " ".join(fb(v) for row in pans for v in row),
                    " ".join(fb(v) for v in dgs[0]), fb(o["gain"]), fb(o["diffuse"]))

                def check(ans, real=real, o=o, feat=feat, kind=kind, zmask=zmask, compare=compare):
                    ctx.case(("rp", repr(o)), True,
                             sample={"fn": "GainCalc.render (polar) vs renderPolar on captured pans", "object": o,
                                     "zone_mask": mask_str(zmask)})
                    ctx.count("render polar tail object:%s zones:%s" % (feat + ("+channelLock" if "lock" in o else ""), kind))
                    ok = False
                    if ans != "none":
                        w = [unfb(x) for x in ans.split()]
                        ok = compare(w[:n], w[n:])
                    if ok:
                        ctx.validated()
                        if any(zmask) and not all(zmask):
                            ctx.count("render polar tail: excluded entries compared for exact zero", sum(zmask))
                    else:
                        ctx.disagree("GainCalc.render (polar) vs renderPolar on the captured per-position gains", o, ans[:400], real)

                ask(line, check)
            else:
                ctx.count("render polar tail: capture unusable (%s)" % ("render raised" if real == "none" else "call count"))
            if point:
                # panner table: exactly what the real render asked the panner
                table = calls[-1:] if calls else []
                ztok = []
                for z in zones:
                    if z["t"] == "c":
                        ztok.append("c " + " ".join(fb(z[key]) for key in ("minX", "maxX", "minY", "maxY", "minZ", "maxZ")))
                    else:
                        ztok.append("p " + " ".join(fb(z[key]) for key in ("minAzimuth", "maxAzimuth", "minElevation", "maxElevation")))
                lock = o["lock"]
                ltok = "off" if lock == "off" else ("none" if lock is None else fb(lock))
                line = "rpl %d %d %s %s %d %s %s %s %s %s %s %s %d %s" % (
                    FUEL, n, rows, gtok, len(zones), " ".join(ztok), fb(p[0]), fb(p[1]), fb(p[2]), ltok, fb(o["gain"]),
                    fb(o["diffuse"]), len(table),
                    " ".join(" ".join(fb(v) for v in pos) + " " + " ".join(fb(v) for v in g) for pos, g in table))

                def check2(ans, real=real, o=o, kind=kind, zmask=zmask, compare=compare, table=table):
                    ctx.case(("rpl", repr(o)), o["lock"] != "off",
                             sample={"fn": "GainCalc.render (polar, lock, zones) vs renderPolarLock", "object": o,
                                     "zone_mask": mask_str(zmask)})
                    if ans == "none" or real == "none":
                        ok = ans == real
                        res = "error"
                    else:
                        w = ans.split()
                        res = {"U": "unchanged", "L": "locked", "E": "error"}[w[1][0]]
                        ok = w[0] == mask_str(zmask) and compare([unfb(x) for x in w[2:2 + n]], [unfb(x) for x in w[2 + n:2 + 2 * n]])
                        if ok and w[1][0] == "L":
                            # the model locked to loudspeaker i: the position the real render handed to the panner is
                            # that loudspeaker's norm_position
                            i = int(w[1][1:])
                            ok = bool(table) and table[0][0] == [float(v) for v in t["norm"][i]]
                            if ok and zmask[i] and any(zmask) and not all(zmask):
                                ctx.count("render polar+lock: locked loudspeaker is excluded (downmix row applied)")
                    ctx.count("render polar+lock zones:%s -> %s" % (kind, res))
                    if ok:
                        ctx.validated()
                    else:
                        ctx.disagree("GainCalc.render (polar, lock, zones) vs renderPolarLock", o, ans[:400], real)

                ask(line, check2)

    def _corr_render_polar_extent(self, ctx, ask, name, t, extra):
        """`rple`: the composed `renderPolarLock` with `pan := GainCalc.polarPointPan (T.env fuel) l` (NOTHING captured:
        PolarExtentHandler.handle(., 0, 0, 0) around the C05 point-source panner walked over its regenerated table) against
        the real `GainCalc.render` for a locked polar point object AT every loudspeaker of the layout (lock without
        maxDistance, no zones: the subject of `polar_lock_one_speaker_layouts_extent`) and `extra` more per loudspeaker
        NEAR it (perturbed direction / distance, random maxDistance, zone lists).  1e-12 per gain.  The direct predicate
        of the property at the loudspeaker itself is evaluated on the real gains too: the locked loudspeaker carries
        `gain` (1e-12) and every other gain is <= 1e-9 (the point-source panner's ~1e-17 residues), and what the real
        `extent_mod(0, |norm_positions[k]|)` returns is recorded (0.0 exactly on all 96 loudspeakers: in binary64 the
        wrapper is the identity there, whereas over R the theorem carries the factor s)."""
        from ear.core.geom import cart as to_cart

        rng = ctx.rng
        gc, lay, _t = S._gain_calc(name)
        n = t["n"]
        gtok = groups_tokens(t["groups"])
        rows = " ".join(" ".join(fb(v) for v in t["spk"][i]) + " " + " ".join(fb(v) for v in t["norm"][i]) + " %d" % t["prio"][i]
                        for i in range(n))
        P = np.array(t["norm"], dtype=float)
        for k in range(n):
            for j in range(1 + extra):
                at = j == 0
                zones = []
                if at:
                    pos = dict(azimuth=float(t["azel"][k][0]), elevation=float(t["azel"][k][1]), distance=1.0)
                    lock = None
                    gain, diffuse = rng.choice([1.0, rng.uniform(0.1, 2.0)]), rng.choice([0.0, rng.random()])
                else:
                    az = (float(t["azel"][k][0]) + rng.choice([0.0, rng.uniform(-8, 8)]) + 180.0) % 360.0 - 180.0
                    el = min(90.0, max(-90.0, float(t["azel"][k][1]) + rng.choice([0.0, rng.uniform(-8, 8)])))
                    pos = dict(azimuth=az, elevation=el, distance=rng.choice([1.0, rng.uniform(0.7, 1.6)]))
                    gain, diffuse = rng.uniform(0.1, 2.0), rng.choice([0.0, rng.random()])
                    if rng.random() < 0.4:
                        zones, _k = S.gen_zone_list(rng, t)
                p = to_cart(pos["azimuth"], pos["elevation"], pos["distance"])
                if not at:
                    lock = rng.choice([None, None, rng.uniform(0.05, 1.0)])
                o = dict(layout=name, cartesian=False, position=pos, zones=zones, gain=gain, diffuse=diffuse, lock=lock)
                calls = []
                real_handle = gc.polar_extent_panner.handle

                def rec_handle(position, width, height, depth, _h=real_handle, calls=calls):
                    out = _h(position, width, height, depth)
                    calls.append([float(v) for v in position])
                    return out

                gc.polar_extent_panner.handle = rec_handle
                try:
                    try:
                        d, f, _ok = S._render(gc, lay, o)
                        real = ([float(x) for x in d], [float(x) for x in f])
                    except ValueError:
                        real = "none"
                finally:
                    del gc.polar_extent_panner.handle
                zmask = [bool(b) for b in gc.zone_exclusion_handler.get_excluded(S.zones_to_objects(zones))]
                ztok = []
                for z in zones:
                    if z["t"] == "c":
                        ztok.append("c " + " ".join(fb(z[key]) for key in ("minX", "maxX", "minY", "maxY", "minZ", "maxZ")))
                    else:
                        ztok.append("p " + " ".join(fb(z[key]) for key in ("minAzimuth", "maxAzimuth", "minElevation", "maxElevation")))
                ltok = "none" if lock is None else fb(lock)
                line = "rple %s %d %d %s %s %d %s %s %s %s %s %s %s" % (
                    name, FUEL, n, rows, gtok, len(zones), " ".join(ztok), fb(p[0]), fb(p[1]), fb(p[2]), ltok, fb(gain),
                    fb(diffuse))
                line = " ".join(line.split())
                if at and real != "none":
                    # the property itself on the real gains, and what the wrapper saw
                    dist = float(np.linalg.norm(P[k]))
                    em = float(gc.polar_extent_panner.extent_mod(0.0, dist)) if hasattr(gc.polar_extent_panner, "extent_mod") else None
                    ctx.count("polar extent wrapper at a loudspeaker: float |norm_positions[k]| %s 1.0, extent_mod(0, .) %s 0.0"
                              % ("==" if dist == 1.0 else "!=", "==" if em == 0.0 else "!="))
                    sq = sum(_frac(v) ** 2 for v in P[k])
                    ctx.count("polar extent wrapper at a loudspeaker: exact |norm_positions[k]|^2 %s 1"
                              % ("<" if sq < 1 else (">" if sq > 1 else "==")))
                    want_d, want_f = gain * math.sqrt(1.0 - diffuse), gain * math.sqrt(diffuse)
                    bad = [i for i in range(n)
                           if abs(real[0][i] - (want_d if i == k else 0.0)) > (1e-12 if i == k else 1e-9)
                           or abs(real[1][i] - (want_f if i == k else 0.0)) > (1e-12 if i == k else 1e-9)]
                    if bad or calls[-1:] != [[float(v) for v in P[k]]]:
                        ctx.hit("polar channelLock at a loudspeaker position is not rendered by exactly that loudspeaker "
                                "(through PolarExtentHandler.handle with zero extent)", o,
                                {"loudspeaker": k, "direct": real[0], "diffuse": real[1], "pan called at": calls[-1:]},
                                tags=("polar-lock-extent-wrapper",))

                def check(ans, real=real, o=o, zmask=zmask, calls=calls, at=at, k=k):
                    ctx.case(("rple", repr(o)), True,
                             sample={"fn": "GainCalc.render (polar, lock) vs renderPolarLock with polarPointPan (nothing captured)",
                                     "object": o, "loudspeaker": k})
                    if ans == "none" or real == "none":
                        # the model answers none outside the point-only class (ammount_spread > 1e-10: distance < 1 when
                        # the lock does not engage): not a statement about the code
                        if ans == "none" and real != "none" and not at:
                            ctx.count("render polar+lock, polarPointPan: outside the point-only class (unlocked, distance < 1)")
                            return
                        ok, res = ans == real, "error"
                    else:
                        w = ans.split()
                        res = {"U": "unchanged", "L": "locked", "E": "error"}[w[1][0]]
                        dd = [unfb(x) for x in w[2:2 + n]]
                        ff = [unfb(x) for x in w[2 + n:2 + 2 * n]]
                        ok = w[0] == mask_str(zmask) and len(dd) == n and len(ff) == n and all(
                            abs(a - b) <= 1e-12 for a, b in zip(dd + ff, real[0] + real[1]))
                        if ok and w[1][0] == "L":
                            i = int(w[1][1:])
                            ok = calls[-1:] == [[float(v) for v in t["norm"][i]]] and (not at or i == k)
                        if ok and at:
                            ok = w[1][0] == "L"
                    ctx.count("render polar+lock, polarPointPan (%s) -> %s" % ("at the loudspeaker" if at else "near", res))
                    if ok:
                        ctx.validated()
                    else:
                        ctx.disagree("GainCalc.render (polar, lock) vs renderPolarLock with polarPointPan", o, ans[:400], real)

                ask(line, check)

    def _corr_compensate(self, ctx, ask, count):
        from ear.core.screen_common import compensate_position
        from ear.core import bs2051

        rng = ctx.rng
        lays = {True: bs2051.get_layout("4+7+0").without_lfe, False: bs2051.get_layout("4+5+0").without_lfe}
        assert "U+045" in lays[True].channel_names and "U+045" not in lays[False].channel_names
        for _ in range(count):
            has = rng.random() < 0.8
            az = rng.choice([rng.uniform(-180, 180), S.nudge(rng, rng.choice([-180.0, -30.0, 30.0, 180.0, 0.0, 20.0, -20.0]))])
            el = rng.choice([rng.uniform(-90, 90), S.nudge(rng, rng.choice([0.0, 30.0, 90.0, -90.0]))])
            az = min(180.0, max(-180.0, az))
            el = min(90.0, max(-90.0, el))
            real = compensate_position(az, el, lays[has])

            def check(ans, real=real, inp={"U+045": has, "az": az, "el": el}):
                ctx.case(("cp", repr(inp)), inp["U+045"])
                ctx.count("compensate_position: layout %s U+045" % ("with" if inp["U+045"] else "without"))
                a, e = (unfb(x) for x in ans.split())
                if a == float(real[0]) and e == float(real[1]):
                    ctx.validated()
                else:
                    ctx.disagree("compensate_position", inp, [a, e], [float(real[0]), float(real[1])])

            ask("cp %d %s %s" % (1 if has else 0, fb(az), fb(el)), check)

    # --- screen scaling

    def _corr_screen(self, ctx, ask, count):
        from ear.core.screen_scale import PolarScreenScaler
        from ear.core.screen_common import PolarEdges

        rng = ctx.rng
        screens = [S.gen_screen(rng) for _ in range(max(6, count // 40))]
        screens = [s for s in screens if s is not None]
        screens.insert(0, S.screen_spec_default())
        for k in range(count):
            ref = rng.choice(screens)
            rep = ref if rng.random() < 0.35 else rng.choice(screens)
            sc = PolarScreenScaler(S.screen_object(ref), S.screen_object(rep))
            r, p = sc.ref_screen_edges, sc.rep_screen_edges
            pts_az = [-180.0, 180.0, r.right_azimuth, r.left_azimuth]
            pts_el = [-90.0, 90.0, r.bottom_elevation, r.top_elevation]
            az = rng.choice([rng.uniform(-180, 180), S.nudge(rng, rng.choice(pts_az))])
            el = rng.choice([rng.uniform(-90, 90), S.nudge(rng, rng.choice(pts_el))])
            az = min(180.0, max(-180.0, az))
            el = min(90.0, max(-90.0, el))
            real = sc.scale_az_el(az, el)
            inp = {"ref": ref, "rep": rep, "az": az, "el": el}
            if k % 4 == 0:
                # scale_position is modelled as cart(*scale_az_el(azimuth(p), elevation(p)), |p|) with the conversions
                # as parameters (`scalePosition`): the real method must be exactly that composition of the real
                # conversions and the real scale_az_el
                from ear.core.geom import azimuth, elevation, cart as to_cart

                pv = to_cart(az, el, rng.choice([1.0, rng.uniform(0.1, 2.0)]))
                comp = to_cart(*sc.scale_az_el(azimuth(pv), elevation(pv)), np.linalg.norm(pv))
                got = sc.scale_position(pv)
                ctx.case(("sp", repr(inp)), True)
                ctx.count("scale_position == cart(scale_az_el(azimuth, elevation), norm) (structure of scalePosition)")
                if np.array_equal(np.asarray(got), np.asarray(comp)):
                    ctx.validated()
                else:
                    ctx.disagree("scale_position vs cart o scale_az_el o (azimuth, elevation, norm)", inp,
                                 [float(v) for v in comp], [float(v) for v in got])
            line = "sc " + " ".join(fb(v) for v in (
                r.left_azimuth, r.right_azimuth, r.bottom_elevation, r.top_elevation,
                p.left_azimuth, p.right_azimuth, p.bottom_elevation, p.top_elevation, az, el))

            def check(ans, real=real, inp=inp, same=(ref is rep)):
                ctx.case(("sc", repr(inp)), True, sample={"fn": "scale_az_el", **inp, "out": [float(real[0]), float(real[1])]})
                ctx.count("scale_az_el: %s" % ("reference == reproduction screen" if same else "different screens"))
                if ans == "unsorted":
                    ctx.disagree("scale_az_el", inp, ans, [float(real[0]), float(real[1])])
                    return
                a, e = (unfb(x) for x in ans.split())
                # same formula, same IEEE operations: compared to the last bit, signed zeros alike
                if a == float(real[0]) and e == float(real[1]):
                    ctx.validated()
                else:
                    ctx.disagree("scale_az_el", inp, [a, e], [float(real[0]), float(real[1])])
                if same and (abs(float(real[0]) - inp["az"]) > 1e-9 or abs(float(real[1]) - inp["el"]) > 1e-9):
                    ctx.hit("scale_az_el is not the identity for equal screens", inp,
                            {"out": [float(real[0]), float(real[1])]}, [])

            ask(line, check)

    def _corr_float_laws(self, ctx, ask):
        rng = ctx.rng
        xs = [0.0, -0.0, 1.0, -1.0, 5e-324, -5e-324, 1.7976931348623157e308, -1.7976931348623157e308, 1e-6, 0.5 ** 0.5]
        xs += [rng.uniform(-10, 10) for _ in range(20)] + [math.ldexp(rng.random(), rng.randint(-1000, 1000)) for _ in range(20)]
        for x in xs:
            def check(ans, x=x):
                vals = [unfb(v) for v in ans.split()]
                npv = [float(np.float64(x) * np.float64(0.0)), float(np.float64(0.0) * np.float64(x)), 0.0 + 0.0,
                       float(np.sqrt(np.float64(0.0))), float(np.nan_to_num(np.float64(0.0)))]
                ctx.case(("fl", x), True)
                ctx.count("zero laws sampled on doubles")
                if all(v == 0.0 for v in vals) and all(v == 0.0 for v in npv):
                    ctx.validated()
                else:
                    ctx.disagree("IEEE zero laws (x*0, 0*x, 0+0, sqrt 0, nan_to_num 0)", x, vals, npv)

            ask("fl " + fb(x), check)

    # ---------------------------------------------------------------- search

    def search(self, ctx, deep):
        S.run_search(ctx, deep)
        for h in getattr(self, "_state_hits", [])[:5]:
            ctx.hit(*h)


SPEC = C13()

REGISTRY = dict(
    text="PARTIAL: zones: full on the polar path; Cartesian: exactly characterised plus the recorded counter-example. "
    "Lean theorems over the transliterated models prove, for every mask, gain vector and every priority-group structure "
    "whose groups cover all channels (kernel-checked for the ten regenerated layouts: tables_groups_ok): downmix rows "
    "sum to 1, entries >= 0, excluded columns are zero (downmix_rows_sum_one, downmix_nonneg, "
    "downmix_excluded_col_zero, downmix_defined), hence direct and diffuse gains of excluded loudspeakers are exactly "
    "0 on the polar path for every extent/divergence output (polar_excluded_gain_zero; renderPolar is run against the "
    "real render on captured pans and divergence weights, op rp) and on the Cartesian path for the final mask "
    "(cart_excluded_gain_zero_on_final_mask, composed: cart_lock_excluded_gain_zero - zero whenever the row extension "
    "does not cover everything); cart_reset_characterised proves that a zone-excluded loudspeaker is missing from the "
    "final Cartesian mask exactly when the row extension covers every loudspeaker; cart_zone_not_silent_witness and "
    "cart_zone_not_silent_gain_witness exhibit it on 0+7+0 with the whole gain on a zone-excluded loudspeaker (known "
    "finding cartesian-zone-extend-reset). get_excluded: getExcluded_spec (mask[i] <=> some zone's test matches "
    "loudspeaker i), zoneMatch_cart_spec (box widened by 1e-6, strict), whileLoop_spec, insideAngleRange_spec (exact "
    "arithmetic: true iff some representative x+360k lies in [start-tol, end'+tol], end' = end moved by whole turns "
    "into [start, start+360]: wrap-around ranges, ranges past +-180, angles a turn off), zoneMatch_polar_spec (elevation "
    "window and [pole or azimuth in range]); over the doubles these tests are executed and compared (Float model bit "
    "for bit, plus an independent exact-rational membership spec in the harness). Channel lock, attached to what renders: lockHandle_spec / "
    "lockHandle_nearest (over R, by loudspeaker index: the locked loudspeaker is a candidate - not excluded, unweighted "
    "distance < maxDistance + 1e-5 - within 1e-5 of the minimal weighted distance and of best priority among those "
    "within 1e-5 of the minimum: NearestByRule; nearestByRule_unique: determined, priorities are pairwise different - "
    "tables_lock_ok), lockHandle_unchanged_iff, lockHandle_never_error, lockHandle_no_limit_locks, lock_at_speaker(_table) "
    "(an object at a loudspeaker locks to it: loudspeakers are >= 1e-5 apart in both distance measures on all ten "
    "layouts). Cartesian path composed (renderCartLock: get_excluded -> row extension/reset -> lock on the final mask "
    "-> _speaker_tree/AllocentricPanner on positions[~excluded] -> scatter -> gain split): cart_lock_one_speaker with no "
    "panner hypothesis (gains = unit vector of the loudspeaker NearestByRule selects among the loudspeakers left), "
    "cart_lock_limit (with maxDistance: that, or exactly the unlocked render), "
    "cart_lock_unchanged_renders_as_unlocked, cart_lock_defined (never vacuous: the final mask never excludes "
    "everything). Polar path in the real order (renderPolarLock: lock among ALL loudspeakers -> pan -> zone downmix): "
    "polar_lock_with_zones_characterised (gains = sqrt of the downmix row of the locked loudspeaker: non-negative, "
    "power preserved - polar_lock_power -, zero on every excluded loudspeaker, = e_k when k is not excluded), "
    "polar_lock_one_speaker, polar_lock_limit, polar_lock_unchanged_renders_as_unlocked, polar_lock_defined; the property's 'exactly one "
    "loudspeaker' is FALSE on the polar path when the locked loudspeaker is excluded: "
    "polar_lock_zone_two_speakers_witness (0+5+0, known finding polar-lock-zone-downmix). Remaining hypothesis of the "
    "polar theorems: the panner returns e_k at loudspeaker k; polar_lock_one_speaker_partial / "
    "polar_lock_one_speaker_quad_partial discharge it from C05's triplet_exact_at_vertex / quad_corner when the first "
    "accepting region has the loudspeaker as a vertex (every loudspeaker is a vertex of some region: "
    "polar_tables_every_speaker_is_vertex); polar_lock_one_speaker_layouts_partial states the same with the "
    "concrete C01/C05 panner pspHandle plugged in under the single hypothesis pspHandle(position of loudspeaker k) = e_k; "
    "polar_lock_one_speaker_layouts has NO panner hypothesis on the ten regenerated layouts: C05 now proves that fact "
    "(Earverif.PointSource.pspHandle_exact_at_speaker_layouts: every region tried before the first one containing k "
    "rejects k's position, that region answers e_k, the virtual-loudspeaker downmix / stereo wrapper keep it; exact "
    "arithmetic on a certificate regenerated from configure() on every run), and the table obligation "
    "norm_tables_match (decide +kernel) says that layout.norm_positions[k] of the C13 table is the position of channel k "
    "in the C05 region table (pspHandle_exact_at_norm); polar_lock_one_speaker_layouts_tables states it with the layout's own "
    "regenerated priority list and groups (L.prio, L.groups: no hypothesis about prio/groups left, prio.length = n stated, "
    "0 <= diffuse <= 1 assumed). These three instantiate `pan` with the BARE point-source panner GainCalc.pspHandle; "
    "polar_lock_one_speaker_layouts_extent states the same for the REAL pan, extent_pan(position, 0, 0, 0) = "
    "PolarExtentHandler.handle around that panner (GainCalc.polarPointPan (T.env fuel) l, T = the C01 table of the same "
    "layout: c01_tables_match): direct/diffuse gains = e_k * (s * gain) * split, exact zeros on every other loudspeaker, "
    "NearestByRule, with s = sqrt(1 - ammount_spread) of norm_positions[k], 0 <= s <= 1, 1 - 1e-10 <= s^2, and s = 1 "
    "whenever the exact length of norm_positions[k] is >= 1. s is needed because the binary64 unit vectors are not of unit "
    "length exactly (27 of the 96 loudspeakers have exact squared length 1 - 2e-17 .. 1 - 5.3e-17): over R extent_mod(0, d) "
    "> 0 for d < 1, calc_pv_spread returns sqrt(1 - ammount_spread) * e_k. Proof: extentMod_zero_near / inPointClass_of_near "
    "(distance >= 1 - 1e-12 => 0 <= extent_mod(0, d) <= 1e-9 => ammount_spread <= 1e-10, by Jordan's inequality on arg(d + 0.2i) "
    "- arg(1 + 0.2i)), table obligation tables_norm_near_unit (decide +kernel: every |norm_positions[k]|^2 >= 1 - 1e-12), "
    "inPointClass_at_norm, polarPointPan_at_unit, renderPolar_scale (the polar tail is homogeneous: panner answer scaled by "
    "s >= 0 = block gain scaled by s). In binary64 the real code computes |norm_positions[k]| == 1.0 and extent_mod == 0.0 "
    "exactly on all 96 loudspeakers (counted on every run), i.e. s = 1; the composed model with polarPointPan (nothing "
    "captured) is run against the real render at and near every loudspeaker of the ten layouts (op rple, 1e-12). A failed regeneration "
    "of the C05 tables/certificates these theorems depend on is a broken obligation (extract:C05-tables). screenRef: screen_identity (equal edges => scale_az_el = id), "
    "screen_position_identity (whole polar step scale_position = id given the C19 round trip of the conversions, "
    "which are parameters); compensate_position modelled (identity without U+045 / at elevation 0 and 90). Float "
    "rounding at thresholds, the polar panner's region order, downmix wrappers and the whole GainCalc.render are covered "
    "by correspondence (all 2^n masks for n <= 12, boundary zones, ties, whole Cartesian renders against "
    "renderCartLock, whole polar renders against renderPolar / renderPolarLock with captured pans and - for locked point "
    "objects at/near every loudspeaker - with the concrete polarPointPan) and by the search on rendered gains "
    "(polar lock + zones judged with an independent downmix-row classifier).",
    note="Trusted: Lean kernel; hand transliteration + correspondence; polar/extent panners as parameters (closed with "
    "captured values in the driver); IEEE zero laws sampled; C05 model and tables imported unchanged; R theorems use "
    "1e-5/1e-6 as reals. Known findings: (1) Cartesian objects when the row extension of the zone mask covers all "
    "loudspeakers; (2) polar objects with channelLock whose locked loudspeaker is zone-excluded (energy moved to its "
    "downmix group). 'Within maxDistance' means distance < maxDistance + 1e-5. Also noted: channelLock raises "
    "ValueError for distances above ~1e11; inside_angle_range does not terminate for bounds >= ~1e17; the Cartesian "
    "screenRef path is conversion (C19) o scale_az_el o compensate_position o conversion, not a no-op for layouts "
    "with U+045; ZoneExclusionDownmix groups targets with a 1e-6 tolerance but sorts the groups by the exact float keys, "
    "so from T+000 on 9+10+3 (all upper loudspeakers at distance 1 +- 1 ulp) the group order is decided by rounding "
    "noise and not by the documented front/back tie-break (energy goes to U+000/U+180 before U+-045/U+-135; the "
    "harness classifier admits every order the documented keys do not force); renderCartLock / renderPolarLock are "
    "defined without shape guards (equal table lengths are theorem "
    "hypotheses and table obligations).",
    technique="Lean 4 proofs over list models (induction, grind, Mathlib order/sqrt lemmas over R, Rat->R cast lemmas "
    "so that decide +kernel evaluations on regenerated tables feed the R theorems) + decide +kernel over regenerated "
    "layout tables + differential correspondence with the real functions and whole renders (pans captured inside the "
    "real call) + direct-predicate search on GainCalc.render with independent classifiers for both recorded findings",
    design_ref="DESIGN.md section 4, C13; section 6 item 6",
)
