/-
C13 — the polar path with channel lock and zone exclusion (`renderPolarLock`: lock → pan →
zone downmix on the gains) over ℝ: what the zone downmix does to the unit gain vector of a
locked loudspeaker.
-/
import Earverif.Proofs.C13CartLock
import Earverif.Proofs.C13LockReal
import Mathlib.Algebra.BigOperators.Group.List.Basic
import Mathlib.Algebra.Order.BigOperators.Group.List
import Mathlib.Tactic.Ring
import Mathlib.Tactic.Positivity

namespace Earverif.C13
open Earverif.Zone Earverif.Zone.Scalar Earverif.Zone.ScalarSqrt Earverif.Lock Earverif.CartLock

deriving instance DecidableEq for Earverif.Zone.P3

/-! ### sums over ℝ -/

theorem foldl_add_real (l : List ℝ) (a : ℝ) : l.foldl (· + ·) a = a + l.sum := by
  induction l generalizing a with
  | nil => simp
  | cons x xs ih => simp only [List.foldl_cons, List.sum_cons, ih]; ring

theorem sumList_real (l : List ℝ) : sumList l = l.sum := by
  show l.foldl Scalar.add Scalar.zero = l.sum
  have h : (Scalar.add : ℝ → ℝ → ℝ) = (· + ·) := rfl
  rw [h, real_zero, foldl_add_real]; ring

theorem sumList_rat_eq_sum (l : List Rat) : sumList l = l.sum := by
  induction l with
  | nil => rfl
  | cons x xs ih => rw [sumList_rat_cons, ih, List.sum_cons]

/-- the unit gain vector `e_k` over ℝ -/
noncomputable def unitR (n k : Nat) : List ℝ := (List.replicate n (0 : ℝ)).set k 1

@[simp] theorem unitR_length (n k : Nat) : (unitR n k).length = n := by simp [unitR]

theorem unitR_mem (n k : Nat) (v : ℝ) (h : v ∈ unitR n k) : v = 0 ∨ v = 1 := by
  rcases List.mem_or_eq_of_mem_set h with h | h
  · left; exact (List.mem_replicate.mp h).2
  · right; exact h

theorem unitR_succ_zero (n : Nat) : unitR (n + 1) 0 = 1 :: List.replicate n (0 : ℝ) := by
  simp [unitR, List.replicate_succ]

theorem unitR_succ_succ (n k : Nat) : unitR (n + 1) (k + 1) = 0 :: unitR n k := by
  simp [unitR, List.replicate_succ]

theorem unitR_eq_map_range (n k : Nat) :
    unitR n k = (List.range n).map fun j => if k = j then (1 : ℝ) else 0 := by
  apply List.ext_getElem
  · simp
  · intro j h1 h2
    simp only [unitR, List.getElem_set, List.getElem_replicate, List.getElem_map, List.getElem_range]

theorem zipWith_zeros_sum {β : Type} (f : β → ℝ) : ∀ (n : Nat) (D : List β),
    (List.zipWith (fun a row => a * f row) (List.replicate n (0 : ℝ)) D).sum = 0 := by
  intro n
  induction n with
  | zero => intro D; simp
  | succ n ih =>
    intro D
    cases D with
    | nil => simp
    | cons r D => simp [List.replicate_succ, ih D]

/-- `Σ_i e_k[i] · f(D[i]) = f(D[k])` -/
theorem zipWith_unit_sum {β : Type} (f : β → ℝ) : ∀ (n k : Nat) (D : List β) (hk : k < D.length), k < n →
    (List.zipWith (fun a row => a * f row) (unitR n k) D).sum = f D[k] := by
  intro n
  induction n with
  | zero => intro k D _ h; omega
  | succ n ih =>
    intro k D hk hn
    cases D with
    | nil => simp at hk
    | cons r D =>
      cases k with
      | zero => simp [unitR_succ_zero, zipWith_zeros_sum]
      | succ k =>
        rw [unitR_succ_succ]
        simp only [List.zipWith_cons_cons, List.sum_cons, zero_mul, zero_add, List.getElem_cons_succ]
        exact ih k D (by simpa using hk) (by omega)

theorem unitR_sq (n k : Nat) : (unitR n k).map (fun g => g * g) = unitR n k := by
  apply List.ext_getElem
  · simp
  · intro j h1 h2
    simp only [List.getElem_map]
    rcases unitR_mem n k _ (List.getElem_mem (by simpa using h2)) with h | h <;> rw [h] <;> simp

/-- `np.sqrt(np.dot([1.0], [g]**2)) = g` for a non-negative gain vector. -/
theorem powerSum_single (n : Nat) (g : List ℝ) (hl : g.length = n) (h0 : ∀ v ∈ g, 0 ≤ v) :
    powerSum n [(Scalar.one : ℝ)] [g] = g := by
  unfold powerSum
  apply List.ext_getElem
  · simp [hl]
  · intro j h1 h2
    simp only [List.getElem_map, List.getElem_range, List.zipWith_cons_cons, List.zipWith_nil_right, sumList,
      List.foldl_cons, List.foldl_nil, real_add, real_mul, real_zero, real_one, real_sqrt]
    have hg : g.getD j 0 = g[j] := by simp [List.getD, List.getElem?_eq_getElem h2]
    rw [hg, zero_add, one_mul]
    exact Real.sqrt_mul_self (h0 _ (List.getElem_mem h2))

/-- `sqrt(dot(e_k**2, D))` is the square root of row `k` of `D`. -/
theorem applyDownmix_unit (n k : Nat) (D : List (List ℝ)) (hk : k < D.length) (hn : k < n) :
    applyDownmix n (unitR n k) D = (List.range n).map fun j => Real.sqrt (D[k].getD j 0) := by
  unfold applyDownmix
  apply List.map_congr_left
  intro j _
  simp only [real_sqrt, dotCol, sumList_real, real_mul, real_zero, unitR_sq]
  rw [zipWith_unit_sum (fun row => row.getD j 0) n k D hk hn]

theorem map_range_getD (row : List ℝ) (f : ℝ → ℝ) :
    ((List.range row.length).map fun j => f (row.getD j 0)) = row.map f := by
  apply List.ext_getElem
  · simp
  · intro j h1 h2
    have hj : j < row.length := by simpa using h2
    simp [List.getD, List.getElem?_eq_getElem hj]

/-- **The tail of the polar `render` on the unit vector of loudspeaker `k`**: the result is the
square root of row `k` of the zone downmix matrix, times gain and the direct/diffuse factors. -/
theorem renderPolar_unit (n k : Nat) (gs : List (List (List Nat))) (mask : List Bool) (D : List (List ℝ))
    (row : List ℝ) (hD : downmixForExcluded n gs mask = some D) (hrow : D[k]? = some row) (hrl : row.length = n)
    (hn : k < n) (gain diffuse : ℝ) :
    renderPolar n gs mask [unitR n k] [Scalar.one] gain diffuse =
      some (row.map (fun v => Real.sqrt v * gain * Real.sqrt (1 - diffuse)),
            row.map (fun v => Real.sqrt v * gain * Real.sqrt diffuse)) := by
  have hk : k < D.length := by
    by_cases h : k < D.length
    · exact h
    · rw [List.getElem?_eq_none (Nat.le_of_not_lt h)] at hrow; simp at hrow
  have hrow' : D[k] = row := by
    rw [List.getElem?_eq_getElem hk] at hrow; simpa using hrow
  unfold renderPolar zoneHandle
  rw [hD]
  simp only [Option.bind_some]
  rw [powerSum_single n (unitR n k) (unitR_length n k)
    (fun v hv => by rcases unitR_mem n k v hv with h | h <;> simp [h])]
  rw [applyDownmix_unit n k D hk hn, hrow']
  subst hrl
  rw [map_range_getD row Real.sqrt]
  simp only [finishGains, real_mul, real_nanToNum, real_sqrt, real_sub, real_one, List.map_map]
  rfl

/-! ### row `k` of the downmix matrix -/

theorem mapOpt_getElem? {β γ : Type} (f : β → Option γ) : ∀ (l : List β) (out : List γ), mapOpt f l = some out →
    ∀ (k : Nat) (hk : k < l.length), ∃ y, out[k]? = some y ∧ f l[k] = some y := by
  intro l
  induction l with
  | nil => intro out _ k hk; simp at hk
  | cons x xs ih =>
    intro out h k hk
    simp only [mapOpt] at h
    cases hfx : f x with
    | none => simp [hfx] at h
    | some y0 =>
      cases hxs : mapOpt f xs with
      | none => simp [hfx, hxs] at h
      | some ys =>
        simp [hfx, hxs] at h
        subst h
        cases k with
        | zero => exact ⟨y0, by simp, by simpa using hfx⟩
        | succ k =>
          obtain ⟨y, h1, h2⟩ := ih ys hxs k (by simpa using hk)
          exact ⟨y, by simpa using h1, by simpa using h2⟩

/-- the 0/1-over-`|ne|` row the method writes for the chosen group -/
noncomputable def groupRow (n : Nat) (ne : List Nat) : List ℝ :=
  (List.range n).map fun j => if ne.contains j then (1 : ℝ) / (ne.length : ℝ) else 0

/-- **Row `k` of `downmix_for_excluded(mask)` over ℝ.** Either the matrix is the identity (all or
none excluded) and the row is `e_k`, or the row is `1/|ne|` on the non-excluded members `ne` of
the first group of channel `k` that is not completely excluded, and 0 elsewhere. -/
theorem downmix_row_real (n : Nat) (gs : List (List (List Nat))) (mask : List Bool) (D : List (List ℝ))
    (hD : downmixForExcluded n gs mask = some D) (hgl : gs.length = n) (k : Nat) (hk : k < n) :
    ∃ row, D[k]? = some row ∧ row.length = n ∧
      (((mask.all id || mask.all fun b => !b) = true ∧ row = unitR n k) ∨
       ((mask.all id || mask.all fun b => !b) = false ∧
         ∃ grp, ∃ (_ : grp ∈ gs.getD k []), grp.all (isExcl mask) = false ∧
           downmixRow (α := ℝ) n mask (gs.getD k []) = some row ∧
           row = groupRow n (notExcluded mask grp))) := by
  unfold downmixForExcluded at hD
  by_cases hlen : (mask.length != n) = true
  · simp [hlen] at hD
  · simp only [hlen, Bool.false_eq_true, ↓reduceIte] at hD
    by_cases htriv : (mask.all id || mask.all fun b => !b) = true
    · simp only [htriv, ↓reduceIte, Option.some.injEq] at hD
      subst hD
      refine ⟨unitR n k, ?_, by simp, Or.inl ⟨htriv, rfl⟩⟩
      simp only [eye, List.getElem?_map, List.getElem?_range hk, Option.map_some, Option.some.injEq]
      rw [unitR_eq_map_range]
      apply List.map_congr_left
      intro j _
      by_cases h : k = j <;> simp [h]
    · simp only [htriv, Bool.false_eq_true, ↓reduceIte] at hD
      obtain ⟨row, h1, h2⟩ := mapOpt_getElem? _ gs D hD k (by omega)
      have hgk : gs.getD k [] = gs[k]'(by omega) := by
        simp [List.getD, List.getElem?_eq_getElem (show k < gs.length by omega)]
      obtain ⟨grp, hgrp, hnotall, hr⟩ := downmixRow_some n mask _ row h2
      refine ⟨row, h1, ?_, Or.inr ⟨by simpa using htriv, grp, by rw [hgk]; exact hgrp, hnotall, by rw [hgk]; exact h2, ?_⟩⟩
      · rw [hr]; simp
      · rw [hr]; rfl

theorem groupRow_nonneg (n : Nat) (ne : List Nat) : ∀ v ∈ groupRow n ne, 0 ≤ v := by
  intro v hv
  simp only [groupRow, List.mem_map, List.mem_range] at hv
  obtain ⟨j, _, rfl⟩ := hv
  split
  · positivity
  · exact le_refl 0

theorem sum_cast_rat (l : List Nat) (f : Nat → Rat) :
    (l.map fun j => ((f j : Rat) : ℝ)).sum = ((sumList (l.map f) : Rat) : ℝ) := by
  rw [sumList_rat_eq_sum]
  induction l with
  | nil => simp
  | cons x xs ih => simp only [List.map_cons, List.sum_cons, Rat.cast_add, ih]

/-- the entries of the row of a chosen group sum to one (duplicate-free members below `n`) -/
theorem groupRow_sum (n : Nat) (ne : List Nat) (hnd : nodupB ne = true) (hlt : ∀ x ∈ ne, x < n)
    (hpos : 0 < ne.length) : (groupRow n ne).sum = 1 := by
  have hq : sumList ((List.range n).map fun j => if ne.contains j then (1 : Rat) / (ne.length : Rat) else 0) = 1 := by
    have e : (fun j => if ne.contains j then (1 : Rat) / (ne.length : Rat) else 0) =
        fun j => (1 : Rat) / (ne.length : Rat) * ((ne.count j : Nat) : Rat) := by
      funext j; exact indicator_eq_count ne hnd _ j
    rw [e, sum_map_mul, sum_count n ne hlt]
    have hk : ((ne.length : Nat) : Rat) ≠ 0 := by
      intro h0
      have : ((ne.length : Nat) : Rat) = ((0 : Nat) : Rat) := h0
      have := Rat.natCast_inj.mp this
      omega
    grind
  have := sum_cast_rat (List.range n) (fun j => if ne.contains j then (1 : Rat) / (ne.length : Rat) else 0)
  rw [hq] at this
  have e2 : groupRow n ne =
      (List.range n).map fun j => (((if ne.contains j then (1 : Rat) / (ne.length : Rat) else 0 : Rat)) : ℝ) := by
    unfold groupRow
    apply List.map_congr_left
    intro j _
    split <;> simp
  rw [e2, this]
  simp

theorem groupRow_excluded_zero (n : Nat) (mask : List Bool) (grp : List Nat) (j : Nat) (hj : isExcl mask j = true) :
    (groupRow n (notExcluded mask grp)).getD j 0 = 0 := by
  unfold groupRow
  rw [getD_map_range]
  have : (notExcluded mask grp).contains j = false := by
    simpa using not_mem_notExcluded mask grp j hj
  by_cases hjn : j < n
  · simp only [hjn, ↓reduceIte, this, Bool.false_eq_true]
  · simp only [hjn, ↓reduceIte]

/-- the row of a loudspeaker that is not excluded and whose first group is the loudspeaker itself is `e_k` -/
theorem downmixRow_self (n : Nat) (mask : List Bool) (k : Nat) (rest : List (List Nat)) (hk : isExcl mask k = false) :
    downmixRow (α := ℝ) n mask ([k] :: rest) = some (unitR n k) := by
  simp only [downmixRow, List.all_cons, hk, List.all_nil, Bool.and_true, Bool.false_eq_true, ↓reduceIte,
    notExcluded, List.filter_cons, Bool.not_false, List.filter_nil, List.length_singleton, Option.some.injEq]
  rw [unitR_eq_map_range]
  apply List.map_congr_left
  intro j _
  by_cases h : k = j
  · subst h; simp
  · have h' : ¬ j = k := fun e => h e.symm
    simp [h, h']

/-! ### power of the rendered gains -/

theorem power_of_row (row : List ℝ) (gain diffuse : ℝ) (h0 : ∀ v ∈ row, 0 ≤ v) (hs : row.sum = 1)
    (hd0 : 0 ≤ diffuse) (hd1 : diffuse ≤ 1) :
    ((row.map (fun v => Real.sqrt v * gain * Real.sqrt (1 - diffuse))).map (fun x => x * x)).sum +
    ((row.map (fun v => Real.sqrt v * gain * Real.sqrt diffuse)).map (fun x => x * x)).sum = gain * gain := by
  have key : ∀ (c : ℝ), 0 ≤ c →
      ((row.map (fun v => Real.sqrt v * gain * Real.sqrt c)).map (fun x => x * x)).sum = gain * gain * c * row.sum := by
    intro c hc
    rw [List.map_map]
    have : ∀ v ∈ row, ((fun x => x * x) ∘ fun v => Real.sqrt v * gain * Real.sqrt c) v = gain * gain * c * v := by
      intro v hv
      simp only [Function.comp]
      have h1 := Real.mul_self_sqrt (h0 v hv)
      have h2 := Real.mul_self_sqrt hc
      calc Real.sqrt v * gain * Real.sqrt c * (Real.sqrt v * gain * Real.sqrt c)
          = gain * gain * (Real.sqrt c * Real.sqrt c) * (Real.sqrt v * Real.sqrt v) := by ring
        _ = gain * gain * c * v := by rw [h1, h2]
    rw [List.map_congr_left this, List.sum_map_mul_left]
    simp
  rw [key (1 - diffuse) (by linarith), key diffuse hd0, hs]
  ring

/-! ### `renderPolarLock`, taken apart -/

theorem renderPolarLock_some (fuel : Nat) (spks : List (Spk ℝ)) (norm : List (P3 ℝ)) (prio : List Nat)
    (groups : List (List (List Nat))) (zones : List (Zone ℝ)) (pan : P3 ℝ → Option (List ℝ)) (p : P3 ℝ)
    (lock : Option (Option ℝ)) (gain diffuse : ℝ) (zmask : List Bool) (lk : LockOut) (out : List ℝ × List ℝ)
    (h : renderPolarLock fuel spks norm prio groups zones pan p lock gain diffuse = some (zmask, lk, out)) :
    lk = lockHandle false norm prio (List.replicate norm.length false) p lock ∧
    ∃ q g, lockedPosition norm p lk = some q ∧ pan q = some g ∧ getExcluded fuel spks zones = some zmask ∧
      renderPolar norm.length groups zmask [g] [Scalar.one] gain diffuse = some out := by
  unfold renderPolarLock at h
  simp only [Option.bind_eq_some_iff, Option.some.injEq, Prod.mk.injEq] at h
  obtain ⟨q, h1, g, h2, zm, h3, o, h4, e1, e2, e3⟩ := h
  subst e1; subst e2; subst e3
  exact ⟨rfl, q, g, h1, h2, h3, h4⟩

theorem isExcl_replicate_false (n j : Nat) : isExcl (List.replicate n false) j = false := by
  unfold isExcl
  simp only [List.getD]
  by_cases h : j < n
  · simp [h]
  · simp [List.getElem?_eq_none (show (List.replicate n false).length ≤ j by simpa using Nat.le_of_not_lt h)]

theorem unitR_nonneg (n k : Nat) : ∀ v ∈ unitR n k, 0 ≤ v := by
  intro v hv
  rcases unitR_mem n k v hv with h | h <;> simp [h]

theorem unitR_sum (n k : Nat) (hk : k < n) : (unitR n k).sum = 1 := by
  induction n generalizing k with
  | zero => omega
  | succ n ih =>
    cases k with
    | zero => simp [unitR_succ_zero]
    | succ k => rw [unitR_succ_succ, List.sum_cons, ih k (by omega)]; ring

theorem unitR_getD (n k j : Nat) (hjk : j ≠ k) : (unitR n k).getD j 0 = 0 := by
  unfold unitR
  simp only [List.getD, List.getElem?_set]
  by_cases hj : j < n
  · simp [Ne.symm hjk, hj]
  · simp [Ne.symm hjk, hj]

theorem getD_map_zero (row : List ℝ) (φ : ℝ → ℝ) (h0 : φ 0 = 0) (j : Nat) :
    (row.map φ).getD j 0 = φ (row.getD j 0) := by
  simp only [List.getD, List.getElem?_map]
  cases row[j]? <;> simp [h0]

/-! ### an object at a loudspeaker position locks to that loudspeaker -/

/-- **At a loudspeaker.** If the position is exactly that of the non-excluded loudspeaker `k` and
every other loudspeaker is at least `1e-5` away in the handler's weighted distance, the handler
(no `maxDistance`) locks to `k`. -/
theorem lock_at_speaker (allo : Bool) (pos : List (P3 ℝ)) (prio : List Nat) (excluded : List Bool) (k : Nat) (c : P3 ℝ)
    (hk : pos[k]? = some c) (hex : isExcl excluded k = false)
    (hsep : ∀ j, j ≠ k → j < pos.length → 1e-5 ≤ spkDistW allo pos c j) :
    lockHandle allo pos prio excluded c (some none) = .locked k := by
  have hkl : k < pos.length := by
    by_cases h : k < pos.length
    · exact h
    · rw [List.getElem?_eq_none (Nat.le_of_not_lt h)] at hk; simp at hk
  have hck : LockCandidate pos excluded c none k := ⟨hkl, hex, fun md h => by simp at h⟩
  have hwk : spkDistW allo pos c k = 0 := by
    simp only [spkDistW, hk]
    cases allo <;> simp [Lock.dist, Lock.distW]
  rcases lockHandle_spec allo pos prio excluded c none with ⟨hno, _⟩ | ⟨i, hci, hsel, m, hcm, hmin, hnear, _⟩
  · exact absurd hck (hno k)
  · by_cases hik : i = k
    · rw [hsel, hik]
    · exfalso
      have h1 := hmin k hck
      have h2 := hsep i hik hci.1
      rw [hwk] at h1
      linarith

/-- squared distances on the rational tables -/
def sqDistQ (p c : P3 Rat) : Rat :=
  (p.x - c.x) * (p.x - c.x) + (p.y - c.y) * (p.y - c.y) + (p.z - c.z) * (p.z - c.z)

def sqDistWQ (p c : P3 Rat) : Rat :=
  1 / 16 * ((p.x - c.x) * (p.x - c.x)) + 4 * ((p.y - c.y) * (p.y - c.y)) + 32 * ((p.z - c.z) * (p.z - c.z))

theorem dist_cast (p c : P3 Rat) : Lock.dist (castP3 p) (castP3 c) = Real.sqrt ((sqDistQ p c : Rat) : ℝ) := by
  simp only [Lock.dist, castP3, sqDistQ, real_sqrt, real_add, real_mul, real_sub]
  congr 1
  push_cast
  ring

theorem distW_cast (p c : P3 Rat) : Lock.distW (castP3 p) (castP3 c) = Real.sqrt ((sqDistWQ p c : Rat) : ℝ) := by
  simp only [Lock.distW, castP3, sqDistWQ, real_sqrt, real_add, real_mul, real_sub, real_div, real_one, real_ofNat]
  congr 1
  push_cast
  ring

/-- table check: any two different loudspeakers are at least `1e-5` apart in the handler's distance
(squared distance at least `1e-10`, exact rational arithmetic) -/
def separatedB (allo : Bool) (ps : List (P3 Rat)) : Bool :=
  (List.range ps.length).all fun j => (List.range ps.length).all fun k =>
    j == k ||
      match ps[j]?, ps[k]? with
      | some a, some b => decide (mkRat 1 10000000000 ≤ (if allo then sqDistWQ a b else sqDistQ a b))
      | _, _ => true

theorem sqrt_ge_tol (x : Rat) (h : mkRat 1 10000000000 ≤ x) : (1e-5 : ℝ) ≤ Real.sqrt ((x : Rat) : ℝ) := by
  apply Real.le_sqrt_of_sq_le
  have h' : ((mkRat 1 10000000000 : Rat) : ℝ) ≤ ((x : Rat) : ℝ) := by exact_mod_cast h
  have e : ((mkRat 1 10000000000 : Rat) : ℝ) = (1e-5 : ℝ) ^ 2 := by
    rw [Rat.mkRat_eq_div]; push_cast; norm_num
  linarith [e ▸ h']

/-- `lock_at_speaker` on a rational table that passes `separatedB`. -/
theorem lock_at_speaker_table (allo : Bool) (ps : List (P3 Rat)) (hsep : separatedB allo ps = true)
    (prio : List Nat) (excluded : List Bool) (k : Nat) (hk : k < ps.length) (hex : isExcl excluded k = false) :
    lockHandle allo (ps.map castP3) prio excluded (castP3 ps[k]) (some none) = .locked k := by
  apply lock_at_speaker allo (ps.map castP3) prio excluded k (castP3 ps[k]) (by simp [hk]) hex
  intro j hjk hj
  have hj' : j < ps.length := by simpa using hj
  simp only [separatedB, List.all_eq_true, List.mem_range, Bool.or_eq_true, beq_iff_eq] at hsep
  have := hsep k hk j hj'
  rcases this with h | h
  · exact absurd h.symm hjk
  · simp only [List.getElem?_eq_getElem hk, List.getElem?_eq_getElem hj', decide_eq_true_eq] at h
    simp only [spkDistW, List.getElem?_map, List.getElem?_eq_getElem hj', Option.map_some]
    cases allo with
    | true =>
      simp only [↓reduceIte] at h ⊢
      rw [distW_cast]; exact sqrt_ge_tol _ h
    | false =>
      simp only [Bool.false_eq_true, ↓reduceIte] at h ⊢
      rw [dist_cast]; exact sqrt_ge_tol _ h

/-! ### the downmix matrix over ℝ is the cast of the matrix over ℚ -/

theorem mapOpt_map {β γ δ : Type} (f : β → Option γ) (h : γ → δ) :
    ∀ (l : List β), mapOpt (fun x => (f x).map h) l = (mapOpt f l).map (List.map h) := by
  intro l
  induction l with
  | nil => rfl
  | cons x xs ih =>
    simp only [mapOpt, ih]
    cases f x <;> cases mapOpt f xs <;> rfl

def castRow (row : List Rat) : List ℝ := row.map fun x => ((x : Rat) : ℝ)

theorem downmixRow_cast (n : Nat) (mask : List Bool) : ∀ (g : List (List Nat)),
    downmixRow (α := ℝ) n mask g = (downmixRow (α := Rat) n mask g).map castRow := by
  intro g
  induction g with
  | nil => rfl
  | cons grp rest ih =>
    simp only [downmixRow]
    split
    · exact ih
    · simp only [Option.map_some, Option.some.injEq, castRow, List.map_map]
      apply List.map_congr_left
      intro j _
      simp only [Function.comp, real_div, real_one, real_ofNat, real_zero, rat_div, rat_one, rat_ofNat, rat_zero]
      split <;> simp

/-- `downmix_for_excluded` over ℝ is the entry-wise cast of the exact rational matrix (so matrices
evaluated by `decide` over ℚ on the regenerated tables can be used in the theorems over ℝ). -/
theorem downmixForExcluded_cast (n : Nat) (gs : List (List (List Nat))) (mask : List Bool) :
    downmixForExcluded (α := ℝ) n gs mask = (downmixForExcluded (α := Rat) n gs mask).map (List.map castRow) := by
  unfold downmixForExcluded
  split
  · rfl
  · split
    · simp only [Option.map_some, Option.some.injEq, eye, List.map_map]
      apply List.map_congr_left
      intro i _
      simp only [Function.comp, castRow, List.map_map]
      apply List.map_congr_left
      intro j _
      simp only [Function.comp, real_one, real_zero, rat_one, rat_zero]
      split <;> simp
    · rw [← mapOpt_map]
      congr 1
      funext g
      exact downmixRow_cast n mask g

/-! ### `allocentric.get_excluded` over ℝ on a cast rational table -/

theorem eq_cast (a b : Rat) : Scalar.eq ((a : Rat) : ℝ) ((b : Rat) : ℝ) = Scalar.eq a b := by
  simp only [real_eq, rat_eq, Rat.cast_inj]
  by_cases h : a = b <;> simp [h]

theorem abs_cast (a : Rat) : Scalar.abs ((a : Rat) : ℝ) = (((Scalar.abs a : Rat)) : ℝ) := by
  show |((a : Rat) : ℝ)| = (((if a < 0 then -a else a : Rat)) : ℝ)
  split
  · rename_i h
    have : ((a : Rat) : ℝ) < 0 := by exact_mod_cast h
    rw [abs_of_neg this]; push_cast; rfl
  · rename_i h
    have : (0 : ℝ) ≤ ((a : Rat) : ℝ) := by exact_mod_cast (not_lt.mp h)
    rw [abs_of_nonneg this]

theorem extendStep_cast (ps : List (P3 Rat)) (m : List Bool) (i : Nat) (c : P3 Rat) :
    extendStep (ps.map castP3) m i (castP3 c) = extendStep ps m i c := by
  have h1 : (Scalar.one : ℝ) = (((Scalar.one : Rat)) : ℝ) := by simp
  unfold extendStep
  simp only [castP3, abs_cast, h1, eq_cast]
  split
  · simp only [List.zipWith_map_left, castP3, eq_cast]
  · rfl

theorem alloExtendFrom_cast (ps : List (P3 Rat)) : ∀ (cs : List (P3 Rat)) (i : Nat) (m : List Bool),
    alloExtendFrom (ps.map castP3) (cs.map castP3) i m = alloExtendFrom ps cs i m := by
  intro cs
  induction cs with
  | nil => intro i m; rfl
  | cons c cs ih =>
    intro i m
    simp only [List.map_cons, alloExtendFrom, extendStep_cast, ih]

/-- the final Cartesian mask over ℝ on a cast table is the one computed in exact arithmetic -/
theorem alloExcluded_cast (ps : List (P3 Rat)) (m : List Bool) :
    alloExcluded (ps.map castP3) m = alloExcluded ps m := by
  unfold alloExcluded alloExtend
  simp only [alloExtendFrom_cast]

end Earverif.C13
