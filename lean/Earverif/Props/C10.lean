/- C10 — DirectSpeakers: matching layouts pass through; never amplify; LFE stays separate.

   Two layers:
   * table obligations, `decide +kernel` over the tables REGENERATED from /repo on every run
     (`Earverif.Gen.C10`: `rules` after symmetric expansion with the exact rational value of every float64
     gain, `ituPacks`, the ten BS.2051 `layouts`, all common-definition DirectSpeakers `commonPacks`);
   * logic theorems for ALL blocks, layouts satisfying `layoutOk` and geometric sub-results satisfying
     `GeoOk`, by case analysis over the exits of `_handle_without_gain` (`Earverif.DS.handleNoGain`).

   * round 7 (`*_concrete`): the same property for `handleC` (`Model/DirectSpeakersConcrete.lean`), in which nothing
     is captured: position glue and both fallback panners are computed (C01/C05/C13/C19 models by import), over ℝ.

   * round 8 (`handleC_total_layouts`, `geo_ds_total_and_bounded_layouts`, `passthrough_matrix_layouts`): which calls
     the concrete model rejects on the ten layouts — only the documented ones (`Documented`), by C05 totality and the
     totality of the C19 conversion; the whole property in one statement without any panner hypothesis.

   Float versus rational: the theorems are about the exact rational values of the float64 table entries and
   of the captured panner gains; finiteness / rounding of the final products is searched on the real code. -/
import Earverif.Proofs.C10
import Earverif.Proofs.C10Geom
import Earverif.Proofs.C10Angle
import Earverif.Proofs.C10Sqrt
import Earverif.Proofs.C10Concrete
import Earverif.Proofs.C10Total
import Earverif.Gen.C10_Tables

namespace Earverif.DS
open Earverif.Gen.C10

/-! ## table obligations (re-checked against what the code says now) -/

/-- Every rule of `panner.rules`: all gains ≥ 0 and Σ g² ≤ 1 + 2⁻⁴⁰. -/
theorem rules_power_le_one :
    ∀ r ∈ rules, (∀ p ∈ r.gains, 0 ≤ p.2) ∧ gainsSumSq r.gains ≤ slack := by
  have h : rules.all (fun r => r.gains.all (fun p => decide (0 ≤ p.2)) && decide (gainsSumSq r.gains ≤ slack)) = true := by
    decide +kernel
  intro r hr
  have := List.all_eq_true.mp h r hr
  simp only [Bool.and_eq_true, List.all_eq_true, decide_eq_true_eq] at this
  exact this

/-- Every rule: an LFE input label (LFE1/LFE2) maps only to LFE output names, any other label only to
    non-LFE names. -/
theorem rules_lfe_separated :
    ∀ r ∈ rules, ∀ p ∈ r.gains, isLfeName p.1 = isLfeName r.label := by
  have h : rules.all (fun r => r.gains.all (fun p => isLfeName p.1 == isLfeName r.label)) = true := by
    decide +kernel
  intro r hr p hp
  have := List.all_eq_true.mp (List.all_eq_true.mp h r hr) p hp
  simpa using this

theorem rules_ok : ∀ r ∈ rules, ruleOk r = true := by
  intro r hr
  have h1 := rules_power_le_one r hr
  have h2 := rules_lfe_separated r hr
  simp only [ruleOk, Bool.and_eq_true, List.all_eq_true, decide_eq_true_eq, beq_iff_eq]
  exact ⟨⟨h1.1, h1.2⟩, h2⟩

/-- For each of the ten BS.2051 layouts `layout.is_lfe[i]` ⇔ `channel_names[i] ∈ {LFE1, LFE2}`. -/
theorem layouts_lfe_by_name : ∀ L ∈ layouts, layoutOk L = true := by
  have h : layouts.all layoutOk = true := by decide +kernel
  exact List.all_eq_true.mp h

/-- What the code really does: `is_lfe_channel = is_lfe(frequency) or any label is LFE1/LFE2` — for every
    channel of every common-definition DirectSpeakers pack there is at least one speakerLabel and every
    label's LFE-ness equals the frequency's (lowPass ≤ 200 Hz, no highPass). -/
def channelConsistent (c : CommonChannel) : Bool :=
  !c.labels.isEmpty &&
    c.labels.all (fun l => isLfeName (nominalSpeakerLabel l) == isLfeFreq c.lowPass c.highPass)

theorem common_packs_consistent :
    ∀ p ∈ commonPacks, ∀ c ∈ p.channels, channelConsistent c = true := by
  have h : commonPacks.all (fun p => p.channels.all channelConsistent) = true := by decide +kernel
  intro p hp c hc
  exact List.all_eq_true.mp (List.all_eq_true.mp h p hp) c hc

/-- One cell of the pass-through matrix: the first label's loudspeaker exists in `L` and the early exits
    (first applicable mapping rule, else label match) yield exactly its unit vector. -/
def passOk (L : Layout) (p : CommonPack) (c : CommonChannel) : Bool :=
  match c.labels with
  | [] => false
  | l :: _ =>
    L.names.contains (nominalSpeakerLabel l) &&
    (match earlyExit rules ituPacks L (c.block p.id 1 1 false) with
     | .ok (some (_, pv)) => pv == unitVec L.names.length (L.names.idxOf (nominalSpeakerLabel l))
     | _ => false)

def passTable : Bool :=
  layouts.all fun L => commonPacks.all fun p =>
    (ituPacks.lookup p.id != some L.name) || p.channels.all (passOk L p)

/-- For every layout `L` and every common-definition pack whose ITU name (`itu_packs`) is `L`, every channel
    goes to the like-named loudspeaker with gain 1 and nowhere else. -/
theorem passthrough_table : passTable = true := by decide +kernel

/-- Non-vacuity of `passthrough_table`: every one of the ten layouts has a common-definition pack. -/
example : layouts.all (fun L => commonPacks.any fun p => ituPacks.lookup p.id == some L.name) = true := by
  decide +kernel

/-! ## logic: all blocks -/

section generic
variable {R : List MappingRule} {P : List (String × String)} {L : Layout} {b : Block} {g : Geo}

/-- Facts established at each exit: non-negative, Σ² ≤ 1 + 2⁻⁴⁰, zero outside the block's LFE class. -/
structure ExitFacts (L : Layout) (lfe : Bool) (pv : List Rat) (cons pok : Prop) : Prop where
  nonneg : pok → ∀ x ∈ pv, 0 ≤ x
  power : pok → sumSq pv ≤ slack
  lfe : cons → ZeroOff L.isLfe lfe pv
  len : pv.length = L.names.length

theorem ruleStage_facts (hR : ∀ r ∈ R, ruleOk r = true) (hL : layoutOk L = true) {pv : List Rat}
    (h : ruleStage R P L b = .ok (some pv)) (pok : Prop) :
    ExitFacts L (isLfeChannel b) pv (PackConsistent P b) pok := by
  unfold ruleStage at h
  split at h
  · cases h
  · cases h
  · rename_i il hil
    split at h
    · cases h
    · rename_i l ls hlab
      split at h
      · rename_i gs hgs
        obtain ⟨r, hr, hg, hlbl, hnames⟩ := firstRule_some hgs
        have hok := hR r hr
        simp only [ruleOk, Bool.and_eq_true, List.all_eq_true, decide_eq_true_eq, beq_iff_eq] at hok
        obtain ⟨⟨hnn, hpow⟩, hsep⟩ := hok
        injection h with h; injection h with h
        subst h; subst hg
        refine ⟨fun _ => ?_, fun _ => ?_, ?_, by simp [length_assign, zeros]⟩
        · exact nonneg_assign _ _ _ hnn (nonneg_zeros _)
        · have := sumSq_assign_le L.names r.gains (zeros L.names.length)
          rw [sumSq_zeros] at this; linarith
        · intro hc
          have hv : isLfeName r.label = isLfeChannel b := by
            rw [hlbl]; exact hc il hil l (by rw [hlab]; rfl)
          have hz := zeroOff_zeros L.isLfe (isLfeChannel b)
          rw [isLfe_length hL] at hz
          exact zeroOff_assign hL _ _ _ (fun p hp => ⟨hnames p hp, by rw [hsep p hp, hv]⟩) hz
      · cases h

theorem label_facts (hL : layoutOk L = true) {lfe : Bool} {ls : List String} {idx : Nat}
    (h : labelMatch L lfe ls = some idx) (cons pok : Prop) :
    ExitFacts L lfe (unitVec L.names.length idx) cons pok := by
  obtain ⟨hlt, hflag⟩ := labelMatch_some h
  refine ⟨fun _ => nonneg_unitVec _ _, fun _ => le_trans (sumSq_unitVec_le _ _) slack_ge_one, fun _ => ?_, length_unitVec _ _⟩
  have hlt' : idx < L.isLfe.length := by rw [isLfe_length hL]; exact hlt
  have : L.isLfe[idx]? = some lfe := by
    rw [List.getD_eq_getElem?_getD, List.getElem?_eq_getElem hlt'] at hflag
    rw [List.getElem?_eq_getElem hlt']; simpa using hflag
  have hz := zeroOff_unitVec (mask := L.isLfe) (v := lfe) idx (Or.inl this)
  rwa [isLfe_length hL] at hz

theorem lateExit_facts (hL : layoutOk L = true) {lfe : Bool}
    (hcl : ∀ c, g.closest = some c → (candidates L lfe g.withinBounds)[c]? = some true)
    {pok : Prop} (hnn : pok → ∀ x ∈ g.psp, 0 ≤ x) (hpow : pok → sumSq g.psp ≤ slack) {e : Exit} {pv : List Rat}
    (h : lateExit L lfe g = .ok (e, pv)) (cons : Prop) : ExitFacts L lfe pv cons pok := by
  have hlen := isLfe_length hL
  unfold lateExit at h
  simp only at h
  split at h
  · -- closest loudspeaker within bounds
    rename_i c hc
    injection h with h; injection h with _ h; subst h
    refine ⟨fun _ => nonneg_unitVec _ _, fun _ => le_trans (sumSq_unitVec_le _ _) slack_ge_one, fun _ => ?_, length_unitVec _ _⟩
    have hcs : g.closest = some c := by
      split at hc
      · exact hc
      · cases hc
    have hcand := hcl c hcs
    have : L.isLfe[c]? = some lfe := by
      simp only [candidates, List.getElem?_zipWith] at hcand
      split at hcand
      · rename_i w f hw hf
        simp only [Option.some.injEq, Bool.and_eq_true, beq_iff_eq] at hcand
        rw [hf, hcand.2]
      · cases hcand
    have hz := zeroOff_unitVec (mask := L.isLfe) (v := lfe) c (Or.inl this)
    rwa [hlen] at hz
  · split at h
    · rename_i hlfe
      split at h
      · -- LFE without own output → LFE1
        rename_i hc1
        injection h with h; injection h with _ h; subst h
        refine ⟨fun _ => nonneg_unitVec _ _, fun _ => le_trans (sumSq_unitVec_le _ _) slack_ge_one, fun _ => ?_, length_unitVec _ _⟩
        have := isLfe_at_idxOf hL (List.contains_iff_mem.mp hc1)
        have hz := zeroOff_unitVec (mask := L.isLfe) (v := lfe) (L.names.idxOf "LFE1")
          (Or.inl (by rw [this, hlfe]; rfl))
        rwa [hlen] at hz
      · -- LFE discarded
        injection h with h; injection h with _ h; subst h
        refine ⟨fun _ => nonneg_zeros _, fun _ => by rw [sumSq_zeros]; exact le_trans (by decide) slack_ge_one, fun _ => ?_,
          by simp [zeros]⟩
        have hz := zeroOff_zeros L.isLfe lfe
        rwa [hlen] at hz
    · rename_i hlfe
      split at h
      · -- point-source fallback
        rename_i q hq
        injection h with h; injection h with _ h; subst h
        refine ⟨fun hp => nonneg_scatter _ _ _ hq (hnn hp), fun hp => by rw [sumSq_scatter _ _ _ hq]; exact hpow hp, fun _ => ?_,
          by rw [length_scatter _ _ _ hq, hlen]⟩
        have : lfe = false := by simpa using hlfe
        rw [this]; exact zeroOff_scatter _ _ _ hq
      · cases h

theorem handleNoGain_facts (hR : ∀ r ∈ R, ruleOk r = true) (hL : layoutOk L = true)
    (hcl : ∀ c, g.closest = some c → (candidates L (isLfeChannel b) g.withinBounds)[c]? = some true)
    {e : Exit} {pv : List Rat} (h : handleNoGain R P L b g = .ok (e, pv)) :
    ExitFacts L (isLfeChannel b) pv (PackConsistent P b) ((∀ x ∈ g.psp, 0 ≤ x) ∧ sumSq g.psp ≤ slack) := by
  unfold handleNoGain at h
  split at h
  · cases h
  · split at h
    · cases h
    · rename_i r hr
      injection h with h; subst h
      unfold earlyExit at hr
      split at hr
      · cases hr
      · rename_i pv' hrs
        injection hr with hr; injection hr with hr; injection hr with _ hr; subst hr
        exact ruleStage_facts hR hL hrs _
      · split at hr
        · rename_i idx hm
          injection hr with hr; injection hr with hr; injection hr with _ hr; subst hr
          exact label_facts hL hm _ _
        · cases hr
    · exact lateExit_facts hL hcl (fun hp => hp.1) (fun hp => hp.2) h _

theorem handle_ok {e : Exit} {pv : List Rat} (h : handle R P L b g = .ok (e, pv)) :
    ∃ pv0, handleNoGain R P L b g = .ok (e, pv0) ∧ pv = scale b pv0 := by
  unfold handle at h
  split at h
  · cases h
  · rename_i e' pv0 h0
    injection h with h; injection h with h1 h2
    subst h1; subst h2
    exact ⟨pv0, h0, rfl⟩

end generic

/-! ### the property, for the real tables -/

/-- Gains are non-negative: every block (block gain ≥ 0, object gain ≥ 0), every well-formed layout, every
    geometric sub-result satisfying `GeoOk`. -/
theorem ds_nonneg (L : Layout) (b : Block) (g : Geo) (hL : layoutOk L = true) (hg : GeoOk L b g)
    (hgain : 0 ≤ b.gain) (hog : 0 ≤ b.objectGain) (e : Exit) (pv : List Rat)
    (h : handle rules ituPacks L b g = .ok (e, pv)) : ∀ x ∈ pv, 0 ≤ x := by
  obtain ⟨pv0, h0, rfl⟩ := handle_ok h
  have hf := handleNoGain_facts rules_ok hL hg.1 h0
  have hog' : 0 ≤ objectGainOf b := by unfold objectGainOf; split <;> simp [hog]
  intro x hx
  simp only [scale, List.mem_map] at hx
  obtain ⟨y, hy, rfl⟩ := hx
  exact mul_nonneg (mul_nonneg (hf.nonneg hg.2 y hy) hgain) hog'

/-- Never amplify: Σ g² ≤ (block gain × object gain)² · (1 + 2⁻⁴⁰). -/
theorem ds_power_le (L : Layout) (b : Block) (g : Geo) (hL : layoutOk L = true) (hg : GeoOk L b g)
    (e : Exit) (pv : List Rat) (h : handle rules ituPacks L b g = .ok (e, pv)) :
    sumSq pv ≤ (b.gain * objectGainOf b) * (b.gain * objectGainOf b) * slack := by
  obtain ⟨pv0, h0, rfl⟩ := handle_ok h
  have hf := handleNoGain_facts rules_ok hL hg.1 h0
  rw [scale, sumSq_map_mul]
  have hsq := mul_self_nonneg (b.gain * objectGainOf b)
  have := mul_le_mul_of_nonneg_right (hf.power hg.2) hsq
  linarith [mul_comm slack (b.gain * objectGainOf b * (b.gain * objectGainOf b))]

/-- An LFE channel (`is_lfe_channel`) reaches only LFE outputs (or nothing): zero gain at every non-LFE
    position of the layout. -/
theorem ds_lfe_in_only_lfe_out (L : Layout) (b : Block) (g : Geo) (hL : layoutOk L = true) (hg : GeoOk L b g)
    (hc : PackConsistent ituPacks b) (hlfe : isLfeChannel b = true) (e : Exit) (pv : List Rat)
    (h : handle rules ituPacks L b g = .ok (e, pv)) :
    ∀ i : Nat, L.isLfe[i]? = some false → pv[i]? = some 0 := by
  obtain ⟨pv0, h0, rfl⟩ := handle_ok h
  have hf := handleNoGain_facts rules_ok hL hg.1 h0
  have hz := zeroOff_scale b (hf.lfe hc)
  rw [hlfe] at hz
  exact hz

/-- A non-LFE channel never reaches an LFE output: zero gain at every LFE position of the layout. -/
theorem ds_nonlfe_never_lfe_out (L : Layout) (b : Block) (g : Geo) (hL : layoutOk L = true) (hg : GeoOk L b g)
    (hc : PackConsistent ituPacks b) (hlfe : isLfeChannel b = false) (e : Exit) (pv : List Rat)
    (h : handle rules ituPacks L b g = .ok (e, pv)) :
    ∀ i : Nat, L.isLfe[i]? = some true → pv[i]? = some 0 := by
  obtain ⟨pv0, h0, rfl⟩ := handle_ok h
  have hf := handleNoGain_facts rules_ok hL hg.1 h0
  have hz := zeroOff_scale b (hf.lfe hc)
  rw [hlfe] at hz
  exact hz

/-- One gain per loudspeaker of the layout. -/
theorem ds_length (L : Layout) (b : Block) (g : Geo) (hL : layoutOk L = true) (hg : GeoOk L b g)
    (e : Exit) (pv : List Rat) (h : handle rules ituPacks L b g = .ok (e, pv)) :
    pv.length = L.names.length := by
  obtain ⟨pv0, h0, rfl⟩ := handle_ok h
  have hf := handleNoGain_facts rules_ok hL hg.1 h0
  simp [scale, hf.len]

/-- `PackConsistent` holds for every common-definition channel inside its pack (so the two LFE theorems
    apply to every block that valid ADM can put into a common-definition pack). -/
theorem common_channel_packConsistent (p : CommonPack) (hp : p ∈ commonPacks) (c : CommonChannel)
    (hc : c ∈ p.channels) (gain og : Rat) (mute : Bool) :
    PackConsistent ituPacks (c.block p.id gain og mute) := by
  have h := common_packs_consistent p hp c hc
  simp only [channelConsistent, Bool.and_eq_true, List.all_eq_true, beq_iff_eq] at h
  intro il _ l hl
  have hmem : l ∈ c.labels := by
    simp only [CommonChannel.block] at hl
    exact List.mem_of_mem_head? hl
  have hall := h.2
  rw [hall l hmem]
  simp only [isLfeChannel, CommonChannel.block]
  cases hf : isLfeFreq c.lowPass c.highPass
  · simp only [Bool.false_or]
    apply Eq.symm
    rw [List.any_eq_false]
    intro x hx
    rw [hall x hx, hf]; simp
  · simp

/-- Pass-through: a channel of a common-definition pack whose ITU layout (`itu_packs`) is `L`, rendered to
    `L` (one of the ten BS.2051 layouts), whatever the position-dependent sub-results are, goes to the
    like-named loudspeaker with gain `block gain × object gain` (1 by default) and to no other. -/
theorem ds_passthrough (L : Layout) (hL : L ∈ layouts) (p : CommonPack) (hp : p ∈ commonPacks)
    (hitu : ituPacks.lookup p.id = some L.name) (c : CommonChannel) (hc : c ∈ p.channels)
    (gain og : Rat) (mute : Bool) (g : Geo) :
    ∃ l e, c.labels.head? = some l ∧ nominalSpeakerLabel l ∈ L.names ∧
      handle rules ituPacks L (c.block p.id gain og mute) g =
        .ok (e, (unitVec L.names.length (L.names.idxOf (nominalSpeakerLabel l))).map
              (fun x => x * gain * (if mute then 0 else og))) := by
  have h := passthrough_table
  simp only [passTable, List.all_eq_true, Bool.or_eq_true, bne_iff_ne, ne_eq] at h
  have hcell := (h L hL p hp).resolve_left (fun hne => hne hitu) c hc
  unfold passOk at hcell
  split at hcell
  · cases hcell
  · rename_i l ls hlab
    simp only [Bool.and_eq_true] at hcell
    obtain ⟨hmem, hee⟩ := hcell
    have hearly : earlyExit rules ituPacks L (c.block p.id gain og mute)
        = earlyExit rules ituPacks L (c.block p.id 1 1 false) := rfl
    split at hee
    · rename_i e pv hpv
      have hpv' : pv = unitVec L.names.length (L.names.idxOf (nominalSpeakerLabel l)) := by
        simpa using hee
      refine ⟨l, e, by rw [hlab]; rfl, List.contains_iff_mem.mp hmem, ?_⟩
      unfold handle handleNoGain
      rw [hearly, hpv]
      simp only [CommonChannel.block, scale, objectGainOf, hpv']
      rfl
    · cases hee

/-- Which blocks the real code rejects (and nothing else is rejected): positionOffset set; an empty
    `audioPackFormats` list; no speakerLabel inside an ITU common-definition pack; a point-source result
    of the wrong length on the fallback path. Stated for the error-free direction: if none of the four
    conditions holds, `handle` returns gains, one per loudspeaker. -/
theorem ds_errors_exact (L : Layout) (b : Block) (g : Geo)
    (hoff : b.hasPositionOffset = false) (hpacks : b.packs ≠ some [])
    (hlab : ∀ il, ituLayoutOf ituPacks b = .ok (some il) → b.labels ≠ [])
    (hpsp : ∃ q, scatter L.isLfe g.psp = some q) :
    ∃ e pv, handle rules ituPacks L b g = .ok (e, pv) := by
  have hitu : ∃ o, ituLayoutOf ituPacks b = .ok o := by
    unfold ituLayoutOf
    split
    · exact ⟨_, rfl⟩
    · rename_i ps hps
      split
      · rename_i hlast
        rw [List.getLast?_eq_none_iff] at hlast
        exact absurd (by rw [hps, hlast]) hpacks
      · exact ⟨_, rfl⟩
  obtain ⟨o, ho⟩ := hitu
  have hrs : ∃ o', ruleStage rules ituPacks L b = .ok o' := by
    unfold ruleStage
    rw [ho]
    cases o with
    | none => exact ⟨_, rfl⟩
    | some il =>
      simp only
      split
      · rename_i hnil
        exact absurd hnil (hlab il ho)
      · split <;> exact ⟨_, rfl⟩
  obtain ⟨o', ho'⟩ := hrs
  obtain ⟨q, hq⟩ := hpsp
  have hng : ∃ e pv, handleNoGain rules ituPacks L b g = .ok (e, pv) := by
    unfold handleNoGain
    simp only [hoff, Bool.false_eq_true, if_false]
    unfold earlyExit
    rw [ho']
    cases o' with
    | some pv => exact ⟨.rule, pv, rfl⟩
    | none =>
      dsimp only
      cases hm : labelMatch L (isLfeChannel b) b.labels with
      | some idx => exact ⟨.label, unitVec L.names.length idx, rfl⟩
      | none =>
        dsimp only
        unfold lateExit
        dsimp only
        split
        · exact ⟨_, _, rfl⟩
        · split
          · split <;> exact ⟨_, _, rfl⟩
          · rw [hq]; exact ⟨_, _, rfl⟩
  obtain ⟨e, pv, h⟩ := hng
  exact ⟨e, scale b pv, by simp only [handle, h]⟩

/-- ... and a block with a positionOffset is always rejected. -/
theorem ds_rejects_position_offset (L : Layout) (b : Block) (g : Geo) (h : b.hasPositionOffset = true) :
    handle rules ituPacks L b g = .error .positionOffset := by
  simp [handle, handleNoGain, h]

/-! ## round 2: the geometry inside the model

`handleFull` computes `channels_within_bounds` (polar with `inside_angle_range`, pole rule, elevation and
distance bounds, polar screen edge lock; Cartesian bounds), the LFE-class candidate mask and
`closest_channel_index` (squared distances to the table positions, unique minimum within `tol`) itself.  The
function-level theorems are in `Proofs/C10Geom` (`closestIndex_is_candidate`, `closestIndex_is_min`,
`closestIndex_unique`, `closestIndex_tie_none`, `candidates_same_class`, `closest_same_class`, `handleAzEl_*`),
`Proofs/C10Angle` (`normAngle_spec`, `insideAngleRange_iff`) and `Proofs/C10Sqrt` (`closeTo_iff_sqrt`).
What is left as a parameter: the Cartesian vector of the shifted position, the Cartesian screen edge lock and
the point-source gains (`PspOk`). -/

/-- The regenerated geometry table has an entry of the right shape for each of the ten layouts. -/
def geomShapeOk (L : Layout) : Bool :=
  match geoms.lookup L.name with
  | some G =>
    let n := L.names.length
    G.az.length == n && G.el.length == n && G.dist.length == n && G.pos.length == n && G.allo.length == n
  | none => false

theorem geoms_cover_layouts : layouts.all geomShapeOk = true := by decide +kernel

/-- The only hypothesis left on the geometry: the point-source panner result. -/
def PspOk (gi : GeoIn) : Prop := (∀ x ∈ gi.psp, 0 ≤ x) ∧ sumSq gi.psp ≤ slack

theorem geo_ds_nonneg (L : Layout) (G : LayoutGeom) (b : Block) (gi : GeoIn) (hL : layoutOk L = true)
    (hp : PspOk gi) (hgain : 0 ≤ b.gain) (hog : 0 ≤ b.objectGain) (e : Exit) (pv : List Rat)
    (h : handleFull rules ituPacks L G b gi = .ok (e, pv)) : ∀ x ∈ pv, 0 ≤ x :=
  ds_nonneg L b _ hL (geoOf_ok hp.1 hp.2) hgain hog e pv h

theorem geo_ds_power_le (L : Layout) (G : LayoutGeom) (b : Block) (gi : GeoIn) (hL : layoutOk L = true)
    (hp : PspOk gi) (e : Exit) (pv : List Rat) (h : handleFull rules ituPacks L G b gi = .ok (e, pv)) :
    sumSq pv ≤ (b.gain * objectGainOf b) * (b.gain * objectGainOf b) * slack :=
  ds_power_le L b _ hL (geoOf_ok hp.1 hp.2) e pv h

/-- LFE channel ⇒ only LFE outputs, with NO hypothesis on the geometry: the closest-loudspeaker exit is
    covered by `closestIndex_is_candidate` on the masked candidate set. -/
theorem geo_ds_lfe_in_only_lfe_out (L : Layout) (G : LayoutGeom) (b : Block) (gi : GeoIn)
    (hL : layoutOk L = true) (hc : PackConsistent ituPacks b) (hlfe : isLfeChannel b = true)
    (e : Exit) (pv : List Rat) (h : handleFull rules ituPacks L G b gi = .ok (e, pv)) :
    ∀ i : Nat, L.isLfe[i]? = some false → pv[i]? = some 0 := by
  unfold handleFull at h
  obtain ⟨pv0, h0, rfl⟩ := handle_ok h
  have hf := handleNoGain_facts rules_ok hL (fun _ hcl => closestIndex_is_candidate hcl) h0
  have hz := zeroOff_scale b (hf.lfe hc)
  rw [hlfe] at hz
  exact hz

/-- Non-LFE channel ⇒ never an LFE output, with NO hypothesis on the geometry. -/
theorem geo_ds_nonlfe_never_lfe_out (L : Layout) (G : LayoutGeom) (b : Block) (gi : GeoIn)
    (hL : layoutOk L = true) (hc : PackConsistent ituPacks b) (hlfe : isLfeChannel b = false)
    (e : Exit) (pv : List Rat) (h : handleFull rules ituPacks L G b gi = .ok (e, pv)) :
    ∀ i : Nat, L.isLfe[i]? = some true → pv[i]? = some 0 := by
  unfold handleFull at h
  obtain ⟨pv0, h0, rfl⟩ := handle_ok h
  have hf := handleNoGain_facts rules_ok hL (fun _ hcl => closestIndex_is_candidate hcl) h0
  have hz := zeroOff_scale b (hf.lfe hc)
  rw [hlfe] at hz
  exact hz

theorem geo_ds_length (L : Layout) (G : LayoutGeom) (b : Block) (gi : GeoIn) (hL : layoutOk L = true)
    (e : Exit) (pv : List Rat) (h : handleFull rules ituPacks L G b gi = .ok (e, pv)) :
    pv.length = L.names.length := by
  unfold handleFull at h
  obtain ⟨pv0, h0, rfl⟩ := handle_ok h
  have hf := handleNoGain_facts rules_ok hL (fun _ hcl => closestIndex_is_candidate hcl) h0
  simp [scale, hf.len]

/-- The `closest` exit, spelled out: the gain vector is the unit vector (× gains) of a loudspeaker `c` that
    is within the bounds, has the LFE class of the block, is at minimal distance among the candidates, and
    every other candidate is farther than `min_dist + tol`. -/
theorem geo_closest_exit (L : Layout) (G : LayoutGeom) (b : Block) (gi : GeoIn) (pv : List Rat)
    (h : handleFull rules ituPacks L G b gi = .ok (.closest, pv)) :
    ∃ c, pv = scale b (unitVec L.names.length c) ∧
      (withinBounds G gi.pos gi.tol)[c]? = some true ∧ L.isLfe[c]? = some (isLfeChannel b) ∧
      ∀ j, (candidates L (isLfeChannel b) (withinBounds G gi.pos gi.tol))[j]? = some true →
        sqDist ((positionsFor G gi.pos).getD c (0, 0, 0)) gi.cartPos
            ≤ sqDist ((positionsFor G gi.pos).getD j (0, 0, 0)) gi.cartPos ∧
        (j ≠ c → closeTo (sqDist ((positionsFor G gi.pos).getD c (0, 0, 0)) gi.cartPos) gi.tol
            (sqDist ((positionsFor G gi.pos).getD j (0, 0, 0)) gi.cartPos) = false) := by
  unfold handleFull at h
  obtain ⟨pv0, h0, rfl⟩ := handle_ok h
  unfold handleNoGain at h0
  split at h0
  · cases h0
  · split at h0
    · cases h0
    · -- early exits are `rule` / `label`, never `closest`
      rename_i r hr
      injection h0 with h0; subst h0
      unfold earlyExit at hr
      split at hr
      · cases hr
      · injection hr with hr; injection hr with hr; injection hr with he _; cases he
      · split at hr
        · injection hr with hr; injection hr with hr; injection hr with he _; cases he
        · cases hr
    · unfold lateExit at h0
      simp only at h0
      split at h0
      · rename_i c hc
        injection h0 with h0; injection h0 with _ h0; subst h0
        have hcs : closestIndex (positionsFor G gi.pos) gi.cartPos
            (candidates L (isLfeChannel b) (withinBounds G gi.pos gi.tol)) gi.tol = some c := by
          split at hc
          · exact hc
          · cases hc
        have hcand := closestIndex_is_candidate hcs
        have hcl := candidates_same_class hcand
        exact ⟨c, rfl, hcl.2, hcl.1, fun j hj =>
          ⟨closestIndex_is_min hcs j hj, fun hne => closestIndex_unique hcs j hj hne⟩⟩
      · split at h0
        · split at h0 <;> (injection h0 with h0; injection h0 with he _; cases he)
        · split at h0
          · injection h0 with h0; injection h0 with he _; cases he
          · cases h0

/-- Pass-through with the geometry inside the model (it is never consulted). -/
theorem geo_ds_passthrough (L : Layout) (hL : L ∈ layouts) (G : LayoutGeom) (p : CommonPack) (hp : p ∈ commonPacks)
    (hitu : ituPacks.lookup p.id = some L.name) (c : CommonChannel) (hc : c ∈ p.channels)
    (gain og : Rat) (mute : Bool) (gi : GeoIn) :
    ∃ l e, c.labels.head? = some l ∧ nominalSpeakerLabel l ∈ L.names ∧
      handleFull rules ituPacks L G (c.block p.id gain og mute) gi =
        .ok (e, (unitVec L.names.length (L.names.idxOf (nominalSpeakerLabel l))).map
              (fun x => x * gain * (if mute then 0 else og))) :=
  ds_passthrough L hL p hp hitu c hc gain og mute _

/-! ## round 7: nothing captured — position glue and both fallback panners inside the model

`handleC` (`Model/DirectSpeakersConcrete.lean`) computes, over a scalar type, the Cartesian vector of the shifted
polar position (`common.cart`), the Cartesian screen edge lock (`point_cart_to_polar` → `lock_to_screen_edge` →
`compensate_position` → `point_polar_to_cart`), `closest_channel_index` with the code's square roots, and the gains
of the fallback panner: `point_source.configure(layout.without_lfe).handle` for polar blocks (the C05 model walked
over its regenerated table) and `AllocentricPanner(positions_for_layout(layout.without_lfe)).handle` for Cartesian
blocks (the C01/C13 model).  The theorems below are over ℝ and have NO hypothesis on any gain or geometric
sub-result: what is left are decidable table obligations (`envOkB`, discharged for the ten layouts by
`concrete_tables_ok`) and the sign of the block's own gains.  `handleC = .ok …` is the statement "the code returned
gains": a fallback panner that has no answer is an error of the model (`pspNone`), not a hypothesis. -/

/-- table obligations of one layout's environment: `is_lfe` ⇔ name is LFE1/LFE2 (C10 table), the C05 region table is
    well-formed (`RawLayout.wellFormed`, the C05 obligation), the allocentric fallback positions are pairwise
    distinct (the obligation of `allo_unit_power_distinct`, C01/C13) -/
def envOkB (E : CEnv) : Bool :=
  layoutOk E.L && E.psp.wellFormed && C13.distinctB (E.alloPsp.map ratP3)

/-- 1 + 2⁻⁴⁰ as a real number -/
noncomputable def slackR : ℝ := ((slack : Rat) : ℝ)

theorem slackR_ge_one : (1 : ℝ) ≤ slackR := by
  have := slack_ge_one
  unfold slackR
  exact_mod_cast this

/-- Facts established at each exit of the concrete model (real gains). -/
structure ExitFactsR (L : Layout) (lfe : Bool) (pv : List ℝ) (cons : Prop) : Prop where
  nonneg : GainCalc.Nonneg pv
  power : GainCalc.sumSq pv ≤ slackR
  lfe : cons → ZeroOffR L.isLfe lfe pv
  len : pv.length = L.names.length

theorem ExitFactsR.of_rat {L : Layout} {lfe : Bool} {pvQ : List Rat} {cons : Prop}
    (h : ExitFacts L lfe pvQ cons True) : ExitFactsR L lfe (castV pvQ) cons :=
  ⟨castV_nonneg (h.nonneg trivial),
   by rw [sumSq_castV]; unfold slackR; exact_mod_cast h.power trivial,
   fun hc => zeroOff_castV (h.lfe hc),
   by rw [length_castV, h.len]⟩

/-- the two early exits of the rational decision structure (they do not look at the position) -/
theorem earlyExit_facts {R : List MappingRule} {P : List (String × String)} {L : Layout} {b : Block}
    (hR : ∀ r ∈ R, ruleOk r = true) (hL : layoutOk L = true) {e : Exit} {pv : List Rat}
    (h : earlyExit R P L b = .ok (some (e, pv))) :
    ExitFacts L (isLfeChannel b) pv (PackConsistent P b) True := by
  unfold earlyExit at h
  split at h
  · cases h
  · rename_i pv' hrs
    injection h with h; injection h with h; injection h with _ h; subst h
    exact ruleStage_facts hR hL hrs _
  · split at h
    · rename_i idx hm
      injection h with h; injection h with h; injection h with _ h; subst h
      exact label_facts hL hm _ _
    · cases h

/-- the fallback panner of the concrete model: non-negative, Σ² ≤ 1, whenever it answers — polar blocks by the C05
    theorems over the well-formed table, Cartesian blocks by the C01/C13 theorems over the distinct positions -/
theorem fallbackC_contract (E : CEnv) (hE : envOkB E = true) (s : Shifted ℝ) (g : List ℝ)
    (h : fallbackC E s = .ok g) : GainCalc.Nonneg g ∧ GainCalc.sumSq g ≤ 1 := by
  simp only [envOkB, Bool.and_eq_true] at hE
  obtain ⟨⟨_, hwf⟩, hd⟩ := hE
  unfold fallbackC at h
  split at h
  · split at h
    · cases h
    · rename_i g' hg
      injection h with h; subst h
      exact pspHandle_nonneg_le_one E.psp hwf s.pan g' hg
  · simp only at h
    split at h
    · cases h
    · rename_i st hst
      split at h
      · cases h
      · rename_i g' hg
        injection h with h; subst h
        obtain ⟨h1, h2⟩ := allo_fallback_contract E.alloPsp hd st hst _ _ _ g' hg
        exact ⟨h1, by rw [h2]⟩

theorem handleNoGainC_facts (E : CEnv) (hE : envOkB E = true) (P : Conv.Params ℝ) (b : Block) (pos : PositionC)
    (tol : Rat) {e : Exit} {pv : List ℝ} (h : handleNoGainC rules ituPacks E P b pos tol = .ok (e, pv)) :
    ExitFactsR E.L (isLfeChannel b) pv (PackConsistent ituPacks b) := by
  have hL : layoutOk E.L = true := by
    simp only [envOkB, Bool.and_eq_true] at hE; exact hE.1.1
  unfold handleNoGainC at h
  split at h
  · cases h
  · split at h
    · cases h
    · rename_i r hr
      injection h with h; injection h with h1 h2; subst h1; subst h2
      exact ExitFactsR.of_rat (earlyExit_facts rules_ok hL (e := r.1) (pv := r.2) hr)
    · split at h
      · cases h
      · rename_i s hs
        simp only at h
        rcases lateExitC_cases h with ⟨pvQ, hq, _, rfl⟩ | ⟨_, hlfe, g, hg, hsc⟩
        · refine ExitFactsR.of_rat (lateExit_facts hL ?_ (fun _ x hx => by simp at hx) (fun _ => ?_) hq _)
          · intro c hc
            exact closestIndexC_is_candidate hc
          · exact le_trans (show sumSq ([] : List Rat) ≤ 1 by decide) slack_ge_one
        · obtain ⟨hn, hp⟩ := fallbackC_contract E hE s g hg
          obtain ⟨h1, h2, h3, h4⟩ := scatterC_spec _ _ _ hsc
          refine ⟨h1 hn, by rw [h2]; exact le_trans hp slackR_ge_one, fun _ => by rw [hlfe]; exact h4,
            by rw [h3, isLfe_length hL]⟩

theorem handleC_ok {E : CEnv} {P : Conv.Params ℝ} {b : Block} {pos : PositionC} {tol : Rat} {e : Exit} {pv : List ℝ}
    (h : handleC rules ituPacks E P b pos tol = .ok (e, pv)) :
    ∃ pv0, handleNoGainC rules ituPacks E P b pos tol = .ok (e, pv0) ∧ pv = scaleC b pv0 := by
  unfold handleC at h
  split at h
  · cases h
  · rename_i e' pv0 h0
    injection h with h; injection h with h1 h2
    subst h1; subst h2
    exact ⟨pv0, h0, rfl⟩

/-- **Gains are non-negative, nothing captured**: every block with block gain ≥ 0 and object gain ≥ 0, polar or
    Cartesian position with bounds and screen edge lock, on every environment satisfying the table obligations. -/
theorem geo_ds_nonneg_concrete (E : CEnv) (hE : envOkB E = true) (P : Conv.Params ℝ) (b : Block) (pos : PositionC)
    (tol : Rat) (hgain : 0 ≤ b.gain) (hog : 0 ≤ b.objectGain) (e : Exit) (pv : List ℝ)
    (h : handleC rules ituPacks E P b pos tol = .ok (e, pv)) : ∀ x ∈ pv, 0 ≤ x := by
  obtain ⟨pv0, h0, rfl⟩ := handleC_ok h
  exact scaleC_nonneg (handleNoGainC_facts E hE P b pos tol h0).nonneg hgain hog

/-- **Never amplify, nothing captured**: Σ g² ≤ (block gain × object gain)² · (1 + 2⁻⁴⁰); the slack is needed only
    for the mapping-rule exit (float64 roundings of the √ table values), the panner exits have Σ g² ≤ (…)². -/
theorem geo_ds_power_le_concrete (E : CEnv) (hE : envOkB E = true) (P : Conv.Params ℝ) (b : Block) (pos : PositionC)
    (tol : Rat) (e : Exit) (pv : List ℝ) (h : handleC rules ituPacks E P b pos tol = .ok (e, pv)) :
    (pv.map fun x => x * x).sum ≤ (gainR b * gainR b) * slackR := by
  obtain ⟨pv0, h0, rfl⟩ := handleC_ok h
  have hf := handleNoGainC_facts E hE P b pos tol h0
  have hs : ((scaleC b pv0).map fun x => x * x).sum = GainCalc.sumSq (scaleC b pv0) := by
    rw [GainCalc.sumSq_eq_sum_sq, GainCalc.sum_eq_listSum]; rfl
  rw [hs, sumSq_scaleC]
  have hsq := mul_self_nonneg (gainR b)
  nlinarith [hf.power]

/-- the panner exit alone has no slack: Σ g² ≤ (block gain × object gain)² -/
theorem geo_ds_power_le_concrete_point_source (E : CEnv) (hE : envOkB E = true) (P : Conv.Params ℝ) (b : Block)
    (pos : PositionC) (tol : Rat) (pv : List ℝ) (h : handleC rules ituPacks E P b pos tol = .ok (.pointSource, pv)) :
    (pv.map fun x => x * x).sum ≤ gainR b * gainR b := by
  obtain ⟨pv0, h0, rfl⟩ := handleC_ok h
  have hs : ((scaleC b pv0).map fun x => x * x).sum = GainCalc.sumSq (scaleC b pv0) := by
    rw [GainCalc.sumSq_eq_sum_sq, GainCalc.sum_eq_listSum]; rfl
  rw [hs, sumSq_scaleC]
  have hsq := mul_self_nonneg (gainR b)
  suffices hp : GainCalc.sumSq pv0 ≤ 1 by nlinarith
  unfold handleNoGainC at h0
  split at h0
  · cases h0
  · split at h0
    · cases h0
    · -- early exits are `rule` / `label`
      rename_i r hr
      injection h0 with h0; injection h0 with he _
      unfold earlyExit at hr
      split at hr
      · cases hr
      · injection hr with hr; injection hr with hr; rw [← hr] at he; cases he
      · split at hr
        · injection hr with hr; injection hr with hr; rw [← hr] at he; cases he
        · cases hr
    · split at h0
      · cases h0
      · rename_i s hs'
        simp only at h0
        rcases lateExitC_cases h0 with ⟨_, _, hne, _⟩ | ⟨_, _, g, hg, hsc⟩
        · exact absurd rfl hne
        · obtain ⟨_, hp⟩ := fallbackC_contract E hE s g hg
          obtain ⟨_, h2, _, _⟩ := scatterC_spec _ _ _ hsc
          rw [h2]; exact hp

/-- LFE channel ⇒ only LFE outputs, nothing captured. -/
theorem geo_ds_lfe_in_only_lfe_out_concrete (E : CEnv) (hE : envOkB E = true) (P : Conv.Params ℝ) (b : Block)
    (pos : PositionC) (tol : Rat) (hc : PackConsistent ituPacks b) (hlfe : isLfeChannel b = true)
    (e : Exit) (pv : List ℝ) (h : handleC rules ituPacks E P b pos tol = .ok (e, pv)) :
    ∀ i : Nat, E.L.isLfe[i]? = some false → pv[i]? = some 0 := by
  obtain ⟨pv0, h0, rfl⟩ := handleC_ok h
  have hz := zeroOff_scaleC b ((handleNoGainC_facts E hE P b pos tol h0).lfe hc)
  rw [hlfe] at hz
  exact hz

/-- Non-LFE channel ⇒ never an LFE output, nothing captured (in particular the fallback panner's gains go to the
    non-LFE slots only). -/
theorem geo_ds_nonlfe_never_lfe_out_concrete (E : CEnv) (hE : envOkB E = true) (P : Conv.Params ℝ) (b : Block)
    (pos : PositionC) (tol : Rat) (hc : PackConsistent ituPacks b) (hlfe : isLfeChannel b = false)
    (e : Exit) (pv : List ℝ) (h : handleC rules ituPacks E P b pos tol = .ok (e, pv)) :
    ∀ i : Nat, E.L.isLfe[i]? = some true → pv[i]? = some 0 := by
  obtain ⟨pv0, h0, rfl⟩ := handleC_ok h
  have hz := zeroOff_scaleC b ((handleNoGainC_facts E hE P b pos tol h0).lfe hc)
  rw [hlfe] at hz
  exact hz

theorem geo_ds_length_concrete (E : CEnv) (hE : envOkB E = true) (P : Conv.Params ℝ) (b : Block) (pos : PositionC)
    (tol : Rat) (e : Exit) (pv : List ℝ) (h : handleC rules ituPacks E P b pos tol = .ok (e, pv)) :
    pv.length = E.L.names.length := by
  obtain ⟨pv0, h0, rfl⟩ := handleC_ok h
  rw [length_scaleC, (handleNoGainC_facts E hE P b pos tol h0).len]

/-- Pass-through with nothing captured (position and panners are never consulted): the gains are the rational
    unit vector × block gain × object gain, as real numbers. -/
theorem geo_ds_passthrough_concrete (E : CEnv) (hL : E.L ∈ layouts) (P : Conv.Params ℝ) (p : CommonPack)
    (hp : p ∈ commonPacks) (hitu : ituPacks.lookup p.id = some E.L.name) (c : CommonChannel) (hc : c ∈ p.channels)
    (gain og : Rat) (mute : Bool) (pos : PositionC) (tol : Rat) :
    ∃ l e, c.labels.head? = some l ∧ nominalSpeakerLabel l ∈ E.L.names ∧
      handleC rules ituPacks E P (c.block p.id gain og mute) pos tol =
        .ok (e, scaleC (c.block p.id gain og mute)
              (castV (unitVec E.L.names.length (E.L.names.idxOf (nominalSpeakerLabel l))))) := by
  have h := passthrough_table
  simp only [passTable, List.all_eq_true, Bool.or_eq_true, bne_iff_ne, ne_eq] at h
  have hcell := (h E.L hL p hp).resolve_left (fun hne => hne hitu) c hc
  unfold passOk at hcell
  split at hcell
  · cases hcell
  · rename_i l ls hlab
    simp only [Bool.and_eq_true] at hcell
    obtain ⟨hmem, hee⟩ := hcell
    have hearly : earlyExit rules ituPacks E.L (c.block p.id gain og mute)
        = earlyExit rules ituPacks E.L (c.block p.id 1 1 false) := rfl
    split at hee
    · rename_i e pv hpv
      have hpv' : pv = unitVec E.L.names.length (E.L.names.idxOf (nominalSpeakerLabel l)) := by
        simpa using hee
      refine ⟨l, e, by rw [hlab]; rfl, List.contains_iff_mem.mp hmem, ?_⟩
      unfold handleC handleNoGainC
      rw [hearly, hpv]
      simp only [CommonChannel.block, hpv']
      rfl
    · cases hee

/-! ### which blocks the concrete model rejects: the Cartesian path without screen edge lock -/

/-- the allocentric fallback on a non-empty set of pairwise distinct positions always answers, one gain per position -/
theorem fallbackC_cart_total (E : CEnv) (hE : envOkB E = true) (hne : E.alloPsp ≠ [])
    (hcount : E.alloPsp.length = (E.L.isLfe.filter (!·)).length) (s : Shifted ℝ)
    (hs : s.polar = false) : ∃ g, fallbackC E s = .ok g ∧ g.length = (E.L.isLfe.filter (!·)).length := by
  simp only [envOkB, Bool.and_eq_true] at hE
  obtain ⟨_, hd⟩ := hE
  have e : (E.alloPsp.map fun p => (GainCalc.toP3 (cast3 p) : Zone.P3 ℝ)) = (E.alloPsp.map ratP3).map C13.castP3 := by
    rw [List.map_map]; exact List.map_congr_left (fun p _ => toP3_cast3 p)
  have hdist := C13.distinct_cast _ hd
  obtain ⟨st, hst, hts, hm⟩ := C13.speakerTree_spec _ hdist
  have hne' : (E.alloPsp.map ratP3).map C13.castP3 ≠ [] := by simpa using hne
  obtain ⟨r, hr⟩ := GainCalc.alloHandle_total ((E.alloPsp.map ratP3).map C13.castP3).length st s.pan.1 s.pan.2.1
    s.pan.2.2 (treeNonempty_of_spec _ hne' st hts hm)
  obtain ⟨_, _, hlen⟩ := GainCalc.allo_unit_power_distinct _ hdist st hst _ _ _ r hr
  refine ⟨r, ?_, by rw [← hcount]; simpa using hlen⟩
  unfold fallbackC
  simp only [hs, Bool.false_eq_true, if_false, e, hst, hr]

/-- the early exits do not fail unless the block is one of the three rejected kinds -/
theorem earlyExit_ok (L : Layout) (b : Block) (hpacks : b.packs ≠ some [])
    (hlab : ∀ il, ituLayoutOf ituPacks b = .ok (some il) → b.labels ≠ []) :
    ∃ o, earlyExit rules ituPacks L b = .ok o := by
  have hitu : ∃ o, ituLayoutOf ituPacks b = .ok o := by
    unfold ituLayoutOf
    split
    · exact ⟨_, rfl⟩
    · rename_i ps hps
      split
      · rename_i hlast
        rw [List.getLast?_eq_none_iff] at hlast
        exact absurd (by rw [hps, hlast]) hpacks
      · exact ⟨_, rfl⟩
  obtain ⟨o, ho⟩ := hitu
  have hrs : ∃ o', ruleStage rules ituPacks L b = .ok o' := by
    unfold ruleStage
    rw [ho]
    cases o with
    | none => exact ⟨_, rfl⟩
    | some il =>
      simp only
      split
      · rename_i hnil
        exact absurd hnil (hlab il ho)
      · split <;> exact ⟨_, rfl⟩
  obtain ⟨o', ho'⟩ := hrs
  unfold earlyExit
  rw [ho']
  cases o' with
  | some pv => exact ⟨_, rfl⟩
  | none =>
    dsimp only
    cases labelMatch L (isLfeChannel b) b.labels <;> exact ⟨_, rfl⟩

/-- **Cartesian blocks without screenEdgeLock are never rejected by the fallback**: unless the block has a
    positionOffset, an empty audioPackFormats list or no speakerLabel inside an ITU pack, `handle` returns gains —
    `AllocentricPanner.handle` always answers (C01 `alloHandle_total`, C13 `speakerTree_spec`).
    PARTIAL as a statement about one environment satisfying `envOkB` only (any layout table, arbitrary conversion
    parameters): it does not cover the polar path nor Cartesian blocks WITH a screenEdgeLock.  Both are proved on the ten
    layouts below (round 8: `handleC_total_layouts`, `handleC_total_polar_layouts`, `handleC_total_cart_layouts`), where
    C05 totality and the totality of the C19 conversion on its table are available; this lemma is kept because it
    holds for every `P` and every environment. -/
theorem handleC_total_cart_partial (E : CEnv) (hE : envOkB E = true) (hne : E.alloPsp ≠ [])
    (hcount : E.alloPsp.length = (E.L.isLfe.filter (!·)).length) (P : Conv.Params ℝ) (b : Block)
    (hoff : b.hasPositionOffset = false) (hpacks : b.packs ≠ some [])
    (hlab : ∀ il, ituLayoutOf ituPacks b = .ok (some il) → b.labels ≠ []) (x y z : Bound) (tol : Rat) :
    ∃ e pv, handleC rules ituPacks E P b (.cart x y z ⟨none, none⟩) tol = .ok (e, pv) := by
  suffices h : ∃ e pv, handleNoGainC rules ituPacks E P b (.cart x y z ⟨none, none⟩) tol = .ok (e, pv) by
    obtain ⟨e, pv, h⟩ := h
    exact ⟨e, scaleC b pv, by simp only [handleC, h]⟩
  obtain ⟨o, ho⟩ := earlyExit_ok E.L b hpacks hlab
  unfold handleNoGainC
  simp only [hoff, Bool.false_eq_true, if_false, ho]
  cases o with
  | some r => exact ⟨_, _, rfl⟩
  | none =>
    simp only [shift, handleVectorCart_no_lock]
    exact lateExitC_total _ _ _ _ _ (fun _ => fallbackC_cart_total E hE hne hcount _ rfl)


/-- ... and they reach the allocentric panner exactly when the block is not an LFE channel, no early exit applies
    and no loudspeaker of its class is within the bounds -/
theorem handleC_cart_point_source (E : CEnv) (hE : envOkB E = true) (hne : E.alloPsp ≠ [])
    (hcount : E.alloPsp.length = (E.L.isLfe.filter (!·)).length) (P : Conv.Params ℝ) (b : Block)
    (hoff : b.hasPositionOffset = false) (hearly : earlyExit rules ituPacks E.L b = .ok none)
    (hlfe : isLfeChannel b = false) (x y z : Bound) (tol : Rat)
    (hwb : (candidates E.L false (cartWithinC (E.G.allo.map cast3 : List (GainCalc.V3 ℝ)) ⟨(GainCalc.k x.value : ℝ), x.min, x.max⟩
      ⟨(GainCalc.k y.value : ℝ), y.min, y.max⟩ ⟨(GainCalc.k z.value : ℝ), z.min, z.max⟩ (GainCalc.k tol : ℝ))).any id = false) :
    ∃ pv, handleC rules ituPacks E P b (.cart x y z ⟨none, none⟩) tol = .ok (.pointSource, pv) := by
  suffices h : ∃ pv, handleNoGainC rules ituPacks E P b (.cart x y z ⟨none, none⟩) tol = .ok (.pointSource, pv) by
    obtain ⟨pv, h⟩ := h
    exact ⟨scaleC b pv, by simp only [handleC, h]⟩
  unfold handleNoGainC
  simp only [hoff, Bool.false_eq_true, if_false, hearly, shift, handleVectorCart_no_lock, hlfe]
  unfold lateExitC
  simp only [hwb, Bool.false_eq_true, if_false]
  obtain ⟨g, hg, hlen⟩ := fallbackC_cart_total E hE hne hcount
    (Shifted.mk (α := ℝ) (cartWithinC (α := ℝ) (E.G.allo.map cast3) ⟨GainCalc.k x.value, x.min, x.max⟩
        ⟨GainCalc.k y.value, y.min, y.max⟩ ⟨GainCalc.k z.value, z.min, z.max⟩ (GainCalc.k tol))
      (GainCalc.k x.value, GainCalc.k y.value, GainCalc.k z.value)
      (GainCalc.k x.value, GainCalc.k y.value, GainCalc.k z.value) (E.G.allo.map cast3) false) rfl
  rw [hg]
  obtain ⟨pv, hpv⟩ := scatterC_total E.L.isLfe g hlen
  simp only [hpv]
  exact ⟨_, rfl⟩

/-! ### the ten layouts: environments from the regenerated C10 and C05 tables -/

/-- the environment of every table layout (`mkEnv`: C10 `layouts`, `geoms`, `alloPsp`; C05 `layouts`) -/
def envs : List CEnv :=
  layouts.filterMap fun L => mkEnv layouts geoms alloPsp Earverif.Gen.C05.layouts L.name

/-- Table obligations of the concrete theorems on the tables regenerated from the code on this run: all ten
    layouts have an environment, and every environment satisfies `envOkB`; moreover the number of allocentric
    fallback positions and the number of channels of the C05 panner equal the number of non-LFE slots. -/
theorem concrete_tables_ok :
    envs.map (fun E => E.L.name) = layouts.map (·.name) ∧ envs.length = 10 ∧ envs.all envOkB = true ∧
    envs.all (fun E => E.alloPsp.length == (E.L.isLfe.filter (!·)).length &&
      (if E.psp.stereo.isSome then 2 else E.psp.nReal) == (E.L.isLfe.filter (!·)).length) = true := by
  decide +kernel

theorem geo_ds_nonneg_concrete_layouts (E : CEnv) (hE : E ∈ envs) (P : Conv.Params ℝ) (b : Block) (pos : PositionC)
    (tol : Rat) (hgain : 0 ≤ b.gain) (hog : 0 ≤ b.objectGain) (e : Exit) (pv : List ℝ)
    (h : handleC rules ituPacks E P b pos tol = .ok (e, pv)) : ∀ x ∈ pv, 0 ≤ x :=
  geo_ds_nonneg_concrete E (List.all_eq_true.mp concrete_tables_ok.2.2.1 E hE) P b pos tol hgain hog e pv h

theorem geo_ds_power_le_concrete_layouts (E : CEnv) (hE : E ∈ envs) (P : Conv.Params ℝ) (b : Block) (pos : PositionC)
    (tol : Rat) (e : Exit) (pv : List ℝ) (h : handleC rules ituPacks E P b pos tol = .ok (e, pv)) :
    (pv.map fun x => x * x).sum ≤ (gainR b * gainR b) * slackR :=
  geo_ds_power_le_concrete E (List.all_eq_true.mp concrete_tables_ok.2.2.1 E hE) P b pos tol e pv h

/-! ## without the hypothesis: what the mapping-rule branch does with a frequency-only LFE channel

The mapping-rule branch keys on the first speakerLabel only.  A block that claims to sit in a common-definition
ITU pack but carries an LFE frequency with a main-loudspeaker label is sent to that main loudspeaker: this is
why `PackConsistent` is a hypothesis of the two LFE theorems.  No common-definition channel is like that
(`common_packs_consistent`), and a common-definition pack cannot reference any other channel. -/

def inconsistentBlock : Block :=
  { labels := ["M+000"], lowPass := some 120, highPass := none, packs := some [("AP_00010003", true)],
    hasPositionOffset := false, gain := 1, objectGain := 1, objectMute := false }

theorem rule_branch_ignores_frequency :
    isLfeChannel inconsistentBlock = true ∧
    (layouts.find? (fun L => L.name == "0+5+0")).map
        (fun L => handle rules ituPacks L inconsistentBlock ⟨[], none, []⟩)
      = some (.ok (.rule, [0, 0, 1, 0, 0, 0])) := by decide +kernel

/-! ## non-vacuity: concrete blocks satisfying the hypotheses, one per exit (layout 0+5+0 / 0+2+0) -/

def L050 : Layout := ⟨"0+5+0", ["M+030", "M-030", "M+000", "LFE1", "M+110", "M-110"],
  [false, false, false, true, false, false]⟩
def L020 : Layout := ⟨"0+2+0", ["M+030", "M-030"], [false, false]⟩

def blk (labels : List String) (lowPass : Option Rat) (packs : Option (List (String × Bool))) (gain : Rat) : Block :=
  { labels := labels, lowPass := lowPass, highPass := none, packs := packs, hasPositionOffset := false,
    gain := gain, objectGain := 1, objectMute := false }

example : L050 ∈ layouts ∧ L020 ∈ layouts := by decide +kernel

/-- rule exit: 22.2 `M+060` (URN label) rendered to 0+5+0 is split between M+030 and M+110 -/
example : (handle rules ituPacks L050
    (blk ["urn:itu:bs:2051:0:speaker:M+060"] none (some [("AP_00010009", true)]) 1) ⟨[], none, []⟩).toOption.map
      (fun r => (r.1, r.2.map (fun x => decide (0 < x))))
    = some (.rule, [true, false, false, false, true, false]) := by decide +kernel

/-- label exit with an LFE alias and a block gain -/
example : handle rules ituPacks L050 (blk ["LFEL"] (some 120) none (1 / 2)) ⟨[], none, []⟩
    = .ok (.label, [0, 0, 0, 1 / 2, 0, 0]) := by decide +kernel

/-- closest exit (non-LFE block, candidate mask excludes LFE1) -/
example : handle rules ituPacks L050 (blk ["foo"] none none 1) ⟨[true, true, true, true, false, false], some 2, []⟩
    = .ok (.closest, [0, 0, 1, 0, 0, 0]) := by decide +kernel

/-- LFE by frequency only, no usable label: sent to LFE1; discarded on 0+2+0 -/
example : handle rules ituPacks L050 (blk ["M+000"] (some 200) none 1) ⟨[false, false, false, false, false, false], none, []⟩
    = .ok (.lfeToLfe1, [0, 0, 0, 1, 0, 0]) := by decide +kernel
example : handle rules ituPacks L020 (blk ["LFE2"] none none 1) ⟨[false, false], none, []⟩
    = .ok (.lfeDiscarded, [0, 0]) := by decide +kernel

/-- point-source exit: the captured panner gains are scattered around the LFE slot -/
example : handle rules ituPacks L050 (blk [] (some 201) none 1)
      ⟨[false, false, false, false, false, false], none, [3 / 5, 0, 4 / 5, 0, 0]⟩
    = .ok (.pointSource, [3 / 5, 0, 4 / 5, 0, 0, 0]) := by decide +kernel

/-- the hypotheses are satisfiable on such inputs -/
example : GeoOk L050 (blk ["foo"] none none 1) ⟨[true, true, true, true, false, false], some 2, [3 / 5, 0, 4 / 5, 0, 0]⟩ := by
  refine ⟨?_, ?_, ?_⟩
  · intro c hc
    have : c = 2 := by simpa using hc.symm
    subst this; decide +kernel
  · decide +kernel
  · decide +kernel

example : PackConsistent ituPacks (blk ["foo"] (some 120) none 1) := by
  intro il h; simp [ituLayoutOf, blk] at h

/-- the URN parser on the corner cases of the regexp -/
example : [ "urn:itu:bs:2051:0:speaker:M+030", "urn:itu:bs:2051:12:speaker:LFER", "urn:itu:bs:2051::speaker:M+030",
            "urn:itu:bs:2051:0:speaker:M+030\n", "urn:itu:bs:2051:0:speaker:M+0\n30", "LFE", "lfe",
            "xurn:itu:bs:2051:0:speaker:M+030" ].map nominalSpeakerLabel
    = [ "M+030", "LFE2", "urn:itu:bs:2051::speaker:M+030", "M+030", "urn:itu:bs:2051:0:speaker:M+0\n30", "LFE1", "lfe",
        "xurn:itu:bs:2051:0:speaker:M+030" ] := by decide +kernel

/-! ### non-vacuity of the geometric model (layouts and positions from the regenerated tables) -/

def fullOn (lname : String) (b : Block) (gi : GeoIn) : Option (Except DsError (Exit × List Rat)) :=
  match layouts.find? (fun L => L.name == lname), geoms.lookup lname with
  | some L, some G => some (handleFull rules ituPacks L G b gi)
  | _, _ => none

def bnd (v : Rat) (lo hi : Option Rat := none) : Bound := ⟨v, lo, hi⟩
def tol5 : Rat := 1 / 100000

/-- closest exit: azimuth 10° with bounds [0°, 40°] on 0+5+0 → M+000 (M+030 is within bounds but farther) -/
example : fullOn "0+5+0" (blk ["foo"] none none 1)
    ⟨.polar (bnd 10 (some 0) (some 40)) (bnd 0) (bnd 1) ⟨none, none⟩, tol5, (-17365 / 100000, 98481 / 100000, 0), []⟩
    = some (.ok (.closest, [0, 0, 1, 0, 0, 0])) := by decide +kernel

/-- the LFE-class mask: an LFE-by-frequency block at the front with wide bounds (M+030, M-030, M+000 and LFE1
    are all within bounds, M+000 is closest) goes to LFE1, the only candidate of its class -/
example : fullOn "0+5+0" (blk [] (some 120) none 1)
    ⟨.polar (bnd 0 (some (-50)) (some 50)) (bnd 0 (some (-40)) (some 10)) (bnd 1) ⟨none, none⟩, tol5, (0, 1, 0), []⟩
    = some (.ok (.closest, [0, 0, 0, 1, 0, 0])) := by decide +kernel

/-- ... and the same position as a non-LFE block goes to M+000, never to LFE1 -/
example : fullOn "0+5+0" (blk [] none none 1)
    ⟨.polar (bnd 0 (some (-50)) (some 50)) (bnd 0 (some (-40)) (some 10)) (bnd 1) ⟨none, none⟩, tol5, (0, 1, 0), []⟩
    = some (.ok (.closest, [0, 0, 1, 0, 0, 0])) := by decide +kernel

/-- tie ⇒ none: straight ahead on 0+2+0 with bounds [-30°, 30°], M+030 and M-030 are equidistant, so the
    point-source gains are used -/
example : fullOn "0+2+0" (blk [] none none 1)
    ⟨.polar (bnd 0 (some (-30)) (some 30)) (bnd 0) (bnd 1) ⟨none, none⟩, tol5, (0, 1, 0), [3 / 5, 4 / 5]⟩
    = some (.ok (.pointSource, [3 / 5, 4 / 5])) := by decide +kernel

/-- polar screen edge lock: azimuth 0° locked to the left screen edge (29°) is within [20°, 40°] → M+030 -/
example : fullOn "0+5+0" (blk [] none none 1)
    ⟨.polar (bnd 0 (some 20) (some 40)) (bnd 0) (bnd 1) ⟨some "left", none⟩, tol5, (-48481 / 100000, 87462 / 100000, 0), []⟩
    = some (.ok (.closest, [1, 0, 0, 0, 0, 0])) := by decide +kernel

/-- Cartesian bounds: X ∈ [-1, 1] at Y = 1, Z = 0 near X = -0.45 on 9+10+3 → M+000 (as test_dist_bounds_cart) -/
example : (fullOn "9+10+3" (blk [] none none 1)
    ⟨.cart (bnd (-45 / 100) (some (-1)) (some 1)) (bnd 1) (bnd 0), tol5, (-45 / 100, 1, 0), []⟩).map
      (fun r => r.toOption.map (fun q => (q.1, q.2.idxOf 1)))
    = some (some (.closest, 2)) := by decide +kernel

/-! ### non-vacuity of the concrete theorems (real gains, environments from the regenerated tables) -/

theorem envs_L050 : envs.all (fun E => E.L.name != "0+5+0" || E.L == L050) = true := by decide +kernel

/-- the hypotheses of the `_concrete` theorems hold for the 0+5+0 environment of the tables (`envOkB` by
    `concrete_tables_ok`) and a block taking the label exit: the model returns the real gains `[0,0,0,½,0,0]` -/
example : (∃ E ∈ envs, E.L.name = "0+5+0") ∧ ∀ E ∈ envs, E.L.name = "0+5+0" → ∀ P : Conv.Params ℝ,
    handleC rules ituPacks E P (blk ["LFEL"] (some 120) none (1 / 2))
      (.polar (bnd 0) (bnd 0) (bnd 1) ⟨none, none⟩) tol5 = .ok (.label, ([0, 0, 0, 1 / 2, 0, 0] : List ℝ)) := by
  refine ⟨?_, ?_⟩
  · have : envs.any (fun E => E.L.name == "0+5+0") = true := by decide +kernel
    obtain ⟨E, hE, hn⟩ := List.any_eq_true.mp this
    exact ⟨E, hE, by simpa using hn⟩
  · intro E hE hn P
    have h1 := List.all_eq_true.mp envs_L050 E hE
    have hL : E.L = L050 := by simpa [hn] using h1
    have he : earlyExit rules ituPacks L050 (blk ["LFEL"] (some 120) none (1 / 2))
        = .ok (some (.label, [0, 0, 0, 1, 0, 0])) := by decide +kernel
    have hoff : (blk ["LFEL"] (some 120) none (1 / 2)).hasPositionOffset = false := rfl
    simp only [handleC, handleNoGainC, hL, hoff, he, Bool.false_eq_true, if_false]
    simp [scaleC, castV, objectGainOf, blk]


/-- `handleC_total_cart_partial` on the ten layouts (shape obligations from `concrete_tables_ok`) -/
theorem handleC_total_cart_layouts_partial (E : CEnv) (hE : E ∈ envs) (P : Conv.Params ℝ) (b : Block)
    (hoff : b.hasPositionOffset = false) (hpacks : b.packs ≠ some [])
    (hlab : ∀ il, ituLayoutOf ituPacks b = .ok (some il) → b.labels ≠ []) (x y z : Bound) (tol : Rat) :
    ∃ e pv, handleC rules ituPacks E P b (.cart x y z ⟨none, none⟩) tol = .ok (e, pv) := by
  have hok := List.all_eq_true.mp concrete_tables_ok.2.2.1 E hE
  have hsh := List.all_eq_true.mp concrete_tables_ok.2.2.2 E hE
  simp only [Bool.and_eq_true, beq_iff_eq] at hsh
  have hne : E.alloPsp ≠ [] := by
    have h2 : envs.all (fun E => !E.alloPsp.isEmpty) = true := by decide +kernel
    have := List.all_eq_true.mp h2 E hE
    simpa using this
  exact handleC_total_cart_partial E hok hne hsh.1 P b hoff hpacks hlab x y z tol

/-- the hypotheses of `handleC_total_cart_partial` are satisfiable: an unlabelled non-LFE block, on all ten layouts -/
example : ∀ E ∈ envs, ∀ P : Conv.Params ℝ, ∃ e pv,
    handleC rules ituPacks E P (blk [] none none 1) (.cart (bnd (1 / 2)) (bnd 1) (bnd 0) ⟨none, none⟩) tol5 = .ok (e, pv) :=
  fun E hE P => handleC_total_cart_layouts_partial E hE P _ rfl (by simp [blk])
    (by intro il h; simp [ituLayoutOf, blk] at h) _ _ _ _

theorem envs_L020 : envs.all (fun E => E.L.name != "0+2+0" ||
    (E.L == L020 && E.G.allo == [(-1, 1, 0), (1, 1, 0)] && E.alloPsp == [(-1, 1, 0), (1, 1, 0)])) = true := by
  decide +kernel

/-- non-vacuity on the panner exit: an unlabelled block straight ahead in allocentric coordinates on 0+2+0 (no
    loudspeaker within its degenerate bounds) reaches the allocentric panner; by `geo_ds_power_le_concrete_point_source`
    its gains then have Σ² ≤ 1 -/
example : ∀ E ∈ envs, E.L.name = "0+2+0" → ∀ P : Conv.Params ℝ, ∃ pv : List ℝ,
    handleC rules ituPacks E P (blk [] none none 1) (.cart (bnd 0) (bnd 1) (bnd 0) ⟨none, none⟩) tol5
      = .ok (.pointSource, pv) ∧ (pv.map fun x => x * x).sum ≤ 1 := by
  intro E hE hn P
  have h1 := List.all_eq_true.mp envs_L020 E hE
  simp only [hn, bne_self_eq_false, Bool.false_or, Bool.and_eq_true, beq_iff_eq] at h1
  obtain ⟨⟨hL, hallo⟩, hpsp⟩ := h1
  have hok := List.all_eq_true.mp concrete_tables_ok.2.2.1 E hE
  obtain ⟨pv, hpv⟩ := handleC_cart_point_source E hok (by rw [hpsp]; simp) (by rw [hpsp, hL]; rfl) P
    (blk [] none none 1) rfl (by rw [hL]; decide +kernel) (by decide +kernel) (bnd 0) (bnd 1) (bnd 0) tol5
    (by
      rw [hL, hallo]
      simp only [candidates, cartWithinC, cartWithin1C, BoundC.lo, BoundC.hi, cast3, bnd, tol5, L020, List.map,
        Option.map, Option.getD, GainCalc.k_real]
      norm_num)
  refine ⟨pv, hpv, ?_⟩
  have := geo_ds_power_le_concrete_point_source E hok P _ _ _ pv hpv
  simpa [gainR, blk, objectGainOf] using this


/-! ## round 8: which calls are rejected — totality on the ten layouts, one statement for the whole property

`handleC` fails only in the documented ways (`Documented`): positionOffset, an empty audioPackFormats list, no
speakerLabel inside an ITU pack.  Neither fallback panner ever refuses (`pspNone`), the Cartesian screen edge lock never
asserts (`edgeLock`), the allocentric panner is always constructible (`speakerTree`), no gain vector has the wrong
length (`pspShape`).  Ingredients: C05 totality on the ten regenerated region tables
(`PointSource.pspHandle_total_layouts`, Props/C05.lean) — applicable because the polar panning position is
`cart az' el' 1`, of norm 1 (C01 `norm3_cart`), whatever the block's distance (the code pans at unit distance since
/repo 1404dee; before, distance 0 gave the zero vector and NaN gains) —, totality and azimuth range of the C19
conversion on its regenerated table (`Conv.pointCartToPolar_total`, `polar_range_partial`, `pointPolarToCart_total`; the
conversion parameters are `Conv.RP fuel`, any fuel ≥ 1 — the driver runs fuel 4096), `compensate_az_range`, C01
`alloHandle_total` / C13 `speakerTree_spec`. -/

/-- every environment's loudspeaker table is one of the C10 layouts and its point-source table one of the C05 tables -/
theorem envs_mem (E : CEnv) (hE : E ∈ envs) : E.L ∈ layouts ∧ E.psp ∈ Earverif.Gen.C05.layouts := by
  simp only [envs, List.mem_filterMap] at hE
  obtain ⟨L0, _, hL⟩ := hE
  simp only [mkEnv, Option.bind_eq_bind, Option.bind_eq_some_iff, Option.some.injEq] at hL
  obtain ⟨L, hfL, G, _, a, _, T, hfT, rfl⟩ := hL
  exact ⟨List.mem_of_find?_eq_some hfL, List.mem_of_find?_eq_some hfT⟩

/-- Table obligations of the totality theorems on the tables regenerated on this run: the representative screen
    edges are azimuths of [-180, 180] (`edgesOkB`) and every layout has an allocentric fallback position. -/
theorem total_tables_ok : envs.all (fun E => edgesOkB E && !E.alloPsp.isEmpty) = true := by decide +kernel

/-- what `envs` membership gives the totality proofs -/
theorem envs_facts (E : CEnv) (hE : E ∈ envs) :
    envOkB E = true ∧ edgesOkB E = true ∧ E.alloPsp ≠ [] ∧
    E.alloPsp.length = (E.L.isLfe.filter (!·)).length ∧
    (if E.psp.stereo.isSome then 2 else E.psp.nReal) = (E.L.isLfe.filter (!·)).length ∧
    E.psp ∈ Earverif.Gen.C05.layouts := by
  have hok := List.all_eq_true.mp concrete_tables_ok.2.2.1 E hE
  have hsh := List.all_eq_true.mp concrete_tables_ok.2.2.2 E hE
  have ht := List.all_eq_true.mp total_tables_ok E hE
  simp only [Bool.and_eq_true, beq_iff_eq] at hsh
  simp only [Bool.and_eq_true, Bool.not_eq_eq_eq_not, Bool.not_true, List.isEmpty_eq_false_iff] at ht
  exact ⟨hok, ht.1, ht.2, hsh.1, hsh.2, (envs_mem E hE).2⟩

/-- **The documented rejections** of `DirectSpeakersPanner.handle` (nothing else is an outcome on the ten layouts):
    * `ValueError`: the object carries a positionOffset;
    * `IndexError`: `audioPackFormats` is the empty list;
    * `IndexError`: the last pack is an ITU common-definition pack and the block has no speakerLabel. -/
def Documented (b : Block) : CError → Prop
  | .ds .positionOffset => b.hasPositionOffset = true
  | .ds .emptyPackList => b.packs = some []
  | .ds .noLabelInItuPack => b.labels = [] ∧ ∃ il, ituLayoutOf ituPacks b = .ok (some il)
  | _ => False

theorem handleNoGainC_error_layouts (E : CEnv) (hE : E ∈ envs) (m : Nat) (b : Block) (pos : PositionC) (tol : Rat)
    (err : CError) (h : handleNoGainC rules ituPacks E (Conv.RP (m + 1)) b pos tol = .error err) :
    Documented b err := by
  obtain ⟨hok, hedges, hne, hcA, hcP, hmem⟩ := envs_facts E hE
  unfold handleNoGainC at h
  split at h
  · rename_i hoff
    injection h with h; subst h
    exact hoff
  · split at h
    · rename_i e he
      injection h with h; subst h
      rcases earlyExit_error he with ⟨rfl, hp⟩ | ⟨rfl, hl, il, hil⟩
      · exact hp
      · exact ⟨hl, il, hil⟩
    · cases h
    · split at h
      · -- `apply_screen_edge_lock` never fails
        rename_i e hs
        cases pos with
        | polar az el dist sel => simp [shift] at hs
        | cart x y z sel =>
          obtain ⟨q, hq⟩ := handleVectorCart_total E hedges m
            ((GainCalc.k x.value : ℝ), (GainCalc.k y.value : ℝ), (GainCalc.k z.value : ℝ)) sel
          simp only [shift, hq] at hs
          cases hs
      · rename_i s hs
        simp only at h
        obtain ⟨hlfe, hfb⟩ := lateExitC_error h
        -- the fallback panner answers with one gain per non-LFE slot
        have key : ∃ g, fallbackC E s = .ok g ∧ g.length = (E.L.isLfe.filter (!·)).length := by
          cases pos with
          | polar az el dist sel =>
            simp only [shift] at hs
            injection hs with hs
            refine fallbackC_polar_total E hmem hcP s (by rw [← hs]) ?_
            rw [← hs]
            simp only [GainCalc.k_real]
            intro h0
            have := (cart_eq_zero_iff _ _ _).mp h0
            norm_num at this
          | cart x y z sel =>
            simp only [shift] at hs
            split at hs
            · cases hs
            · injection hs with hs
              exact fallbackC_cart_total E hok hne hcA s (by rw [← hs])
        obtain ⟨g, hg, hlen⟩ := key
        rcases hfb with hfb | ⟨g', hg', hsc, _⟩
        · rw [hg] at hfb; cases hfb
        · rw [hg] at hg'
          injection hg' with hg'; subst hg'
          obtain ⟨pv, hpv⟩ := scatterC_total E.L.isLfe g hlen
          rw [hpv] at hsc; cases hsc

/-- **`handleC` fails only in the documented ways**, on the ten layouts, every block kind (polar and Cartesian
    positions, any distance, with bounds, with or without screenEdgeLock). -/
theorem handleC_total_layouts (E : CEnv) (hE : E ∈ envs) (m : Nat) (b : Block) (pos : PositionC) (tol : Rat) :
    (∃ e pv, handleC rules ituPacks E (Conv.RP (m + 1)) b pos tol = .ok (e, pv)) ∨
    (∃ err, handleC rules ituPacks E (Conv.RP (m + 1)) b pos tol = .error err ∧ Documented b err) := by
  unfold handleC
  cases h : handleNoGainC rules ituPacks E (Conv.RP (m + 1)) b pos tol with
  | ok r => exact Or.inl ⟨r.1, scaleC b r.2, rfl⟩
  | error err => exact Or.inr ⟨err, rfl, handleNoGainC_error_layouts E hE m b pos tol err h⟩

/-- the three documented rejections, as hypotheses -/
structure Accepted (b : Block) : Prop where
  noOffset : b.hasPositionOffset = false
  packs : b.packs ≠ some []
  label : ∀ il, ituLayoutOf ituPacks b = .ok (some il) → b.labels ≠ []

theorem ok_of_not_documented {E : CEnv} {P : Conv.Params ℝ} {b : Block} {pos : PositionC} {tol : Rat}
    (h : (∃ e pv, handleC rules ituPacks E P b pos tol = .ok (e, pv)) ∨
      (∃ err, handleC rules ituPacks E P b pos tol = .error err ∧ Documented b err))
    (hb : Accepted b) : ∃ e pv, handleC rules ituPacks E P b pos tol = .ok (e, pv) := by
  rcases h with h | ⟨err, _, hd⟩
  · exact h
  · exfalso
    match err, hd with
    | .ds .positionOffset, hd =>
      have hd' : b.hasPositionOffset = true := hd
      rw [hb.noOffset] at hd'; cases hd'
    | .ds .emptyPackList, hd => exact hb.packs hd
    | .ds .noLabelInItuPack, ⟨hl, il, hil⟩ => exact hb.label il hil hl

/-- **A polar DirectSpeakers block is never rejected by the point-source panner** on the ten layouts: unless the block
    has a positionOffset, an empty audioPackFormats list or no speakerLabel inside an ITU pack, `handle` returns gains —
    for EVERY azimuth, elevation and distance (0 and negative included: the panner is given the direction at unit
    distance), with bounds and screenEdgeLock (C05 totality; the polar path does not use the conversion, so `P` is
    arbitrary). -/
theorem handleC_total_polar_layouts (E : CEnv) (hE : E ∈ envs) (P : Conv.Params ℝ) (b : Block) (hb : Accepted b)
    (az el dist : Bound) (sel : ScreenEdgeLock) (tol : Rat) :
    ∃ e pv, handleC rules ituPacks E P b (.polar az el dist sel) tol = .ok (e, pv) := by
  have hP : handleC rules ituPacks E P b (.polar az el dist sel) tol =
      handleC rules ituPacks E (Conv.RP 1) b (.polar az el dist sel) tol := rfl
  rw [hP]
  exact ok_of_not_documented (handleC_total_layouts E hE 0 b _ tol) hb

/-- **A Cartesian DirectSpeakers block is never rejected**, with or without screenEdgeLock (totality of the C19
    conversion on its table; `AllocentricPanner.handle` always answers). -/
theorem handleC_total_cart_layouts (E : CEnv) (hE : E ∈ envs) (m : Nat) (b : Block) (hb : Accepted b)
    (x y z : Bound) (sel : ScreenEdgeLock) (tol : Rat) :
    ∃ e pv, handleC rules ituPacks E (Conv.RP (m + 1)) b (.cart x y z sel) tol = .ok (e, pv) :=
  ok_of_not_documented (handleC_total_layouts E hE m b _ tol) hb

/-- **The property in one statement, no panner hypothesis**: for every block (labels, frequency, packs, gains, polar or
    Cartesian position with bounds and screenEdgeLock) on each of the ten layouts, `handle` either returns gains — one
    per loudspeaker; non-negative when block gain and object gain are; total power ≤ (gain × object gain)² (1 + 2⁻⁴⁰);
    zero at every output of the other LFE class (an LFE channel reaches only LFE outputs, any other channel never an
    LFE output; for blocks in an ITU pack under `PackConsistent`, which holds for every common-definition channel:
    `common_channel_packConsistent`) — or fails in one of the three documented ways.  Over ℝ: finiteness of the binary64
    results is searched on the real code (the one way the real code produced non-finite gains, 0 / 0 for a polar
    position at distance 0, is gone from code and model: the panning position has norm 1). -/
theorem geo_ds_total_and_bounded_layouts (E : CEnv) (hE : E ∈ envs) (m : Nat) (b : Block) (pos : PositionC)
    (tol : Rat) :
    match handleC rules ituPacks E (Conv.RP (m + 1)) b pos tol with
    | .ok (_, pv) =>
      pv.length = E.L.names.length ∧
      (0 ≤ b.gain → 0 ≤ b.objectGain → ∀ x ∈ pv, 0 ≤ x) ∧
      (pv.map fun x => x * x).sum ≤ (gainR b * gainR b) * slackR ∧
      (PackConsistent ituPacks b → ∀ i : Nat, E.L.isLfe[i]? = some (!isLfeChannel b) → pv[i]? = some 0)
    | .error err => Documented b err := by
  have hok := (envs_facts E hE).1
  split
  · rename_i e pv h
    refine ⟨geo_ds_length_concrete E hok _ b pos tol e pv h,
      fun hg hog => geo_ds_nonneg_concrete E hok _ b pos tol hg hog e pv h,
      geo_ds_power_le_concrete E hok _ b pos tol e pv h, fun hc => ?_⟩
    obtain ⟨pv0, h0, rfl⟩ := handleC_ok h
    exact zeroOff_scaleC b ((handleNoGainC_facts E hok _ b pos tol h0).lfe hc)
  · rename_i err h
    rcases handleC_total_layouts E hE m b pos tol with ⟨e, pv, h'⟩ | ⟨err', h', hd⟩
    · rw [h] at h'; cases h'
    · rw [h] at h'; injection h' with h'; subst h'; exact hd

/-! ### non-vacuity; the former distance-0 failure -/

example : Accepted (blk [] none none 1) :=
  ⟨rfl, by simp [blk], by intro il h; simp [ituLayoutOf, blk] at h⟩

/-- a polar block at distance 0 (the input on which the code returned NaN gains before /repo 1404dee: the panning
    position was the zero vector) gets gains on all ten layouts; likewise one behind the listener at distance 1 -/
example : ∀ E ∈ envs, ∀ P : Conv.Params ℝ, ∃ e pv,
    handleC rules ituPacks E P (blk [] none none 1) (.polar (bnd 0) (bnd 0) (bnd 0) ⟨none, none⟩) tol5 = .ok (e, pv) :=
  fun E hE P => handleC_total_polar_layouts E hE P _ ⟨rfl, by simp [blk], by intro il h; simp [ituLayoutOf, blk] at h⟩
    _ _ _ _ _
example : ∀ E ∈ envs, ∀ P : Conv.Params ℝ, ∃ e pv,
    handleC rules ituPacks E P (blk [] none none 1) (.polar (bnd 180) (bnd 0) (bnd 1) ⟨none, none⟩) tol5 = .ok (e, pv) :=
  fun E hE P => handleC_total_polar_layouts E hE P _ ⟨rfl, by simp [blk], by intro il h; simp [ituLayoutOf, blk] at h⟩
    _ _ _ _ _
/-- a Cartesian block locked to the left screen edge, on all ten layouts, with the driver's conversion fuel -/
example : ∀ E ∈ envs, ∃ e pv,
    handleC rules ituPacks E (Conv.RP 4096) (blk [] none none 1)
      (.cart (bnd (1 / 2)) (bnd 1) (bnd 0) ⟨some "left", none⟩) tol5 = .ok (e, pv) :=
  fun E hE => handleC_total_cart_layouts E hE 4095 _ ⟨rfl, by simp [blk], by intro il h; simp [ituLayoutOf, blk] at h⟩
    _ _ _ _ _

/-! ### pass-through: the whole (common-definition pack × same layout) matrix -/

/-- Table obligation: the panner's own `itu_packs` dict agrees with the common definitions — every common-definition
    pack whose audioPackFormatName is a BS.2051 URN `urn:itu:bs:2051:<n>:pack:<name>_(<layout>)` (`bs2051NamedPacks`,
    read off the names alone) is listed in `itu_packs` with that layout, is one of `commonPacks`, and every one of the ten
    layouts has at least one pack. -/
theorem named_packs_in_itu_table :
    bs2051NamedPacks.all (fun q => ituPacks.lookup q.1 == some q.2 && commonPacks.any (·.id == q.1)) = true ∧
    layouts.all (fun L => commonPacks.any fun p => ituPacks.lookup p.id == some L.name) = true := by
  decide +kernel

/-- **Pass-through on the whole matrix, nothing captured**: for EVERY pair of a common-definition pack `p` and one of the
    ten layouts `E.L` such that `p` is the BS.2051 pack of that layout — by the panner's `itu_packs` table or by the
    pack's BS.2051 URN name —, every channel of `p`, any block gain / object gain / mute, any position and any conversion
    parameters: `handle` returns exactly the unit vector of the like-named loudspeaker × gain × object gain.  The cells
    are discharged together by ONE `decide +kernel` over layouts × commonPacks (`passthrough_table`: `passTable` ranges
    over all layouts and all common packs, not over exits). -/
theorem passthrough_matrix_layouts (E : CEnv) (hE : E ∈ envs) (P : Conv.Params ℝ) (p : CommonPack)
    (hp : p ∈ commonPacks)
    (hitu : ituPacks.lookup p.id = some E.L.name ∨ (p.id, E.L.name) ∈ bs2051NamedPacks)
    (c : CommonChannel) (hc : c ∈ p.channels) (gain og : Rat) (mute : Bool) (pos : PositionC) (tol : Rat) :
    ∃ l e, c.labels.head? = some l ∧ nominalSpeakerLabel l ∈ E.L.names ∧
      handleC rules ituPacks E P (c.block p.id gain og mute) pos tol =
        .ok (e, scaleC (c.block p.id gain og mute)
              (castV (unitVec E.L.names.length (E.L.names.idxOf (nominalSpeakerLabel l))))) := by
  have hitu' : ituPacks.lookup p.id = some E.L.name := by
    rcases hitu with h | h
    · exact h
    · have := List.all_eq_true.mp named_packs_in_itu_table.1 _ h
      simp only [Bool.and_eq_true, beq_iff_eq] at this
      exact this.1
  exact geo_ds_passthrough_concrete E (envs_mem E hE).1 P p hp hitu' c hc gain og mute pos tol

/-- non-vacuity: the 5.1 pack is named a BS.2051 pack of 0+5+0, and the matrix has a cell for every layout -/
example : ("AP_00010003", "0+5+0") ∈ bs2051NamedPacks := by decide +kernel
example : envs.all (fun E => commonPacks.any fun p => ituPacks.lookup p.id == some E.L.name) = true := by
  decide +kernel


end Earverif.DS
