/-
C11 — HOA decoding is invariant to channel order and normalisation convention.

Property theorems about the model `Earverif/Model/Hoa.lean` (transliteration of `hoa.allrad_design`,
`HOADecoderDesign.design`, the `HOARenderer` routing and the norm/ACN helpers) over ℝ.
`G` (panner on the t-design), `Y` (N3D harmonics of the pack's channels), the norm vectors, the per-order maxRE
table and the gains are arbitrary; hypotheses (non-zero norm factors, non-zero mean power) are explicit.

Not proved (searched on the real code instead): finiteness — over ℝ it is vacuous; and that the real
`sph_harm`, panner and Legendre code produce the matrices they should.
-/
import Earverif.Proofs.C11
import Earverif.Gen.C11_Tables

namespace Earverif.Hoa

variable {L C P : Nat}

/-! ### Channel order -/

/-- **Permuting the pack's channels permutes the decoder's columns and changes nothing else.**
`permV σ` lists the channels in another order (rows of `Y`, both norm vectors, the orders used for the maxRE
table and the gains all move together); for every option set, gains and mute flag, column `c` of the new
decoder is column `σ c` of the old one. No hypotheses. -/
theorem design_perm (σ : Equiv.Perm (Fin C)) (o : Opts) (G : Mat ℝ L P) (Y : Mat ℝ C P)
    (nN3D nrm : Vector ℝ C) (ord : Vector Nat C) (coef : Nat → ℝ) (gains : Vector ℝ C) (og : ℝ) (mute : Bool)
    (l : Fin L) (c : Fin C) :
    (design o G (permV σ Y) (permV σ nN3D) (permV σ nrm) (permV σ ord) coef (permV σ gains) og mute).at l c
      = (design o G Y nN3D nrm ord coef gains og mute).at l (σ c) := by
  unfold design
  have hw : (if o.maxRE = true then some (maxREWeights coef (permV σ ord) o.maxREScale L) else none)
      = (if o.maxRE = true then some (maxREWeights coef ord o.maxREScale L) else none).map (permV σ) := by
    split <;> simp [maxREWeights_perm]
  rw [hw, designW_at, designW_at, d1_perm, meanPow_perm, permV_get]

/-! ### Normalisation convention -/

/-- **decoder₁ · diag(nrm₁) = decoder₂ · diag(nrm₂)** for any two conventions whose per-channel factors (and the
N3D factors) are non-zero, everything else equal (options incl. maxRE, gains, mute). -/
theorem design_norm_invariant (o : Opts) (G : Mat ℝ L P) (Y : Mat ℝ C P) (nN3D nrm₁ nrm₂ : Vector ℝ C)
    (ord : Vector Nat C) (coef : Nat → ℝ) (gains : Vector ℝ C) (og : ℝ) (mute : Bool)
    (hN : ∀ c : Fin C, nN3D[c.1] ≠ 0) (h₁ : ∀ c : Fin C, nrm₁[c.1] ≠ 0) (h₂ : ∀ c : Fin C, nrm₂[c.1] ≠ 0)
    (l : Fin L) (c : Fin C) :
    (design o G Y nN3D nrm₁ ord coef gains og mute).at l c * nrm₁[c.1]
      = (design o G Y nN3D nrm₂ ord coef gains og mute).at l c * nrm₂[c.1] := by
  unfold design
  rw [designW_at, designW_at, meanPow_norm_free G Y nN3D nrm₁ nrm₂ _ hN h₁ h₂]
  have e : ∀ (b : Vector ℝ C) (w : Option (Vector ℝ C)), b[c.1] ≠ 0 →
      d1 G Y nN3D b w l c * b[c.1] = d0 G Y l c * sc G Y * nN3D[c.1] * wOf w c := by
    intro b w hb
    unfold d1
    field_simp
  set W := (if o.maxRE = true then some (maxREWeights coef ord o.maxREScale L) else none) with hW
  have e₁ := e nrm₁ W (h₁ c)
  have e₂ := e nrm₂ W (h₂ c)
  split
  · linear_combination
      ((gains[c.1] * (if mute then 0 else og)) / Real.sqrt (meanPow G Y nN3D nrm₂ W)) * e₁
      - ((gains[c.1] * (if mute then 0 else og)) / Real.sqrt (meanPow G Y nN3D nrm₂ W)) * e₂
  · linear_combination (gains[c.1] * (if mute then 0 else og)) * e₁ - (gains[c.1] * (if mute then 0 else og)) * e₂

/-- **The same sound field gives identical loudspeaker signals in any two conventions** (N3D, SN3D, FuMa, …):
a sound field with N3D coefficients `x` reads `x c · nrm c / nN3D c` in the pack's convention; every
loudspeaker signal `Σ_c decoder[l,c] · (that)` is the same for both conventions. -/
theorem design_same_signals (o : Opts) (G : Mat ℝ L P) (Y : Mat ℝ C P) (nN3D nrm₁ nrm₂ : Vector ℝ C)
    (ord : Vector Nat C) (coef : Nat → ℝ) (gains : Vector ℝ C) (og : ℝ) (mute : Bool)
    (hN : ∀ c : Fin C, nN3D[c.1] ≠ 0) (h₁ : ∀ c : Fin C, nrm₁[c.1] ≠ 0) (h₂ : ∀ c : Fin C, nrm₂[c.1] ≠ 0)
    (x : Fin C → ℝ) (l : Fin L) :
    ∑ c, (design o G Y nN3D nrm₁ ord coef gains og mute).at l c * (x c * nrm₁[c.1] / nN3D[c.1])
      = ∑ c, (design o G Y nN3D nrm₂ ord coef gains og mute).at l c * (x c * nrm₂[c.1] / nN3D[c.1]) := by
  refine Finset.sum_congr rfl fun c _ => ?_
  have h := design_norm_invariant o G Y nN3D nrm₁ nrm₂ ord coef gains og mute hN h₁ h₂ l c
  calc _ = ((design o G Y nN3D nrm₁ ord coef gains og mute).at l c * nrm₁[c.1]) * (x c / nN3D[c.1]) := by ring
    _ = ((design o G Y nN3D nrm₂ ord coef gains og mute).at l c * nrm₂[c.1]) * (x c / nN3D[c.1]) := by rw [h]
    _ = _ := by ring

/-! ### Gains -/

/-- all-ones gain vector -/
def ones (C : Nat) : Vector ℝ C := Vector.replicate C 1

/-- **Linear in the per-channel gains and the object gain**: the decoder is the unit-gain decoder with column
`c` multiplied by `gains[c] · (0 if muted else object gain)`. No hypotheses. -/
theorem design_linear_in_gains (o : Opts) (G : Mat ℝ L P) (Y : Mat ℝ C P) (nN3D nrm : Vector ℝ C)
    (ord : Vector Nat C) (coef : Nat → ℝ) (gains : Vector ℝ C) (og : ℝ) (mute : Bool) (l : Fin L) (c : Fin C) :
    (design o G Y nN3D nrm ord coef gains og mute).at l c
      = (design o G Y nN3D nrm ord coef (ones C) 1 false).at l c * (gains[c.1] * (if mute then 0 else og)) := by
  unfold design
  rw [designW_at, designW_at]
  simp [ones]

/-- **mute ⇒ 0** -/
theorem design_mute_zero (o : Opts) (G : Mat ℝ L P) (Y : Mat ℝ C P) (nN3D nrm : Vector ℝ C)
    (ord : Vector Nat C) (coef : Nat → ℝ) (gains : Vector ℝ C) (og : ℝ) (l : Fin L) (c : Fin C) :
    (design o G Y nN3D nrm ord coef gains og true).at l c = 0 := by
  rw [design_linear_in_gains]
  simp

/-! ### Mean power -/

/-- `np.mean(np.sum(np.dot(D, K_v) ** 2, axis=0))` for a decoder `D`, with `K_v = diag(nrm/nN3D)·Y` the unit plane
waves from the `P` t-design directions encoded in the pack's convention — the quantity the code normalises. -/
noncomputable def meanPower (D : Mat ℝ L C) (Y : Mat ℝ C P) (nN3D nrm : Vector ℝ C) : ℝ :=
  (∑ p : Fin P, ∑ l : Fin L, (∑ c : Fin C, D.at l c * (nrm[c.1] / nN3D[c.1] * Y.at c p)) ^ 2) / (P : ℝ)

/-- Unit mean power whenever the option `norm_mean_power` is on (any maxRE setting): if the un-normalised decoder
(`norm_mean_power` off, everything else equal) has non-zero mean power, the decoder for unit gains has mean
power exactly 1. -/
theorem design_unit_mean_power_nmp (o : Opts) (ho : o.normMeanPower = true) (G : Mat ℝ L P) (Y : Mat ℝ C P)
    (nN3D nrm : Vector ℝ C) (ord : Vector Nat C) (coef : Nat → ℝ)
    (hden : meanPower (design { o with normMeanPower := false } G Y nN3D nrm ord coef (ones C) 1 false) Y nN3D nrm ≠ 0) :
    meanPower (design o G Y nN3D nrm ord coef (ones C) 1 false) Y nN3D nrm = 1 := by
  obtain ⟨nmp, mx, scl⟩ := o
  simp only at ho
  subst ho
  unfold meanPower design at *
  simp only [designW_at, ones, Vector.getElem_replicate, if_true, Bool.false_eq_true, if_false, mul_one] at *
  set w := (if mx = true then some (maxREWeights coef ord scl L) else none) with hw
  have hmp : meanPow G Y nN3D nrm w = (∑ p : Fin P, ∑ l : Fin L,
      (∑ c : Fin C, d1 G Y nN3D nrm w l c * (nrm[c.1] / nN3D[c.1] * Y.at c p)) ^ 2) / (P : ℝ) := by
    unfold meanPow dk
    simp only [pow_two]
  rw [← hmp] at hden
  have hpos : 0 < meanPow G Y nN3D nrm w := lt_of_le_of_ne (meanPow_nonneg _ _ _ _ _) (Ne.symm hden)
  have hs : Real.sqrt (meanPow G Y nN3D nrm w) ^ 2 = meanPow G Y nN3D nrm w := Real.sq_sqrt hpos.le
  have hs0 : Real.sqrt (meanPow G Y nN3D nrm w) ≠ 0 := (Real.sqrt_pos.mpr hpos).ne'
  have inner : ∀ (p : Fin P) (l : Fin L),
      (∑ c : Fin C, d1 G Y nN3D nrm w l c / Real.sqrt (meanPow G Y nN3D nrm w) * (nrm[c.1] / nN3D[c.1] * Y.at c p)) ^ 2
        = (∑ c : Fin C, d1 G Y nN3D nrm w l c * (nrm[c.1] / nN3D[c.1] * Y.at c p)) ^ 2 / meanPow G Y nN3D nrm w := by
    intro p l
    have : (∑ c : Fin C, d1 G Y nN3D nrm w l c / Real.sqrt (meanPow G Y nN3D nrm w) * (nrm[c.1] / nN3D[c.1] * Y.at c p))
        = (∑ c : Fin C, d1 G Y nN3D nrm w l c * (nrm[c.1] / nN3D[c.1] * Y.at c p)) / Real.sqrt (meanPow G Y nN3D nrm w) := by
      rw [Finset.sum_div]
      exact Finset.sum_congr rfl fun c _ => by ring
    rw [this, div_pow, hs]
  simp only [inner, ← Finset.sum_div]
  rw [div_right_comm, ← hmp]
  exact div_self hden

/-- **Unit mean power with default options** (`{}` = `HOADecoderDesign`'s defaults: mean-power normalisation on,
maxRE off): the mean over the `P` t-design directions of the summed squared loudspeaker signals for unit
plane waves encoded in the pack's convention is exactly 1, provided the un-normalised decoder's mean power —
the denominator the code divides by — is not zero. -/
theorem design_unit_mean_power (G : Mat ℝ L P) (Y : Mat ℝ C P) (nN3D nrm : Vector ℝ C) (ord : Vector Nat C)
    (coef : Nat → ℝ)
    (hden : meanPower (design { normMeanPower := false } G Y nN3D nrm ord coef (ones C) 1 false) Y nN3D nrm ≠ 0) :
    meanPower (design {} G Y nN3D nrm ord coef (ones C) 1 false) Y nN3D nrm = 1 :=
  design_unit_mean_power_nmp {} rfl G Y nN3D nrm ord coef hden

/-! ### LFE outputs (core Lean, any scalar type) -/

/-- **LFE rows are exactly zero**: whenever the routing succeeds, every output channel flagged LFE gets the
zero row. -/
theorem no_lfe_feed {α : Type} (zero : α) : ∀ (lfe : List Bool) (rows out : List (Vector α C)),
    route zero lfe rows = some out →
    ∀ j : Nat, lfe[j]? = some true → out[j]? = some (Vector.replicate C zero)
  | [], [], out, h, j, hj => by simp at hj
  | [], _ :: _, out, h, j, hj => by simp at hj
  | true :: t, rows, out, h, j, hj => by
    simp only [route, Option.map_eq_some_iff] at h
    obtain ⟨o', ho', rfl⟩ := h
    cases j with
    | zero => simp
    | succ j => simpa using no_lfe_feed zero t rows o' ho' j (by simpa using hj)
  | false :: t, [], out, h, j, hj => by simp [route] at h
  | false :: t, r :: rows, out, h, j, hj => by
    simp only [route, Option.map_eq_some_iff] at h
    obtain ⟨o', ho', rfl⟩ := h
    cases j with
    | zero => simp at hj
    | succ j => simpa using no_lfe_feed zero t rows o' ho' j (by simpa using hj)

/-- the entries of `xs` at the positions not flagged in `mask`, in order -/
def unmasked {β : Type} : List Bool → List β → List β
  | true :: bs, _ :: xs => unmasked bs xs
  | false :: bs, x :: xs => x :: unmasked bs xs
  | _, _ => []

/-- The non-LFE output channels carry the decoder rows, in order (nothing is lost or reordered). -/
theorem route_nonlfe_rows {α : Type} (zero : α) : ∀ (lfe : List Bool) (rows out : List (Vector α C)),
    route zero lfe rows = some out → unmasked lfe out = rows ∧ out.length = lfe.length
  | [], [], out, h => by simp [route] at h; subst h; simp [unmasked]
  | [], _ :: _, out, h => by simp [route] at h
  | true :: t, rows, out, h => by
    simp only [route, Option.map_eq_some_iff] at h
    obtain ⟨o', ho', rfl⟩ := h
    have := route_nonlfe_rows zero t rows o' ho'
    simp [unmasked, this]
  | false :: t, [], out, h => by simp [route] at h
  | false :: t, r :: rows, out, h => by
    simp only [route, Option.map_eq_some_iff] at h
    obtain ⟨o', ho', rfl⟩ := h
    have := route_nonlfe_rows zero t rows o' ho'
    simp [unmasked, this]

/-- The routing succeeds exactly when the decoder has one row per non-LFE channel (otherwise numpy raises). -/
theorem route_shape {α : Type} (zero : α) : ∀ (lfe : List Bool) (rows : List (Vector α C)),
    (route zero lfe rows).isSome ↔ (lfe.filter (· == false)).length = rows.length
  | [], [] => by simp [route]
  | [], _ :: _ => by simp [route]
  | true :: t, rows => by simpa [route] using route_shape zero t rows
  | false :: t, [] => by simp [route]
  | false :: t, r :: rows => by simpa [route] using route_shape zero t rows

/-! ### Normalisation factors: exact squares, positivity -/

theorem fact_pos : ∀ n, 0 < fact n
  | 0 => by simp [fact]
  | n + 1 => by simp [fact, fact_pos n]

private theorem ratio_nonneg (a b : Nat) : (0 : ℝ) ≤ (a : ℝ) / (b : ℝ) := by positivity

/-- **The model's norm factors are the square roots of the rationals `n3dSq`, `sn3dSq`, `fumaSq`** (the same
rationals the regenerated tables are compared with). -/
theorem norms_sq (n m : Nat) :
    (normN3D n m : ℝ) ^ 2 = ((n3dSq n m).1 : ℝ) / ((n3dSq n m).2 : ℝ)
    ∧ (normSN3D n m : ℝ) ^ 2 = ((sn3dSq n m).1 : ℝ) / ((sn3dSq n m).2 : ℝ)
    ∧ ∀ x : ℝ, normFuMa n m = some x →
        ∃ q, fumaSq n m = some q ∧ x ^ 2 = (q.1 : ℝ) / (q.2 : ℝ) := by
  have hS : (normSN3D n m : ℝ) ^ 2 = ((sn3dSq n m).1 : ℝ) / ((sn3dSq n m).2 : ℝ) := by
    simp only [normSN3D, sn3dSq, scalar_sqrt, scalar_ofNat]
    exact Real.sq_sqrt (ratio_nonneg _ _)
  refine ⟨?_, hS, ?_⟩
  · simp only [normN3D, n3dSq, scalar_sqrt, scalar_ofNat, Nat.cast_mul]
    exact Real.sq_sqrt (by positivity)
  · intro x hx
    simp only [normFuMa, Option.map_eq_some_iff] at hx
    obtain ⟨f, hf, rfl⟩ := hx
    have key : ∀ (a b : Nat), fumaFactorSq n m = some (a, b) → f ^ 2 = (a : ℝ) / (b : ℝ) →
        ∃ q, fumaSq n m = some q ∧ (normSN3D n m * f) ^ 2 = (q.1 : ℝ) / (q.2 : ℝ) := by
      intro a b hq hf2
      refine ⟨((sn3dSq n m).1 * a, (sn3dSq n m).2 * b), by simp [fumaSq, hq], ?_⟩
      rw [mul_pow, hS, hf2]
      push_cast
      rw [div_mul_div_comm]
    have s2 : Real.sqrt 2 ^ 2 = 2 := Real.sq_sqrt (by norm_num)
    have s3 : Real.sqrt 3 ^ 2 = 3 := Real.sq_sqrt (by norm_num)
    have s5 : Real.sqrt 5 ^ 2 = 5 := Real.sq_sqrt (by norm_num)
    have s45 : Real.sqrt (45 / 32) ^ 2 = 45 / 32 := Real.sq_sqrt (by norm_num)
    have s85 : Real.sqrt (8 / 5) ^ 2 = 8 / 5 := Real.sq_sqrt (by norm_num)
    unfold fumaFactor at hf
    split at hf <;> simp only [Option.some.injEq, reduceCtorEq] at hf <;> subst hf
    · exact key 1 2 rfl (by simp only [scalar_sqrt, scalar_ofNat, Nat.cast_ofNat, Nat.cast_one, div_pow, s2]; norm_num)
    · exact key 1 1 rfl (by simp)
    · exact key 1 1 rfl (by simp)
    · exact key 1 1 rfl (by simp)
    · exact key 4 3 rfl (by simp only [scalar_sqrt, scalar_ofNat, Nat.cast_ofNat, div_pow, s3]; norm_num)
    · exact key 4 3 rfl (by simp only [scalar_sqrt, scalar_ofNat, Nat.cast_ofNat, div_pow, s3]; norm_num)
    · exact key 1 1 rfl (by simp)
    · exact key 45 32 rfl (by simp only [scalar_sqrt, scalar_ofNat, Nat.cast_ofNat, s45])
    · exact key 9 5 rfl (by simp only [scalar_sqrt, scalar_ofNat, Nat.cast_ofNat, div_pow, s5]; norm_num)
    · exact key 8 5 rfl (by simp only [scalar_sqrt, scalar_ofNat, Nat.cast_ofNat, s85])

/-- **All norm factors are positive** (so the non-zero hypotheses of `design_norm_invariant` hold for N3D, SN3D
and, where defined, FuMa). -/
theorem norms_pos (n m : Nat) :
    (0 : ℝ) < normN3D n m ∧ (0 : ℝ) < normSN3D n m ∧ ∀ x : ℝ, normFuMa n m = some x → 0 < x := by
  have h1 : (0 : ℝ) < (fact (n - m) : ℝ) := by exact_mod_cast fact_pos _
  have h2 : (0 : ℝ) < (fact (n + m) : ℝ) := by exact_mod_cast fact_pos _
  have hS : (0 : ℝ) < normSN3D n m := by
    simp only [normSN3D, scalar_sqrt, scalar_ofNat]
    exact Real.sqrt_pos.mpr (by positivity)
  refine ⟨?_, hS, ?_⟩
  · simp only [normN3D, scalar_sqrt, scalar_ofNat]
    exact Real.sqrt_pos.mpr (by positivity)
  · intro x hx
    simp only [normFuMa, Option.map_eq_some_iff] at hx
    obtain ⟨f, hf, rfl⟩ := hx
    apply mul_pos hS
    unfold fumaFactor at hf
    split at hf <;> simp only [Option.some.injEq, reduceCtorEq] at hf <;> subst hf <;>
      simp only [scalar_sqrt, scalar_ofNat] <;> positivity

/-! ### Regenerated tables (re-checked against what `ear.core.hoa` returns now) -/

/-- every squared norm factor extracted from the code is a positive rational -/
theorem tables_norms_positive :
    (Gen.n3dTable ++ Gen.sn3dTable ++ Gen.fumaTable ++ Gen.fumaFactorTable).all
      (fun e => decide (0 < e.2.2.1) && decide (0 < e.2.2.2)) = true := by
  decide +kernel

/-- `(n, |m|)` for `n ≤ N` -/
def keys (N : Nat) : List (Nat × Nat) :=
  (List.range (N + 1)).flatMap fun n => (List.range (n + 1)).map fun m => (n, m)

/-- the code's `norm_N3D`, `norm_SN3D` (orders 0..5) and `norm_FuMa` (orders 0..3) squared are exactly the model's
rationals, for every `(n, |m|)` -/
theorem tables_match_model :
    (Gen.n3dTable.map (fun e => (e.1, e.2.1)) = keys 5
      ∧ Gen.n3dTable.all (fun e => e.2.2.1 * (n3dSq e.1 e.2.1).2 == e.2.2.2 * (n3dSq e.1 e.2.1).1) = true)
    ∧ (Gen.sn3dTable.map (fun e => (e.1, e.2.1)) = keys 5
      ∧ Gen.sn3dTable.all (fun e => e.2.2.1 * (sn3dSq e.1 e.2.1).2 == e.2.2.2 * (sn3dSq e.1 e.2.1).1) = true)
    ∧ (Gen.fumaTable.map (fun e => (e.1, e.2.1)) = keys 3
      ∧ Gen.fumaTable.all (fun e => match fumaSq e.1 e.2.1 with
          | some q => e.2.2.1 * q.2 == e.2.2.2 * q.1
          | none => false) = true) := by
  decide +kernel

/-- look up `(n, |m|)` in a table -/
def lookup (t : List (Nat × Nat × Nat × Nat)) (n m : Nat) : Option (Nat × Nat) :=
  (t.find? fun e => e.1 == n && e.2.1 == m).map fun e => (e.2.2.1, e.2.2.2)

/-- the code's FuMa factors are its SN3D factors times the standard FuMa conversion factors
(1/√2, 1, 1, 1, 2/√3, 2/√3, 1, √(45/32), 3/√5, √(8/5)), squared -/
theorem table_fuma_is_sn3d_times_factor :
    Gen.fumaFactorTable.all (fun e => fumaFactorSq e.1 e.2.1 == some (e.2.2.1, e.2.2.2)) = true
    ∧ Gen.fumaTable.all (fun e =>
        match lookup Gen.sn3dTable e.1 e.2.1, fumaFactorSq e.1 e.2.1 with
        | some s, some f => e.2.2.1 * (s.2 * f.2) == e.2.2.2 * (s.1 * f.1)
        | _, _ => false) = true := by
  decide +kernel

/-- `to_acn` / `from_acn` as the code computes them on 0..35 agree with the model and are inverse to each other -/
theorem table_acn_inverse :
    Gen.fromAcnTable.map (fun e => e.1) = List.range 36
    ∧ Gen.fromAcnTable.all (fun e =>
        fromAcn e.1 == (e.2.1, e.2.2) && toAcn e.2.1 e.2.2 == (e.1 : Int)
          && Gen.toAcnTable.contains ((e.2.1 : Int), e.2.2, (e.1 : Int))) = true
    ∧ Gen.toAcnTable.all (fun e =>
        toAcn e.1 e.2.1 == e.2.2 && fromAcn e.2.2.toNat == (e.1.toNat, e.2.1) && decide (0 ≤ e.2.2 ∧ e.2.2 < 36)) = true
    ∧ Gen.toAcnTable.length = 36 := by
  decide +kernel

/-! ### Non-vacuity: small concrete inputs satisfying the hypotheses -/

section examples

/-- 2 loudspeakers, 2 channels, 2 virtual points -/
def exG : Mat ℝ 2 2 := #v[#v[1, 0], #v[0, 1]]
def exY : Mat ℝ 2 2 := #v[#v[1, 1], #v[1, -1]]
def exN : Vector ℝ 2 := #v[1, 3]
def exS : Vector ℝ 2 := #v[1, 2]

/-- the hypotheses of `design_norm_invariant` / `design_same_signals` hold for concrete factors -/
example : (∀ c : Fin 2, exN[c.1] ≠ 0) ∧ (∀ c : Fin 2, exS[c.1] ≠ 0) := by
  constructor <;> intro c <;> fin_cases c <;> simp [exN, exS]

/-- a non-trivial permutation exists (swap of the two channels) and `permV` really reorders -/
example : permV (Equiv.swap (0 : Fin 2) 1) exS = #v[2, 1] := by
  apply Vector.ext
  intro i hi
  have : i = 0 ∨ i = 1 := by omega
  rcases this with rfl | rfl <;> simp [permV, exS, Equiv.swap_apply_def]

/-- the routing model on a 3-channel output with the middle channel LFE: succeeds, LFE row zero -/
example : route (0 : Int) [false, true, false] [#v[1, 2], #v[3, 4]] = some [#v[1, 2], #v[0, 0], #v[3, 4]] := by
  decide

def exOne : Vector ℝ 2 := #v[1, 1]

/-- the non-zero-denominator hypothesis of `design_unit_mean_power` holds for a concrete 2×2×2 design
(`G = I`, `Y = [[1,1],[1,-1]]`, unit norm factors: the un-normalised decoder has mean power 1) -/
example : meanPower (design { normMeanPower := false } exG exY exOne exOne #v[0, 1] (fun _ => 1) (ones 2) 1 false)
    exY exOne exOne ≠ 0 := by
  have hd0 : ∀ l c, d0 exG exY l c = exY.at c l / 2 := by
    intro l c
    fin_cases l <;> fin_cases c <;> simp [d0, Fin.sum_univ_two, Mat.at, exG, exY]
  have hf : froSq exG exY = 2 := by
    simp only [froSq, hd0, Fin.sum_univ_two]
    simp [Mat.at, exY]
    norm_num
  have hsc : sc exG exY = 1 := by
    rw [sc, hf]
    exact div_self (by simp)
  unfold meanPower design
  simp only [designW_at, d1, hd0, hsc, wOf, Fin.sum_univ_two]
  simp [Mat.at, exY, exOne, ones]
  norm_num

/-- norm factors of the first channels: N3D(1,1)² = 3/2, FuMa(0,0)² = 1/2 -/
example : n3dSq 1 1 = (3, 2) ∧ fumaSq 0 0 = some (1, 2) ∧ fumaSq 4 0 = none := by decide

end examples

end Earverif.Hoa
