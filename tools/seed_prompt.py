"""Print the prompt for an independent breakage-seeding sub-agent for one property (property text only)."""
import json, sys
pid, n = sys.argv[1], sys.argv[2]
p = next(json.loads(l) for l in open("/verif/properties.jsonl") if json.loads(l)["id"] == pid)
wt = "/tmp/seedwt_%s_%s" % (pid, n)
out = "/tmp/seedout_%s_%s" % (pid, n)
import glob
prev = []
for m in sorted(glob.glob("/verif/seeded/%s_*/meta.json" % pid)):
    try:
        prev.append(json.load(open(m)).get("summary", ""))
    except Exception:
        pass
avoid = ""
if prev:
    avoid = "\nChanges that have ALREADY been tried by others for this property — pick a DIFFERENT mechanism, site and trigger (not a variation of these):\n" + "\n".join("  - " + x for x in prev if x) + "\n"
print(f"""You are helping to evaluate a verification effort by playing the adversary. A Python project (EBU ADM Renderer, `ear`) is checked out for you as a scratch git worktree at {wt} (create nothing outside {wt} and {out}; do not look at or touch /repo, /verif or any other directory; do not use git commands that affect anything other than this worktree).

Here is one semantic property the project is supposed to satisfy:

  Title: {p['title']}
  Statement: {p['statement']}
  Quantified over: {p['quantifier']['text']}
  Relevant files: {', '.join(p['anchors']['files'])}

{avoid}
YOUR TASK: write ONE small, realistic change to the project's source (not to its tests) that BREAKS this property while (a) the code still imports/compiles, (b) the project's existing test suite still passes exactly as before, and (c) the breakage needs something SPECIFIC to manifest — an unusual input, a particular boundary value, a multi-step sequence of operations, a particular block split, or two cooperating sites that each look fine alone — NOT something ordinary use or a trivial smoke test would expose at once. It should look like a plausible bug a maintainer could introduce (an off-by-one, a wrong comparison, a mishandled parity/edge case, a stale variable, an optimisation that is wrong in a corner), not sabotage, and must not be a no-op or a pure crash on all inputs.

How to work:
- Python: /venv/bin/python. Always run with the worktree first on the path so your edited code is what runs: `cd {wt} && PYTHONPATH={wt} /venv/bin/python -c "import ear; print(ear.__file__)"` must print a path inside {wt}.
- Baseline tests: `cd {wt} && PYTHONPATH={wt} /venv/bin/python -m pytest -q -p no:cacheprovider -n 8 --timeout=900 2>&1 | tail -15`. On the UNCHANGED worktree a fixed set of tests already fails (tests that need console scripts `ear-render`/`ear-utils` on PATH, FileNotFoundError) — record the list of failing test ids before your change (`-rf`) and make sure the set of failures is IDENTICAL after your change (no new failures, no new passes).
- Write a demonstration `{out}/demo.py`: a self-contained script (run as `PYTHONPATH=<checkout> /venv/bin/python demo.py`) that exercises the property on a concrete input through the project's public API, prints what it observed, and exits 0 when the property holds on that input and exits 1 when it is violated. It must exit 0 on the unchanged worktree and exit 1 with your change applied. Verify both (use `git stash` / `git stash pop` inside the worktree, or `git diff > patch; git checkout -- .; ...; git apply patch`).
- Save the change as `{out}/patch.diff` (`cd {wt} && git diff > {out}/patch.diff`), applicable with `git apply` at the root of a clean checkout of the same commit.
- Write `{out}/meta.json` with keys: property ("{pid}"), summary (one sentence: what was changed), files (list), needs_to_manifest (what specific input/sequence/boundary is needed and why ordinary use or the existing tests do not hit it), tests_run (the exact commands you ran and their outcomes: number passed/failed before and after, demo exit codes before and after).
- Leave the worktree with your change applied.

Your final message: a short description of the change, why it breaks the property, what is needed to trigger it, and the outcome of the three verifications (tests identical, demo passes without, demo fails with).""")
