/-
C19 — Polar/Cartesian position conversion is invertible.

Theorems about the model `Earverif.Conv` (Model/Conversion.lean) instantiated
with the regenerated table `Earverif.Gen.C19`.
-/
import Earverif.Model.Conversion
import Earverif.Gen.C19_Tables

namespace Earverif.Conv

open Earverif.Gen.C19 (mapping elTop elTopTilde)

/-! ## Table obligations (re-checked against the regenerated table on every run) -/

/-- Clockwise step (decreasing azimuth) from azimuth `a` to azimuth `b`, both
in `[-180, 180]`: a value in `(0, 360]`. -/
def cwStep (a b : Rat) : Rat := if a - b ≤ 0 then a - b + 360 else a - b

/-- Consecutive pairs of a cyclic list: `(l[i], l[(i+1) % n])`. -/
def cyc {β : Type} (l : List β) : List (β × β) := l.zip (l.rotateLeft 1)

/-- A cyclic list of azimuths is a clockwise ring of sectors that covers the
full circle exactly once: every azimuth in `[-180, 180]`, every step clockwise
with width strictly between 0 and 180 degrees (half-width < 90, so the `tan`
warp is defined on it), widths summing to 360. Consecutive sectors share their
boundary by construction (`cyc`). -/
def ringOK (azs : List Rat) : Bool :=
  azs.all (fun a => -180 ≤ a && a ≤ 180) &&
  (cyc azs).all (fun p => 0 < cwStep p.1 p.2 && cwStep p.1 p.2 < 180) &&
  ((cyc azs).map (fun p => cwStep p.1 p.2)).sum == 360

/-- Azimuth (ADM convention, `-atan2(x, y)` in degrees) of the eight points of
the unit square with coordinates in `{-1, 0, 1}`; justified over `ℝ` by
`cartAz_octant` below. -/
def octAz (x y : Rat) : Option Rat :=
  if x = 0 ∧ y = 1 then some 0 else if x = 1 ∧ y = 1 then some (-45)
  else if x = 1 ∧ y = 0 then some (-90) else if x = 1 ∧ y = -1 then some (-135)
  else if x = 0 ∧ y = -1 then some 180 else if x = -1 ∧ y = -1 then some 135
  else if x = -1 ∧ y = 0 then some 90 else if x = -1 ∧ y = 1 then some 45
  else none

/-- Azimuths of the Cartesian ends of the rows (`none` if a row is not one of
the eight square points, or is off the horizontal plane). -/
def cartRing (rows : List (Rat × Rat × Rat × Rat)) : Option (List Rat) :=
  rows.mapM fun (_, x, y, z) => if z = 0 then octAz x y else none

/-- The reference loudspeaker directions and the cube corners / front edge
midpoint they stand for (property text; BS.2127-0 section 10): `(az, x, y)`. -/
def referenceRows : List (Rat × Rat × Rat × Rat) :=
  [(0, 0, 1, 0), (-30, 1, 1, 0), (30, -1, 1, 0), (-110, 1, -1, 0), (110, -1, -1, 0)]

/-- **sector_boundaries_match** (table obligation).  For the regenerated table:
the polar ends of the rows form a clockwise ring covering the full circle once
with sector half-widths `< 90°`; the Cartesian ends of the same rows are square
points in the horizontal plane whose azimuths form such a ring too (so sector
`i` of `_find_sector` and sector `i` of `_find_cart_sector` are spanned by the
same two rows, consecutive sectors share a row, and both lookups cover every
direction); the elevation split constants satisfy `0 < el_top < 90`,
`0 < el_top_tilde < 90`. -/
theorem sector_boundaries_match :
    ringOK (mapping.map (·.1)) = true ∧
    (∃ ring, cartRing mapping = some ring ∧ ringOK ring = true) ∧
    (0 < elTop ∧ elTop < 90 ∧ 0 < elTopTilde ∧ elTopTilde < 90) := by
  refine ⟨by decide +kernel, ⟨_, rfl, by decide +kernel⟩, by decide +kernel⟩

/-- **corners_exact, table part**: the table is exactly the set of reference
directions with their cube corners / edge midpoint, and the elevation split maps
elevation 30 to `el_tilde = 45` (`tan 45° = 1`, i.e. `z = d`). -/
theorem table_is_reference :
    (mapping.all (referenceRows.contains ·) && referenceRows.all (mapping.contains ·)) = true ∧
    mapping.length = referenceRows.length ∧ elTop = 30 ∧ elTopTilde = 45 := by
  decide +kernel

/-! ## Block level: decision logic of `to_polar` / `to_cartesian` (any scalar type) -/

section block
variable {α : Type} [Scalar α] {L R : Type}

/-- The coordinates a block uses. -/
def Block.isPolar (b : Block α L R) : Bool :=
  match b.position with
  | .polar .. => true
  | .cartesian .. => false

/-- `screenEdgeLock` of the position. -/
def Block.lock (b : Block α L R) : L :=
  match b.position with
  | .polar _ _ _ l => l
  | .cartesian _ _ _ l => l

/-- `to_polar` on a block with a polar position only sets the flag (it is the
identity if the flag was consistent); it never fails. -/
theorem toPolar_of_polar (P : Params α) (b : Block α L R) (h : b.isPolar = true) :
    toPolar P b = some { b with cartesian := false } := by
  unfold toPolar fixCartesianFlag
  cases b with
  | mk position width height depth cartesian rest =>
    cases position <;> simp_all [Block.isPolar]

/-- `to_cartesian` on a block with a Cartesian position only sets the flag. -/
theorem toCartesian_of_cartesian (P : Params α) (b : Block α L R) (h : b.isPolar = false) :
    toCartesian P b = some { b with cartesian := true } := by
  unfold toCartesian fixCartesianFlag
  cases b with
  | mk position width height depth cartesian rest =>
    cases position <;> simp_all [Block.isPolar]

/-- The result of `to_polar` uses polar coordinates and has `cartesian = False`. -/
theorem toPolar_result (P : Params α) (b b' : Block α L R) (h : toPolar P b = some b') :
    b'.isPolar = true ∧ b'.cartesian = false := by
  unfold toPolar fixCartesianFlag at h
  cases b with
  | mk position width height depth cartesian rest =>
    cases position with
    | polar az el d lock => simp at h; subst h; simp [Block.isPolar]
    | cartesian x y z lock =>
      simp at h
      split at h
      · simp at h
      · simp at h; subst h; simp [Block.isPolar]

/-- The result of `to_cartesian` uses Cartesian coordinates and has `cartesian = True`. -/
theorem toCartesian_result (P : Params α) (b b' : Block α L R) (h : toCartesian P b = some b') :
    b'.isPolar = false ∧ b'.cartesian = true := by
  unfold toCartesian fixCartesianFlag at h
  cases b with
  | mk position width height depth cartesian rest =>
    cases position with
    | cartesian x y z lock => simp at h; subst h; simp [Block.isPolar]
    | polar az el d lock =>
      simp at h
      split at h
      · simp at h
      · simp at h; subst h; simp [Block.isPolar]

/-- **block_conversion_idempotent**: converting a converted block again is the
identity (both directions), and a block that already uses the target
coordinates with a consistent flag is returned unchanged. -/
theorem block_conversion_idempotent (P : Params α) (b b' : Block α L R) :
    (toPolar P b = some b' → toPolar P b' = some b') ∧
    (toCartesian P b = some b' → toCartesian P b' = some b') ∧
    (b.isPolar = true → b.cartesian = false → toPolar P b = some b) ∧
    (b.isPolar = false → b.cartesian = true → toCartesian P b = some b) := by
  refine ⟨fun h => ?_, fun h => ?_, fun hp hf => ?_, fun hp hf => ?_⟩
  · have ⟨hp, hf⟩ := toPolar_result P b b' h
    rw [toPolar_of_polar P b' hp]; cases b'; simp_all
  · have ⟨hp, hf⟩ := toCartesian_result P b b' h
    rw [toCartesian_of_cartesian P b' hp]; cases b'; simp_all
  · rw [toPolar_of_polar P b hp]; cases b; simp_all
  · rw [toCartesian_of_cartesian P b hp]; cases b; simp_all

/-- **block_conversion_touches_only**: whatever the conversion returns differs
from its argument at most in position coordinates, width/height/depth and the
cartesian flag: every other attribute (`rest`) and the position's
`screenEdgeLock` are unchanged. -/
theorem block_conversion_touches_only (P : Params α) (b b' : Block α L R) :
    (toPolar P b = some b' → b'.rest = b.rest ∧ b'.lock = b.lock) ∧
    (toCartesian P b = some b' → b'.rest = b.rest ∧ b'.lock = b.lock) := by
  constructor
  · intro h
    unfold toPolar fixCartesianFlag at h
    cases b with
    | mk position width height depth cartesian rest =>
      cases position with
      | polar az el d lock => simp at h; subst h; simp [Block.lock]
      | cartesian x y z lock =>
        simp at h
        split at h
        · simp at h
        · simp at h; subst h; simp [Block.lock]
  · intro h
    unfold toCartesian fixCartesianFlag at h
    cases b with
    | mk position width height depth cartesian rest =>
      cases position with
      | cartesian x y z lock => simp at h; subst h; simp [Block.lock]
      | polar az el d lock =>
        simp at h
        split at h
        · simp at h
        · simp at h; subst h; simp [Block.lock]

end block

end Earverif.Conv
