/-
Concrete leaf values and `TypeConvert` codecs for the combinator model (`Model/XmlCodec.lean`), and the
construction of a property list from a row of the table extracted from the real `ElementParser`s
(`Gen/C08_Handlers.lean`).  Core Lean only.

Modelled exactly on the stated domains:
* `StringType`, `RefType` (`dumps = .id`, the value is the id string), `TrackUIDRefType`
  (`None` ↔ `ATU_00000000`), `BoolType` (`0`/`1`), `TimeType` / `TimeTypeV1` (through `Model/TimeFormat`);
* `IntType`: `int(str)` on optionally signed ASCII digit strings (Python also accepts surrounding blanks,
  `+`, `_` separators and non-ASCII digits — outside the model);
* `FloatType` on the printable grid: a value is an integer `k` meaning `k / 100000`; `dumps` prints five
  decimals, `loads` accepts exactly that shape (Python's `float()` accepts many more spellings and
  `"{:.5f}"` of an arbitrary double is not modelled);
* the two attribute codecs of `TypeAttribute` over the enum table of the row (`typeDefinition` name,
  `typeLabel` as four upper-case hex digits; `int(s, 16)` is modelled on plain hex digit strings).
-/
import Earverif.Model.XmlCodec

namespace Earverif.XmlCodec
open Earverif.Digits Earverif.TimeFormat

inductive Leaf where
  | none
  | str (s : String)
  | int (i : Int)
  | bool (b : Bool)
  | time (t : Time)
  /-- a float on the printable grid: `k / 100000` -/
  | num (k : Int)
  | enum (name : String) (value : Nat)
  deriving DecidableEq, Repr

def stringCodec : Codec Leaf where
  loads s := some (.str s)
  dumps | .str s => s | _ => ""

def trackUIDRefCodec : Codec Leaf where
  loads s := if s = "ATU_00000000" then some .none else some (.str s)
  dumps | .none => "ATU_00000000" | .str s => s | _ => ""

def boolCodec : Codec Leaf where
  loads s := if s = "0" then some (.bool false) else if s = "1" then some (.bool true) else Option.none
  dumps | .bool true => "1" | .bool false => "0" | _ => ""

def allDec (cs : List Char) : Bool := !cs.isEmpty && cs.all isDec

def loadsInt (s : String) : Option Int :=
  match s.toList with
  | '-' :: ds => if allDec ds then some (-(decNat ds : Int)) else Option.none
  | ds => if allDec ds then some (decNat ds : Int) else Option.none

def dumpsInt (i : Int) : String :=
  if i < 0 then String.ofList ('-' :: decStr i.natAbs) else String.ofList (decStr i.natAbs)

def intCodec : Codec Leaf where
  loads s := (loadsInt s).map .int
  dumps | .int i => dumpsInt i | _ => ""

/-- `"{:.5f}".format(k / 100000)` -/
def dumpsNum (k : Int) : String :=
  let body := decStr (k.natAbs / 100000) ++ '.' :: decPad 5 (k.natAbs % 100000)
  String.ofList (if k < 0 then '-' :: body else body)

/-- unsigned part of `loadsNum`: digits, a period, exactly five digits -/
def loadsNumAbs (cs : List Char) : Option Nat :=
  let w := cs.takeWhile isDec
  match cs.dropWhile isDec with
  | '.' :: f => if !w.isEmpty && f.length = 5 && f.all isDec then some (decNat w * 100000 + decNat f) else Option.none
  | _ => Option.none

/-- the inverse of `dumpsNum` on its image (and `-0.00000 ↦ 0`); anything else is outside the model -/
def loadsNum (s : String) : Option Int :=
  match s.toList with
  | '-' :: cs => (match loadsNumAbs cs with | some n => some (-(Int.ofNat n)) | Option.none => Option.none)
  | cs => (match loadsNumAbs cs with | some n => some (Int.ofNat n) | Option.none => Option.none)

def floatCodec : Codec Leaf where
  loads s := (loadsNum s).map .num
  dumps | .num k => dumpsNum k | _ => ""

def timeCodec (allowFractional : Bool) : Codec Leaf where
  loads s := ((if allowFractional then parseTime else parseTimeV1) s.toList).map .time
  dumps
    | .time t => (match unparseTime allowFractional t with | .ok cs => String.ofList cs | _ => "")
    | _ => ""

def hexDigitVal? (c : Char) : Option Nat :=
  if isDec c then some (decVal c)
  else if c = 'A' ∨ c = 'a' then some 10 else if c = 'B' ∨ c = 'b' then some 11
  else if c = 'C' ∨ c = 'c' then some 12 else if c = 'D' ∨ c = 'd' then some 13
  else if c = 'E' ∨ c = 'e' then some 14 else if c = 'F' ∨ c = 'f' then some 15 else Option.none

/-- `int(s, 16)` on plain hex digit strings -/
def loadsHex (s : String) : Option Nat :=
  match s.toList with
  | [] => Option.none
  | cs => cs.foldlM (fun a c => (hexDigitVal? c).map fun d => a * 16 + d) 0

/-- `enum[value]` -/
def enumDefCodec (tbl : List (String × Nat)) : Codec Leaf where
  loads s := (tbl.find? fun e => e.1 == s).map fun e => .enum e.1 e.2
  dumps | .enum n _ => n | _ => ""

/-- `enum(int(value, 16))` / `"{:04X}".format(attr.value)` -/
def enumLabelCodec (tbl : List (String × Nat)) : Codec Leaf where
  loads s := (loadsHex s).bind fun v => (tbl.find? fun e => e.2 == v).map fun e => .enum e.1 e.2
  dumps | .enum _ v => String.ofList (hexPad 4 v) | _ => ""

/-- `TypeConvert` by the name it has in `xml.py` -/
def codecOf (ty : String) : Codec Leaf :=
  if ty = "IntType" then intCodec
  else if ty = "BoolType" then boolCodec
  else if ty = "FloatType" then floatCodec
  else if ty = "TimeType" then timeCodec true
  else if ty = "TimeTypeV1" then timeCodec false
  else if ty = "TrackUIDRefType" then trackUIDRefCodec
  else stringCodec  -- StringType, RefType

/-- Python `repr` of a handler / constructor default, as far as it occurs: `None`, `True`, `False`,
integers, floats with at most five decimals; anything else is kept as its text -/
def leafOfRepr (s : String) : Leaf :=
  if s = "None" then .none
  else if s = "True" then .bool true
  else if s = "False" then .bool false
  else match loadsInt s with
    | some i => .int i
    | Option.none =>
      let cs := s.toList
      let neg := cs.head? == some '-'
      let cs := if neg then cs.drop 1 else cs
      let w := cs.takeWhile isDec
      match cs.dropWhile isDec with
      | '.' :: f =>
        if !w.isEmpty && !f.isEmpty && f.length ≤ 5 && f.all isDec then
          let n : Int := (decNat w * 100000 + decNat f * 10 ^ (5 - f.length) : Nat)
          .num (if neg then -n else n)
        else .str s
      | _ => .str s

/-- one property of an `ElementParser`, as extracted from the real code -/
structure Row where
  kind : String
  admName : String
  argName : String
  attrName : String
  ty : String
  handlerDefault : String
  classDefault : String
  required : Bool
  parseOnly : Bool
  /-- `TypeAttribute`: the label attribute (`admName` is the definition attribute) -/
  labelName : String
  /-- `TypeAttribute`: the enum members -/
  enum : List (String × Nat)
  /-- hand-written handlers: `handler` / `to_xml` function names -/
  handler : String
  deriving DecidableEq, Repr

def optArg (s : String) : Option String := if s = "-" then Option.none else some s

/-- the model property for a table row over a value type `V` that embeds the leaves (`lift`, `inj`); the
hand-written handlers are supplied by `impl` -/
def ofRowG {V : Type} (lift : Codec Leaf → Codec V) (inj : Leaf → V) (impl : Row → CustomImpl V) (r : Row) :
    Property V :=
  if r.kind = "Attribute" then
    .attr r.admName r.argName (lift (codecOf r.ty)) r.required (inj (leafOfRepr r.handlerDefault))
  else if r.kind = "AttrElement" then
    .attrElement r.admName r.argName (lift (codecOf r.ty)) r.required (inj (leafOfRepr r.handlerDefault)) r.parseOnly
  else if r.kind = "ListElement" then .listElement r.admName r.argName (lift (codecOf r.ty)) r.required r.parseOnly
  else if r.kind = "HandleText" then .handleText r.argName (lift (codecOf r.ty))
  else if r.kind = "TypeAttribute" then
    .typeAttribute r.admName r.labelName r.argName (lift (enumDefCodec r.enum)) (lift (enumLabelCodec r.enum)) r.required
  else if r.kind = "CustomElement" then .customElement r.admName (optArg r.argName) r.required (impl r)
  else .genericElement (optArg r.argName) r.required (impl r)

/-- over the leaves themselves -/
def ofRow (impl : Row → CustomImpl Leaf) (r : Row) : Property Leaf := ofRowG id id impl r

def ofRows (impl : Row → CustomImpl Leaf) (rows : List Row) : List (Property Leaf) := rows.map (ofRow impl)

/-- a hand-written handler that is not modelled: never matches anything the driver is asked about
(its handler refuses, it writes nothing) -/
def unmodelled : CustomImpl Leaf :=
  { handle := fun _ _ => Option.none, attrsOut := fun _ => [], childrenOut := fun _ => [] }

end Earverif.XmlCodec
