"""C08 float leaf — `FloatType` / `SecondsType` of ear/fileio/adm/xml.py against Earverif.FloatText.

Generators of structured doubles and numerals, canonical forms shared with the Lean driver (`ff`, `f7`, `fp`, `sd`,
`sl` of Driver/C08.lean: doubles travel as 16 hex digit bit patterns, strings as hex code points), the correspondence
stream and the direct predicates on the real converters.  Theorems: Proofs/C08Float.lean.
"""
import math
import re
import struct
from fractions import Fraction

# ---------------------------------------------------------------------------------------------
# canonical forms

NAN_BITS = "7ff8000000000000"


def bits(x):
    if x != x:
        return NAN_BITS
    return "%016x" % struct.unpack("<Q", struct.pack("<d", x))[0]


def of_bits(h):
    return struct.unpack("<d", struct.pack("<Q", int(h, 16)))[0]


def cps(s):
    return " ".join("%x" % ord(c) for c in s)


def exact_decimal(fr):
    """exact decimal expansion of a non-negative dyadic rational (a double or a midpoint of two doubles)"""
    n, d = fr.numerator, fr.denominator
    k = d.bit_length() - 1
    assert d == 1 << k and n >= 0
    m = n * 5 ** k
    s = str(m)
    if k == 0:
        return s
    s = s.rjust(k + 1, "0")
    return s[:-k] + "." + s[-k:]


def real_converters():
    from ear.fileio.adm import xml
    return xml.FloatType, xml.SecondsType


def real_dumps(conv, x):
    try:
        return conv.dumps_func(x)
    except Exception as e:
        return "E:" + type(e).__name__


def real_float_loads(conv, s):
    try:
        v = conv.loads_func(s)
    except ValueError:
        return "E"
    except Exception as e:
        return "E:" + type(e).__name__
    if not isinstance(v, float):
        return "not-a-float:%r" % (v,)
    return bits(v)


def real_seconds_loads(conv, s):
    try:
        v = conv.loads_func(s)
    except (ValueError, ZeroDivisionError):
        return "E"
    except Exception as e:
        return "E:" + type(e).__name__
    if not isinstance(v, Fraction):
        return "not-a-Fraction:%r" % (v,)
    return "%d/%d" % (v.numerator, v.denominator)


# ---------------------------------------------------------------------------------------------
# generators


def _ulps(x, k):
    for _ in range(abs(k)):
        x = math.nextafter(x, math.inf if k > 0 else -math.inf)
    return x


def gen_doubles(rng, n):
    """(kind, double) pairs: structured finite doubles, the two infinities and a NaN"""
    out = []
    fixed = [0.0, -0.0, 1.0, -1.0, 0.5, 0.125, 0.375, 1e-5, 5e-6, -5e-6, 4.9999e-6, -4.9999e-6, 5.0001e-6, -1e-9,
             -1e-300, 1e-9, 5e-324, -5e-324, 2.2250738585072014e-308, 2.225073858507201e-308, 1.7976931348623157e308,
             -1.7976931348623157e308, 0.1, 0.2, 0.3, 1 / 3, 2 / 3, 0.000015, 0.000025, 0.000035, 1.000005, 2.5e-5,
             99999.999995, 0.999995, 0.9999949999999999, 9.999995, 180.0, -180.0, 90.0, 360.0, 1e15, 1e16, 1e22, 1e23,
             2.0 ** 36, 2.0 ** 36 - 2.0 ** -17, 2.0 ** 36 + 2.0 ** -16, 2.0 ** 35, 2.0 ** 35 + 3 * 2.0 ** -17,
             2.0 ** 53, 2.0 ** 53 - 1, 2.0 ** 52 + 0.5, 2.0 ** 44, 2.0 ** 44 + 2.0 ** -8, 123456789.123455, 0.30000000000000004]
    for x in fixed:
        out.append(("fixed", x))
    out += [("inf", math.inf), ("inf", -math.inf), ("nan", math.nan)]
    for _ in range(n):
        c = rng.random()
        sign = rng.choice([1.0, -1.0])
        if c < 0.16:  # random bit pattern, ADM-sized magnitudes
            m = rng.getrandbits(52)
            e = rng.randint(1023 - 30, 1023 + 20)
            out.append(("bits-small", sign * of_bits("%016x" % ((e << 52) | m))))
        elif c < 0.24:  # any finite double
            m = rng.getrandbits(52)
            e = rng.randint(0, 2046)
            out.append(("bits-any", sign * of_bits("%016x" % ((e << 52) | m))))
        elif c < 0.40:  # within a few ulps of k * 1e-5
            k = rng.choice([rng.randint(0, 100), rng.randint(0, 10 ** 6), rng.randint(0, 10 ** 8), rng.randint(0, 10 ** 12)])
            out.append(("near-grid", sign * _ulps(k / 100000.0, rng.randint(-3, 3))))
        elif c < 0.60:  # within a few ulps of a tie (k + 1/2) * 1e-5
            k = rng.choice([rng.randint(0, 100), rng.randint(0, 10 ** 6), rng.randint(0, 10 ** 8), rng.randint(0, 10 ** 12)])
            out.append(("near-tie", sign * _ulps((2 * k + 1) / 200000.0, rng.randint(-3, 3))))
        elif c < 0.70:  # exact ties: odd multiples of 1/64 are (k + 1/2) * 1e-5 exactly
            j = rng.choice([rng.randint(0, 64), rng.randint(0, 10 ** 4), rng.randint(0, 10 ** 9), rng.randint(0, 2 ** 50)])
            out.append(("exact-tie", sign * (2 * j + 1) / 64.0))
        elif c < 0.76:  # tiny values that print as (-)0.00000 or (-)0.00001
            out.append(("tiny", sign * rng.choice([rng.uniform(0, 1.2e-5), 10.0 ** rng.randint(-320, -6), 5e-6 * (1 + rng.uniform(-1e-12, 1e-12))])))
        elif c < 0.80:  # subnormals
            out.append(("subnormal", sign * of_bits("%016x" % rng.getrandbits(rng.choice([1, 8, 30, 52])))))
        elif c < 0.90:  # around 2^35 .. 2^37 (spacing of the doubles crosses 1e-5) and 2^53 (integers only)
            e = rng.choice([33, 34, 35, 35, 36, 36, 37, 44, 52, 53])
            x = 2.0 ** e
            out.append(("near-pow2", sign * _ulps(x, rng.choice([-2, -1, 0, 1, 2, rng.randint(-10 ** 6, 10 ** 6)]))
                        if abs(e) < 40 else sign * _ulps(x, rng.randint(-3, 3))))
        else:  # short decimals
            out.append(("short-decimal", sign * float("%d.%0*d" % (rng.randint(0, 10 ** rng.randint(0, 6)), rng.randint(1, 7), rng.randint(0, 9)))))
    return out


ALPHABET = " \t\n+-._eE0123456789infatyNx/"


def gen_numerals(rng, n, printed):
    """(kind, string): what the printers emit, other spellings float() accepts, and malformed near-misses"""
    out = [("printed", s) for s in printed]
    fixed = ["inf", "-inf", "+inf", "nan", "-nan", "+nan", "Infinity", "-INFINITY", "iNf", "NaN", "infinit", "infinityy",
             "in", "na", "", " ", ".", "-", "+", "-.", "e5", ".e5", "1e", "1e+", "1e-", "1.e5", ".5", "5.", "+.5e-1", "-5.E+2",
             "1_0", "1__0", "_1", "1_", "1_.5", "1._5", "1e_5", "1e5_0", "1_0.0_1e1_0", "1e-_5", "-_1", "0x10", "1 .0", "1. 0",
             "  1.5\n", "\t-0.00000 ", "\x0b1\x0c", "1\x00", "+-1", "--1", "1-", "1e5.0", "1.2.3", "1,5", "0.1", "0.10000",
             "1e400", "-1e400", "1e-400", "-1e-400", "1e309", "1e308", "1.7976931348623157e308", "1.7976931348623158e308",
             "1.7976931348623159e308", "17976931348623158079372897140530341507993413271003782693617377898044496829276475094664901797758720709633028641669288791094655554785194040263065748867150582068190890200070838367627385484581771153176447573027006985557136695962284291481986083493647529271907416844436551070434271155969950809304288017790417449779",
             "17976931348623158079372897140530341507993413271003782693617377898044496829276475094664901797758720709633028641669288791094655554785194040263065748867150582068190890200070838367627385484581771153176447573027006985557136695962284291481986083493647529271907416844436551070434271155969950809304288017790417449780",
             "2.4703282292062327e-324", "2.4703282292062328e-324", "4.9e-324", "2.2250738585072011e-308",
             "2.2250738585072014e-308", "0e999999999", "0.0e-999999999", "1e999999999", "1e-999999999",
             "0.000001e315", "100000e-330", "9007199254740993", "9007199254740992.5", "9007199254740993.0000000000001",
             "0.1e1", "1000000000000000000000000000000e-30", "0.5e-5", "000000.00000", "00012.50000"]
    out += [("fixed", s) for s in fixed]
    # the exact threshold between the largest subnormal tie / smallest doubles: exact decimal expansions
    for w in (1, 2, 3):
        a = Fraction(w, 2 ** 1074)
        mid = (a + Fraction(w - 1, 2 ** 1074)) / 2
        out.append(("exact-midpoint", exact_decimal(mid)))
        out.append(("exact-double", exact_decimal(a)))
    for _ in range(n):
        c = rng.random()
        if c < 0.2:  # repr of a random double (17 significant digits, exponent forms)
            x = of_bits("%016x" % ((rng.randint(1, 2046) << 52) | rng.getrandbits(52)))
            out.append(("repr", repr(x if rng.random() < 0.5 else -x)))
        elif c < 0.3:  # repr of ADM-sized values
            x = rng.uniform(-1000, 1000) * 10.0 ** rng.randint(-8, 3)
            out.append(("repr", rng.choice([repr(x), "%.3e" % x, "%.12f" % x, "%+.6f" % x, "%r " % x, "  %r" % x])))
        elif c < 0.45:  # exact decimal expansion of a double or of the midpoint to the next double (hard strtod cases)
            e = rng.randint(1023 - 60, 1023 + 60)
            x = of_bits("%016x" % ((e << 52) | rng.getrandbits(52)))
            y = math.nextafter(x, math.inf)
            fr = Fraction(x) if rng.random() < 0.4 else (Fraction(x) + Fraction(y)) / 2
            s = exact_decimal(fr)
            if rng.random() < 0.3:  # just above / below the midpoint
                s = s + rng.choice(["0000000001", "1"]) if rng.random() < 0.5 else s[:-1] + str(int(s[-1]) - 1) + "9999999"
            out.append(("exact-expansion", s))
        elif c < 0.6:  # five-decimal numerals written by hand
            s = "%s%d.%05d" % (rng.choice(["", "-", "+"]), rng.choice([0, rng.randint(0, 400), rng.randint(0, 10 ** 11)]),
                               rng.randint(0, 99999))
            out.append(("five-decimals", s))
        elif c < 0.7:  # decimal with exponent, underscores, blanks
            ip = str(rng.randint(0, 10 ** rng.randint(0, 20)))
            fp = "".join(rng.choice("0123456789") for _ in range(rng.randint(0, 25)))
            s = ip + ("." + fp if rng.random() < 0.7 else "")
            if rng.random() < 0.6:
                s += rng.choice("eE") + rng.choice(["", "+", "-"]) + str(rng.choice([rng.randint(0, 30), rng.randint(280, 340)]))
            if rng.random() < 0.25 and len(s) > 2:
                i = rng.randrange(1, len(s))
                s = s[:i] + "_" + s[i:]
            s = rng.choice(["", "", " ", "\n", "-", "+"]) + s + rng.choice(["", "", " ", "\r\n"])
            out.append(("general", s))
        else:  # mutated valid numerals: mostly malformed
            base = rng.choice(["0.50000", "-12.34567", "1e5", "inf", "nan", "1_000.5", " 3.25 ", "-0.00000", "1.5e-7"])
            s = list(base)
            for _ in range(rng.randint(1, 2)):
                op = rng.random()
                i = rng.randrange(len(s) + 1)
                if op < 0.4:
                    s.insert(i, rng.choice(ALPHABET))
                elif op < 0.7 and s:
                    del s[min(i, len(s) - 1)]
                elif s:
                    s[min(i, len(s) - 1)] = rng.choice(ALPHABET)
            out.append(("mutated", "".join(s)))
    return out


def gen_fractions(rng, n):
    """(kind, Fraction) for SecondsType.dumps"""
    out = [("fixed", Fraction(a, b)) for a, b in
           [(0, 1), (1, 100000), (1, 200000), (3, 200000), (1, 3), (2, 3), (512, 100000), (1, 1), (5, 1000000),
            (4999999, 10 ** 12), (5000001, 10 ** 12), (1, 64), (3, 64), (-1, 100000), (-1, 10 ** 9), (-1, 3),
            (2 ** 36 * 100000 + 1, 100000), (10 ** 400, 1), (1, 10 ** 400), (-1, 10 ** 400), (2 ** 1024, 1),
            (2 ** 1024 - 2 ** 970, 1), (2 ** 1024 - 2 ** 970 - 1, 1)]]
    for _ in range(n):
        c = rng.random()
        if c < 0.4:
            out.append(("grid", Fraction(rng.choice([rng.randint(0, 100), rng.randint(0, 10 ** 7), rng.randint(0, 10 ** 12)]), 100000)))
        elif c < 0.6:
            k = rng.randint(0, 10 ** 7)
            out.append(("near-tie", Fraction(2 * k + 1, 200000) + Fraction(rng.randint(-2, 2), 10 ** rng.choice([9, 18, 30]))))
        elif c < 0.7:
            out.append(("exact-tie", Fraction(2 * rng.randint(0, 10 ** 6) + 1, 200000)))
        elif c < 0.9:
            out.append(("random", Fraction(rng.randint(0, 10 ** rng.randint(1, 12)), rng.randint(1, 10 ** rng.randint(1, 12)))))
        else:
            out.append(("negative", -Fraction(rng.randint(1, 10 ** 7), rng.randint(1, 10 ** 7))))
    return out


def gen_fraction_strings(rng, n, printed):
    """(kind, string) for SecondsType.loads = Fraction(str); no `_` (outside the model)"""
    out = [("printed", s) for s in printed]
    fixed = ["", " ", ".", "-", "1", "-1", "+1", "1.", ".5", "-.5", "1.5e3", "1.5E-3", "1.5e", "1e", "1e+", "1/2", " 1 / 2 ", "1/ 2",
             "1 /2", "1/0", "1 /0", "1/-2", "1.0/2", "1/2.0", "1./2", "-0.00000", "0.00000", "00.00500", "\x1c1.0", "1.0\x1f",
             "1 .5", "1. 5", "--1", "+-1", "1\n", "\n1", "inf", "nan", "1e5", "1E05", "1e-05", "0x1", "1,5", "١", "1 e5", "1.5 e5",
             "3/4/5", "3//4", "/4", "3/", ".e1", ". 5", "+.5e1", "12.5\t", "1\x00"]
    out += [("fixed", s) for s in fixed]
    for _ in range(n):
        c = rng.random()
        if c < 0.35:
            out.append(("five-decimals", "%s%d.%05d" % (rng.choice(["", "-", "+"]), rng.choice([0, rng.randint(0, 400), rng.randint(0, 10 ** 11)]),
                                                         rng.randint(0, 99999))))
        elif c < 0.6:
            ip = str(rng.randint(0, 10 ** rng.randint(0, 12))) if rng.random() < 0.9 else ""
            fp = "".join(rng.choice("0123456789") for _ in range(rng.randint(0, 12)))
            s = ip + ("." + fp if rng.random() < 0.7 else "")
            if rng.random() < 0.4:
                s += rng.choice("eE") + rng.choice(["", "+", "-"]) + str(rng.randint(0, 40))
            out.append(("general", rng.choice(["", " ", "-", "+", "\t"]) + s + rng.choice(["", "", " ", "\n"])))
        elif c < 0.7:
            out.append(("ratio", "%s%d%s/%s%d%s" % (rng.choice(["", "-"]), rng.randint(0, 10 ** 6), rng.choice(["", " "]), rng.choice(["", " "]),
                                                     rng.randint(0, 50), rng.choice(["", " "]))))
        else:
            base = rng.choice(["0.50000", "12.34567", "1e5", "1/3", " 3.25 ", "-0.00000", "1.5e-7"])
            s = list(base)
            for _ in range(rng.randint(1, 2)):
                op = rng.random()
                i = rng.randrange(len(s) + 1)
                alphabet = ALPHABET.replace("_", "")
                if op < 0.4:
                    s.insert(i, rng.choice(alphabet))
                elif op < 0.7 and s:
                    del s[min(i, len(s) - 1)]
                elif s:
                    s[min(i, len(s) - 1)] = rng.choice(alphabet)
            out.append(("mutated", "".join(s)))
    # no `_`; exponents of at most three digits (Fraction builds the power of ten)
    return [(k, s) for k, s in out if "_" not in s and not re.search(r"[eE][+-]?[0-9]{4}", s)]


# ---------------------------------------------------------------------------------------------
# the property on the real converters (written from the property text, no Lean involved)


def float_predicate(ft, x):
    """property on one finite double: (a) the printed text has the five-decimal shape and is the decimal nearest to x
    (checked exactly with Fraction); (b) reading it back is within 0.5e-5 (1 + tiny) of x for ADM-sized x
    (|x| < 2^20: the rounding of the reader is below 6e-11) and within 1e-5 always; (c) printing the value read back
    reproduces the same text; (d) the value read back is reproduced exactly by another print / parse.
    Returns None or (tag, detail)."""
    s = ft.dumps_func(x)
    if not isinstance(s, str):
        return "float-print-type", {"printed": repr(s)}
    body = s[1:] if s[:1] == "-" else s
    ip, dot, fp = body.partition(".")
    if not (dot and ip.isdigit() and ip.isascii() and len(fp) == 5 and fp.isdigit() and fp.isascii()) or \
            (len(ip) > 1 and ip[0] == "0"):
        return "float-print-shape", {"printed": s}
    if (s[:1] == "-") != (math.copysign(1.0, x) < 0):
        return "float-print-sign", {"printed": s}
    d = Fraction(int(ip + fp), 100000)
    ex = abs(Fraction(x))
    err = abs(d - ex)
    if err > Fraction(1, 200000) or (err == Fraction(1, 200000) and int(fp[-1]) % 2 == 1):
        return "float-print-not-nearest", {"printed": s, "exact": str(ex.numerator) + "/" + str(ex.denominator)}
    try:
        y = ft.loads_func(s)
    except Exception as e:
        return "float-reparse-raises", {"printed": s, "exc": "%s: %s" % (type(e).__name__, e)}
    if not isinstance(y, float):
        return "float-reparse-type", {"printed": s, "parsed": repr(y)}
    dist = abs(Fraction(y) - Fraction(x))
    bound = Fraction(1, 200000) * (1 + Fraction(1, 10 ** 4)) if abs(x) < 2.0 ** 20 else Fraction(1, 100000)
    if dist > bound or math.copysign(1.0, y) != math.copysign(1.0, x):
        return "float-not-close", {"printed": s, "parsed": repr(y), "bits": bits(y), "distance": float(dist)}
    s2 = ft.dumps_func(y)
    if s2 != s:
        return "float-not-fixed-point", {"printed": s, "parsed": repr(y), "printed_again": s2}
    y2 = ft.loads_func(s2)
    if bits(y2) != bits(y):
        return "float-second-generation", {"printed": s, "parsed": repr(y), "parsed_again": repr(y2)}
    return None


def grid_predicate(ft, k):
    """parsed documents: x = the double nearest to k * 1e-5 prints as that decimal and reads back as x"""
    x = k / 100000.0  # correctly rounded quotient of two exactly representable integers
    want = ("-" if k < 0 else "") + "%d.%05d" % divmod(abs(k), 100000)
    s = ft.dumps_func(x)
    if s != want:
        return "float-grid-print", {"k": k, "printed": s, "expected": want}
    y = ft.loads_func(s)
    if not isinstance(y, float) or bits(y) != bits(x):
        return "float-grid-reparse", {"k": k, "printed": s, "parsed": repr(y)}
    return None


def seconds_predicate(st, t):
    """SecondsType on a non-negative Fraction that float() can hold: printed text = five decimals nearest to float(t);
    read back exactly that decimal; printing again gives the same text; a multiple of 1e-5 below 2^36 comes back
    exactly"""
    s = st.dumps_func(t)
    ip, dot, fp = s.partition(".")
    if not (dot and ip.isdigit() and len(fp) == 5 and fp.isdigit()):
        return "seconds-print-shape", {"printed": s}
    d = Fraction(int(ip + fp), 100000)
    ex = Fraction(float(t))
    err = abs(d - ex)
    if err > Fraction(1, 200000) or (err == Fraction(1, 200000) and int(fp[-1]) % 2 == 1):
        return "seconds-print-not-nearest", {"printed": s}
    try:
        back = st.loads_func(s)
    except Exception as e:
        return "seconds-reparse-raises", {"printed": s, "exc": "%s: %s" % (type(e).__name__, e)}
    if not isinstance(back, Fraction) or back != d:
        return "seconds-reparse-value", {"printed": s, "parsed": repr(back)}
    if abs(back - t) > Fraction(1, 200000) + abs(t) / 2 ** 53:
        return "seconds-not-close", {"printed": s, "parsed": repr(back)}
    s2 = st.dumps_func(back)
    if s2 != s:
        return "seconds-not-fixed-point", {"printed": s, "parsed": repr(back), "printed_again": s2}
    if (t * 100000).denominator == 1 and t < 2 ** 36 and back != t:
        return "seconds-grid-not-exact", {"printed": s, "parsed": repr(back)}
    return None


# ---------------------------------------------------------------------------------------------
# document level: the float texts of the REAL adm_to_xml output against the grid model
# (theorem C08_roundtrip_model_floats_partial, Proofs/C08FloatDoc.lean: isFloatRow / isGainRow / isJumpRow)

NUM_BOUND = 2 ** 36 * 10 ** 5

GAIN_HANDLERS = ("handle_gain_element_v1 / gain_to_xml", "handle_gain_element_v2 / gain_to_xml",
                 "handle_gain_element_v2 / optional_gain_to_xml", "handle_gain_attribute_v1 / gain_attribute_to_xml",
                 "handle_gain_attribute_v2 / gain_attribute_to_xml")
JUMP_HANDLER = "handle_jump_position / jump_position_to_xml"


def dumps_num(k):
    """Earverif.XmlCodec.dumpsNum (Model/XmlLeaf.lean), transliterated"""
    return ("-" if k < 0 else "") + "%d.%s" % (abs(k) // 100000, str(abs(k) % 100000).rjust(5, "0"))


def _local(e):
    t = e.tag
    return t.rsplit("}", 1)[-1] if isinstance(t, str) else None


def _kids(xe, name):
    return [c for c in xe if _local(c) == name]


def _nested(nm, version):
    """child element name -> (attribute of the real object, is a list, parser table name or a function of the object)"""
    v = "v%d/" % version
    return {
        "loudnessMetadata": ("loudnessMetadata", True, lambda o: v + "loudnessMetadata"),
        "audioBlockFormat": ("audioBlockFormats", True, lambda o: v + "audioBlockFormat:" + o.type.name),
        "alternativeValueSet": ("alternativeValueSets", True, lambda o: v + "alternativeValueSet"),
        "audioObjectInteraction": ("audioObjectInteraction", False, lambda o: v + "audioObjectInteraction"),
        "audioProgrammeReferenceScreen": ("referenceScreen", False, lambda o: "audioProgrammeReferenceScreen"),
    }


def float_sites(xe, obj, nm, table, version, out, path=""):
    """walk one element of the real XML together with the real object it was written for, along the regenerated
    parser table `nm`: appends (path, kind, [values of the object], [texts in the XML]) for every declarative FloatType
    row, every hand-written gain handler and jumpPosition/interpolationLength, then descends into the nested elements
    rendered by their own parser tables.  Returns False when XML and object do not line up (reported by the caller)."""
    _, rows = table[nm]
    here = path + "/" + nm.split("/")[-1]
    ok = True
    for r in rows:
        kind, adm, arg, att, ty, hdef, cdef, req, ponly, label, enum, handler = r
        if ty == "FloatType" and kind in ("Attribute", "AttrElement", "ListElement"):
            if ponly:
                continue
            val = getattr(obj, att)
            if kind == "Attribute":
                texts = [xe.get(adm)] if xe.get(adm) is not None else []
            else:
                texts = [c.text or "" for c in _kids(xe, adm)]
            vals = list(val) if kind == "ListElement" else ([] if val is None else [val])
            out.append((here + "/" + adm, "float", vals, texts))
        elif handler in GAIN_HANDLERS:
            g = getattr(obj, "gain", None)
            if kind == "GenericElement":
                texts = [xe.get("gain")] if xe.get("gain") is not None and xe.get("gainUnit") != "dB" else []
            else:
                texts = [c.text or "" for c in _kids(xe, "gain") if c.get("gainUnit") != "dB"]
            out.append((here + "/gain", "float", [] if g is None else [g], texts))
        elif handler == JUMP_HANDLER:
            jp = getattr(obj, "jumpPosition", None)
            texts = [c.get("interpolationLength") for c in _kids(xe, "jumpPosition") if c.get("interpolationLength") is not None]
            vals = [] if jp is None or jp.interpolationLength is None else [jp.interpolationLength]
            out.append((here + "/jumpPosition@interpolationLength", "seconds", vals, texts))
    nested = _nested(nm, version)
    for cname, (att, is_list, sub) in nested.items():
        cs = _kids(xe, cname)
        if not cs:
            continue
        if not hasattr(obj, att):
            ok = False
            continue
        objs = list(getattr(obj, att)) if is_list else [getattr(obj, att)]
        if len(objs) != len(cs) or any(o is None for o in objs):
            ok = False
            continue
        for i, (c, o) in enumerate(zip(cs, objs)):
            try:
                subnm = sub(obj)
            except Exception:
                ok = False
                continue
            if subnm in table:
                ok = float_sites(c, o, subnm, table, version, out, "%s[%d]" % (here, i)) and ok
    if nm.endswith("audioBlockFormat:Matrix"):
        ms = _kids(xe, "matrix")
        coeffs = [c for m in ms for c in _kids(m, "coefficient")]
        objs = list(getattr(obj, "matrix", []) or [])
        if len(coeffs) != len(objs):
            ok = False
        else:
            for i, (c, o) in enumerate(zip(coeffs, objs)):
                ok = float_sites(c, o, "v%d/coefficient" % version, table, version, out, "%s/matrix[%d]" % (here, i)) and ok
    return ok


def grid_of(kind, x):
    """the model's grid value k of a value of the real object (x = the double nearest to k / 10^5, resp. the Fraction
    k / 10^5), or None when the value is outside NumsBounded / off the grid / a negative zero"""
    if kind == "seconds":
        f = Fraction(x) * 100000
        if f.denominator != 1 or not (0 <= f.numerator < NUM_BOUND):
            return None
        return f.numerator
    if isinstance(x, bool) or not isinstance(x, (int, float)):
        return None
    x = float(x)
    if x != x or math.isinf(x) or (x == 0 and math.copysign(1.0, x) < 0):
        return None
    k = int(round(x * 100000))
    if abs(k) >= NUM_BOUND or k / 100000.0 != x:
        return None
    return k


def site_expectation(kind, x):
    """(k, the text the model writes, the text the real format string writes for the model's value)"""
    k = grid_of(kind, x)
    if k is None:
        return None
    if kind == "seconds":
        return k, dumps_num(k), "{:07.5f}".format(float(Fraction(k, 100000)))
    return k, dumps_num(k), "{:.5f}".format(k / 100000.0)
