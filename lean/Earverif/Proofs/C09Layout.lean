/-
Closed-form layout of the buffer produced by the writer model (C09 / C17):
the unclosed buffer after any history, and the finalised file.
-/
import Earverif.Proofs.C09

namespace Earverif.Bw64

/-- bytes `_write_chna_chunk` appends for a pending value (nothing for `None`) -/
def optChnaB : Option (List ChnaEntry) → Bytes
  | some es => chnaChunk es
  | none => []

/-- bytes `_write_axml_chunk` / `_write_bext_chunk` append for a truthy value (nothing for `None`/`b''`) -/
def optMetaB (id : Bytes) : Option Bytes → Bytes
  | some (x :: xs) => metaChunk id (x :: xs)
  | _ => []

/-- the encoded bytes of all `write` calls of a history -/
def dataOf : List WOp → Bytes
  | [] => []
  | .write b :: ops => b ++ dataOf ops
  | _ :: ops => dataOf ops

/-- the value of `writer.chna` at `close` -/
def pendChna (init : Option (List ChnaEntry)) : List WOp → Option (List ChnaEntry)
  | [] => init
  | .setChna v :: ops => pendChna v ops
  | _ :: ops => pendChna init ops

def pendAxml (init : Option Bytes) : List WOp → Option Bytes
  | [] => init
  | .setAxml v :: ops => pendAxml v ops
  | _ :: ops => pendAxml init ops

def pendBext (init : Option Bytes) : List WOp → Option Bytes
  | [] => init
  | .setBext v :: ops => pendBext v ops
  | _ :: ops => pendBext init ops

/-- the 12 + 36 + 24 bytes every unclosed buffer starts with -/
def head0 (fmt : Fmt) : Bytes := idRIFF ++ (ffff ++ (idWAVE ++ (junkChunk ++ fmtChunk fmt)))

/-- chunks written by the constructor between `fmt ` and `data` -/
def preB (c0 : Option (List ChnaEntry)) (a0 b0 : Option Bytes) : Bytes :=
  optChnaB c0 ++ (optMetaB idAxml a0 ++ optMetaB idBext b0)

/-- State invariant between construction and `close`. -/
structure Opened (s : WState) (fmt : Fmt) (force : Bool) (c0 : Option (List ChnaEntry)) (a0 b0 : Option Bytes)
    (data : Bytes) : Prop where
  buf : s.buf = head0 fmt ++ (preB c0 a0 b0 ++ (idData ++ (ffff ++ data)))
  dataBytes : s.dataBytes = data.length
  dataPos : s.dataPos = 72 + (preB c0 a0 b0).length
  force : s.force = force
  chnaW : s.chnaW = c0.isSome
  axmlW : s.axmlW = truthy a0
  bextW : s.bextW = truthy b0

theorem head0_length (fmt : Fmt) : (head0 fmt).length = 72 := by
  simp [head0, idRIFF, ffff, idWAVE, junkChunk, fmtChunk, idJUNK, idFmt, le_length]

theorem openW_opened (fmt : Fmt) (c0 : Option (List ChnaEntry)) (a0 b0 : Option Bytes) (force : Bool) :
    Opened (openW fmt c0 a0 b0 force) fmt force c0 a0 b0 [] ∧
    (openW fmt c0 a0 b0 force).chna = c0 ∧ (openW fmt c0 a0 b0 force).axml = a0 ∧
    (openW fmt c0 a0 b0 force).bext = b0 := by
  have h72 := head0_length fmt
  rcases c0 with _ | es <;> rcases a0 with _ | _ | ⟨x, xs⟩ <;> rcases b0 with _ | _ | ⟨y, ys⟩ <;>
    (refine ⟨⟨?_, ?_, ?_, ?_, ?_, ?_, ?_⟩, ?_, ?_, ?_⟩ <;>
      simp [openW, truthy, WState.writeChna, WState.writeAxml, WState.writeBext, preB, optChnaB, optMetaB, head0] <;>
      simp [head0] at h72 <;> omega)

theorem stepW_opened {s : WState} {fmt : Fmt} {force : Bool} {c0 : Option (List ChnaEntry)} {a0 b0 : Option Bytes}
    {data : Bytes} (h : Opened s fmt force c0 a0 b0 data) (op : WOp) :
    Opened (stepW s op) fmt force c0 a0 b0 (data ++ dataOf [op]) := by
  obtain ⟨h1, h2, h3, h4, h5, h6, h7⟩ := h
  cases op <;> refine ⟨?_, ?_, ?_, ?_, ?_, ?_, ?_⟩ <;> simp [stepW, dataOf, *]

theorem dataOf_cons (op : WOp) (ops : List WOp) : dataOf (op :: ops) = dataOf [op] ++ dataOf ops := by
  cases op <;> simp [dataOf]

theorem runW_opened {fmt : Fmt} {force : Bool} {c0 : Option (List ChnaEntry)} {a0 b0 : Option Bytes}
    (ops : List WOp) : ∀ {s : WState} {data : Bytes}, Opened s fmt force c0 a0 b0 data →
      Opened (runW s ops) fmt force c0 a0 b0 (data ++ dataOf ops) ∧
      (runW s ops).chna = pendChna s.chna ops ∧ (runW s ops).axml = pendAxml s.axml ops ∧
      (runW s ops).bext = pendBext s.bext ops := by
  induction ops with
  | nil => intro s data h; simpa [runW, dataOf, pendChna, pendAxml, pendBext] using h
  | cons op ops ih =>
    intro s data h
    have h' := ih (stepW_opened h op)
    simp only [runW, List.foldl_cons] at h' ⊢
    rw [dataOf_cons, ← List.append_assoc]
    refine ⟨h'.1, ?_, ?_, ?_⟩
    · rw [h'.2.1]; cases op <;> simp [stepW, pendChna]
    · rw [h'.2.2.1]; cases op <;> simp [stepW, pendAxml]
    · rw [h'.2.2.2]; cases op <;> simp [stepW, pendBext]

/-- **Layout of an unclosed buffer.** -/
theorem unclosedFile_layout (fmt : Fmt) (c0 : Option (List ChnaEntry)) (a0 b0 : Option Bytes) (force : Bool)
    (ops : List WOp) :
    unclosedFile fmt c0 a0 b0 force ops = head0 fmt ++ (preB c0 a0 b0 ++ (idData ++ (ffff ++ dataOf ops))) := by
  have h := (runW_opened ops (openW_opened fmt c0 a0 b0 force).1).1.buf
  simpa [unclosedFile] using h

/-! ### `close` -/

/-- chunks `close` appends after the data chunk: those that were not written by the constructor -/
def lateB (cw aw bw : Bool) (c : Option (List ChnaEntry)) (a b : Option Bytes) : Bytes :=
  (if cw then [] else optChnaB c) ++ ((if aw then [] else optMetaB idAxml a) ++ (if bw then [] else optMetaB idBext b))

theorem lateW_spec (s : WState) :
    (lateW s).buf = s.buf ++ (pad s.dataBytes ++ lateB s.chnaW s.axmlW s.bextW s.chna s.axml s.bext) ∧
    (lateW s).dataBytes = s.dataBytes ∧ (lateW s).dataPos = s.dataPos ∧ (lateW s).force = s.force := by
  obtain ⟨buf, fmt, force, dataBytes, dataPos, chna, axml, bext, chnaW, axmlW, bextW⟩ := s
  have hp : ∀ (s : WState), s.padData.buf = s.buf ++ pad s.dataBytes ∧ s.padData.dataBytes = s.dataBytes ∧
      s.padData.dataPos = s.dataPos ∧ s.padData.force = s.force ∧ s.padData.chna = s.chna ∧
      s.padData.axml = s.axml ∧ s.padData.bext = s.bext ∧ s.padData.chnaW = s.chnaW ∧
      s.padData.axmlW = s.axmlW ∧ s.padData.bextW = s.bextW := by
    intro s; unfold WState.padData pad; split <;> simp
  have hc : ∀ (s : WState), s.lateChna.buf = s.buf ++ (if s.chnaW then [] else optChnaB s.chna) ∧
      s.lateChna.dataBytes = s.dataBytes ∧
      s.lateChna.dataPos = s.dataPos ∧ s.lateChna.force = s.force ∧
      s.lateChna.axml = s.axml ∧ s.lateChna.bext = s.bext ∧
      s.lateChna.axmlW = s.axmlW ∧ s.lateChna.bextW = s.bextW := by
    intro s
    obtain ⟨buf, fmt, force, dataBytes, dataPos, chna, axml, bext, chnaW, axmlW, bextW⟩ := s
    cases chnaW <;> cases chna <;> simp [WState.lateChna, WState.writeChna, optChnaB]
  have ha : ∀ (s : WState), s.lateAxml.buf = s.buf ++ (if s.axmlW then [] else optMetaB idAxml s.axml) ∧
      s.lateAxml.dataBytes = s.dataBytes ∧
      s.lateAxml.dataPos = s.dataPos ∧ s.lateAxml.force = s.force ∧ s.lateAxml.bext = s.bext ∧
      s.lateAxml.bextW = s.bextW := by
    intro s
    obtain ⟨buf, fmt, force, dataBytes, dataPos, chna, axml, bext, chnaW, axmlW, bextW⟩ := s
    cases axmlW <;> rcases axml with _ | _ | ⟨x, xs⟩ <;> simp [WState.lateAxml, WState.writeAxml, optMetaB, truthy]
  have hb : ∀ (s : WState), s.lateBext.buf = s.buf ++ (if s.bextW then [] else optMetaB idBext s.bext) ∧
      s.lateBext.dataBytes = s.dataBytes ∧
      s.lateBext.dataPos = s.dataPos ∧ s.lateBext.force = s.force := by
    intro s
    obtain ⟨buf, fmt, force, dataBytes, dataPos, chna, axml, bext, chnaW, axmlW, bextW⟩ := s
    cases bextW <;> rcases bext with _ | _ | ⟨x, xs⟩ <;> simp [WState.lateBext, WState.writeBext, optMetaB, truthy]
  unfold lateW
  obtain ⟨p1, p2, p3, p4, p5, p6, p7, p8, p9, p10⟩ := hp ⟨buf, fmt, force, dataBytes, dataPos, chna, axml, bext, chnaW, axmlW, bextW⟩
  obtain ⟨c1, c2, c3, c4, c5, c6, c7, c8⟩ := hc (WState.padData ⟨buf, fmt, force, dataBytes, dataPos, chna, axml, bext, chnaW, axmlW, bextW⟩)
  obtain ⟨a1, a2, a3, a4, a5, a6⟩ := ha (WState.padData ⟨buf, fmt, force, dataBytes, dataPos, chna, axml, bext, chnaW, axmlW, bextW⟩).lateChna
  obtain ⟨b1, b2, b3, b4⟩ := hb (WState.padData ⟨buf, fmt, force, dataBytes, dataPos, chna, axml, bext, chnaW, axmlW, bextW⟩).lateChna.lateAxml
  refine ⟨?_, ?_, ?_, ?_⟩
  · rw [b1, a1, c1, p1, a6, a5, c8, c7, c6, c5, p10, p9, p8, p7, p6, p5]
    simp [lateB]
  · rw [b2, a2, c2, p2]
  · rw [b3, a3, c3, p3]
  · rw [b4, a4, c4, p4]

theorem patchAt_zero {x c y : Bytes} (hx : x.length = y.length) : patchAt (x ++ c) 0 y = y ++ c := by
  simp [patchAt, ← hx]

/-- the RIFF size written by `close`: file length minus 8 -/
def riffSizeOf (pre data late : Bytes) : Nat := 72 + pre.length + 8 + (data.length + data.length % 2) + late.length - 8

/-- **Layout of a finalised file**, for a writer state reached from the constructor by any history. -/
theorem closeW_layout {s : WState} {fmt : Fmt} {force : Bool} {c0 : Option (List ChnaEntry)} {a0 b0 : Option Bytes}
    {data : Bytes} (h : Opened s fmt force c0 a0 b0 data) :
    closeW s =
      (let pre := preB c0 a0 b0
       let late := lateB c0.isSome (truthy a0) (truthy b0) s.chna s.axml s.bext
       let R := riffSizeOf pre data late
       if R ≥ 2 ^ 32 || force then
         idBW64 ++ (ffff ++ (idWAVE ++ (ds64Chunk R data.length ++ (fmtChunk fmt ++ (pre ++
           (idData ++ (ffff ++ (data ++ (pad data.length ++ late)))))))))
       else
         idRIFF ++ (le 4 R ++ (idWAVE ++ (junkChunk ++ (fmtChunk fmt ++ (pre ++
           (idData ++ (le 4 data.length ++ (data ++ (pad data.length ++ late)))))))))) := by
  obtain ⟨h1, h2, h3, h4, h5, h6, h7⟩ := h
  obtain ⟨l1, l2, l3, l4⟩ := lateW_spec s
  have h72 := head0_length fmt
  have hlen : (lateW s).buf.length - 8 =
      riffSizeOf (preB c0 a0 b0) data (lateB c0.isSome (truthy a0) (truthy b0) s.chna s.axml s.bext) := by
    rw [l1, h1, h2, h5, h6, h7]
    simp [riffSizeOf, h72, pad_length, idData, ffff]; omega
  have hB : (lateW s).buf = idRIFF ++ (ffff ++ (idWAVE ++ (junkChunk ++ (fmtChunk fmt ++ (preB c0 a0 b0 ++
      (idData ++ (ffff ++ (data ++ (pad data.length ++
        lateB c0.isSome (truthy a0) (truthy b0) s.chna s.axml s.bext))))))))) := by
    rw [l1, h1, h2, h5, h6, h7]; simp [head0]
  simp only [closeW, finalizeW, hlen, l2, l3, l4, h2, h3, h4]
  rw [hB]
  generalize lateB c0.isSome (truthy a0) (truthy b0) s.chna s.axml s.bext = late
  generalize riffSizeOf (preB c0 a0 b0) data late = R
  split
  · -- BW64
    rw [patchAt_zero (x := idRIFF) (y := idBW64) rfl]
    rw [patchAt_mid (a := idBW64 ++ (ffff ++ idWAVE)) (x := junkChunk) (off := 12)
        (c := fmtChunk fmt ++ (preB c0 a0 b0 ++ (idData ++ (ffff ++ (data ++ (pad data.length ++ late))))))
        (by simp) rfl (by simp [junkChunk, ds64Chunk, idJUNK, idDs64, le_length])]
    simp
  · -- RIFF
    rw [patchAt_mid (a := idRIFF) (x := ffff) (off := 4) rfl rfl (by simp [ffff, le_length])]
    rw [patchAt_mid (a := idRIFF ++ (le 4 R ++ (idWAVE ++ (junkChunk ++ (fmtChunk fmt ++ (preB c0 a0 b0 ++ idData))))))
        (x := ffff) (c := data ++ (pad data.length ++ late))
        (by simp) (by simp [head0, idRIFF, ffff, idWAVE, idData, le_length] at h72 ⊢; omega) (by simp [ffff, le_length])]
    simp

end Earverif.Bw64
