/- Geometric parts of `DirectSpeakersPanner._handle_without_gain`, over exact rationals (core Lean only):
     * `geom.inside_angle_range` (both normalisation loops, tolerance)         → `insideAngleRange`
     * `channels_within_bounds` polar / Cartesian                              → `polarWithin`, `cartWithin`
     * `apply_screen_edge_lock` for polar positions (`ScreenEdgeLockHandler`)  → `applySelPolar`
     * `closest_channel_index` (distances, unique minimum within `tol`)        → `closestIndex`
     * the geometry assembled for the decision structure of `Model/DirectSpeakers`  → `geoOf`, `handleFull`
   Loudspeaker positions come from the regenerated table (`LayoutGeom`: nominal polar positions,
   `layout.nominal_positions`, `allocentric.positions_for_layout`, screen edges) as the exact rational values
   of the float64s.  What stays a parameter: the Cartesian vector of the shifted position
   (`as_cartesian_array`, trigonometry), the Cartesian screen-edge-lock result, the point-source gains.
   Real-number semantics: comparisons are exact (the float code rounds `a - tol`, `y -= 360.0`, norms). -/
import Earverif.Model.DirectSpeakers
namespace Earverif.DS

abbrev Vec3 := Rat × Rat × Rat

/-- `PolarEdges.from_screen(layout.screen)`. -/
structure ScreenEdges where
  left : Rat
  right : Rat
  bottom : Rat
  top : Rat
deriving Repr

/-- Per-layout geometry read by the panner's constructor. -/
structure LayoutGeom where
  /-- `channel.polar_nominal_position.azimuth / elevation / distance` -/
  az : List Rat
  el : List Rat
  dist : List Rat
  /-- `layout.nominal_positions` -/
  pos : List Vec3
  /-- `allocentric.positions_for_layout(layout)` -/
  allo : List Vec3
  /-- `ScreenEdgeLockHandler.rep_screen_edges` (`none` when `layout.screen is None`) -/
  edges : Option ScreenEdges
deriving Repr

/-- `BoundCoordinate`. -/
structure Bound where
  value : Rat
  min : Option Rat
  max : Option Rat
deriving Repr

/-- `bound.min if bound.min is not None else bound.value` -/
def Bound.lo (b : Bound) : Rat := b.min.getD b.value
/-- `bound.max if bound.max is not None else bound.value` -/
def Bound.hi (b : Bound) : Rat := b.max.getD b.value

/-- `ScreenEdgeLock(horizontal, vertical)`. -/
structure ScreenEdgeLock where
  horizontal : Option String
  vertical : Option String
deriving Repr

/-- `block_format.position`: a polar position as given (screen edge lock is modelled), or a Cartesian
    position after `apply_screen_edge_lock` (its X/Y/Z values are captured). -/
inductive Position
  | polar (az el dist : Bound) (sel : ScreenEdgeLock)
  | cart (x y z : Bound)
deriving Repr

/-! ### inside_angle_range -/

def absRat (x : Rat) : Rat := if x < 0 then -x else x

/-- Enough iterations for a `± 360` loop that moves `y` towards `lo`. -/
def loopFuel (y lo : Rat) : Nat := (absRat (y - lo) / 360).floor.toNat + 2

/-- Loop condition `y - 360.0 > lo` (`strict`) / `y - 360.0 >= lo`. -/
def decCond (strict : Bool) (lo y : Rat) : Bool :=
  if strict then decide (lo < y - 360) else decide (lo ≤ y - 360)

/-- `while y - 360.0 > lo: y -= 360.0` (`strict`) / `while y - 360.0 >= lo: y -= 360.0`. -/
def decWhile (strict : Bool) (lo : Rat) : Nat → Rat → Rat
  | 0, y => y
  | n + 1, y => if decCond strict lo y then decWhile strict lo n (y - 360) else y

/-- `while y < lo: y += 360.0`. -/
def incWhile (lo : Rat) : Nat → Rat → Rat
  | 0, y => y
  | n + 1, y => if y < lo then incWhile lo n (y + 360) else y

/-- The two loops in sequence. -/
def normAngle (strict : Bool) (lo y : Rat) : Rat :=
  let y1 := decWhile strict lo (loopFuel y lo) y
  incWhile lo (loopFuel y1 lo) y1

/-- `geom.inside_angle_range(x, start, end, tol)`. -/
def insideAngleRange (x start end_ tol : Rat) : Bool :=
  let e := normAngle true start end_
  let x' := normAngle false (start - tol) x
  decide (x' ≤ e + tol)

/-! ### channels_within_bounds -/

/-- One channel of the polar `channels_within_bounds`. -/
def polarWithin1 (az el dist : Bound) (tol a e d : Rat) : Bool :=
  (insideAngleRange a az.lo az.hi tol || decide (90 - tol ≤ absRat e)) &&
    decide (el.lo - tol < e) && decide (e < el.hi + tol) &&
    decide (dist.lo - tol < d) && decide (d < dist.hi + tol)

def zipWith3 {α β γ δ} (f : α → β → γ → δ) : List α → List β → List γ → List δ
  | a :: as, b :: bs, c :: cs => f a b c :: zipWith3 f as bs cs
  | _, _, _ => []

/-- `channels_within_bounds(DirectSpeakerPolarPosition, tol)`. -/
def polarWithin (G : LayoutGeom) (az el dist : Bound) (tol : Rat) : List Bool :=
  zipWith3 (polarWithin1 az el dist tol) G.az G.el G.dist

/-- `np.all(allo + tol >= bounds_min) & np.all(allo - tol <= bounds_max)` for one channel. -/
def cartWithin1 (x y z : Bound) (tol : Rat) (p : Vec3) : Bool :=
  (decide (x.lo ≤ p.1 + tol) && decide (y.lo ≤ p.2.1 + tol) && decide (z.lo ≤ p.2.2 + tol)) &&
    (decide (p.1 - tol ≤ x.hi) && decide (p.2.1 - tol ≤ y.hi) && decide (p.2.2 - tol ≤ z.hi))

/-- `channels_within_bounds(DirectSpeakerCartesianPosition, tol)`. -/
def cartWithin (G : LayoutGeom) (x y z : Bound) (tol : Rat) : List Bool :=
  G.allo.map (cartWithin1 x y z tol)

/-! ### screen edge lock (polar) -/

/-- `ScreenEdgeLockHandler.lock_to_screen_edge`. -/
def lockToScreenEdge (e : ScreenEdges) (az el : Rat) (sel : ScreenEdgeLock) : Rat × Rat :=
  let az := if sel.horizontal = some "left" then e.left else az
  let az := if sel.horizontal = some "right" then e.right else az
  let el := if sel.vertical = some "top" then e.top else el
  let el := if sel.vertical = some "bottom" then e.bottom else el
  (az, el)

/-- `ScreenEdgeLockHandler.handle_az_el` (with `should_modify_position`). -/
def handleAzEl (edges : Option ScreenEdges) (az el : Rat) (sel : ScreenEdgeLock) : Rat × Rat :=
  match edges with
  | some e => if sel.horizontal.isSome || sel.vertical.isSome then lockToScreenEdge e az el sel else (az, el)
  | none => (az, el)

/-- `apply_screen_edge_lock(DirectSpeakerPolarPosition)`: new values of the azimuth / elevation bounds. -/
def applySelPolar (G : LayoutGeom) (az el : Bound) (sel : ScreenEdgeLock) : Bound × Bound :=
  let r := handleAzEl G.edges az.value el.value sel
  ({ az with value := r.1 }, { el with value := r.2 })

/-- `channels_within_bounds(apply_screen_edge_lock(position), tol)`. -/
def withinBounds (G : LayoutGeom) (p : Position) (tol : Rat) : List Bool :=
  match p with
  | .polar az el dist sel =>
    let s := applySelPolar G az el sel
    polarWithin G s.1 s.2 dist tol
  | .cart x y z => cartWithin G x y z tol

/-! ### closest_channel_index -/

def sqDist (p q : Vec3) : Rat :=
  (p.1 - q.1) * (p.1 - q.1) + (p.2.1 - q.2.1) * (p.2.1 - q.2.1) + (p.2.2 - q.2.2) * (p.2.2 - q.2.2)

/-- `np.flatnonzero(candidates)`. -/
def flatnonzero (c : List Bool) : List Nat := (List.range c.length).filter (fun i => c.getD i false)

/-- `np.argmin`: index of the first minimum. -/
def argminFirst : List Rat → Option Nat
  | [] => none
  | x :: xs =>
    match argminFirst xs with
    | none => some 0
    | some j => if xs.getD j 0 < x then some (j + 1) else some 0

/-- `np.abs(min_dist - dist) < tol` for `dist ≥ min_dist ≥ 0`, on the squared distances `s = dist²`,
    `sm = min_dist²`, without square roots:  `dist < min_dist + tol  ⇔  s - sm - tol² < 2·tol·min_dist`. -/
def closeTo (sm tol s : Rat) : Bool :=
  decide (0 < tol) &&
    (let x := s - sm - tol * tol
     decide (x < 0) || decide (x * x < 4 * tol * tol * sm))

/-- `closest_channel_index(positions, position, candidates, tol)` with `cart = position.as_cartesian_array()`. -/
def closestIndex (positions : List Vec3) (cart : Vec3) (cands : List Bool) (tol : Rat) : Option Nat :=
  let idxs := flatnonzero cands
  let ds := idxs.map (fun i => sqDist (positions.getD i (0, 0, 0)) cart)
  match argminFirst ds with
  | none => none
  | some mi =>
    let sm := ds.getD mi 0
    if ds.countP (closeTo sm tol) = 1 then idxs[mi]? else none

/-! ### assembled -/

/-- Geometric inputs of one block. -/
structure GeoIn where
  pos : Position
  /-- `tol = 1e-5` -/
  tol : Rat
  /-- `shifted_position.as_cartesian_array()` (captured: trigonometry for polar positions) -/
  cartPos : Vec3
  /-- point-source panner result (captured) -/
  psp : List Rat
deriving Repr

/-- `positions = self.positions` (polar) / `self.allo_positions` (Cartesian). -/
def positionsFor (G : LayoutGeom) : Position → List Vec3
  | .polar .. => G.pos
  | .cart .. => G.allo

/-- The geometric sub-results as `_handle_without_gain` computes them. -/
def geoOf (L : Layout) (G : LayoutGeom) (lfe : Bool) (gi : GeoIn) : Geo :=
  let wb := withinBounds G gi.pos gi.tol
  { withinBounds := wb,
    closest := closestIndex (positionsFor G gi.pos) gi.cartPos (candidates L lfe wb) gi.tol,
    psp := gi.psp }

/-- `DirectSpeakersPanner.handle` with the geometry inside the model. -/
def handleFull (R : List MappingRule) (ituPacks : List (String × String)) (L : Layout) (G : LayoutGeom)
    (b : Block) (gi : GeoIn) : Except DsError (Exit × List Rat) :=
  handle R ituPacks L b (geoOf L G (isLfeChannel b) gi)

end Earverif.DS
