/-
C14 — item selection fails only with ADM errors, and rejects what it cannot resolve.

Theorems about the model `Earverif.Validate.selectItems` (a transliteration of
`select_rendering_items` with C07's model of the pack allocator, see Model/Validate.lean);
the model is tied to /repo by harness/c14.py on every run.

Inside the model since round 7: the FAILURE PATHS' OWN OPERATIONS.  An ADM error carries the structured diagnostic
`Msg` (every `.id`, `.type.name`, `len()` the message reads, in order); what can raise while the message is built is
a separate step of the raising function: `input_channel.id` / `acf.id` / `apf.id` of a possibly-`None` reference, the
`.index(...)` of `loop_exception`, the two `max(...)` of `diamond_exception`, `path[0]` / `path[-1]` of
`get_path_param`, `state.audioObject.id` of `raise_error`.  `select_no_internal_partial` therefore also says that
building a diagnostic never ends in a non-ADM exception.  Also inside now: block `rtime/duration` (element
validator, `_validate_matrix_channel`, HOA `get_single_param`), HOA `nfcRefDist` with its `0.0 → None` rule, pack
`absoluteDistance` in `_get_extra_data`, the per-channel `[block_format] = ...` getters and `_get_importance`'s
`min(...)`.

`select_no_internal_partial` stays PARTIAL because these are outside the model: attrs type validators (and with
them cross-class references and element ids that are `None`: `min(audioProgrammes, key=id)` compares ids),
`RecursionError` (graph walks use fuel = number of elements; the loop validations run first) and `str()` of the
raised exception.  Structural hypotheses (always true of parsed documents, like dangling references being
impossible): `wellScoped` and `avsOwned` (an alternativeValueSet element is the child of one audioObject).
Two further limits of what `_partial` covers, by construction of the model rather than by proof: (1) the pack
allocator inside `selectItems` is C07's `PackAlloc.selectPackMapping`, a PURE three-valued `Outcome`
(accepted / conflicting / ambiguous) — it has no error value, so "the allocator raises nothing internal" is not a
theorem here but a modelling decision (the real `_allocate_packs_impl*` index `tracks[0]` / `possible[0]` only under
syntactic guards `if tracks` / `len(possible) == 1`; tied by C07's and this check's correspondence); (2) the graph
walks (`pathsFrom`, the multitree DFS, matrix input channels) use fuel = number of elements (+1/+2) and on fuel
exhaustion return what they have as `.ok` — that the fuel suffices on documents that passed the loop validations is
not proved here (C06 `acyclic_of_validate` derives acyclicity of the object graph from the loop validator; the
equality with Python's unbounded recursion stays a correspondence matter).

`resolved_iff_unique_valid` states the second sentence of the property with C07's `accept_iff_unique`, now without
the "no allocation pack without channels" hypothesis: `_allocate_packs_impl` never allocates such a pack
(`PackAlloc.allocatePacks_dropEmpty`), so the allocator decides the problem with those packs removed
(`effProblem`), whose well-formedness follows from validation alone.  `empty_pack_outcome` is the exact outcome
for an audioObject that references such a pack: the Conflicting ADM error.
-/
import Earverif.Proofs.C14Alloc
import Earverif.Gen.C14_Sites
namespace Earverif.Validate
open Earverif.AdmV

/-- the graph-theoretic fact `_get_pack_format_path`'s `[found_path] = ...` relies on -/
def MultitreeSound (d : Doc) : Prop := validateMultitree d = .ok () → uniquePaths d = true

/-- proved (round 2): a successful `_validate_pack_channel_multitree` DFS visited pairwise different nodes, so
every channel below a pack is yielded once by `pack_format_channels` and lies on exactly one pack path -/
theorem multitreeSound_holds (d : Doc) : MultitreeSound d := multitree_sound d

/-- After `validate_structure` succeeded every later unpacking / dereference / assert / `type_of` / `min()` is safe,
and so is every read made while a diagnostic message is built: item selection never ends in a non-ADM exception —
on every well-scoped document graph, Matrix packs included, for every programme / complementary-object selection
and every outcome of the allocator. -/
theorem select_no_internal_partial (d : Doc) (prog : Option Nat) (sel : List Nat)
    (hw : d.wellScoped = true) (hown : d.avsOwned = true)
    (hprog : ∀ p, prog = some p → p < d.programmes.length) :
    ∀ k, selectItems d prog sel ≠ .error (.internal k) := by
  intro k hk
  unfold selectItems at hk
  split at hk
  · rename_i e he; injection hk with hk; subst hk
    exact validateStructure_noInt d k he
  · rename_i hv
    have hs := validateStructure_ok hv
    split at hk
    · rename_i e he; injection hk with hk; subst hk
      exact patterns_noInt hs k he
    · rename_i pats hpats
      split at hk
      · rename_i e he; injection hk with hk; subst hk
        exact selectComplementary_noInt d sel k he
      · split at hk
        · rename_i e he; injection hk with hk; subst hk
          exact selectStates_noInt hprog k he
        · rename_i states hstates
          exact sumE_noInt (fun _ st hst => processState_noInt hw hs (patterns_ok hs hpats)
            (multitree_sound d hs.multitree) st
            (avsSelected_noInt hs hown (selectStates_ok hstates st (List.mem_filter.mp hst).1))
            (selectStates_objpath_ne hstates st (List.mem_filter.mp hst).1)) 0 k hk

/-- the caller-side reading: the outcome is items or an ADM error of some kind -/
theorem select_outcome_partial (d : Doc) (prog : Option Nat) (sel : List Nat)
    (hw : d.wellScoped = true) (hown : d.avsOwned = true)
    (hprog : ∀ p, prog = some p → p < d.programmes.length) :
    (∃ n, outcome (selectItems d prog sel) = .items n) ∨ (∃ a, outcome (selectItems d prog sel) = .adm a) := by
  cases h : selectItems d prog sel with
  | ok n => exact Or.inl ⟨n, rfl⟩
  | error e =>
    cases e with
    | adm a m => exact Or.inr ⟨a, rfl⟩
    | internal k => exact absurd h (select_no_internal_partial d prog sel hw hown hprog k)

/-- The allocator's packs can always be built after validation: `matrix.type_of`, `[encode_pack] = ...` and
`encode_pack.inputPackFormat` in `wrap_matrix_pack` are total, whatever the declaration order of the packs. -/
theorem allocator_init_no_internal (d : Doc) (hv : validateStructure d = .ok ()) :
    ∀ k, patterns d ≠ .error (.internal k) := patterns_noInt (validateStructure_ok hv)

/-- `validate_structure` alone raises only ADM errors, on every document graph (no hypothesis at all), Matrix
branch and `_validate_avs_references` included: every `matrix.type_of`, `[encode_apf] = ...`,
`[block_format] = ...` and `assert obj is not None` in it is preceded by its guard, in any declaration order of
the packs, and every diagnostic it formats is built without raising (`_partial` only for what is outside the
model: attrs validators). -/
theorem validate_no_internal_partial (d : Doc) :
    ∀ k, validateStructure d ≠ .error (.internal k) := validateStructure_noInt d

/-- the two diagnostics of `_validate_pack_channel_multitree` (`loop_exception`: `.index(...)`; `diamond_exception`:
two `max(...)` over generators, two `type_names[...]` lookups) are total on every document graph: both paths start
at the root of the current top-level DFS -/
theorem multitree_diagnostics_total (d : Doc) : ∀ k, validateMultitree d ≠ .error (.internal k) :=
  validateMultitree_noInt d

/-- `get_path_param`'s message reads `path[0].id` and `path[-1].id`: total whenever the conflict branch is reached -/
theorem path_param_message_total (n : PName) (ids : List Acc) (vals : List (Option Nat)) (h : ids.length = vals.length) :
    ∀ k, pathParam n ids vals ≠ .error (.internal k) := pathParam_noInt n h

/-- `_get_alternativeValueSet`'s `assert ... "more than one active alternativeValueSet"` cannot fail for a state
yielded by `_select_programme_content_objects` once `_validate_avs_references` accepted the document. -/
theorem avs_assert_total (d : Doc) (prog : Option Nat) (states : List State)
    (hv : validateStructure d = .ok ()) (hown : d.avsOwned = true) (hst : selectStates d prog = .ok states) :
    ∀ st ∈ states, ∀ k, avsSelected d st ≠ .error (.internal k) :=
  fun st h => avsSelected_noInt (validateStructure_ok hv) hown (selectStates_ok hst st h)

/-- the allocation problem the allocator effectively decides for a state: the problem built from the document
without the allocation packs that have no channels (the real allocator never allocates those:
`PackAlloc.allocatePacks_dropEmpty`) -/
def effProblem (d : Doc) (pats : List Pattern) (st : State) (cfs : List (Option Nat)) : PackAlloc.Problem :=
  PackAlloc.dropEmpty (stateProblem d pats st cfs)

/-- valid assignments of `effProblem` = assignments meeting the `allocate_packs` docstring that use no allocation
pack without channels -/
theorem effProblem_valid_iff (d : Doc) (pats : List Pattern) (st : State) (cfs : List (Option Nat)) (sol : PackAlloc.Sol) :
    PackAlloc.Valid (effProblem d pats st cfs) sol ↔
      PackAlloc.Valid (stateProblem d pats st cfs) sol ∧ ∀ a ∈ sol, a.pack.channels ≠ [] :=
  valid_dropEmpty_iff _ _

/-- "Inconsistent or ambiguous format references are always rejected rather than resolved arbitrarily", as a
theorem about the document: for a state of a validated document whose selected tracks passed
`validate_selected_audioTrackUID`, with `effProblem` the `allocate_packs` problem built from the document (minus
channel-less allocation packs) and `Valid` C07's reading of the `allocate_packs` docstring,
* no valid assignment            ⇒ the "Conflicting format references" ADM error;
* two inequivalent valid ones    ⇒ the "Ambiguous format references" ADM error;
* exactly one (up to `≈`)        ⇔ the allocator accepts one and the outcome is its rendering;
* items are returned             ⇒ exactly one valid assignment exists.
No hypothesis on the allocation packs is left (round 7). -/
theorem resolved_iff_unique_valid (d : Doc) (pats : List Pattern) (st : State) (cfs : List (Option Nat))
    (hw : d.wellScoped = true) (hv : validateStructure d = .ok ()) (hp : patterns d = .ok pats)
    (htv : forE (selectedOf d st).2.1 (validateSelectedTrack d) = .ok ())
    (hcf : mapE (selectedOf d st).2.1 (channelForTrack d) = .ok cfs) :
    ((¬ ∃ sol, PackAlloc.Valid (effProblem d pats st cfs) sol) →
        ∃ m, processState d pats st = .error (.adm .conflicting m)) ∧
    ((∃ s1 s2, PackAlloc.Valid (effProblem d pats st cfs) s1 ∧ PackAlloc.Valid (effProblem d pats st cfs) s2 ∧
        ¬ PackAlloc.SolEquiv s1 s2) → ∃ m, processState d pats st = .error (.adm .ambiguous m)) ∧
    ((∃ s, PackAlloc.Valid (effProblem d pats st cfs) s ∧
        ∀ sol, PackAlloc.Valid (effProblem d pats st cfs) sol → PackAlloc.SolEquiv s sol) ↔
      ∃ s, PackAlloc.selectPackMapping (stateProblem d pats st cfs) = .accepted s ∧
        processState d pats st = renderSolution d pats st s) ∧
    (∀ n, processState d pats st = .ok n →
      ∃ s, PackAlloc.Valid (effProblem d pats st cfs) s ∧
        ∀ sol, PackAlloc.Valid (effProblem d pats st cfs) sol → PackAlloc.SolEquiv s sol) := by
  have hs := validateStructure_ok hv
  have hwf : PackAlloc.WF (effProblem d pats st cfs) := allocProblem_wf_dropEmpty hs (patterns_ok hs hp) _ _ _ _
  obtain ⟨hacc, hconf, hamb⟩ := PackAlloc.accept_iff_unique _ hwf
  have hsame : PackAlloc.selectPackMapping (effProblem d pats st cfs) =
      PackAlloc.selectPackMapping (stateProblem d pats st cfs) := PackAlloc.selectPackMapping_dropEmpty _
  rw [hsame] at hacc hconf hamb
  have hdec := processState_decided (pats := pats) hw hs htv hcf
  refine ⟨?_, ?_, ?_, ?_⟩
  · intro h
    rw [hconf.mpr h] at hdec; exact hdec
  · intro h
    rw [hamb.mpr h] at hdec; exact hdec
  · rw [← hacc]
    constructor
    · rintro ⟨s, hsel⟩
      rw [hsel] at hdec
      exact ⟨s, hsel, hdec⟩
    · rintro ⟨s, hsel, _⟩
      exact ⟨s, hsel⟩
  · intro n hn
    rw [← hacc]
    cases hsel : PackAlloc.selectPackMapping (stateProblem d pats st cfs) with
    | conflicting => rw [hsel] at hdec; obtain ⟨m, hm⟩ := hdec; rw [hm] at hn; cases hn
    | ambiguous => rw [hsel] at hdec; obtain ⟨m, hm⟩ := hdec; rw [hm] at hn; cases hn
    | accepted s => exact ⟨s, rfl⟩

/-- No allocation satisfies the `allocate_packs` requirements ⇒ the "Conflicting" ADM error, never items. -/
theorem conflicting_is_error (d : Doc) (pats : List Pattern) (st : State) (cfs : List (Option Nat))
    (hw : d.wellScoped = true) (hv : validateStructure d = .ok ()) (hp : patterns d = .ok pats)
    (htv : forE (selectedOf d st).2.1 (validateSelectedTrack d) = .ok ())
    (hcf : mapE (selectedOf d st).2.1 (channelForTrack d) = .ok cfs)
    (h : ¬ ∃ sol, PackAlloc.Valid (effProblem d pats st cfs) sol) :
    ∃ m, processState d pats st = .error (.adm .conflicting m) :=
  (resolved_iff_unique_valid d pats st cfs hw hv hp htv hcf).1 h

/-- Two inequivalent allocations satisfy the requirements ⇒ the "Ambiguous" ADM error, never items. -/
theorem ambiguous_is_error (d : Doc) (pats : List Pattern) (st : State) (cfs : List (Option Nat))
    (hw : d.wellScoped = true) (hv : validateStructure d = .ok ()) (hp : patterns d = .ok pats)
    (htv : forE (selectedOf d st).2.1 (validateSelectedTrack d) = .ok ())
    (hcf : mapE (selectedOf d st).2.1 (channelForTrack d) = .ok cfs)
    (h : ∃ s1 s2, PackAlloc.Valid (effProblem d pats st cfs) s1 ∧ PackAlloc.Valid (effProblem d pats st cfs) s2 ∧
      ¬ PackAlloc.SolEquiv s1 s2) :
    ∃ m, processState d pats st = .error (.adm .ambiguous m) :=
  (resolved_iff_unique_valid d pats st cfs hw hv hp htv hcf).2.1 h

/-- What the code does with an audioPackFormat that has no channels, place by place:
* validation: a HOA one is an ADM error (`hoa_empty_pack_is_adm`, `hoaParams_ok_nonempty`), any other passes;
* allocation-pack construction: `wrap_non_matrix_pack` builds an allocation pack with `channels = []`
  (`patterns`; a matrix pack gives up to three allocation packs, each possibly empty);
* allocator: never allocated (`PackAlloc.allocatePacks_dropEmpty`).
Exact outcome for a state whose audioObject references a pack `p` all of whose allocation packs are empty: the
"Conflicting format references" ADM error (whatever else the object references), never items. -/
theorem empty_pack_outcome (d : Doc) (pats : List Pattern) (st : State) (cfs : List (Option Nat))
    (hw : d.wellScoped = true) (hv : validateStructure d = .ok ()) (hp : patterns d = .ok pats)
    (htv : forE (selectedOf d st).2.1 (validateSelectedTrack d) = .ok ())
    (hcf : mapE (selectedOf d st).2.1 (channelForTrack d) = .ok cfs)
    {refs : List Nat} (hrefs : (selectedOf d st).1 = some refs) {p : Nat} (hpr : p ∈ refs)
    (hempty : ∀ pat ∈ pats, pat.root = p → pat.channels = []) :
    ∃ m, processState d pats st = .error (.adm .conflicting m) := by
  refine conflicting_is_error d pats st cfs hw hv hp htv hcf ?_
  rintro ⟨sol, hsol⟩
  obtain ⟨hval, hne⟩ := (effProblem_valid_iff d pats st cfs sol).mp hsol
  have hr := hval.refs
  have hpr' : (stateProblem d pats st cfs).packRefs = some refs := hrefs
  rw [hpr'] at hr
  have hmem : p ∈ sol.map (·.pack.root) := (List.Perm.mem_iff hr).mpr hpr
  obtain ⟨a, ha, hroot⟩ := List.mem_map.mp hmem
  obtain ⟨hpm, hrt, hch⟩ := allocProblem_pack_mem (hval.packs_mem a ha)
  have hc := hempty _ hpm (by rw [← hrt]; exact hroot)
  refine hne a ha ?_
  rw [hch]
  simp only [Pattern.allocChannels, hc, List.zipWith_nil_left]

/-- the common case of `empty_pack_outcome`: a non-Matrix pack that reaches no channel (directly or through
sub-packs) has exactly one allocation pack, and that one is empty -/
theorem empty_pack_outcome_regular (d : Doc) (pats : List Pattern) (st : State) (cfs : List (Option Nat))
    (hw : d.wellScoped = true) (hv : validateStructure d = .ok ()) (hp : patterns d = .ok pats)
    (htv : forE (selectedOf d st).2.1 (validateSelectedTrack d) = .ok ())
    (hcf : mapE (selectedOf d st).2.1 (channelForTrack d) = .ok cfs)
    {refs : List Nat} (hrefs : (selectedOf d st).1 = some refs) {p : Nat} (hpr : p ∈ refs)
    (hty : (d.pack p).type ≠ .matrix) (hnc : packChannels d p = []) :
    ∃ m, processState d pats st = .error (.adm .conflicting m) := by
  refine empty_pack_outcome d pats st cfs hw hv hp htv hcf hrefs hpr ?_
  intro pat hpat hroot
  cases patterns_ok (validateStructure_ok hv) hp pat hpat with
  | regular pi _ _ => simp only at hroot; subst hroot; exact hnc
  | matrixInput pi ip t hm _ _ _ => simp only at hroot; subst hroot; exact absurd hm hty
  | matrixPre pi t hm _ _ => simp only at hroot; subst hroot; exact absurd hm hty
  | matrixEncDec pi e ii hm _ _ _ => simp only at hroot; subst hroot; exact absurd hm hty

/-- `raise_error` on validated tracks raises exactly the ADM error asked for, carrying the context and the reasons
that `possible_reference_errors` returned (the diagnostics return normally) -/
theorem raiseError_adm (d : Doc) (ctx : Acc) (packs : Option (List Nat)) (tracks : List Nat) (n : Nat) (a : AdmKind)
    (h : ∀ t ∈ tracks, TrackOk d t) :
    ∃ reasons, possibleReferenceErrors d packs tracks n = .ok reasons ∧
      raiseError d ctx packs tracks n a = .error (.adm a (ctx :: reasons)) :=
  raiseError_eq a h

/-- `possible_reference_errors` yields no non-ADM exception for either referencing style, on tracks that
passed `validate_selected_audioTrackUID` in a validated document (`TrackOk`; for a v1-style track the
trackFormat → streamFormat → channelFormat chain is complete, for a v2-style track the direct
channelFormat reference is present): `audioPackFormat.encodePackFormats`, `acf.id` and `apf.id` in its reasons are
never read from `None`. This is the obligation the tree before commit 0d9f6b4 fails. -/
theorem diagnostics_total (d : Doc) (packs : Option (List Nat)) (tracks : List Nat) (n : Nat)
    (h : ∀ t ∈ tracks, TrackOk d t) :
    ∀ k, possibleReferenceErrors d packs tracks n ≠ .error (.internal k) :=
  possibleReferenceErrors_noInt h

/-! ### Non-vacuity and counter-examples (kernel evaluation) -/

deriving instance DecidableEq for Except

def objBlock : Block := {}
def hoaBlock (o g : Int) : Block := { order := some o, degree := some g }

/-- valid BS.2076-1 style document: programme → content → object → pack/track; track → trackFormat → stream → channel -/
def docV1 : Doc := {
  v2Allowed := false
  programmes := [{ contents := [0] }], contents := [{ objects := [0] }]
  objects := [{ packs := [0], tracks := [some 0] }]
  packs := [{ type := .objects, channels := [0] }]
  channels := [{ type := .objects, blocks := [objBlock] }]
  streams := [{ channel := some 0 }], trackFormats := [{ stream := some 0 }]
  trackUIDs := [{ trackIndex := some 1, pack := some 0, trackFormat := some 0 }] }

/-- valid BS.2076-2 style document: track → channel directly -/
def docV2 : Doc := {
  v2Allowed := true
  programmes := [{ contents := [0] }], contents := [{ objects := [0] }]
  objects := [{ packs := [0], tracks := [some 0] }]
  packs := [{ type := .objects, channels := [0] }]
  channels := [{ type := .objects, blocks := [objBlock] }]
  trackUIDs := [{ trackIndex := some 1, pack := some 0, channel := some 0 }] }


example : docV1.wellScoped = true ∧ uniquePaths docV1 = true := by decide
example : selectItems docV1 none [] = .ok 1 := by decide
example : selectItems docV2 none [] = .ok 1 := by decide
example : selectItems docV1 (some 0) [] = .ok 1 := by decide
-- conflicting / ambiguous references, both styles: the ADM error, via total diagnostics
/-- the object references no pack: no allocation exists -/
example : outcome (selectItems { docV1 with objects := [{ packs := [], tracks := [some 0] }] } none [])
      = .adm .conflicting := by decide
example : outcome (selectItems { docV2 with objects := [{ packs := [], tracks := [some 0] }] } none [])
      = .adm .conflicting := by decide

/-- CHNA-only documents (no programme, no object) with a nested pack `outer ⊃ inner ∋ channel 0` and a track
referencing `inner`: the track fits `inner` on its own and `outer` — two allocations -/
def docAmbV2 : Doc := {
  v2Allowed := true
  packs := [{ type := .directSpeakers, channels := [0] }, { type := .directSpeakers, packs := [0] }]
  channels := [{ type := .directSpeakers, blocks := [{}] }]
  trackUIDs := [{ trackIndex := some 1, pack := some 0, channel := some 0 }] }
def docAmbV1 : Doc := { docAmbV2 with
  streams := [{ channel := some 0 }], trackFormats := [{ stream := some 0 }]
  trackUIDs := [{ trackIndex := some 1, pack := some 0, trackFormat := some 0 }] }
example : outcome (selectItems docAmbV1 none [])
      = .adm .ambiguous := by decide
example : outcome (selectItems docAmbV2 none [])
      = .adm .ambiguous := by decide
-- one faulty document per modelled fault class
example : outcome (selectItems { docV1 with trackFormats := [{ stream := none }] } none [])
      = .adm .tfnostream := by decide
example : outcome (selectItems { docV1 with streams := [{}] } none [])
      = .adm .streamnone := by decide
example : outcome (selectItems { docV1 with streams := [{ channel := some 0, pack := some 0 }] } none [])
      = .adm .streamboth := by decide
example : outcome (selectItems { docV1 with streams := [{ pack := some 0 }] } none [])
      = .adm .streamnochannel := by decide
example : outcome (selectItems { docV1 with objects := [{ packs := [0], tracks := [some 0], objects := [0] }] } none [])
      = .adm .objloop := by decide
example : outcome (selectItems { docV1 with objects := [{ objects := [1], pgain := true }, { packs := [0], tracks := [some 0] }] } none [])
      = .adm .leafgain := by decide
example : outcome (selectItems { docV1 with channels := [{ type := .directSpeakers, blocks := [objBlock] }] } none [])
      = .adm .packchtype := by decide
example : outcome (selectItems { docV1 with packs := [{ type := .objects, channels := [0], packs := [1] }, { type := .directSpeakers }] } none [])
      = .adm .subpacktype := by decide
example : outcome (selectItems { docV1 with packs := [{ type := .objects, channels := [0], packs := [0] }] } none [])
      = .adm .packloop := by decide
example : outcome (selectItems { docV1 with packs := [{ type := .objects, channels := [0, 0] }] } none [])
      = .adm .diamond := by decide
example : outcome (selectItems { docV1 with channels := [{ type := .objects, freq := true, blocks := [objBlock] }] } none [])
      = .adm .objfreq := by decide
example : outcome (selectItems { docV1 with channels := [{ type := .objects, blocks := [{ cartMismatch := true }] }] } none [])
      = .adm .cartesian := by decide
example : outcome (selectItems { docV1 with packs := [{ type := .objects, channels := [0], input := some 0 }] } none [])
      = .adm .nmxinput := by decide
example : outcome (selectItems { docV1 with trackUIDs := [{ trackIndex := some 1, pack := some 0, trackFormat := some 0, channel := some 0 }] } none [])
      = .adm .v2ref := by decide
example : outcome (selectItems { docV2 with trackUIDs := [{ trackIndex := some 1, pack := some 0 }] } none [])
      = .adm .tracknone := by decide
example : outcome (selectItems { docV2 with trackUIDs := [{ trackIndex := some 1, pack := some 0, channel := some 0, trackFormat := some 0 }], trackFormats := [{ stream := some 0 }], streams := [{ channel := some 0 }] } none [])
      = .adm .trackboth := by decide
example : outcome (selectItems { docV2 with trackUIDs := [{ pack := some 0, channel := some 0 }] } none [])
      = .adm .noindex := by decide
example : outcome (selectItems { docV2 with trackUIDs := [{ trackIndex := some 1, channel := some 0 }] } none [])
      = .adm .nopack := by decide
example : outcome (selectItems docV2 none [0])
      = .adm .compnotgroup := by decide

/-- first-order-less HOA document: one HOA pack with one channel -/
def docHoa : Doc := {
  v2Allowed := true
  programmes := [{ contents := [0] }], contents := [{ objects := [0] }]
  objects := [{ packs := [0], tracks := [some 0] }]
  packs := [{ type := .hoa, channels := [0] }]
  channels := [{ type := .hoa, blocks := [hoaBlock 0 0] }]
  trackUIDs := [{ trackIndex := some 1, pack := some 0, channel := some 0 }] }

example : selectItems docHoa none [] = .ok 1 := by decide
example : outcome (selectItems { docHoa with channels := [{ type := .hoa, blocks := [] }] } none [])
      = .adm .hoablocks := by decide
example : outcome (selectItems { docHoa with channels := [{ type := .hoa, blocks := [{ degree := some 0 }] }] } none [])
      = .adm .hoaorder := by decide

/-- former finding F1 (fixed in 03146b0): a HOA pack that references no channel is rejected with an ADM error
(before the fix `get_single_param` indexed `pack_paths_channels[0]`: IndexError) -/
theorem hoa_empty_pack_is_adm :
    outcome (selectItems { docHoa with packs := [{ type := .hoa, channels := [] }] } none [])
      = .adm .hoaempty := by decide

/-- former finding F4 (fixed in 76cae51): a consistent Binaural document is rejected with an ADM error
(before the fix `_get_rendering_items` raised NotImplementedError) -/
theorem unsupported_type_is_adm :
    outcome (selectItems { docV2 with packs := [{ type := .binaural, channels := [0] }], channels := [{ type := .binaural, blocks := [objBlock] }] } none [])
      = .adm .unsupportedtype := by decide

/-! ### the allocation problem -/

/-- the one state of `docV1` (programme 0, content 0, object path [0]) -/
def stV1 : State := ⟨some 0, some 0, some [0]⟩

/-- non-vacuity of the hypotheses of `resolved_iff_unique_valid` / `conflicting_is_error` / `ambiguous_is_error`:
they hold for the state of the valid example document (whose rendering is one item), and for the ambiguous
CHNA-only document -/
example : docV1.wellScoped = true ∧ validateStructure docV1 = .ok () ∧
    (match patterns docV1 with | .ok pats => pats.length | .error _ => 0) = 1 ∧
    forE (selectedOf docV1 stV1).2.1 (validateSelectedTrack docV1) = .ok () ∧
    mapE (selectedOf docV1 stV1).2.1 (channelForTrack docV1) = .ok [some 0] := by decide
example : docAmbV2.wellScoped = true ∧ validateStructure docAmbV2 = .ok () ∧
    (match patterns docAmbV2 with | .ok pats => pats.length | .error _ => 0) = 2 ∧
    forE (selectedOf docAmbV2 ⟨none, none, none⟩).2.1 (validateSelectedTrack docAmbV2) = .ok () ∧
    mapE (selectedOf docAmbV2 ⟨none, none, none⟩).2.1 (channelForTrack docAmbV2) = .ok [some 0] := by decide

/-- an object that references a pack without channels and no tracks -/
def docEmptyPack : Doc := { docV2 with
  objects := [{ packs := [0], tracks := [] }]
  packs := [{ type := .objects, channels := [] }]
  channels := [], trackUIDs := [] }

/-- why the uniqueness theorem is stated about `effProblem` (channel-less allocation packs removed): the code rejects this object ("Conflicting": an empty pack is never
allocated) although, read literally, the `allocate_packs` requirements are met by allocating the empty pack once -/
theorem empty_pack_rejected_though_spec_valid :
    outcome (selectItems docEmptyPack none []) = .adm .conflicting ∧
    PackAlloc.Valid (allocProblem docEmptyPack [⟨0, false, [], []⟩] (some [0]) [] [] 0) [⟨⟨0, 0, []⟩, []⟩] := by
  decide

/-- non-vacuity of `empty_pack_outcome(_regular)`: `docEmptyPack` is validated, its one allocation pack (root 0) has
no channels, the object of its state references pack 0, and the (empty) track list passes validation -/
example : docEmptyPack.wellScoped = true ∧ validateStructure docEmptyPack = .ok () ∧
    (match patterns docEmptyPack with
     | .ok pats => pats.all (fun pat => pat.root != 0 || pat.channels.isEmpty) && pats.length == 1
     | .error _ => false) = true ∧
    (selectedOf docEmptyPack stV1).1 = some [0] ∧
    forE (selectedOf docEmptyPack stV1).2.1 (validateSelectedTrack docEmptyPack) = .ok () ∧
    mapE (selectedOf docEmptyPack stV1).2.1 (channelForTrack docEmptyPack) = .ok [] ∧
    (docEmptyPack.pack 0).type ≠ .matrix ∧ packChannels docEmptyPack 0 = [] := by decide

/-- a channel-less pack that nothing references does not disturb item selection (CHNA-only and object mode) -/
example : selectItems { docV2 with packs := [{ type := .objects, channels := [0] }, { type := .objects }] } none []
    = .ok 1 := by decide
example : selectItems { docAmbV2 with packs := [{ type := .directSpeakers, channels := [0] }, { type := .directSpeakers }] } none []
    = .ok 1 := by decide
/-- referenced next to a real pack: still Conflicting (`empty_pack_outcome`) -/
example : outcome (selectItems { docV2 with objects := [{ packs := [0, 1], tracks := [some 0] }], packs := [{ type := .objects, channels := [0] }, { type := .objects }] } none [])
    = .adm .conflicting := by decide

/-! ### structured diagnostics (`Msg`): what each message reads -/

/-- `_validate_pack_channel_types`: `apf.id`, `apf.type.name`, `acf.id`, `acf.type.name` -/
example : selectItems { docV1 with channels := [{ type := .directSpeakers, blocks := [objBlock] }] } none []
    = .error (.adm .packchtype [.id .apf 0, .tname .apf 0, .id .acf 0, .tname .acf 0]) := by decide
/-- `raise_error`: context `audioObject AO`, reasons "references to audioTrackUIDs but not to audioPackFormats" and
"audioPackFormat {apf.id} referenced from audioTrackUID {atu.id} is not referenced from audioObject" -/
example : selectItems { docV2 with objects := [{ packs := [], tracks := [some 0] }] } none []
    = .error (.adm .conflicting [.id .ao 0, .reason .tracksNoPacks, .reason .trackPackNotInObject, .id .apf 0, .id .atu 0]) := by
  decide
/-- CHNA-only: context "CHNA", no reason applies -/
example : selectItems docAmbV2 none [] = .error (.adm .ambiguous [.chna]) := by decide
/-- `diamond_exception` (short variant: node and common parent) and `loop_exception` (the loop path) -/
example : selectItems { docV1 with packs := [{ type := .objects, channels := [0, 0] }] } none []
    = .error (.adm .diamond [.id .acf 0, .id .apf 0]) := by decide
example : selectItems { docV1 with packs := [{ type := .objects, channels := [0], packs := [0] }] } none []
    = .error (.adm .packloop [.id .apf 0, .id .apf 0]) := by decide
/-- the long variant of `diamond_exception`: channel 0 below pack 0 directly and through sub-pack 1 -/
example : selectItems { docV1 with packs := [{ type := .objects, channels := [0], packs := [1] }, { type := .objects, channels := [0] }] } none []
    = .error (.adm .diamond [.id .acf 0, .id .apf 0, .id .apf 0, .id .apf 1, .id .acf 0, .id .apf 0, .id .acf 0]) := by decide

/-! ### parameter merging: rtime/duration, nfcRefDist, normalization, absoluteDistance -/

/-- two-channel HOA document -/
def docHoa2 : Doc := { docHoa with
  objects := [{ packs := [0], tracks := [some 0, some 1] }]
  packs := [{ type := .hoa, channels := [0, 1] }]
  channels := [{ type := .hoa, blocks := [hoaBlock 0 0] }, { type := .hoa, blocks := [hoaBlock 1 0] }]
  trackUIDs := [{ trackIndex := some 1, pack := some 0, channel := some 0 }, { trackIndex := some 2, pack := some 0, channel := some 1 }] }

example : selectItems docHoa2 none [] = .ok 1 := by decide
/-- rtime/duration set in one channel only: `get_single_param(..., "rtime", ...)` -/
example : selectItems { docHoa2 with channels := [{ type := .hoa, blocks := [{ hoaBlock 0 0 with rtime := some 0, duration := some 1 }] }, { type := .hoa, blocks := [hoaBlock 1 0] }] } none []
    = .error (.adm (.paramshare .rtime) [.pname .rtime, .id .acf 0, .id .acf 1]) := by decide
/-- rtime without duration: the element validator -/
example : outcome (selectItems { docHoa2 with channels := [{ type := .hoa, blocks := [{ hoaBlock 0 0 with rtime := some 0 }] }, { type := .hoa, blocks := [hoaBlock 1 0] }] } none [])
    = .adm .blocktime := by decide
/-- nfcRefDist 0.0 (token 0) is the same as unset; another value is not -/
example : selectItems { docHoa2 with channels := [{ type := .hoa, blocks := [{ hoaBlock 0 0 with nfc := some 0 }] }, { type := .hoa, blocks := [hoaBlock 1 0] }] } none []
    = .ok 1 := by decide
example : outcome (selectItems { docHoa2 with channels := [{ type := .hoa, blocks := [{ hoaBlock 0 0 with nfc := some 1 }] }, { type := .hoa, blocks := [hoaBlock 1 0] }] } none [])
    = .adm (.paramshare .nfcRefDist) := by decide
/-- normalization of the pack against that of a block: `get_path_param`'s message reads `path[0].id`, `path[-1].id` -/
example : selectItems { docHoa2 with packs := [{ type := .hoa, channels := [0, 1], norm := some 1 }], channels := [{ type := .hoa, blocks := [{ hoaBlock 0 0 with norm := some 2 }] }, { type := .hoa, blocks := [hoaBlock 1 0] }] } none []
    = .error (.adm (.parampath .normalization) [.pname .normalization, .id .apf 0, .block 0 0]) := by decide
/-- absoluteDistance along a pack path (`_get_extra_data`, after validation and allocation) -/
example : selectItems { docV2 with packs := [{ type := .objects, packs := [1], absDist := some 0 }, { type := .objects, channels := [0], absDist := some 1 }] } none []
    = .error (.adm (.parampath .absoluteDistance) [.pname .absoluteDistance, .id .apf 0, .id .apf 1]) := by decide
example : selectItems { docV2 with packs := [{ type := .objects, packs := [1], absDist := some 1 }, { type := .objects, channels := [0], absDist := some 1 }] } none []
    = .ok 1 := by decide

/-! ### Matrix documents -/

def dsBlock : Block := {}
def mxBlock (out : Option Nat) (ins : List Nat) : Block := { outCh := out, coeffs := ins.map (fun c => { input := some c }) }

/-- mono → stereo direct matrix: packs 0 mono (channel 0), 1 stereo (channels 1,2), 2 direct matrix (channels 3,4);
the object references the matrix pack, its track the mono channel -/
def docDirect : Doc := {
  v2Allowed := true
  programmes := [{ contents := [0] }], contents := [{ objects := [0] }]
  objects := [{ packs := [2], tracks := [some 0] }]
  packs := [{ type := .directSpeakers, channels := [0] }, { type := .directSpeakers, channels := [1, 2] },
            { type := .matrix, channels := [3, 4], input := some 0, output := some 1 }]
  channels := [{ type := .directSpeakers, blocks := [dsBlock] }, { type := .directSpeakers, blocks := [dsBlock] },
               { type := .directSpeakers, blocks := [dsBlock] },
               { type := .matrix, blocks := [mxBlock (some 1) [0]] }, { type := .matrix, blocks := [mxBlock (some 2) [0]] }]
  trackUIDs := [{ trackIndex := some 1, pack := some 2, channel := some 0 }] }

/-- `_PackAllocator.packs` of `docDirect`: mono, stereo, matrix/input-channels, matrix/pre-applied -/
example : (patterns docDirect).map (·.length) = .ok 4 := by decide
example : docDirect.wellScoped = true := by decide
/-- direct use: the allocator's third pack; two DirectSpeakers items -/
example : selectItems docDirect none [] = .ok 2 := by decide
example : outcome (selectItems { docDirect with objects := [{ packs := [], tracks := [some 0] }] } none [])
      = .adm .conflicting := by decide
-- matrix fault classes
example : outcome (selectItems { docDirect with packs := [{ type := .directSpeakers, channels := [0] }, { type := .directSpeakers, channels := [1, 2] },
    { type := .matrix, channels := [3, 4] }] } none [])
      = .adm .mxnoio := by decide
example : outcome (selectItems { docDirect with channels := [{ type := .directSpeakers, blocks := [dsBlock] }, { type := .directSpeakers, blocks := [dsBlock] },
    { type := .directSpeakers, blocks := [dsBlock] },
    { type := .matrix, blocks := [mxBlock (some 1) [1]] }, { type := .matrix, blocks := [mxBlock (some 2) [0]] }] } none [])
      = .adm .mxinputch := by decide
example : outcome (selectItems { docDirect with channels := [{ type := .directSpeakers, blocks := [dsBlock] }, { type := .directSpeakers, blocks := [dsBlock] },
    { type := .directSpeakers, blocks := [dsBlock] },
    { type := .matrix, blocks := [mxBlock none [0]] }, { type := .matrix, blocks := [mxBlock (some 2) [0]] }] } none [])
      = .adm .mxoutmissing := by decide
example : outcome (selectItems { docDirect with channels := [{ type := .directSpeakers, blocks := [dsBlock] }, { type := .directSpeakers, blocks := [dsBlock] },
    { type := .directSpeakers, blocks := [dsBlock] },
    { type := .matrix, blocks := [] }, { type := .matrix, blocks := [mxBlock (some 2) [0]] }] } none [])
      = .adm .mxchblocks := by decide

/-- a matrix block with rtime/duration: `_validate_matrix_channel` -/
example : selectItems { docDirect with channels := [{ type := .directSpeakers, blocks := [dsBlock] }, { type := .directSpeakers, blocks := [dsBlock] }, { type := .directSpeakers, blocks := [dsBlock] }, { type := .matrix, blocks := [{ mxBlock (some 1) [0] with rtime := some 0, duration := some 1 }] }, { type := .matrix, blocks := [mxBlock (some 2) [0]] }] } none []
    = .error (.adm .mxchtime [.block 3 0]) := by decide

/-- former finding F2 (fixed in 76cae51): a matrix coefficient without inputChannelFormat is an ADM error from
`ADM.validate()` (was ValueError) -/
theorem coefficient_without_input_is_adm :
    outcome (selectItems { docDirect with channels := [{ type := .directSpeakers, blocks := [dsBlock] }, { type := .directSpeakers, blocks := [dsBlock] },
      { type := .directSpeakers, blocks := [dsBlock] },
      { type := .matrix, blocks := [{ outCh := some 1, coeffs := [{ input := none }] }] },
      { type := .matrix, blocks := [mxBlock (some 2) [0]] }] } none [])
      = .adm .coeffnoinput := by decide

/-- former finding F3 (fixed in 592dfc9): a decode matrix pack (pack 0) declared BEFORE the Matrix pack it
references as encode pack (pack 1), which has neither input nor output reference: ADM error (was the
`assert False` of `matrix.type_of`) -/
theorem encode_without_refs_is_adm :
    outcome (selectItems { v2Allowed := true, packs := [{ type := .matrix, output := some 2, encodePacks := [1] }, { type := .matrix }, { type := .directSpeakers }] } none [])
      = .adm .mxencnoio := by decide

/-! ### alternativeValueSets -/

/-- object 0 owns AVS tokens 7 and 8; the programme references 7 -/
def docAvs : Doc := { docV2 with
  programmes := [{ contents := [0], avs := [7] }]
  objects := [{ packs := [0], tracks := [some 0], pgain := true, avs := [7, 8] }] }

example : docAvs.avsOwned = true ∧ docAvs.wellScoped = true := by decide
example : selectItems docAvs none [] = .ok 1 := by decide
example : outcome (selectItems { docAvs with programmes := [{ contents := [0], avs := [9] }] } none [])
      = .adm .avsnotin := by decide
example : outcome (selectItems { docAvs with programmes := [{ contents := [0], avs := [7, 7] }] } none [])
      = .adm .avsdup := by decide
example : outcome (selectItems { docAvs with contents := [{ objects := [0], avs := [7] }] } none [])
      = .adm .avsboth := by decide
example : outcome (selectItems { docAvs with contents := [{ objects := [0], avs := [8] }] } none [])
      = .adm .avsmulti := by decide

/-- why `avsOwned` is a hypothesis: an AVS shared by two objects (impossible in a parsed document) defeats the
conflict check of `_validate_avs_references` (it files the reference under the first owner only) and the assert
in `_get_alternativeValueSet` fails for the second owner -/
theorem shared_avs_defeats_validation :
    outcome (selectItems { docV2 with
      programmes := [{ contents := [0], avs := [7, 8] }]
      contents := [{ objects := [0, 1] }]
      objects := [{ packs := [0], tracks := [some 0], pgain := true, avs := [7] },
                  { packs := [0], tracks := [some 0], pgain := true, avs := [7, 8] }] } none [])
      = .internal .assert := by decide

/-! ### the raise-site table against the sources

`AdmKind.all` / `AdmKind.site` (Model/Validate.lean) are kept by hand.  `Gen/C14_Sites.lean` is regenerated on every
run from the `raise` statements that `ast` finds in the item-selection modules of /repo (harness/c14.py `extract`,
c14_docs.code_sites, minus the three statements of c14_docs.SITES_NOT_MODELLED, listed there with reasons), so the
kernel re-checks below that the model knows exactly the raise statements of the code: a new, removed, moved or
renumbered `raise` breaks `sites_match`.  (63 kinds, 62 sites: `.conflicting` and `.ambiguous` share the single
`raise` of `_PackAllocator.raise_error`.)  What this does NOT say: that each statement raises an ADM error class (the
class names are in `Gen.C14.classes`; the harness checks the `Adm` prefix) nor that the kind's `Msg` matches the
message (checked per case by the correspondence). -/

/-- the model's raise-site table: the site of every `AdmKind` -/
def modelSites : List (String × Nat) := AdmKind.all.map AdmKind.site

/-- the hand-kept table names 62 distinct raise statements -/
theorem sites_nodup_count : (AdmKind.all.map AdmKind.site).eraseDups.length = 62 := by decide

/-- the generated table has no repetition (and 62 entries in this tree) -/
theorem sites_gen_nodup : Gen.C14.sites.Nodup ∧ Gen.C14.sites.length = 62 := by decide +kernel

/-- the raise statements found in the sources are exactly the sites of the model's kinds (as sets; with
`sites_gen_nodup` and `sites_nodup_count`: the same sorted list) -/
theorem sites_match : ∀ s, s ∈ Gen.C14.sites ↔ s ∈ modelSites := by
  have h1 : Gen.C14.sites.all (fun s => modelSites.contains s) = true := by decide +kernel
  have h2 : modelSites.all (fun s => Gen.C14.sites.contains s) = true := by decide +kernel
  intro s
  constructor
  · intro h; have := List.all_eq_true.mp h1 s h; simpa using this
  · intro h; have := List.all_eq_true.mp h2 s h; simpa using this

end Earverif.Validate
