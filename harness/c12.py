"""C12 — loudspeaker gains vary continuously with source direction.

Lean side: Props/C12.lean (piecewise continuity of the region handlers and wrappers over the reals, uniqueness of
the gains on a shared edge, agreement of adjacent triplets on their shared edge); the model, driver and the
correspondence with the real code are those of C05 (harness/c05.py).  Search here: pairs of neighbouring
directions on great circles / meridians through every region edge, vertex and pole, bisected down to 1e-9 rad.
"""
import math
import random

import numpy as np

from . import c05
from .common import Spec

FINAL_ANGLE = 1e-9
JUMP_ABS = 1e-6
L_SAFETY = 4.0
L_MIN_ANGLE = 1e-4  # the Lipschitz estimate uses refinement levels at least this coarse


def tangent_basis(q):
    """Two unit vectors spanning the tangent plane at q."""
    h = np.array([0.0, 0.0, 1.0]) if abs(q[2]) < 0.9 else np.array([1.0, 0.0, 0.0])
    e1 = c05.unit(np.cross(h, q))
    e2 = np.cross(q, e1)
    return e1, e2


class Path:
    """Great circle p(t) = q cos t + d sin t (q, d orthonormal), t in radians."""

    def __init__(self, q, d):
        self.q = c05.unit(q)
        d = np.asarray(d, dtype=float)
        d = d - np.dot(d, self.q) * self.q
        self.d = c05.unit(d)

    def at(self, t):
        return c05.unit(self.q * math.cos(t) + self.d * math.sin(t))


def gains(pan, p):
    try:
        g = pan.handle(p)
    except Exception:  # an exception escaping is "no result" too
        return None
    if g is None:
        return None
    g = np.asarray(g, dtype=float)
    return g if np.all(np.isfinite(g)) else None


def refine(pan, path, t_lo, t_hi, g_lo, g_hi, stats):
    """Bisect [t_lo, t_hi] towards the largest change until the angle is <= FINAL_ANGLE.
    Returns (angle, delta, L, t_lo, t_hi, calls) or ('none', t) if the panner gave no result."""
    calls = 0
    L = 0.0
    while True:
        ang = t_hi - t_lo
        delta = float(np.max(np.abs(g_hi - g_lo)))
        if ang >= L_MIN_ANGLE:
            L = max(L, delta / ang)
        if ang <= FINAL_ANGLE:
            return ang, delta, L, t_lo, t_hi, calls
        t_mid = 0.5 * (t_lo + t_hi)
        g_mid = gains(pan, path.at(t_mid))
        calls += 1
        if g_mid is None:
            return ("none", t_mid, calls)
        d1 = float(np.max(np.abs(g_mid - g_lo)))
        d2 = float(np.max(np.abs(g_hi - g_mid)))
        if d1 >= d2:
            t_hi, g_hi = t_mid, g_mid
        else:
            t_lo, g_lo = t_mid, g_mid


def scan(pan, path, ts, top, hits, counts, cls, kind, L0=0.0):
    """Evaluate the path at the sorted parameters ts, refine the `top` adjacent pairs with the largest change."""
    calls = 0
    gs = []
    for t in ts:
        g = gains(pan, path.at(t))
        calls += 1
        if g is None:
            _hit(hits, pan, path, t, t, cls, kind, "no result (None / non-finite) on a path of directions", {})
            return calls
        gs.append(g)
    pairs = []
    L = L0
    for i in range(len(ts) - 1):
        ang = ts[i + 1] - ts[i]
        delta = float(np.max(np.abs(gs[i + 1] - gs[i])))
        if ang >= L_MIN_ANGLE:
            L = max(L, delta / ang)
        pairs.append((delta, i))
    pairs.sort(reverse=True)
    for delta, i in pairs[:top]:
        r = refine(pan, path, ts[i], ts[i + 1], gs[i], gs[i + 1], None)
        if r[0] == "none":
            calls += r[2]
            _hit(hits, pan, path, r[1], r[1], cls, kind, "no result (None / non-finite) on a path of directions", {})
            continue
        ang, dl, Lr, t_lo, t_hi, c = r
        calls += c
        Lest = max(L, Lr)
        key = "%s|%s|%s" % (pan.group, kind, cls)
        counts[key] = counts.get(key, 0) + 1
        counts["max-final-delta"] = max(counts.get("max-final-delta", 0.0), dl)
        counts["max-L"] = max(counts.get("max-L", 0.0), Lest)
        if dl > JUMP_ABS + L_SAFETY * Lest * ang:
            pa, pb = path.at(t_lo), path.at(t_hi)
            ga, gb = gains(pan, pa), gains(pan, pb)
            ra, rb = first_region(pan, pa), first_region(pan, pb)
            mech = "jump-inside-one-%s" % ra[1] if ra == rb and ra[0] is not None else "jump-between-regions"
            tags = [mech]
            two = two_roots_explanation(pan, [ra, rb], pa, pb, ga, gb, JUMP_ABS + L_SAFETY * Lest * ang)
            if two is not None:
                tags.append("quad-two-in-range-roots")
            mis = quad_misalignment(pan, [(ra, pa), (rb, pb)])
            if mis is not None:
                tags.append("quad-inconsistent-root-pair")
            _hit(hits, pan, path, t_lo, t_hi, cls, kind, "gain jump between neighbouring directions",
                 {"angle_rad": ang, "max_gain_change": dl, "lipschitz_estimate": Lest, "accepting_region_a": ra, "accepting_region_b": rb,
                  "gains_a": ga.tolist(), "gains_b": gb.tolist(), "two_in_range_roots": two, "quad_velocity_misaligned": mis}, tags)
    return calls


ROOT_WINDOW = 1e-6


def quad_axis_roots(sp, p):
    """ALL real roots within [-1e-6, 1+1e-6] of the pan_axis quadratic for ordered corners sp = (a, b, c, d) at
    direction p (the harness's own solve; the code under test only ever uses the first root np.roots returns)."""
    a, b, c, d = [np.asarray(v, dtype=float) for v in sp]
    A = float(np.dot(np.cross(b - a, c - d), p))
    B = float(np.dot(np.cross(a, c - d) + np.cross(b - a, d), p))
    C = float(np.dot(np.cross(a, d), p))
    scale = abs(A) + abs(B) + abs(C)
    if scale == 0.0:
        return []
    if abs(A) <= 1e-13 * scale:
        roots = [-C / B] if abs(B) > 1e-13 * scale else []
    else:
        disc = B * B - 4 * A * C
        if disc < -1e-12 * scale * scale:
            roots = []
        else:
            sq = math.sqrt(max(disc, 0.0))
            qq = -0.5 * (B + math.copysign(sq, B)) if B != 0 else 0.5 * sq
            roots = [qq / A] + ([C / qq] if qq != 0 else [-qq / A])
    return sorted(r for r in roots if -ROOT_WINDOW <= r <= 1 + ROOT_WINDOW)


def two_roots_explanation(pan, accepting, pa, pb, ga, gb, tol):
    """Independent classifier for the recorded BS.2127 quad behaviour: does the jump between pa and pb disappear under
    a different choice of in-range roots of a QuadRegion that accepts pa or pb?  Returns a description or None.
    (i) for one of the two directions some axis of the quad has two roots in [-1e-6, 1+1e-6];
    (ii) some combination of that direction's roots gives bilinear gains (normalised, downmixed and renormalised as the
         code does) equal to the OTHER direction's actual gains within tol."""
    if pan.stereo:
        return None
    D = np.asarray(pan.dm.downmix, dtype=float)
    seen = set()
    for (k, kind, _) in accepting:
        if kind != "QuadRegion" or k in seen:
            continue
        seen.add(k)
        Q = pan.regions[k]
        pos = np.asarray(Q.positions, dtype=float)
        order = [int(o) for o in Q.order]
        sp = pos[order]
        for p_this, g_other, which in ((pa, gb, "a"), (pb, ga, "b")):
            rx = quad_axis_roots(sp, p_this)
            ry = quad_axis_roots(sp[[1, 2, 3, 0]], p_this)
            if len(rx) < 2 and len(ry) < 2:
                continue
            for x in rx:
                for y in ry:
                    xc, yc = min(max(x, 0.0), 1.0), min(max(y, 0.0), 1.0)
                    pvs = np.zeros(4)
                    pvs[order] = [(1 - xc) * (1 - yc), xc * (1 - yc), xc * yc, (1 - xc) * yc]
                    inner = np.zeros(D.shape[1])
                    inner[np.asarray(Q.output_channels, dtype=int)] = pvs
                    out = D.dot(inner)
                    nrm = np.linalg.norm(out)
                    if nrm == 0:
                        continue
                    out = out / nrm
                    if np.max(np.abs(out - g_other)) <= tol:
                        return {"quad_region": k, "direction": which, "roots_x": rx, "roots_y": ry, "matching_choice": [x, y]}
    return None


def quad_misalignment(pan, accepted):
    """Diagnosis of a second quad mechanism (NOT a recorded finding): the accepting QuadRegion returns gains whose velocity
    vector gains.positions is not parallel to the direction (the x and y roots belong to different intersections of the ray
    with the bilinear surface; the acceptance test only looks at the sign of the projection)."""
    for (k, kind, _), p in accepted:
        if kind != "QuadRegion":
            continue
        Q = pan.regions[k]
        try:
            pv = Q.handle(np.array(p, dtype=float))
        except Exception:
            pv = None
        if pv is None:
            continue
        v = np.asarray(pv).dot(np.asarray(Q.positions, dtype=float))
        m = float(np.linalg.norm(np.cross(c05.unit(v), c05.unit(p))))
        if m > 1e-6:
            return {"quad_region": k, "sin_angle_between_velocity_and_direction": m}
    return None


def first_region(pan, p):
    """(index, kind, output channels) of the first region of the real inner panner that accepts p (diagnosis only)."""
    for k, r in enumerate(pan.regions):
        try:
            if r.handle(np.array(p, dtype=float)) is not None:
                return (k, c05.region_kind(r), [int(c) for c in r.output_channels])
        except Exception:
            pass
    return (None, "-", [])


def _hit(hits, pan, path, t_lo, t_hi, cls, kind, what, detail, tags=()):
    hits.append({
        "what": what,
        "input": dict(pan.spec(), direction_a=[repr(float(x)) for x in path.at(t_lo)],
                      direction_b=[repr(float(x)) for x in path.at(t_hi)], boundary_class=cls, region_kind=kind),
        "detail": detail,
        "tags": list(tags),
    })


def local_ts(h0=1e-2, n=8):
    return [(-h0 + 2 * h0 * i / n) for i in range(n + 1)]


def path_stream(pan, rng, n_local, n_circles):
    """Yield (class, kind, Path, ts, top).  n_local = -1: only short paths through every loudspeaker position."""
    z = np.array([0.0, 0.0, 1.0])
    if n_local < 0:
        for p in pan.positions:
            q = c05.unit(p)
            e1, e2 = tangent_basis(q)
            dirs = [z] if abs(q[2]) < 0.999 else []
            for _ in range(2):
                phi = rng.uniform(0, 2 * math.pi)
                dirs.append(math.cos(phi) * e1 + math.sin(phi) * e2)
            for i, d in enumerate(dirs):
                yield ("loudspeaker-meridian" if (i == 0 and len(dirs) == 3) else "loudspeaker", "-", Path(q, d), local_ts(1e-2 if i % 2 == 0 else 1e-4), 2)
        return
    # full great circles: horizontal plane, meridians, circles through loudspeakers, random
    N = 1024 if n_circles > 40 else 256  # n_circles > 40: dense scan (layouts with recorded findings)
    full = [2 * math.pi * i / N - math.pi for i in range(N + 1)]
    circles = [("circle-horizontal", c05.cart(0, 0), c05.cart(90, 0))]
    for az in (0.0, 30.0, 90.0, 110.0, 135.0, 45.0, rng.uniform(-180, 180)):
        circles.append(("circle-meridian", c05.cart(az, 0), z))
    for p in pan.positions:
        if abs(p[2]) < 0.999:
            circles.append(("circle-meridian-through-loudspeaker", p, z))
    while len(circles) < n_circles:
        q = c05.unit([rng.gauss(0, 1) for _ in range(3)])
        circles.append(("circle-random", q, [rng.gauss(0, 1) for _ in range(3)]))
    rest = circles[1:]
    rng.shuffle(rest)
    circles = circles[:1] + rest  # the horizontal plane is always scanned
    for cls, q, d in circles[:n_circles]:
        yield (cls, "-", Path(q, d), full, 6 if N > 256 else 3)
    # local crossings
    feats = []
    for (k, kind, a, b) in c05.edge_list(pan):
        n = c05.unit(np.cross(a, b))
        for t in (0.0, 1e-6, 1e-3, 0.1, 0.5, 0.9, 1 - 1e-3, 1 - 1e-6, 1.0):
            q = c05.unit((1 - t) * a + t * b)
            feats.append(("edge-across", kind, q, n))
            feats.append(("edge-oblique", kind, q, None))
            if abs(q[2]) < 0.999:
                feats.append(("edge-meridian", kind, q, z))
    for k, r in enumerate(pan.regions):
        for v in c05.region_vertices(r):
            for _ in range(3):
                feats.append(("vertex", c05.region_kind(r), c05.unit(v), None))
            if abs(c05.unit(v)[2]) < 0.999:
                feats.append(("vertex-meridian", c05.region_kind(r), c05.unit(v), z))
    for s in (1.0, -1.0):
        for _ in range(max(2, n_local // 15)):
            feats.append(("pole", "-", s * z, None))
    rng.shuffle(feats)
    # poles and vertices always, the rest subsampled
    feats.sort(key=lambda f: 0 if f[0] in ("pole",) else 1)
    for cls, kind, q, d in feats[:n_local]:
        if d is None:
            e1, e2 = tangent_basis(q)
            phi = rng.uniform(0, 2 * math.pi)
            d = math.cos(phi) * e1 + math.sin(phi) * e2
        h0 = rng.choice([1e-2, 1e-3, 1e-5])
        shift = rng.choice([0.0, 0.0, rng.uniform(-0.5, 0.5) * h0])
        yield (cls, kind, Path(q, d), [t + shift for t in local_ts(h0)], 2)


def _task(args):
    lid, name, real, seed, n_local, n_circles = args[:6]
    tag = args[6] if len(args) > 6 else None
    rng = random.Random(seed)
    hits, counts = [], {}
    try:
        pan = c05.Pan(lid, name, real, nominal=real is None)
    except Exception as e:
        hits.append({"what": "configure(layout) raised for an admissible layout", "input": {"layout": name, "id": lid, "real_positions": real},
                     "detail": {"exception": repr(e)}, "tags": []})
        return lid, 0, counts, hits, []
    calls = 0
    samples = []
    hits.extend(c05.structural_hits(pan, counts, tag))
    for cls, kind, path, ts, top in (path_stream(pan, rng, n_local, n_circles) if n_local else []):  # 0 = structure only
        calls += scan(pan, path, ts, top, hits, counts, cls, kind)
        if len(samples) < 2 and cls.startswith("edge"):
            samples.append({"layout": lid, "class": cls, "region": kind, "through": path.q.tolist(), "tangent": path.d.tolist()})
        if len(hits) > 20:
            break
    if tag:
        for h in hits:
            if tag not in h["tags"]:
                h["tags"].append(tag)
    return lid, calls, counts, hits[:6], samples


THEOREMS = (
    "edge_unique",
    "edge_exists",
    "triplet_on_edge",
    "edge_agreement",
    "triplet_continuousOn",
    "triplet_handle_continuousOn",
    "stereo_continuousOn",
    "downmix_continuousOn",
    "quad_on_edge",
    "quad_edge_agreement",
    "quad_edge_agreement'",
    "ngon_candidate_on_edge",
    "ngon_on_edge",
    "quad_two_valued_witness",
    "C12_partial",
)


class C12(Spec):
    pid = "C12"
    lean_targets = ("Earverif.Props.C12", "c05driver")
    props_module = "Earverif.Props.C12"
    theorems = tuple("Earverif.PointSource." + t for t in THEOREMS)
    trusted_base = c05.C05.trusted_base + (
        "continuity theorems are piecewise (per region handler / wrapper) over the reals; the composed panner is continuous "
        "only up to the 1e-11 acceptance slack and only if the regions cover the sphere: both are searched, not proved",
    )
    assumptions = (
        "layouts: the ten nominal layouts, a fixed catalogue of admissible symmetric real layouts, the fixed catalogue of "
        "boundary-valued real layouts and the fixed-seed catalogue of corner layouts (every loudspeaker at an inclusive end of its "
        "ranges; symmetric family = inside the quantifier, asymmetric family tagged asymmetric-catalogue:<id>) (harness/c05.py "
        "real_catalogue, boundary_catalogue, corner_catalogue; same admissibility rules as C05)",
        "structural check on every configured panner: the vertex order of every QuadRegion / VirtualNgon (real ngon_vertex_order) "
        "must be a simple polygon and equal the harness's own order by angle around the centre",
        "a jump is a change of some gain larger than %g + %g*L*angle between two directions %g rad apart, L = largest "
        "|dg|/angle seen on the same path at angles >= %g (a steep but continuous change does not alarm)" % (JUMP_ABS, L_SAFETY, FINAL_ANGLE, L_MIN_ANGLE),
    )
    rule = (
        "a case is one path (great circle through a region-edge point / vertex / pole / loudspeaker, or a full circle: "
        "horizontal plane, meridians, random) on one layout: the path is sampled, the adjacent pairs with the largest gain "
        "change are bisected down to 1e-9 rad; non-trivial = passes within 1e-2 rad of a region boundary, vertex or pole"
    )

    def correspond(self, ctx):
        # the model/code tie is C05's: re-run a reduced version of it here so that C12 never reports on a stale tie
        sub = c05.SPEC
        try:
            sub._search = lambda *a, **k: None
            c05.C05.correspond(sub, ctx)
        finally:
            del sub._search

    def extract(self, ctx):
        c05.SPEC.extract(ctx)

    def _run(self, ctx, n_local, n_circles):
        tasks = []
        for name in c05.LAYOUT_NAMES:
            tasks.append((name, name, None, "%s/%d/%s/%d" % (ctx.tier, ctx.seed, name, ctx.rng.randrange(1 << 30)), n_local, n_circles))
        for lid, name, real in c05.real_catalogue():
            tasks.append((lid, name, real, "%s/%d/%s/%d" % (ctx.tier, ctx.seed, lid, ctx.rng.randrange(1 << 30)), n_local // 2, max(4, n_circles // 2)))
        for lid, name, real in c05.boundary_for_run(ctx, 12 if ctx.quick else None):
            tasks.append((lid, name, real, "%s/%d/%s/%d" % (ctx.tier, ctx.seed, lid, ctx.rng.randrange(1 << 30)), max(40, n_local // 3), max(3, n_circles // 3)))
        # corner layouts (fixed seed): structural check on all, path search on a seeded sample (all when thorough)
        csym, casym = c05.corner_catalogue()
        full = None if not ctx.quick else {c[0] for c in ctx.rng.sample(csym, min(6, len(csym))) + ctx.rng.sample(casym, min(10, len(casym)))}
        always = c05.failing_catalogue_ids("C12") | {"9+10+3#cornerS11"}
        for fam, tag in ((csym, None), (casym, "asymmetric-catalogue:")):
            for lid, name, real in fam:
                if lid in always:
                    # layouts with recorded findings are searched in every run (all fixed meridians + the meridians through
                    # every loudspeaker), so that their KNOWN-FINDING lines keep being reproduced and anything new on them shows
                    tasks.append((lid, name, real, "%s/%d/%s" % (ctx.tier, ctx.seed, lid), max(40, n_local // (3 if ctx.quick else 8)),
                                  41 if tag is None else max(12, n_circles // 8), (tag + lid) if tag else None))
                    continue
                on = full is None or lid in full
                # not sampled: symmetric layouts still get the paths through every loudspeaker, asymmetric ones the structural check
                div = 3 if ctx.quick else 8
                tasks.append((lid, name, real, "%s/%d/%s" % (ctx.tier, ctx.seed, lid), max(40, n_local // div) if on else (-1 if tag is None else 0),
                              max(3, n_circles // div) if on else 0, (tag + lid) if tag else None))
        mx_d, mx_L = 0.0, 0.0
        for lid, calls, counts, hits, samples in c05.run_pool(tasks, _task):
            mx_d = max(mx_d, counts.pop("max-final-delta", 0.0))
            mx_L = max(mx_L, counts.pop("max-L", 0.0))
            for k, v in counts.items():
                ctx.count("paths|" + k, v)
            ctx.cov["evaluations"] += calls
            ctx.count("handle-calls|" + lid.split("#")[0], calls)
            for s in samples:
                ctx.case(("path", lid, tuple(s["through"]), tuple(s["tangent"])), True, sample=s)
            for h in hits:
                ctx.hit(h["what"], h["input"], h["detail"], h["tags"])
        ctx.notes.append("largest gain change at <= %g rad: %.3g; largest Lipschitz estimate: %.3g" % (FINAL_ANGLE, mx_d, mx_L))

    def search(self, ctx, deep):
        if ctx.quick and not deep:
            self._run(ctx, n_local=90, n_circles=7)
        elif ctx.quick:
            self._run(ctx, n_local=600, n_circles=30)
        else:
            self._run(ctx, n_local=4200, n_circles=120)


SPEC = C12()

REGISTRY = dict(
    text="PARTIAL: Lean theorems over the reals for every loudspeaker position (Earverif.PointSource.triplet_continuousOn, "
    "triplet_handle_continuousOn, downmix_continuousOn, stereo_continuousOn: each handler/wrapper is continuous on its "
    "acceptance set; edge_unique, edge_exists, triplet_on_edge, edge_agreement: on a shared edge the gains are uniquely "
    "determined and two adjacent triplets return exactly the same pair with the third gain 0; quad_on_edge, "
    "quad_edge_agreement, quad_edge_agreement': given the roots, the bilinear quad returns the same pair on each of its four "
    "edges when its velocity vector is parallel to the direction; ngon_candidate_on_edge, ngon_on_edge: a virtual n-gon "
    "returns the same pair on its outer edges when the earlier inner triplets reject; conjunction C12_partial). "
    "NOT proved (searched): continuity of the composed panner everywhere, which additionally needs the regions to cover the "
    "sphere and a treatment of the 1e-11 acceptance slack, the unconditional n-gon/quad versions of edge agreement (root selection of np.roots, order of the inner triplets) "
    "and continuity of the n-gon handler.",
    note="Model, driver and correspondence are C05's (re-run here). Search: great circles and meridians through every region "
    "edge, vertex, pole and loudspeaker + full circles, bisected to 1e-9 rad; jump threshold 1e-6 + 4*L*angle.",
    technique="Lean 4 continuity/uniqueness proofs over the reals on the scalar-polymorphic model + differential correspondence "
    "+ bisection search for gain jumps on the real panner",
    design_ref="DESIGN.md section 4, C12",
)
