"""Record the SHA-256 of every source file each property is anchored in (properties.jsonl anchors.files), as of the
tree the models were last validated against. The checks report in their evidence which of these files differ now
(informational: the correspondence, not the fingerprint, is what ties model to code)."""
import hashlib, json, os
V = os.path.join(os.path.dirname(__file__), "..")
out = {}
for l in open(os.path.join(V, "properties.jsonl")):
    p = json.loads(l)
    for f in p["anchors"]["files"]:
        path = os.path.join("/repo", f)
        if os.path.exists(path):
            out.setdefault(p["id"], {})[f] = hashlib.sha256(open(path, "rb").read()).hexdigest()
json.dump(out, open(os.path.join(V, "fingerprints.json"), "w"), indent=1, sort_keys=True)
print("fingerprints for", len(out), "properties")
