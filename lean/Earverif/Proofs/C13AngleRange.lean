/-
C13 — `geom.inside_angle_range` in exact arithmetic: what the four `while` loops compute.
-/
import Earverif.Proofs.C13ZoneSpec
import Mathlib.Tactic.Linarith
import Mathlib.Tactic.Ring
import Mathlib.Tactic.NormNum
import Mathlib.Tactic.Push
import Mathlib.Data.Rat.Cast.Order

namespace Earverif.C13
open Earverif.Zone Earverif.Zone.Scalar

theorem iterate_sub360 (k : Nat) (x : Rat) : Nat.iterate (fun e : Rat => Scalar.sub e (Scalar.ofNat 360)) k x = x - 360 * (k : Rat) := by
  induction k generalizing x with
  | zero => simp [Nat.iterate]
  | succ k ih =>
    show Nat.iterate (fun e : Rat => Scalar.sub e (Scalar.ofNat 360)) k (Scalar.sub x (Scalar.ofNat 360)) = _
    rw [ih]
    simp only [rat_sub, rat_ofNat]
    push_cast
    ring

theorem iterate_add360 (k : Nat) (x : Rat) : Nat.iterate (fun e : Rat => Scalar.add e (Scalar.ofNat 360)) k x = x + 360 * (k : Rat) := by
  induction k generalizing x with
  | zero => simp [Nat.iterate]
  | succ k ih =>
    show Nat.iterate (fun e : Rat => Scalar.add e (Scalar.ofNat 360)) k (Scalar.add x (Scalar.ofNat 360)) = _
    rw [ih]
    simp only [rat_add, rat_ofNat]
    push_cast
    ring

/-- **`inside_angle_range(x, start, end, tol)` in exact arithmetic.** Whenever the model answers
(no loop ran out of fuel): the end of the range is moved by whole turns to `e2 = end + 360·ke`
with `start ≤ e2 ≤ start + 360` (`ke = 0` when `end` already lies there: `end = start` is a single
direction, `end = start + 360` the whole circle), and the answer is `true` exactly when some
representative `x + 360·k` of the angle lies in `[start − tol, e2 + tol]` — wrap-around ranges
(`min > max`), ranges written past ±180 and angles given a whole turn off are all covered. -/
theorem insideAngleRange_spec (fuel : Nat) (x start end_ tol : Rat) (b : Bool)
    (h : insideAngleRange fuel x start end_ tol = some b) :
    ∃ ke : Int, start ≤ end_ + 360 * (ke : Rat) ∧ end_ + 360 * (ke : Rat) ≤ start + 360 ∧
      (start ≤ end_ → end_ ≤ start + 360 → ke = 0) ∧
      (b = true ↔ ∃ k : Int, start - tol ≤ x + 360 * (k : Rat) ∧ x + 360 * (k : Rat) ≤ end_ + 360 * (ke : Rat) + tol) := by
  unfold insideAngleRange at h
  simp only [Option.bind_eq_some_iff, Option.some.injEq] at h
  obtain ⟨e1, h1, e2, h2, x1, h3, x2, h4, hb⟩ := h
  obtain ⟨c1, k1, _, he1, hj1⟩ := whileLoop_spec _ _ fuel end_ e1 h1
  obtain ⟨c2, k2, _, he2, hj2⟩ := whileLoop_spec _ _ fuel e1 e2 h2
  obtain ⟨c3, k3, _, hx1, hj3⟩ := whileLoop_spec _ _ fuel x x1 h3
  obtain ⟨c4, k4, _, hx2, hj4⟩ := whileLoop_spec _ _ fuel x1 x2 h4
  rw [iterate_sub360] at he1 hx1
  rw [iterate_add360] at he2 hx2
  simp only [rat_lt, rat_le, rat_sub, rat_ofNat, decide_eq_false_iff_not, not_lt, not_le] at c1 c2 c3 c4
  have c360 : ((360 : Nat) : Rat) = 360 := by norm_num
  rw [c360] at c1 c3
  -- the conditions held before each executed iteration
  have hj1' : ∀ j : Nat, j < k1 → start < end_ - 360 * (j : Rat) - 360 := by
    intro j hj
    have := hj1 j hj
    rw [iterate_sub360] at this
    simpa [c360] using this
  have hj2' : ∀ j : Nat, j < k2 → e1 + 360 * (j : Rat) < start := by
    intro j hj
    have := hj2 j hj
    rw [iterate_add360] at this
    simpa using this
  have hj4' : ∀ j : Nat, j < k4 → x1 + 360 * (j : Rat) < start - tol := by
    intro j hj
    have := hj4 j hj
    rw [iterate_add360] at this
    simpa using this
  -- bounds on e2
  have he2hi : e2 ≤ start + 360 := by
    cases k2 with
    | zero => rw [he2]; simp; linarith
    | succ k =>
      have := hj2' k (by omega)
      rw [he2]; push_cast; linarith
  -- bounds on x2
  have hx2hi : x2 < start - tol + 360 := by
    cases k4 with
    | zero => rw [hx2]; simp; linarith
    | succ k =>
      have := hj4' k (by omega)
      rw [hx2]; push_cast; linarith
  have hE : e2 = end_ + 360 * (((k2 : Int) - (k1 : Int) : Int) : Rat) := by
    rw [he2, he1]; push_cast; ring
  have hX : x2 = x + 360 * (((k4 : Int) - (k3 : Int) : Int) : Rat) := by
    rw [hx2, hx1]; push_cast; ring
  refine ⟨(k2 : Int) - (k1 : Int), by rw [← hE]; exact c2, by rw [← hE]; exact he2hi, ?_, ?_⟩
  · intro hs he
    have hk1 : k1 = 0 := by
      cases k1 with
      | zero => rfl
      | succ k => have := hj1' 0 (by omega); simp at this; linarith
    subst hk1
    have he1' : e1 = end_ := by rw [he1]; simp
    have hk2 : k2 = 0 := by
      cases k2 with
      | zero => rfl
      | succ k => have := hj2' 0 (by omega); simp at this; linarith
    subst hk2
    simp
  · rw [← hE, ← hb]
    simp only [rat_le, rat_add, decide_eq_true_eq]
    constructor
    · intro hle
      exact ⟨(k4 : Int) - (k3 : Int), by rw [← hX]; exact c4, by rw [← hX]; exact hle⟩
    · rintro ⟨k, hk1, hk2⟩
      -- x2 is the smallest representative that is ≥ start − tol
      have hd : (360 : Rat) * ((k - ((k4 : Int) - (k3 : Int)) : Int) : Rat) > -360 := by
        have : x + 360 * (k : Rat) - x2 > -360 := by linarith
        rw [hX] at this
        push_cast at this ⊢
        linarith
      have hk : (-1 : Rat) < ((k - ((k4 : Int) - (k3 : Int)) : Int) : Rat) := by linarith
      have hk' : (-1 : Int) < k - ((k4 : Int) - (k3 : Int)) := by exact_mod_cast hk
      have hge : (0 : Rat) ≤ ((k - ((k4 : Int) - (k3 : Int)) : Int) : Rat) := by
        have : (0 : Int) ≤ k - ((k4 : Int) - (k3 : Int)) := by omega
        exact_mod_cast this
      have : x2 ≤ x + 360 * (k : Rat) := by
        rw [hX]
        push_cast at hge ⊢
        linarith
      linarith

/-- **Polar zone test, exact arithmetic** (tolerance `1e-6`, wrap-around, poles): the loudspeaker's
nominal elevation is inside `(minEl − 1e-6, maxEl + 1e-6)` and — unless it sits at a pole
(`|el| > 90 − 1e-6`, which matches any azimuth range) — some representative of its nominal azimuth
lies in `[minAz − 1e-6, maxAz' + 1e-6]`, `maxAz'` being `maxAz` moved by whole turns into
`[minAz, minAz + 360]`. -/
theorem zoneMatch_polar_spec (fuel : Nat) (minAz maxAz minEl maxEl : Rat) (s : Spk Rat) (b : Bool)
    (h : zoneMatch fuel (.polar minAz maxAz minEl maxEl) s = some b) :
    ∃ ke : Int, minAz ≤ maxAz + 360 * (ke : Rat) ∧ maxAz + 360 * (ke : Rat) ≤ minAz + 360 ∧
      (minAz ≤ maxAz → maxAz ≤ minAz + 360 → ke = 0) ∧
      (b = true ↔ (minEl - Scalar.eps6 < s.el ∧ s.el < maxEl + Scalar.eps6 ∧
        (90 - Scalar.eps6 < Scalar.abs s.el ∨
          ∃ k : Int, minAz - Scalar.eps6 ≤ s.az + 360 * (k : Rat) ∧
            s.az + 360 * (k : Rat) ≤ maxAz + 360 * (ke : Rat) + Scalar.eps6))) := by
  simp only [zoneMatch, Option.bind_eq_some_iff, Option.some.injEq] at h
  obtain ⟨inside, hin, hb⟩ := h
  obtain ⟨ke, h1, h2, h3, h4⟩ := insideAngleRange_spec fuel s.az minAz maxAz Scalar.eps6 inside hin
  refine ⟨ke, h1, h2, h3, ?_⟩
  rw [← hb]
  simp only [rat_lt, rat_sub, rat_add, rat_ofNat, Bool.and_eq_true, Bool.or_eq_true, decide_eq_true_eq, h4]
  have c90 : ((90 : Nat) : Rat) = 90 := by norm_num
  rw [c90]
  constructor
  · rintro ⟨⟨ha, hb'⟩, hc⟩; exact ⟨by linarith, by linarith, hc⟩
  · rintro ⟨ha, hb', hc⟩; exact ⟨⟨by linarith, by linarith⟩, hc⟩

-- non-vacuity: a wrap-around range written min > max (170 … −160 through ±180) contains −170 and not 0;
-- a loudspeaker at the pole matches a polar zone whatever its azimuth range
example : insideAngleRange 4 (-170 : Rat) 170 (-160) Scalar.eps6 = some true := by decide +kernel
example : insideAngleRange 4 (0 : Rat) 170 (-160) Scalar.eps6 = some false := by decide +kernel
example : zoneMatch 4 (.polar (10 : Rat) 20 80 90) ⟨0, 0, 1, 0, 90⟩ = some true := by decide +kernel
example : zoneMatch 4 (.polar (10 : Rat) 20 (-10) 10) ⟨0, 1, 0, 0, 0⟩ = some false := by decide +kernel

end Earverif.C13
