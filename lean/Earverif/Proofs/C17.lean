/-
Lemmas for C17 (truncated files): prefixes of chunk sequences, the chunk walk over a
prefix, truncated headers.
-/
import Earverif.Props.C09

namespace Earverif.Bw64

/-! ### reads on a truncated file -/

theorem readAt_take_full (f : Bytes) {k p n : Nat} (h : p + n ≤ k) : readAt (f.take k) p n = readAt f p n := by
  simp only [readAt, List.drop_take, List.take_take]
  congr 1; omega

theorem readAt_take_short (f : Bytes) {k p n : Nat} (h : k < p + n) (hn : 0 < n) :
    (readAt (f.take k) p n).length ≠ n :=
  readAt_short (by simp only [List.length_take]; omega) hn

/-- `_read_chunk_header` on eight available bytes `id ++ s4` with a syntactically valid id that is not the unset
`data` size of a plain RIFF file. -/
theorem readChunkHeader_hdr {f pre id s4 rest : Bytes} (ds : Option Ds64) (hf : f = pre ++ (id ++ (s4 ++ rest)))
    (hid : id.length = 4) (hs : s4.length = 4) (hv : validId id = true)
    (hnp : isPlaceholder ds id (fromLE s4) = false) :
    readChunkHeader f ds pre.length = .hdr id (hdrSize ds id (fromLE s4)) := by
  have hd : readAt f pre.length 8 = id ++ s4 :=
    readAt_mid (a := pre) (b := id ++ s4) (r := rest) (by simp [hf]) rfl (by simp [hid, hs])
  have h4 : (id ++ s4).take 4 = id := by rw [← hid]; simp
  have h5 : (id ++ s4).drop 4 = s4 := by rw [← hid]; simp
  simp only [readChunkHeader, hd, h4, h5, hv, hnp]
  simp [hid, hs]

/-- `_read_chunk_header` on the eight bytes `data` + `0xFFFFFFFF` of a plain RIFF file (no ds64 chunk):
"data chunk size has not been set". -/
theorem readChunkHeader_placeholder {f pre rest : Bytes} (hf : f = pre ++ (idData ++ (ffff ++ rest))) :
    readChunkHeader f none pre.length = .placeholder := by
  have hd : readAt f pre.length 8 = idData ++ ffff :=
    readAt_mid (a := pre) (b := idData ++ ffff) (r := rest) (by simp [hf]) rfl rfl
  have h4 : (idData ++ ffff).take 4 = idData := rfl
  have h5 : (idData ++ ffff).drop 4 = ffff := rfl
  have hv : validId idData = true := by decide
  have hp : isPlaceholder none idData (fromLE ffff) = true := by decide
  simp only [readChunkHeader, hd, h4, h5, hv, hp]
  simp [idData, ffff]

/-- one iteration of `_read_chunks` on the unset `data` size: the constructor raises -/
theorem readChunks_placeholder {f : Bytes} {ds : Option Ds64} {fuel pos : Nat} {t : Table} {w : List Warn}
    (hh : readChunkHeader f ds pos = .placeholder) :
    readChunks f ds (fuel + 1) pos t w = .error .dataPlaceholder := by
  rw [readChunks, hh]

/-! ### prefixes of a chunk sequence -/

/-- A proper prefix of an encoded chunk sequence consists of some complete chunks followed by a proper
prefix of the next chunk. -/
theorem take_encAll (cs : List Chunk) : ∀ m, m < (encAll cs).length →
    ∃ A c B j, cs = A ++ c :: B ∧ j < c.enc.length ∧ m = (encAll A).length + j ∧
      (encAll cs).take m = encAll A ++ c.enc.take j := by
  induction cs with
  | nil => intro m hm; simp at hm
  | cons c cs ih =>
    intro m hm
    by_cases h : m < c.enc.length
    · refine ⟨[], c, cs, m, rfl, h, by simp, ?_⟩
      simp [List.take_append_of_le_length (Nat.le_of_lt h)]
    · simp only [encAll_cons, List.length_append] at hm
      obtain ⟨A, c', B, j, h1, h2, h3, h4⟩ := ih (m - c.enc.length) (by omega)
      refine ⟨c :: A, c', B, j, by simp [h1], h2, by simp; omega, ?_⟩
      simp only [encAll_cons, List.take_append, h4, List.append_assoc]
      rw [List.take_of_length_le (by omega)]

/-! ### the chunk walk over a prefix -/

theorem readChunks_eof {f : Bytes} {ds : Option Ds64} {fuel pos : Nat} {t : Table} {w : List Warn}
    (h : f.length < pos + 8) : readChunks f ds (fuel + 1) pos t w = .ok (t, w) := by
  rw [readChunks, readChunkHeader_eof h]

/-- what `_read_chunks` makes of a file cut `j` bytes into chunk `c` (after the complete chunks `A`) -/
def prefixOutcome (p0 : Nat) (A : List Chunk) (c : Chunk) (j : Nat) : Except Err (Table × List Warn) :=
  if j < 8 then .ok (walkTable p0 A [], [])
  else if c.body.length % 2 = 1 ∧ c.id = idData ∧ j = 8 + c.body.length then
    .ok ((c.id, c.body.length, p0 + (encAll A).length) :: walkTable p0 A [], [.dataPad])
  else .error .chunkEnd

/-- **Chunk walk over a prefix.**  On a file cut inside chunk `c` (`j` bytes of it remain) after the complete
well-formed chunks `A`, `_read_chunks` stops with EOF if the cut is inside the header of `c` (the complete
chunks before it are recorded, nothing else), raises "chunk ends after the end of the file" if the cut is
inside the body or removes the pad byte — except for a `data` chunk that lacks only its pad byte, which is
recorded with a warning. -/
theorem walk_prefix (ds : Option Ds64) (A : List Chunk) (c : Chunk) (hA : ∀ x ∈ A, x.OK ds) (hc : c.OK ds)
    (pre f : Bytes) (j : Nat) (hj : j < c.enc.length) (hf : f = pre ++ (encAll A ++ c.enc.take j))
    (fuel : Nat) (hfuel : A.length + 2 ≤ fuel) :
    readChunks f ds fuel pre.length [] [] = prefixOutcome pre.length A c j := by
  obtain ⟨k, rfl⟩ : ∃ k, fuel = A.length + (k + 2) := ⟨fuel - A.length - 2, by omega⟩
  rw [walk_chunks_then ds A hA pre f (c.enc.take j) (k + 2) [] [] hf]
  have hlen := c.enc_length hc.idLen hc.padLen
  have hfl : f.length = pre.length + (encAll A).length + j := by
    rw [hf]; simp only [List.length_append, List.length_take]; omega
  unfold prefixOutcome
  by_cases h8 : j < 8
  · simp only [h8, ↓reduceIte]
    exact readChunks_eof (by omega)
  · simp only [h8, ↓reduceIte]
    -- the header of `c` is complete
    have htake : c.enc.take j = c.id ++ (le 4 c.szField ++ (c.body ++ c.padB).take (j - 8)) := by
      simp only [Chunk.enc, List.take_append, hc.idLen, le_length]
      rw [List.take_of_length_le (by rw [hc.idLen]; omega), List.take_of_length_le (by rw [le_length]; omega)]
      congr 2
    have hh := readChunkHeader_hdr (f := f) (pre := pre ++ encAll A) (id := c.id) (s4 := le 4 c.szField)
      (rest := (c.body ++ c.padB).take (j - 8)) ds (by rw [hf, htake]; simp) hc.idLen (le_length 4 _) hc.idValid
      (by rw [fromLE_le4 _ hc.szLt]; exact hc.noPlaceholder)
    have hsz : hdrSize ds c.id (fromLE (le 4 c.szField)) = c.body.length := by
      rw [fromLE_le4 _ hc.szLt]; exact hc.size
    rw [hsz, List.length_append] at hh
    rw [show k + 2 = (k + 1) + 1 from rfl, readChunks, hh]
    have he : pre.length + (encAll A).length + 8 + (c.body.length + c.body.length % 2) > f.length := by omega
    simp only [he, ↓reduceIte]
    by_cases hp : c.body.length % 2 = 1 ∧ c.id = idData ∧ j = 8 + c.body.length
    · have hp' : c.body.length % 2 = 1 ∧ c.id = idData ∧
          pre.length + (encAll A).length + 8 + (c.body.length + c.body.length % 2) = f.length + 1 := by
        refine ⟨hp.1, hp.2.1, ?_⟩; omega
      rw [if_pos hp', if_pos hp, readChunks_eof (by omega)]
      simp
    · have hp' : ¬ (c.body.length % 2 = 1 ∧ c.id = idData ∧
          pre.length + (encAll A).length + 8 + (c.body.length + c.body.length % 2) = f.length + 1) := by
        intro h; apply hp; refine ⟨h.1, h.2.1, ?_⟩; omega
      rw [if_neg hp', if_neg hp]

/-! ### prefixes of the writer's chunk sequence -/

theorem walkTable_snoc (A : List Chunk) (x : Chunk) : ∀ (p : Nat) (t : Table),
    walkTable p (A ++ [x]) t = (x.id, x.body.length, p + (encAll A).length) :: walkTable p A t := by
  induction A with
  | nil => intro p t; simp [walkTable]
  | cons a A ih =>
    intro p t
    simp only [List.cons_append, walkTable, ih, encAll_cons, List.length_append]
    congr 3; omega

/-- splitting one list two ways around single elements -/
theorem split_cases {α : Type} {A B H T : List α} {c d : α} (h : A ++ c :: B = H ++ d :: T) :
    (∃ X, H = A ++ c :: X) ∨ (A = H ∧ c = d ∧ B = T) ∨ (∃ L, A = H ++ d :: L ∧ T = L ++ c :: B) := by
  rcases List.append_eq_append_iff.1 h with ⟨a', h1, h2⟩ | ⟨c', h1, h2⟩
  · -- H = A ++ a', c :: B = a' ++ d :: T
    cases a' with
    | nil =>
      simp at h1 h2
      exact Or.inr (Or.inl ⟨h1.symm, h2.1, h2.2⟩)
    | cons x a' =>
      simp at h2
      exact Or.inl ⟨a', by rw [h1, h2.1]⟩
  · -- A = H ++ c', d :: T = c' ++ c :: B
    cases c' with
    | nil =>
      simp at h1 h2
      exact Or.inr (Or.inl ⟨h1, h2.1.symm, h2.2.symm⟩)
    | cons x c' =>
      simp at h2
      exact Or.inr (Or.inr ⟨c', by rw [h1, h2.1], h2.2⟩)

/-- a prefix of a concatenation whose first part has at most one element -/
theorem prefix_short {α : Type} {L M X W : List α} (hX : X.length ≤ 1) (h : L ++ M = X ++ W) :
    L = [] ∨ ∃ L', L = X ++ L' ∧ L' ++ M = W := by
  cases X with
  | nil => exact Or.inr ⟨L, rfl, by simpa using h⟩
  | cons x X =>
    have : X = [] := by cases X with
      | nil => rfl
      | cons _ _ => simp at hX
    subst this
    cases L with
    | nil => exact Or.inl rfl
    | cons l L =>
      simp at h
      exact Or.inr ⟨L, by rw [h.1]; rfl, h.2⟩

theorem optChnaC_length (c : Option (List ChnaEntry)) : (optChnaC c).length ≤ 1 := by cases c <;> simp [optChnaC]
theorem optMetaC_length (id : Bytes) (v : Option Bytes) : (optMetaC id v).length ≤ 1 := by
  rcases v with _ | _ | ⟨x, xs⟩ <;> simp [optMetaC]

/-- A prefix of the late chunks is the late chunks of a history in which some of the pending values are
`None` instead. -/
theorem prefix_lateC {cw aw bw : Bool} {c : Option (List ChnaEntry)} {a b : Option Bytes} {L M : List Chunk}
    (h : L ++ M = lateC cw aw bw c a b) :
    ∃ c' a' b', (c' = c ∨ c' = none) ∧ (a' = a ∨ a' = none) ∧ (b' = b ∨ b' = none) ∧
      L = lateC cw aw bw c' a' b' := by
  have nilC : (if cw then [] else optChnaC none) = ([] : List Chunk) := by cases cw <;> rfl
  have nilA : (if aw then [] else optMetaC idAxml none) = ([] : List Chunk) := by cases aw <;> rfl
  have nilB : (if bw then [] else optMetaC idBext none) = ([] : List Chunk) := by cases bw <;> rfl
  unfold lateC at h
  rcases prefix_short (by cases cw <;> simp [optChnaC_length]) h with rfl | ⟨L1, rfl, h1⟩
  · exact ⟨none, none, none, Or.inr rfl, Or.inr rfl, Or.inr rfl, by simp [lateC, nilC, nilA, nilB]⟩
  · rcases prefix_short (by cases aw <;> simp [optMetaC_length]) h1 with rfl | ⟨L2, rfl, h2⟩
    · exact ⟨c, none, none, Or.inl rfl, Or.inr rfl, Or.inr rfl, by simp [lateC, nilA, nilB]⟩
    · have h2' : L2 ++ M = (if bw then [] else optMetaC idBext b) ++ [] := by simpa using h2
      rcases prefix_short (by cases bw <;> simp [optMetaC_length]) h2' with rfl | ⟨L3, rfl, h3⟩
      · exact ⟨c, a, none, Or.inl rfl, Or.inl rfl, Or.inr rfl, by simp [lateC, nilB]⟩
      · have : L3 = [] := (List.append_eq_nil_iff.1 h3).1
        subst this
        exact ⟨c, a, b, Or.inl rfl, Or.inl rfl, Or.inl rfl, by simp [lateC]⟩

theorem effChna_sub (c0 c c' : Option (List ChnaEntry)) (h : c' = c ∨ c' = none) :
    effChna c0 c' = none ∨ effChna c0 c' = effChna c0 c := by
  rcases h with rfl | rfl
  · exact Or.inr rfl
  · cases c0 <;> simp [effChna]

theorem effMeta_sub (v0 v v' : Option Bytes) (h : v' = v ∨ v' = none) :
    effMeta v0 v' = none ∨ effMeta v0 v' = effMeta v0 v := by
  rcases h with rfl | rfl
  · exact Or.inr rfl
  · have hn : truthy (none : Option Bytes) = false := rfl
    by_cases h0 : truthy v0 = true <;> simp [effMeta, h0, hn]

theorem finishRead_noData {f ff : Bytes} {ds : Option Ds64} {t : Table} {w : List Warn}
    (h : tlookup t idData = none) : finishRead f ff ds t w = .error .missingChunk := by
  unfold finishRead
  cases tlookup t idFmt <;> simp [h]

/-! ### reading a file cut after the header part -/

/-- The verdict on a truncated file is acceptable w.r.t. what the complete file holds (format, frame count,
sample bytes, metadata chunks): rejected, or accepted with the same format, frame count and sample bytes and
each metadata chunk either absent or identical. -/
def TruncOK (fm : RFmt) (frames : Nat) (data : Bytes) (chna : Option (List ChnaEntry)) (axml bext : Option Bytes) :
    Except Err (Parsed × List Warn) → Prop
  | .error _ => True
  | .ok (r, _) => r.fmt = fm ∧ r.frames = frames ∧ r.data = data ∧
      (r.chna = none ∨ r.chna = chna) ∧ (r.axml = none ∨ r.axml = axml) ∧ (r.bext = none ∨ r.bext = bext)

theorem noId_sub_left {id : Bytes} {A X : List Chunk} {c : Chunk} (h : NoId id (A ++ c :: X)) :
    NoId id A ∧ c.id ≠ id :=
  ⟨fun x hx => h x (by simp [hx]), h c (by simp)⟩

theorem trunc_body {f pre ff : Bytes} {F : List Chunk} {fmt : Fmt} {c0 cF : Option (List ChnaEntry)}
    {a0 b0 aF bF : Option Bytes} {sz : Nat} {data : Bytes} {ds : Option Ds64}
    (hfmt : FmtOK fmt) (hc0 : ChnaOK c0) (hcF : ChnaOK cF)
    (hf : f = pre ++ encAll (F ++ bodyC fmt c0 a0 b0 sz data (pad data.length) cF aF bF))
    (hF : ∀ x ∈ F, x.id = idJUNK)
    (hok : ∀ x ∈ F ++ bodyC fmt c0 a0 b0 sz data (pad data.length) cF aF bF, x.OK ds)
    (hds : ∀ d, ds = some d → d.dataSize = data.length)
    (hdata : data.length % fmt.blockAlign = 0)
    (hpre : 1 ≤ pre.length) (k : Nat) (hk1 : pre.length ≤ k) (hk2 : k < f.length) :
    TruncOK ⟨1, fmt.channels, fmt.rate, fmt.bits⟩ (data.length / fmt.blockAlign) data
        (effChna c0 cF) (effMeta a0 aF) (effMeta b0 bF)
      (match readChunks (f.take k) ds ((f.take k).length + 1) pre.length [] [] with
       | .error e => .error e
       | .ok (t, w) => finishRead (f.take k) ff ds t w) := by
  -- the chunk sequence, split at the data chunk
  have hsplit : F ++ bodyC fmt c0 a0 b0 sz data (pad data.length) cF aF bF =
      (F ++ fmtC fmt :: preC c0 a0 b0) ++ dataC sz data (pad data.length) ::
        lateC c0.isSome (truthy a0) (truthy b0) cF aF bF := by simp [bodyC]
  have hnoH : NoId idData (F ++ fmtC fmt :: preC c0 a0 b0) := by simp only [preC]; no_id
  have hnoL : NoId idData (lateC c0.isSome (truthy a0) (truthy b0) cF aF bF) := by simp only [lateC]; no_id
  -- the truncated file
  have hlenf : f.length = pre.length + (encAll (F ++ bodyC fmt c0 a0 b0 sz data (pad data.length) cF aF bF)).length := by
    rw [hf]; simp
  obtain ⟨A, c, B, j, hcs, hj, hm, htk⟩ :=
    take_encAll (F ++ bodyC fmt c0 a0 b0 sz data (pad data.length) cF aF bF) (k - pre.length) (by omega)
  have hfk : f.take k = pre ++ (encAll A ++ c.enc.take j) := by
    rw [hf, List.take_append, List.take_of_length_le hk1, htk]
  have hAok : ∀ x ∈ A, x.OK ds := fun x hx => hok x (by rw [hcs]; simp [hx])
  have hcok : c.OK ds := hok c (by rw [hcs]; simp)
  have hlk : (f.take k).length = k := by simp only [List.length_take]; omega
  have hAl := length_le_encAll A (fun x hx => (hAok x hx).idLen)
  rw [walk_prefix ds A c hAok hcok pre (f.take k) j hj hfk _ (by omega)]
  rw [hsplit] at hcs
  unfold prefixOutcome
  by_cases h8 : j < 8
  · -- cut inside the header of `c`: the complete chunks `A` are recorded
    simp only [h8, ↓reduceIte]
    rcases split_cases hcs.symm with ⟨X, hX⟩ | ⟨hAH, -, -⟩ | ⟨L, hAL, hLT⟩
    · rw [hX] at hnoH
      rw [finishRead_noData (by rw [tlookup_walkTable_absent _ _ (noId_sub_left hnoH).1]; rfl)]
      trivial
    · rw [hAH, finishRead_noData (by rw [tlookup_walkTable_absent _ _ hnoH]; rfl)]
      trivial
    · obtain ⟨c', a', b', hc', ha', hb', hL⟩ := prefix_lateC hLT.symm
      have hc'ok : ChnaOK c' := by rcases hc' with rfl | rfl; exact hcF; trivial
      have hA' : A = F ++ bodyC fmt c0 a0 b0 sz data (pad data.length) c' a' b' := by
        rw [hAL, hL]; simp [bodyC]
      rw [hA'] at hfk ⊢
      rw [finishRead_written hfmt hc0 hc'ok hfk hF hds hdata]
      exact ⟨rfl, rfl, rfl, effChna_sub c0 cF c' hc', effMeta_sub a0 aF a' ha', effMeta_sub b0 bF b' hb'⟩
  · simp only [h8, ↓reduceIte]
    by_cases hp : c.body.length % 2 = 1 ∧ c.id = idData ∧ j = 8 + c.body.length
    · -- a data chunk that lacks only its pad byte
      rw [if_pos hp]
      rcases split_cases hcs.symm with ⟨X, hX⟩ | ⟨hAH, hcd, -⟩ | ⟨L, -, hLT⟩
      · rw [hX] at hnoH
        exact absurd hp.2.1 (noId_sub_left hnoH).2
      · have hbody : c.body = data := by rw [hcd]; rfl
        have hcid : c.id = idData := hp.2.1
        have htake : c.enc.take j = (dataC sz data []).enc := by
          rw [hp.2.2, hcd]
          have e1 : idData ++ (le 4 sz ++ (data ++ pad data.length)) =
              (idData ++ (le 4 sz ++ data)) ++ pad data.length := by simp
          show List.take (8 + data.length) (idData ++ (le 4 sz ++ (data ++ pad data.length))) =
            idData ++ (le 4 sz ++ (data ++ []))
          rw [e1, List.take_left' (by simp [idData, le_length]; omega)]; simp
        have hA' : A ++ [dataC sz data []] = F ++ bodyC fmt c0 a0 b0 sz data [] none none none := by
          rw [hAH]
          cases c0.isSome <;> cases truthy a0 <;> cases truthy b0 <;> simp [bodyC, lateC, optChnaC, optMetaC]
        have hfk' : f.take k = pre ++ (encAll (F ++ bodyC fmt c0 a0 b0 sz data [] none none none) ++ []) := by
          rw [hfk, htake, ← hA']; simp
        have ht : ((c.id, c.body.length, pre.length + (encAll A).length) :: walkTable pre.length A [] : Table) =
            walkTable pre.length (F ++ bodyC fmt c0 a0 b0 sz data [] none none none) [] := by
          rw [← hA', walkTable_snoc, hcid, hbody]; rfl
        rw [ht]
        dsimp only
        rw [finishRead_written (w := [Warn.dataPad]) hfmt hc0 (by trivial) hfk' hF hds hdata]
        exact ⟨rfl, rfl, rfl, effChna_sub c0 cF none (Or.inr rfl), effMeta_sub a0 aF none (Or.inr rfl),
          effMeta_sub b0 bF none (Or.inr rfl)⟩
      · rw [hLT] at hnoL
        exact absurd hp.2.1 (noId_sub_left hnoL).2
    · rw [if_neg hp]
      trivial

/-! ### a file cut inside the header part -/

theorem readRiff_short {f id s4 rest : Bytes} (hf : f = id ++ (s4 ++ (idWAVE ++ rest)))
    (hid : id = idRIFF ∨ id = idBW64) (hs : s4.length = 4) {k : Nat} (hk : k < 12) :
    readRiff (f.take k) = .error .struct := by
  have hidl : id.length = 4 := by rcases hid with rfl | rfl <;> rfl
  by_cases h8 : k < 8
  · have := readAt_take_short f (p := 0) (n := 8) (by omega) (by omega)
    simp [readRiff, this]
  · have h8' : readAt (f.take k) 0 8 = id ++ s4 := by
      rw [readAt_take_full f (by omega)]
      exact readAt_mid (a := []) (b := id ++ s4) (r := idWAVE ++ rest) (by simp [hf]) rfl (by simp [hidl, hs])
    have ht : (id ++ s4).take 4 = id := by rw [← hidl]; simp
    have h4 := readAt_take_short f (k := k) (p := 8) (n := 4) (by omega) (by omega)
    simp only [readRiff, h8', ht]
    rcases hid with rfl | rfl <;> simp [hs, h4, idRIFF, idRF64, idBW64]

theorem readHead_riff_short {f s4 rest : Bytes} (hf : f = idRIFF ++ (s4 ++ (idWAVE ++ rest))) (hs : s4.length = 4)
    {k : Nat} (hk : k < 12) : readHead (f.take k) = .error .struct := by
  simp only [readHead, readRiff_short hf (Or.inl rfl) hs hk]

theorem readHead_bw64_short {f rest : Bytes} {R n : Nat}
    (hf : f = idBW64 ++ (ffff ++ (idWAVE ++ (ds64Chunk R n ++ rest)))) {k : Nat} (hk : k < 48) :
    readHead (f.take k) = .error .struct := by
  by_cases h12 : k < 12
  · simp only [readHead, readRiff_short hf (Or.inr rfl) rfl h12]
  · have hfk : f.take k = idBW64 ++ (ffff ++ (idWAVE ++ (ds64Chunk R n ++ rest).take (k - 12))) := by
      have : f = (idBW64 ++ (ffff ++ idWAVE)) ++ (ds64Chunk R n ++ rest) := by simp [hf]
      rw [this, List.take_append, List.take_of_length_le (by simp [idBW64, ffff, idWAVE]; omega)]
      simp [idBW64, ffff, idWAVE]
    have hds : readDs64 (f.take k) = .error .struct := by
      by_cases h20 : k < 20
      · have := readAt_take_short f (k := k) (p := 12) (n := 8) (by omega) (by omega)
        simp [readDs64, this]
      · have h8 : readAt (f.take k) 12 8 = idDs64 ++ le 4 28 := by
          rw [readAt_take_full f (by omega)]
          exact readAt_mid (a := idBW64 ++ (ffff ++ idWAVE)) (b := idDs64 ++ le 4 28)
            (r := (le 8 R ++ le 8 n ++ le 8 0 ++ le 4 0) ++ rest) (by simp [hf, ds64Chunk]) rfl rfl
        have hd4 : (idDs64 ++ le 4 28).take 4 = idDs64 := by decide
        have hd5 : fromLE ((idDs64 ++ le 4 28).drop 4) = 28 := by decide
        have hshort := readAt_take_short f (k := k) (p := 20) (n := 28) (by omega) (by omega)
        have hle : (readAt (f.take k) 20 28).length ≤ 28 := by simp only [readAt, List.length_take]; omega
        have hfix : ¬ (min 28 (readAt (f.take k) 20 28).length = 28) := by omega
        simp only [readDs64, h8, hd4, hd5]
        simp [hfix, idDs64]
    simp only [readHead, readRiff_ok hfk (Or.inr rfl) rfl, hds]
    simp [idRF64, idBW64]

end Earverif.Bw64
