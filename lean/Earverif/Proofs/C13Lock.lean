/-
C13 — helper lemmas about the channel-lock selection and the four-point interpolation
(core Lean only).
-/
import Earverif.Model.ChannelLock
import Earverif.Proofs.C13Zone

namespace Earverif.C13
open Earverif.Zone Earverif.Zone.Scalar Earverif.Lock

/-- `np.min`: the result is one of the values and a lower bound of all of them. -/
theorem minList_spec (l : List Rat) (m : Rat) :
    (minList m l = m ∨ minList m l ∈ l) ∧ minList m l ≤ m ∧ ∀ x ∈ l, minList m l ≤ x := by
  induction l generalizing m with
  | nil => simp [minList]
  | cons x xs ih =>
    simp only [minList, rat_lt]
    by_cases hx : x < m
    · simp only [hx, decide_true, ↓reduceIte]
      obtain ⟨h1, h2, h3⟩ := ih x
      refine ⟨?_, by grind, ?_⟩
      · rcases h1 with h | h
        · right; simp [h]
        · right; simp [h]
      · intro y hy
        simp only [List.mem_cons] at hy
        rcases hy with rfl | hy
        · exact h2
        · exact h3 y hy
    · simp only [hx, decide_false, Bool.false_eq_true, ↓reduceIte]
      obtain ⟨h1, h2, h3⟩ := ih m
      refine ⟨?_, h2, ?_⟩
      · rcases h1 with h | h
        · left; exact h
        · right; simp [h]
      · intro y hy
        simp only [List.mem_cons] at hy
        rcases hy with rfl | hy
        · grind
        · exact h3 y hy

/-- `argmin` of the priorities: a member with the smallest priority. -/
theorem argminPrio_spec {α : Type} (l : List (Cand α)) (b : Cand α) :
    (argminPrio b l = b ∨ argminPrio b l ∈ l) ∧ (argminPrio b l).prio ≤ b.prio ∧
      ∀ c ∈ l, (argminPrio b l).prio ≤ c.prio := by
  induction l generalizing b with
  | nil => simp [argminPrio]
  | cons x xs ih =>
    simp only [argminPrio]
    by_cases hx : x.prio < b.prio
    · simp only [hx, ↓reduceIte]
      obtain ⟨h1, h2, h3⟩ := ih x
      refine ⟨?_, by omega, ?_⟩
      · rcases h1 with h | h
        · right; simp [h]
        · right; simp [h]
      · intro y hy
        simp only [List.mem_cons] at hy
        rcases hy with rfl | hy
        · exact h2
        · exact h3 y hy
    · simp only [hx, ↓reduceIte]
      obtain ⟨h1, h2, h3⟩ := ih b
      refine ⟨?_, h2, ?_⟩
      · rcases h1 with h | h
        · left; exact h
        · right; simp [h]
      · intro y hy
        simp only [List.mem_cons] at hy
        rcases hy with rfl | hy
        · omega
        · exact h3 y hy

/-- With a `maxDistance` the handler behaves as the handler without one on the loudspeakers
within the limit. -/
theorem lockSelect_some_eq {α : Type} [Scalar α] (tol m : α) (cands : List (Cand α)) :
    lockSelect tol (some m) cands =
      lockSelect tol none (cands.filter fun (c : Cand α) => lt c.d (add m tol)) := rfl

/-- Any locked index is the index of one of the candidates (any scalar type). -/
theorem lockSelect_locked_mem {α : Type} [Scalar α] (tol : α) (maxD : Option α) (cands : List (Cand α))
    (i : Nat) (h : lockSelect tol maxD cands = .locked i) : ∃ c ∈ cands, c.idx = i := by
  cases maxD with
  | some m =>
    rw [lockSelect_some_eq] at h
    have key : ∀ (l : List (Cand α)), lockSelect tol none l = .locked i → ∃ c ∈ l, c.idx = i := by
      intro l hl
      unfold lockSelect at hl
      simp only at hl
      cases l with
      | nil => simp at hl
      | cons c0 cs =>
        simp only at hl
        split at hl
        · simp at hl
        · rename_i a as hf
          simp only [LockOut.locked.injEq] at hl
          have hmem : argminPrio a as ∈ a :: as := by
            rcases (argminPrio_spec as a).1 with h | h
            · simp [h]
            · simp [h]
          have : argminPrio a as ∈ (c0 :: cs) := by
            rw [← hf] at hmem
            exact (List.mem_filter.mp hmem).1
          exact ⟨_, this, hl⟩
    obtain ⟨c, hc, hi⟩ := key _ h
    exact ⟨c, (List.mem_filter.mp hc).1, hi⟩
  | none =>
    unfold lockSelect at h
    simp only at h
    cases cands with
    | nil => simp at h
    | cons c0 cs =>
      simp only at h
      split at h
      · simp at h
      · rename_i a as hf
        simp only [LockOut.locked.injEq] at h
        have hmem : argminPrio a as ∈ a :: as := by
          rcases (argminPrio_spec as a).1 with h | h
          · simp [h]
          · simp [h]
        have : argminPrio a as ∈ (c0 :: cs) := by
          rw [← hf] at hmem
          exact (List.mem_filter.mp hmem).1
        exact ⟨_, this, h⟩

/-- The selection without `maxDistance` on a non-empty candidate list (exact arithmetic). -/
theorem lockSelect_none_spec (tol : Rat) (htol : 0 < tol) (cands : List (Cand Rat)) (hne : cands ≠ []) :
    ∃ c ∈ cands, lockSelect tol none cands = .locked c.idx ∧
      ∃ m ∈ cands, (∀ c' ∈ cands, m.dw ≤ c'.dw) ∧ c.dw < m.dw + tol ∧
        ∀ c' ∈ cands, c'.dw < m.dw + tol → c.prio ≤ c'.prio := by
  cases cands with
  | nil => exact absurd rfl hne
  | cons c0 cs =>
    obtain ⟨h1, h2, h3⟩ := minList_spec (cs.map Cand.dw) c0.dw
    -- a candidate attaining the minimum
    have hm : ∃ m ∈ c0 :: cs, m.dw = minList c0.dw (cs.map Cand.dw) := by
      rcases h1 with h | h
      · exact ⟨c0, by simp, h.symm⟩
      · simp only [List.mem_map] at h
        obtain ⟨m, hm, hmd⟩ := h
        exact ⟨m, by simp [hm], hmd⟩
    obtain ⟨m, hmmem, hmd⟩ := hm
    have hlow : ∀ c' ∈ c0 :: cs, m.dw ≤ c'.dw := by
      intro c' hc'
      rw [hmd]
      simp only [List.mem_cons] at hc'
      rcases hc' with rfl | hc'
      · exact h2
      · exact h3 _ (List.mem_map.mpr ⟨c', hc', rfl⟩)
    unfold lockSelect
    simp only [rat_lt, rat_add]
    -- the minimum itself passes the `< min + tol` filter, so the filtered list is not empty
    have hmf : m ∈ (c0 :: cs).filter fun (c : Cand Rat) => decide (c.dw < minList c0.dw (cs.map Cand.dw) + tol) := by
      rw [List.mem_filter]
      refine ⟨hmmem, ?_⟩
      rw [← hmd]
      simp only [decide_eq_true_eq]
      grind
    split
    · rename_i hf
      rw [hf] at hmf
      simp at hmf
    · rename_i a as hf
      have hspec := argminPrio_spec as a
      have hmem : argminPrio a as ∈ a :: as := by
        rcases hspec.1 with h | h
        · simp [h]
        · simp [h]
      have hfm : ∀ c', c' ∈ a :: as ↔ (c' ∈ c0 :: cs ∧ c'.dw < minList c0.dw (cs.map Cand.dw) + tol) := by
        intro c'
        rw [← hf, List.mem_filter]
        simp
      refine ⟨argminPrio a as, ((hfm _).mp hmem).1, rfl, m, hmmem, hlow, ?_, ?_⟩
      · rw [hmd]; exact ((hfm _).mp hmem).2
      · intro c' hc' hlt
        have : c' ∈ a :: as := (hfm c').mpr ⟨hc', by rw [← hmd]; exact hlt⟩
        simp only [List.mem_cons] at this
        rcases this with rfl | h
        · exact hspec.2.1
        · exact hspec.2.2 c' h

end Earverif.C13
