/-
C20 — model of `ear/core/track_processor.py` (track spec simplification and the per-node
processors), of the track spec classes in `ear/core/metadata_input.py`, of the one-channel use of
`ear/core/delay.py` (`Delay(1, d)`), and of the nested spec built by
`select_items._PackAllocator.MatrixAllocationPack.output_channel_allocation`.

Core Lean only. Samples and gains live in one type `α` with `+`, `*`, `0`, `1` (class `Sample`,
instances `Rat` and `Int`); delays in milliseconds are exact `Rat` (the exact value of the Python
float), sample rates are `Int` (the Python `int` passed to `process`).

Two versions of the ms → samples conversion: `delaySamples` (exact arithmetic = "nearest sample", used
by `step`/`meaning`, imported by C02/C03/C06) and `delaySamplesF` (binary64, what the code computes,
used by `stepG delaySamplesF`, which the C20 driver runs); they agree on `Spec.floatExact` specs.
`meaningStrict` at the end is the partial, independently defined literal meaning.

A block of input is a list of frames, a frame is the list of the `nch` channel samples
(`input_samples` of shape `(n, nch)`); the number of channels is passed separately because an empty
block still has a width in numpy (`input_samples[:, i]` raises for a bad `i` even when `n = 0`).
-/
import Earverif.Model.Ieee
namespace Earverif.TrackSpec

/-- Sample/gain arithmetic used by the processors: `+`, `*`, `0`, `1` and the four laws the
simplifier relies on (`x + 0`, `0 + x`, `x * 1`, `0 * x`). -/
class Sample (α : Type) extends Add α, Mul α where
  zero : α
  one : α
  add_zero : ∀ a : α, a + zero = a
  zero_add : ∀ a : α, zero + a = a
  mul_one : ∀ a : α, a * one = a
  zero_mul : ∀ a : α, zero * a = zero

instance : Sample Rat where
  zero := 0
  one := 1
  add_zero := Rat.add_zero
  zero_add := Rat.zero_add
  mul_one := Rat.mul_one
  zero_mul := Rat.zero_mul

instance : Sample Int where
  zero := 0
  one := 1
  add_zero := Int.add_zero
  zero_add := Int.zero_add
  mul_one := Int.mul_one
  zero_mul := Int.zero_mul

/-- Exceptions that escape `TrackProcessor(...)` / `process(...)`. -/
inductive Err where
  /-- `input_samples[:, track_index]` with `track_index ∉ [-nch, nch)` : `IndexError` -/
  | index
  /-- `Delay.__init__`: `assert delay >= 0` : `AssertionError` -/
  | negDelay
  /-- `init_delay`: `assert self.sample_rate == sample_rate` : `AssertionError` -/
  | sampleRate
  /-- `MixProcessor.__init__`: `assert len(track_spec.input_tracks)` : `AssertionError` -/
  | notSimplified
  /-- `np.stack([])` in `MultiTrackProcessor.process` with no track specs : `ValueError` -/
  | emptyStack
  deriving DecidableEq, Repr

/-- `metadata_input.TrackSpec` subclasses. Of `MatrixCoefficientTrackSpec.coefficient` only `gain`
and `delay` are ever read by `track_processor.py` (`phase`, `gainVar`, `delayVar`, `phaseVar`,
`inputChannelFormat` are never looked at there — they are rejected earlier, in
`select_items.validate`, which is not part of this model). -/
inductive Spec (α : Type) where
  /-- `DirectTrackSpec(track_index)` -/
  | direct (trackIndex : Int)
  /-- `SilentTrackSpec()` -/
  | silent
  /-- `MatrixCoefficientTrackSpec(input_track, coefficient)` with `coefficient.gain`, `coefficient.delay` (ms) -/
  | matrix (input : Spec α) (gain : Option α) (delay : Option Rat)
  /-- `MixTrackSpec(input_tracks)` -/
  | mix (inputs : List (Spec α))
  /-- `GainTrackSpec(input_track, gain)` -/
  | gain (input : Spec α) (gain : α)

/-- `isinstance(t, SilentTrackSpec)` -/
def Spec.isSilent : Spec α → Bool
  | .silent => true
  | _ => false

section
variable {α : Type} [Sample α]

/-! ## `_simplify_track_spec` -/

mutual
/-- `_simplify_track_spec` (`_simplify_base`, `_simplify_mix`, `_simplify_matrix`, `_simplify_gain`). -/
def simplify [DecidableEq α] : Spec α → Spec α
  | .direct i => .direct i
  | .silent => .silent
  | .mix ts =>
    -- simplify every input, drop the silent ones; >1 left: mix, 1 left: that one, 0 left: silent
    match (simplifyList ts).filter (fun t => !t.isSilent) with
    | [] => .silent
    | [t] => t
    | ts' => .mix ts'
  | .matrix t g d =>
    let t' := simplify t
    if t'.isSilent then .silent else .matrix t' g d
  | .gain t g =>
    let t' := simplify t
    if g = Sample.one then t' else .gain t' g
/-- `[_simplify_track_spec(t) for t in input_tracks]` -/
def simplifyList [DecidableEq α] : List (Spec α) → List (Spec α)
  | [] => []
  | t :: ts => simplify t :: simplifyList ts
end

/-! ## `delay.Delay` with one channel -/

/-- `np.zeros(n)` -/
def zeros (n : Nat) : List α := List.replicate n Sample.zero

/-- numpy slice assignment `l[start : start + len(src)] = src` (for `start + len(src) ≤ len(l)`). -/
def setSlice (l : List α) (start : Nat) (src : List α) : List α :=
  l.take start ++ src ++ l.drop (start + src.length)

/-- `Delay.process(input_samples)` for `nchannels = 1`: `mem` is `self.delaymem`; returns
`(output, new delaymem)`. Statement by statement transliteration (slices as `take`/`drop`). -/
def delayProcess (mem inp : List α) : List α × List α :=
  let d := mem.length
  let n := inp.length
  -- output = np.zeros_like(input_samples)
  let out : List α := zeros n
  -- start_len = min(len(src[0]), len(dst[0])); if start_len: dst[0][:start_len] = src[0][:start_len]
  let startLen := min d n
  let out := if startLen ≠ 0 then setSlice out 0 (mem.take startLen) else out
  -- overlap = len(src[0]) - len(dst[0])
  --   > 0: dst[1][:overlap] = src[0][-overlap:]      (within delaymem)
  --   < 0: dst[0][overlap:] = src[1][:-overlap]      (input to output)
  let om : List α × List α :=
    if d > n then (out, setSlice mem 0 (mem.drop (d - (d - n))))
    else if d < n then (setSlice out (n - (n - d)) (inp.take (n - d)), mem)
    else (out, mem)
  -- end_len = min(len(src[1]), len(dst[1])); if end_len: dst[1][-end_len:] = src[1][-end_len:]
  let endLen := min n d
  let mem2 := if endLen ≠ 0 then setSlice om.2 (d - endLen) (inp.drop (n - endLen)) else om.2
  (om.1, mem2)

/-- successive `Delay.process` calls on one `Delay` object: `(outputs, final delaymem)` -/
def delayRun (mem : List α) : List (List α) → List (List α) × List α
  | [] => ([], mem)
  | b :: rest =>
    let r := delayProcess mem b
    let rr := delayRun r.2 rest
    (r.1 :: rr.1, rr.2)

/-- `int(math.ceil((sample_rate * delay) / 1000.0 - 0.5))` evaluated exactly. -/
def delaySamples (fs : Int) (ms : Rat) : Int :=
  (((fs : Rat) * ms) / 1000 - 1 / 2).ceil

/-! ## processors -/

/-- Processor objects (`TrackProcessorBase` subclasses) with their mutable state. Only
`MatrixCoefficientProcessor` has state: `self.delay` (a `Delay` object, here its `delaymem`) and
`self.sample_rate`, both `None` until the first `process` call with a coefficient delay. -/
inductive Proc (α : Type) where
  | silent
  | direct (trackIndex : Int)
  | matrix (input : Proc α) (gain : Option α) (delay : Option Rat) (state : Option (Int × List α))
  | mix (inputs : List (Proc α))
  | gain (input : Proc α) (gain : α)

mutual
/-- `_track_spec_processor(spec)`: the `__init__` of the five processor classes. No `Delay` object is
created here. -/
def build : Spec α → Except Err (Proc α)
  | .silent => .ok .silent
  | .direct i => .ok (.direct i)
  | .mix ts =>
    -- assert len(track_spec.input_tracks), "track spec not simplified before rendering"
    if ts.isEmpty then .error .notSimplified else
    match buildList ts with
    | .error e => .error e
    | .ok ps => .ok (.mix ps)
  | .matrix t g d =>
    match build t with
    | .error e => .error e
    | .ok p => .ok (.matrix p g d none)
  | .gain t g =>
    match build t with
    | .error e => .error e
    | .ok p => .ok (.gain p g)
def buildList : List (Spec α) → Except Err (List (Proc α))
  | [] => .ok []
  | t :: ts =>
    match build t with
    | .error e => .error e
    | .ok p =>
      match buildList ts with
      | .error e => .error e
      | .ok ps => .ok (p :: ps)
end

/-- numpy column index `input_samples[:, i]` on `nch` columns: negative indices count from the end. -/
def chanIdx (nch : Nat) (i : Int) : Option Nat :=
  if 0 ≤ i ∧ i < nch then some i.toNat
  else if -(nch : Int) ≤ i ∧ i < 0 then some (i + nch).toNat
  else none

/-- element-wise `a + b` of equal-length arrays -/
def vadd (a b : List α) : List α := List.zipWith (· + ·) a b

/-- `output = 0; for p in ...: output += p.process(...)` (the scalar `0` broadcast to `n` zeros) -/
def vsum (n : Nat) (ls : List (List α)) : List α := ls.foldl vadd (zeros n)

/-- `samples * coefficient.gain` if the gain is not `None` -/
def scaleOpt (g : Option α) (l : List α) : List α :=
  match g with
  | some g => l.map (· * g)
  | none => l

/-- `MatrixCoefficientProcessor.init_delay`: creates `Delay(1, delay_samples)` on first use, later only
checks the sample rate. Returns `(self.sample_rate, self.delay.delaymem)`. -/
def initDelay (fs : Int) (ms : Rat) (st : Option (Int × List α)) : Except Err (Int × List α) :=
  match st with
  | none =>
    let k := delaySamples fs ms
    if k < 0 then .error .negDelay else .ok (fs, zeros k.toNat)
  | some (fs0, mem) => if fs0 = fs then .ok (fs0, mem) else .error .sampleRate

mutual
/-- `processor.process(sample_rate, input_samples)`: returns the processor with its updated state and
the `(n,)` output. -/
def step (fs : Int) (nch : Nat) : Proc α → List (List α) → Except Err (Proc α × List α)
  | .silent, b => .ok (.silent, zeros b.length)
  | .direct i, b =>
    match chanIdx nch i with
    | none => .error .index
    | some k => .ok (.direct i, b.map (fun fr => fr.getD k Sample.zero))
  | .mix ps, b =>
    -- children are processed in order; the running sum is a fresh array, so collecting the outputs
    -- and summing them afterwards is the same computation
    match stepList fs nch ps b with
    | .error e => .error e
    | .ok (ps', outs) => .ok (.mix ps', vsum b.length outs)
  | .gain p g, b =>
    match step fs nch p b with
    | .error e => .error e
    | .ok (p', s) => .ok (.gain p' g, s.map (· * g))
  | .matrix p g d st, b =>
    match step fs nch p b with
    | .error e => .error e
    | .ok (p', s) =>
      let s := scaleOpt g s
      match d with
      | none => .ok (.matrix p' g d st, s)
      | some ms =>
        match initDelay fs ms st with
        | .error e => .error e
        | .ok (fs0, mem) =>
          let r := delayProcess mem s
          .ok (.matrix p' g d (some (fs0, r.2)), r.1)
/-- `[p.process(sample_rate, input_samples) for p in processors]` -/
def stepList (fs : Int) (nch : Nat) : List (Proc α) → List (List α) → Except Err (List (Proc α) × List (List α))
  | [], _ => .ok ([], [])
  | p :: ps, b =>
    match step fs nch p b with
    | .error e => .error e
    | .ok (p', o) =>
      match stepList fs nch ps b with
      | .error e => .error e
      | .ok (ps', os) => .ok (p' :: ps', o :: os)
end

/-- successive `process` calls, each with its own sample rate: the list of output blocks -/
def runR (nch : Nat) : Proc α → List (Int × List (List α)) → Except Err (List (List α))
  | _, [] => .ok []
  | p, (fs, b) :: rest =>
    match step fs nch p b with
    | .error e => .error e
    | .ok (p', o) =>
      match runR nch p' rest with
      | .error e => .error e
      | .ok os => .ok (o :: os)

/-- successive `process(fs, block)` calls with one sample rate -/
def run (fs : Int) (nch : Nat) : Proc α → List (List (List α)) → Except Err (List (List α))
  | _, [] => .ok []
  | p, b :: rest =>
    match step fs nch p b with
    | .error e => .error e
    | .ok (p', o) =>
      match run fs nch p' rest with
      | .error e => .error e
      | .ok os => .ok (o :: os)

/-- `p = _track_spec_processor(spec); [p.process(fs, b) for b in parts]` (no simplification) -/
def runBuilt (fs : Int) (nch : Nat) (s : Spec α) (parts : List (List (List α))) :
    Except Err (List (List α)) :=
  match build s with
  | .error e => .error e
  | .ok p => run fs nch p parts

/-- `TrackProcessor(spec)` -/
def trackProcessor [DecidableEq α] (s : Spec α) : Except Err (Proc α) := build (simplify s)

/-- `p = TrackProcessor(spec); [p.process(fs, b) for b in parts]` -/
def runSpec [DecidableEq α] (fs : Int) (nch : Nat) (s : Spec α) (parts : List (List (List α))) :
    Except Err (List (List α)) :=
  runBuilt fs nch (simplify s) parts

/-! ## `MultiTrackProcessor` -/

/-- `[TrackProcessor(track) for track in track_specs]` -/
def buildMulti [DecidableEq α] : List (Spec α) → Except Err (List (Proc α))
  | [] => .ok []
  | t :: ts =>
    match trackProcessor t with
    | .error e => .error e
    | .ok p =>
      match buildMulti ts with
      | .error e => .error e
      | .ok ps => .ok (p :: ps)

/-- `np.stack(cols, 1)` of `m` arrays of shape `(n,)`: shape `(n, m)`, frame `j` = `[col[j] for col in cols]` -/
def stack (n : Nat) (cols : List (List α)) : List (List α) :=
  (List.range n).map (fun j => cols.map (fun c => c.getD j Sample.zero))

/-- `MultiTrackProcessor.process` -/
def stepMulti (fs : Int) (nch : Nat) (ps : List (Proc α)) (b : List (List α)) :
    Except Err (List (Proc α) × List (List α)) :=
  match stepList fs nch ps b with
  | .error e => .error e
  | .ok (ps', cols) =>
    -- np.stack of an empty list raises ValueError
    if cols.isEmpty then .error .emptyStack else .ok (ps', stack b.length cols)

/-- successive `MultiTrackProcessor.process` calls; each output block is a list of frames -/
def runMulti (fs : Int) (nch : Nat) : List (Proc α) → List (List (List α)) → Except Err (List (List (List α)))
  | _, [] => .ok []
  | ps, b :: rest =>
    match stepMulti fs nch ps b with
    | .error e => .error e
    | .ok (ps', o) =>
      match runMulti fs nch ps' rest with
      | .error e => .error e
      | .ok os => .ok (o :: os)

def runMultiSpec [DecidableEq α] (fs : Int) (nch : Nat) (ss : List (Spec α)) (parts : List (List (List α))) :
    Except Err (List (List (List α))) :=
  match buildMulti ss with
  | .error e => .error e
  | .ok ps => runMulti fs nch ps parts

/-! ## literal meaning -/

/-- delay by `k` samples: `k` zeros shifted in at the front, the last `k` samples dropped -/
def delayBy (k : Nat) (l : List α) : List α := (zeros k ++ l).take l.length

mutual
/-- The literal denotation of a track spec on the whole input `x` (all frames): inputs summed,
scaled by the gains, delayed by the coefficient delay rounded to whole samples. Not defined through
`simplify` or the processors. -/
def meaning (fs : Int) (nch : Nat) : Spec α → List (List α) → List α
  | .direct i, x =>
    match chanIdx nch i with
    | some k => x.map (fun fr => fr.getD k Sample.zero)
    | none => zeros x.length
  | .silent, x => zeros x.length
  | .mix ts, x => vsum x.length (meaningList fs nch ts x)
  | .gain t g, x => (meaning fs nch t x).map (· * g)
  | .matrix t g d, x =>
    let s := scaleOpt g (meaning fs nch t x)
    match d with
    | none => s
    | some ms => delayBy (delaySamples fs ms).toNat s
def meaningList (fs : Int) (nch : Nat) : List (Spec α) → List (List α) → List (List α)
  | [], _ => []
  | t :: ts, x => meaning fs nch t x :: meaningList fs nch ts x
end

/-! ## specs inside the property's quantifier -/

mutual
/-- The specs the literal meaning is defined for, at sample rate `fs` on `nch` input channels: every
direct index names a column numpy accepts, every coefficient delay rounds to `≥ 0` samples. For any
other spec the real code raises (`IndexError`, `AssertionError` from `Delay.__init__`) if the
offending node survives simplification. -/
def Spec.wf (fs : Int) (nch : Nat) : Spec α → Bool
  | .direct i => (chanIdx nch i).isSome
  | .silent => true
  | .mix ts => Spec.wfList fs nch ts
  | .gain t _ => t.wf fs nch
  | .matrix t _ d =>
    t.wf fs nch && (match d with | none => true | some ms => decide (0 ≤ delaySamples fs ms))
def Spec.wfList (fs : Int) (nch : Nat) : List (Spec α) → Bool
  | [] => true
  | t :: ts => t.wf fs nch && Spec.wfList fs nch ts
end

mutual
/-- No `MixTrackSpec([])` anywhere: what `_track_spec_processor` needs (`MixProcessor` asserts it). -/
def Spec.buildable : Spec α → Bool
  | .direct _ => true
  | .silent => true
  | .mix ts => !ts.isEmpty && Spec.buildableList ts
  | .gain t _ => t.buildable
  | .matrix t _ _ => t.buildable
def Spec.buildableList : List (Spec α) → Bool
  | [] => true
  | t :: ts => t.buildable && Spec.buildableList ts
end

/-- cut `l` into consecutive pieces of the given lengths -/
def chunks : List Nat → List α → List (List α)
  | [], _ => []
  | n :: ns, l => l.take n :: chunks ns (l.drop n)

/-- Block-wise stacking of per-spec outputs: block `k` of the result is `np.stack` of block `k` of every run.
`runs` holds, per spec, the list of its output blocks. -/
def stackRuns : List Nat → List (List (List α)) → List (List (List α))
  | [], _ => []
  | n :: ns, runs => stack n (runs.map (fun r => r.headD [])) :: stackRuns ns (runs.map List.tail)

/-- a coefficient delay applied to a whole signal (`None`: no delay) -/
def delayOpt (fs : Int) (d : Option Rat) (l : List α) : List α :=
  match d with
  | none => l
  | some ms => delayBy (delaySamples fs ms).toNat l

/-! ## `MatrixAllocationPack.output_channel_allocation` -/

/-- A channel as seen by `get_track_spec(channel_format)`: either a channel of the input allocation
(with the track spec `_PackAllocator.get_track_spec(alloc_track)` gives it), or a matrix channel with
its single block format's coefficients (each naming its `inputChannelFormat`, `gain`, `delay`) and
the block format `gain`. -/
inductive MChan (α : Type) where
  | input (spec : Spec α)
  | matrixCh (coeffs : List (MChan α × Option α × Option Rat)) (gain : α)

mutual
/-- `get_track_spec(channel_format)` inside `output_channel_allocation` -/
def packSpec : MChan α → Spec α
  | .input s => s
  | .matrixCh cs g => .gain (.mix (packCoeffs cs)) g
/-- `[MatrixCoefficientTrackSpec(get_track_spec(coeff.inputChannelFormat), coeff) for coeff in block_format.matrix]` -/
def packCoeffs : List (MChan α × Option α × Option Rat) → List (Spec α)
  | [] => []
  | (c, g, d) :: cs => .matrix (packSpec c) g d :: packCoeffs cs
end


/-! ## the delay in samples as the code computes it: in binary64

`int(math.ceil((sample_rate * self.coefficient.delay) / 1000.0 - 0.5))` with `sample_rate` a Python
`int` and `coefficient.delay` a Python `float`: the `int` is converted to binary64, the product, the
quotient and the difference are each rounded to nearest-even (`Ieee.rn53`; the exponent range is not
modelled: sample rates and delays are far from overflow/underflow), `math.ceil` and `int` are exact.
`delaySamples` above is the same expression in exact arithmetic (= "the delay rounded to the nearest
sample"); the two differ when `sample_rate·delay/1000` is within a few units in the last place of a
half-integer (`Props/C20.lean: float_delay_counterexample`). -/

/-- `int(math.ceil((sample_rate * delay) / 1000.0 - 0.5))` in binary64; `ms` is the exact value of the
Python float `coefficient.delay`. -/
def delaySamplesF (fs : Int) (ms : Rat) : Int :=
  (Ieee.rn53 (Ieee.rn53 (Ieee.rn53 (Ieee.rn53 (fs : Rat) * ms) / 1000) - 1 / 2)).ceil

/-- `MatrixCoefficientProcessor.init_delay` with the ms → samples conversion `ds` as a parameter
(`ds = delaySamplesF`: the code; `ds = delaySamples`: `initDelay`). -/
def initDelayG (ds : Int → Rat → Int) (fs : Int) (ms : Rat) (st : Option (Int × List α)) :
    Except Err (Int × List α) :=
  match st with
  | none =>
    let k := ds fs ms
    if k < 0 then .error .negDelay else .ok (fs, zeros k.toNat)
  | some (fs0, mem) => if fs0 = fs then .ok (fs0, mem) else .error .sampleRate

mutual
/-- `step` with the conversion `ds`: the same transliteration of `processor.process`, only
`init_delay` differs. -/
def stepG (ds : Int → Rat → Int) (fs : Int) (nch : Nat) : Proc α → List (List α) → Except Err (Proc α × List α)
  | .silent, b => .ok (.silent, zeros b.length)
  | .direct i, b =>
    match chanIdx nch i with
    | none => .error .index
    | some k => .ok (.direct i, b.map (fun fr => fr.getD k Sample.zero))
  | .mix ps, b =>
    match stepListG ds fs nch ps b with
    | .error e => .error e
    | .ok (ps', outs) => .ok (.mix ps', vsum b.length outs)
  | .gain p g, b =>
    match stepG ds fs nch p b with
    | .error e => .error e
    | .ok (p', s) => .ok (.gain p' g, s.map (· * g))
  | .matrix p g d st, b =>
    match stepG ds fs nch p b with
    | .error e => .error e
    | .ok (p', s) =>
      let s := scaleOpt g s
      match d with
      | none => .ok (.matrix p' g d st, s)
      | some ms =>
        match initDelayG ds fs ms st with
        | .error e => .error e
        | .ok (fs0, mem) =>
          let r := delayProcess mem s
          .ok (.matrix p' g d (some (fs0, r.2)), r.1)
def stepListG (ds : Int → Rat → Int) (fs : Int) (nch : Nat) :
    List (Proc α) → List (List α) → Except Err (List (Proc α) × List (List α))
  | [], _ => .ok ([], [])
  | p :: ps, b =>
    match stepG ds fs nch p b with
    | .error e => .error e
    | .ok (p', o) =>
      match stepListG ds fs nch ps b with
      | .error e => .error e
      | .ok (ps', os) => .ok (p' :: ps', o :: os)
end

/-- `runR` with the conversion `ds` -/
def runRG (ds : Int → Rat → Int) (nch : Nat) : Proc α → List (Int × List (List α)) → Except Err (List (List α))
  | _, [] => .ok []
  | p, (fs, b) :: rest =>
    match stepG ds fs nch p b with
    | .error e => .error e
    | .ok (p', o) =>
      match runRG ds nch p' rest with
      | .error e => .error e
      | .ok os => .ok (o :: os)

/-- `run` with the conversion `ds` -/
def runG (ds : Int → Rat → Int) (fs : Int) (nch : Nat) : Proc α → List (List (List α)) → Except Err (List (List α))
  | _, [] => .ok []
  | p, b :: rest =>
    match stepG ds fs nch p b with
    | .error e => .error e
    | .ok (p', o) =>
      match runG ds fs nch p' rest with
      | .error e => .error e
      | .ok os => .ok (o :: os)

/-- `p = TrackProcessor(spec); [p.process(fs, b) for b in parts]` as the code computes it (delays
converted in binary64) -/
def runSpecF [DecidableEq α] (fs : Int) (nch : Nat) (s : Spec α) (parts : List (List (List α))) :
    Except Err (List (List α)) :=
  match build (simplify s) with
  | .error e => .error e
  | .ok p => runG delaySamplesF fs nch p parts

/-- `MultiTrackProcessor.process` with the conversion `ds` -/
def stepMultiG (ds : Int → Rat → Int) (fs : Int) (nch : Nat) (ps : List (Proc α)) (b : List (List α)) :
    Except Err (List (Proc α) × List (List α)) :=
  match stepListG ds fs nch ps b with
  | .error e => .error e
  | .ok (ps', cols) =>
    if cols.isEmpty then .error .emptyStack else .ok (ps', stack b.length cols)

def runMultiG (ds : Int → Rat → Int) (fs : Int) (nch : Nat) :
    List (Proc α) → List (List (List α)) → Except Err (List (List (List α)))
  | _, [] => .ok []
  | ps, b :: rest =>
    match stepMultiG ds fs nch ps b with
    | .error e => .error e
    | .ok (ps', o) =>
      match runMultiG ds fs nch ps' rest with
      | .error e => .error e
      | .ok os => .ok (o :: os)

/-- `MultiTrackProcessor(specs)` run as the code computes it -/
def runMultiSpecF [DecidableEq α] (fs : Int) (nch : Nat) (ss : List (Spec α)) (parts : List (List (List α))) :
    Except Err (List (List (List α))) :=
  match buildMulti ss with
  | .error e => .error e
  | .ok ps => runMultiG delaySamplesF fs nch ps parts

mutual
/-- every coefficient delay of the spec converts to the same number of samples in binary64 as in
exact arithmetic at sample rate `fs` (decidable; `Props/C20.lean: delaySamplesF_eq_of_margin` gives a
sufficient condition) -/
def Spec.floatExact (fs : Int) : Spec α → Bool
  | .direct _ => true
  | .silent => true
  | .mix ts => Spec.floatExactList fs ts
  | .gain t _ => t.floatExact fs
  | .matrix t _ d =>
    t.floatExact fs && (match d with | none => true | some ms => decide (delaySamplesF fs ms = delaySamples fs ms))
def Spec.floatExactList (fs : Int) : List (Spec α) → Bool
  | [] => true
  | t :: ts => t.floatExact fs && Spec.floatExactList fs ts
end

mutual
/-- the same for a processor tree -/
def Proc.floatExact (fs : Int) : Proc α → Bool
  | .direct _ => true
  | .silent => true
  | .mix ps => Proc.floatExactList fs ps
  | .gain p _ => p.floatExact fs
  | .matrix p _ d _ =>
    p.floatExact fs && (match d with | none => true | some ms => decide (delaySamplesF fs ms = delaySamples fs ms))
def Proc.floatExactList (fs : Int) : List (Proc α) → Bool
  | [] => true
  | p :: ps => p.floatExact fs && Proc.floatExactList fs ps
end

/-! ## the literal meaning, strict

An independent statement of "inputs summed, scaled by the gains, delayed by the coefficient delay
rounded to the nearest sample", defined only on rectangular input: `none` if a frame does not have
`nch` samples, if a direct index is outside `[-nch, nch)`, if the summands of a mix have different
lengths or if a delay rounds to a negative number of samples.  It shares no helper with `step` /
`meaning` (`chanIdx`, `getD`, `vsum`/`zipWith`, `delayBy` are not used). -/

/-- column of a direct track index: Python's negative indices count from the end; `none` outside -/
def colStrict (nch : Nat) (i : Int) : Option Nat :=
  if 0 ≤ i then (if i < nch then some i.toNat else none)
  else (if -(nch : Int) ≤ i then some (i + nch).toNat else none)

/-- sample `k` of every frame; `none` if a frame is not `nch` wide or has no sample `k` -/
def columnStrict (nch k : Nat) : List (List α) → Option (List α)
  | [] => some []
  | fr :: rest =>
    if fr.length = nch then
      match fr[k]?, columnStrict nch k rest with
      | some v, some vs => some (v :: vs)
      | _, _ => none
    else none

/-- element-wise sum of two signals of the same length; `none` otherwise -/
def addStrict : List α → List α → Option (List α)
  | [], [] => some []
  | a :: as, b :: bs => (addStrict as bs).map (fun r => (a + b) :: r)
  | _, _ => none

/-- `acc + l₁ + l₂ + …` from the left (the order of `output += …`; `+` is not assumed associative) -/
def sumStrictFrom (acc : List α) : List (List α) → Option (List α)
  | [] => some acc
  | l :: ls =>
    match addStrict acc l with
    | some a => sumStrictFrom a ls
    | none => none

/-- sum of signals of length `n`, starting from `n` zeros -/
def sumStrict (n : Nat) (ls : List (List α)) : Option (List α) :=
  sumStrictFrom (List.replicate n Sample.zero) ls

/-- the signal delayed by `k` samples: sample `j` of the output is sample `j - k` of the input, zero
for `j < k` -/
def shiftStrict (k : Nat) (l : List α) : List α :=
  (List.range l.length).map fun j => if j < k then Sample.zero else (l[j - k]?).getD Sample.zero

mutual
def meaningStrict (fs : Int) (nch : Nat) : Spec α → List (List α) → Option (List α)
  | .direct i, x =>
    match colStrict nch i with
    | some k => columnStrict nch k x
    | none => none
  | .silent, x => if x.all (fun fr => fr.length == nch) then some (List.replicate x.length Sample.zero) else none
  | .mix ts, x =>
    if x.all (fun fr => fr.length == nch) then
      match meaningStrictList fs nch ts x with
      | some ls => sumStrict x.length ls
      | none => none
    else none
  | .gain t g, x => (meaningStrict fs nch t x).map (fun l => l.map (· * g))
  | .matrix t g d, x =>
    match meaningStrict fs nch t x with
    | none => none
    | some l =>
      let s := match g with | some g => l.map (· * g) | none => l
      match d with
      | none => some s
      | some ms =>
        -- the delay rounded to the nearest sample (`delay_rounding`: k - 1/2 < fs·ms/1000 ≤ k + 1/2)
        let k := delaySamples fs ms
        if k < 0 then none else some (shiftStrict k.toNat s)
def meaningStrictList (fs : Int) (nch : Nat) : List (Spec α) → List (List α) → Option (List (List α))
  | [], _ => some []
  | t :: ts, x =>
    match meaningStrict fs nch t x, meaningStrictList fs nch ts x with
    | some l, some ls => some (l :: ls)
    | _, _ => none
end

end

end Earverif.TrackSpec
