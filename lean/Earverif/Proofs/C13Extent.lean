/- C13: the polar `pan` of the real `GainCalc.render` is `extent_pan(position, 0, 0, 0)` = `PolarExtentHandler.handle`
   with zero extent (`GainCalc.polarPointPan`), not the bare point-source panner.  At a locked loudspeaker the position
   handed to it is `layout.norm_positions[k]`, whose binary64 coordinates are NOT exactly of unit length (squared norm
   `1 ± 1e-16`).  Over ℝ, below distance 1 `extent_mod(0, d)` is positive, `ammount_spread` is tiny but non-zero, and
   `calc_pv_spread` returns `sqrt(1 − ammount_spread) · e_k` — still exactly one loudspeaker, scaled by `s ∈ [√(1−1e-10), 1]`.

   * `extentMod_zero_near` / `inPointClass_of_near`: distance ≥ 1 − 1e-12 is in the point-only class (`ammount_spread ≤ 1e-10`)
   * `polarPointPan_at_unit`: where the point-source panner answers `e_k`, `polarPointPan` answers `s · e_k`
   * `renderPolar_scale`: the polar tail is homogeneous: a panner answer scaled by `s ≥ 0` = the gain scaled by `s` -/
import Earverif.Proofs.C01Far
import Earverif.Proofs.C01Psp
import Earverif.Proofs.C13PolarLock

namespace Earverif.GainCalc

/-- `arg(d + 0.2i) − arg(1 + 0.2i)` for `1/2 ≤ d ≤ 1`: non-negative and at most `(π/2)·(2/5)(1 − d)` (Jordan) -/
theorem arg_near (d : ℝ) (h0 : 1 / 2 ≤ d) (h1 : d ≤ 1) :
    0 ≤ Complex.arg ⟨d, 1 / 5⟩ - Complex.arg ⟨1, 1 / 5⟩ ∧
    Complex.arg ⟨d, 1 / 5⟩ - Complex.arg ⟨1, 1 / 5⟩ ≤ Real.pi / 2 * ((1 - d) * (2 / 5)) ∧
    Complex.arg ⟨1, 1 / 5⟩ ≤ Real.pi / 10 := by
  set z1 : ℂ := ⟨1, 1 / 5⟩ with hz1
  set zd : ℂ := ⟨d, 1 / 5⟩ with hzd
  have hz1ne : z1 ≠ 0 := by
    intro h; have := congrArg Complex.im h; simp [hz1] at this
  have hzdne : zd ≠ 0 := by
    intro h; have := congrArg Complex.im h; simp [hzd] at this
  have hr1pos : 0 < ‖z1‖ := norm_pos_iff.mpr hz1ne
  have hrdpos : 0 < ‖zd‖ := norm_pos_iff.mpr hzdne
  have hr1sq : ‖z1‖ ^ 2 = 26 / 25 := by
    rw [Complex.sq_norm, Complex.normSq_apply]; simp only [hz1]; norm_num
  have hrdsq : ‖zd‖ ^ 2 = d * d + 1 / 25 := by
    rw [Complex.sq_norm, Complex.normSq_apply]; simp only [hzd]; norm_num
  have hr1ge : 1 ≤ ‖z1‖ := by nlinarith
  have hrdge : 1 / 2 ≤ ‖zd‖ := by nlinarith
  have hsin : Real.sin (zd.arg - z1.arg) = (1 - d) / (5 * ‖zd‖ * ‖z1‖) := by
    rw [Real.sin_sub, Complex.sin_arg, Complex.sin_arg, Complex.cos_arg hz1ne, Complex.cos_arg hzdne]
    simp only [hz1, hzd]
    field_simp
  have hge : 0 ≤ Real.sin (zd.arg - z1.arg) := by
    rw [hsin]; exact div_nonneg (by linarith) (by positivity)
  have hθd : 0 ≤ zd.arg := Complex.arg_nonneg_iff.mpr (by simp [hzd])
  have hθd' : zd.arg ≤ Real.pi / 2 := Complex.arg_le_pi_div_two_iff.mpr (Or.inl (by simp [hzd]; linarith))
  have hθ1 : 0 ≤ z1.arg := Complex.arg_nonneg_iff.mpr (by simp [hz1])
  have hθ1' : z1.arg ≤ Real.pi / 2 := Complex.arg_le_pi_div_two_iff.mpr (Or.inl (by simp [hz1]))
  have hpi := Real.pi_pos
  have hnn : 0 ≤ zd.arg - z1.arg := by
    by_contra hneg
    rcases (lt_or_eq_of_le hge) with hpos | hzero
    · have := Real.sin_neg_of_neg_of_neg_pi_lt (not_le.mp hneg) (by linarith)
      linarith
    · have := Real.sin_neg_of_neg_of_neg_pi_lt (not_le.mp hneg) (by linarith)
      linarith
  have hle : Real.sin (zd.arg - z1.arg) ≤ (1 - d) * (2 / 5) := by
    rw [hsin, div_le_iff₀ (by positivity)]
    have h52 : 5 / 2 ≤ 5 * ‖zd‖ * ‖z1‖ := by nlinarith
    nlinarith
  have hj := Real.mul_le_sin hnn (by linarith)
  have hj1 := Real.mul_le_sin hθ1 hθ1'
  have hs1 : Real.sin z1.arg ≤ 1 / 5 := by
    rw [Complex.sin_arg]
    simp only [hz1]
    rw [div_le_iff₀ hr1pos]; linarith
  have key : ∀ x y : ℝ, 2 / Real.pi * x ≤ y → x ≤ Real.pi / 2 * y := by
    intro x y hxy
    have h2 : 2 / Real.pi * x = x * 2 / Real.pi := by ring
    rw [h2, div_le_iff₀ hpi] at hxy
    linarith
  refine ⟨hnn, key _ _ (le_trans hj hle), ?_⟩
  have := key _ _ (le_trans hj1 hs1)
  linarith

/-- `extent_mod(0, d)` just below distance 1 (binary64 unit vectors): between 0 and 1e-9 -/
theorem extentMod_zero_near (d : ℝ) (h0 : 1 - 1 / 1000000000000 ≤ d) (h1 : d ≤ 1) :
    0 ≤ extentMod (zero : ℝ) d ∧ extentMod (zero : ℝ) d ≤ 1 / 1000000000 := by
  obtain ⟨hnn, hup, hθ1⟩ := arg_near d (by linarith) h1
  have hθ10 : 0 ≤ Complex.arg ⟨1, 1 / 5⟩ := Complex.arg_nonneg_iff.mpr (by norm_num)
  have hpi := Real.pi_pos
  set c : ℝ := 180 / Real.pi with hc
  have hc0 : 0 < c := div_pos (by norm_num) hpi
  have hcpi : c * Real.pi = 180 := by rw [hc]; field_simp
  set e1 : ℝ := 4 * (Complex.arg ⟨1, 1 / 5⟩ * c) with he1
  set X : ℝ := 4 * (Complex.arg ⟨d, 1 / 5⟩ * c) with hX
  have he10 : 0 ≤ e1 := by rw [he1]; positivity
  have he172 : e1 ≤ 72 := by
    have : Complex.arg ⟨1, 1 / 5⟩ * c ≤ Real.pi / 10 * c := mul_le_mul_of_nonneg_right hθ1 hc0.le
    rw [he1]; nlinarith
  have hXe : e1 ≤ X := by
    have : 0 ≤ (Complex.arg ⟨d, 1 / 5⟩ - Complex.arg ⟨1, 1 / 5⟩) * c := mul_nonneg hnn hc0.le
    rw [he1, hX]; nlinarith
  have hXup : X - e1 ≤ 144 * (1 - d) := by
    have : (Complex.arg ⟨d, 1 / 5⟩ - Complex.arg ⟨1, 1 / 5⟩) * c ≤ Real.pi / 2 * ((1 - d) * (2 / 5)) * c :=
      mul_le_mul_of_nonneg_right hup hc0.le
    have h2 : Real.pi / 2 * ((1 - d) * (2 / 5)) * c = (c * Real.pi) * ((1 - d) / 5) := by ring
    rw [h2, hcpi] at this
    rw [he1, hX]; nlinarith
  have h15 : ((1 / 5 : ℚ) : ℝ) = 1 / 5 := by norm_num
  have h360 : ((360 : ℚ) : ℝ) = 360 := by norm_num
  have h180 : ((180 : ℚ) : ℝ) = 180 := by norm_num
  have h4 : ((4 : ℚ) : ℝ) = 4 := by norm_num
  have hsize : interp (0 : ℝ) [0, 360] [((1 / 5 : ℚ) : ℝ), 1] = 1 / 5 := by
    simp only [interp, le_refl, if_true, h15]
  have hat : ∀ y x : ℝ, Scalar.atan2 y x = Complex.arg ⟨x, y⟩ := fun _ _ => rfl
  simp only [extentMod, degrees, k_real, h4, h180, pi_real, zero_real, one_real, h360, hsize, hat]
  show 0 ≤ interp X [0, e1, 360] [0, 0, 360] ∧ interp X [0, e1, 360] [0, 0, 360] ≤ 1 / 1000000000
  have hq : 360 / (360 - e1) ≤ 5 / 4 := by
    rw [div_le_iff₀ (by linarith)]; linarith
  have hq0 : 0 ≤ 360 / (360 - e1) := div_nonneg (by norm_num) (by linarith)
  have hδ0 : 0 ≤ X - e1 := by linarith
  have hδ : X - e1 ≤ 144 / 1000000000000 := by linarith
  have hprod : 360 / (360 - e1) * (X - e1) ≤ 5 / 4 * (144 / 1000000000000) :=
    mul_le_mul hq hδ hδ0 (by norm_num)
  have hprod0 : 0 ≤ 360 / (360 - e1) * (X - e1) := mul_nonneg hq0 hδ0
  simp only [interp, interp.go, eqS_eq_decide, decide_eq_true_eq, sub_zero, add_zero]
  split_ifs <;> refine ⟨?_, ?_⟩ <;> linarith

/-- **every position at distance ≥ 1 − 1e-12 is in the point-only class** (extends `inPointClass_of_far` to the
    binary64 unit vectors `layout.norm_positions[k]`, whose exact length is `1 ± 1e-16`) -/
theorem inPointClass_of_near (pos : V3 ℝ) (h : 1 - 1 / 1000000000000 ≤ norm3 pos) : InPointClass pos := by
  by_cases hfar : 1 ≤ norm3 pos
  · exact inPointClass_of_far pos hfar
  · have hpd : polarDistances (norm3 pos) (zero : ℝ) = [norm3 pos] := by
      simp only [polarDistances]
      rw [if_pos ((eqS_real _ _).mpr rfl)]
    obtain ⟨hW0, hW1⟩ := extentMod_zero_near (norm3 pos) h (le_of_lt (not_le.mp hfar))
    refine ⟨extentMod (zero : ℝ) (norm3 pos), extentMod (zero : ℝ) (norm3 pos),
      by simp only [polarExtents, hpd, List.map_cons, List.map_nil], ?_⟩
    set W := extentMod (zero : ℝ) (norm3 pos) with hWdef
    have hmax : maxS W W = W := by simp [maxS]
    have h10 : ((10 : ℚ) : ℝ) = 10 := by norm_num
    have hk : ((1 / 10000000000 : ℚ) : ℝ) = 1 / 10000000000 := by norm_num
    simp only [amountSpread, hmax, interp, interp.go, zero_real, one_real, k_real, h10, hk, eqS_eq_decide,
      decide_eq_true_eq]
    split_ifs <;> linarith

/-- `ammount_spread` of a position in the point-only class: in `[0, 1e-10]` -/
theorem InPointClass.spread {pos : V3 ℝ} (h : InPointClass pos) :
    ∃ w hh, polarExtents (norm3 pos) (zero : ℝ) zero zero = [(w, hh)] ∧ 0 ≤ amountSpread w hh ∧
      amountSpread w hh ≤ 1 / 10000000000 := by
  obtain ⟨w, hh, he, hs⟩ := h
  refine ⟨w, hh, he, (amountSpread_range w hh).1, ?_⟩
  have hk : ((1 / 10000000000 : ℚ) : ℝ) = 1 / 10000000000 := by norm_num
  simp only [k_real, hk] at hs
  exact not_lt.mp hs

/-- **`PolarExtentHandler.handle(position, 0, 0, 0)` where the point-source panner answers `e_k`**: the answer is
    `s · e_k` with `s = sqrt(1 − ammount_spread)`, `1 − 1e-10 ≤ s² ≤ 1` — exactly one loudspeaker, exact zeros elsewhere -/
theorem polarPointPan_at_unit (E : LayoutEnv ℝ) (L : PointSource.RawLayout) (pos : V3 ℝ) (n i : Nat) (hn : E.n = n)
    (hc : InPointClass pos) (hp : pspHandle L pos = some (Earverif.C13.unitR n i)) :
    ∃ s : ℝ, 0 ≤ s ∧ s ≤ 1 ∧ 1 - 1 / 10000000000 ≤ s * s ∧ (1 ≤ norm3 pos → s = 1) ∧
      polarPointPan E L pos = some ((Earverif.C13.unitR n i).map (· * s)) := by
  obtain ⟨w, hh, he, ha0, ha1⟩ := hc.spread
  have hk : ((1 / 10000000000 : ℚ) : ℝ) = 1 / 10000000000 := by norm_num
  have hs : ¬ (k (1 / 10000000000) : ℝ) < amountSpread w hh := by
    simp only [k_real, hk]; exact not_lt.mpr ha1
  have hpt : (k (1 / 10000000000) : ℝ) < one - amountSpread w hh := by
    simp only [k_real, hk, one_real]; linarith
  refine ⟨Real.sqrt (1 - amountSpread w hh), Real.sqrt_nonneg _, ?_, ?_, ?_, ?_⟩
  · exact Real.sqrt_le_iff.mpr ⟨by norm_num, by rw [one_pow]; linarith⟩
  · rw [Real.mul_self_sqrt (by linarith)]; linarith
  · intro hfar
    have hpd : polarDistances (norm3 pos) (zero : ℝ) = [norm3 pos] := by
      simp only [polarDistances]
      rw [if_pos ((eqS_real _ _).mpr rfl)]
    simp only [polarExtents, hpd, List.map_cons, List.map_nil, extentMod_zero_far _ hfar, List.cons.injEq,
      Prod.mk.injEq, and_true] at he
    obtain ⟨rfl, rfl⟩ := he
    have : amountSpread (0 : ℝ) 0 = 0 := by simp [amountSpread, maxS, interp]
    rw [this]; simp
  · simp only [polarPointPan, he]
    rw [if_neg hs, hp]
    simp only [Option.map_some, polarHandle, he, List.map_cons, List.map_nil, polarCombine, calcPvSpread, hpt, hs,
      if_true, if_false, Option.some.injEq, hn]
    apply List.ext_getElem
    · simp [vsqrt, vadd, zeros]
    · intro j h1 h2
      have hj : j < n := by simpa using h2
      simp only [vsqrt, vadd, zeros, List.getElem_map, List.getElem_zipWith, List.getElem_replicate, zero_real,
        one_real, sqrt_real, zero_add]
      rcases Earverif.C13.unitR_mem n i _ (List.getElem_mem (l := Earverif.C13.unitR n i) (by simpa using hj)) with h | h
      · rw [h]; simp
      · rw [h]; simp

end Earverif.GainCalc

namespace Earverif.C13
open Earverif.Zone Earverif.Zone.Scalar Earverif.Zone.ScalarSqrt Earverif.Lock Earverif.CartLock

theorem zipWith_scale_sum {β : Type} (f : β → ℝ) (c : ℝ) : ∀ (u : List ℝ) (D : List β),
    (List.zipWith (fun a row => a * f row) (u.map (· * c)) D).sum =
      c * (List.zipWith (fun a row => a * f row) u D).sum := by
  intro u
  induction u with
  | nil => intro D; simp
  | cons a u ih =>
    intro D
    cases D with
    | nil => simp
    | cons r D =>
      simp only [List.map_cons, List.zipWith_cons_cons, List.sum_cons, ih D]
      ring

/-- `sqrt(dot((s·g)**2, D)) = s · sqrt(dot(g**2, D))` for `s ≥ 0` -/
theorem applyDownmix_scale (n : Nat) (g : List ℝ) (s : ℝ) (hs : 0 ≤ s) (D : List (List ℝ)) :
    applyDownmix n (g.map (· * s)) D = (applyDownmix n g D).map (· * s) := by
  unfold applyDownmix
  simp only [List.map_map]
  apply List.map_congr_left
  intro j _
  have hg2 : (List.map ((fun g => Scalar.mul g g) ∘ fun x => x * s) g : List ℝ) =
      (g.map fun g => Scalar.mul g g).map (· * (s * s)) := by
    simp only [List.map_map]
    apply List.map_congr_left
    intro x _
    simp only [Function.comp, real_mul]; ring
  simp only [Function.comp, real_sqrt, dotCol, sumList_real, real_mul, real_zero] at hg2 ⊢
  rw [hg2, zipWith_scale_sum (fun row : List ℝ => row.getD j 0) (s * s), Real.sqrt_mul (mul_self_nonneg s),
    Real.sqrt_mul_self hs, mul_comm]

/-- **the polar tail is homogeneous in the panner's answer**: scaling the (non-negative) per-position gains by `s ≥ 0`
    is scaling the block gain by `s` -/
theorem renderPolar_scale (n : Nat) (gs : List (List (List Nat))) (mask : List Bool) (g : List ℝ) (s gain diffuse : ℝ)
    (hs : 0 ≤ s) (hl : g.length = n) (h0 : ∀ v ∈ g, 0 ≤ v) :
    renderPolar n gs mask [g.map (· * s)] [(Scalar.one : ℝ)] gain diffuse =
      renderPolar n gs mask [g] [(Scalar.one : ℝ)] (s * gain) diffuse := by
  unfold renderPolar zoneHandle
  rw [powerSum_single n g hl h0, powerSum_single n (g.map (· * s)) (by simpa using hl)
    (fun v hv => by
      obtain ⟨x, hx, rfl⟩ := List.mem_map.mp hv
      exact mul_nonneg (h0 x hx) hs)]
  cases (downmixForExcluded n gs mask : Option (List (List ℝ))) with
  | none => rfl
  | some D =>
    simp only [Option.bind_some, applyDownmix_scale n g s hs D, finishGains, real_mul, real_nanToNum, real_sqrt, real_sub,
      real_one, List.map_map, Option.some.injEq, Prod.mk.injEq]
    constructor <;> (apply List.map_congr_left; intro x _; simp only [Function.comp]; ring)

end Earverif.C13
